(* C19 — node identities: rotations / insert / delete keep node ids distinct,
   below the allocation counter and disjoint from the tombstones; an iterator's
   node is always either a live node of its tree or a tombstone. *)
From Coq Require Import ZArith List Bool Lia Sorted Arith.
From ADV Require Import C19.Model C19.Spec C19.ProofsList C19.ProofsLookup C19.ProofsIns C19.ProofsDel C19.ProofsRun C19.ProofsIter.
Import ListNotations.
Open Scope Z_scope.

(* number of nodes of [t] carrying id [k] *)
Fixpoint cnt (k : nat) (t : tree) : nat := match t with
  | E => O
  | N id l _ _ r => ((if Nat.eqb id k then 1 else 0) + cnt k l + cnt k r)%nat end.

Lemma cnt_count_occ k t : cnt k t = count_occ Nat.eq_dec (ids t) k.
Proof.
  induction t as [|id l IHl v b r IHr]; simpl; [reflexivity|].
  rewrite count_occ_app, <- IHl, <- IHr.
  destruct (Nat.eq_dec id k) as [->|Hne].
  - rewrite Nat.eqb_refl. lia.
  - apply Nat.eqb_neq in Hne. rewrite Hne. lia.
Qed.

Lemma cnt_In k t : In k (ids t) <-> (1 <= cnt k t)%nat.
Proof. rewrite cnt_count_occ. rewrite (count_occ_In Nat.eq_dec). lia. Qed.

Lemma cnt_NoDup t : NoDup (ids t) <-> forall k, (cnt k t <= 1)%nat.
Proof.
  rewrite (NoDup_count_occ Nat.eq_dec). split; intros H k; specialize (H k);
    rewrite cnt_count_occ in *; exact H.
Qed.

(* ---- rotations and rebalancing only move ids around ---------------------- *)
Lemma cnt_rotLL k t : cnt k (rotLL t) = cnt k t.
Proof. destruct t as [|io [|i1 a1l v1 b1 a1r] vo bo a2]; simpl; lia. Qed.
Lemma cnt_rotRR k t : cnt k (rotRR t) = cnt k t.
Proof. destruct t as [|io a2 vo bo [|i1 a1l v1 b1 a1r]]; simpl; lia. Qed.
Lemma cnt_rotLR k t : cnt k (rotLR t) = cnt k t.
Proof. destruct t as [|io [|i1 a1l v1 b1 [|i2 a2l v2 b2 a2r]] vo bo r]; simpl; lia. Qed.
Lemma cnt_rotRL k t : cnt k (rotRL t) = cnt k t.
Proof. destruct t as [|io l vo bo [|i1 [|i2 a2l v2 b2 a2r] v1 b1 a1r]]; simpl; lia. Qed.
Lemma cnt_set_bal k t b : cnt k (set_bal t b) = cnt k t.
Proof. destruct t; reflexivity. Qed.

Lemma cnt_balance1 k t : cnt k (fst (balance1 t)) = cnt k t.
Proof.
  destruct t as [|id l v b r]; [reflexivity|]. unfold balance1.
  destruct (b =? -1); [reflexivity|]. destruct (b =? 0); [reflexivity|].
  destruct (0 <=? bal_of r).
  - destruct (bal_of r =? 0); cbn [fst]; [|apply cnt_rotRR].
    rewrite <- (cnt_rotRR k (N id l v b r)).
    destruct (rotRR (N id l v b r)) as [|i' l' v' b' r']; [reflexivity|].
    simpl. rewrite cnt_set_bal. reflexivity.
  - cbn [fst]. apply cnt_rotRL.
Qed.
Lemma cnt_balance2 k t : cnt k (fst (balance2 t)) = cnt k t.
Proof.
  destruct t as [|id l v b r]; [reflexivity|]. unfold balance2.
  destruct (b =? 1); [reflexivity|]. destruct (b =? 0); [reflexivity|].
  destruct (bal_of l <=? 0).
  - destruct (bal_of l =? 0); cbn [fst]; [|apply cnt_rotLL].
    rewrite <- (cnt_rotLL k (N id l v b r)).
    destruct (rotLL (N id l v b r)) as [|i' l' v' b' r']; [reflexivity|].
    simpl. rewrite cnt_set_bal. reflexivity.
  - cbn [fst]. apply cnt_rotLR.
Qed.

Definition one (c : bool) : nat := if c then 1%nat else 0%nat.

(* ---- insert allocates exactly the id [nx] iff it succeeds ----------------- *)
Opaque rotLL rotLR rotRR rotRL.
Lemma ins_ids i : forall t nx t' ok bd nx',
  ins i nx t = (t', ok, bd, nx') ->
  nx' = (if ok then S nx else nx) /\
  forall k, cnt k t' = (cnt k t + one (ok && Nat.eqb nx k))%nat.
Proof.
  induction t as [|id l IHl v b r IHr]; intros nx t' ok bd nx'.
  - simpl. intro H. injection H as ? ? ? ?; subst. split; [reflexivity|].
    intro k. simpl. unfold one. destruct (Nat.eqb nx k); lia.
  - cbn [ins]. destruct (i <? v).
    + destruct (ins i nx l) as [[[l' ok1] bd1] nx1] eqn:Ei.
      destruct (IHl _ _ _ _ _ Ei) as [Hn Hc]. clear IHl IHr.
      destruct ok1; cbn [negb].
      * assert (He : forall t1, (forall k, cnt k t1 = cnt k (N id l' v b r)) ->
                  forall k, cnt k t1 = (cnt k (N id l v b r) + one (true && Nat.eqb nx k))%nat).
        { intros t1 H1 k. rewrite H1. simpl. rewrite Hc. simpl. lia. }
        destruct bd1; [|destruct (b =? 1); [|destruct (b =? 0); [|destruct (bal_of l' =? -1)]]];
          intro H; injection H as ? ? ? ?; subst; (split; [reflexivity|]); apply He; intro k;
          rewrite ?cnt_rotLL, ?cnt_rotLR; reflexivity.
      * intro H. injection H as ? ? ? ?; subst. split; [reflexivity|].
        intro k. simpl. unfold one. lia.
    + destruct (v <? i).
      * destruct (ins i nx r) as [[[r' ok1] bd1] nx1] eqn:Ei.
        destruct (IHr _ _ _ _ _ Ei) as [Hn Hc]. clear IHl IHr.
        destruct ok1; cbn [negb].
        -- assert (He : forall t1, (forall k, cnt k t1 = cnt k (N id l v b r')) ->
                    forall k, cnt k t1 = (cnt k (N id l v b r) + one (true && Nat.eqb nx k))%nat).
           { intros t1 H1 k. rewrite H1. simpl. rewrite Hc. simpl. lia. }
           destruct bd1; [|destruct (b =? -1); [|destruct (b =? 0); [|destruct (bal_of r' =? 1)]]];
             intro H; injection H as ? ? ? ?; subst; (split; [reflexivity|]); apply He; intro k;
             rewrite ?cnt_rotRR, ?cnt_rotRL; reflexivity.
        -- intro H. injection H as ? ? ? ?; subst. split; [reflexivity|].
           intro k. simpl. unfold one. lia.
      * intro H. injection H as ? ? ? ?; subst. split; [reflexivity|].
        intro k. simpl. unfold one. lia.
Qed.
Transparent rotLL rotLR rotRR rotRL.

(* ---- deleteRec+replace removes exactly the id it returns ------------------ *)
Lemma delmax_ids : forall t t' mi mv bd,
  t <> E -> delmax t = (t', mi, mv, bd) ->
  forall k, cnt k t = (cnt k t' + one (Nat.eqb mi k))%nat.
Proof.
  induction t as [|id l _ v b r IHr]; intros t' mi mv bd Hne; [congruence|].
  destruct (tree_E_dec r) as [->|Hre].
  - simpl. intro H. injection H as ? ? ? ?; subst. intro k. simpl. unfold one. lia.
  - rewrite (delmax_N id l v b r Hre).
    destruct (delmax r) as [[[r' mi1] mv1] bd1] eqn:Ed.
    pose proof (IHr _ _ _ _ Hre eq_refl) as Hc. clear IHr.
    cbv zeta. destruct bd1.
    + intro H. injection H as ? ? ? ?; subst. intro k. simpl. rewrite Hc. lia.
    + pose proof (fun k => cnt_balance2 k (N id l v b r')) as B.
      destruct (balance2 (N id l v b r')) as [t2 bd2]. cbn [fst] in B.
      intro H. injection H as ? ? ? ?; subst. intro k. rewrite B. simpl. rewrite Hc. lia.
Qed.

(* ---- delete removes exactly the node it tombstones ------------------------ *)
Lemma del_ids i : forall t t' ok bd d,
  del i t = (t', ok, bd, d) ->
  if ok then exists kd, d = Some kd /\ forall k, cnt k t = (cnt k t' + one (Nat.eqb kd k))%nat
  else True.
Proof.
  induction t as [|id l IHl v b r IHr]; intros t' ok bd d.
  - simpl. intro H. injection H as ? ? ? ?; subst. exact I.
  - destruct (Z.lt_trichotomy i v) as [Hiv|[Hiv|Hiv]].
    + rewrite (del_N_lt i id l v b r Hiv).
      destruct (del i l) as [[[l' ok1] bd1] d1] eqn:Ed.
      pose proof (IHl _ _ _ _ eq_refl) as Hc. clear IHl IHr.
      cbv zeta. destruct ok1.
      * destruct Hc as (kd & -> & Hc). destruct bd1.
        { intro H. injection H as ? ? ? ?; subst. exists kd. split; [reflexivity|].
          intro k. simpl. rewrite Hc. lia. }
        pose proof (fun k => cnt_balance1 k (N id l' v b r)) as B.
        destruct (balance1 (N id l' v b r)) as [t2 bd2]. cbn [fst] in B.
        intro H. injection H as ? ? ? ?; subst. exists kd. split; [reflexivity|].
        intro k. rewrite B. simpl. rewrite Hc. lia.
      * destruct bd1; [|destruct (balance1 (N id l v b r))];
          intro H; injection H as ? ? ? ?; subst; exact I.
    + subst i.
      destruct (tree_E_dec l) as [El|El]; destruct (tree_E_dec r) as [Er|Er].
      * subst l r. rewrite del_N_eq_EE. intro H. injection H as ? ? ? ?; subst.
        exists id. split; [reflexivity|]. intro k. simpl. unfold one. lia.
      * subst l. rewrite (del_N_eq_ER id v b r Er). intro H. injection H as ? ? ? ?; subst.
        exists id. split; [reflexivity|]. intro k. simpl. unfold one. lia.
      * subst r. rewrite (del_N_eq_LE id l v b El). intro H. injection H as ? ? ? ?; subst.
        exists id. split; [reflexivity|]. intro k. simpl. unfold one. lia.
      * rewrite (del_N_eq_LR id l v b r El Er).
        destruct (delmax l) as [[[l' mi] mv] bd1] eqn:Ed.
        pose proof (delmax_ids l l' mi mv bd1 El Ed) as Hc.
        cbv zeta. destruct bd1.
        { intro H. injection H as ? ? ? ?; subst. exists id. split; [reflexivity|].
          intro k. simpl. rewrite Hc. unfold one. lia. }
        pose proof (fun k => cnt_balance1 k (N mi l' mv b r)) as B.
        destruct (balance1 (N mi l' mv b r)) as [t2 bd2]. cbn [fst] in B.
        intro H. injection H as ? ? ? ?; subst. exists id. split; [reflexivity|].
        intro k. rewrite B. simpl. rewrite Hc. unfold one. lia.
    + rewrite (del_N_gt i id l v b r Hiv).
      destruct (del i r) as [[[r' ok1] bd1] d1] eqn:Ed.
      pose proof (IHr _ _ _ _ eq_refl) as Hc. clear IHl IHr.
      cbv zeta. destruct ok1.
      * destruct Hc as (kd & -> & Hc). destruct bd1.
        { intro H. injection H as ? ? ? ?; subst. exists kd. split; [reflexivity|].
          intro k. simpl. rewrite Hc. lia. }
        pose proof (fun k => cnt_balance2 k (N id l v b r')) as B.
        destruct (balance2 (N id l v b r')) as [t2 bd2]. cbn [fst] in B.
        intro H. injection H as ? ? ? ?; subst. exists kd. split; [reflexivity|].
        intro k. rewrite B. simpl. rewrite Hc. lia.
      * destruct bd1; [|destruct (balance2 (N id l v b r))];
          intro H; injection H as ? ? ? ?; subst; exact I.
Qed.

(* ---- lookups return live nodes -------------------------------------------- *)
Lemma leftmost_ids t k v : leftmost t = Some (k, v) -> (1 <= cnt k t)%nat.
Proof.
  induction t as [|id l IHl w b r _]; [discriminate|].
  destruct l as [|i1 l1 v1 b1 r1].
  - simpl. intro H. injection H as ? ?; subst. rewrite Nat.eqb_refl. lia.
  - change (leftmost (N id (N i1 l1 v1 b1 r1) w b r)) with (leftmost (N i1 l1 v1 b1 r1)).
    intro H. specialize (IHl H). change (cnt k (N id (N i1 l1 v1 b1 r1) w b r))
      with (one (Nat.eqb id k) + cnt k (N i1 l1 v1 b1 r1) + cnt k r)%nat. lia.
Qed.

Lemma find_le_ids i t : forall best k v,
  find_le i t best = Some (k, v) -> best = Some (k, v) \/ (1 <= cnt k t)%nat.
Proof.
  induction t as [|id l IHl w b r IHr]; intros best k v; simpl; [auto|].
  assert (Hb : forall bb, (if i <=? w then Some (id, w) else best) = Some bb ->
                          bb = (k, v) -> best = Some (k, v) \/ (1 <= one (Nat.eqb id k))%nat).
  { intros bb H1 H2. subst bb. destruct (i <=? w); [|auto].
    injection H1 as ? ?; subst. rewrite Nat.eqb_refl. right. simpl. lia. }
  destruct (i <? w).
  - intro H. destruct (IHl _ _ _ H) as [H1|H1]; [|right; lia].
    destruct (Hb _ H1 eq_refl) as [H2|H2]; [auto|right; unfold one in H2; lia].
  - destruct (w <? i).
    + intro H. destruct (IHr _ _ _ H) as [H1|H1]; [|right; lia].
      destruct (Hb _ H1 eq_refl) as [H2|H2]; [auto|right; unfold one in H2; lia].
    + intro H. injection H as ? ?; subst. rewrite Nat.eqb_refl. right. lia.
Qed.

Lemma succ_of_ids n t : forall anc k v,
  succ_of n t anc = Some (Some (k, v)) -> anc = Some (k, v) \/ (1 <= cnt k t)%nat.
Proof.
  induction t as [|id l IHl w b r IHr]; intros anc k v; simpl; [discriminate|].
  destruct (Nat.eqb id n).
  - destruct (leftmost r) as [[k' v']|] eqn:El.
    + intro H. injection H as ? ?; subst. apply leftmost_ids in El. right. lia.
    + intro H. injection H as ->. auto.
  - destruct (succ_of n l (Some (id, w))) as [res|] eqn:Es.
    + intro H. injection H as ->. destruct (IHl _ _ _ Es) as [H1|H1]; [|right; lia].
      injection H1 as ? ?; subst. rewrite Nat.eqb_refl. right. lia.
    + intro H. destruct (IHr _ _ _ H) as [H1|H1]; [auto|right; lia].
Qed.

Lemma value_at_none_cnt k t : value_at k t = None <-> cnt k t = O.
Proof.
  induction t as [|id l IHl v b r IHr]; simpl; [tauto|].
  destruct (Nat.eqb id k).
  - split; [discriminate|lia].
  - destruct (value_at k l) as [x|].
    + split; [discriminate|]. intro H. assert (H0 : cnt k l = O) by lia.
      apply IHl in H0. discriminate.
    + rewrite IHr. destruct IHl as [IHl _]. specialize (IHl eq_refl). lia.
Qed.

(* ---- the identity invariant of worlds ------------------------------------- *)
Definition tid (ts : tstate) : Prop :=
  (forall k, (cnt k (tr ts) <= 1)%nat) /\
  (forall k, (nx ts <= k)%nat -> cnt k (tr ts) = O) /\
  (forall k, In k (dead ts) -> (k < nx ts)%nat /\ cnt k (tr ts) = O).

Definition live_or_dead (ts : tstate) (k : nat) : Prop :=
  (1 <= cnt k (tr ts))%nat \/ In k (dead ts).

Definition iid (trs : list tstate) (it : iter) : Prop :=
  forall k, inode it = Some k ->
    (itree it < length trs)%nat /\ live_or_dead (nth (itree it) trs t0) k.

Definition widinv (w : world) : Prop :=
  Forall tid (trees w) /\ Forall (iid (trees w)) (iters w).

Lemma tid_t0 : tid t0.
Proof. split; [|split]; simpl; auto. intros k []. Qed.

Lemma iid_dflt trs : iid trs dflt_iter.
Proof. intros k H. discriminate H. Qed.

Lemma iid_upd trs t ts' it :
  (forall k, live_or_dead (nth t trs t0) k -> live_or_dead ts' k) ->
  iid trs it -> iid (upd t ts' trs) it.
Proof.
  intros H Hi k Hk. destruct (Hi k Hk) as [Hl Hd].
  split; [rewrite upd_length; exact Hl|].
  destruct (Nat.eq_dec t (itree it)) as [Heq|Hne].
  - rewrite <- Heq in *. rewrite nth_upd_same by exact Hl. apply H. exact Hd.
  - rewrite nth_upd_other by exact Hne. exact Hd.
Qed.

Lemma iid_snoc trs x it : iid trs it -> iid (trs ++ [x]) it.
Proof.
  intros Hi k Hk. destruct (Hi k Hk) as [Hl Hd].
  split; [rewrite app_length; simpl; lia|]. rewrite app_nth1 by exact Hl. exact Hd.
Qed.

Lemma iid_start trs t (p : option (nat * Z)) :
  (forall k v, p = Some (k, v) -> (1 <= cnt k (tr (nth t trs t0)))%nat) ->
  iid trs (match p with
           | Some (k, v) => {| itree := t; inode := Some k; ival := v |}
           | None => {| itree := t; inode := None; ival := 0 |} end).
Proof.
  intros H. destruct p as [[k v]|]; [|intros k Hk; discriminate Hk].
  intros k' Hk. simpl in Hk. injection Hk as <-. simpl.
  specialize (H k v eq_refl).
  split; [|left; exact H].
  destruct (Nat.lt_ge_cases t (length trs)) as [Hlt|Hge]; [exact Hlt|].
  rewrite nth_overflow in H by exact Hge. simpl in H. lia.
Qed.

Lemma iter_next_ids trs it : iid trs it -> iid trs (iter_next (nth (itree it) trs t0) it).
Proof.
  intro Hi. unfold iter_next. destruct (inode it) as [n|] eqn:En; [|exact Hi].
  destruct (Hi n En) as [Hl _]. set (ts := nth (itree it) trs t0) in *.
  assert (Hres : forall nxt : option (nat * Z),
            (forall k v, nxt = Some (k, v) -> (1 <= cnt k (tr ts))%nat) ->
            iid trs (match nxt with
                     | Some (k', v') => {| itree := itree it; inode := Some k'; ival := v' |}
                     | None => {| itree := itree it; inode := None; ival := ival it |} end)).
  { intros nxt H. destruct nxt as [[k' v']|]; [|intros k Hk; discriminate Hk].
    intros k Hk. simpl in Hk. injection Hk as <-. simpl. split; [exact Hl|].
    left. apply (H k' v' eq_refl). }
  apply Hres. intros k v.
  destruct (existsb (Nat.eqb n) (dead ts) ||
            match value_at n (tr ts) with Some w => negb (w =? ival it) | None => true end).
  - destruct (wrap64 (ival it + 1) <? ival it); [discriminate|].
    intro H. destruct (find_le_ids _ _ _ _ _ H) as [H1|H1]; [discriminate|exact H1].
  - destruct (succ_of n (tr ts) None) as [res|] eqn:Es; [|discriminate].
    intro H. subst res. destruct (succ_of_ids _ _ _ _ _ Es) as [H1|H1]; [discriminate|exact H1].
Qed.

Lemma widinv_init : widinv init.
Proof. split; simpl; constructor; [apply tid_t0|constructor]. Qed.

Lemma step_ids w o : widinv w -> widinv (fst (step w o)).
Proof.
  intros [Ht Hi].
  destruct o as [t i|t i|t i|t i|t|t|t i|k|k|t]; unfold step; try (split; assumption).
  - (* Ins *)
    pose proof (Forall_nth_d tid (trees w) t t0 Ht tid_t0) as (T1 & T2 & T3).
    set (ts := nth t (trees w) t0) in *.
    destruct (ins i (nx ts) (tr ts)) as [[[t' ok] bd] n] eqn:Ei.
    destruct (ins_ids i _ _ _ _ _ _ Ei) as [Hn Hc]. cbn [fst trees iters].
    assert (Hone : forall k, one (ok && Nat.eqb (nx ts) k) = 1%nat -> ok = true /\ nx ts = k).
    { intros k. destruct ok; simpl; [|discriminate]. destruct (Nat.eqb_spec (nx ts) k); [auto|discriminate]. }
    assert (Hle : forall k, (one (ok && Nat.eqb (nx ts) k) <= 1)%nat).
    { intro k. unfold one. destruct (ok && Nat.eqb (nx ts) k); lia. }
    split.
    + apply Forall_upd; [exact Ht|]. split; [|split]; cbn [tr nx dead].
      * intro k. rewrite Hc. pose proof (Hle k). pose proof (T1 k).
        destruct (Nat.eq_dec (one (ok && Nat.eqb (nx ts) k)) 1) as [H1|H1]; [|lia].
        destruct (Hone k H1) as [_ <-]. rewrite (T2 (nx ts)) by lia. lia.
      * intros k Hk. rewrite Hc. assert (Hk' : (nx ts <= k)%nat) by (destruct ok; lia).
        rewrite (T2 k Hk'). pose proof (Hle k).
        destruct (Nat.eq_dec (one (ok && Nat.eqb (nx ts) k)) 1) as [H1|H1]; [|lia].
        destruct (Hone k H1) as [-> <-]. lia.
      * intros k Hk. destruct (T3 k Hk) as [A B]. split; [destruct ok; lia|].
        rewrite Hc, B. pose proof (Hle k).
        destruct (Nat.eq_dec (one (ok && Nat.eqb (nx ts) k)) 1) as [H1|H1]; [|lia].
        destruct (Hone k H1) as [_ <-]. lia.
    + eapply Forall_impl; [|exact Hi]. intros it. apply iid_upd.
      intros k [H|H]; [left|right; exact H]. cbn [tr]. rewrite Hc. fold ts in H. lia.
  - (* Del *)
    pose proof (Forall_nth_d tid (trees w) t t0 Ht tid_t0) as (T1 & T2 & T3).
    set (ts := nth t (trees w) t0) in *.
    destruct (del i (tr ts)) as [[[t' ok] bd] d] eqn:Ed.
    pose proof (del_ids i _ _ _ _ _ Ed) as Hc. cbn [fst trees iters].
    destruct ok.
    + destruct Hc as (kd & -> & Hc).
      assert (Hkd : (1 <= cnt kd (tr ts))%nat).
      { rewrite Hc. rewrite Nat.eqb_refl. simpl. lia. }
      split.
      * apply Forall_upd; [exact Ht|]. split; [|split]; cbn [tr nx dead].
        -- intro k. pose proof (T1 k). rewrite Hc in H. lia.
        -- intros k Hk. pose proof (T2 k Hk) as H. rewrite Hc in H. lia.
        -- intros k [<-|Hk].
           ++ split.
              ** destruct (Nat.lt_ge_cases kd (nx ts)) as [H|H]; [exact H|].
                 rewrite (T2 kd H) in Hkd. lia.
              ** pose proof (T1 kd) as H. rewrite Hc, Nat.eqb_refl in H. simpl in H. lia.
           ++ destruct (T3 k Hk) as [A B]. split; [exact A|]. rewrite Hc in B. lia.
      * eapply Forall_impl; [|exact Hi]. intros it. apply iid_upd. fold ts.
        intros k [H|H]; [|right; right; exact H]. cbn [tr dead]. unfold live_or_dead. cbn [tr dead].
        rewrite Hc in H. destruct (Nat.eqb_spec kd k) as [->|Hne]; [right; left; reflexivity|].
        left. simpl in H. lia.
    + assert (Hsame : {| tr := tr ts; nx := nx ts;
                         dead := match d with Some k => dead ts | None => dead ts end |} = ts).
      { destruct d; destruct ts; reflexivity. }
      rewrite Hsame. split.
      * apply Forall_upd; [exact Ht|]. repeat split; auto; apply T3; auto.
      * eapply Forall_impl; [|exact Hi]. intros it. apply iid_upd. auto.
  - (* Clone *)
    pose proof (Forall_nth_d tid (trees w) t t0 Ht tid_t0) as (T1 & T2 & T3).
    cbn [fst trees iters]. split.
    + apply Forall_app. split; [exact Ht|]. constructor; [|constructor].
      split; [|split]; cbn [tr nx dead]; auto. intros k [].
    + eapply Forall_impl; [|exact Hi]. intros it. apply iid_snoc.
  - (* ItBegin *)
    cbn [fst trees iters]. split; [exact Ht|]. apply Forall_app. split; [exact Hi|].
    constructor; [|constructor]. apply iid_start. intros k v. apply leftmost_ids.
  - (* ItFrom *)
    cbn [fst trees iters]. split; [exact Ht|]. apply Forall_app. split; [exact Hi|].
    constructor; [|constructor]. apply iid_start. intros k v H.
    destruct (find_le_ids _ _ _ _ _ H) as [H1|H1]; [discriminate|exact H1].
  - (* ItClone *)
    cbn [fst trees iters]. split; [exact Ht|]. apply Forall_app. split; [exact Hi|].
    constructor; [|constructor]. fold dflt_iter. apply Forall_nth_d; [exact Hi|apply iid_dflt].
  - (* Next *)
    cbn [fst trees iters]. split; [exact Ht|]. apply Forall_upd; [exact Hi|].
    fold dflt_iter. apply iter_next_ids. apply Forall_nth_d; [exact Hi|apply iid_dflt].
Qed.

Lemma reach_widinv : forall w, reach w -> widinv w.
Proof. induction 1 as [|w o _ IH _]; [apply widinv_init|apply step_ids; exact IH]. Qed.

Lemma reach_ids_lemma : forall w, reach w ->
  Forall (fun ts => NoDup (ids (tr ts)) /\
                    (forall k, In k (ids (tr ts)) -> (k < nx ts)%nat) /\
                    (forall k, In k (dead ts) -> ~ In k (ids (tr ts)))) (trees w) /\
  Forall (fun it => forall k, inode it = Some k ->
            In k (ids (tr (nth (itree it) (trees w) t0))) \/
            In k (dead (nth (itree it) (trees w) t0))) (iters w).
Proof.
  intros w Hr. destruct (reach_widinv w Hr) as [Ht Hi]. split.
  - eapply Forall_impl; [|exact Ht]. intros ts (T1 & T2 & T3). split; [|split].
    + apply cnt_NoDup. exact T1.
    + intros k Hk. apply cnt_In in Hk.
      destruct (Nat.lt_ge_cases k (nx ts)) as [H|H]; [exact H|]. rewrite (T2 k H) in Hk. lia.
    + intros k Hk Hin. apply cnt_In in Hin. destruct (T3 k Hk) as [_ B]. lia.
  - eapply Forall_impl; [|exact Hi]. intros it H k Hk. destruct (H k Hk) as [_ [A|A]].
    + left. apply cnt_In. exact A.
    + right. exact A.
Qed.

(* the model re-finds when the node is tombstoned, holds another value, or is
   no longer in the tree; in reachable worlds the third case implies the first,
   so the model's test is Go's test  node.Deleted || value != node.Value *)
Lemma refind_faithful_lemma : forall w k n, reach w ->
  let it := nth k (iters w) dflt_iter in
  let ts := nth (itree it) (trees w) t0 in
  inode it = Some n -> value_at n (tr ts) = None -> existsb (Nat.eqb n) (dead ts) = true.
Proof.
  intros w k n Hr it ts Hn Hv. destruct (reach_widinv w Hr) as [_ Hi].
  pose proof (Forall_nth_d (iid (trees w)) (iters w) k dflt_iter Hi (iid_dflt _)) as H.
  fold it in H. destruct (H n Hn) as [_ [A|A]].
  - apply value_at_none_cnt in Hv. fold ts in A. lia.
  - apply existsb_exists. exists n. split; [exact A|apply Nat.eqb_refl].
Qed.
