(* C19 — statement level: balance1 / balance2 on any tree of the shape the code dereferences
   (the case lemmas of ProofsH6 put together). *)
From Coq Require Import ZArith List Bool Lia.
From ADV Require Import C19.Model C19.ModelP C19.ModelW C19.ModelH C19.Spec C19.ProofsIns C19.ProofsH1 C19.ProofsH6.
Import ListNotations.
Open Scope Z_scope.

(* what balance1 / balance2 dereference: a balance field in -1..1 (the switch has no default);
   on the heavy side a child, and the child's inner child when it leans inwards *)
Definition bal1_shape (t : ptree) : Prop := match t with
  | PN _ _ _ b _ r => b = -1 \/ b = 0 \/
      (b = 1 /\ match r with PN _ rl _ br _ _ => 0 <= br \/ rl <> PE | PE => False end)
  | PE => False end.
Definition bal2_shape (t : ptree) : Prop := match t with
  | PN _ l _ b _ _ => b = 1 \/ b = 0 \/
      (b = -1 /\ match l with PN _ _ _ bl _ lr => bl <= 0 \/ lr <> PE | PE => False end)
  | PE => False end.

Lemma rep_upd_root h io l v b b' p r c :
  NoDup (pids (PN io l v b p r)) -> rep h l -> rep h r -> c = live_cell l v b' p r ->
  rep (hupd h io c) (PN io l v b' p r).
Proof.
  intros ND Rl Rr ->. cbn [pids] in ND. inversion ND as [|x xs Hnin _]; subst.
  cbn [rep]. split; [unfold hupd; rewrite Nat.eqb_refl; reflexivity|].
  split; (eapply rep_frame; [eassumption|]); intros a Ha; unfold hupd;
  (destruct (Nat.eqb_spec a io) as [->|]; [exfalso; apply Hnin; apply in_or_app; auto|reflexivity]).
Qed.

Lemma upd_root_frame (h : hheap) io c (t : ptree) l v b p r :
  t = PN io l v b p r -> forall a, ~ In a (pids t) -> hupd h io c a = h a.
Proof.
  intros -> a Ha. unfold hupd. destruct (Nat.eqb_spec a io) as [->|]; [exfalso; apply Ha; left; reflexivity|reflexivity].
Qed.

Lemma balance1_exec : forall f fl h t, NoDup (pids t) -> rep h t -> bal1_shape t ->
  exists s', run_method (7 + f) MBalance1 (pid t) None fl h = Some s' /\
    rep (sh s') (fst (pbalance1 t)) /\
    (forall a, ~ In a (pids t) -> sh s' a = h a) /\ sf s' = (snd (pbalance1 t) || fl)%bool.
Proof.
  intros f fl h [|io l v b p r] ND R S; [destruct S|]. cbn [pid].
  assert (H0 : h io = live_cell l v b p r) by (cbn [rep] in R; tauto).
  assert (Rl : rep h l) by (cbn [rep] in R; tauto).
  assert (Rr : rep h r) by (cbn [rep] in R; tauto).
  destruct S as [->|[->|[-> Sr]]].
  - destruct (balance1_simple (5 + f) fl h io (-1)) as (s' & E & Hh & Hf); [rewrite H0; reflexivity|left; reflexivity|].
    exists s'. split; [exact E|]. rewrite Hh, Hf. cbn [pbalance1 fst snd]. split; [|split].
    + eapply rep_upd_root; [exact ND|exact Rl|exact Rr|rewrite H0; reflexivity].
    + eapply upd_root_frame; reflexivity.
    + reflexivity.
  - destruct (balance1_simple (5 + f) fl h io 0) as (s' & E & Hh & Hf); [rewrite H0; reflexivity|right; reflexivity|].
    exists s'. split; [exact E|]. rewrite Hh, Hf. cbn [pbalance1 fst snd]. split; [|split].
    + eapply rep_upd_root; [exact ND|exact Rl|exact Rr|rewrite H0; reflexivity].
    + eapply upd_root_frame; reflexivity.
    + reflexivity.
  - destruct r as [|i1 rl v1 b1 p1 rr]; [destruct Sr|].
    destruct (Z_le_gt_dec 0 b1) as [Hge|Hlt].
    + exact (balance1_RR f fl h io i1 rl v1 b1 p1 rr v p l ND R Hge).
    + destruct rl as [|i2 a2l v2 b2 p2 a2r]; [exfalso; destruct Sr; [lia|congruence]|].
      assert (Hlt' : b1 < 0) by lia.
      exact (balance1_RL f fl h io i1 i2 rr v1 b1 p1 a2l v2 b2 p2 a2r v p l ND R Hlt').
Qed.

Lemma balance2_exec : forall f fl h t, NoDup (pids t) -> rep h t -> bal2_shape t ->
  exists s', run_method (7 + f) MBalance2 (pid t) None fl h = Some s' /\
    rep (sh s') (fst (pbalance2 t)) /\
    (forall a, ~ In a (pids t) -> sh s' a = h a) /\ sf s' = (snd (pbalance2 t) || fl)%bool.
Proof.
  intros f fl h [|io l v b p r] ND R S; [destruct S|]. cbn [pid].
  assert (H0 : h io = live_cell l v b p r) by (cbn [rep] in R; tauto).
  assert (Rl : rep h l) by (cbn [rep] in R; tauto).
  assert (Rr : rep h r) by (cbn [rep] in R; tauto).
  destruct S as [->|[->|[-> Sl]]].
  - destruct (balance2_simple (5 + f) fl h io 1) as (s' & E & Hh & Hf); [rewrite H0; reflexivity|left; reflexivity|].
    exists s'. split; [exact E|]. rewrite Hh, Hf. cbn [pbalance2 fst snd]. split; [|split].
    + eapply rep_upd_root; [exact ND|exact Rl|exact Rr|rewrite H0; reflexivity].
    + eapply upd_root_frame; reflexivity.
    + reflexivity.
  - destruct (balance2_simple (5 + f) fl h io 0) as (s' & E & Hh & Hf); [rewrite H0; reflexivity|right; reflexivity|].
    exists s'. split; [exact E|]. rewrite Hh, Hf. cbn [pbalance2 fst snd]. split; [|split].
    + eapply rep_upd_root; [exact ND|exact Rl|exact Rr|rewrite H0; reflexivity].
    + eapply upd_root_frame; reflexivity.
    + reflexivity.
  - destruct l as [|i1 ll v1 b1 p1 lr]; [destruct Sl|].
    destruct (Z_le_gt_dec b1 0) as [Hle|Hgt].
    + exact (balance2_LL f fl h io i1 ll v1 b1 p1 lr v p r ND R Hle).
    + destruct lr as [|i2 a2l v2 b2 p2 a2r]; [exfalso; destruct Sl; [lia|congruence]|].
      assert (Hgt' : 0 < b1) by lia.
      exact (balance2_LR f fl h io i1 i2 ll v1 b1 p1 a2l v2 b2 p2 a2r v p r ND R Hgt').
Qed.

(* outside the shape the code panics: a heavy side without a child is a nil dereference *)
Lemma balance1_no_child_panics f fl h io l v p :
  h io = live_cell l v 1 p PE -> run_method f MBalance1 (Some io) None fl h = None.
Proof.
  intro H0. unfold run_method. destruct f as [|f]; [reflexivity|]. cbn [body]. rewrite exec_S.
  unfold balance1_body. cbn [seq]. 
  erewrite step_switch; [|cbn; reflexivity|cbn [sh]; rewrite H0; cbn; reflexivity].
  destruct f as [|f]; [reflexivity|]. rewrite exec_S. cbn [seq].
  unfold step at 1. cbn [eval sh se getv eobj]. rewrite H0. cbn. reflexivity.
Qed.

(* the trees balance1 / balance2 are called on: both subtrees AVL, the Balance field still the
   one from before the left (right) subtree lost one level *)
Lemma bal1_shape_of_avl : forall id l v b p r,
  avl (erase l) -> avl (erase r) -> b = height (erase r) - (height (erase l) + 1) -> -1 <= b <= 1 ->
  bal1_shape (PN id l v b p r).
Proof.
  intros id l v b p r Al Ar Hb Hr. cbn [bal1_shape].
  assert (b = -1 \/ b = 0 \/ b = 1) as [E|[E|E]] by lia; [left; exact E|right; left; exact E|].
  right. right. split; [exact E|].
  pose proof (height_nonneg (erase l)) as Hl.
  destruct r as [|i1 rl v1 b1 p1 rr]; [cbn in Hb; lia|].
  destruct (Z_le_gt_dec 0 b1) as [G|G]; [left; exact G|right].
  destruct rl; [|discriminate]. exfalso.
  cbn [erase avl] in Ar. destruct Ar as (_ & _ & Hb1 & _). cbn [height] in Hb1.
  pose proof (height_nonneg (erase rr)). lia.
Qed.

Lemma bal2_shape_of_avl : forall id l v b p r,
  avl (erase l) -> avl (erase r) -> b = (height (erase r) + 1) - height (erase l) -> -1 <= b <= 1 ->
  bal2_shape (PN id l v b p r).
Proof.
  intros id l v b p r Al Ar Hb Hr. cbn [bal2_shape].
  assert (b = 1 \/ b = 0 \/ b = -1) as [E|[E|E]] by lia; [left; exact E|right; left; exact E|].
  right. right. split; [exact E|].
  pose proof (height_nonneg (erase r)) as Hl.
  destruct l as [|i1 ll v1 b1 p1 lr]; [cbn in Hb; lia|].
  destruct (Z_le_gt_dec b1 0) as [G|G]; [left; exact G|right].
  destruct lr; [|discriminate]. exfalso.
  cbn [erase avl] in Al. destruct Al as (_ & _ & Hb1 & _). cbn [height] in Hb1.
  pose proof (height_nonneg (erase ll)). lia.
Qed.
