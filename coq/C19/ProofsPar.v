(* C19 — stored parent pointers: the pointer-level model ModelP.v erases to
   Model.v, and its stored parents always equal the structural parents. *)
From Coq Require Import ZArith List Bool Lia.
From ADV Require Import C19.Model C19.ModelP C19.Spec C19.ProofsList C19.ProofsLookup C19.ProofsIns C19.ProofsDel.
Import ListNotations.
Open Scope Z_scope.

(* ---- erasure commutes ----------------------------------------------------- *)
Lemma erase_setp t p : erase (setp t p) = erase t.
Proof. destruct t; reflexivity. Qed.
Lemma bal_of_erase t : bal_of (erase t) = pbal_of t.
Proof. destruct t; reflexivity. Qed.
Lemma erase_pset_bal t b : erase (pset_bal t b) = set_bal (erase t) b.
Proof. destruct t; reflexivity. Qed.
Lemma erase_E t : erase t = E <-> t = PE.
Proof. destruct t; simpl; split; intro H; try reflexivity; discriminate. Qed.

Lemma erase_protLL t : erase (protLL t) = rotLL (erase t).
Proof. destruct t as [|io [|i1 a1l v1 b1 p1 a1r] vo bo po a2]; simpl; rewrite ?erase_setp; reflexivity. Qed.
Lemma erase_protRR t : erase (protRR t) = rotRR (erase t).
Proof. destruct t as [|io a2 vo bo po [|i1 a1l v1 b1 p1 a1r]]; simpl; rewrite ?erase_setp; reflexivity. Qed.
Lemma erase_protLR t : erase (protLR t) = rotLR (erase t).
Proof.
  destruct t as [|io [|i1 a1l v1 b1 p1 [|i2 a2l v2 b2 p2 a2r]] vo bo po r]; simpl;
    rewrite ?erase_setp; reflexivity.
Qed.
Lemma erase_protRL t : erase (protRL t) = rotRL (erase t).
Proof.
  destruct t as [|io l vo bo po [|i1 [|i2 a2l v2 b2 p2 a2r] v1 b1 p1 a1r]]; simpl;
    rewrite ?erase_setp; reflexivity.
Qed.

Opaque rotLL rotLR rotRR rotRL protLL protLR protRR protRL.

Lemma pins_erase i : forall t nx par t' ok bd n,
  pins i nx par t = (t', ok, bd, n) -> ins i nx (erase t) = (erase t', ok, bd, n).
Proof.
  induction t as [|id l IHl v b p r IHr]; intros nx par t' ok bd n.
  - simpl. intro H. injection H as ? ? ? ?; subst. reflexivity.
  - cbn [pins erase]. rewrite ins_N. destruct (i <? v).
    + destruct (pins i nx (Some id) l) as [[[l' ok1] bd1] n1] eqn:Ep.
      rewrite (IHl _ _ _ _ _ _ Ep). rewrite bal_of_erase.
      destruct ok1; cbn [negb];
        [destruct bd1; [|destruct (b =? 1); [|destruct (b =? 0); [|destruct (pbal_of l' =? -1)]]]|];
        intro H; injection H as ? ? ? ?; subst; cbn [erase];
        rewrite ?erase_protLL, ?erase_protLR; reflexivity.
    + destruct (v <? i).
      * destruct (pins i nx (Some id) r) as [[[r' ok1] bd1] n1] eqn:Ep.
        rewrite (IHr _ _ _ _ _ _ Ep). rewrite bal_of_erase.
        destruct ok1; cbn [negb];
          [destruct bd1; [|destruct (b =? -1); [|destruct (b =? 0); [|destruct (pbal_of r' =? 1)]]]|];
          intro H; injection H as ? ? ? ?; subst; cbn [erase];
          rewrite ?erase_protRR, ?erase_protRL; reflexivity.
      * intro H. injection H as ? ? ? ?; subst. reflexivity.
Qed.

Lemma pbalance1_erase t : balance1 (erase t) = (erase (fst (pbalance1 t)), snd (pbalance1 t)).
Proof.
  destruct t as [|id l v b p r]; [reflexivity|]. unfold pbalance1, balance1. cbn [erase].
  rewrite bal_of_erase.
  destruct (b =? -1); [reflexivity|]. destruct (b =? 0); [reflexivity|].
  destruct (0 <=? pbal_of r).
  - destruct (pbal_of r =? 0); cbn [fst snd].
    + change (N id (erase l) v b (erase r)) with (erase (PN id l v b p r)).
      rewrite <- erase_protRR.
      destruct (protRR (PN id l v b p r)) as [|i' l' v' b' p' r']; [reflexivity|].
      cbn [erase]. rewrite erase_pset_bal. reflexivity.
    + change (N id (erase l) v b (erase r)) with (erase (PN id l v b p r)).
      rewrite <- erase_protRR. reflexivity.
  - cbn [fst snd]. change (N id (erase l) v b (erase r)) with (erase (PN id l v b p r)).
    rewrite <- erase_protRL. reflexivity.
Qed.
Lemma pbalance2_erase t : balance2 (erase t) = (erase (fst (pbalance2 t)), snd (pbalance2 t)).
Proof.
  destruct t as [|id l v b p r]; [reflexivity|]. unfold pbalance2, balance2. cbn [erase].
  rewrite bal_of_erase.
  destruct (b =? 1); [reflexivity|]. destruct (b =? 0); [reflexivity|].
  destruct (pbal_of l <=? 0).
  - destruct (pbal_of l =? 0); cbn [fst snd].
    + change (N id (erase l) v b (erase r)) with (erase (PN id l v b p r)).
      rewrite <- erase_protLL.
      destruct (protLL (PN id l v b p r)) as [|i' l' v' b' p' r']; [reflexivity|].
      cbn [erase]. rewrite erase_pset_bal. reflexivity.
    + change (N id (erase l) v b (erase r)) with (erase (PN id l v b p r)).
      rewrite <- erase_protLL. reflexivity.
  - cbn [fst snd]. change (N id (erase l) v b (erase r)) with (erase (PN id l v b p r)).
    rewrite <- erase_protLR. reflexivity.
Qed.

Lemma ptree_E_dec (t : ptree) : t = PE \/ t <> PE.
Proof. destruct t; [left; reflexivity|right; discriminate]. Qed.

Lemma pdelmax_N par id l v b p r :
  r <> PE ->
  pdelmax par (PN id l v b p r) =
    let '(r', mi, mv, bd) := pdelmax id r in
    let t1 := PN id l v b p r' in
    if bd then (t1, mi, mv, true)
    else let '(t2, bd2) := pbalance2 t1 in (t2, mi, mv, bd2).
Proof. destruct r; [congruence|reflexivity]. Qed.

Lemma pdelmax_erase : forall t par t' mi mv bd,
  t <> PE -> pdelmax par t = (t', mi, mv, bd) -> delmax (erase t) = (erase t', mi, mv, bd).
Proof.
  induction t as [|id l _ v b p r IHr]; intros par t' mi mv bd Hne; [congruence|].
  destruct (ptree_E_dec r) as [->|Hre].
  - simpl. intro H. injection H as ? ? ? ?; subst. rewrite erase_setp. reflexivity.
  - rewrite (pdelmax_N par id l v b p r Hre). cbn [erase].
    rewrite (delmax_N id (erase l) v b (erase r)) by (rewrite erase_E; exact Hre).
    destruct (pdelmax id r) as [[[r' mi1] mv1] bd1] eqn:Ed.
    rewrite (IHr _ _ _ _ _ Hre Ed). cbv zeta. destruct bd1.
    + intro H. injection H as ? ? ? ?; subst. reflexivity.
    + change (N id (erase l) v b (erase r')) with (erase (PN id l v b p r')).
      rewrite pbalance2_erase. destruct (pbalance2 (PN id l v b p r')) as [t2 bd2]. cbn [fst snd].
      intro H. injection H as ? ? ? ?; subst. reflexivity.
Qed.

Lemma pdel_N_lt i id l v b p r :
  i < v ->
  pdel i (PN id l v b p r) =
    let '(l', ok, bd, d) := pdel i l in
    let t1 := if ok then PN id (setp l' (Some id)) v b p r else PN id l v b p r in
    if bd then (t1, ok, true, d)
    else let '(t2, bd2) := pbalance1 t1 in (t2, ok, bd2, d).
Proof. intro H. simpl. destruct (Z.ltb_spec i v); [reflexivity|lia]. Qed.
Lemma pdel_N_gt i id l v b p r :
  v < i ->
  pdel i (PN id l v b p r) =
    let '(r', ok, bd, d) := pdel i r in
    let t1 := if ok then PN id l v b p (setp r' (Some id)) else PN id l v b p r in
    if bd then (t1, ok, true, d)
    else let '(t2, bd2) := pbalance2 t1 in (t2, ok, bd2, d).
Proof.
  intro H. simpl. destruct (Z.ltb_spec i v); [lia|].
  destruct (Z.ltb_spec v i); [reflexivity|lia].
Qed.
Lemma pdel_N_eq_EE id v b p : pdel v (PN id PE v b p PE) = (PE, true, false, Some id).
Proof. simpl. rewrite Z.ltb_irrefl. reflexivity. Qed.
Lemma pdel_N_eq_LE id l v b p : l <> PE -> pdel v (PN id l v b p PE) = (setp l None, true, false, Some id).
Proof. intro H. destruct l; [congruence|]. simpl. rewrite Z.ltb_irrefl. reflexivity. Qed.
Lemma pdel_N_eq_ER id v b p r : r <> PE -> pdel v (PN id PE v b p r) = (setp r None, true, false, Some id).
Proof. intro H. destruct r; [congruence|]. simpl. rewrite Z.ltb_irrefl. reflexivity. Qed.
Lemma pdel_N_eq_LR id l v b p r :
  l <> PE -> r <> PE ->
  pdel v (PN id l v b p r) =
    let '(l', mi, mv, bd) := pdelmax id l in
    let t1 := PN mi (setp l' (Some mi)) mv b p (setp r (Some mi)) in
    if bd then (t1, true, true, Some id)
    else let '(t2, bd2) := pbalance1 t1 in (t2, true, bd2, Some id).
Proof.
  intros Hl Hr. destruct l; [congruence|]. destruct r; [congruence|].
  cbn [pdel]. rewrite Z.ltb_irrefl. reflexivity.
Qed.

Lemma pdel_erase i : forall t t' ok bd d,
  pdel i t = (t', ok, bd, d) -> del i (erase t) = (erase t', ok, bd, d).
Proof.
  induction t as [|id l IHl v b p r IHr]; intros t' ok bd d.
  - simpl. intro H. injection H as ? ? ? ?; subst. reflexivity.
  - cbn [erase]. destruct (Z.lt_trichotomy i v) as [Hiv|[Hiv|Hiv]].
    + rewrite (pdel_N_lt i id l v b p r Hiv), (del_N_lt i id _ v b _ Hiv).
      destruct (pdel i l) as [[[l' ok1] bd1] d1] eqn:Ed. rewrite (IHl _ _ _ _ eq_refl).
      cbv zeta. destruct bd1.
      * intro H. injection H as ? ? ? ?; subst. destruct ok; cbn [erase]; rewrite ?erase_setp; reflexivity.
      * assert (Ht1 : (if ok1 then N id (erase l') v b (erase r) else N id (erase l) v b (erase r)) =
                      erase (if ok1 then PN id (setp l' (Some id)) v b p r else PN id l v b p r)).
        { destruct ok1; cbn [erase]; rewrite ?erase_setp; reflexivity. }
        rewrite Ht1, pbalance1_erase.
        destruct (pbalance1 (if ok1 then PN id (setp l' (Some id)) v b p r else PN id l v b p r)) as [t2 bd2].
        cbn [fst snd]. intro H. injection H as ? ? ? ?; subst. reflexivity.
    + subst i.
      destruct (ptree_E_dec l) as [El|El]; destruct (ptree_E_dec r) as [Er|Er].
      * subst l r. rewrite pdel_N_eq_EE. cbn [erase]. rewrite del_N_eq_EE.
        intro H. injection H as ? ? ? ?; subst. reflexivity.
      * subst l. rewrite (pdel_N_eq_ER id v b p r Er). cbn [erase].
        rewrite del_N_eq_ER by (rewrite erase_E; exact Er).
        intro H. injection H as ? ? ? ?; subst. rewrite erase_setp. reflexivity.
      * subst r. rewrite (pdel_N_eq_LE id l v b p El). cbn [erase].
        rewrite del_N_eq_LE by (rewrite erase_E; exact El).
        intro H. injection H as ? ? ? ?; subst. rewrite erase_setp. reflexivity.
      * rewrite (pdel_N_eq_LR id l v b p r El Er).
        rewrite del_N_eq_LR by (rewrite erase_E; assumption).
        destruct (pdelmax id l) as [[[l' mi] mv] bd1] eqn:Ed.
        rewrite (pdelmax_erase l id l' mi mv bd1 El Ed). cbv zeta.
        assert (Ht1 : N mi (erase l') mv b (erase r) =
                      erase (PN mi (setp l' (Some mi)) mv b p (setp r (Some mi)))).
        { cbn [erase]. rewrite !erase_setp. reflexivity. }
        rewrite Ht1. destruct bd1.
        -- intro H. injection H as ? ? ? ?; subst. reflexivity.
        -- rewrite pbalance1_erase.
           destruct (pbalance1 (PN mi (setp l' (Some mi)) mv b p (setp r (Some mi)))) as [t2 bd2].
           cbn [fst snd]. intro H. injection H as ? ? ? ?; subst. reflexivity.
    + rewrite (pdel_N_gt i id l v b p r Hiv), (del_N_gt i id _ v b _ Hiv).
      destruct (pdel i r) as [[[r' ok1] bd1] d1] eqn:Ed. rewrite (IHr _ _ _ _ eq_refl).
      cbv zeta. destruct bd1.
      * intro H. injection H as ? ? ? ?; subst. destruct ok; cbn [erase]; rewrite ?erase_setp; reflexivity.
      * assert (Ht1 : (if ok1 then N id (erase l) v b (erase r') else N id (erase l) v b (erase r)) =
                      erase (if ok1 then PN id l v b p (setp r' (Some id)) else PN id l v b p r)).
        { destruct ok1; cbn [erase]; rewrite ?erase_setp; reflexivity. }
        rewrite Ht1, pbalance2_erase.
        destruct (pbalance2 (if ok1 then PN id l v b p (setp r' (Some id)) else PN id l v b p r)) as [t2 bd2].
        cbn [fst snd]. intro H. injection H as ? ? ? ?; subst. reflexivity.
Qed.
Transparent rotLL rotLR rotRR rotRL protLL protLR protRR protRL.

(* ---- stored parents stay equal to the structural parents ------------------ *)
Lemma pwf_setp q0 q t : pwf q0 t -> pwf q (setp t q).
Proof. destruct t; simpl; [auto|]. intros (_ & A & B). auto. Qed.
Lemma pwf_pset_bal q t b : pwf q t -> pwf q (pset_bal t b).
Proof. destruct t; simpl; auto. Qed.

Ltac pwf_solve :=
  simpl in *; intuition (try reflexivity; try assumption; try (eapply pwf_setp; eassumption)).

Lemma protLL_pwf q t : pwf q t -> pwf q (protLL t).
Proof. destruct t as [|io [|i1 a1l v1 b1 p1 a1r] vo bo po a2]; pwf_solve. Qed.
Lemma protRR_pwf q t : pwf q t -> pwf q (protRR t).
Proof. destruct t as [|io a2 vo bo po [|i1 a1l v1 b1 p1 a1r]]; pwf_solve. Qed.
Lemma protLR_pwf q t : pwf q t -> pwf q (protLR t).
Proof. destruct t as [|io [|i1 a1l v1 b1 p1 [|i2 a2l v2 b2 p2 a2r]] vo bo po r]; pwf_solve. Qed.
Lemma protRL_pwf q t : pwf q t -> pwf q (protRL t).
Proof. destruct t as [|io l vo bo po [|i1 [|i2 a2l v2 b2 p2 a2r] v1 b1 p1 a1r]]; pwf_solve. Qed.

Opaque protLL protLR protRR protRL.

Lemma pins_pwf i : forall t nx par t' ok bd n,
  pwf par t -> pins i nx par t = (t', ok, bd, n) -> pwf par t'.
Proof.
  induction t as [|id l IHl v b p r IHr]; intros nx par t' ok bd n Hw.
  - simpl. intro H. injection H as ? ? ? ?; subst. simpl. auto.
  - cbn [pins]. pose proof Hw as (Hp & Hl & Hr). destruct (i <? v).
    + destruct (pins i nx (Some id) l) as [[[l' ok1] bd1] n1] eqn:Ep.
      pose proof (IHl _ _ _ _ _ _ Hl Ep) as Hl'.
      assert (Hn : forall b', pwf par (PN id l' v b' p r)) by (intro; simpl; auto).
      destruct ok1; cbn [negb];
        [destruct bd1; [|destruct (b =? 1); [|destruct (b =? 0); [|destruct (pbal_of l' =? -1)]]]|];
        intro H; injection H as ? ? ? ?; subst; auto using protLL_pwf, protLR_pwf.
    + destruct (v <? i).
      * destruct (pins i nx (Some id) r) as [[[r' ok1] bd1] n1] eqn:Ep.
        pose proof (IHr _ _ _ _ _ _ Hr Ep) as Hr'.
        assert (Hn : forall b', pwf par (PN id l v b' p r')) by (intro; simpl; auto).
        destruct ok1; cbn [negb];
          [destruct bd1; [|destruct (b =? -1); [|destruct (b =? 0); [|destruct (pbal_of r' =? 1)]]]|];
          intro H; injection H as ? ? ? ?; subst; auto using protRR_pwf, protRL_pwf.
      * intro H. injection H as ? ? ? ?; subst. exact Hw.
Qed.

Lemma pbalance1_pwf q t : pwf q t -> pwf q (fst (pbalance1 t)).
Proof.
  destruct t as [|id l v b p r]; [auto|]. intro Hw. unfold pbalance1.
  destruct (b =? -1); [exact Hw|]. destruct (b =? 0); [exact Hw|].
  destruct (0 <=? pbal_of r).
  - pose proof (protRR_pwf q _ Hw) as H.
    destruct (pbal_of r =? 0); cbn [fst]; [|exact H].
    destruct (protRR (PN id l v b p r)) as [|i' l' v' b' p' r']; [exact I|].
    simpl in *. intuition. apply pwf_pset_bal. assumption.
  - cbn [fst]. apply protRL_pwf. exact Hw.
Qed.
Lemma pbalance2_pwf q t : pwf q t -> pwf q (fst (pbalance2 t)).
Proof.
  destruct t as [|id l v b p r]; [auto|]. intro Hw. unfold pbalance2.
  destruct (b =? 1); [exact Hw|]. destruct (b =? 0); [exact Hw|].
  destruct (pbal_of l <=? 0).
  - pose proof (protLL_pwf q _ Hw) as H.
    destruct (pbal_of l =? 0); cbn [fst]; [|exact H].
    destruct (protLL (PN id l v b p r)) as [|i' l' v' b' p' r']; [exact I|].
    simpl in *. intuition. apply pwf_pset_bal. assumption.
  - cbn [fst]. apply protLR_pwf. exact Hw.
Qed.

Lemma pdelmax_pwf : forall t par t' mi mv bd,
  t <> PE -> pwf (Some par) t -> pdelmax par t = (t', mi, mv, bd) -> pwf (Some par) t'.
Proof.
  induction t as [|id l _ v b p r IHr]; intros par t' mi mv bd Hne Hw; [congruence|].
  pose proof Hw as (Hp & Hl & Hr).
  destruct (ptree_E_dec r) as [->|Hre].
  - simpl. intro H. injection H as ? ? ? ?; subst. eapply pwf_setp; eassumption.
  - rewrite (pdelmax_N par id l v b p r Hre).
    destruct (pdelmax id r) as [[[r' mi1] mv1] bd1] eqn:Ed.
    pose proof (IHr _ _ _ _ _ Hre Hr Ed) as Hr'.
    assert (Hn : pwf (Some par) (PN id l v b p r')) by (simpl; auto).
    cbv zeta. destruct bd1.
    + intro H. injection H as ? ? ? ?; subst. exact Hn.
    + pose proof (pbalance2_pwf _ _ Hn) as B.
      destruct (pbalance2 (PN id l v b p r')) as [t2 bd2]. cbn [fst] in B.
      intro H. injection H as ? ? ? ?; subst. exact B.
Qed.

(* after a successful delete the returned subtree is consistent below its root,
   and the root's own Parent is the old one or nil (the caller re-links it) *)
Lemma pdel_pwf i : forall t q t' ok bd d,
  pwf q t -> pdel i t = (t', ok, bd, d) -> ok = true -> pwf q t' \/ pwf None t'.
Proof.
  induction t as [|id l IHl v b p r IHr]; intros q t' ok bd d Hw.
  - simpl. intro H. injection H as ? ? ? ?; subst. discriminate.
  - pose proof Hw as (Hp & Hl & Hr).
    destruct (Z.lt_trichotomy i v) as [Hiv|[Hiv|Hiv]].
    + rewrite (pdel_N_lt i id l v b p r Hiv).
      destruct (pdel i l) as [[[l' ok1] bd1] d1] eqn:Ed.
      pose proof (IHl _ _ _ _ _ Hl eq_refl) as Hl'. clear IHl IHr.
      cbv zeta. destruct ok1.
      * assert (Hn : pwf q (PN id (setp l' (Some id)) v b p r)).
        { simpl. repeat split; auto. destruct (Hl' eq_refl); eapply pwf_setp; eassumption. }
        destruct bd1.
        { intro H. injection H as ? ? ? ?; subst. auto. }
        pose proof (pbalance1_pwf _ _ Hn) as B.
        destruct (pbalance1 (PN id (setp l' (Some id)) v b p r)) as [t2 bd2]. cbn [fst] in B.
        intro H. injection H as ? ? ? ?; subst. auto.
      * destruct bd1; [|destruct (pbalance1 (PN id l v b p r))];
          intro H; injection H as ? ? ? ?; subst; discriminate.
    + subst i.
      destruct (ptree_E_dec l) as [El|El]; destruct (ptree_E_dec r) as [Er|Er].
      * subst l r. rewrite pdel_N_eq_EE. intro H. injection H as ? ? ? ?; subst. left. exact I.
      * subst l. rewrite (pdel_N_eq_ER id v b p r Er). intro H. injection H as ? ? ? ?; subst.
        right. eapply pwf_setp; eassumption.
      * subst r. rewrite (pdel_N_eq_LE id l v b p El). intro H. injection H as ? ? ? ?; subst.
        right. eapply pwf_setp; eassumption.
      * rewrite (pdel_N_eq_LR id l v b p r El Er).
        destruct (pdelmax id l) as [[[l' mi] mv] bd1] eqn:Ed.
        pose proof (pdelmax_pwf l id l' mi mv bd1 El Hl Ed) as Hl'.
        assert (Hn : pwf q (PN mi (setp l' (Some mi)) mv b p (setp r (Some mi)))).
        { simpl. repeat split; auto; eapply pwf_setp; eassumption. }
        cbv zeta. destruct bd1.
        { intro H. injection H as ? ? ? ?; subst. auto. }
        pose proof (pbalance1_pwf _ _ Hn) as B.
        destruct (pbalance1 (PN mi (setp l' (Some mi)) mv b p (setp r (Some mi)))) as [t2 bd2]. cbn [fst] in B.
        intro H. injection H as ? ? ? ?; subst. auto.
    + rewrite (pdel_N_gt i id l v b p r Hiv).
      destruct (pdel i r) as [[[r' ok1] bd1] d1] eqn:Ed.
      pose proof (IHr _ _ _ _ _ Hr eq_refl) as Hr'. clear IHl IHr.
      cbv zeta. destruct ok1.
      * assert (Hn : pwf q (PN id l v b p (setp r' (Some id)))).
        { simpl. repeat split; auto. destruct (Hr' eq_refl); eapply pwf_setp; eassumption. }
        destruct bd1.
        { intro H. injection H as ? ? ? ?; subst. auto. }
        pose proof (pbalance2_pwf _ _ Hn) as B.
        destruct (pbalance2 (PN id l v b p (setp r' (Some id)))) as [t2 bd2]. cbn [fst] in B.
        intro H. injection H as ? ? ? ?; subst. auto.
      * destruct bd1; [|destruct (pbalance2 (PN id l v b p r))];
          intro H; injection H as ? ? ? ?; subst; discriminate.
Qed.
Transparent protLL protLR protRR protRL.

(* ---- all Insert/Delete histories on one tree ------------------------------ *)
Lemma pstep_sim s o :
  pwf None (fst s) ->
  pwf None (fst (pstep s o)) /\
  (erase (fst (pstep s o)), snd (pstep s o)) = mstep (erase (fst s), snd s) o.
Proof.
  destruct s as [t n]. cbn [fst snd]. intro Hw. destruct o as [i|i]; unfold pstep, mstep; cbn [fst snd].
  - destruct (pins i n None t) as [[[t' ok] bd] n'] eqn:Ep.
    rewrite (pins_erase i _ _ _ _ _ _ _ Ep). cbn [fst snd].
    split; [|reflexivity]. eapply pins_pwf; eassumption.
  - destruct (pdel i t) as [[[t' ok] bd] d] eqn:Ep.
    rewrite (pdel_erase i _ _ _ _ _ Ep). cbn [fst snd]. destruct ok.
    + split; [|reflexivity]. destruct (pdel_pwf i _ _ _ _ _ _ Hw Ep eq_refl); assumption.
    + split; [exact Hw|reflexivity].
Qed.

Lemma stored_parents_lemma : forall ops,
  let s := fold_left pstep ops (PE, O) in
  pwf None (fst s) /\ (erase (fst s), snd s) = fold_left mstep ops (E, O).
Proof.
  intro ops. cbv zeta.
  assert (G : forall s, pwf None (fst s) ->
            pwf None (fst (fold_left pstep ops s)) /\
            (erase (fst (fold_left pstep ops s)), snd (fold_left pstep ops s)) =
            fold_left mstep ops (erase (fst s), snd s)).
  { induction ops as [|o ops IH]; intros s Hs; simpl; [auto|].
    destruct (pstep_sim s o Hs) as [H1 H2]. destruct (IH _ H1) as [A B].
    split; [exact A|]. rewrite B, H2. reflexivity. }
  apply (G (PE, O)). exact I.
Qed.

(* mstep is what Model.step does to tree 0 *)
Definition to_op (o : mop) : op := match o with MIns i => Ins 0 i | MDel i => Del 0 i end.
Lemma tree0_mstep : forall ops w,
  (0 < length (trees w))%nat ->
  let w' := fold_left (fun w o => fst (step w o)) (map to_op ops) w in
  (0 < length (trees w'))%nat /\
  (tr (nth 0 (trees w') t0), nx (nth 0 (trees w') t0)) =
  fold_left mstep ops (tr (nth 0 (trees w) t0), nx (nth 0 (trees w) t0)).
Proof.
  induction ops as [|o ops IH]; intros w Hw; simpl; [auto|].
  destruct (trees w) as [|ts rest] eqn:Et; [simpl in Hw; lia|].
  set (w1 := fst (step w (to_op o))).
  assert (H1 : (0 < length (trees w1))%nat /\
               (tr (nth 0 (trees w1) t0), nx (nth 0 (trees w1) t0)) = mstep (tr ts, nx ts) o).
  { unfold w1. destruct o as [i|i]; unfold to_op, step, mstep; rewrite Et; cbn [nth fst snd].
    - destruct (ins i (nx ts) (tr ts)) as [[[t' ok] bd] n]. simpl. split; [lia|reflexivity].
    - destruct (del i (tr ts)) as [[[t' ok] bd] d]. simpl. split; [lia|reflexivity]. }
  destruct H1 as [L1 H1]. destruct (IH w1 L1) as [A B].
  split; [exact A|]. rewrite B, H1. reflexivity.
Qed.
