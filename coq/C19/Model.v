(* C19 — executable model of /repo/avl-tree.go (hand-written, mirrors the Go
   control flow).  No proofs in this file: it must keep running when a proof
   breaks.  Node identities ([id]) are kept because the Go rotations move
   VALUES between nodes while node objects stay in place; live iterators hold a
   node pointer, so identity matters. *)
From Coq Require Import ZArith List Bool Lia.
Import ListNotations.
Open Scope Z_scope.

Inductive tree := E | N (id : nat) (l : tree) (v : Z) (b : Z) (r : tree).

Definition bal_of (t : tree) : Z := match t with E => 0 | N _ _ _ b _ => b end.
Definition set_bal (t : tree) (b : Z) : tree :=
  match t with E => E | N i l v _ r => N i l v b r end.

(* ---- rotations: rotateLL / rotateLR / rotateRR / rotateRL ----------------
   Go keeps [obj] at the top, re-links children and swaps obj.Value with the
   value of the node that moves down. *)
Definition rotLL (t : tree) : tree := match t with
  | N io (N i1 a1l v1 _ a1r) vo _ a2 => N io a1l v1 0 (N i1 a1r vo 0 a2)
  | _ => t end.
Definition rotRR (t : tree) : tree := match t with
  | N io a2 vo _ (N i1 a1l v1 _ a1r) => N io (N i1 a2 vo 0 a1l) v1 0 a1r
  | _ => t end.
Definition rotLR (t : tree) : tree := match t with
  | N io (N i1 a1l v1 _ (N i2 a2l v2 b2 a2r)) vo _ objr =>
      N io (N i1 a1l v1 (if b2 =? 1 then -1 else 0) a2l) v2 0
           (N i2 a2r vo (if b2 =? -1 then 1 else 0) objr)
  | _ => t end.
Definition rotRL (t : tree) : tree := match t with
  | N io objl vo _ (N i1 (N i2 a2l v2 b2 a2r) v1 _ a1r) =>
      N io (N i2 objl vo (if b2 =? 1 then -1 else 0) a2l) v2 0
           (N i1 a2r v1 (if b2 =? -1 then 1 else 0) a1r)
  | _ => t end.

(* ---- insert: returns (tree, ok, balanced, next fresh id) ---------------- *)
Fixpoint ins (i : Z) (nx : nat) (t : tree) : tree * bool * bool * nat :=
  match t with
  | E => (N nx E i 0 E, true, false, S nx)
  | N id l v b r =>
    if i <? v then
      let '(l', ok, bd, nx') := ins i nx l in
      if negb ok then (t, false, bd, nx') else
      if bd then (N id l' v b r, true, true, nx') else
      if b =? 1 then (N id l' v 0 r, true, true, nx')
      else if b =? 0 then (N id l' v (-1) r, true, false, nx')
      else (if bal_of l' =? -1 then rotLL (N id l' v b r) else rotLR (N id l' v b r),
            true, true, nx')
    else if v <? i then
      let '(r', ok, bd, nx') := ins i nx r in
      if negb ok then (t, false, bd, nx') else
      if bd then (N id l v b r', true, true, nx') else
      if b =? -1 then (N id l v 0 r', true, true, nx')
      else if b =? 0 then (N id l v 1 r', true, false, nx')
      else (if bal_of r' =? 1 then rotRR (N id l v b r') else rotRL (N id l v b r'),
            true, true, nx')
    else (t, false, true, nx)
  end.

(* ---- balance1 (left subtree got shorter) / balance2 (right got shorter) -- *)
Definition balance1 (t : tree) : tree * bool := match t with
  | N id l v b r =>
    if b =? -1 then (N id l v 0 r, false)
    else if b =? 0 then (N id l v 1 r, true)
    else let br := bal_of r in
      if 0 <=? br then
        let t' := rotRR t in
        if br =? 0
        then (match t' with N i' l' v' _ r' => N i' (set_bal l' 1) v' (-1) r' | E => E end, true)
        else (t', false)
      else (rotRL t, false)
  | E => (E, false) end.
Definition balance2 (t : tree) : tree * bool := match t with
  | N id l v b r =>
    if b =? 1 then (N id l v 0 r, false)
    else if b =? 0 then (N id l v (-1) r, true)
    else let bl := bal_of l in
      if bl <=? 0 then
        let t' := rotLL t in
        if bl =? 0
        then (match t' with N i' l' v' _ r' => N i' l' v' 1 (set_bal r' (-1)) | E => E end, true)
        else (t', false)
      else (rotLR t, false)
  | E => (E, false) end.

(* ---- deleteRec: remove the right-most node; (tree', its id, its value, balanced) *)
Fixpoint delmax (t : tree) : tree * nat * Z * bool := match t with
  | E => (E, O, 0, true)
  | N id l v b E => (l, id, v, false)
  | N id l v b r =>
    let '(r', mi, mv, bd) := delmax r in
    let t1 := N id l v b r' in
    if bd then (t1, mi, mv, true)
    else let '(t2, bd2) := balance2 t1 in (t2, mi, mv, bd2)
  end.

(* ---- delete: (tree, ok, balanced, id of the node object flagged Deleted) -- *)
Fixpoint del (i : Z) (t : tree) : tree * bool * bool * option nat := match t with
  | E => (E, false, true, None)
  | N id l v b r =>
    if i <? v then
      let '(l', ok, bd, d) := del i l in
      let t1 := if ok then N id l' v b r else t in
      if bd then (t1, ok, true, d)
      else let '(t2, bd2) := balance1 t1 in (t2, ok, bd2, d)
    else if v <? i then
      let '(r', ok, bd, d) := del i r in
      let t1 := if ok then N id l v b r' else t in
      if bd then (t1, ok, true, d)
      else let '(t2, bd2) := balance2 t1 in (t2, ok, bd2, d)
    else match l, r with
      | E, E => (E, true, false, Some id)
      | _, E => (l, true, false, Some id)
      | E, _ => (r, true, false, Some id)
      | _, _ => let '(l', mi, mv, bd) := delmax l in
                let t1 := N mi l' mv b r in
                if bd then (t1, true, true, Some id)
                else let '(t2, bd2) := balance1 t1 in (t2, true, bd2, Some id)
      end
  end.

(* ---- lookups -------------------------------------------------------------- *)
Fixpoint find (i : Z) (t : tree) : option (nat * Z) := match t with
  | E => None
  | N id l v _ r => if i <? v then find i l else if v <? i then find i r else Some (id, v)
  end.
(* FindNodeLE as coded: despite its name it returns the node with the SMALLEST
   value >= i (or nil). *)
Fixpoint find_le (i : Z) (t : tree) (best : option (nat * Z)) : option (nat * Z) :=
  match t with
  | E => best
  | N id l v _ r =>
    let best' := if i <=? v then Some (id, v) else best in
    if i <? v then find_le i l best' else if v <? i then find_le i r best' else Some (id, v)
  end.
Fixpoint value_at (k : nat) (t : tree) : option Z := match t with
  | E => None
  | N id l v _ r =>
    if Nat.eqb id k then Some v
    else match value_at k l with Some x => Some x | None => value_at k r end
  end.
Fixpoint leftmost (t : tree) : option (nat * Z) := match t with
  | E => None | N id E v _ _ => Some (id, v) | N _ l _ _ _ => leftmost l end.
(* successor of node [k] through right-child descent / parent climb; parents
   are the structural ones (the harness compares Go's stored Parent fields with
   the structural parents at every step). Some None = no successor. *)
Fixpoint succ_of (k : nat) (t : tree) (anc : option (nat * Z)) : option (option (nat * Z)) :=
  match t with
  | E => None
  | N id l v _ r =>
    if Nat.eqb id k then Some (match leftmost r with Some x => Some x | None => anc end)
    else match succ_of k l (Some (id, v)) with
         | Some x => Some x
         | None => succ_of k r anc end
  end.

(* ---- observables ---------------------------------------------------------- *)
Fixpoint elements (t : tree) : list Z := match t with
  | E => [] | N _ l v _ r => elements l ++ v :: elements r end.
Fixpoint height (t : tree) : Z := match t with
  | E => 0 | N _ l _ _ r => 1 + Z.max (height l) (height r) end.

Definition HP : Z := 2147483647.
(* checksum of the preorder dump (value, balance, parent value) — the harness
   computes the same number from the Go node fields, including the stored
   Parent pointer and the Deleted flag. *)
Fixpoint dump_hash (t : tree) (parent : Z) (h : Z) : Z := match t with
  | E => (h * 31 + 7) mod HP
  | N _ l v b r =>
    let h1 := (h * 1000003 + (v mod HP) * 13 + (b + 2) * 5 + (parent mod HP) * 3 + 1) mod HP in
    dump_hash r v (dump_hash l v h1)
  end.
Definition tree_hash (t : tree) : Z := dump_hash t (-1) 17.

(* ---- world: several trees (clones) and several iterators ----------------- *)
Record tstate := { tr : tree; nx : nat; dead : list nat }.
Record iter := { itree : nat; inode : option nat; ival : Z }.
Record world := { trees : list tstate; iters : list iter }.

Definition t0 : tstate := {| tr := E; nx := O; dead := [] |}.
Definition init : world := {| trees := [t0]; iters := [] |}.

Definition MAXI : Z := 9223372036854775807.
Definition wrap64 (z : Z) : Z := ((z + 9223372036854775808) mod 18446744073709551616) - 9223372036854775808.

Inductive op :=
  | Ins (t : nat) (i : Z) | Del (t : nat) (i : Z)
  | Find (t : nat) (i : Z) | FindLE (t : nat) (i : Z)
  | Clone (t : nat)
  | ItBegin (t : nat) | ItFrom (t : nat) (i : Z) | ItClone (k : nat)
  | Next (k : nat)
  | Elems (t : nat).

Fixpoint upd {A} (n : nat) (x : A) (l : list A) : list A := match l, n with
  | [], _ => [] | _ :: r, O => x :: r | y :: r, S m => y :: upd m x r end.

(* output of a step: (flag, value, checksum, list) *)
Definition out := (bool * Z * Z * list Z)%type.

Definition iter_next (ts : tstate) (it : iter) : iter := match inode it with
  | None => it
  | Some k =>
    let refind := existsb (Nat.eqb k) (dead ts) ||
                  match value_at k (tr ts) with Some w => negb (w =? ival it) | None => true end in
    let nxt := if refind
               then (if wrap64 (ival it + 1) <? ival it then None (* value+1 overflowed: nothing larger *)
                     else find_le (wrap64 (ival it + 1)) (tr ts) None)
               else match succ_of k (tr ts) None with Some x => x | None => None end in
    match nxt with
    | Some (k', v') => {| itree := itree it; inode := Some k'; ival := v' |}
    | None => {| itree := itree it; inode := None; ival := ival it |}
    end
  end.

Definition step (w : world) (o : op) : world * out :=
  match o with
  | Ins t i =>
    let ts := nth t (trees w) t0 in
    let '(t', ok, _, n) := ins i (nx ts) (tr ts) in
    ({| trees := upd t {| tr := t'; nx := n; dead := dead ts |} (trees w); iters := iters w |},
     (ok, 0, tree_hash t', []))
  | Del t i =>
    let ts := nth t (trees w) t0 in
    let '(t', ok, _, d) := del i (tr ts) in
    let t'' := if ok then t' else tr ts in
    ({| trees := upd t {| tr := t''; nx := nx ts;
                          dead := match d with Some k => if ok then k :: dead ts else dead ts
                                             | None => dead ts end |} (trees w);
        iters := iters w |},
     (ok, 0, tree_hash t'', []))
  | Find t i =>
    let ts := nth t (trees w) t0 in
    (w, (match find i (tr ts) with Some _ => true | None => false end, 0, 0, []))
  | FindLE t i =>
    let ts := nth t (trees w) t0 in
    (w, match find_le i (tr ts) None with Some (_, v) => (true, v, 0, []) | None => (false, 0, 0, []) end)
  | Clone t =>
    let ts := nth t (trees w) t0 in
    ({| trees := trees w ++ [{| tr := tr ts; nx := nx ts; dead := [] |}]; iters := iters w |},
     (true, 0, tree_hash (tr ts), []))
  | ItBegin t =>
    let ts := nth t (trees w) t0 in
    let it := match leftmost (tr ts) with
              | Some (k, v) => {| itree := t; inode := Some k; ival := v |}
              | None => {| itree := t; inode := None; ival := 0 |} end in
    ({| trees := trees w; iters := iters w ++ [it] |},
     (match inode it with Some _ => true | None => false end, ival it, 0, []))
  | ItFrom t i =>
    let ts := nth t (trees w) t0 in
    let it := match find_le i (tr ts) None with
              | Some (k, v) => {| itree := t; inode := Some k; ival := v |}
              | None => {| itree := t; inode := None; ival := 0 |} end in
    ({| trees := trees w; iters := iters w ++ [it] |},
     (match inode it with Some _ => true | None => false end, ival it, 0, []))
  | ItClone k =>
    let it := nth k (iters w) {| itree := O; inode := None; ival := 0 |} in
    ({| trees := trees w; iters := iters w ++ [it] |},
     (match inode it with Some _ => true | None => false end, ival it, 0, []))
  | Next k =>
    let it := nth k (iters w) {| itree := O; inode := None; ival := 0 |} in
    let ts := nth (itree it) (trees w) t0 in
    let it' := iter_next ts it in
    ({| trees := trees w; iters := upd k it' (iters w) |},
     (match inode it' with Some _ => true | None => false end, ival it', 0, []))
  | Elems t =>
    let ts := nth t (trees w) t0 in
    (w, (true, height (tr ts), 0, elements (tr ts)))
  end.

Fixpoint run (w : world) (ops : list op) : list out := match ops with
  | [] => []
  | o :: rest => let '(w', x) := step w o in x :: run w' rest end.
