(* C19 — property theorems at STATEMENT level (statements only; proofs in ProofsH*.v,
   ProofsSafe.v).  ModelH.v holds the literal statement lists of the AvlNode methods
   setLeft, setRight, rotateLL/LR/RR/RL, replace, balance1, balance2 — regenerated from
   /repo/avl-tree.go by go2coq_c19 on every run, Coq checking  gen_body m = body m — and
   an interpreter for them on a flat heap of node objects.  The theorems close the step
   from those statement sequences to the tree-shaped pointer model ModelP (protLL ..),
   for ALL heaps, trees and addresses (no bounds). *)
From Coq Require Import ZArith List Bool.
From ADV Require Import C19.Model C19.ModelP C19.ModelW C19.ModelH C19.Spec C19.Proofs
  C19.ProofsW1 C19.ProofsW2 C19.ProofsW4 C19.ProofsH1 C19.ProofsH2 C19.ProofsH3 C19.ProofsH4 C19.ProofsH5 C19.ProofsH6 C19.ProofsH7 C19.ProofsSafe.
Import ListNotations.
Open Scope Z_scope.

(* ---- 1. the four rotations, statement by statement ----------------------------------- *)
(* On any heap h that holds a tree t (every reachable object is the cell ModelW.pcells
   lists; t's addresses pairwise distinct) with the shape the rotation dereferences, the
   statement list of rotateXX run on the root object (a) does not panic, (b) leaves a heap
   that holds exactly protXX t — values swapped in place, Balance fields, Left/Right and
   the Parent field of every re-hung subtree root as ModelP says — and (c) writes to no
   object outside t (frame); the caller's "balanced" flag is untouched. *)
Theorem rotateLL_statements_refine_protLL :
  forall f fl h io i1 a1l v1 b1 p1 a1r vo bo po a2,
  let t := PN io (PN i1 a1l v1 b1 p1 a1r) vo bo po a2 in
  NoDup (pids t) -> rep h t ->
  exists s', run_method (4 + f) MRotLL (Some io) None fl h = Some s' /\ rep (sh s') (protLL t) /\
     (forall a, ~ In a (pids t) -> sh s' a = h a) /\ sf s' = fl.
Proof. exact rotateLL_exec. Qed.

Theorem rotateRR_statements_refine_protRR :
  forall f fl h io i1 a1l v1 b1 p1 a1r vo bo po a2,
  let t := PN io a2 vo bo po (PN i1 a1l v1 b1 p1 a1r) in
  NoDup (pids t) -> rep h t ->
  exists s', run_method (4 + f) MRotRR (Some io) None fl h = Some s' /\ rep (sh s') (protRR t) /\
     (forall a, ~ In a (pids t) -> sh s' a = h a) /\ sf s' = fl.
Proof. exact rotateRR_exec. Qed.

Theorem rotateLR_statements_refine_protLR :
  forall f fl h io i1 i2 a1l v1 b1 p1 a2l v2 b2 p2 a2r vo bo po objr,
  let t := PN io (PN i1 a1l v1 b1 p1 (PN i2 a2l v2 b2 p2 a2r)) vo bo po objr in
  NoDup (pids t) -> rep h t ->
  exists s', run_method (4 + f) MRotLR (Some io) None fl h = Some s' /\ rep (sh s') (protLR t) /\
     (forall a, ~ In a (pids t) -> sh s' a = h a) /\ sf s' = fl.
Proof. exact rotateLR_exec. Qed.

Theorem rotateRL_statements_refine_protRL :
  forall f fl h io i1 i2 a1r v1 b1 p1 a2l v2 b2 p2 a2r vo bo po objl,
  let t := PN io objl vo bo po (PN i1 (PN i2 a2l v2 b2 p2 a2r) v1 b1 p1 a1r) in
  NoDup (pids t) -> rep h t ->
  exists s', run_method (4 + f) MRotRL (Some io) None fl h = Some s' /\ rep (sh s') (protRL t) /\
     (forall a, ~ In a (pids t) -> sh s' a = h a) /\ sf s' = fl.
Proof. exact rotateRL_exec. Qed.

(* setLeft / setRight: the child pointer of obj and, unless node is nil, node.Parent; any
   heap, any (even aliased) addresses; a nil receiver panics *)
Theorem setLeft_setRight_statements :
  forall f fl h o n,
  (exists s', run_method (2 + f) MSetLeft (Some o) n fl h = Some s' /\ sh s' = hset_child FLeft h o n /\ sf s' = fl) /\
  (exists s', run_method (2 + f) MSetRight (Some o) n fl h = Some s' /\ sh s' = hset_child FRight h o n /\ sf s' = fl) /\
  run_method f MSetLeft None n fl h = None.
Proof. intros f fl h o n. exact (conj (setLeft_exec f fl h o n) (conj (setRight_exec f fl h o n) (setLeft_nil_receiver f fl h n))). Qed.

(* replace (two-children delete): on a heap where obj = id holds children l, r and node = mi
   is the extracted predecessor object with ANY stale pointers, the statement list leaves a
   heap holding  PN mi (setp l mi) (value of mi) b p (setp r mi)  — the node ModelP.pdel
   builds — and obj with Parent = Right = Left = nil, value / balance / Deleted kept — the
   cell ModelW.stale_cell records —, returns node, and writes nowhere else *)
Theorem replace_statements_refine_pdel_step :
  forall f fl h id mi l r v b d p cm,
  NoDup (id :: mi :: pids l ++ pids r) ->
  h id = {| cv := v; cb := b; cdel := d; cl := pid l; cr := pid r; cp := p |} ->
  h mi = cm -> cdel cm = false -> rep h l -> rep h r ->
  exists s', run_method (4 + f) MReplace (Some id) (Some mi) fl h = Some s' /\
    rep (sh s') (PN mi (setp l (Some mi)) (cv cm) b p (setp r (Some mi))) /\
    sh s' id = {| cv := v; cb := b; cdel := d; cl := None; cr := None; cp := None |} /\
    (forall a, ~ In a (id :: mi :: pids l ++ pids r) -> sh s' a = h a) /\
    sr s' = Some mi /\ sf s' = fl.
Proof. exact replace_exec. Qed.

(* balance1 / balance2 (the rebalancing step of the DELETE path: delete, deleteRec): on any
   heap holding a tree t (addresses distinct) whose root has a Balance in -1..1 and, on its
   heavy side, the child (and, when that child leans inwards, the inner grandchild) the code
   dereferences, the statement list run on the root with the caller's flag fl (a) does not
   panic, (b) leaves a heap holding exactly  fst (ModelP.pbalance1 t)  — incl. the single
   rotation with a BALANCED child (height kept, balances -1 / +1 rewritten after rotateRR /
   rotateLL) and the double rotation rotateRL / rotateLR whatever the pivot's balance and
   children are —, (c) writes to no object outside t, and (d) returns  balanced = true  iff
   pbalance1 says so or the caller passed true.  The rotation calls inside are the statement
   lists of section 1 (run through SCall, not re-modelled). *)
Theorem balance1_statements_refine_pbalance1 :
  forall f fl h t, NoDup (pids t) -> rep h t -> bal1_shape t ->
  exists s', run_method (7 + f) MBalance1 (ModelP.pid t) None fl h = Some s' /\
    rep (sh s') (fst (pbalance1 t)) /\
    (forall a, ~ In a (pids t) -> sh s' a = h a) /\ sf s' = (snd (pbalance1 t) || fl)%bool.
Proof. exact balance1_exec. Qed.

Theorem balance2_statements_refine_pbalance2 :
  forall f fl h t, NoDup (pids t) -> rep h t -> bal2_shape t ->
  exists s', run_method (7 + f) MBalance2 (ModelP.pid t) None fl h = Some s' /\
    rep (sh s') (fst (pbalance2 t)) /\
    (forall a, ~ In a (pids t) -> sh s' a = h a) /\ sf s' = (snd (pbalance2 t) || fl)%bool.
Proof. exact balance2_exec. Qed.

(* the shape hypothesis is what the code needs: Balance = 1 without a right child is a nil
   dereference in balance1 (Go panics), whatever the fuel *)
Theorem balance1_without_heavy_child_panics :
  forall f fl h io l v p,
  h io = live_cell l v 1 p PE -> run_method f MBalance1 (Some io) None fl h = None.
Proof. exact balance1_no_child_panics. Qed.

(* ... and the invariant of Props.v (1) discharges it at the call sites: delete / deleteRec call
   balance1 (balance2) on a node whose subtrees are AVL and whose Balance field is still the
   height difference from BEFORE the left (right) subtree lost one level *)
Theorem balance_shapes_follow_from_the_avl_invariant :
  forall id l v b p r, avl (erase l) -> avl (erase r) -> -1 <= b <= 1 ->
  (b = height (erase r) - (height (erase l) + 1) -> bal1_shape (PN id l v b p r)) /\
  (b = (height (erase r) + 1) - height (erase l) -> bal2_shape (PN id l v b p r)).
Proof. intros id l v b p r Al Ar Hr. exact (conj (fun Hb => bal1_shape_of_avl id l v b p r Al Ar Hb Hr) (fun Hb => bal2_shape_of_avl id l v b p r Al Ar Hb Hr)). Qed.

(* [rep] is the heap of ModelW: a heap holds t iff it agrees with every cell pcells lists *)
Theorem rep_is_agreement_with_pcells :
  forall t h, rep h t <-> (forall a c, In (a, c) (pcells t) -> h a = c).
Proof. exact rep_pcells. Qed.

(* ---- 2. Safe iterators ------------------------------------------------------------------ *)
(* SafeIterator() / SafeIteratorFrom(i) (and indexSafeIterator[From]) = Clone t, then
   Iterator / IteratorFrom on the clone j, which nothing but the iterator references.  In
   every reachable world and for ANY later history that does not insert into / delete from
   the hidden clone (it may do anything to the source, to other trees and iterators, and
   call Next on this iterator at any point): the iterator starts on the least key (>= i)
   of the source as it was at creation; the clone's key list stays that snapshot; the
   iterator stays an iterator of the clone; and every Next moves it to the first key of the
   SNAPSHOT greater than its cursor, or ends it — mutations of the source never show. *)
Theorem safe_iterator_walks_a_frozen_snapshot :
  forall w t from ops, preach w -> from_in_range from ->
  let j := length (ptrees w) in
  let k := length (piters w) in
  let s := pelems (nth t (ptrees w) pt0) in
  let w2 := wfold w (safe_ops t j from) in
  Forall (fun o => op_in_range o /\ ~ targets o j) ops ->
  let w3 := wfold w2 ops in
  (let it := nth k (piters w2) dflt_iter in
   itree it = j /\
   match (match from with None => hd_error s | Some i => first_ge i s end) with
   | Some x => inode it <> None /\ ival it = x
   | None => inode it = None end) /\
  preach w3 /\ pelems (nth j (ptrees w3) pt0) = s /\
  (k < length (piters w3))%nat /\ itree (nth k (piters w3) dflt_iter) = j /\
  (let it := nth k (piters w3) dflt_iter in
   let it' := nth k (piters (fst (pwstep w3 (Next k)))) dflt_iter in
   inode it <> None ->
   match first_gt (ival it) s with
   | Some x => inode it' <> None /\ ival it' = x
   | None => inode it' = None end).
Proof. exact safe_iterator_walks_a_frozen_snapshot_lemma. Qed.

(* ---- non-vacuity ------------------------------------------------------------------------- *)
(* a tree built by the pointer model, put on a heap together with an unrelated object 99 *)
Definition exh_t : ptree := fst (fold_left pstep [MIns 5; MIns 3; MIns 8; MIns 1; MIns 4; MIns 7; MIns 9] (PE, O)).
Definition exh_junk : cell := {| cv := 77; cb := 1; cdel := true; cl := Some 0%nat; cr := None; cp := Some 3%nat |}.
Definition exh_h : hheap := hof ((99%nat, exh_junk) :: pcells exh_t).

Example exh_hypotheses : NoDup (pids exh_t) /\ rep exh_h exh_t.
Proof.
  split.
  - vm_compute. repeat (constructor; [simpl; intuition discriminate|]). constructor.
  - vm_compute. repeat split.
Qed.

(* every statement list on the root of a tree of the required shape: the heap read back
   from the root is the ModelP rotation, object 99 is untouched *)
Example exh_rotations_run :
  let rd m a t := match run_method 6 m (Some a) None false (hof ((99%nat, exh_junk) :: pcells t)) with
                  | Some s => Some (readback 12 (sh s) (Some a), sh s 99%nat)
                  | None => None end in
  rd MRotLL 0%nat exh_t = Some (protLL exh_t, exh_junk) /\
  rd MRotLR 0%nat exh_t = Some (protLR exh_t, exh_junk) /\
  rd MRotRR 0%nat exh_t = Some (protRR exh_t, exh_junk) /\
  rd MRotRL 0%nat exh_t = Some (protRL exh_t, exh_junk) /\
  protLL exh_t <> exh_t /\ protRL exh_t <> exh_t /\
  (* a rotation whose shape is missing dereferences nil: Go panics *)
  rd MRotLL 3%nat exh_t = None.
Proof. vm_compute. repeat split; try reflexivity; discriminate. Qed.

(* replace on the heap of exh_t: obj = root 0 (key 5), node = a fresh predecessor object 50
   with stale pointers; balance1 / balance2 run *)
Example exh_replace_and_balance_run :
  let h := hof ((50%nat, {| cv := 4; cb := 1; cdel := false; cl := Some 9%nat; cr := None; cp := Some 1%nat |}) :: pcells exh_t) in
  (match run_method 6 MReplace (Some 0%nat) (Some 50%nat) false h with
   | Some s => Some (readback 12 (sh s) (Some 50%nat), sh s 0%nat, sr s) | None => None end) =
  Some (PN 50 (setp (match exh_t with PN _ l _ _ _ _ => l | PE => PE end) (Some 50%nat)) 4 0 None
              (setp (match exh_t with PN _ _ _ _ _ r => r | PE => PE end) (Some 50%nat)),
        {| cv := 5; cb := 0; cdel := false; cl := None; cr := None; cp := None |}, Some 50%nat) /\
  (let t1 := match exh_t with PN i l v _ p r => PN i l v 1 p r | PE => PE end in
   match run_method 8 MBalance1 (Some 0%nat) None false (hof (pcells t1)) with
   | Some s => Some (readback 12 (sh s) (Some 0%nat), sf s) | None => None end = Some (pbalance1 t1)) /\
  (let t2 := match exh_t with PN i l v _ p r => PN i l v (-1) p r | PE => PE end in
   match run_method 8 MBalance2 (Some 0%nat) None false (hof (pcells t2)) with
   | Some s => Some (readback 12 (sh s) (Some 0%nat), sf s) | None => None end = Some (pbalance2 t2)).
Proof. vm_compute. repeat split; reflexivity. Qed.

(* balance2 reached from the delete path with a double rotation whose pivot is BALANCED and has
   TWO children (the insert path never produces this): keys 50 20 60 10 30 70 25 35, then 70
   is unlinked and 60 becomes a leaf (what delete(70) does below the root before it calls
   balance2 on the root: Balance -1, left child 20 leans right, pivot 30 holds 25 and 35) *)
Definition exb_t0 : ptree :=
  fst (fold_left pstep [MIns 50; MIns 20; MIns 60; MIns 10; MIns 30; MIns 70; MIns 25; MIns 35] (PE, O)).
Definition exb_t : ptree := match exb_t0 with
  | PN i l v b p (PN i6 _ v6 _ p6 _) => PN i l v b p (PN i6 PE v6 0 p6 PE) | _ => PE end.
Example exb_balance2_double_rotation_balanced_two_child_pivot :
  (NoDup (pids exb_t) /\ rep (hof (pcells exb_t)) exb_t /\ bal2_shape exb_t) /\
  (match exb_t with PN _ (PN _ _ _ bl _ (PN _ (PN _ _ _ _ _ _) _ b2 _ (PN _ _ _ _ _ _))) _ b _ _ => (b, bl, b2) | _ => (9, 9, 9) end) = (-1, 1, 0) /\
  (match run_method 7 MBalance2 (ModelP.pid exb_t) None false (hof (pcells exb_t)) with
   | Some s => Some (readback 12 (sh s) (ModelP.pid exb_t), sf s) | None => None end) = Some (pbalance2 exb_t) /\
  fst (pbalance2 exb_t) = fst (pstep (exb_t0, 8%nat) (MDel 70)) /\
  elements (erase (fst (pbalance2 exb_t))) = [10; 20; 25; 30; 35; 50; 60] /\
  fst (pbalance2 exb_t) <> exb_t.
Proof.
  split; [split; [|split]|].
  - vm_compute. repeat (constructor; [simpl; intuition discriminate|]). constructor.
  - vm_compute. repeat split.
  - vm_compute. right. right. split; [reflexivity|]. right. discriminate.
  - vm_compute. repeat split; try reflexivity. discriminate.
Qed.

Example exb_invariant_hypotheses_hold :
  match exb_t with
  | PN _ l _ b _ r => avl (erase l) /\ avl (erase r) /\ -1 <= b <= 1 /\ b = (height (erase r) + 1) - height (erase l)
  | PE => False end.
Proof. vm_compute. repeat split; try reflexivity; intro X; discriminate X. Qed.

(* Safe iterator: source {1,3,5,8}; SafeIteratorFrom(2) snapshots it; the source then loses
   3 and 5 and gains 4; the safe iterator still walks 3, 5, 8 *)
Definition exs_ops : list op :=
  [Ins 0 5; Ins 0 3; Ins 0 8; Ins 0 1] ++ safe_ops 0 1 (Some 2) ++
  [Del 0 3; Del 0 5; Ins 0 4; Next 0; Next 0; Next 0; Elems 0].
Example exs_observed :
  map (fun x => let '(f, v, _, l) := fst x in (f, v, l)) (prun pinit exs_ops) =
  [(true, 0, []); (true, 0, []); (true, 0, []); (true, 0, []); (true, 0, []); (true, 3, []);
   (true, 0, []); (true, 0, []); (true, 0, []); (true, 5, []); (true, 8, []); (false, 8, []);
   (true, 2, [1; 4; 8])].
Proof. vm_compute. reflexivity. Qed.
