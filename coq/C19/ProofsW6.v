(* C19 — pointer-level worlds, part 6: every non-Clone step of a pointer-level
   world IS Model.step on the erased world, as an equation (up to the per-tree
   allocation counters of Model.v, which the pointer world replaces by one global
   allocator); a Clone step appends a shape-equal tree made of fresh objects where
   Model.v shares the ids. *)
From Coq Require Import ZArith List Bool Lia Arith.
From ADV Require Import C19.Model C19.ModelP C19.ModelW C19.Spec C19.ProofsList C19.ProofsLookup
  C19.ProofsIns C19.ProofsDel C19.ProofsRun C19.ProofsIter C19.ProofsIds C19.ProofsPar C19.ProofsNext
  C19.ProofsW1 C19.ProofsW2.
Import ListNotations.
Open Scope Z_scope.

Definition erasew (w : pworld) : world :=
  {| trees := map (ets (gnx w)) (ptrees w); iters := piters w |}.
(* a value-level world without its allocation counters *)
Definition forget (w : world) : list (tree * list nat) * list iter :=
  (map (fun ts => (tr ts, dead ts)) (trees w), iters w).
Definition fg (ts : ptstate) : tree * list nat := (erase (pt ts), map fst (pdead ts)).

Lemma forget_erasew w : forget (erasew w) = (map fg (ptrees w), piters w).
Proof. unfold forget, erasew. cbn [trees iters]. rewrite map_map. reflexivity. Qed.

Lemma nth_ets_tr g l t : tr (nth t (map (ets g) l) t0) = erase (pt (nth t l pt0)).
Proof.
  revert t. induction l as [|x l IH]; intros [|t]; simpl; try reflexivity. apply IH.
Qed.
Lemma nth_ets_dead g l t : dead (nth t (map (ets g) l) t0) = map fst (pdead (nth t l pt0)).
Proof.
  revert t. induction l as [|x l IH]; intros [|t]; simpl; try reflexivity. apply IH.
Qed.
Lemma nth_ets g l t : (t < length l)%nat -> nth t (map (ets g) l) t0 = ets g (nth t l pt0).
Proof.
  intro H. rewrite (nth_indep _ t0 (ets g pt0)) by (rewrite map_length; exact H). apply map_nth.
Qed.

Lemma iter_next_ext a b it : tr a = tr b -> dead a = dead b -> iter_next a it = iter_next b it.
Proof. intros H1 H2. unfold iter_next. rewrite H1, H2. reflexivity. Qed.

Definition op_wf (w : pworld) (o : op) : Prop := match o with
  | Ins t _ => (t < length (ptrees w))%nat | _ => True end.

Lemma step_erase_lemma w o :
  Forall (ptid (gnx w)) (ptrees w) -> (forall t, o <> Clone t) -> op_wf w o ->
  forget (erasew (fst (pwstep_core w o))) = forget (fst (step (erasew w) o)) /\
  snd (pwstep_core w o) = snd (step (erasew w) o).
Proof.
  intros Hids Hnc Hwf. set (g := gnx w) in *.
  assert (Hid : forall t, ptid g (nth t (ptrees w) pt0)).
  { intro t. apply Forall_nth_d; [exact Hids|apply ptid_pt0]. }
  destruct o as [t i|t i|t i|t i|t|t|t i|k|k|t]; unfold pwstep_core, step, erasew;
    cbn [trees iters]; fold g.
  - (* Ins *)
    simpl in Hwf. rewrite (nth_ets g _ t Hwf). cbn [ets tr nx dead].
    set (ts := nth t (ptrees w) pt0).
    destruct (pins i g None (pt ts)) as [[[t' ok] bd] n] eqn:Ep.
    rewrite (pins_erase i _ _ _ _ _ _ _ Ep). cbn [fst snd].
    split; [|reflexivity]. unfold forget. cbn [trees iters ptrees piters gnx].
    rewrite map_map, !upd_map, map_map. reflexivity.
  - (* Del *)
    set (ts := nth t (ptrees w) pt0).
    assert (Htr : tr (nth t (map (ets g) (ptrees w)) t0) = erase (pt ts)) by apply nth_ets_tr.
    assert (Hde : dead (nth t (map (ets g) (ptrees w)) t0) = map fst (pdead ts)) by apply nth_ets_dead.
    rewrite Htr, Hde.
    destruct (pdel i (pt ts)) as [[[t' ok] bd] d] eqn:Ep.
    rewrite (pdel_erase i _ _ _ _ _ Ep). cbn [fst snd].
    assert (He : erase (if ok then t' else pt ts) = (if ok then erase t' else erase (pt ts)))
      by (destruct ok; reflexivity).
    split; [|rewrite He; reflexivity]. unfold forget. cbn [trees iters ptrees piters gnx].
    rewrite map_map, !upd_map, map_map. f_equal. f_equal. cbn [ets tr dead pt pdead]. rewrite He. f_equal.
    destruct ok.
    + destruct (pdel_ptid g i ts t' bd d (Hid t) Ep) as (kd & c & -> & Hs & _). rewrite Hs. reflexivity.
    + destruct d; reflexivity.
  - (* Find *)
    rewrite nth_ets_tr. split; reflexivity.
  - (* FindLE *)
    rewrite nth_ets_tr, pFindNodeLE_erase. split; reflexivity.
  - exfalso. eapply Hnc. reflexivity.
  - (* ItBegin *)
    rewrite nth_ets_tr, pleftmost_erase.
    destruct (leftmost (erase (pt (nth t (ptrees w) pt0)))) as [[k v]|]; split; reflexivity.
  - (* ItFrom *)
    rewrite nth_ets_tr, pFindNodeLE_erase.
    destruct (find_le i (erase (pt (nth t (ptrees w) pt0))) None) as [[k v]|]; split; reflexivity.
  - (* ItClone *)
    split; reflexivity.
  - (* Next *)
    set (it := nth k (piters w) {| itree := 0; inode := None; ival := 0 |}).
    rewrite (pnext_iter_next g _ it (Hid (itree it))).
    rewrite (iter_next_ext (nth (itree it) (map (ets g) (ptrees w)) t0) (ets g (nth (itree it) (ptrees w) pt0)) it
               (nth_ets_tr g (ptrees w) (itree it)) (nth_ets_dead g (ptrees w) (itree it))).
    split; reflexivity.
  - (* Elems *)
    rewrite nth_ets_tr. split; reflexivity.
Qed.

(* Clone: same output, every existing tree kept, the appended tree is shape-equal to
   the one Model.v appends (which reuses the source's ids) *)
Lemma clone_erase_lemma w t :
  let w' := fst (pwstep_core w (Clone t)) in
  let m' := fst (step (erasew w) (Clone t)) in
  snd (pwstep_core w (Clone t)) = snd (step (erasew w) (Clone t)) /\
  length (ptrees w') = length (trees m') /\
  (forall j, (j < length (ptrees w))%nat -> fg (nth j (ptrees w') pt0) = fg (nth j (ptrees w) pt0)) /\
  shape (erase (pt (nth (length (ptrees w)) (ptrees w') pt0))) =
  shape (tr (nth (length (ptrees w)) (trees m') t0)) /\
  piters w' = iters m'.
Proof.
  cbv zeta. unfold pwstep_core, step, erasew. cbn [trees iters].
  rewrite nth_ets_tr. set (ts := nth t (ptrees w) pt0).
  destruct (pclone (gnx w) (pt ts)) as [c g'] eqn:Ec. pose proof (pclone_shape _ _ _ _ Ec) as Hs.
  cbn [fst snd ptrees piters trees iters]. split; [|split; [|split; [|split]]].
  - rewrite (shape_eq_hash _ _ Hs). reflexivity.
  - rewrite !app_length, map_length. reflexivity.
  - intros j Hj. rewrite app_nth1 by exact Hj. reflexivity.
  - rewrite app_nth2, Nat.sub_diag by lia.
    rewrite app_nth2 by (rewrite map_length; lia). rewrite map_length, Nat.sub_diag. simpl. exact Hs.
  - reflexivity.
Qed.
