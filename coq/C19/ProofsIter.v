(* C19 — complete iterations over an unchanged tree: Iterator() followed by
   Next() visits exactly the keys in ascending order, IteratorFrom(i) the keys
   >= i.  Proved on the specification side and transported by the refinement. *)
From Coq Require Import ZArith List Bool Lia Sorted.
From ADV Require Import C19.Model C19.Spec C19.ProofsRot C19.ProofsList C19.ProofsLookup
  C19.ProofsIns C19.ProofsDel C19.ProofsRun.
Import ListNotations.
Open Scope Z_scope.

Lemma nth_upd_same {A} (l : list A) n x d : (n < length l)%nat -> nth n (upd n x l) d = x.
Proof.
  revert n. induction l as [|a l IH]; intros [|n] H; simpl in *; try lia; auto.
  apply IH. lia.
Qed.

Lemma upd_length {A} (l : list A) n x : length (upd n x l) = length l.
Proof. revert n. induction l as [|a l IH]; intros [|n]; simpl; auto. Qed.

Lemma first_gt_at x p q : sset (p ++ x :: q) -> first_gt x (p ++ x :: q) = hd_error q.
Proof.
  intro H. apply sset_app in H. destruct H as (_ & _ & Hp & Hq).
  rewrite first_gt_app, (first_gt_none x p).
  - unfold first_gt at 1. simpl. rewrite Z.ltb_irrefl. apply (first_gt_hd x q Hq).
  - eapply Forall_impl; [|exact Hp]. simpl; intros; lia.
Qed.

Lemma first_ge_suffix i l : first_ge i l = hd_error (suffix_ge i l).
Proof.
  unfold first_ge. induction l as [|a l IH]; simpl; [reflexivity|].
  destruct (i <=? a); [reflexivity|exact IH].
Qed.

Lemma suffix_ge_split i l : exists p, l = p ++ suffix_ge i l.
Proof.
  induction l as [|a l [p IH]]; simpl.
  - exists []. reflexivity.
  - destruct (i <=? a).
    + exists []. reflexivity.
    + exists (a :: p). simpl. f_equal. exact IH.
Qed.

Definition visit (x : Z) : aout := (true, x, []).
Definition done_out : aout := (false, 0, []).

(* Next, repeated, from a cursor at x over the unchanged set p ++ x :: q *)
Lemma arun_nexts : forall q p x aw k t,
  (k < length (aiters aw))%nat ->
  nth k (aiters aw) dflt_aiter = {| atree := t; aended := false; aval := x |} ->
  nth t (asets aw) [] = p ++ x :: q -> sset (p ++ x :: q) ->
  arun aw (repeat (Next k) (S (length q))) = map visit q ++ [done_out].
Proof.
  induction q as [|y q IH]; intros p x aw k t Hk Hit Hs Hss.
  - simpl. fold dflt_aiter. rewrite Hit. cbn [atree]. rewrite Hs.
    unfold anext. cbn [aended aval atree]. rewrite (first_gt_at x p [] Hss). reflexivity.
  - change (repeat (Next k) (S (length (y :: q)))) with (Next k :: repeat (Next k) (S (length q))).
    cbn [arun astep]. fold dflt_aiter. rewrite Hit. cbn [atree]. rewrite Hs.
    unfold anext. cbn [aended aval atree]. rewrite (first_gt_at x p (y :: q) Hss). cbn [hd_error].
    cbn [map app]. f_equal.
    apply (IH (p ++ [x]) y _ k t).
    + cbn [aiters]. rewrite upd_length. exact Hk.
    + cbn [aiters]. apply nth_upd_same. exact Hk.
    + cbn [asets]. rewrite Hs, <- app_assoc. reflexivity.
    + rewrite <- app_assoc. exact Hss.
Qed.

Lemma arun_iteration aw o t p q :
  nth t (asets aw) [] = p ++ q -> sset (p ++ q) ->
  astep aw o = ({| asets := asets aw; aiters := aiters aw ++ [mk_iter t (hd_error q)] |},
                obs_iter (mk_iter t (hd_error q))) ->
  arun aw (o :: repeat (Next (length (aiters aw))) (length q)) = map visit q ++ [done_out].
Proof.
  intros Hs Hss Ho. cbn [arun]. rewrite Ho.
  destruct q as [|x q]; [reflexivity|].
  cbn [hd_error mk_iter map app]. f_equal.
  apply (arun_nexts q p x _ _ t).
  - cbn [aiters]. rewrite app_length. simpl. lia.
  - cbn [aiters]. rewrite app_nth2 by lia. rewrite Nat.sub_diag. reflexivity.
  - exact Hs.
  - exact Hss.
Qed.

Lemma keys_in_range_nexts o k n : op_in_range o -> keys_in_range (o :: repeat (Next k) n).
Proof.
  intro H. constructor; [exact H|]. apply Forall_forall. intros x Hx.
  apply repeat_spec in Hx. subst x. exact I.
Qed.

Lemma iterate_all_lemma : forall w t,
  reach w ->
  let s := elements (tr (nth t (trees w) t0)) in
  let ops := ItBegin t :: repeat (Next (length (iters w))) (length s) in
  observe ops (run w ops) = map visit s ++ [done_out].
Proof.
  intros w t Hr s ops. pose proof (reach_winv w Hr) as Hw.
  unfold ops. rewrite (run_refines_from _ w Hw (keys_in_range_nexts (ItBegin t) _ _ I)).
  destruct (winv_nth w t Hw) as (_ & Hb & _).
  replace (length (iters w)) with (length (aiters (abs_world w))) by (simpl; apply map_length).
  apply (arun_iteration (abs_world w) (ItBegin t) t [] s).
  - simpl. fold elems. rewrite nth_elems. reflexivity.
  - exact Hb.
  - simpl. fold elems. rewrite nth_elems. reflexivity.
Qed.

Lemma iterate_from_lemma : forall w t i,
  reach w -> in_range i ->
  let s := suffix_ge i (elements (tr (nth t (trees w) t0))) in
  let ops := ItFrom t i :: repeat (Next (length (iters w))) (length s) in
  observe ops (run w ops) = map visit s ++ [done_out].
Proof.
  intros w t i Hr Hi s ops. pose proof (reach_winv w Hr) as Hw.
  unfold ops. rewrite (run_refines_from _ w Hw (keys_in_range_nexts (ItFrom t i) _ _ Hi)).
  destruct (winv_nth w t Hw) as (_ & Hb & _).
  replace (length (iters w)) with (length (aiters (abs_world w))) by (simpl; apply map_length).
  destruct (suffix_ge_split i (elements (tr (nth t (trees w) t0)))) as [p Hp].
  fold s in Hp.
  apply (arun_iteration (abs_world w) (ItFrom t i) t p s).
  - simpl. fold elems. rewrite nth_elems. exact Hp.
  - rewrite <- Hp. exact Hb.
  - simpl. fold elems. rewrite nth_elems. unfold elems. rewrite first_ge_suffix. reflexivity.
Qed.

(* suffix_ge really is "the keys >= i" of an ascending list *)
Lemma filter_all {A} (f : A -> bool) l : Forall (fun x => f x = true) l -> filter f l = l.
Proof. induction 1 as [|a l Ha _ IH]; simpl; [reflexivity|]. rewrite Ha, IH. reflexivity. Qed.

Lemma suffix_ge_filter i l : sset l -> suffix_ge i l = filter (fun x => i <=? x) l.
Proof.
  induction l as [|a l IH]; intro H; simpl; [reflexivity|].
  apply sset_cons in H. destruct H as [Hl Ha].
  destruct (Z.leb_spec i a) as [Hia|Hia].
  - f_equal. symmetry. apply filter_all.
    eapply Forall_impl; [|exact Ha]. simpl. intros x Hx. apply Z.leb_le. lia.
  - apply IH. exact Hl.
Qed.
