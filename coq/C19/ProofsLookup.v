(* C19 — lookups (find, find_le, leftmost) and the live iterator step. *)
From Coq Require Import ZArith List Bool Lia Sorted.
From ADV Require Import C19.Model C19.Spec C19.ProofsList.
Import ListNotations.
Open Scope Z_scope.

Lemma bst_node id l v b r :
  bst (N id l v b r) <->
  bst l /\ bst r /\ Forall (fun x => x < v) (elements l) /\ Forall (fun x => v < x) (elements r).
Proof. unfold bst. simpl. apply sset_app. Qed.

Lemma bst_E : bst E.
Proof. apply sset_nil. Qed.

(* ---- find ---------------------------------------------------------------- *)
Lemma find_spec i t :
  bst t ->
  match find i t with
  | Some (_, v) => v = i /\ smem i (elements t) = true
  | None => smem i (elements t) = false
  end.
Proof.
  induction t as [|id l IHl v b r IHr]; intro Hb; simpl; [reflexivity|].
  apply bst_node in Hb. destruct Hb as (Hl & Hr & Hlv & Hvr).
  rewrite smem_app. simpl.
  destruct (Z.ltb_spec i v) as [Hiv|Hiv].
  - specialize (IHl Hl).
    assert (Hn : smem i (elements r) = false).
    { apply smem_false_gt. eapply Forall_impl; [|exact Hvr]. simpl; intros; lia. }
    rewrite Hn. destruct (Z.eqb_spec v i); [lia|].
    destruct (find i l) as [[k w]|].
    + destruct IHl as [-> ->]. auto.
    + rewrite IHl. reflexivity.
  - destruct (Z.ltb_spec v i) as [Hvi|Hvi].
    + specialize (IHr Hr).
      assert (Hn : smem i (elements l) = false).
      { apply smem_false_lt. eapply Forall_impl; [|exact Hlv]. simpl; intros; lia. }
      rewrite Hn. destruct (Z.eqb_spec v i); [lia|]. simpl.
      destruct (find i r) as [[k w]|]; exact IHr.
    + assert (v = i) by lia. subst v. rewrite Z.eqb_refl. simpl.
      rewrite orb_true_r. auto.
Qed.

(* ---- find_le (smallest key >= i) ---------------------------------------- *)
Lemma find_le_spec i t : forall best,
  bst t ->
  option_map snd (find_le i t best) =
  match first_ge i (elements t) with Some x => Some x | None => option_map snd best end.
Proof.
  induction t as [|id l IHl v b r IHr]; intros best Hb; simpl; [reflexivity|].
  apply bst_node in Hb. destruct Hb as (Hl & Hr & Hlv & Hvr).
  rewrite first_ge_app.
  destruct (Z.ltb_spec i v) as [Hiv|Hiv].
  - rewrite (IHl _ Hl).
    destruct (Z.leb_spec i v); [|lia]. simpl.
    destruct (first_ge i (elements l)); [reflexivity|].
    unfold first_ge. simpl. destruct (Z.leb_spec i v); [reflexivity|lia].
  - assert (Hn : first_ge i (elements l) = None).
    { destruct (Z.ltb_spec v i) as [Hvi|Hvi].
      - apply first_ge_none. eapply Forall_impl; [|exact Hlv]. simpl; intros; lia.
      - apply first_ge_none. eapply Forall_impl; [|exact Hlv]. simpl; intros; lia. }
    rewrite Hn.
    destruct (Z.ltb_spec v i) as [Hvi|Hvi].
    + rewrite (IHr _ Hr). destruct (Z.leb_spec i v); [lia|].
      unfold first_ge at 2. simpl. destruct (Z.leb_spec i v); [lia|]. reflexivity.
    + unfold first_ge. simpl. destruct (Z.leb_spec i v); [reflexivity|lia].
Qed.

Lemma find_le_first_ge i t :
  bst t -> option_map snd (find_le i t None) = first_ge i (elements t).
Proof.
  intro Hb. rewrite (find_le_spec i t None Hb). simpl.
  destruct (first_ge i (elements t)); reflexivity.
Qed.

(* ---- leftmost ------------------------------------------------------------ *)
Lemma leftmost_spec t : option_map snd (leftmost t) = hd_error (elements t).
Proof.
  induction t as [|id l IHl v b r IHr]; [reflexivity|].
  destruct l as [|i1 l1 v1 b1 r1]; [reflexivity|].
  change (leftmost (N id (N i1 l1 v1 b1 r1) v b r)) with (leftmost (N i1 l1 v1 b1 r1)).
  rewrite IHl.
  change (elements (N id (N i1 l1 v1 b1 r1) v b r))
    with (elements (N i1 l1 v1 b1 r1) ++ v :: elements r).
  destruct (elements (N i1 l1 v1 b1 r1)) as [|a rest] eqn:Ee; [|reflexivity].
  simpl in Ee. destruct (elements l1); discriminate.
Qed.

(* ---- value_at / succ_of -------------------------------------------------- *)
Lemma value_at_In k t w : value_at k t = Some w -> In w (elements t).
Proof.
  induction t as [|id l IHl v b r IHr]; simpl; [discriminate|].
  destruct (Nat.eqb id k).
  - intro H. inversion H; subst. apply in_or_app. right. left. reflexivity.
  - destruct (value_at k l) as [x|].
    + intro H. inversion H; subst. apply in_or_app. left. apply IHl. reflexivity.
    + intro H. apply in_or_app. right. right. apply IHr. exact H.
Qed.

Lemma succ_of_none k t : forall anc, value_at k t = None -> succ_of k t anc = None.
Proof.
  induction t as [|id l IHl v b r IHr]; intros anc; simpl; [reflexivity|].
  destruct (Nat.eqb id k); [discriminate|].
  destruct (value_at k l) as [x|] eqn:El; [discriminate|].
  intro Hr. rewrite (IHl _ eq_refl). apply IHr. exact Hr.
Qed.

Lemma succ_of_spec k t : forall anc w,
  bst t -> value_at k t = Some w ->
  exists res, succ_of k t anc = Some res /\
    option_map snd res =
    match first_gt w (elements t) with Some x => Some x | None => option_map snd anc end.
Proof.
  induction t as [|id l IHl v b r IHr]; intros anc w Hb; simpl; [discriminate|].
  apply bst_node in Hb. destruct Hb as (Hl & Hr & Hlv & Hvr).
  rewrite first_gt_app.
  destruct (Nat.eqb id k).
  - intro H. inversion H; subst w. eexists. split; [reflexivity|].
    rewrite (first_gt_none v (elements l)).
    2:{ eapply Forall_impl; [|exact Hlv]. simpl; intros; lia. }
    unfold first_gt at 1. simpl. rewrite Z.ltb_irrefl.
    fold (first_gt v (elements r)). rewrite (first_gt_hd v _ Hvr).
    rewrite <- leftmost_spec. destruct (leftmost r); reflexivity.
  - destruct (value_at k l) as [x|] eqn:El.
    + intro H. inversion H; subst x.
      destruct (IHl (Some (id, v)) w Hl eq_refl) as (res & Hs & Hres).
      rewrite Hs. eexists. split; [reflexivity|]. rewrite Hres.
      destruct (first_gt w (elements l)); [reflexivity|].
      apply value_at_In in El. rewrite Forall_forall in Hlv. specialize (Hlv _ El).
      unfold first_gt. simpl. destruct (Z.ltb_spec w v); [reflexivity|lia].
    + intro Er. rewrite (succ_of_none k l _ El).
      destruct (IHr anc w Hr Er) as (res & Hs & Hres).
      exists res. split; [exact Hs|]. rewrite Hres.
      apply value_at_In in Er. rewrite Forall_forall in Hvr. specialize (Hvr _ Er).
      rewrite (first_gt_none w (elements l)).
      2:{ eapply Forall_impl; [|exact Hlv]. simpl; intros; lia. }
      unfold first_gt at 2. simpl. destruct (Z.ltb_spec w v); [lia|]. reflexivity.
Qed.

(* ---- int64 wrap-around of value+1 --------------------------------------- *)
Lemma wrap64_succ_small z : MINI <= z < MAXI -> wrap64 (z + 1) = z + 1.
Proof.
  unfold MINI, MAXI, wrap64. intro H.
  rewrite Z.mod_small; lia.
Qed.

Lemma wrap64_succ_max : wrap64 (MAXI + 1) = MINI.
Proof. reflexivity. Qed.

(* ---- the live iterator step --------------------------------------------- *)
Lemma iter_next_cases ts it :
  bst (tr ts) -> Forall in_range (elements (tr ts)) -> in_range (ival it) ->
  match inode it with
  | None => iter_next ts it = it
  | Some _ =>
    itree (iter_next ts it) = itree it /\
    match first_gt (ival it) (elements (tr ts)) with
    | Some x => inode (iter_next ts it) <> None /\ ival (iter_next ts it) = x
    | None => inode (iter_next ts it) = None /\ ival (iter_next ts it) = ival it
    end
  end.
Proof.
  intros Hb Hr Hi. unfold iter_next.
  destruct (inode it) as [k|]; [|reflexivity].
  set (refind := existsb (Nat.eqb k) (dead ts) ||
                 match value_at k (tr ts) with Some w => negb (w =? ival it) | None => true end).
  assert (Hnxt : forall nxt : option (nat * Z),
    option_map snd nxt = first_gt (ival it) (elements (tr ts)) ->
    let it' := match nxt with
               | Some (k', v') => {| itree := itree it; inode := Some k'; ival := v' |}
               | None => {| itree := itree it; inode := None; ival := ival it |} end in
    itree it' = itree it /\
    match first_gt (ival it) (elements (tr ts)) with
    | Some x => inode it' <> None /\ ival it' = x
    | None => inode it' = None /\ ival it' = ival it end).
  { intros nxt Hn. destruct nxt as [[k' v']|]; simpl in Hn; rewrite <- Hn; simpl.
    - split; [reflexivity|]. split; [discriminate|reflexivity].
    - auto. }
  apply Hnxt. clear Hnxt.
  destruct refind eqn:Eref; subst refind.
  - (* re-find from value+1 *)
    unfold in_range in Hi.
    destruct (Z.eq_dec (ival it) MAXI) as [Hmax|Hmax].
    + rewrite Hmax, wrap64_succ_max.
      change (MINI <? MAXI) with true. simpl.
      symmetry. apply first_gt_none.
      eapply Forall_impl; [|exact Hr]. unfold in_range. simpl. intros; lia.
    + rewrite wrap64_succ_small by lia.
      destruct (Z.ltb_spec (ival it + 1) (ival it)); [lia|].
      rewrite (find_le_first_ge _ _ Hb). apply first_gt_succ.
  - (* node alive and still holding the iterator's value: in-order successor *)
    apply orb_false_iff in Eref. destruct Eref as [_ Ev].
    destruct (value_at k (tr ts)) as [w|] eqn:Ew; [|discriminate].
    apply negb_false_iff, Z.eqb_eq in Ev. subst w.
    destruct (succ_of_spec k (tr ts) None (ival it) Hb Ew) as (res & Hs & Hres).
    rewrite Hs, Hres. simpl. destruct (first_gt (ival it) (elements (tr ts))); reflexivity.
Qed.

Lemma iter_next_refines ts it :
  bst (tr ts) -> Forall in_range (elements (tr ts)) -> in_range (ival it) ->
  abs_iter (iter_next ts it) = anext (elements (tr ts)) (abs_iter it).
Proof.
  intros Hb Hr Hi. pose proof (iter_next_cases ts it Hb Hr Hi) as H.
  unfold anext, abs_iter at 2 3 4 5. simpl.
  destruct (inode it) as [k|] eqn:Ek.
  - destruct H as [Ht H].
    destruct (first_gt (ival it) (elements (tr ts))) as [x|]; destruct H as [Hn Hv];
      unfold abs_iter; rewrite Ht, Hv.
    + destruct (inode (iter_next ts it)); [reflexivity|congruence].
    + rewrite Hn. reflexivity.
  - rewrite H. unfold abs_iter. rewrite Ek. reflexivity.
Qed.

Lemma iter_next_in_range ts it :
  bst (tr ts) -> Forall in_range (elements (tr ts)) -> in_range (ival it) ->
  in_range (ival (iter_next ts it)).
Proof.
  intros Hb Hr Hi. pose proof (iter_next_cases ts it Hb Hr Hi) as H.
  destruct (inode it) as [k|].
  - destruct H as [_ H].
    destruct (first_gt (ival it) (elements (tr ts))) as [x|] eqn:Ef; destruct H as [_ Hv];
      rewrite Hv; [|exact Hi].
    apply first_gt_In in Ef. rewrite Forall_forall in Hr. apply Hr. tauto.
  - rewrite H. exact Hi.
Qed.
