(* C19 — lemmas: this file only gathers the proof files. *)
From ADV Require Export C19.ProofsRot C19.ProofsList C19.ProofsLookup C19.ProofsIns
  C19.ProofsDel C19.ProofsRun C19.ProofsIter C19.ProofsIds C19.ProofsPar C19.ProofsNext.
