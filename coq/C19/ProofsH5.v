(* C19 — statement level: setLeft / setRight and replace (ModelH) against ModelP / ModelW. *)
From Coq Require Import ZArith List Bool Lia.
From ADV Require Import C19.Model C19.ModelP C19.ModelW C19.ModelH C19.ProofsH1.
Import ListNotations.
Open Scope Z_scope.

(* obj.setLeft(node) / obj.setRight(node): obj's child pointer := node; node.Parent := obj unless nil *)
Definition hset_child (f : fld) (h : hheap) (o : nat) (n : option nat) : hheap :=
  let h1 := hupd h o (set_fld f (h o) n) in
  match n with Some k => hupd h1 k (set_fld FParent (h1 k) (Some o)) | None => h1 end.

Lemma setLeft_exec f fl h o n :
  exists s', run_method (2 + f) MSetLeft (Some o) n fl h = Some s' /\ sh s' = hset_child FLeft h o n /\ sf s' = fl.
Proof. destruct n; eexists; (split; [reflexivity|split; reflexivity]). Qed.
Lemma setRight_exec f fl h o n :
  exists s', run_method (2 + f) MSetRight (Some o) n fl h = Some s' /\ sh s' = hset_child FRight h o n /\ sf s' = fl.
Proof. destruct n; eexists; (split; [reflexivity|split; reflexivity]). Qed.
(* a nil receiver panics *)
Lemma setLeft_nil_receiver f fl h n : run_method f MSetLeft None n fl h = None.
Proof. destruct f; reflexivity. Qed.

(* obj.replace(node) in the two-children case of delete(): node (the extracted predecessor,
   whatever its stale pointers are) takes obj's Parent, Balance and children; the children's
   Parent fields are redirected; obj is left with nil pointers (ModelW.stale_cell) *)
Lemma replace_exec : forall f fl h id mi l r v b d p cm,
  NoDup (id :: mi :: pids l ++ pids r) ->
  h id = {| cv := v; cb := b; cdel := d; cl := pid l; cr := pid r; cp := p |} ->
  h mi = cm -> cdel cm = false -> rep h l -> rep h r ->
  exists s', run_method (4 + f) MReplace (Some id) (Some mi) fl h = Some s' /\
    rep (sh s') (PN mi (setp l (Some mi)) (cv cm) b p (setp r (Some mi))) /\
    sh s' id = {| cv := v; cb := b; cdel := d; cl := None; cr := None; cp := None |} /\
    (forall a, ~ In a (id :: mi :: pids l ++ pids r) -> sh s' a = h a) /\
    sr s' = Some mi /\ sf s' = fl.
Proof.
  intros f fl h id mi l r v b d p cm ND Hid Hmi Hdel Rl Rr.
  pose proof (NoDup_cntl _ ND) as C. clear ND.
  destruct cm as [cmv cmb cmd cml cmr cmp]. cbn in Hdel. subst cmd.
  destruct l as [|ka al av ab ap ar]; destruct r as [|kb bl bv bb bp br];
  rep_split; unfold run_method; cbn [body plus]; rewrite exec_S; unfold replace_body;
  ne_tops h C;
  (eexists; split; [run_seq h C|]; cbn [sh sf sr]; split; [|split; [|split; [|split; reflexivity]]];
   [cbn [setp cv]; rep_goal h C
   | sx h C; reflexivity
   | let a := fresh "a" in let Ha := fresh "Ha" in intros a Ha; frame_solve Ha]).
Qed.
