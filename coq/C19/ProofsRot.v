(* C19 — the four value-swapping rotations keep the in-order key list. *)
From Coq Require Import ZArith List Bool Lia Sorted.
From ADV Require Import C19.Model C19.Spec.
Import ListNotations.
Open Scope Z_scope.

Lemma rotLL_elements t : elements (rotLL t) = elements t.
Proof. destruct t as [|io [|i1 a1l v1 b1 a1r] vo bo a2]; simpl; auto.
  rewrite <- app_assoc. reflexivity. Qed.
Lemma rotRR_elements t : elements (rotRR t) = elements t.
Proof. destruct t as [|io a2 vo bo [|i1 a1l v1 b1 a1r]]; simpl; auto.
  rewrite <- app_assoc. reflexivity. Qed.
Lemma rotLR_elements t : elements (rotLR t) = elements t.
Proof. destruct t as [|io [|i1 a1l v1 b1 [|i2 a2l v2 b2 a2r]] vo bo r]; simpl; auto.
  repeat (rewrite <- app_assoc; simpl). reflexivity. Qed.
Lemma rotRL_elements t : elements (rotRL t) = elements t.
Proof. destruct t as [|io l vo bo [|i1 [|i2 a2l v2 b2 a2r] v1 b1 a1r]]; simpl; auto.
  repeat (rewrite <- app_assoc; simpl). reflexivity. Qed.
