(* C19 — the (ok, balanced) bookkeeping and the Deleted-flag lifecycle.
   "balanced" as returned by insert / delete / deleteRec / balance1 / balance2 is
   true iff the height of the subtree did not change, with the flag of balance1 /
   balance2 given per branch; delete flags exactly the node object it unlinks, in
   all three cases (leaf, one child, two children via the predecessor). *)
From Coq Require Import ZArith List Bool Lia Arith.
From ADV Require Import C19.Model C19.ModelP C19.ModelW C19.Spec C19.ProofsList C19.ProofsLookup
  C19.ProofsIns C19.ProofsDel C19.ProofsRun C19.ProofsIter C19.ProofsIds C19.ProofsPar C19.ProofsNext
  C19.ProofsW1 C19.ProofsW2 C19.ProofsW3.
Import ListNotations.
Open Scope Z_scope.

(* ---- balance1 / balance2: the flag, branch by branch -------------------------------- *)
(* balance2 (right subtree got shorter):
     Balance =  1            -> false   (node becomes even, subtree shorter)
     Balance =  0            -> true    (node leans left, height kept)
     Balance = -1, Left.Balance <  0 -> false  (rotateLL, subtree shorter)
     Balance = -1, Left.Balance == 0 -> true   (rotateLL, balances 1/-1, height kept)
     Balance = -1, Left.Balance >  0 -> false  (rotateLR, subtree shorter) *)
Lemma balance2_flag_branches id l v b r :
  snd (balance2 (N id l v b r)) = negb (b =? 1) && ((b =? 0) || (bal_of l =? 0)).
Proof.
  unfold balance2. destruct (Z.eqb_spec b 1) as [E1|E1]; [reflexivity|].
  destruct (Z.eqb_spec b 0) as [E0|E0]; [reflexivity|]. cbn [negb andb orb].
  destruct (Z.leb_spec (bal_of l) 0) as [Hle|Hgt].
  - destruct (Z.eqb_spec (bal_of l) 0); reflexivity.
  - cbn [snd]. destruct (Z.eqb_spec (bal_of l) 0); [lia|reflexivity].
Qed.
Lemma balance1_flag_branches id l v b r :
  snd (balance1 (N id l v b r)) = negb (b =? -1) && ((b =? 0) || (bal_of r =? 0)).
Proof.
  unfold balance1. destruct (Z.eqb_spec b (-1)) as [E1|E1]; [reflexivity|].
  destruct (Z.eqb_spec b 0) as [E0|E0]; [reflexivity|]. cbn [negb andb orb].
  destruct (Z.leb_spec 0 (bal_of r)) as [Hle|Hgt].
  - destruct (Z.eqb_spec (bal_of r) 0); reflexivity.
  - cbn [snd]. destruct (Z.eqb_spec (bal_of r) 0); [lia|reflexivity].
Qed.

(* height before the right / left subtree lost one level *)
Lemma balance2_flag_iff_height id l v b r :
  avl l -> avl r -> -1 <= b <= 1 -> height r - height l = b - 1 ->
  let before := 1 + Z.max (height l) (height r + 1) in
  (snd (balance2 (N id l v b r)) = true <-> height (fst (balance2 (N id l v b r))) = before) /\
  (snd (balance2 (N id l v b r)) = false <-> height (fst (balance2 (N id l v b r))) = before - 1).
Proof.
  intros Hl Hr Hb Hh. destruct (balance2_spec id l v b r Hl Hr Hb Hh) as (_ & _ & H3). cbv zeta.
  destruct (snd (balance2 (N id l v b r))); split; split; intro; try discriminate; try reflexivity; lia.
Qed.
Lemma balance1_flag_iff_height id l v b r :
  avl l -> avl r -> -1 <= b <= 1 -> height r - height l = b + 1 ->
  let before := 1 + Z.max (height l + 1) (height r) in
  (snd (balance1 (N id l v b r)) = true <-> height (fst (balance1 (N id l v b r))) = before) /\
  (snd (balance1 (N id l v b r)) = false <-> height (fst (balance1 (N id l v b r))) = before - 1).
Proof.
  intros Hl Hr Hb Hh. destruct (balance1_spec id l v b r Hl Hr Hb Hh) as (_ & _ & H3). cbv zeta.
  destruct (snd (balance1 (N id l v b r))); split; split; intro; try discriminate; try reflexivity; lia.
Qed.

(* ---- insert / delete / deleteRec ------------------------------------------------------- *)
Lemma ins_flag_iff_height i nx t :
  avl t ->
  let '(t', ok, bd, _) := ins i nx t in
  (bd = true <-> height t' = height t) /\ (bd = false <-> height t' = height t + 1) /\
  (ok = false -> bd = true /\ t' = t).
Proof.
  intro Ha. destruct (ins i nx t) as [[[t' ok] bd] n] eqn:E.
  destruct (ins_avl i t nx t' ok bd n Ha E) as (_ & Hh & Hno & _).
  destruct ok.
  - destruct bd; simpl in Hh; (split; [|split]); try split; intros; try discriminate; try reflexivity; lia.
  - destruct (Hno eq_refl) as [-> ->]. split; [|split]; try split; intros; try discriminate; auto; lia.
Qed.

Lemma del_flag_iff_height i t :
  avl t -> bst t ->
  let '(t', ok, bd, _) := del i t in
  let t'' := if ok then t' else t in
  (bd = true <-> height t'' = height t) /\ (bd = false <-> height t'' = height t - 1) /\
  (ok = false -> bd = true).
Proof.
  intros Ha Hb. destruct (del i t) as [[[t' ok] bd] d] eqn:E.
  destruct (del_spec i t t' ok bd d Ha Hb E) as (_ & Hno & Hyes). cbv zeta.
  destruct ok.
  - destruct (Hyes eq_refl) as (_ & _ & Hh).
    destruct bd; (split; [|split]); try split; intros; try discriminate; try reflexivity; lia.
  - destruct (Hno eq_refl) as [-> ->]. split; [|split]; try split; intros; try discriminate; auto; lia.
Qed.

Lemma delmax_flag_iff_height t :
  t <> E -> avl t ->
  let '(t', _, _, bd) := delmax t in
  (bd = true <-> height t' = height t) /\ (bd = false <-> height t' = height t - 1).
Proof.
  intros Hne Ha. destruct (delmax t) as [[[t' mi] mv] bd] eqn:E.
  destruct (delmax_spec t t' mi mv bd Hne Ha E) as (_ & _ & Hh).
  destruct bd; split; split; intros; try discriminate; try reflexivity; lia.
Qed.

(* the pointer-level functions return the same flags *)
Lemma pointer_flags_lemma :
  (forall t, snd (pbalance1 t) = snd (balance1 (erase t)) /\ snd (pbalance2 t) = snd (balance2 (erase t))) /\
  (forall i nx par t, let '(_, ok, bd, _) := pins i nx par t in
                      let '(_, ok', bd', _) := ins i nx (erase t) in ok = ok' /\ bd = bd') /\
  (forall i t, let '(_, ok, bd, _) := pdel i t in
               let '(_, ok', bd', _) := del i (erase t) in ok = ok' /\ bd = bd').
Proof.
  split; [|split].
  - intro t. rewrite pbalance1_erase, pbalance2_erase. split; reflexivity.
  - intros i nx par t. destruct (pins i nx par t) as [[[t' ok] bd] n] eqn:E.
    rewrite (pins_erase i _ _ _ _ _ _ _ E). split; reflexivity.
  - intros i t. destruct (pdel i t) as [[[t' ok] bd] d] eqn:E.
    rewrite (pdel_erase i _ _ _ _ _ E). split; reflexivity.
Qed.

(* ---- Deleted-flag lifecycle -------------------------------------------------------------- *)
(* whatever the shape below the found node (leaf, one child, two children), the
   object delete() flags is that node itself ... *)
Lemma pdel_found_flags_node id l v b p r :
  exists t' bd, pdel v (PN id l v b p r) = (t', true, bd, Some id).
Proof.
  destruct (ptree_E_dec l) as [El|El]; destruct (ptree_E_dec r) as [Er|Er].
  - subst. rewrite pdel_N_eq_EE. eauto.
  - subst l. rewrite (pdel_N_eq_ER id v b p r Er). eauto.
  - subst r. rewrite (pdel_N_eq_LE id l v b p El). eauto.
  - rewrite (pdel_N_eq_LR id l v b p r El Er).
    destruct (pdelmax id l) as [[[l' mi] mv] bd1]. cbv zeta. destruct bd1; [eauto|].
    destruct (pbalance1 (PN mi (setp l' (Some mi)) mv b p (setp r (Some mi)))). eauto.
Qed.

(* ... and the flagged object is exactly the one that leaves the reachable set (in the
   two-children case the predecessor OBJECT stays reachable in the found node's place) *)
Lemma pdel_unlinks_flagged i t t' bd d :
  pdel i t = (t', true, bd, d) ->
  exists kd, d = Some kd /\
    forall k, cnt k (erase t) = (cnt k (erase t') + (if Nat.eqb kd k then 1 else 0))%nat.
Proof.
  intro H. apply pdel_erase in H. destruct (del_ids i _ _ _ _ _ H) as (kd & -> & Hc).
  exists kd. split; [reflexivity|exact Hc].
Qed.

(* in every region of every reachable world: a cell is flagged Deleted iff its object
   is not reachable from the root *)
Lemma deleted_iff_unlinked g ts a c :
  ptid g ts -> In (a, c) (region ts) -> (cdel c = true <-> ~ In a (pids (pt ts))).
Proof.
  intros (A & B & C & D & F) Hin. unfold region in Hin. apply in_app_iff in Hin.
  destruct Hin as [Hin|Hin].
  - assert (Ha : In a (pids (pt ts))).
    { rewrite <- addrs_pcells. apply in_map_iff. exists (a, c). split; [reflexivity|exact Hin]. }
    assert (Hc : cdel c = false).
    { clear - Hin. induction (pt ts) as [|id l IHl v b p r IHr]; [destruct Hin|].
      simpl in Hin. destruct Hin as [H|H]; [injection H as _ <-; reflexivity|].
      apply in_app_iff in H. destruct H; auto. }
    rewrite Hc. split; [discriminate|tauto].
  - destruct (D a c Hin) as (_ & Hd & H0). split; [|intros _; exact Hd].
    intros _ Ha. apply In_pids_cnt in Ha. unfold pcnt in H0. lia.
Qed.

(* a region never loses an object: what Delete unlinks stays in the region as a tombstone *)
Lemma region_keeps_objects w o j a :
  hinv w -> owns (nth j (ptrees w) pt0) a -> owns (nth j (ptrees (fst (pwstep_core w o))) pt0) a.
Proof.
  intros Hw Ho. pose proof Hw as (Hids & _).
  assert (Hj : (j < length (ptrees w))%nat).
  { destruct (Nat.lt_ge_cases j (length (ptrees w))) as [H|H]; [exact H|].
    rewrite nth_overflow in Ho by exact H. destruct (owns_pt0 a Ho). }
  assert (Hid : forall t, ptid (gnx w) (nth t (ptrees w) pt0)).
  { intro t. apply Forall_nth_d; [exact Hids|apply ptid_pt0]. }
  destruct o as [t i|t i|t i|t i|t|t|t i|k|k|t]; unfold pwstep_core; try exact Ho.
  - destruct (pins i (gnx w) None (pt (nth t (ptrees w) pt0))) as [[[t' ok] bd] n] eqn:Ep.
    cbn [fst ptrees]. destruct (Nat.eq_dec t j) as [->|Hne]; [|rewrite nth_upd_other by exact Hne; exact Ho].
    rewrite nth_upd_same by exact Hj.
    destruct (pins_ptid _ i _ t' ok bd n (Hid j) Ep) as (_ & Hcnt & _).
    destruct Ho as [H|H]; [left|right; exact H]. unfold pcnt in *. cbn [pt]. rewrite Hcnt. unfold pcnt. lia.
  - destruct (pdel i (pt (nth t (ptrees w) pt0))) as [[[t' ok] bd] d] eqn:Ep.
    cbn [fst ptrees]. destruct (Nat.eq_dec t j) as [->|Hne]; [|rewrite nth_upd_other by exact Hne; exact Ho].
    rewrite nth_upd_same by exact Hj. destruct ok.
    + destruct (pdel_ptid _ i _ t' bd d (Hid j) Ep) as (kd & c & -> & Hs & _ & Hcnt & _).
      rewrite Hs. unfold owns in *. cbn [pdead map fst]. unfold pcnt at 1. cbn [pt].
      destruct Ho as [H|H]; [|right; right; exact H].
      rewrite Hcnt in H. destruct (Nat.eqb_spec kd a) as [Heq|Hneq]; [right; left; exact Heq|].
      left. simpl in H. lia.
    + destruct Ho as [H|H]; [left; exact H|right]. cbn [pdead]. destruct d; exact H.
  - destruct (pclone (gnx w) (pt (nth t (ptrees w) pt0))) as [c g].
    cbn [fst ptrees]. rewrite app_nth1 by exact Hj. exact Ho.
Qed.
