(* C19 — STATEMENT-level model of the non-recursive AvlNode methods of avl-tree.go:
   setLeft, setRight, rotateLL, rotateLR, rotateRR, rotateRL, replace, balance1,
   balance2 are the literal statement lists of the Go source (deep embedding; the
   lists below are REGENERATED from /repo/avl-tree.go by harness/c19/go2coq on every
   run and compared with these by Coq), executed by a small interpreter on a flat
   heap  address |-> AvlNode object  (ModelW.cell: Value, Balance, Deleted, Left,
   Right, Parent).  A nil dereference is a panic (None).  ProofsH*.v show that on a
   heap holding a tree (rep) the statement lists do what the tree-shaped pointer
   model ModelP (protLL .. pbalance2, the replace step of pdel) does, and touch no
   other object.  No proofs in this file. *)
From Coq Require Import ZArith List Bool.
From ADV Require Import C19.Model C19.ModelP C19.ModelW.
Import ListNotations.
Open Scope Z_scope.

(* ---- the heap ------------------------------------------------------------------ *)
Definition hheap := nat -> cell.
Definition hupd (h : hheap) (k : nat) (c : cell) : hheap := fun a => if Nat.eqb a k then c else h a.

(* a heap holds the tree t: every reachable node object is the cell ModelW.pcells lists *)
Fixpoint rep (h : hheap) (t : ptree) : Prop := match t with
  | PE => True
  | PN id l v b p r => h id = live_cell l v b p r /\ rep h l /\ rep h r end.

(* ---- syntax -------------------------------------------------------------------- *)
Inductive pvar := Obj | Node | A1 | A2.             (* receiver, pointer argument, locals a1 a2 *)
Inductive pexp := PNil | PV (x : pvar) | PL (e : pexp) | PR (e : pexp) | PP (e : pexp).
Inductive fld := FLeft | FRight | FParent.
Inductive cmp := CEq | CGe | CLe.
Inductive meth := MSetLeft | MSetRight | MRotLL | MRotLR | MRotRR | MRotRL | MReplace | MBalance1 | MBalance2.

Inductive stmt :=
  | SLet (x : pvar) (e : pexp)                           (* x := e *)
  | SAsg (f : fld) (e1 e2 : pexp)                        (* e1.f = e2 *)
  | SIfNotNil (e : pexp) (body : list stmt)              (* if e != nil { body } *)
  | SCall (m : meth) (recv arg : pexp)                   (* recv.m(arg)   (arg = PNil: none) *)
  | SSwapV (e1 e2 : pexp)                                (* e1.Value, e2.Value = e2.Value, e1.Value *)
  | SBal (e : pexp) (z : Z)                              (* e.Balance = z *)
  | SBalCopy (e1 e2 : pexp)                              (* e1.Balance = e2.Balance *)
  | SIfBal (e : pexp) (c : cmp) (z : Z) (th el : list stmt)   (* if e.Balance c z { th } else { el } *)
  | SSwitchBal (e : pexp) (cases : list (Z * list stmt)) (* switch e.Balance { case z: .. }  no default *)
  | SLetInt (e : pexp)                                   (* balance := e.Balance *)
  | SIfInt (c : cmp) (z : Z) (th el : list stmt)         (* if balance c z { th } else { el } *)
  | SFlag (b : bool)                                     (* balanced = b *)
  | SRetPtr (e : pexp)                                   (* return e *)
  | SRetFlag.                                            (* return balanced *)

(* ---- the statement lists of avl-tree.go ------------------------------------------ *)
Definition setLeft_body : list stmt :=
  [SAsg FLeft (PV Obj) (PV Node); SIfNotNil (PV Node) [SAsg FParent (PV Node) (PV Obj)]].
Definition setRight_body : list stmt :=
  [SAsg FRight (PV Obj) (PV Node); SIfNotNil (PV Node) [SAsg FParent (PV Node) (PV Obj)]].

Definition rotateLL_body : list stmt :=
  [SLet A1 (PL (PV Obj)); SLet A2 (PR (PV Obj));
   SCall MSetLeft (PV Obj) (PL (PV A1)); SCall MSetRight (PV Obj) (PV A1);
   SCall MSetLeft (PV A1) (PR (PV A1)); SCall MSetRight (PV A1) (PV A2);
   SSwapV (PV Obj) (PV A1);
   SBal (PR (PV Obj)) 0; SBal (PV Obj) 0].

Definition rotateLR_body : list stmt :=
  [SLet A1 (PL (PV Obj)); SLet A2 (PR (PV A1));
   SCall MSetRight (PV A1) (PL (PV A2)); SCall MSetLeft (PV A2) (PR (PV A2));
   SCall MSetRight (PV A2) (PR (PV Obj)); SCall MSetRight (PV Obj) (PV A2);
   SSwapV (PV Obj) (PV A2);
   SIfBal (PV A2) CEq 1 [SBal (PL (PV Obj)) (-1)] [SBal (PL (PV Obj)) 0];
   SIfBal (PV A2) CEq (-1) [SBal (PR (PV Obj)) 1] [SBal (PR (PV Obj)) 0];
   SBal (PV Obj) 0].

Definition rotateRR_body : list stmt :=
  [SLet A1 (PR (PV Obj)); SLet A2 (PL (PV Obj));
   SCall MSetRight (PV Obj) (PR (PV A1)); SCall MSetLeft (PV Obj) (PV A1);
   SCall MSetRight (PV A1) (PL (PV A1)); SCall MSetLeft (PV A1) (PV A2);
   SSwapV (PV Obj) (PV A1);
   SBal (PL (PV Obj)) 0; SBal (PV Obj) 0].

Definition rotateRL_body : list stmt :=
  [SLet A1 (PR (PV Obj)); SLet A2 (PL (PV A1));
   SCall MSetLeft (PV A1) (PR (PV A2)); SCall MSetRight (PV A2) (PL (PV A2));
   SCall MSetLeft (PV A2) (PL (PV Obj)); SCall MSetLeft (PV Obj) (PV A2);
   SSwapV (PV Obj) (PV A2);
   SIfBal (PV A2) CEq (-1) [SBal (PR (PV Obj)) 1] [SBal (PR (PV Obj)) 0];
   SIfBal (PV A2) CEq 1 [SBal (PL (PV Obj)) (-1)] [SBal (PL (PV Obj)) 0];
   SBal (PV Obj) 0].

Definition replace_body : list stmt :=
  [SAsg FParent (PV Node) (PP (PV Obj)); SBalCopy (PV Node) (PV Obj);
   SCall MSetRight (PV Node) (PR (PV Obj)); SCall MSetLeft (PV Node) (PL (PV Obj));
   SAsg FParent (PV Obj) PNil; SAsg FRight (PV Obj) PNil; SAsg FLeft (PV Obj) PNil;
   SRetPtr (PV Node)].

Definition balance1_body : list stmt :=
  [SSwitchBal (PV Obj)
     [(-1, [SBal (PV Obj) 0]);
      (0, [SBal (PV Obj) 1; SFlag true]);
      (1, [SLetInt (PR (PV Obj));
           SIfInt CGe 0
             [SCall MRotRR (PV Obj) PNil;
              SIfInt CEq 0 [SBal (PV Obj) (-1); SBal (PL (PV Obj)) 1; SFlag true] []]
             [SCall MRotRL (PV Obj) PNil]])];
   SRetFlag].

Definition balance2_body : list stmt :=
  [SSwitchBal (PV Obj)
     [(1, [SBal (PV Obj) 0]);
      (0, [SBal (PV Obj) (-1); SFlag true]);
      (-1, [SLetInt (PL (PV Obj));
            SIfInt CLe 0
              [SCall MRotLL (PV Obj) PNil;
               SIfInt CEq 0 [SBal (PV Obj) 1; SBal (PR (PV Obj)) (-1); SFlag true] []]
              [SCall MRotLR (PV Obj) PNil]])];
   SRetFlag].

Definition body (m : meth) : list stmt := match m with
  | MSetLeft => setLeft_body | MSetRight => setRight_body
  | MRotLL => rotateLL_body | MRotLR => rotateLR_body | MRotRR => rotateRR_body | MRotRL => rotateRL_body
  | MReplace => replace_body | MBalance1 => balance1_body | MBalance2 => balance2_body end.

(* ---- interpreter ---------------------------------------------------------------- *)
Record env := { eobj : option nat; enode : option nat; ea1 : option nat; ea2 : option nat }.
Definition getv (e : env) (x : pvar) : option nat := match x with
  | Obj => eobj e | Node => enode e | A1 => ea1 e | A2 => ea2 e end.
Definition setv (e : env) (x : pvar) (p : option nat) : env := match x with
  | Obj => {| eobj := p; enode := enode e; ea1 := ea1 e; ea2 := ea2 e |}
  | Node => {| eobj := eobj e; enode := p; ea1 := ea1 e; ea2 := ea2 e |}
  | A1 => {| eobj := eobj e; enode := enode e; ea1 := p; ea2 := ea2 e |}
  | A2 => {| eobj := eobj e; enode := enode e; ea1 := ea1 e; ea2 := p |} end.

(* heap, pointer locals, the int local "balance", the bool "balanced", the returned pointer *)
Record st := { sh : hheap; se : env; si : Z; sf : bool; sr : option nat }.

(* outer None: nil dereference (Go panics) *)
Fixpoint eval (h : hheap) (e : env) (x : pexp) : option (option nat) := match x with
  | PNil => Some None
  | PV v => Some (getv e v)
  | PL y => match eval h e y with Some (Some k) => Some (cl (h k)) | _ => None end
  | PR y => match eval h e y with Some (Some k) => Some (cr (h k)) | _ => None end
  | PP y => match eval h e y with Some (Some k) => Some (cp (h k)) | _ => None end
  end.

Definition set_fld (f : fld) (c : cell) (p : option nat) : cell := match f with
  | FLeft => {| cv := cv c; cb := cb c; cdel := cdel c; cl := p; cr := cr c; cp := cp c |}
  | FRight => {| cv := cv c; cb := cb c; cdel := cdel c; cl := cl c; cr := p; cp := cp c |}
  | FParent => {| cv := cv c; cb := cb c; cdel := cdel c; cl := cl c; cr := cr c; cp := p |} end.
Definition set_cv (c : cell) (v : Z) : cell :=
  {| cv := v; cb := cb c; cdel := cdel c; cl := cl c; cr := cr c; cp := cp c |}.
Definition set_cb (c : cell) (b : Z) : cell :=
  {| cv := cv c; cb := b; cdel := cdel c; cl := cl c; cr := cr c; cp := cp c |}.
Definition cmpz (c : cmp) (a b : Z) : bool := match c with
  | CEq => a =? b | CGe => b <=? a | CLe => a <=? b end.
Fixpoint find_case (b : Z) (cases : list (Z * list stmt)) : option (list stmt) := match cases with
  | [] => None | (z, blk) :: rest => if b =? z then Some blk else find_case b rest end.

Definition with_heap (s : st) (h : hheap) : st := {| sh := h; se := se s; si := si s; sf := sf s; sr := sr s |}.

(* one statement; [sub] runs a nested block / a callee body *)
Definition step (sub : list stmt -> st -> option st) (x : stmt) (s : st) : option st :=
  match x with
  | SLet v e =>
    match eval (sh s) (se s) e with
    | Some p => Some {| sh := sh s; se := setv (se s) v p; si := si s; sf := sf s; sr := sr s |}
    | None => None end
  | SAsg f e1 e2 =>
    match eval (sh s) (se s) e1, eval (sh s) (se s) e2 with
    | Some (Some k), Some p => Some (with_heap s (hupd (sh s) k (set_fld f (sh s k) p)))
    | _, _ => None end
  | SIfNotNil e blk =>
    match eval (sh s) (se s) e with
    | Some (Some _) => sub blk s
    | Some None => Some s
    | None => None end
  | SCall m recv arg =>
    match eval (sh s) (se s) recv, eval (sh s) (se s) arg with
    | Some pr, Some pa =>
      match sub (body m) {| sh := sh s; se := {| eobj := pr; enode := pa; ea1 := None; ea2 := None |};
                            si := 0; sf := false; sr := None |} with
      | Some s' => Some (with_heap s (sh s'))
      | None => None end
    | _, _ => None end
  | SSwapV e1 e2 =>
    match eval (sh s) (se s) e1, eval (sh s) (se s) e2 with
    | Some (Some k1), Some (Some k2) =>
      let v1 := cv (sh s k1) in let v2 := cv (sh s k2) in
      let h1 := hupd (sh s) k1 (set_cv (sh s k1) v2) in
      Some (with_heap s (hupd h1 k2 (set_cv (h1 k2) v1)))
    | _, _ => None end
  | SBal e z =>
    match eval (sh s) (se s) e with
    | Some (Some k) => Some (with_heap s (hupd (sh s) k (set_cb (sh s k) z)))
    | _ => None end
  | SBalCopy e1 e2 =>
    match eval (sh s) (se s) e1, eval (sh s) (se s) e2 with
    | Some (Some k1), Some (Some k2) => Some (with_heap s (hupd (sh s) k1 (set_cb (sh s k1) (cb (sh s k2)))))
    | _, _ => None end
  | SIfBal e c z th el =>
    match eval (sh s) (se s) e with
    | Some (Some k) => sub (if cmpz c (cb (sh s k)) z then th else el) s
    | _ => None end
  | SSwitchBal e cases =>
    match eval (sh s) (se s) e with
    | Some (Some k) => match find_case (cb (sh s k)) cases with Some blk => sub blk s | None => Some s end
    | _ => None end
  | SLetInt e =>
    match eval (sh s) (se s) e with
    | Some (Some k) => Some {| sh := sh s; se := se s; si := cb (sh s k); sf := sf s; sr := sr s |}
    | _ => None end
  | SIfInt c z th el => sub (if cmpz c (si s) z then th else el) s
  | SFlag b => Some {| sh := sh s; se := se s; si := si s; sf := b; sr := sr s |}
  | SRetPtr e =>
    match eval (sh s) (se s) e with
    | Some p => Some {| sh := sh s; se := se s; si := si s; sf := sf s; sr := p |}
    | None => None end
  | SRetFlag => Some s
  end.

Fixpoint seq (run1 : stmt -> st -> option st) (ss : list stmt) (s : st) : option st := match ss with
  | [] => Some s
  | x :: rest => match run1 x s with Some s1 => seq run1 rest s1 | None => None end end.

(* fuel bounds the NESTING depth (blocks and calls), not the number of statements *)
Fixpoint exec (fuel : nat) (ss : list stmt) (s : st) {struct fuel} : option st := match fuel with
  | O => None
  | S f => seq (step (exec f)) ss s end.

(* recv.m(arg) with the bool argument / result "balanced" *)
Definition run_method (fuel : nat) (m : meth) (recv arg : option nat) (flag : bool) (h : hheap) : option st :=
  exec fuel (body m) {| sh := h; se := {| eobj := recv; enode := arg; ea1 := None; ea2 := None |};
                        si := 0; sf := flag; sr := None |}.

(* ---- reading a tree back from a heap (for examples and the correspondence) ------- *)
Fixpoint readback (fuel : nat) (h : hheap) (o : option nat) : ptree := match fuel, o with
  | S f, Some k => let c := h k in PN k (readback f h (cl c)) (cv c) (cb c) (cp c) (readback f h (cr c))
  | _, _ => PE end.

(* the heap that holds exactly the cells of a list (ModelW.heap / region / pcells) *)
Definition dflt_cell : cell := {| cv := 0; cb := 0; cdel := false; cl := None; cr := None; cp := None |}.
Definition hof (l : list (nat * cell)) : hheap := fun a => match lookup a l with Some c => c | None => dflt_cell end.
