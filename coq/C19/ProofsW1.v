(* C19 — pointer-level worlds (ModelW.v), part 1: erasure lemmas for the new
   definitions, Clone's pointer copying, the per-tree identity invariant. *)
From Coq Require Import ZArith List Bool Lia Arith.
From ADV Require Import C19.Model C19.ModelP C19.ModelW C19.Spec C19.ProofsList C19.ProofsLookup
  C19.ProofsIns C19.ProofsDel C19.ProofsRun C19.ProofsIter C19.ProofsIds C19.ProofsPar C19.ProofsNext.
Import ListNotations.
Open Scope Z_scope.

(* ---- small erasure facts ---------------------------------------------------- *)
Lemma pids_erase t : pids t = ids (erase t).
Proof. induction t as [|id l IHl v b p r IHr]; simpl; [reflexivity|]. rewrite IHl, IHr. reflexivity. Qed.

Lemma pfind_le_erase i t : forall best, pfind_le i t best = find_le i (erase t) best.
Proof.
  induction t as [|id l IHl v b p r IHr]; intro best; simpl; [reflexivity|].
  rewrite IHl, IHr. reflexivity.
Qed.
Lemma pFindNodeLE_erase i t : pFindNodeLE i t = find_le i (erase t) None.
Proof. unfold pFindNodeLE. apply pfind_le_erase. Qed.

Lemma pnode_some k : forall t s, pnode k t = Some s ->
  exists l v b p r, s = PN k l v b p r /\ value_at k (erase t) = Some v.
Proof.
  induction t as [|id l IHl v b p r IHr]; intros s; simpl; [discriminate|].
  destruct (Nat.eqb_spec id k) as [->|Hne].
  - intro H. injection H as <-. exists l, v, b, p, r. split; reflexivity.
  - destruct (pnode k l) as [x|] eqn:El.
    + intro H. injection H as <-. destruct (IHl x eq_refl) as (l1 & v1 & b1 & p1 & r1 & -> & Hv).
      exists l1, v1, b1, p1, r1. split; [reflexivity|]. rewrite Hv. reflexivity.
    + intro H. destruct (IHr s H) as (l1 & v1 & b1 & p1 & r1 & -> & Hv).
      exists l1, v1, b1, p1, r1. split; [reflexivity|].
      apply pnode_none in El. apply value_at_none_cnt in El. rewrite El. exact Hv.
Qed.

Lemma pnode_cnt k t s : pnode k t = Some s -> (1 <= cnt k (erase t))%nat.
Proof.
  intro H. destruct (Nat.eq_dec (cnt k (erase t)) 0) as [H0|H0]; [|lia].
  apply pnode_none in H0. congruence.
Qed.

(* ---- shapes: a tree without its node identities -------------------------------- *)
Fixpoint shape (t : tree) : tree := match t with
  | E => E | N _ l v b r => N O (shape l) v b (shape r) end.
Lemma shape_elements t : elements (shape t) = elements t.
Proof. induction t as [|id l IHl v b r IHr]; simpl; [reflexivity|]. rewrite IHl, IHr. reflexivity. Qed.
Lemma shape_height t : height (shape t) = height t.
Proof. induction t as [|id l IHl v b r IHr]; simpl; [reflexivity|]. rewrite IHl, IHr. reflexivity. Qed.
Lemma shape_avl t : avl (shape t) <-> avl t.
Proof.
  induction t as [|id l IHl v b r IHr]; simpl; [tauto|].
  rewrite IHl, IHr, !shape_height. tauto.
Qed.
Lemma shape_dump_hash t : forall par h, dump_hash (shape t) par h = dump_hash t par h.
Proof.
  induction t as [|id l IHl v b r IHr]; intros par h; simpl; [reflexivity|].
  rewrite IHl, IHr. reflexivity.
Qed.
Lemma shape_eq_elements a b : shape a = shape b -> elements a = elements b.
Proof. intro H. rewrite <- (shape_elements a), <- (shape_elements b), H. reflexivity. Qed.
Lemma shape_eq_height a b : shape a = shape b -> height a = height b.
Proof. intro H. rewrite <- (shape_height a), <- (shape_height b), H. reflexivity. Qed.
Lemma shape_eq_avl a b : shape a = shape b -> avl a -> avl b.
Proof. intros H Ha. apply shape_avl. rewrite <- H. apply shape_avl. exact Ha. Qed.
Lemma shape_eq_hash a b : shape a = shape b -> tree_hash a = tree_hash b.
Proof. intro H. unfold tree_hash. rewrite <- (shape_dump_hash a), <- (shape_dump_hash b), H. reflexivity. Qed.

(* ---- Clone -------------------------------------------------------------------- *)
Definition proot (t : ptree) : option nat := match t with PE => None | PN _ _ _ _ p _ => p end.

Lemma pclone_size : forall t g c g', pclone g t = (c, g') -> g' = (g + psize t)%nat.
Proof.
  induction t as [|id l IHl v b p r IHr]; intros g c g'; simpl.
  - intro H. injection H as ? ?; subst. lia.
  - destruct (pclone (S g) l) as [l' g1] eqn:El. destruct (pclone g1 r) as [r' g2] eqn:Er.
    intro H. injection H as ? ?; subst. rewrite (IHr _ _ _ Er), (IHl _ _ _ El). lia.
Qed.

(* the copy consists of exactly the fresh addresses g .. g'-1, each once *)
Lemma pclone_cnt : forall t g c g', pclone g t = (c, g') ->
  forall k, cnt k (erase c) = (if (g <=? k)%nat && (k <? g')%nat then 1 else 0)%nat.
Proof.
  induction t as [|id l IHl v b p r IHr]; intros g c g'; simpl.
  - intro H. injection H as ? ?; subst. intro k. simpl.
    destruct (Nat.leb_spec g' k); destruct (Nat.ltb_spec k g'); simpl; try reflexivity; lia.
  - destruct (pclone (S g) l) as [l' g1] eqn:El. destruct (pclone g1 r) as [r' g2] eqn:Er.
    pose proof (pclone_size _ _ _ _ El) as S1. pose proof (pclone_size _ _ _ _ Er) as S2.
    intro H. injection H as ? ?; subst c g'. intro k. simpl. rewrite !erase_setp.
    rewrite (IHl _ _ _ El k), (IHr _ _ _ Er k).
    destruct (Nat.eqb_spec g k); destruct (Nat.leb_spec (S g) k); destruct (Nat.ltb_spec k g1);
      destruct (Nat.leb_spec g1 k); destruct (Nat.ltb_spec k g2); destruct (Nat.leb_spec g k);
      simpl; try reflexivity; lia.
Qed.

(* parents are re-established everywhere below the copy's root; the root's own
   Parent field is the one the SOURCE root stored *)
Lemma pclone_pwf : forall t g c g', pclone g t = (c, g') -> pwf (proot t) c.
Proof.
  induction t as [|id l IHl v b p r IHr]; intros g c g'; simpl.
  - intro H. injection H as ? ?; subst. exact I.
  - destruct (pclone (S g) l) as [l' g1] eqn:El. destruct (pclone g1 r) as [r' g2] eqn:Er.
    intro H. injection H as ? ?; subst. simpl. split; [reflexivity|].
    split; eapply pwf_setp; [eapply IHl|eapply IHr]; eassumption.
Qed.
Lemma proot_pwf q t : pwf q t -> t = PE \/ proot t = q.
Proof. destruct t; simpl; [auto|]. intros (-> & _). auto. Qed.
Lemma pclone_pwf_None t g c g' : pwf None t -> pclone g t = (c, g') -> pwf None c.
Proof.
  intros Hw H. pose proof (pclone_pwf _ _ _ _ H) as Hc.
  destruct (proot_pwf _ _ Hw) as [->|Hq]; [simpl in H; injection H as ? ?; subst; exact I|].
  rewrite Hq in Hc. exact Hc.
Qed.
(* ... and this needs the source root's Parent to be nil: otherwise the copy's
   root keeps a pointer to a node of the SOURCE tree *)
Lemma pclone_root_parent : forall g id l v b p r c g',
  pclone g (PN id l v b p r) = (c, g') -> proot c = p.
Proof.
  intros g id l v b p r c g'. simpl.
  destruct (pclone (S g) l) as [l' g1]. destruct (pclone g1 r) as [r' g2].
  intro H. injection H as ? ?; subst. reflexivity.
Qed.

Lemma pclone_shape : forall t g c g', pclone g t = (c, g') -> shape (erase c) = shape (erase t).
Proof.
  induction t as [|id l IHl v b p r IHr]; intros g c g'; simpl.
  - intro H. injection H as ? ?; subst. reflexivity.
  - destruct (pclone (S g) l) as [l' g1] eqn:El. destruct (pclone g1 r) as [r' g2] eqn:Er.
    intro H. injection H as ? ?; subst. simpl. rewrite !erase_setp.
    rewrite (IHl _ _ _ El), (IHr _ _ _ Er). reflexivity.
Qed.

(* ---- per-tree identity invariant, relative to the global allocator ------------- *)
Definition pcnt (k : nat) (ts : ptstate) : nat := cnt k (erase (pt ts)).
Definition ptid (g : nat) (ts : ptstate) : Prop :=
  pwf None (pt ts) /\
  (forall k, (pcnt k ts <= 1)%nat) /\
  (forall k, (g <= k)%nat -> pcnt k ts = O) /\
  (forall k c, In (k, c) (pdead ts) -> (k < g)%nat /\ cdel c = true /\ pcnt k ts = O) /\
  NoDup (map fst (pdead ts)).

(* the addresses a tree's region of the heap holds: reachable or unlinked objects *)
Definition owns (ts : ptstate) (k : nat) : Prop :=
  (1 <= pcnt k ts)%nat \/ In k (map fst (pdead ts)).

Lemma ptid_pt0 g : ptid g pt0.
Proof.
  unfold ptid, pcnt. simpl. split; [exact I|]. split; [auto|]. split; [auto|].
  split; [intros k c []|constructor].
Qed.
Lemma ptid_mono g g' ts : (g <= g')%nat -> ptid g ts -> ptid g' ts.
Proof.
  intros Hg (A & B & C & D & F). repeat split; auto.
  - intros k Hk. apply C. lia.
  - destruct (D k c H) as (D1 & _). lia.
  - apply (D k c H).
  - apply (D k c H).
Qed.
Lemma owns_lt g ts k : ptid g ts -> owns ts k -> (k < g)%nat.
Proof.
  intros (A & B & C & D & F) [H|H].
  - destruct (Nat.lt_ge_cases k g) as [Hl|Hl]; [exact Hl|]. rewrite (C k Hl) in H. lia.
  - apply in_map_iff in H. destruct H as ([k' c] & Hk & Hin). simpl in Hk. subst k'.
    apply (D k c Hin).
Qed.
Lemma owns_pt0 k : ~ owns pt0 k.
Proof. intros [H|H]; [unfold pcnt in H; simpl in H; lia|destruct H]. Qed.

Lemma lookup_In k d c : lookup k d = Some c -> In (k, c) d.
Proof.
  induction d as [|[a x] d IH]; simpl; [discriminate|].
  destruct (Nat.eqb_spec a k) as [->|Hne].
  - intro H. injection H as ->. left. reflexivity.
  - intro H. right. apply IH. exact H.
Qed.
Lemma In_lookup k d c : In (k, c) d -> exists c', lookup k d = Some c'.
Proof.
  induction d as [|[a x] d IH]; simpl; [intros []|].
  destruct (Nat.eqb_spec a k) as [->|Hne]; [eexists; reflexivity|].
  intros [H|H]; [injection H as ? ?; congruence|]. apply IH. exact H.
Qed.

Lemma stale_cell_some t k : (1 <= cnt k (erase t))%nat ->
  exists c, stale_cell t k = Some c /\ cdel c = true.
Proof.
  intro H. unfold stale_cell. destruct (pnode k t) as [s|] eqn:Ep.
  - destruct (pnode_some k t s Ep) as (l & v & b & p & r & -> & _).
    destruct l, r; eexists; (split; [reflexivity|reflexivity]).
  - apply pnode_none in Ep. lia.
Qed.

(* ---- Insert / Delete / Clone keep the per-tree invariant ------------------------ *)
Lemma pins_ptid g i ts t' ok bd n :
  ptid g ts -> pins i g None (pt ts) = (t', ok, bd, n) ->
  n = (if ok then S g else g) /\
  (forall k, cnt k (erase t') = (pcnt k ts + one (ok && Nat.eqb g k))%nat) /\
  ptid n {| pt := t'; pdead := pdead ts |}.
Proof.
  intros (A & B & C & D & F) Hp.
  pose proof (pins_pwf i _ _ _ _ _ _ _ A Hp) as A'.
  apply pins_erase in Hp. destruct (ins_ids i _ _ _ _ _ _ Hp) as [Hn Hc].
  split; [exact Hn|]. split; [exact Hc|].
  assert (Hone : forall k, (one (ok && Nat.eqb g k) <= 1)%nat /\
                           (one (ok && Nat.eqb g k) = 1%nat -> ok = true /\ g = k)).
  { intro k. destruct ok; simpl; [|split; [lia|discriminate]].
    destruct (Nat.eqb_spec g k); simpl; split; auto; try lia; discriminate. }
  unfold ptid, pcnt in *. cbn [pt pdead]. split; [exact A'|]. split; [|split; [|split]].
  - intro k. rewrite Hc. destruct (Hone k) as [H1 H2]. pose proof (B k).
    destruct (Nat.eq_dec (one (ok && Nat.eqb g k)) 1) as [E1|E1]; [|lia].
    destruct (H2 E1) as [_ <-]. rewrite (C g) by lia. lia.
  - intros k Hk. rewrite Hc. assert (Hk' : (g <= k)%nat) by (destruct ok; lia).
    rewrite (C k Hk'). destruct (Hone k) as [H1 H2].
    destruct (Nat.eq_dec (one (ok && Nat.eqb g k)) 1) as [E1|E1]; [|lia].
    destruct (H2 E1) as [-> <-]. lia.
  - intros k c Hin. destruct (D k c Hin) as (D1 & D2 & D3). split; [destruct ok; lia|].
    split; [exact D2|]. rewrite Hc, D3. destruct (Hone k) as [H1 H2].
    destruct (Nat.eq_dec (one (ok && Nat.eqb g k)) 1) as [E1|E1]; [|lia].
    destruct (H2 E1) as [_ <-]. lia.
  - exact F.
Qed.

Definition del_dead (ts : ptstate) (ok : bool) (d : option nat) : list (nat * cell) :=
  match d with
  | Some k => if ok then match stale_cell (pt ts) k with
                         | Some c => (k, c) :: pdead ts | None => pdead ts end
              else pdead ts
  | None => pdead ts end.

Lemma pdel_ptid g i ts t' bd d :
  ptid g ts -> pdel i (pt ts) = (t', true, bd, d) ->
  exists kd c, d = Some kd /\ stale_cell (pt ts) kd = Some c /\ cdel c = true /\
    (forall k, pcnt k ts = (cnt k (erase t') + one (Nat.eqb kd k))%nat) /\
    ptid g {| pt := t'; pdead := (kd, c) :: pdead ts |}.
Proof.
  intros (A & B & C & D & F) Hp.
  assert (A' : pwf None t') by (destruct (pdel_pwf i _ _ _ _ _ _ A Hp eq_refl); assumption).
  apply pdel_erase in Hp. pose proof (del_ids i _ _ _ _ _ Hp) as (kd & -> & Hc). cbv beta in Hc.
  assert (Hkd : (1 <= cnt kd (erase (pt ts)))%nat).
  { rewrite Hc, Nat.eqb_refl. simpl. lia. }
  destruct (stale_cell_some _ _ Hkd) as (c & Hs & Hdel).
  exists kd, c. split; [reflexivity|]. split; [exact Hs|]. split; [exact Hdel|]. split; [exact Hc|].
  unfold ptid, pcnt in *. cbn [pt pdead]. split; [exact A'|]. split; [|split; [|split]].
  - intro k. pose proof (B k) as H. rewrite Hc in H. lia.
  - intros k Hk. pose proof (C k Hk) as H. rewrite Hc in H. lia.
  - intros k c' [Hin|Hin].
    + injection Hin as <- <-. split; [|split; [exact Hdel|]].
      * destruct (Nat.lt_ge_cases kd g) as [H|H]; [exact H|]. rewrite (C kd H) in Hkd. lia.
      * pose proof (B kd) as H. rewrite Hc, Nat.eqb_refl in H. simpl in H. lia.
    + destruct (D k c' Hin) as (D1 & D2 & D3). split; [exact D1|]. split; [exact D2|].
      rewrite Hc in D3. lia.
  - simpl. constructor; [|exact F]. intro Hin. apply in_map_iff in Hin.
    destruct Hin as ([k' c'] & Hk & Hin). simpl in Hk. subst k'.
    destruct (D kd c' Hin) as (_ & _ & D3). lia.
Qed.

Lemma pclone_ptid g ts c g' :
  ptid g ts -> pclone g (pt ts) = (c, g') ->
  (g <= g')%nat /\ ptid g' {| pt := c; pdead := [] |} /\
  (forall k, owns {| pt := c; pdead := [] |} k <-> (g <= k < g')%nat).
Proof.
  intros (A & B & C & D & F) Hc.
  pose proof (pclone_size _ _ _ _ Hc) as Hs. pose proof (pclone_cnt _ _ _ _ Hc) as Hk.
  split; [lia|]. split.
  - unfold ptid, pcnt. cbn [pt pdead]. split; [eapply pclone_pwf_None; eassumption|].
    split; [|split; [|split]].
    + intro k. rewrite Hk. destruct ((g <=? k)%nat && (k <? g')%nat); lia.
    + intros k Hge. rewrite Hk. destruct (Nat.ltb_spec k g'); [lia|]. rewrite andb_false_r. reflexivity.
    + intros k c' [].
    + constructor.
  - intro k. unfold owns, pcnt. cbn [pt pdead map]. rewrite Hk.
    destruct (Nat.leb_spec g k); destruct (Nat.ltb_spec k g'); simpl; split; intro HH;
      try lia; try (destruct HH as [HH|[]]; lia); left; lia.
Qed.
