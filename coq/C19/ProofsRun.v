(* C19 — whole histories: the world invariant is preserved by every step and
   every step refines the set-level specification. *)
From Coq Require Import ZArith List Bool Lia Sorted.
From ADV Require Import C19.Model C19.Spec C19.ProofsRot C19.ProofsList C19.ProofsLookup
  C19.ProofsIns C19.ProofsDel.
Import ListNotations.
Open Scope Z_scope.

Definition tinv (ts : tstate) : Prop :=
  avl (tr ts) /\ bst (tr ts) /\ Forall in_range (elements (tr ts)).
Definition winv (w : world) : Prop :=
  Forall tinv (trees w) /\ Forall (fun it => in_range (ival it)) (iters w).

Definition elems (ts : tstate) : list Z := elements (tr ts).

Lemma in_range_0 : in_range 0.
Proof. unfold in_range, MINI, MAXI. lia. Qed.

Lemma tinv_t0 : tinv t0.
Proof. repeat split; simpl; auto; try apply bst_E. Qed.

Lemma winv_init : winv init.
Proof. split; simpl; repeat constructor; simpl; auto; try apply bst_E. Qed.

Lemma winv_nth w t : winv w -> tinv (nth t (trees w) t0).
Proof. intros [H _]. apply Forall_nth_d; [exact H|apply tinv_t0]. Qed.

Lemma winv_nth_iter w k : winv w -> in_range (ival (nth k (iters w) dflt_iter)).
Proof. intros [_ H]. apply (Forall_nth_d (fun it => in_range (ival it))); [exact H|apply in_range_0]. Qed.

Lemma nth_elems l t : nth t (map elems l) [] = elems (nth t l t0).
Proof. change (@nil Z) with (elems t0). apply map_nth. Qed.

Lemma nth_abs_iter l k : nth k (map abs_iter l) dflt_aiter = abs_iter (nth k l dflt_iter).
Proof. change dflt_aiter with (abs_iter dflt_iter). apply map_nth. Qed.

Lemma upd_map {A B} (f : A -> B) n x l : map f (upd n x l) = upd n (f x) (map f l).
Proof. revert n. induction l as [|a l IH]; intros [|n]; simpl; auto. rewrite IH. reflexivity. Qed.

Lemma hd_error_In {A} (l : list A) x : hd_error l = Some x -> In x l.
Proof. destruct l; simpl; [discriminate|]. intro H; inversion H; auto. Qed.

Lemma abs_mk t (p : option (nat * Z)) :
  abs_iter (match p with
            | Some (k, v) => {| itree := t; inode := Some k; ival := v |}
            | None => {| itree := t; inode := None; ival := 0 |} end) =
  mk_iter t (option_map snd p).
Proof. destruct p as [[k v]|]; reflexivity. Qed.

Lemma obs_abs it :
  ((match inode it with Some _ => true | None => false end,
    if (match inode it with Some _ => true | None => false end) then ival it else 0,
    @nil Z) : aout) = obs_iter (abs_iter it).
Proof. unfold obs_iter, abs_iter. simpl. destruct (inode it); reflexivity. Qed.

Lemma mk_in_range t (p : option (nat * Z)) l :
  Forall in_range l -> (forall v, option_map snd p = Some v -> In v l) ->
  in_range (ival (match p with
            | Some (k, v) => {| itree := t; inode := Some k; ival := v |}
            | None => {| itree := t; inode := None; ival := 0 |} end)).
Proof.
  intros HF H. destruct p as [[k v]|]; simpl; [|apply in_range_0].
  rewrite Forall_forall in HF. apply HF, H. reflexivity.
Qed.

(* ---- one step ------------------------------------------------------------- *)
Lemma step_refines w o :
  winv w -> op_in_range o ->
  winv (fst (step w o)) /\
  abs_world (fst (step w o)) = fst (astep (abs_world w) o) /\
  proj o (snd (step w o)) = snd (astep (abs_world w) o).
Proof.
  intros Hw Ho. pose proof Hw as [Htrees Hiters].
  destruct o as [t i|t i|t i|t i|t|t|t i|k|k|t]; simpl in Ho; unfold step, astep, abs_world;
    fold elems; cbn [asets aiters trees iters]; rewrite ?nth_elems.
  - (* Ins *)
    destruct (winv_nth w t Hw) as (Ha & Hb & Hr). set (ts := nth t (trees w) t0) in *.
    pose proof (ins_refines_lemma i (nx ts) (tr ts) Ha Hb) as H.
    destruct (ins i (nx ts) (tr ts)) as [[[t' ok] bd] n].
    destruct H as (A1 & A2 & A3 & A4 & _). cbn [fst snd trees iters proj].
    assert (Hel : elements t' = sadd i (elements (tr ts))).
    { rewrite A4. destruct ok; [reflexivity|]. symmetry. apply sadd_mem; [exact Hb|].
      destruct (smem i (elements (tr ts))); [reflexivity|discriminate]. }
    split; [|split].
    + split; [|exact Hiters]. apply Forall_upd; [exact Htrees|].
      repeat split; cbn [tr]; auto. rewrite Hel. apply sadd_Forall; auto.
    + f_equal. rewrite upd_map. unfold elems at 1. cbn [tr]. rewrite Hel. reflexivity.
    + rewrite A3. unfold elems. destruct (negb (smem i (elements (tr ts)))); reflexivity.
  - (* Del *)
    destruct (winv_nth w t Hw) as (Ha & Hb & Hr). set (ts := nth t (trees w) t0) in *.
    pose proof (del_refines_lemma i (tr ts) Ha Hb) as H.
    destruct (del i (tr ts)) as [[[t' ok] bd] d]. cbv zeta in H.
    destruct H as (A1 & A2 & A3 & A4 & _). cbn [fst snd trees iters proj].
    split; [|split].
    + split; [|exact Hiters]. apply Forall_upd; [exact Htrees|].
      repeat split; cbn [tr]; auto. rewrite A4. apply sdel_Forall; auto.
    + f_equal. rewrite upd_map. unfold elems at 1. cbn [tr]. rewrite A4. reflexivity.
    + rewrite A3. unfold elems. destruct (smem i (elements (tr ts))); reflexivity.
  - (* Find *)
    destruct (winv_nth w t Hw) as (Ha & Hb & Hr). set (ts := nth t (trees w) t0) in *.
    cbn [fst snd proj]. split; [exact Hw|]. split; [reflexivity|].
    pose proof (find_spec i (tr ts) Hb) as H. unfold elems.
    destruct (find i (tr ts)) as [[k v]|].
    + destruct H as [_ ->]. reflexivity.
    + rewrite H. reflexivity.
  - (* FindLE *)
    destruct (winv_nth w t Hw) as (Ha & Hb & Hr). set (ts := nth t (trees w) t0) in *.
    cbn [fst]. split; [exact Hw|]. split; [reflexivity|].
    pose proof (find_le_first_ge i (tr ts) Hb) as H. unfold elems. rewrite <- H.
    destruct (find_le i (tr ts) None) as [[k v]|]; reflexivity.
  - (* Clone *)
    destruct (winv_nth w t Hw) as (Ha & Hb & Hr). set (ts := nth t (trees w) t0) in *.
    cbn [fst snd trees iters proj]. split; [|split].
    + split; [|exact Hiters]. apply Forall_app. split; [exact Htrees|].
      constructor; [|constructor]. repeat split; auto.
    + f_equal. rewrite map_app. reflexivity.
    + reflexivity.
  - (* ItBegin *)
    destruct (winv_nth w t Hw) as (Ha & Hb & Hr). set (ts := nth t (trees w) t0) in *.
    cbn [fst snd trees iters]. split; [|split].
    + split; [exact Htrees|]. apply Forall_app. split; [exact Hiters|].
      constructor; [|constructor]. apply (mk_in_range t _ _ Hr).
      intros v Hv. rewrite leftmost_spec in Hv. apply hd_error_In. exact Hv.
    + f_equal. rewrite map_app. simpl map. rewrite abs_mk, leftmost_spec. reflexivity.
    + unfold proj. rewrite obs_abs, abs_mk, leftmost_spec. reflexivity.
  - (* ItFrom *)
    destruct (winv_nth w t Hw) as (Ha & Hb & Hr). set (ts := nth t (trees w) t0) in *.
    cbn [fst snd trees iters]. split; [|split].
    + split; [exact Htrees|]. apply Forall_app. split; [exact Hiters|].
      constructor; [|constructor]. apply (mk_in_range t _ _ Hr).
      intros v Hv. rewrite (find_le_first_ge i _ Hb) in Hv. apply first_ge_In in Hv. tauto.
    + f_equal. rewrite map_app. simpl map. rewrite abs_mk, (find_le_first_ge i _ Hb). reflexivity.
    + unfold proj. rewrite obs_abs, abs_mk, (find_le_first_ge i _ Hb). reflexivity.
  - (* ItClone *)
    fold dflt_iter. fold dflt_aiter. rewrite nth_abs_iter.
    cbn [fst snd trees iters]. split; [|split].
    + split; [exact Htrees|]. apply Forall_app. split; [exact Hiters|].
      constructor; [|constructor]. apply winv_nth_iter. exact Hw.
    + f_equal. rewrite map_app. reflexivity.
    + unfold proj. rewrite obs_abs. reflexivity.
  - (* Next *)
    fold dflt_iter. fold dflt_aiter. rewrite nth_abs_iter.
    set (it := nth k (iters w) dflt_iter).
    change (atree (abs_iter it)) with (itree it). rewrite ?nth_elems.
    destruct (winv_nth w (itree it) Hw) as (Ha & Hb & Hr).
    set (ts := nth (itree it) (trees w) t0) in *.
    pose proof (winv_nth_iter w k Hw) as Hi. fold it in Hi.
    cbn [fst snd trees iters]. split; [|split].
    + split; [exact Htrees|]. apply Forall_upd; [exact Hiters|].
      apply iter_next_in_range; auto.
    + f_equal. rewrite upd_map. rewrite (iter_next_refines ts it Hb Hr Hi). reflexivity.
    + unfold proj. rewrite obs_abs. rewrite (iter_next_refines ts it Hb Hr Hi). reflexivity.
  - (* Elems *)
    cbn [fst snd proj]. split; [exact Hw|]. split; reflexivity.
Qed.

(* ---- whole histories ------------------------------------------------------ *)
Lemma run_refines_from : forall ops w,
  winv w -> keys_in_range ops ->
  observe ops (run w ops) = arun (abs_world w) ops.
Proof.
  unfold observe.
  induction ops as [|o ops IH]; intros w Hw Hk; [reflexivity|].
  inversion Hk as [|? ? Ho Hk']; subst.
  destruct (step_refines w o Hw Ho) as (Hw' & Habs & Hout).
  simpl. destruct (step w o) as [w' x]. destruct (astep (abs_world w) o) as [aw' ax].
  simpl in *. subst aw' ax. f_equal. apply IH; assumption.
Qed.

Lemma run_refines_lemma : forall ops,
  keys_in_range ops -> observe ops (run init ops) = arun ainit ops.
Proof. intros ops Hk. apply (run_refines_from ops init winv_init Hk). Qed.

Lemma reach_winv : forall w, reach w -> winv w.
Proof.
  induction 1 as [|w o _ IH Ho]; [apply winv_init|].
  apply (step_refines w o IH Ho).
Qed.

Lemma reach_invariant_lemma : forall w, reach w ->
  Forall (fun ts => bst (tr ts) /\ avl (tr ts) /\ Forall in_range (elements (tr ts))) (trees w).
Proof.
  intros w H. destruct (reach_winv w H) as [Ht _].
  eapply Forall_impl; [|exact Ht]. intros ts (A & B & C). auto.
Qed.

(* the worlds met while running a history are reachable *)
Fixpoint worlds (w : world) (ops : list op) : list world := match ops with
  | [] => [w] | o :: r => w :: worlds (fst (step w o)) r end.

Lemma worlds_reach : forall ops w, reach w -> keys_in_range ops -> Forall reach (worlds w ops).
Proof.
  induction ops as [|o ops IH]; intros w Hw Hk; simpl.
  - constructor; auto.
  - inversion Hk; subst. constructor; [exact Hw|]. apply IH; auto. constructor; auto.
Qed.

(* live iterator: Next moves to the first element greater than the cursor in
   the CURRENT set, or ends (value kept) *)
Lemma next_live_lemma : forall w k,
  reach w ->
  let it := nth k (iters w) dflt_iter in
  let s := elements (tr (nth (itree it) (trees w) t0)) in
  let it' := nth k (iters (fst (step w (Next k)))) dflt_iter in
  (k < length (iters w))%nat -> inode it <> None ->
  match first_gt (ival it) s with
  | Some x => inode it' <> None /\ ival it' = x
  | None => inode it' = None
  end.
Proof.
  intros w k Hr it s it' Hk Hn.
  pose proof (reach_winv w Hr) as Hw.
  destruct (winv_nth w (itree it) Hw) as (Ha & Hb & Hrg).
  pose proof (winv_nth_iter w k Hw) as Hi. fold it in Hi.
  pose proof (iter_next_cases (nth (itree it) (trees w) t0) it Hb Hrg Hi) as H.
  assert (Hit' : it' = iter_next (nth (itree it) (trees w) t0) it).
  { unfold it'. simpl. fold dflt_iter. fold it.
    clear - Hk. revert k Hk it. generalize (iters w) as l.
    induction l as [|a l IH]; intros [|k] Hk; simpl in *; try lia; auto.
    apply IH. lia. }
  rewrite <- Hit' in H. destruct (inode it) as [n|]; [|congruence].
  destruct H as [_ H]. fold s in H. destruct (first_gt (ival it) s); tauto.
Qed.

(* ---- height bound --------------------------------------------------------- *)
Lemma avl_height_bound t :
  avl t -> 2 ^ (height t / 2) <= Z.of_nat (length (elements t)) + 1.
Proof.
  induction t as [|id l IHl v b r IHr]; intro Ha; [simpl; lia|].
  simpl in Ha. destruct Ha as (Hl & Hr & Hb & Hrng).
  specialize (IHl Hl). specialize (IHr Hr).
  pose proof (height_nonneg l) as Hnl. pose proof (height_nonneg r) as Hnr.
  change (elements (N id l v b r)) with (elements l ++ v :: elements r).
  rewrite app_length. simpl length. rewrite Nat2Z.inj_add, Nat2Z.inj_succ.
  change (height (N id l v b r)) with (1 + Z.max (height l) (height r)).
  set (m := Z.max (height l) (height r)).
  destruct (Z.eq_dec m 0) as [Hm0|Hm0].
  - rewrite Hm0. change ((1 + 0) / 2) with 0. simpl. lia.
  - assert (Hm : 1 <= m) by lia.
    assert (H1 : 2 ^ ((m - 1) / 2) <= 2 ^ (height l / 2)).
    { apply Z.pow_le_mono_r; [lia|]. apply Z.div_le_mono; lia. }
    assert (H2 : 2 ^ ((m - 1) / 2) <= 2 ^ (height r / 2)).
    { apply Z.pow_le_mono_r; [lia|]. apply Z.div_le_mono; lia. }
    assert (H3 : 2 ^ ((1 + m) / 2) = 2 * 2 ^ ((m - 1) / 2)).
    { replace (1 + m) with ((m - 1) + 1 * 2) by lia.
      rewrite Z.div_add by lia. rewrite Z.pow_add_r; [lia| |lia].
      apply Z.div_pos; lia. }
    lia.
Qed.

(* ---- mutations are local to one tree; Clone copies ------------------------ *)
Lemma nth_upd_other {A} (l : list A) n m x d : n <> m -> nth m (upd n x l) d = nth m l d.
Proof.
  revert n m. induction l as [|a l IH]; intros [|n] [|m] H; simpl; auto; try congruence.
Qed.

Lemma mutation_local_lemma : forall w t t2 i,
  t2 <> t ->
  nth t2 (trees (fst (step w (Ins t i)))) t0 = nth t2 (trees w) t0 /\
  nth t2 (trees (fst (step w (Del t i)))) t0 = nth t2 (trees w) t0.
Proof.
  intros w t t2 i H. unfold step.
  destruct (ins i (nx (nth t (trees w) t0)) (tr (nth t (trees w) t0))) as [[[a b] c] d].
  destruct (del i (tr (nth t (trees w) t0))) as [[[a' b'] c'] d'].
  simpl. split; apply nth_upd_other; congruence.
Qed.

Lemma clone_copies_lemma : forall w t,
  let w' := fst (step w (Clone t)) in
  tr (nth (length (trees w)) (trees w') t0) = tr (nth t (trees w) t0) /\
  (forall t2, (t2 < length (trees w))%nat -> nth t2 (trees w') t0 = nth t2 (trees w) t0) /\
  iters w' = iters w.
Proof.
  intros w t. simpl. split; [|split; [|reflexivity]].
  - rewrite app_nth2 by lia. rewrite Nat.sub_diag. reflexivity.
  - intros t2 H. apply app_nth1. exact H.
Qed.

Lemma wf_run_refines_lemma : forall ops,
  wf_ops 1 0 ops -> keys_in_range ops -> observe ops (run init ops) = arun ainit ops.
Proof. intros ops _. apply run_refines_lemma. Qed.
