(* C19 — SafeIterator / SafeIteratorFrom (avl-tree.go:144-156) and the index wrappers
   indexSafeIterator[From] (vector_sparse_index.go): one call = Clone t, then
   Iterator / IteratorFrom on the clone, which only the iterator references. *)
From Coq Require Import ZArith List Bool Lia.
From ADV Require Import C19.Model C19.ModelP C19.ModelW C19.Spec C19.Proofs
  C19.ProofsW1 C19.ProofsW2 C19.ProofsW3 C19.ProofsW4 C19.ProofsW5.
Import ListNotations.
Open Scope Z_scope.

Definition safe_ops (t j : nat) (from : option Z) : list op :=
  [Clone t; match from with None => ItBegin j | Some i => ItFrom j i end].
Definition from_in_range (from : option Z) : Prop := match from with Some i => in_range i | None => True end.

Lemma pnext_itree ts it : itree (pnext ts it) = itree it.
Proof.
  unfold pnext. destruct (inode it) as [k|]; [|reflexivity].
  match goal with |- itree (match ?x with _ => _ end) = _ => destruct x as [[k' v']|] end; reflexivity.
Qed.

Lemma iter_step_keeps_tree w o k :
  (k < length (piters w))%nat ->
  (k < length (piters (fst (pwstep w o))))%nat /\
  itree (nth k (piters (fst (pwstep w o))) dflt_iter) = itree (nth k (piters w) dflt_iter).
Proof.
  intro Hk. rewrite pwstep_fst.
  destruct o as [t i|t i|t i|t i|t|t|t i|k'|k'|t]; unfold pwstep_core; try (split; [exact Hk|reflexivity]).
  - destruct (pins i (gnx w) None (pt (nth t (ptrees w) pt0))) as [[[t' ok] bd] n]. split; [exact Hk|reflexivity].
  - destruct (pdel i (pt (nth t (ptrees w) pt0))) as [[[t' ok] bd] d]. split; [exact Hk|reflexivity].
  - destruct (pclone (gnx w) (pt (nth t (ptrees w) pt0))) as [c g]. split; [exact Hk|reflexivity].
  - cbn [fst piters]. rewrite app_length, app_nth1 by exact Hk. split; [lia|reflexivity].
  - cbn [fst piters]. rewrite app_length, app_nth1 by exact Hk. split; [lia|reflexivity].
  - cbn [fst piters]. rewrite app_length, app_nth1 by exact Hk. split; [lia|reflexivity].
  - cbn [fst piters]. rewrite upd_length. split; [exact Hk|].
    destruct (Nat.eq_dec k' k) as [->|Hne].
    + rewrite nth_upd_same by exact Hk. apply pnext_itree.
    + rewrite nth_upd_other by exact Hne. reflexivity.
Qed.

Lemma frozen_history : forall ops w j k,
  preach w -> (j < length (ptrees w))%nat -> (k < length (piters w))%nat ->
  Forall (fun o => op_in_range o /\ ~ targets o j) ops ->
  preach (wfold w ops) /\ nth j (ptrees (wfold w ops)) pt0 = nth j (ptrees w) pt0 /\
  (k < length (piters (wfold w ops)))%nat /\
  itree (nth k (piters (wfold w ops)) dflt_iter) = itree (nth k (piters w) dflt_iter).
Proof.
  induction ops as [|o ops IH]; intros w j k Hr Hj Hk Hf; [simpl; auto|].
  inversion Hf as [|? ? [Hor Hot] Hf']; subst. simpl.
  pose proof (preach_step w o Hr Hor) as Hr1.
  pose proof (step_length w o) as Hl. rewrite <- pwstep_fst in Hl.
  pose proof (step_other_tree w o j Hot Hj) as Hsame. rewrite <- pwstep_fst in Hsame.
  destruct (iter_step_keeps_tree w o k Hk) as (Hk1 & Hit).
  destruct (IH (fst (pwstep w o)) j k Hr1 ltac:(lia) Hk1 Hf') as (A & B & C & D).
  split; [exact A|]. split; [rewrite B; exact Hsame|]. split; [exact C|]. rewrite D. exact Hit.
Qed.

Lemma safe_iterator_walks_a_frozen_snapshot_lemma :
  forall w t from ops, preach w -> from_in_range from ->
  let j := length (ptrees w) in
  let k := length (piters w) in
  let s := pelems (nth t (ptrees w) pt0) in
  let w2 := wfold w (safe_ops t j from) in
  Forall (fun o => op_in_range o /\ ~ targets o j) ops ->
  let w3 := wfold w2 ops in
  (let it := nth k (piters w2) dflt_iter in
   itree it = j /\
   match (match from with None => hd_error s | Some i => first_ge i s end) with
   | Some x => inode it <> None /\ ival it = x
   | None => inode it = None end) /\
  preach w3 /\ pelems (nth j (ptrees w3) pt0) = s /\
  (k < length (piters w3))%nat /\ itree (nth k (piters w3) dflt_iter) = j /\
  (let it := nth k (piters w3) dflt_iter in
   let it' := nth k (piters (fst (pwstep w3 (Next k)))) dflt_iter in
   inode it <> None ->
   match first_gt (ival it) s with
   | Some x => inode it' <> None /\ ival it' = x
   | None => inode it' = None end).
Proof.
  intros w t from ops Hr Hfr j k s w2 Hf w3.
  set (w1 := fst (pwstep w (Clone t))).
  assert (Hr1 : preach w1) by (apply preach_step; [exact Hr|exact I]).
  destruct (clone_is_a_fresh_closed_copy_lemma w t Hr) as (Hlen & _ & _ & Hshape & _).
  fold w1 in Hlen, Hshape. fold j in Hlen, Hshape.
  assert (Hit1 : piters w1 = piters w).
  { unfold w1. rewrite pwstep_fst. unfold pwstep_core.
    destruct (pclone (gnx w) (pt (nth t (ptrees w) pt0))) as [c g]. reflexivity. }
  assert (Hs1 : pelems (nth j (ptrees w1) pt0) = s).
  { unfold pelems, s. apply shape_eq_elements. exact Hshape. }
  set (o2 := match from with None => ItBegin j | Some i => ItFrom j i end).
  assert (Hw2 : w2 = fst (pwstep w1 o2)) by reflexivity.
  assert (Ho2 : op_in_range o2) by (unfold o2; destruct from; [exact Hfr|exact I]).
  assert (Hr2 : preach w2) by (rewrite Hw2; apply preach_step; assumption).
  set (start := match from with None => pleftmost (pt (nth j (ptrees w1) pt0))
                              | Some i => pFindNodeLE i (pt (nth j (ptrees w1) pt0)) end).
  assert (Hw2t : ptrees w2 = ptrees w1 /\ piters w2 = piters w ++ [mk_it j start]).
  { rewrite Hw2, pwstep_fst, <- Hit1. unfold o2, start. destruct from; split; reflexivity. }
  destruct Hw2t as (Ht2 & Hi2).
  assert (Hk2 : (k < length (piters w2))%nat) by (rewrite Hi2, app_length; simpl; fold k; lia).
  assert (Hj2 : (j < length (ptrees w2))%nat) by (rewrite Ht2, Hlen; lia).
  assert (Hnk : nth k (piters w2) dflt_iter = mk_it j start).
  { rewrite Hi2, app_nth2 by (fold k; lia). fold k. rewrite Nat.sub_diag. reflexivity. }
  destruct (frozen_history ops w2 j k Hr2 Hj2 Hk2 Hf) as (Hr3 & Htree & Hk3 & Hit3).
  fold w3 in Hr3, Htree, Hk3, Hit3.
  assert (Hitj : itree (mk_it j start) = j) by (destruct start as [[? ?]|]; reflexivity).
  assert (Hs3 : pelems (nth j (ptrees w3) pt0) = s) by (rewrite Htree, Ht2; exact Hs1).
  split; [|split; [exact Hr3|split; [exact Hs3|split; [exact Hk3|split]]]].
  - cbv zeta. rewrite Hnk. split; [exact Hitj|].
    assert (Hst : option_map snd start = match from with None => hd_error s | Some i => first_ge i s end).
    { unfold start. destruct from as [i|].
      - pose proof (find_node_le_returns_reachable_least_upper_lemma w1 j i Hr1) as H. cbv zeta in H.
        destruct (pFindNodeLE i (pt (nth j (ptrees w1) pt0))) as [[a v]|].
        + destruct H as (_ & _ & H). rewrite Hs1 in H. rewrite H. reflexivity.
        + rewrite Hs1 in H. rewrite H. reflexivity.
      - rewrite pleftmost_erase, leftmost_spec. fold (pelems (nth j (ptrees w1) pt0)). rewrite Hs1. reflexivity. }
    rewrite <- Hst. destruct start as [[a v]|]; cbn; [split; [discriminate|reflexivity]|reflexivity].
  - rewrite Hit3, Hnk. exact Hitj.
  - cbv zeta. intro Hlive.
    pose proof (pnext_live_lemma w3 k Hr3) as H. cbv zeta in H.
    rewrite Hit3, Hnk, Hitj, Hs3 in H. apply H; assumption.
Qed.
