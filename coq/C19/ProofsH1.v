(* C19 — statement level (ModelH.v): general lemmas, symbolic-execution tactics,
   setLeft / setRight and the rotations LL, RR. *)
From Coq Require Import ZArith List Bool Lia.
From ADV Require Import C19.Model C19.ModelP C19.ModelW C19.ModelH.
Import ListNotations.
Open Scope Z_scope.

(* ---- counting addresses ----------------------------------------------------------- *)
Fixpoint cntl (a : nat) (l : list nat) : nat := match l with
  | [] => O | x :: r => ((if Nat.eqb x a then 1 else 0) + cntl a r)%nat end.
Lemma cntl_app a l m : cntl a (l ++ m) = (cntl a l + cntl a m)%nat.
Proof. induction l as [|x l IH]; cbn; [reflexivity|rewrite IH; lia]. Qed.
Lemma In_cntl a l : In a l -> (1 <= cntl a l)%nat.
Proof.
  induction l as [|x l IH]; cbn; [tauto|]. intros [->|H].
  - rewrite Nat.eqb_refl. lia.
  - specialize (IH H). lia.
Qed.
Lemma cntl_0 a l : ~ In a l -> cntl a l = O.
Proof.
  induction l as [|x l IH]; cbn; [reflexivity|]. intro H.
  destruct (Nat.eqb_spec x a) as [->|]; [exfalso; apply H; left; reflexivity|].
  rewrite IH; [reflexivity|]. intro; apply H; right; assumption.
Qed.
Lemma NoDup_cntl l : NoDup l -> forall a, (cntl a l <= 1)%nat.
Proof.
  induction 1 as [|x l Hx _ IH]; intro a; cbn; [lia|].
  destruct (Nat.eqb_spec x a) as [->|]; [rewrite (cntl_0 _ _ Hx); lia|apply IH].
Qed.
Lemma cntl_NoDup l : (forall a, (cntl a l <= 1)%nat) -> NoDup l.
Proof.
  induction l as [|x l IH]; intro H; constructor.
  - intro Hin. apply In_cntl in Hin. specialize (H x). cbn in H. rewrite Nat.eqb_refl in H. lia.
  - apply IH. intro a. specialize (H a). cbn in H. lia.
Qed.

(* ---- rep -------------------------------------------------------------------------- *)
Lemma rep_frame : forall t h h', rep h t -> (forall a, In a (pids t) -> h' a = h a) -> rep h' t.
Proof.
  induction t as [|id l IHl v b p r IHr]; cbn; [trivial|].
  intros h h' (H0 & Hl & Hr) F. split; [|split].
  - rewrite F; [exact H0|left; reflexivity].
  - apply (IHl h); [exact Hl|]. intros a Ha. apply F. right. apply in_or_app. left; exact Ha.
  - apply (IHr h); [exact Hr|]. intros a Ha. apply F. right. apply in_or_app. right; exact Ha.
Qed.

Lemma rep_pcells : forall t h, rep h t <-> (forall a c, In (a, c) (pcells t) -> h a = c).
Proof.
  induction t as [|id l IHl v b p r IHr]; cbn; intro h.
  - split; [intros _ a c []|trivial].
  - rewrite IHl, IHr. split.
    + intros (H0 & Hl & Hr) a c [E|H]; [inversion E; subst; exact H0|].
      apply in_app_or in H. destruct H; [apply Hl|apply Hr]; assumption.
    + intro H. split; [|split].
      * apply H. left; reflexivity.
      * intros a c Hin. apply H. right. apply in_or_app. left; exact Hin.
      * intros a c Hin. apply H. right. apply in_or_app. right; exact Hin.
Qed.

(* ---- staged symbolic execution -------------------------------------------------------- *)
Lemma seq_cons_eq run x rest s s1 R :
  run x s = Some s1 -> seq run rest s1 = R -> seq run (x :: rest) s = R.
Proof. intros H1 H2. cbn [seq]. rewrite H1. exact H2. Qed.
Lemma exec_S f ss s : exec (S f) ss s = seq (step (exec f)) ss s.
Proof. reflexivity. Qed.
Lemma step_call sub m r a s pr pa s' :
  eval (sh s) (se s) r = Some pr -> eval (sh s) (se s) a = Some pa ->
  sub (body m) {| sh := sh s; se := {| eobj := pr; enode := pa; ea1 := None; ea2 := None |};
                  si := 0; sf := false; sr := None |} = Some s' ->
  step sub (SCall m r a) s = Some (with_heap s (sh s')).
Proof. intros H1 H2 H3. unfold step. rewrite H1, H2, H3. reflexivity. Qed.
(* if e.Balance c z { e'.Balance = x } else { e'.Balance = y } *)
Lemma step_ifbal_bal f e c z e' x y s k k' :
  eval (sh s) (se s) e = Some (Some k) -> eval (sh s) (se s) e' = Some (Some k') ->
  step (exec (S f)) (SIfBal e c z [SBal e' x] [SBal e' y]) s =
  Some (with_heap s (hupd (sh s) k' (set_cb (sh s k') (if cmpz c (cb (sh s k)) z then x else y)))).
Proof.
  intros H1 H2. unfold step at 1. rewrite H1.
  destruct (cmpz c (cb (sh s k)) z); cbn [exec seq step]; rewrite H2; reflexivity.
Qed.

(* ---- tactics ---------------------------------------------------------------------- *)
(* goal: Nat.eqb x y = false, C : forall a, cntl a (pids ..) <= 1 *)
Ltac eqb_solve C :=
  apply Nat.eqb_neq; let E := fresh "E" in intro E;
  repeat match goal with H : In _ _ |- _ => apply In_cntl in H end;
  match type of E with ?x = ?y =>
    first [subst x | subst y];
    let C' := fresh "C" in
    first [pose proof (C y) as C' | pose proof (C x) as C'];
    repeat (progress (cbn in C'; rewrite ?cntl_app in C'));
    rewrite ?Nat.eqb_refl in C'; lia
  end.

Ltac ne_pairs C x l := match l with
  | nil => idtac
  | ?y :: ?r => assert (Nat.eqb x y = false) by (eqb_solve C);
                assert (Nat.eqb y x = false) by (eqb_solve C); ne_pairs C x r end.
Ltac ne_all C l := match l with nil => idtac | ?x :: ?r => ne_pairs C x r; ne_all C r end.

Ltac eqb_step C :=
  match goal with
  | |- context[Nat.eqb ?a ?a] => rewrite (Nat.eqb_refl a)
  | H : Nat.eqb ?a ?b = false |- context[Nat.eqb ?a ?b] => rewrite H
  | |- context[Nat.eqb ?a ?b] =>
      let H := fresh "NE" in assert (H : Nat.eqb a b = false) by (eqb_solve C); rewrite H
  end.

Ltac heap_step h :=
  match goal with H : h ?a = _ |- context[h ?a] => rewrite H end.

Ltac sx h C := repeat (progress (cbn; unfold hupd, with_heap; repeat first [eqb_step C | heap_step h])).

(* goal: seq run prog s = ?R  (R an evar or Some of an evar) *)
Ltac run_seq h C :=
  repeat (eapply seq_cons_eq; [sx h C; reflexivity|]); cbn [seq]; reflexivity.

(* turn [rep h t] hypotheses with a known top constructor into cell equations *)
Ltac rep_split :=
  repeat match goal with
  | H : rep _ _ |- _ => progress cbn [rep] in H
  | H : _ /\ _ |- _ => destruct H
  | H : True |- _ => clear H
  end.

Ltac rep_goal h C :=
  repeat match goal with
  | |- _ /\ _ => split
  | |- True => exact I
  | |- rep _ (PN _ _ _ _ _ _) => cbn [rep]
  | |- rep _ PE => exact I
  | |- rep _ _ => first [assumption | (apply (rep_frame _ h); [assumption|]; let a := fresh "a" in let Ha := fresh "Ha" in intros a Ha; sx h C; reflexivity)]
  | |- _ = _ => sx h C; reflexivity
  end.

(* goal: (if a =? k1 then .. else if a =? k2 .. else h a) = h a,  Ha : ~ In a (pids t) with every k_i in t *)
Ltac frame_solve Ha :=
  apply cntl_0 in Ha;
  repeat (progress (cbn in Ha; rewrite ?cntl_app in Ha));
  repeat match goal with |- context[Nat.eqb ?a ?k] =>
    let E := fresh "E" in
    destruct (Nat.eqb_spec a k) as [E|E]; [exfalso; subst; rewrite ?Nat.eqb_refl in Ha; lia|] end;
  reflexivity.

(* the addresses whose cells are known: all [H : h a = _] hypotheses *)
Ltac tops h acc :=
  match goal with
  | H : h ?a = _ |- _ => match acc with context[a] => fail 1 | _ => tops h (a :: acc) end
  | _ => acc
  end.
Ltac ne_tops h C := let l := tops h (@nil nat) in ne_all C l.

(* the common end of the rotation proofs: goal  exists s', seq .. = Some s' /\ rep (sh s') T /\ frame /\ sf s' = fl *)
Ltac rot_finish h C :=
  eexists; split; [run_seq h C|]; cbn [sh sf]; split; [|split; [|reflexivity]];
  [cbn [protLL protRR protLR protRL setp]; rep_goal h C
  | let a := fresh "a" in let Ha := fresh "Ha" in intros a Ha; frame_solve Ha].

(* goal: seq run prog s = ?R where some statements are the two-branch Balance assignment *)
Ltac run_seq_b h C :=
  repeat (eapply seq_cons_eq;
          [first [ (erewrite step_ifbal_bal by (sx h C; reflexivity)); sx h C; reflexivity
                 | sx h C; reflexivity ]|]);
  cbn [seq]; reflexivity.

Ltac rot_finish_b h C :=
  eexists; split; [run_seq_b h C|]; cbn [sh sf]; split; [|split; [|reflexivity]];
  [cbn [protLL protRR protLR protRL setp]; rep_goal h C
  | let a := fresh "a" in let Ha := fresh "Ha" in intros a Ha; frame_solve Ha].

