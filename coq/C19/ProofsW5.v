(* C19 — pointer-level worlds, part 5: the statements of PropsW.v that combine several
   lemmas of ProofsW1-4.v / ProofsFlag.v. *)
From Coq Require Import ZArith List Bool.
From ADV Require Import C19.Model C19.ModelP C19.ModelW C19.Spec C19.Proofs
  C19.ProofsW1 C19.ProofsW2 C19.ProofsW3 C19.ProofsW4 C19.ProofsFlag C19.ProofsW6.
Import ListNotations.
Open Scope Z_scope.

Lemma reachable_heap_is_partitioned_into_closed_regions_lemma :
  forall w, preach w ->
  Forall (fun ts => pwf None (pt ts) /\ NoDup (pids (pt ts)) /\ NoDup (map fst (pdead ts)) /\
                    (forall a, owns ts a -> (a < gnx w)%nat) /\
                    (forall a c, In (a, c) (region ts) -> (cdel c = true <-> ~ In a (pids (pt ts)))) /\
                    (forall a c q, In (a, c) (region ts) -> In q (cell_ptrs c) -> owns ts q))
         (ptrees w) /\
  (forall i j a, i <> j -> owns (nth i (ptrees w) pt0) a -> owns (nth j (ptrees w) pt0) a -> False) /\
  Forall (fun it => forall k, inode it = Some k ->
            (itree it < length (ptrees w))%nat /\ owns (nth (itree it) (ptrees w) pt0) k) (piters w).
Proof.
  intros w Hr. destruct (preach_hinv w Hr) as (Hids & Hd & Hi & Hc). split; [|split; [exact Hd|exact Hi]].
  apply Forall_forall. intros ts Hin. rewrite Forall_forall in Hids, Hc.
  pose proof (Hids ts Hin) as Hid. pose proof Hid as (A & B & C & D & F).
  split; [exact A|]. split; [rewrite pids_erase; apply ProofsIds.cnt_NoDup; exact B|]. split; [exact F|].
  split; [intros a; apply (owns_lt _ _ _ Hid)|]. split; [intros a c; apply (deleted_iff_unlinked _ _ _ _ Hid)|].
  exact (Hc ts Hin).
Qed.

Lemma clone_copies_parent_of_source_root_lemma :
  forall g id l v b p r c g', pclone g (PN id l v b p r) = (c, g') -> proot c = p /\ pwf p c.
Proof.
  intros g id l v b p r c g' H. split; [eapply pclone_root_parent; exact H|].
  exact (pclone_pwf _ _ _ _ H).
Qed.

Lemma clone_is_a_fresh_closed_copy_lemma :
  forall w t, preach w ->
  let w' := fst (pwstep w (Clone t)) in
  let j := length (ptrees w) in
  let src := nth t (ptrees w) pt0 in
  let cl := nth j (ptrees w') pt0 in
  length (ptrees w') = S j /\
  pwf None (pt cl) /\ pdead cl = [] /\
  shape (erase (pt cl)) = shape (erase (pt src)) /\
  (forall a, owns cl a <-> (gnx w <= a < gnx w')%nat) /\
  (forall a, owns cl a -> ~ In a (addrs (heap w))) /\
  (forall a c q, In (a, c) (region cl) -> In q (cell_ptrs c) -> owns cl q) /\
  (forall i, (i < j)%nat -> nth i (ptrees w') pt0 = nth i (ptrees w) pt0) /\
  (forall a, In a (addrs (heap w)) -> hget w' a = hget w a).
Proof.
  intros w t Hr. rewrite pwstep_fst. exact (clone_heap_lemma w t (preach_hinv w Hr)).
Qed.

Lemma step_frames_other_regions_lemma :
  forall w o j a, preach w -> ~ targets o j -> (j < length (ptrees w))%nat ->
  nth j (ptrees (fst (pwstep w o))) pt0 = nth j (ptrees w) pt0 /\
  (owns (nth j (ptrees w) pt0) a -> hget (fst (pwstep w o)) a = hget w a).
Proof.
  intros w o j a Hr Ht Hj. rewrite pwstep_fst. split; [apply step_other_tree; assumption|].
  intro Ho. apply (frame_step w o j a (preach_hinv w Hr) Ht Hj Ho).
Qed.

Lemma history_on_other_trees_frames_region_lemma :
  forall ops w j, preach w -> (j < length (ptrees w))%nat -> Forall (fun o => ~ targets o j) ops ->
  nth j (ptrees (wfold w ops)) pt0 = nth j (ptrees w) pt0 /\
  forall a, owns (nth j (ptrees w) pt0) a -> hget (wfold w ops) a = hget w a.
Proof.
  intros ops w j Hr Hj Hf. destruct (frame_history ops w j (preach_hinv w Hr) Hj Hf) as (_ & A & B).
  split; assumption.
Qed.

Lemma pointer_next_is_value_level_next_lemma :
  forall w k, preach w ->
  let it := nth k (piters w) dflt_iter in
  let ts := nth (itree it) (ptrees w) pt0 in
  pnext ts it = iter_next (ets (gnx w) ts) it.
Proof.
  intros w k Hr it ts. destruct (preach_hinv w Hr) as (Hids & _).
  apply pnext_iter_next. apply Forall_nth_d; [exact Hids|apply ptid_pt0].
Qed.

Lemma next_climbs_only_from_live_unchanged_node_lemma :
  forall w k n, preach w ->
  let it := nth k (piters w) dflt_iter in
  let ts := nth (itree it) (ptrees w) pt0 in
  inode it = Some n ->
  (match pderef ts n with Some c => cdel c || negb (cv c =? ival it) | None => true end) = false ->
  In n (pids (pt ts)) /\ ~ In n (map fst (pdead ts)) /\ value_at n (erase (pt ts)) = Some (ival it) /\
  psucc (pt ts) n = succ_of n (erase (pt ts)) None /\
  pnext ts it = match psucc (pt ts) n with
                | Some (Some (k', v')) => {| itree := itree it; inode := Some k'; ival := v' |}
                | _ => {| itree := itree it; inode := None; ival := ival it |} end.
Proof.
  intros w k n Hr it ts Hn Hf. destruct (preach_hinv w Hr) as (Hids & _).
  assert (Hid : ptid (gnx w) ts) by (apply Forall_nth_d; [exact Hids|apply ptid_pt0]).
  destruct (pnext_walk_only_when_live _ ts it n Hid Hn Hf) as (A & B & C & D).
  split; [apply In_pids_cnt; exact A|]. split; [exact B|]. split; [exact C|]. split; [|exact D].
  destruct Hid as (P1 & P2 & _). apply psucc_spec; assumption.
Qed.

Lemma pointer_step_refines_set_step_lemma :
  forall w o, preach w -> op_in_range o ->
  pabs (fst (pwstep w o)) = fst (astep (pabs w) o) /\
  proj o (fst (snd (pwstep w o))) = snd (astep (pabs w) o).
Proof.
  intros w o Hr Ho. rewrite pwstep_fst, pwstep_snd.
  destruct (pstep_refines w o (preach_pwinv w Hr) Ho) as (_ & A & B). split; assumption.
Qed.

Lemma pointer_insert_delete_erase_to_model_lemma :
  (forall i g par t t' ok bd n, pins i g par t = (t', ok, bd, n) -> ins i g (erase t) = (erase t', ok, bd, n)) /\
  (forall i t t' ok bd d, pdel i t = (t', ok, bd, d) -> del i (erase t) = (erase t', ok, bd, d)) /\
  (forall i t, pFindNodeLE i t = find_le i (erase t) None).
Proof.
  split; [|split].
  - intros i g par t t' ok bd n. apply pins_erase.
  - intros i t t' ok bd d. apply pdel_erase.
  - exact pFindNodeLE_erase.
Qed.

Lemma regions_keep_their_objects_lemma :
  forall w o j a, preach w -> owns (nth j (ptrees w) pt0) a ->
  owns (nth j (ptrees (fst (pwstep w o))) pt0) a.
Proof. intros w o j a Hr. rewrite pwstep_fst. apply region_keeps_objects. apply preach_hinv. exact Hr. Qed.

Lemma find_node_le_returns_reachable_least_upper_lemma :
  forall w t i, preach w ->
  let ts := nth t (ptrees w) pt0 in
  match pFindNodeLE i (pt ts) with
  | Some (k, v) => In k (pids (pt ts)) /\ ~ In k (map fst (pdead ts)) /\ first_ge i (pelems ts) = Some v
  | None => first_ge i (pelems ts) = None end.
Proof.
  intros w t i Hr ts. pose proof (preach_pwinv w Hr) as (Hids & Htr & _).
  assert (Hid : ptid (gnx w) ts) by (apply Forall_nth_d; [exact Hids|apply ptid_pt0]).
  assert (Hti : ptinv ts) by (apply Forall_nth_d; [exact Htr|apply ptinv_pt0]).
  destruct Hti as (_ & Hb & _). rewrite pFindNodeLE_erase.
  pose proof (find_le_first_ge i (erase (pt ts)) Hb) as H. unfold pelems. rewrite <- H.
  destruct (find_le i (erase (pt ts)) None) as [[k v]|] eqn:Ef; [|reflexivity].
  destruct (find_le_ids _ _ _ _ _ Ef) as [H1|H1]; [discriminate|].
  split; [apply In_pids_cnt; exact H1|]. split; [|reflexivity].
  intro Hin. apply in_map_iff in Hin. destruct Hin as ([k' c] & Hk & Hin). simpl in Hk. subst k'.
  destruct Hid as (_ & _ & _ & D & _). destruct (D k c Hin) as (_ & _ & D3). unfold pcnt in D3.
  rewrite D3 in H1. inversion H1.
Qed.

Lemma balance_flags_per_branch_lemma :
  forall id l v b r,
  snd (balance1 (N id l v b r)) = negb (b =? -1) && ((b =? 0) || (bal_of r =? 0)) /\
  snd (balance2 (N id l v b r)) = negb (b =? 1) && ((b =? 0) || (bal_of l =? 0)).
Proof. intros. split; [apply balance1_flag_branches|apply balance2_flag_branches]. Qed.

Lemma pointer_step_is_model_step_on_erased_world_lemma :
  forall w o, preach w -> (forall t, o <> Clone t) -> op_wf w o ->
  forget (erasew (fst (pwstep w o))) = forget (fst (step (erasew w) o)) /\
  fst (snd (pwstep w o)) = snd (step (erasew w) o).
Proof.
  intros w o Hr Hnc Hwf. rewrite pwstep_fst, pwstep_snd.
  destruct (preach_hinv w Hr) as (Hids & _). apply step_erase_lemma; assumption.
Qed.

Lemma pointer_clone_step_matches_model_clone_lemma :
  forall w t,
  let w' := fst (pwstep w (Clone t)) in
  let m' := fst (step (erasew w) (Clone t)) in
  fst (snd (pwstep w (Clone t))) = snd (step (erasew w) (Clone t)) /\
  length (ptrees w') = length (trees m') /\
  (forall j, (j < length (ptrees w))%nat -> fg (nth j (ptrees w') pt0) = fg (nth j (ptrees w) pt0)) /\
  shape (erase (pt (nth (length (ptrees w)) (ptrees w') pt0))) =
  shape (tr (nth (length (ptrees w)) (trees m') t0)) /\
  piters w' = iters m'.
Proof. intros w t. cbv zeta. rewrite pwstep_fst, pwstep_snd. exact (clone_erase_lemma w t). Qed.
