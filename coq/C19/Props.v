(* C19 — property theorems (statements only; proofs live in Proofs*.v).
   All theorems are about the executable model Model.v of /repo/avl-tree.go
   and quantify over ALL trees / worlds / operation histories (no bounds). *)
From Coq Require Import ZArith List Bool.
From ADV Require Import C19.Model C19.ModelP C19.Spec C19.Proofs.
Import ListNotations.
Open Scope Z_scope.

(* ---- building blocks ------------------------------------------------------ *)
Theorem rotations_preserve_elements :
  forall t, elements (rotLL t) = elements t /\ elements (rotRR t) = elements t /\
            elements (rotLR t) = elements t /\ elements (rotRL t) = elements t.
Proof. intro t. exact (conj (rotLL_elements t) (conj (rotRR_elements t) (conj (rotLR_elements t) (rotRL_elements t)))). Qed.

(* Insert: the key list becomes [sadd i], the flag says "was absent", the tree
   stays a balanced search tree (balance field = height difference in -1..1). *)
Theorem insert_refines_set :
  forall i nx t, avl t -> bst t ->
  let '(t', ok, bd, nx') := ins i nx t in
  avl t' /\ bst t' /\ ok = negb (smem i (elements t)) /\
  elements t' = (if ok then sadd i (elements t) else elements t) /\
  height t' = height t + (if ok && negb bd then 1 else 0).
Proof. exact ins_refines_lemma. Qed.

(* Delete (deleteRec / replace / balance1 / balance2 with the value-swapping
   rotations): key list becomes [sdel i], flag = membership, AVL kept. *)
Theorem delete_refines_set :
  forall i t, avl t -> bst t ->
  let '(t', ok, bd, d) := del i t in
  let t'' := if ok then t' else t in
  avl t'' /\ bst t'' /\ ok = smem i (elements t) /\
  elements t'' = sdel i (elements t) /\
  height t'' = height t - (if ok && negb bd then 1 else 0).
Proof. exact del_refines_lemma. Qed.

(* FindNode, FindNodeLE (as coded: smallest key >= i), left-most node *)
Theorem lookups_refine_set :
  forall i t, bst t ->
  (match find i t with
   | Some (_, v) => v = i /\ smem i (elements t) = true
   | None => smem i (elements t) = false end) /\
  option_map snd (find_le i t None) = first_ge i (elements t) /\
  option_map snd (leftmost t) = hd_error (elements t).
Proof. intros i t H. exact (conj (find_spec i t H) (conj (find_le_first_ge i t H) (leftmost_spec t))). Qed.

(* ---- 1. invariant over all histories -------------------------------------- *)
(* every tree (original or clone) of every world reachable from [init] by ANY
   list of operations with int64 keys is a search tree with exact balance
   fields in -1..1 and int64 keys *)
Theorem reachable_trees_balanced_search_trees :
  forall w, reach w ->
  Forall (fun ts => bst (tr ts) /\ avl (tr ts) /\ Forall in_range (elements (tr ts))) (trees w).
Proof. exact reach_invariant_lemma. Qed.

(* an AVL-balanced tree of height h holds at least 2^(h/2) - 1 keys *)
Theorem avl_height_logarithmic :
  forall t, avl t -> 2 ^ (height t / 2) <= Z.of_nat (length (elements t)) + 1.
Proof. exact avl_height_bound. Qed.

(* ---- 2. set refinement of whole histories --------------------------------- *)
(* For EVERY operation list with int64 keys, what the model of avl-tree.go
   observes (Insert/Delete flags, Find, FindLE, Clone, Elems, iterator creation,
   iterator clone, Next: ok-flag and value) is exactly what the set-level
   specification observes; this includes live iterators under interleaved
   Insert/Delete/Clone, Clone independence and the MaxInt cursor.  Indices of
   trees/iterators that do not exist are handled alike on both sides, so
   well-formedness of the history is not even needed. *)
Theorem history_refines_set_spec :
  forall ops, keys_in_range ops -> observe ops (run init ops) = arun ainit ops.
Proof. exact run_refines_lemma. Qed.

Theorem wf_history_refines_set_spec :
  forall ops, wf_ops 1 0 ops -> keys_in_range ops -> observe ops (run init ops) = arun ainit ops.
Proof. exact wf_run_refines_lemma. Qed.

(* ---- live iterators, stated directly -------------------------------------- *)
(* in any reachable world, whatever happened to the tree since the iterator
   was positioned, Next moves a live iterator to the first key of the CURRENT
   set that is greater than its cursor value, and ends it iff there is none *)
Theorem next_moves_to_first_greater_of_current_set :
  forall w k, reach w ->
  let it := nth k (iters w) dflt_iter in
  let s := elements (tr (nth (itree it) (trees w) t0)) in
  let it' := nth k (iters (fst (step w (Next k)))) dflt_iter in
  (k < length (iters w))%nat -> inode it <> None ->
  match first_gt (ival it) s with
  | Some x => inode it' <> None /\ ival it' = x
  | None => inode it' = None
  end.
Proof. exact next_live_lemma. Qed.

(* Insert/Delete touch one tree only; Clone appends an equal tree and leaves
   all other trees and all iterators alone *)
Theorem mutation_is_local :
  forall w t t2 i, t2 <> t ->
  nth t2 (trees (fst (step w (Ins t i)))) t0 = nth t2 (trees w) t0 /\
  nth t2 (trees (fst (step w (Del t i)))) t0 = nth t2 (trees w) t0.
Proof. exact mutation_local_lemma. Qed.

Theorem clone_copies :
  forall w t,
  let w' := fst (step w (Clone t)) in
  tr (nth (length (trees w)) (trees w') t0) = tr (nth t (trees w) t0) /\
  (forall t2, (t2 < length (trees w))%nat -> nth t2 (trees w') t0 = nth t2 (trees w) t0) /\
  iters w' = iters w.
Proof. exact clone_copies_lemma. Qed.

(* ---- complete iterations over an unchanged tree ---------------------------- *)
(* in any reachable world, Iterator() followed by Next() until it ends visits
   exactly the keys of the tree in ascending order, then reports the end *)
Theorem full_iteration_visits_the_set_ascending :
  forall w t, reach w ->
  let s := elements (tr (nth t (trees w) t0)) in
  let ops := ItBegin t :: repeat (Next (length (iters w))) (length s) in
  observe ops (run w ops) = map (fun x => (true, x, [])) s ++ [(false, 0, [])].
Proof. exact iterate_all_lemma. Qed.

(* IteratorFrom(i) visits exactly the keys >= i, ascending *)
Theorem iteration_from_lower_bound :
  forall w t i, reach w -> in_range i ->
  let s := suffix_ge i (elements (tr (nth t (trees w) t0))) in
  let ops := ItFrom t i :: repeat (Next (length (iters w))) (length s) in
  observe ops (run w ops) = map (fun x => (true, x, [])) s ++ [(false, 0, [])].
Proof. exact iterate_from_lemma. Qed.

Theorem suffix_ge_is_filter :
  forall i l, sset l -> suffix_ge i l = filter (fun x => i <=? x) l.
Proof. exact suffix_ge_filter. Qed.

(* ---- node identities and tombstones ---------------------------------------- *)
(* in every reachable world: node ids of a tree are pairwise distinct and below
   the allocation counter, tombstoned ids are not in the tree, and the node an
   iterator points to is a live node of its tree or a tombstone of that tree *)
Theorem reachable_ids_consistent :
  forall w, reach w ->
  Forall (fun ts => NoDup (ids (tr ts)) /\
                    (forall k, In k (ids (tr ts)) -> (k < nx ts)%nat) /\
                    (forall k, In k (dead ts) -> ~ In k (ids (tr ts)))) (trees w) /\
  Forall (fun it => forall k, inode it = Some k ->
            In k (ids (tr (nth (itree it) (trees w) t0))) \/
            In k (dead (nth (itree it) (trees w) t0))) (iters w).
Proof. exact reach_ids_lemma. Qed.

(* the model's re-find test (tombstoned, value changed, or node not in the tree)
   is Go's test  node.Deleted || value != node.Value : a node that left the tree
   is always tombstoned *)
Theorem node_gone_implies_tombstoned :
  forall w k n, reach w ->
  let it := nth k (iters w) dflt_iter in
  let ts := nth (itree it) (trees w) t0 in
  inode it = Some n -> value_at n (tr ts) = None -> existsb (Nat.eqb n) (dead ts) = true.
Proof. exact refind_faithful_lemma. Qed.

(* ---- stored parent pointers (ModelP.v) -------------------------------------- *)
(* for EVERY history of Insert/Delete on a tree, the pointer-level model (which
   updates AvlNode.Parent exactly where avl-tree.go does) has stored parents
   equal to the structural parents everywhere (root: nil), and forgetting the
   Parent field gives exactly the tree and id counter of Model.v *)
Theorem stored_parents_equal_structural_parents :
  forall ops,
  let s := fold_left pstep ops (PE, O) in
  pwf None (fst s) /\ (erase (fst s), snd s) = fold_left mstep ops (E, O).
Proof. exact stored_parents_lemma. Qed.

(* ... and [mstep] is what Model.step does to tree 0 of a world *)
Theorem model_tree0_follows_mstep :
  forall ops w, (0 < length (trees w))%nat ->
  let w' := fold_left (fun w o => fst (step w o)) (map to_op ops) w in
  (0 < length (trees w'))%nat /\
  (tr (nth 0 (trees w') t0), nx (nth 0 (trees w') t0)) =
  fold_left mstep ops (tr (nth 0 (trees w) t0), nx (nth 0 (trees w) t0)).
Proof. exact tree0_mstep. Qed.

(* AvlIterator.Next, branches 2 and 3, transliterated on the pointer-level model
   (descend Right then Left; else climb through the STORED Parent pointers while
   the node is its parent's Right child): for every Insert/Delete history and
   every node id it yields exactly the structural successor [succ_of] that the
   world model Model.iter_next uses (same node id, same value, same "end") *)
Theorem pointer_successor_walk_is_structural_successor :
  forall ops k,
  let s := fold_left pstep ops (PE, O) in
  psucc (fst s) k = succ_of k (erase (fst s)) None.
Proof. exact pointer_next_lemma. Qed.

(* ---- non-vacuity ----------------------------------------------------------- *)
(* a history with single and double rotations on insert and delete, deletions
   of the cursor element and of other elements under live iterators, a clone
   that diverges, and the MaxInt cursor *)
Definition ex_ops : list op :=
  [Ins 0 5; Ins 0 3; Ins 0 4 (* LR *); Ins 0 8; Ins 0 9 (* RR *); Ins 0 7 (* RL *);
   Ins 0 1; Ins 0 2; Ins 0 6; Ins 0 MAXI; Ins 0 5;
   ItBegin 0; Next 0; Del 0 2 (* cursor element *); Next 0; Del 0 5; Ins 0 10; Next 0;
   Clone 0; Del 1 7; Del 1 1; Del 1 3 (* rebalancing deletes *); ItFrom 1 6; Next 1; ItClone 0;
   Next 0; Next 0; Next 0; Next 0; Next 0 (* reaches MAXI *); Del 0 MAXI; Next 0 (* ends *); Next 0;
   Next 2; Elems 0; Elems 1; FindLE 0 5; Find 0 5; Find 1 6; Del 0 77].

Example ex_hypotheses : keys_in_range ex_ops /\ wf_ops 1 0 ex_ops.
Proof.
  split.
  - apply Forall_forall. intros o Ho. unfold ex_ops in Ho. simpl in Ho.
    repeat (destruct Ho as [<-|Ho]; [first [exact I | vm_compute; split; discriminate]|]).
    destruct Ho.
  - vm_compute. intuition auto with arith.
Qed.

Example ex_observed :
  arun ainit ex_ops =
  [(true,0,[]); (true,0,[]); (true,0,[]); (true,0,[]); (true,0,[]); (true,0,[]);
   (true,0,[]); (true,0,[]); (true,0,[]); (true,0,[]); (false,0,[]);
   (true,1,[]); (true,2,[]); (true,0,[]); (true,3,[]); (true,0,[]); (true,0,[]); (true,4,[]);
   (true,0,[]); (true,0,[]); (true,0,[]); (true,0,[]); (true,6,[]); (true,8,[]); (true,4,[]);
   (true,6,[]); (true,7,[]); (true,8,[]); (true,9,[]); (true,10,[]); (true,0,[]); (false,0,[]); (false,0,[]);
   (true,6,[]); (true,0,[1;3;4;6;7;8;9;10]); (true,0,[4;6;8;9;10;MAXI]); (true,6,[]); (false,0,[]); (true,0,[]); (false,0,[])].
Proof. vm_compute. reflexivity. Qed.

(* the third insertion really is a double (LR) rotation with value swapping:
   node 0 stays on top and now holds 4 *)
Example ex_double_rotation :
  fst (fst (fst (ins 4 2 (N 0 (N 1 E 3 0 E) 5 (-1) E)))) = N 0 (N 1 E 3 0 E) 4 0 (N 2 E 5 0 E).
Proof. reflexivity. Qed.

(* the world after ex_ops is reachable and its trees are not trivial *)
Example ex_reach_nontrivial :
  exists w, reach w /\ map (fun ts => height (tr ts)) (trees w) = [4; 3].
Proof.
  exists (fold_left (fun w o => fst (step w o)) ex_ops init). split.
  - unfold ex_ops. cbn [fold_left].
    repeat (apply reach_step; [|vm_compute; try split; try discriminate; exact I]). apply reach_init.
  - vm_compute. reflexivity.
Qed.

(* the pointer-level model on a history with all four rotations and two-child
   deletes: stored parents of the final tree, listed in preorder as (id, parent) *)
Fixpoint parents (t : ptree) : list (nat * option nat) := match t with
  | PE => [] | PN id l _ _ p r => (id, p) :: parents l ++ parents r end.
Example ex_stored_parents :
  parents (fst (fold_left pstep
     [MIns 5; MIns 3; MIns 4; MIns 8; MIns 9; MIns 7; MIns 1; MIns 2; MIns 6; MDel 5; MDel 7; MDel 1; MDel 3] (PE, O)))
  = [(1%nat, None); (3%nat, Some 1%nat); (2%nat, Some 1%nat); (8%nat, Some 2%nat); (4%nat, Some 2%nat)].
Proof. vm_compute. reflexivity. Qed.

(* the pointer walk after a two-child delete of the root (node 0 is gone, node 4
   took its place): climbs, a descent, the end of the iteration, a stale id *)
Example ex_pointer_walk :
  let T := fst (fold_left pstep [MIns 4; MIns 2; MIns 6; MIns 1; MIns 3; MIns 5; MIns 7; MDel 4] (PE, O)) in
  map (psucc T) [0; 1; 2; 3; 4; 5; 6; 9]%nat =
  [None; Some (Some (4%nat, 3)); Some (Some (6%nat, 7)); Some (Some (1%nat, 2));
   Some (Some (5%nat, 5)); Some (Some (2%nat, 6)); Some None; None].
Proof. vm_compute. reflexivity. Qed.
