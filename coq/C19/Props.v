(* C19 — property theorems (statements only; proofs live in Proofs.v). *)
From Coq Require Import ZArith List Bool.
From ADV Require Import C19.Model C19.Spec C19.Proofs.
Import ListNotations.
Open Scope Z_scope.

Theorem rotations_preserve_elements :
  forall t, elements (rotLL t) = elements t /\ elements (rotRR t) = elements t /\
            elements (rotLR t) = elements t /\ elements (rotRL t) = elements t.
Proof. intro t. exact (conj (rotLL_elements t) (conj (rotRR_elements t) (conj (rotLR_elements t) (rotRL_elements t)))). Qed.
