(* C11 correspondence, sparse matrices: replay a whole history in the model
   (ModelMat.v, state threaded through) and compare, PER STEP, the outcome kind,
   the payload (values read, iteration sequences (i, j, value)*, reduce result,
   Dims, the observation of the fresh Row/Col/Diag vector) and a checksum of the
   observation of the whole world (for every matrix: header, ConstAt of every
   (i,j), private map and index keys of `values`, iterator sequence of a clone). *)
From Coq Require Import ZArith List Bool.
From ADV Require Import Base.Corr C11.Model C11.ModelMat.
Import ListNotations.
Open Scope Z_scope.

Definition mout := (Z * list Z * Z)%type.
Definition mout_eqb (a b : mout) : bool :=
  let '(k1, p1, h1) := a in
  let '(k2, p2, h2) := b in
  (k1 =? k2) && list_eqb Z.eqb p1 p2 && (h1 =? h2).

Fixpoint mrun_obs (w : mworld) (ops : list mop) : list mout :=
  match ops with
  | [] => []
  | o :: r => let '(w', (k, p)) := mstep w o in (k, p, hash (obs_mworld w')) :: mrun_obs w' r
  end.

Definition mcase := (list mop * list mout)%type.
Definition mcheck (c : mcase) : bool := list_eqb mout_eqb (mrun_obs minit (fst c)) (snd c).
Definition mism_mat (cs : list mcase) : list nat := mismatches mcheck cs.
Definition mdiverge (c : mcase) : option nat := first_diff mout_eqb 0 (mrun_obs minit (fst c)) (snd c).
(* full observation of the model after the first [n] operations (diagnosis) *)
Definition mobs_after (n : nat) (c : mcase) : list Z := obs_mworld (mrun minit (firstn n (fst c))).
Definition mouts_model (c : mcase) : list mout := mrun_obs minit (fst c).
