(* C11, sparse matrices — reads, iteration, dimensions and single-step
   refinement to the plain dense matrix (list of rows). *)
From Coq Require Import ZArith List Bool Lia Sorted.
From ADV Require Import C11.Model C11.Spec C11.ProofsMap C11.ProofsIter C11.ProofsInv C11.ProofsRef
                        C11.ModelMat C11.ProofsMatSpec C11.ProofsMat.
Import ListNotations.
Open Scope Z_scope.

(* ---- the dense abstraction ---------------------------------------------------- *)
Lemma nth_map_zseq {X} (f : Z -> X) n i d :
  0 <= i < Z.of_nat n -> nth (Z.to_nat i) (map f (zseq 0 n)) d = f i.
Proof.
  intro H. rewrite (nth_indep _ d (f 0)) by (rewrite map_length, zseq_length; lia).
  rewrite map_nth. f_equal. rewrite nth_zseq; lia.
Qed.
Lemma mget_mabs h m i j : pos_ok m i j -> mget (mabs h m) i j = peek h (mv m) (i * mcols m + j).
Proof.
  intros [Hi Hj]. unfold mget, mabs. rewrite nth_map_zseq by lia. rewrite nth_map_zseq by lia. reflexivity.
Qed.

(* 2. every in-range read succeeds and returns the element of the dense matrix *)
Lemma mread_ok h m i j : Whole m -> pos_ok m i j -> mconst_at h m i j = Some (mget (mabs h m) i j).
Proof.
  intros W P. unfold mconst_at. rewrite (mindex_whole_ok _ _ _ W P).
  destruct W as (H1 & H2 & H3 & H4 & H5 & H6 & H7). destruct P as [Pi Pj].
  rewrite read_ok by (unfold idx_ok; rewrite H7; apply pos_bound; auto).
  rewrite abs_nth by (rewrite H7; apply pos_bound; auto).
  rewrite mget_mabs by (split; auto). reflexivity.
Qed.

(* ---- index and ij are inverse on a whole matrix -------------------------------- *)
Lemma mij_whole m k : Whole m -> 0 <= k -> 0 < mcols m -> mij m k = (k / mcols m, k mod mcols m).
Proof.
  intros (H1 & H2 & H3 & H4 & H5 & H6 & H7) Hk Hc. unfold mij. rewrite H3, H4, H6.
  rewrite Z.quot_div_nonneg, Z.rem_mod_nonneg by lia. f_equal; lia.
Qed.
Lemma mij_index m i j : Whole m -> pos_ok m i j -> mij m (i * mcols m + j) = (i, j).
Proof.
  intros W [Pi Pj]. rewrite mij_whole; auto; try nia. f_equal.
  - rewrite Z.div_add_l by lia. rewrite Z.div_small by lia. lia.
  - rewrite Z.add_comm, Z_mod_plus_full. apply Z.mod_small. lia.
Qed.
Lemma index_mij m k i j :
  Whole m -> 0 <= k < dim (mv m) -> mij m k = (i, j) -> pos_ok m i j /\ k = i * mcols m + j.
Proof.
  intros W Hk E. pose proof W as (H1 & H2 & H3 & H4 & H5 & H6 & H7). rewrite H7 in Hk.
  assert (Hc : 0 < mcols m) by nia.
  rewrite mij_whole in E; auto; try lia. inversion E. subst i j. clear E.
  pose proof (Z.div_mod k (mcols m)) as DM. pose proof (Z.mod_pos_bound k (mcols m) Hc) as MB.
  assert (0 <= k / mcols m) by (apply Z.div_pos; lia).
  assert (k / mcols m < mrows m) by (apply Z.div_lt_upper_bound; nia).
  unfold pos_ok. split; [lia|]. rewrite DM at 1 by lia. ring.
Qed.
Lemma mij_lex m k k' : Whole m -> 0 <= k < k' -> k' < dim (mv m) -> lexlt (mij m k) (mij m k').
Proof.
  intros W Hk Hk'. pose proof W as (H1 & H2 & H3 & H4 & H5 & H6 & H7). rewrite H7 in Hk'.
  assert (Hc : 0 < mcols m) by nia.
  rewrite !mij_whole; auto; try lia. unfold lexlt. cbn [fst snd].
  pose proof (Z.div_mod k (mcols m)) as DM. pose proof (Z.mod_pos_bound k (mcols m) Hc) as MB.
  pose proof (Z.div_mod k' (mcols m)) as DM'. pose proof (Z.mod_pos_bound k' (mcols m) Hc) as MB'.
  assert (LE : k / mcols m <= k' / mcols m) by (apply Z.div_le_mono; lia).
  destruct (Z.eq_dec (k / mcols m) (k' / mcols m)) as [Eq|Ne]; [right|left; lia].
  split; auto. rewrite Eq in DM. lia.
Qed.

(* ---- 4. iteration --------------------------------------------------------------- *)
Lemma sorted_map_lex m l :
  Whole m -> StronglySorted Z.lt l -> Forall (fun k => 0 <= k < dim (mv m)) l ->
  StronglySorted lexlt (map (mij m) l).
Proof.
  intro W. induction l as [|k l IH]; intros S F; simpl; [constructor|].
  inversion S as [|? ? S1 F1]; subst. inversion F as [|? ? Hk Fr]; subst.
  constructor; [apply IH; auto|].
  apply Forall_forall. intros p Hp. apply in_map_iff in Hp. destruct Hp as (k' & <- & Hin).
  rewrite Forall_forall in F1, Fr. specialize (F1 k' Hin). specialize (Fr k' Hin).
  apply mij_lex; auto; lia.
Qed.
Lemma mvisits_In h m s i j x :
  In ((i, j), x) (mvisits h m s) <-> exists k, mij m k = (i, j) /\ In (k, x) (visits h s).
Proof.
  unfold mvisits, visits. rewrite in_map_iff. split.
  - intros ([k l] & E & Hin). inversion E. exists k. split; auto.
    apply in_map_iff. exists (k, l). auto.
  - intros (k & E & Hin). apply in_map_iff in Hin. destruct Hin as ([k0 l] & E0 & Hin).
    inversion E0. subst. exists (k, l). split; auto. cbn [fst snd]. rewrite E. reflexivity.
Qed.
Lemma peek_abs_eq h v1 v k : abs h v1 = abs h v -> dim v1 = dim v -> 0 <= k < dim v -> peek h v1 k = peek h v k.
Proof.
  intros E D Hk. rewrite <- (abs_nth h v1 k) by lia. rewrite <- (abs_nth h v k) by lia. rewrite E. reflexivity.
Qed.
Lemma mabs_ext h h' m m' :
  mdims m' = mdims m ->
  (forall i j, pos_ok m i j -> peek h' (mv m') (i * mcols m + j) = peek h (mv m) (i * mcols m + j)) ->
  mabs h' m' = mabs h m.
Proof.
  intros D H. unfold mdims in D. inversion D as [[Dr Dc]]. unfold mabs. rewrite Dr, Dc.
  apply map_ext_in. intros i Hi. apply map_ext_in. intros j Hj.
  apply zseq_In in Hi. apply zseq_In in Hj. apply H. unfold pos_ok. lia.
Qed.

Lemma miterate_visits h m :
  MInv m ->
  exists v1 s, iterate h (mv m) = Some (v1, s) /\
    StronglySorted lexlt (map fst (mvisits h m s)) /\
    (forall i j x, In ((i, j), x) (mvisits h m s) <->
                   pos_ok m i j /\ x = mget (mabs h m) i j /\ x <> 0) /\
    mabs h (set_mv m v1) = mabs h m /\ mdims (set_mv m v1) = mdims m /\ MInv (set_mv m v1).
Proof.
  intros [I W]. destruct (iterate_visits h (mv m) I) as (v1 & s & A & B & C & D & E & F).
  exists v1, s. split; [exact A|].
  assert (KR : Forall (fun k => 0 <= k < dim (mv m)) (map fst s)).
  { apply Forall_forall. intros k Hk. apply in_map_iff in Hk. destruct Hk as ([k0 l] & <- & Hin).
    assert (Hv : In (k0, hget h l) (visits h s)) by (apply in_map_iff; exists (k0, l); auto).
    apply C in Hv. cbn [fst]. tauto. }
  pose proof W as (H1 & H2 & H3 & H4 & H5 & H6 & H7).
  split; [|split; [|split; [|split]]].
  - unfold mvisits. rewrite map_map. cbn [fst]. rewrite <- (map_map fst (mij m)).
    apply sorted_map_lex; auto.
  - intros i j x. rewrite mvisits_In. split.
    + intros (k & Ek & Hin). apply C in Hin. destruct Hin as (Hk & Hx & Hnz).
      destruct (index_mij _ _ _ _ W Hk Ek) as [P Kk]. split; auto. split; auto.
      rewrite mget_mabs by auto. rewrite Hx, abs_nth by auto. subst k. reflexivity.
    + intros (P & Hx & Hnz). exists (i * mcols m + j). split; [apply mij_index; auto|].
      apply C. assert (0 <= i * mcols m + j < dim (mv m)) by (rewrite H7; destruct P; apply pos_bound; auto).
      split; auto. split; auto. rewrite abs_nth by auto. rewrite Hx. apply mget_mabs; auto.
  - apply mabs_ext; [reflexivity|]. intros i j [Pi Pj]. cbn [mv set_mv].
    apply peek_abs_eq; auto. rewrite H7. apply pos_bound; auto.
  - reflexivity.
  - apply MInv_set_mv; auto. split; auto.
Qed.

(* ---- 5. dimensions ---------------------------------------------------------------- *)
Lemma getm_setm w t m u :
  mdims m = mdims (getm w t) -> mdims (getm (setm w t m) u) = mdims (getm w u).
Proof.
  intro E. unfold getm, setm. cbn [mats]. destruct (Nat.eq_dec t u) as [->|Ne].
  - destruct (Nat.lt_ge_cases u (length (mats w))) as [L|G].
    + rewrite nth_upd_eq; auto.
    + rewrite !nth_overflow; auto. rewrite upd_length. auto.
  - rewrite nth_upd_neq; auto.
Qed.
Lemma getm_setmH w h t m u :
  mdims m = mdims (getm w t) -> mdims (getm (setm (msetH w h) t m) u) = mdims (getm w u).
Proof. intro E. exact (getm_setm (msetH w h) t m u E). Qed.
Lemma getm_addm w m u : (u < length (mats w))%nat -> getm (addm w m) u = getm w u.
Proof. intro L. unfold getm, addm. cbn [mats]. apply app_nth1. auto. Qed.
Lemma getm_addm_new w m : getm (addm w m) (length (mats w)) = m.
Proof. unfold getm, addm. cbn [mats]. rewrite app_nth2, Nat.sub_diag; auto. Qed.
Lemma getm_msetH w h u : getm (msetH w h) u = getm w u.
Proof. reflexivity. Qed.

Lemma mset_dims w t o w' ok u : mset w t o = Some (w', ok) -> mdims (getm w' u) = mdims (getm w u).
Proof.
  unfold mset. destruct o as [x|r c xs].
  - destruct (negb (mrows (getm w t) =? mrows (getm w x)) || negb (mcols (getm w t) =? mcols (getm w x)));
      [intro E; inversion E; subst; auto|].
    destruct (wr_all _ (mhp w) (getm w t)) as [[[h1 a1] ok1]|] eqn:W1; [|discriminate].
    pose proof (wr_all_dims _ _ _ _ _ _ W1) as D1.
    destruct ok1; [|intro E; inversion E; subst; apply getm_setmH; auto].
    destruct (Nat.eqb x t) eqn:Ext.
    + apply Nat.eqb_eq in Ext. subst x.
      destruct (it_begin h1 (mv a1)) as [[vb0 cur]|]; [|discriminate].
      destruct (set2_loop _ true a1 a1 h1 vb0 vb0 cur) as [[[[h2 va] vb] ok2]|]; [|discriminate].
      intro E. inversion E. subst w' ok. rewrite getm_setm; [apply getm_setmH; auto|].
      rewrite getm_setmH; auto.
    + destruct (it_begin h1 (mv (getm w x))) as [[vb0 cur]|]; [|discriminate].
      destruct (set2_loop _ false a1 (getm w x) h1 (mv a1) vb0 cur) as [[[[h2 va] vb] ok2]|]; [|discriminate].
      intro E. inversion E. subst w' ok. rewrite getm_setm; [apply getm_setmH; auto|].
      rewrite getm_setmH; auto.
  - destruct (negb (mrows (getm w t) =? r) || negb (mcols (getm w t) =? c));
      [intro E; inversion E; subst; auto|].
    destruct (wr_all _ (mhp w) (getm w t)) as [[[h1 a1] ok1]|] eqn:W1; [|discriminate].
    pose proof (wr_all_dims _ _ _ _ _ _ W1) as D1.
    destruct ok1; [|intro E; inversion E; subst; apply getm_setmH; auto].
    destruct (set_list (dense_entries r c xs) h1 a1) as [[h2 a2] ok2] eqn:S.
    pose proof (set_list_dims _ _ _ _ _ _ S) as D2.
    intro E. inversion E. subst. apply getm_setmH. congruence.
Qed.

(* no operation changes the dimensions of an existing matrix, except Tip which swaps them *)
Lemma mstep_dims w o u :
  MWInv w -> (u < length (mats w))%nat ->
  mdims (getm (fst (mstep w o)) u) =
  match o with
  | MTip t => if Nat.eqb t u
              then match mtip (getm w u) with
                   | Some _ => (mcols (getm w u), mrows (getm w u))
                   | None => mdims (getm w u)      (* model out of fuel (outcome K_FUEL): nothing happens *)
                   end
              else mdims (getm w u)
  | _ => mdims (getm w u)
  end.
Proof.
  intros H L. assert (G : forall t, MInv (getm w t)) by (intro t0; apply MWInv_getm; auto).
  destruct o; cbn [mstep].
  - destruct (new_mat (mhp w) ris cis xs r c) as [[h' m]|]; simpl; auto. rewrite getm_addm; auto.
  - destruct (mat_at (mhp w) (getm w t) i j) as [[[h' m'] l]|] eqn:E; simpl; auto.
    apply getm_setmH. eapply mat_at_dims; eauto.
  - destruct (mat_at (mhp w) (getm w t) i j) as [[[h' m'] l]|] eqn:E; simpl; auto.
    apply getm_setmH. eapply mat_at_dims; eauto.
  - destruct (mconst_at (mhp w) (getm w t) i j); simpl; auto.
  - destruct (mset w t o) as [[w' ok]|] eqn:E; simpl; auto. eapply mset_dims; eauto.
  - unfold mreset. destruct (wr_all _ (mhp w) (getm w t)) as [[[h' m'] ok]|] eqn:E; simpl; auto.
    apply getm_setmH. eapply wr_all_dims; eauto.
  - unfold mset_identity. destruct (wr_all _ (mhp w) (getm w t)) as [[[h1 m1] ok1]|] eqn:E; simpl; auto.
    pose proof (wr_all_dims _ _ _ _ _ _ E) as D1.
    destruct ok1; [|simpl; apply getm_setmH; auto].
    destruct (set_list _ h1 m1) as [[h2 m2] ok2] eqn:S. simpl. apply getm_setmH.
    rewrite (set_list_dims _ _ _ _ _ _ S). auto.
  - destruct (mswap (getm w t) i1 j1 i2 j2) as [m'|] eqn:E; simpl; auto.
    apply getm_setm. eapply mswap_MInv; eauto.
  - pose proof (mswap_rows_MInv (getm w t) i j (G t)) as [_ Q].
    destruct (mswap_rows (getm w t) i j) as [m' k]. simpl in *. apply getm_setm; auto.
  - pose proof (mswap_cols_MInv (getm w t) i j (G t)) as [_ Q].
    destruct (mswap_cols (getm w t) i j) as [m' k]. simpl in *. apply getm_setm; auto.
  - destruct (mtrans (getm w t)) as [m'|]; simpl; auto. rewrite getm_addm; auto.
  - destruct (mtip (getm w t)) as [m'|] eqn:E; cbn [fst].
    + destruct (mtip_MInv _ _ (G t) E) as [_ D].
      destruct (Nat.eqb t u) eqn:Etu.
      * apply Nat.eqb_eq in Etu. subst u. rewrite E. unfold getm at 1. unfold setm. cbn [mats].
        rewrite nth_upd_eq; auto.
      * apply Nat.eqb_neq in Etu. unfold getm, setm. cbn [mats]. rewrite nth_upd_neq; auto.
    + destruct (Nat.eqb t u) eqn:Etu; auto. apply Nat.eqb_eq in Etu. subst u. rewrite E. auto.
  - destruct (clone (mhp w) (mv (getm w t))) as [h1 v]. simpl. rewrite getm_addm; auto.
  - destruct (iterate (mhp w) (mv (getm w t))) as [[v' s]|]; simpl; auto. apply getm_setm. reflexivity.
  - destruct (it_begin (mhp w) (mv (getm w t))) as [[v0 cur]|]; simpl; auto.
    destruct (iter_part n (mhp w) v0 cur []) as [[v' s]|]; simpl; auto. apply getm_setm. reflexivity.
  - destruct (map_list _ _ (mhp w) (getm w t)) as [[h' m'] ok] eqn:E. simpl.
    apply getm_setmH. eapply map_list_dims; eauto.
  - destruct (map_list _ _ (mhp w) (getm w t)) as [[h' m'] ok] eqn:E. simpl.
    apply getm_setmH. eapply map_list_dims; eauto.
  - simpl. auto.
  - simpl. auto.
  - destruct (mrow (mhp w) (getm w t) i) as [[h' r]|]; simpl; auto.
  - destruct (mcol (mhp w) (getm w t) j) as [[h' r]|]; simpl; auto.
  - destruct (mdiag (mhp w) (getm w t)) as [[h' r]|]; simpl; auto.
Qed.

(* ---- 3. single-step refinement of the elementary mutators ------------------------ *)
Lemma key_eqb m i j i' j' :
  Whole m -> pos_ok m i j -> pos_ok m i' j' ->
  (i' * mcols m + j' =? i * mcols m + j) = (i' =? i) && (j' =? j).
Proof.
  intros W P P'. destruct (i' * mcols m + j' =? i * mcols m + j) eqn:E.
  - apply Z.eqb_eq in E. pose proof (mij_index _ _ _ W P) as A. pose proof (mij_index _ _ _ W P') as A'.
    rewrite E in A'. rewrite A in A'. inversion A'. subst. rewrite !Z.eqb_refl. reflexivity.
  - apply Z.eqb_neq in E. destruct (i' =? i) eqn:E1; destruct (j' =? j) eqn:E2; auto.
    apply Z.eqb_eq in E1, E2. subst. lia.
Qed.

(* At(i,j).Set(x) on a well-formed matrix changes exactly element (i,j) *)
Lemma mset_at_refines h m i j x h' m' l i' j' :
  MInv m -> Wf h (mv m) -> mat_at h m i j = Some (h', m', l) -> pos_ok m i' j' ->
  mget (mabs (hset h' l x) m') i' j' = if (i' =? i) && (j' =? j) then x else mget (mabs h m) i' j'.
Proof.
  intros [I W] Wf0. unfold mat_at. destruct (mindex m i j) as [k|] eqn:Ek; [|discriminate].
  destruct (at_ h (mv m) k) as [[[h1 v1] l1]|] eqn:A; [|discriminate].
  intro E. inversion E. subst h1 m' l1. clear E. intro P'.
  destruct (mindex_whole _ _ _ _ W Ek) as (P & Kk & Kr).
  rewrite mget_mabs by exact P'. rewrite mget_mabs by exact P'. cbn [mv set_mv mcols].
  rewrite (peek_set_at _ _ _ _ _ _ _ _ I Wf0 A). subst k. rewrite key_eqb; auto.
Qed.
Lemma mat_at_in_range_ok h m i j : Whole m -> pos_ok m i j -> exists h' m' l, mat_at h m i j = Some (h', m', l).
Proof.
  intros W P. unfold mat_at. rewrite (mindex_whole_ok _ _ _ W P).
  destruct W as (H1 & H2 & H3 & H4 & H5 & H6 & H7). destruct P as [Pi Pj].
  destruct (at_in_range_ok h (mv m) (i * mcols m + j)) as (h' & v' & l & A).
  - unfold idx_ok. rewrite H7. apply pos_bound; auto.
  - rewrite A. eauto.
Qed.

(* Swap(i1,j1,i2,j2) exchanges exactly the two elements *)
Lemma mswap_refines h m i1 j1 i2 j2 m' i j :
  MInv m -> mswap m i1 j1 i2 j2 = Some m' -> pos_ok m i j ->
  mget (mabs h m') i j =
  if (i =? i1) && (j =? j1) then mget (mabs h m) i2 j2
  else if (i =? i2) && (j =? j2) then mget (mabs h m) i1 j1 else mget (mabs h m) i j.
Proof.
  intros [I W]. unfold mswap.
  destruct (mindex m i1 j1) as [k1|] eqn:E1; [|discriminate].
  destruct (mindex m i2 j2) as [k2|] eqn:E2; [|discriminate].
  intro E. inversion E. subst m'. clear E. intro P.
  destruct (mindex_whole _ _ _ _ W E1) as (P1 & K1 & R1).
  destruct (mindex_whole _ _ _ _ W E2) as (P2 & K2 & R2).
  rewrite !mget_mabs; auto. cbn [mv set_mv mcols].
  rewrite peek_swap by exact I. subst k1 k2. rewrite !key_eqb; auto.
Qed.
Lemma mswap_in_range_ok m i1 j1 i2 j2 :
  pos_ok m i1 j1 -> pos_ok m i2 j2 -> exists m', mswap m i1 j1 i2 j2 = Some m'.
Proof. intros P1 P2. unfold mswap. rewrite (mindex_ok _ _ _ P1), (mindex_ok _ _ _ P2). eauto. Qed.
