(* C11, round 6 — the dense reading of ROW(i) / COL(j) / DIAG() of a sparse matrix: the FRESH
   vector they return (ModelMat.copy_loop: for p := 0; p < n; p++ { if s := values.AT_(index(..));
   !s.nullScalar() { v.AT(p).SET(s) } }) is coherent, reads as the row / column / diagonal of the
   dense matrix, stores exactly the non-zero elements, holds only scalars allocated by the call
   (it shares nothing with the matrix) and the matrix is not touched. *)
From Coq Require Import ZArith List Bool Lia.
From ADV Require Import C11.Model C11.Spec C11.Dense C11.ProofsMap C11.ProofsInv C11.ProofsD1 C11.ProofsRef
                        C11.ModelMat C11.ProofsMatSpec C11.ProofsMat C11.ProofsMatDense C11.ProofsMatRef
                        C11.DenseMat C11.ProofsMatWorld.
From ADV Require C11.ProofsDSet C11.ProofsMatDense4.
Import ListNotations.
Open Scope Z_scope.

Definition Ext (h h' : heap) : Prop := exists e, h' = h ++ e.
Lemma Ext_refl h : Ext h h.
Proof. exists []. rewrite app_nil_r. reflexivity. Qed.
Lemma Ext_trans a b c : Ext a b -> Ext b c -> Ext a c.
Proof. intros [e ->] [f ->]. exists (e ++ f). rewrite app_assoc. reflexivity. Qed.
Lemma Ext_len a b : Ext a b -> (length a <= length b)%nat.
Proof. intros [e ->]. rewrite app_length. lia. Qed.
Lemma Ext_hget a b l : Ext a b -> (l < length a)%nat -> hget b l = hget a l.
Proof. intros [e ->] H. apply hget_app. exact H. Qed.

Lemma isnull_peek h v k : isnull h v k = (peek h v k =? 0).
Proof. unfold isnull, peek. destruct (lookup k (vals v)); reflexivity. Qed.
Lemma hset_app_last (h : heap) x y : hset (h ++ [x]) (length h) y = h ++ [y].
Proof. unfold hset. induction h as [|a h IH]; cbn; [reflexivity|]. f_equal. exact IH. Qed.
Lemma hget_app_last (h : heap) x : hget (h ++ [x]) (length h) = x.
Proof. unfold hget. rewrite app_nth2 by lia. rewrite Nat.sub_diag. reflexivity. Qed.

(* what the loop keeps about the vector under construction *)
Definition RI (h0 h : heap) (r : svec) : Prop :=
  Inv r /\ Wf h r /\
  (forall k l, lookup k (vals r) = Some l -> (length h0 <= l)%nat /\ hget h l <> 0) /\
  (forall k, In k (idx r) -> exists l, lookup k (vals r) = Some l).

Definition pkeys (ps : list (Z * Z * Z)) : list Z := map (fun x => fst (fst x)) ps.

Lemma copy_loop_spec m h0 : Whole m -> Wf h0 (mv m) -> forall ps h r,
  Ext h0 h ->
  (forall p i j, In (p, i, j) ps -> pos_ok m i j /\ 0 <= p < dim r /\ lookup p (vals r) = None) ->
  NoDup (pkeys ps) -> RI h0 h r ->
  exists h' r', copy_loop h m ps r = Some (h', r') /\ Ext h h' /\ RI h0 h' r' /\ dim r' = dim r /\
    (forall q, ~ In q (pkeys ps) -> peek h' r' q = peek h r q) /\
    (forall p i j, In (p, i, j) ps -> peek h' r' p = peek h0 (mv m) (i * mcols m + j)).
Proof.
  intros Wm W0. induction ps as [|[[p i] j] ps IH]; intros h r E H ND R; cbn [copy_loop].
  - exists h, r. split; [reflexivity|]. split; [apply Ext_refl|]. split; [exact R|]. split; [reflexivity|].
    split; [reflexivity|]. intros ? ? ? [].
  - destruct (H p i j (or_introl eq_refl)) as (P & Hp & Lp).
    rewrite (mindex_whole_ok _ _ _ Wm P). set (k := i * mcols m + j).
    assert (in_bounds (mv m) k = true) as ->.
    { pose proof (key_range m i j Wm P). unfold in_bounds. apply andb_true_intro.
      split; [apply Z.leb_le|apply Z.ltb_lt]; unfold k; lia. }
    assert (PK : peek h (mv m) k = peek h0 (mv m) k).
    { destruct E as [e ->]. apply peek_app. exact W0. }
    cbn [pkeys map fst] in ND. inversion ND as [|? ? Np ND']; subst.
    assert (H' : forall p0 i0 j0, In (p0, i0, j0) ps -> pos_ok m i0 j0 /\ 0 <= p0 < dim r /\ lookup p0 (vals r) = None)
      by (intros; apply H; right; assumption).
    rewrite isnull_peek, PK. destruct (peek h0 (mv m) k =? 0) eqn:Z0.
    + apply Z.eqb_eq in Z0.
      destruct (IH h r E H' ND' R) as (h' & r' & A & B & C & D & F & G).
      exists h', r'. split; [exact A|]. split; [exact B|]. split; [exact C|]. split; [exact D|]. split.
      * intros q Hq. apply F. intro X. apply Hq. right. exact X.
      * intros p0 i0 j0 [X|X]; [|apply G; exact X]. inversion X; subst p0 i0 j0. rewrite (F p Np).
        unfold peek. rewrite Lp. fold k. symmetry. exact Z0.
    + apply Z.eqb_neq in Z0. set (x := peek h0 (mv m) k) in *.
      destruct R as (R1 & R2 & R3 & R4).
      assert (A0 : at_ h r p = Some (h ++ [0], {| vals := insert p (length h) (vals r); idx := kins p (idx r); dim := dim r |}, length h)).
      { unfold at_. assert (in_bounds r p = true) as ->.
        { unfold in_bounds. apply andb_true_intro. split; [apply Z.leb_le|apply Z.ltb_lt]; lia. }
        rewrite Lp. reflexivity. }
      rewrite A0. rewrite hset_app_last.
      set (r1 := {| vals := insert p (length h) (vals r); idx := kins p (idx r); dim := dim r |}).
      assert (E1 : Ext h0 (h ++ [x])) by (eapply Ext_trans; [exact E|exists [x]; reflexivity]).
      assert (RI1 : RI h0 (h ++ [x]) r1).
      { split; [apply (Inv_at h r p _ _ _ R1 A0)|]. split.
        - destruct (Wf_at h r p _ _ _ R2 A0) as (X & _). eapply Wf_mono; [|exact X]. rewrite !app_length. cbn. lia.
        - split.
          + intros q l. unfold r1. cbn [vals]. rewrite lookup_insert. destruct (p =? q) eqn:Epq.
            * intro X. inversion X. subst l. split; [apply Ext_len; exact E|]. rewrite hget_app_last. exact Z0.
            * intro X. destruct (R3 q l X) as [Y1 Y2]. split; [exact Y1|].
              rewrite hget_app; [exact Y2|]. destruct R2 as [R2 _]. eapply R2; exact X.
          + intros q. unfold r1. cbn [vals idx]. rewrite kins_In. rewrite lookup_insert. intros [->|X].
            * rewrite Z.eqb_refl. eauto.
            * destruct (p =? q); [eauto|]. apply R4. exact X. }
      assert (H1 : forall p0 i0 j0, In (p0, i0, j0) ps -> pos_ok m i0 j0 /\ 0 <= p0 < dim r1 /\ lookup p0 (vals r1) = None).
      { intros p0 i0 j0 X. destruct (H' p0 i0 j0 X) as (Y1 & Y2 & Y3). split; [exact Y1|]. split; [exact Y2|].
        unfold r1. cbn [vals]. rewrite lookup_insert_neq; [exact Y3|]. intro Q. subst p0. apply Np.
        unfold pkeys. apply in_map_iff. exists (p, i0, j0). split; [reflexivity|exact X]. }
      destruct (IH (h ++ [x]) r1 E1 H1 ND' RI1) as (h' & r' & A & B & C & D & F & G).
      assert (P1 : forall q, q <> p -> peek (h ++ [x]) r1 q = peek h r q).
      { intros q Nq. unfold peek, r1. cbn [vals]. rewrite lookup_insert_neq by congruence.
        destruct (lookup q (vals r)) as [l|] eqn:Lq; [|reflexivity]. apply hget_app. destruct R2 as [R2 _]. eapply R2; exact Lq. }
      exists h', r'. split; [exact A|]. split; [eapply Ext_trans; [exists [x]; reflexivity|exact B]|].
      split; [exact C|]. split; [rewrite D; reflexivity|]. split.
      * intros q Hq. rewrite F by (intro X; apply Hq; right; exact X). apply P1. intro Q. apply Hq. left. symmetry. exact Q.
      * intros p0 i0 j0 [X|X]; [|apply G; exact X]. inversion X; subst p0 i0 j0. rewrite (F p Np).
        unfold peek, r1. cbn [vals]. rewrite lookup_insert_eq. rewrite hget_app_last. reflexivity.
Qed.

Lemma RI_nil h0 h n : 0 <= n -> RI h0 h (nil_vec n).
Proof.
  intro Hn. split.
  - unfold Inv, nil_vec. cbn. repeat split; try constructor; try discriminate; try lia; intros ? [].
  - split; [split; cbn; discriminate|]. split; [cbn; discriminate|]. intros k [].
Qed.

(* the generic statement: positions p = 0 .. n-1 reading the matrix at (fi p, fj p) *)
Lemma copy_positions_spec h m n (fi fj : Z -> Z) : MInv m -> Wf h (mv m) -> 0 <= n ->
  (forall p, 0 <= p < n -> pos_ok m (fi p) (fj p)) ->
  exists h' r, copy_loop h m (map (fun p => (p, fi p, fj p)) (zseq 0 (Z.to_nat n))) (nil_vec n) = Some (h', r) /\
    Ext h h' /\ Inv r /\ Wf h' r /\ dim r = n /\
    abs h' r = map (fun p => del (mabsd h m) (fi p) (fj p)) (zseq 0 (Z.to_nat n)) /\
    (forall k, In k (idx r) <-> peek h' r k <> 0) /\
    (forall k l, lookup k (vals r) = Some l -> (length h <= l)%nat /\ hget h' l <> 0) /\
    mabsd h' m = mabsd h m.
Proof.
  intros [Iv Wm] W Hn HP.
  set (ps := map (fun p => (p, fi p, fj p)) (zseq 0 (Z.to_nat n))).
  assert (PK : pkeys ps = zseq 0 (Z.to_nat n)).
  { unfold pkeys, ps. rewrite map_map. cbn [fst]. apply map_id. }
  destruct (copy_loop_spec m h Wm W ps h (nil_vec n) (Ext_refl h)) as (h' & r & A & B & C & D & F & G).
  - intros p i j X. unfold ps in X. apply in_map_iff in X. destruct X as (p0 & X & Hp0). inversion X; subst.
    apply zseq_In in Hp0. split; [apply HP; lia|]. cbn [dim nil_vec vals lookup]. split; [lia|reflexivity].
  - rewrite PK. apply ProofsMatDense4.NoDup_zseq.
  - apply RI_nil. exact Hn.
  - exists h', r. destruct C as (C1 & C2 & C3 & C4). cbn [dim nil_vec] in D.
    split; [exact A|]. split; [exact B|]. split; [exact C1|]. split; [exact C2|]. split; [exact D|]. split.
    + unfold abs, abs_vec. rewrite D. apply map_ext_in. intros p Hp. apply zseq_In in Hp.
      rewrite (G p (fi p) (fj p)).
      * rewrite del_mabsd. symmetry. apply mget_mabs. apply HP. lia.
      * unfold ps. apply in_map_iff. exists p. split; [reflexivity|]. apply In_zseq. lia.
    + split.
      * intro k. split.
        -- intro X. destruct (C4 k X) as [l L]. unfold peek. rewrite L. apply (C3 k l L).
        -- intro X. destruct (ProofsDSet.peek_nz_lookup h' r k X) as (l & L & _). destruct C1 as (_ & _ & C1 & _). eapply C1; exact L.
      * split; [exact C3|]. destruct B as [e ->]. apply mabsd_app. exact W.
Qed.

(* ---- Row / Col / Diag ---------------------------------------------------------------------- *)
Definition VecReads (h : heap) (m : smat) (h' : heap) (r : svec) (n : Z) (f : Z -> Z) : Prop :=
  (exists e, h' = h ++ e) /\ Inv r /\ Wf h' r /\ dim r = n /\
  abs h' r = map f (zseq 0 (Z.to_nat n)) /\
  (forall k, In k (idx r) <-> peek h' r k <> 0) /\
  (forall k l, lookup k (vals r) = Some l -> (length h <= l)%nat /\ hget h' l <> 0) /\
  mabsd h' m = mabsd h m.

Lemma mrow_spec h m i : MInv m -> Wf h (mv m) -> 0 <= i < mrows m ->
  exists h' r, mrow h m i = Some (h', r) /\ VecReads h m h' r (mcols m) (fun j => del (mabsd h m) i j).
Proof.
  intros I W Hi. pose proof (proj2 I) as Wm. destruct Wm as (W1 & W2 & _).
  destruct (copy_positions_spec h m (mcols m) (fun _ => i) (fun j => j) I W W2) as (h' & r & A & B).
  - intros p Hp. split; lia.
  - exists h', r. split; [exact A|exact B].
Qed.
Lemma mcol_spec h m j : MInv m -> Wf h (mv m) -> 0 <= j < mcols m ->
  exists h' r, mcol h m j = Some (h', r) /\ VecReads h m h' r (mrows m) (fun i => del (mabsd h m) i j).
Proof.
  intros I W Hj. pose proof (proj2 I) as Wm. destruct Wm as (W1 & W2 & _).
  destruct (copy_positions_spec h m (mrows m) (fun i => i) (fun _ => j) I W W1) as (h' & r & A & B).
  - intros p Hp. split; lia.
  - exists h', r. split; [exact A|exact B].
Qed.
Lemma mdiag_spec h m : MInv m -> Wf h (mv m) -> mrows m = mcols m ->
  exists h' r, mdiag h m = Some (h', r) /\ VecReads h m h' r (mrows m) (fun i => del (mabsd h m) i i).
Proof.
  intros I W Sq. pose proof (proj2 I) as Wm. destruct Wm as (W1 & W2 & _).
  destruct (copy_positions_spec h m (mrows m) (fun i => i) (fun i => i) I W W1) as (h' & r & A & B).
  - intros p Hp. split; lia.
  - exists h', r. split; [|exact B]. unfold mdiag. rewrite Sq at 1. rewrite Z.eqb_refl. cbn [negb]. exact A.
Qed.
(* the operations of the world: the payload is the observation of that vector, the world is untouched *)
Lemma mrow_step w t i : MWInv w -> MWWf w -> min_range w (MRow t i) ->
  exists h' r, mstep w (MRow t i) = (w, (K_OK, obs_vec h' r)) /\
    VecReads (mhp w) (getm w t) h' r (mcols (getm w t)) (fun j => del (dmget (mabsw w) t) i j).
Proof.
  intros I W [_ R]. destruct (mrow_spec (mhp w) (getm w t) i (MWInv_getm w t I) (MWWf_getm w t W) R) as (h' & r & A & B).
  exists h', r. cbn [mstep]. rewrite A, dmget_mabsw. split; [reflexivity|exact B].
Qed.
Lemma mcol_step w t j : MWInv w -> MWWf w -> min_range w (MCol t j) ->
  exists h' r, mstep w (MCol t j) = (w, (K_OK, obs_vec h' r)) /\
    VecReads (mhp w) (getm w t) h' r (mrows (getm w t)) (fun i => del (dmget (mabsw w) t) i j).
Proof.
  intros I W [_ R]. destruct (mcol_spec (mhp w) (getm w t) j (MWInv_getm w t I) (MWWf_getm w t W) R) as (h' & r & A & B).
  exists h', r. cbn [mstep]. rewrite A, dmget_mabsw. split; [reflexivity|exact B].
Qed.
Lemma mdiag_step w t : MWInv w -> MWWf w -> min_range w (MDiag t) ->
  exists h' r, mstep w (MDiag t) = (w, (K_OK, obs_vec h' r)) /\
    VecReads (mhp w) (getm w t) h' r (mrows (getm w t)) (fun i => del (dmget (mabsw w) t) i i).
Proof.
  intros I W [_ R]. destruct (mdiag_spec (mhp w) (getm w t) (MWInv_getm w t I) (MWWf_getm w t W) R) as (h' & r & A & B).
  exists h', r. cbn [mstep]. rewrite A, dmget_mabsw. split; [reflexivity|exact B].
Qed.
