(* C11, sparse matrices — the PLAIN DENSE MODEL of the 22 matrix operations of
   ModelMat.mop (a dense matrix = dimensions + list of rows, copy semantics) and
   the abstraction of a whole matrix world.  Spec-level file (short, no proofs):
   PropsMat2.v states  mabsw (mstep w o) = mdstep (mabsw w) o  for every
   operation and  mabsw (mrun minit ops) = mdense_run ops  for every valid
   history of whole matrices.

   Cell sharing.  T() makes the new matrix hold the SAME scalars as the receiver
   (C10's finding F-SPT-REF); a later in-place write through such a scalar is
   seen by both.  As for vectors (Dense.safe) the refinement is stated for
   histories in which every operation that WRITES scalars in place (At(i,j).Set,
   Set, Reset, SetIdentity, Map, MapSet) works on a matrix none of whose scalars
   is held by another matrix ([msafe]).  Operations that only move scalars
   (Swap, SwapRows, SwapColumns, Tip) or read are unrestricted.

   The dimensions are part of the dense matrix (a list of rows alone loses the
   column count of a matrix with 0 rows, which T()/Tip() turn into rows). *)
From Coq Require Import ZArith List Bool Lia.
From ADV Require Import C11.Model C11.Spec C11.Dense C11.ModelMat C11.ProofsMatSpec C11.ProofsMatDense.
Import ListNotations.
Open Scope Z_scope.

Record dmat := { dr : Z; dc : Z; de : list (list Z) }.
Definition dtab (r c : Z) (f : Z -> Z -> Z) : dmat := {| dr := r; dc := c; de := mtab r c f |}.
Definition del (a : dmat) (i j : Z) : Z := mget (de a) i j.
Definition dnull : dmat := {| dr := 0; dc := 0; de := [] |}.

Definition mabsd (h : heap) (m : smat) : dmat := {| dr := mrows m; dc := mcols m; de := mabs h m |}.
Definition dmworld := list dmat.
Definition mabsw (w : mworld) : dmworld := map (mabsd (mhp w)) (mats w).
Definition dmget (d : dmworld) (t : nat) : dmat := nth t d dnull.

(* ---- the dense operations, by element function -------------------------------- *)
Definition dm_set (a : dmat) (i j x : Z) : dmat :=
  dtab (dr a) (dc a) (fun i' j' => if (i' =? i) && (j' =? j) then x else del a i' j').
(* NewSparseXMatrix(rowIndices, colIndices, values, rows, cols) AS CODED: the triples
   are written in order, a later duplicate overwrites an earlier one, but a triple
   whose value is zero is skipped altogether (so (i,j,5),(i,j,0) leaves 5) *)
Definition dm_new (ris cis xs : list Z) (r c : Z) : dmat :=
  fold_left (fun a e => if snd e =? 0 then a else dm_set a (fst (fst e)) (snd (fst e)) (snd e))
            (combine (combine ris cis) xs) (dtab r c (fun _ _ => 0)).
Definition dm_swap (a : dmat) (i1 j1 i2 j2 : Z) : dmat :=
  dtab (dr a) (dc a) (fun i j => if (i =? i1) && (j =? j1) then del a i2 j2
                                else if (i =? i2) && (j =? j2) then del a i1 j1 else del a i j).
(* SwapRows / SwapColumns: an error (nothing happens) unless the matrix is square *)
Definition dm_swap_rows (a : dmat) (i j : Z) : dmat :=
  if negb (dr a =? dc a) then a
  else dtab (dr a) (dc a) (fun i' j' => if i' =? i then del a j j' else if i' =? j then del a i j' else del a i' j').
Definition dm_swap_cols (a : dmat) (i j : Z) : dmat :=
  if negb (dr a =? dc a) then a
  else dtab (dr a) (dc a) (fun i' j' => if j' =? i then del a i' j else if j' =? j then del a i' i else del a i' j').
Definition dm_trans (a : dmat) : dmat := dtab (dc a) (dr a) (fun i j => del a j i).
Definition dm_zero (a : dmat) : dmat := dtab (dr a) (dc a) (fun _ _ => 0).
Definition dm_identity (a : dmat) : dmat := dtab (dr a) (dc a) (fun i j => if i =? j then 1 else 0).
Definition dm_scale (c : Z) (a : dmat) : dmat := dtab (dr a) (dc a) (fun i j => del a i j * c).
Definition dm_dense (r c : Z) (xs : list Z) : dmat := dtab r c (fun i j => nth (Z.to_nat (i * c + j)) xs 0).

Definition mdstep (d : dmworld) (o : mop) : dmworld :=
  match o with
  | NewMat ris cis xs r c => d ++ [dm_new ris cis xs r c]
  | MAt _ _ _ | MConstAt _ _ _ | MIterate _ | MIterPart _ _ | MReduceSum _ | MDims _
  | MRow _ _ | MCol _ _ | MDiag _ => d
  | MSetAt t i j x => upd t (dm_set (dmget d t) i j x) d
  | MSet t (OM u) => upd t (dmget d u) d
  | MSet t (OMD r c xs) => upd t (dm_dense r c xs) d
  | MReset t => upd t (dm_zero (dmget d t)) d
  | MSetIdentity t => upd t (dm_identity (dmget d t)) d
  | MSwap t i1 j1 i2 j2 => upd t (dm_swap (dmget d t) i1 j1 i2 j2) d
  | MSwapRows t i j => upd t (dm_swap_rows (dmget d t) i j) d
  | MSwapColumns t i j => upd t (dm_swap_cols (dmget d t) i j) d
  | MT t => d ++ [dm_trans (dmget d t)]
  | MTip t => upd t (dm_trans (dmget d t)) d
  | MClone t => d ++ [dmget d t]
  | MMapMul t c | MMapSetMul t c => upd t (dm_scale c (dmget d t)) d
  end.
Definition mdense_run (d : dmworld) (ops : list mop) : dmworld := fold_left mdstep ops d.

(* what the reading operations return, on the dense side.  The iteration payload is
   the list of (i, j, x), x <> 0, in row-major order; the abandoned loop reports the
   first n of them.  Row/Col/Diag: the observation of a fresh vector is not given a
   dense reading here (its value part is covered by C03/C10). *)
Definition dm_entries (a : dmat) : list (Z * Z * Z) :=
  filter (fun e => negb (snd e =? 0)) (map (fun p => (p, del a (fst p) (snd p))) (positions (dr a) (dc a))).
Definition flat3 (l : list (Z * Z * Z)) : list Z := flat_map (fun e => [fst (fst e); snd (fst e); snd e]) l.
Definition mdout (d : dmworld) (o : mop) : option (list Z) :=
  match o with
  | MAt t i j | MConstAt t i j => Some [del (dmget d t) i j]
  | MReduceSum t => Some [fold_left (fun r p => r + del (dmget d t) (fst p) (snd p))
                                    (positions (dr (dmget d t)) (dc (dmget d t))) 0]
  | MDims t => Some [dr (dmget d t); dc (dmget d t)]
  | MIterate t => Some (flat3 (dm_entries (dmget d t)))
  | MIterPart t n => Some (flat3 (firstn n (dm_entries (dmget d t))))
  | _ => None
  end.

(* ---- cell sharing ------------------------------------------------------------ *)
Definition mcells (m : smat) : list loc := cells_of (mv m).
Definition munshared (w : mworld) (t : nat) : Prop :=
  forall u l, u <> t -> In l (mcells (getm w t)) -> In l (mcells (getm w u)) -> False.
Definition mwrites_cells (o : mop) : option nat :=
  match o with
  | MSetAt t _ _ _ | MSet t _ | MReset t | MSetIdentity t | MMapMul t _ | MMapSetMul t _ => Some t
  | _ => None
  end.
Definition msafe (w : mworld) (o : mop) : Prop :=
  match mwrites_cells o with Some t => munshared w t | None => True end.
Fixpoint mvalid_safe (w : mworld) (ops : list mop) : Prop :=
  match ops with
  | [] => True
  | o :: r => min_range w o /\ msafe w o /\ mvalid_safe (fst (mstep w o)) r
  end.
(* all cells of all matrices are allocated and no matrix stores a cell twice *)
Definition MWWf (w : mworld) : Prop := Forall (fun m => Wf (mhp w) (mv m)) (mats w).

(* ---- executable versions (used by the correspondence run CorrMat: the dense
        equation is also evaluated on every replayed matrix history) ------------- *)
Definition mhasb (w : mworld) (t : nat) : bool := Nat.ltb t (length (mats w)).
Definition pos_okb (m : smat) (i j : Z) : bool := (0 <=? i) && (i <? mrows m) && (0 <=? j) && (j <? mcols m).
Definition min_rangeb (w : mworld) (o : mop) : bool :=
  match o with
  | NewMat ris cis xs r c =>
      Nat.eqb (length ris) (length cis) && Nat.eqb (length cis) (length xs) && (0 <=? r) && (0 <=? c) &&
      forallb (fun p => (0 <=? fst p) && (fst p <? r) && (0 <=? snd p) && (snd p <? c)) (combine ris cis)
  | MAt t i j | MSetAt t i j _ | MConstAt t i j => mhasb w t && pos_okb (getm w t) i j
  | MSet t (OM u) => mhasb w t && mhasb w u && (mrows (getm w u) =? mrows (getm w t)) &&
                     (mcols (getm w u) =? mcols (getm w t))
  | MSet t (OMD r c xs) => mhasb w t && (r =? mrows (getm w t)) && (c =? mcols (getm w t))
  | MSwap t i1 j1 i2 j2 => mhasb w t && pos_okb (getm w t) i1 j1 && pos_okb (getm w t) i2 j2
  | MSwapRows t i j | MSwapColumns t i j =>
      mhasb w t && (negb (mrows (getm w t) =? mcols (getm w t)) || negb (0 <? mrows (getm w t)) ||
                    ((0 <=? i) && (i <? mrows (getm w t)) && (0 <=? j) && (j <? mrows (getm w t))))
  | MRow t i => mhasb w t && (0 <=? i) && (i <? mrows (getm w t))
  | MCol t j => mhasb w t && (0 <=? j) && (j <? mcols (getm w t))
  | MDiag t => mhasb w t && (mrows (getm w t) =? mcols (getm w t))
  | MReset t | MSetIdentity t | MT t | MTip t | MClone t | MIterate t | MIterPart t _
  | MMapMul t _ | MMapSetMul t _ | MReduceSum t | MDims t => mhasb w t
  end.
Definition munsharedb (w : mworld) (t : nat) : bool :=
  forallb (fun u => Nat.eqb u t ||
                    forallb (fun l => negb (memb l (mcells (getm w u)))) (mcells (getm w t)))
          (seq 0 (length (mats w))).
Definition msafeb (w : mworld) (o : mop) : bool :=
  match mwrites_cells o with Some t => munsharedb w t | None => true end.
Definition dm_eqb (a b : dmat) : bool := (dr a =? dr b) && (dc a =? dc b) && dw_eqb (de a) (de b).
Fixpoint dmw_eqb (a b : dmworld) : bool :=
  match a, b with
  | [], [] => true
  | x :: a', y :: b' => dm_eqb x y && dmw_eqb a' b'
  | _, _ => false
  end.
(* replay a matrix history next to the dense model: position of the first in-range,
   safe operation after which the world (or the value read) is not what the dense
   model says (None = agreement); judging stops at the first out-of-range operation;
   after an in-range but unsafe operation the dense side is resynchronised *)
Fixpoint mdense_diverge (k : nat) (w : mworld) (d : dmworld) (ops : list mop) : option nat :=
  match ops with
  | [] => None
  | o :: r =>
      let '(w', (_, p)) := mstep w o in
      if negb (min_rangeb w o) then None else
      if msafeb w o then
        let d' := mdstep d o in
        if dmw_eqb (mabsw w') d' && match mdout d o with Some q => zl_eqb p q | None => true end
        then mdense_diverge (S k) w' d' r else Some k
      else mdense_diverge (S k) w' (mabsw w') r
  end.
