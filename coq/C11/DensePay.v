(* C11 — dense reading of the three payloads Dense.dout leaves open: the visit
   sequence of the abandoned ConstIterator loop (IterPart) and of the joint
   iterators JOINT_ITERATOR (Joint) / JOINT3_ITERATOR (Joint3).
   Spec-level file: definitions only (proofs: ProofsDPay.v, statements: PropsPay.v).

   What the code does (each point was checked with vm_compute against Model.step
   before proving, see PropsPay.v for the recorded examples):
   * IterPart t m: the first m (position, value) pairs with value <> 0 — stored
     zeros and value-less index keys are never visited (skip() removes them).
   * Joint t o: one visit per position i, ascending, at which one of the two
     participants stops:  [i; present; a; b]  with a = receiver value, b = operand
     value at i.
       - the receiver (a sparse ITERATOR with skip()) stops exactly where a <> 0;
         hence "present" (s1 != nil) is 1 iff a <> 0: a receiver entry holding a
         STORED ZERO is reported as absent (present = 0, a = 0) — it has been
         deleted by skip() by the time the joint iterator gets there;
       - a SPARSE operand u stops exactly where b <> 0 (its ConstIterator also runs
         skip()), so positions where both are zero are not visited at all; where
         only the receiver stops, s2 == nil is replaced by the constant 0 = b;
       - a DENSE operand stops at EVERY position 0..n-1, zeros included: the
         payload has exactly n visits, [i; 0; 0; 0] where everything is zero;
       - u = t (operand is the receiver itself): both cursors walk the same vector,
         the visits are [i; 1; a; a] at the non-zero positions — no special case.
   * Joint3 t o2 o3: the same with three participants, [i; present; a; b; c]; a
     position is visited iff the receiver or one of the two operands stops there. *)
From Coq Require Import ZArith List Bool Lia.
From ADV Require Import C11.Model C11.Spec C11.Dense.
Import ListNotations.
Open Scope Z_scope.

Definition nzb (x : Z) : bool := negb (x =? 0).
(* value of an operand at position i *)
Definition dval (d : dworld) (o : operand) (i : Z) : Z := nth (Z.to_nat i) (doperand d o) 0.
(* does the ConstIterator of the operand stop at position i (< n)? *)
Definition dstops (d : dworld) (o : operand) (i : Z) : bool :=
  match o with OS _ => nzb (dval d o i) | OD _ => true end.

Definition djoint (d : dworld) (t : nat) (o : operand) : list Z :=
  flat_map (fun i => let a := nth (Z.to_nat i) (dget d t) 0 in
                     if nzb a || dstops d o i then [i; b2z (nzb a); a; dval d o i] else [])
           (zseq 0 (length (dget d t))).
Definition djoint3 (d : dworld) (t : nat) (o2 o3 : operand) : list Z :=
  flat_map (fun i => let a := nth (Z.to_nat i) (dget d t) 0 in
                     if nzb a || dstops d o2 i || dstops d o3 i
                     then [i; b2z (nzb a); a; dval d o2 i; dval d o3 i] else [])
           (zseq 0 (length (dget d t))).

(* the dense reading of EVERY reading operation: Dense.dout extended *)
Definition dout2 (d : dworld) (o : op) : option (list Z) :=
  match o with
  | IterPart t m => Some (flat2 (firstn m (nonzero (dget d t))))
  | Joint t o => Some (djoint d t o)
  | Joint3 t o2 o3 => Some (djoint3 d t o2 o3)
  | _ => dout d o
  end.

(* Dense.dense_diverge with dout2 in place of dout (for the correspondence run) *)
Fixpoint dense_diverge2 (k : nat) (w : world) (d : dworld) (ops : list op) : option nat :=
  match ops with
  | [] => None
  | o :: r =>
      let '(w', (_, p)) := step w o in
      if negb (in_rangeb w o) then None else
      if safeb w o then
        let d' := dstep d o in
        if dw_eqb (absw w') d' && match dout2 d o with Some q => zl_eqb p q | None => true end
        then dense_diverge2 (S k) w' d' r else Some k
      else dense_diverge2 (S k) w' (absw w') r
  end.
