(* C11, sparse matrices — refinement to the PLAIN DENSE MATRIX (list of rows),
   operation by operation:  mabs h' m' = D (mabs h m)  together with the
   preservation of the well-formedness Wf h (mv m) of the `values` vector
   (cells allocated, no cell twice).  Built on the vector-level machinery of
   ProofsD1/D2/D3. *)
From Coq Require Import ZArith List Bool Lia Sorted.
From ADV Require Import C11.Model C11.Spec C11.Dense C11.ProofsMap C11.ProofsIter C11.ProofsInv C11.ProofsRef
                        C11.ProofsD1 C11.ProofsD2 C11.ProofsD3
                        C11.ModelMat C11.ProofsMatSpec C11.ProofsMat C11.ProofsMatRef.
Import ListNotations.
Open Scope Z_scope.

(* ---- dense matrices as tables ------------------------------------------------------ *)
Definition mtab (r c : Z) (f : Z -> Z -> Z) : list (list Z) :=
  map (fun i => map (fun j => f i j) (zseq 0 (Z.to_nat c))) (zseq 0 (Z.to_nat r)).
(* the dense operations *)
Definition dzero (a : list (list Z)) : list (list Z) := map (map (fun _ : Z => 0)) a.
Definition dscale (c : Z) (a : list (list Z)) : list (list Z) := map (map (fun x => x * c)) a.
Definition dtrans (r c : Z) (a : list (list Z)) : list (list Z) := mtab c r (fun i j => mget a j i).
Definition ddense (r c : Z) (xs : list Z) : list (list Z) := mtab r c (fun i j => nth (Z.to_nat (i * c + j)) xs 0).

Lemma mabs_mtab h m : mabs h m = mtab (mrows m) (mcols m) (fun i j => peek h (mv m) (i * mcols m + j)).
Proof. reflexivity. Qed.
Lemma didentity_mtab r c : didentity r c = mtab r c (fun i j => if i =? j then 1 else 0).
Proof. reflexivity. Qed.
Lemma mtab_ext r c f g :
  (forall i j, 0 <= i < r -> 0 <= j < c -> f i j = g i j) -> mtab r c f = mtab r c g.
Proof.
  intro H. unfold mtab. apply map_ext_in. intros i Hi. apply map_ext_in. intros j Hj.
  apply zseq_In in Hi. apply zseq_In in Hj. apply H; lia.
Qed.
Lemma mget_mtab r c f i j : 0 <= i < r -> 0 <= j < c -> mget (mtab r c f) i j = f i j.
Proof. intros Hi Hj. unfold mget, mtab. rewrite nth_map_zseq by lia. rewrite nth_map_zseq by lia. reflexivity. Qed.
Lemma map_map_mtab (g : Z -> Z) r c f : map (map g) (mtab r c f) = mtab r c (fun i j => g (f i j)).
Proof. unfold mtab. rewrite map_map. apply map_ext. intro i. rewrite map_map. reflexivity. Qed.

(* workhorse: a matrix stands for the table F *)
Lemma mabs_by_peek h m (F : Z -> Z -> Z) :
  (forall i j, pos_ok m i j -> peek h (mv m) (i * mcols m + j) = F i j) ->
  mabs h m = mtab (mrows m) (mcols m) F.
Proof. intro H. rewrite mabs_mtab. apply mtab_ext. intros. apply H. split; auto. Qed.
Lemma key_range m i j : Whole m -> pos_ok m i j -> 0 <= i * mcols m + j < dim (mv m).
Proof. intros (H1 & H2 & H3 & H4 & H5 & H6 & H7) [Pi Pj]. rewrite H7. apply pos_bound; auto. Qed.

(* ---- (3) Clone ------------------------------------------------------------------------ *)
Lemma mclone_refines h m :
  MInv m -> Wf h (mv m) ->
  let h' := fst (clone h (mv m)) in let m' := set_mv m (snd (clone h (mv m))) in
  mabs h' m' = mabs h m /\ Wf h' (mv m') /\ MInv m' /\ (exists e, h' = h ++ e) /\
  (forall l, In l (cells_of (mv m')) -> (length h <= l)%nat).
Proof.
  intros [I W] Wf0. cbv zeta. cbn [mv set_mv].
  destruct (Wf_clone h (mv m) I Wf0) as [B1 B2]. destruct (clone_idx_dim h (mv m)) as [_ D].
  split; [|split; [auto|split; [|split; [apply clone_heap; auto|auto]]]].
  - rewrite (mabs_by_peek _ (set_mv m (snd (clone h (mv m)))) (fun i j => peek h (mv m) (i * mcols m + j))).
    + reflexivity.
    + intros i j _. cbn [mv set_mv mcols]. apply clone_peek; auto.
  - apply MInv_set_mv; [split; auto| |auto]. apply Inv_clone; auto.
Qed.

(* ---- (4) T(): transposition ------------------------------------------------------------ *)
Lemma t_loop_lookup src es : forall m0 m',
  Whole src -> MInv m0 -> mrows m0 = mcols src -> mcols m0 = mrows src ->
  (forall k l, In (k, l) es -> 0 <= k < dim (mv src)) -> NoDup (map fst es) ->
  t_loop src es m0 = Some m' ->
  forall i j, pos_ok src i j ->
    lookup (j * mrows src + i) (vals (mv m')) =
    match lookup (i * mcols src + j) es with Some l => Some l | None => lookup (j * mrows src + i) (vals (mv m0)) end.
Proof.
  induction es as [|[ka la] es IH]; intros m0 m' Ws I0 Dr Dc R ND; cbn [t_loop].
  - intro E. inversion E. subst. intros. reflexivity.
  - destruct (mij src ka) as [ia ja] eqn:Ea.
    destruct (mindex m0 ja ia) as [k2|] eqn:E2; [|discriminate].
    intros E i j P. destruct I0 as [I0 W0].
    destruct (index_mij _ _ _ _ Ws (R ka la (or_introl eq_refl)) Ea) as [Pa Ka].
    destruct (mindex_whole _ _ _ _ W0 E2) as (P2 & K2 & R2). rewrite Dc in K2.
    cbn [map fst] in ND. apply NoDup_cons_iff in ND. destruct ND as [Hn ND'].
    set (m1 := set_mv m0 {| vals := insert k2 la (vals (mv m0)); idx := kins k2 (idx (mv m0)); dim := dim (mv m0) |}) in *.
    assert (I1 : MInv m1) by (apply MInv_set_mv; [split; auto|apply Inv_add; auto|reflexivity]).
    assert (R' : forall k l, In (k, l) es -> 0 <= k < dim (mv src)) by (intros k l Hin; apply (R k l); right; auto).
    rewrite (IH m1 m' Ws I1 Dr Dc R' ND' E i j P).
    cbn [lookup]. destruct (ka =? i * mcols src + j) eqn:Ek.
    + apply Z.eqb_eq in Ek.
      assert (lookup (i * mcols src + j) es = None) as ->.
      { destruct (lookup (i * mcols src + j) es) eqn:L; auto. exfalso. apply Hn. rewrite Ek.
        eapply lookup_In_keys; eauto. }
      rewrite Ek in Ea. rewrite (mij_index _ _ _ Ws P) in Ea. inversion Ea. subst ia ja.
      unfold m1. cbn [mv set_mv vals]. rewrite K2. apply lookup_insert_eq.
    + destruct (lookup (i * mcols src + j) es); auto.
      unfold m1. cbn [mv set_mv vals]. apply lookup_insert_neq.
      intro Hk. apply Z.eqb_neq in Ek. apply Ek. rewrite Ka.
      assert (Pt : pos_ok m0 j i) by (unfold pos_ok in *; rewrite Dr, Dc; tauto).
      pose proof (key_eqb m0 ja ia j i W0 P2 Pt) as KE. rewrite Dc in KE.
      rewrite <- K2, Hk, Z.eqb_refl in KE. symmetry in KE. apply andb_prop in KE.
      destruct KE as [A B]. apply Z.eqb_eq in A, B. subst. reflexivity.
Qed.
Lemma t_loop_total src es : forall m0,
  Whole src -> MInv m0 -> mrows m0 = mcols src -> mcols m0 = mrows src ->
  (forall k l, In (k, l) es -> 0 <= k < dim (mv src)) -> exists m', t_loop src es m0 = Some m'.
Proof.
  induction es as [|[ka la] es IH]; intros m0 Ws I0 Dr Dc R; cbn [t_loop]; [eauto|].
  destruct (mij src ka) as [ia ja] eqn:Ea.
  destruct (index_mij _ _ _ _ Ws (R ka la (or_introl eq_refl)) Ea) as [Pa Ka].
  assert (Pt : pos_ok m0 ja ia) by (unfold pos_ok in *; rewrite Dr, Dc; tauto).
  destruct I0 as [I0 W0]. rewrite (mindex_whole_ok _ _ _ W0 Pt).
  apply IH; auto.
  - apply MInv_set_mv; [split; auto| |reflexivity]. apply Inv_add; auto. apply key_range; auto.
  - intros k l Hin. apply (R k l). right. auto.
Qed.
Lemma mtrans_refines h m :
  MInv m -> Wf h (mv m) ->
  exists m', mtrans m = Some m' /\ MInv m' /\ mdims m' = (mcols m, mrows m) /\
    mabs h m' = dtrans (mrows m) (mcols m) (mabs h m) /\ Wf h (mv m') /\
    (forall l, In l (cells_of (mv m')) -> In l (cells_of (mv m))).
Proof.
  intros [I W] Wf0. pose proof W as (H1 & H2 & H3 & H4 & H5 & H6 & H7).
  set (m0 := {| mv := nil_vec (dim (mv m)); mrows := mcols m; mcols := mrows m;
                roff := coff m; rmax := cmax m; coff := roff m; cmax := rmax m |}).
  assert (I0 : MInv m0).
  { split; [apply Inv_nil; apply I|]. unfold Whole, m0. cbn. repeat split; auto. rewrite H7. ring. }
  assert (R : forall k l, In (k, l) (vals (mv m)) -> 0 <= k < dim (mv m)).
  { intros k l Hin. apply I. destruct I as (_ & ND & Hd & _). eapply Hd. apply In_pair_lookup; eauto. }
  assert (ND : NoDup (map fst (vals (mv m)))) by apply I.
  destruct (t_loop_total m (vals (mv m)) m0 W I0 eq_refl eq_refl R) as [m' E].
  exists m'. unfold mtrans. fold m0. split; [exact E|].
  destruct (t_loop_MInv _ _ _ _ I0 E) as [I' D']. change (mdims m0) with (mcols m, mrows m) in D'.
  assert (Dr : mrows m' = mcols m) by (inversion D'; auto).
  assert (Dc : mcols m' = mrows m) by (inversion D'; auto).
  pose proof (t_loop_lookup m (vals (mv m)) m0 m' W I0 eq_refl eq_refl R ND E) as LK.
  assert (LK' : forall i j, pos_ok m i j ->
            lookup (j * mrows m + i) (vals (mv m')) = lookup (i * mcols m + j) (vals (mv m))).
  { intros i j P. rewrite (LK i j P). cbn [m0 mv nil_vec vals lookup].
    destruct (lookup (i * mcols m + j) (vals (mv m))); auto. }
  split; [auto|split; [auto|split; [|split]]].
  - rewrite mabs_mtab. unfold dtrans. rewrite Dr, Dc. apply mtab_ext. intros i j Hi Hj.
    rewrite mget_mabs by (split; auto). unfold peek. rewrite (LK' j i) by (split; auto). reflexivity.
  - (* Wf *)
    destruct I' as [Iv' W']. destruct Wf0 as [Wa Wb].
    assert (KEY : forall k l, lookup k (vals (mv m')) = Some l ->
              exists i j, pos_ok m i j /\ k = j * mrows m + i /\ lookup (i * mcols m + j) (vals (mv m)) = Some l).
    { intros k l L. assert (Hk : 0 <= k < dim (mv m')) by (apply Iv'; destruct Iv' as (_ & _ & Hd & _); eauto).
      destruct (mij m' k) as [j i] eqn:Ek. destruct (index_mij _ _ _ _ W' Hk Ek) as [P K].
      assert (P' : pos_ok m i j) by (unfold pos_ok in *; rewrite Dr, Dc in P; tauto).
      exists i, j. rewrite Dc in K. split; auto. split; auto. rewrite <- (LK' i j P'), <- K. auto. }
    split.
    + intros k l L. destruct (KEY k l L) as (i & j & _ & _ & L0). eauto.
    + intros k1 k2 l L1 L2. destruct (KEY k1 l L1) as (i1 & j1 & P1 & K1 & M1).
      destruct (KEY k2 l L2) as (i2 & j2 & P2 & K2 & M2).
      pose proof (Wb _ _ _ M1 M2) as EQ.
      pose proof (key_eqb m i2 j2 i1 j1 W P2 P1) as KE. rewrite EQ, Z.eqb_refl in KE.
      symmetry in KE. apply andb_prop in KE. destruct KE as [A B]. apply Z.eqb_eq in A, B. subst. reflexivity.
  - intros l Hin. apply In_cells_lookup in Hin; [|apply I']. destruct Hin as [k L].
    assert (Hk : 0 <= k < dim (mv m')) by (destruct I' as [(_ & _ & Hd & Hr & _) _]; eauto).
    destruct I' as [Iv' W']. destruct (mij m' k) as [j i] eqn:Ek. destruct (index_mij _ _ _ _ W' Hk Ek) as [P K].
    assert (P' : pos_ok m i j) by (unfold pos_ok in *; rewrite Dr, Dc in P; tauto).
    rewrite Dc in K. rewrite K, (LK' i j P') in L. eapply lookup_In_cells; eauto.
Qed.

(* ---- one AT(i,j) followed by a write to the cell ---------------------------------------- *)
Lemma mat_at_write h m i j h1 m1 l x :
  MInv m -> Wf h (mv m) -> mat_at h m i j = Some (h1, m1, l) ->
  MInv m1 /\ Wf (hset h1 l x) (mv m1) /\ mdims m1 = mdims m /\ (length h <= length (hset h1 l x))%nat /\
  pos_ok m i j /\
  (forall k, peek (hset h1 l x) (mv m1) k = if k =? i * mcols m + j then x else peek h (mv m) k) /\
  (forall l', (l' < length h)%nat -> ~ In l' (cells_of (mv m)) -> hget (hset h1 l x) l' = hget h l') /\
  (forall l', In l' (cells_of (mv m1)) -> In l' (cells_of (mv m)) \/ (length h <= l')%nat) /\
  hget h1 l = peek h (mv m) (i * mcols m + j).
Proof.
  intros MI Wf0 A. pose proof (MInv_mat_at _ _ _ _ _ _ _ MI A) as I1. pose proof (mat_at_dims _ _ _ _ _ _ _ A) as D1.
  destruct MI as [I W]. unfold mat_at in A. destruct (mindex m i j) as [k0|] eqn:Ek; [|discriminate].
  destruct (at_ h (mv m) k0) as [[[h2 v2] l2]|] eqn:A2; [|discriminate].
  inversion A. subst h2 m1 l2. clear A. cbn [mv set_mv] in *.
  destruct (mindex_whole _ _ _ _ W Ek) as (P & Kk & Kr). subst k0.
  destruct (Wf_at _ _ _ _ _ _ Wf0 A2) as (Wv & Lh & Ll & Lk).
  split; [auto|]. split; [|split; [auto|split; [rewrite hset_length; auto|split; [auto|split; [|split; [|split]]]]]].
  - eapply Wf_mono; [|exact Wv]. rewrite hset_length. auto.
  - intro k. apply (peek_set_at _ _ _ _ _ _ _ _ I Wf0 A2).
  - intros l' Hl' Hn. destruct (at_shape _ _ _ _ _ _ A2) as [(E1 & E2 & E3)|(E1 & E2 & E3 & E4)].
    + subst h1 v2. rewrite hget_hset_neq; auto. intro. subst l'. apply Hn. eapply lookup_In_cells; eauto.
    + subst h1 l. rewrite hget_hset_neq by lia. apply hget_app. auto.
  - intros l' Hin. destruct (at_shape _ _ _ _ _ _ A2) as [(E1 & E2 & E3)|(E1 & E2 & E3 & E4)].
    + subst v2. auto.
    + subst l. apply In_cells_lookup in Hin; [|apply I1]. destruct Hin as [k L].
      destruct (Z.eq_dec k (i * mcols m + j)) as [->|Ne].
      * rewrite Lk in L. inversion L. right. lia.
      * left. (* the entry at k <> index(i,j) is an old entry *)
        rewrite E4 in L. cbn [vals] in L. rewrite lookup_insert_neq in L by auto. eapply lookup_In_cells; eauto.
  - destruct (at_shape _ _ _ _ _ _ A2) as [(E1 & E2 & E3)|(E1 & E2 & E3 & E4)].
    + subst h1. unfold peek. rewrite E3. reflexivity.
    + subst h1 l. unfold peek. rewrite E3. unfold hget. rewrite app_nth2, Nat.sub_diag; auto.
Qed.

(* ---- lists of AT(i,j) writes: set_list (SetIdentity loop 2, Set loop 2 dense, constructor), map_list (Map) *)
Fixpoint wr_fun (c : Z) (es : list (Z * Z * Z)) (F : Z -> Z) : Z -> Z :=
  match es with
  | [] => F
  | (i, j, x) :: r => wr_fun c r (fun k => if k =? i * c + j then x else F k)
  end.
Fixpoint mp_fun (f : Z -> Z) (c : Z) (ps : list (Z * Z)) (F : Z -> Z) : Z -> Z :=
  match ps with
  | [] => F
  | (i, j) :: r => mp_fun f c r (fun k => if k =? i * c + j then f (F k) else F k)
  end.
Definition WrPost (h : heap) (m : smat) (h' : heap) (m' : smat) (G : Z -> Z) : Prop :=
  MInv m' /\ Wf h' (mv m') /\ mdims m' = mdims m /\ (length h <= length h')%nat /\
  (forall k, peek h' (mv m') k = G k) /\
  (forall l', (l' < length h)%nat -> ~ In l' (cells_of (mv m)) -> hget h' l' = hget h l') /\
  (forall l', In l' (cells_of (mv m')) -> In l' (cells_of (mv m)) \/ (length h <= l')%nat).
Lemma wr_fun_ext c es : forall (A B : Z -> Z), (forall k, A k = B k) -> forall k, wr_fun c es A k = wr_fun c es B k.
Proof.
  induction es as [|[[a b] y] r IH]; intros A B H k; cbn [wr_fun]; auto.
  apply IH. intro k0. rewrite H. auto.
Qed.
Lemma mp_fun_ext f c ps : forall (A B : Z -> Z), (forall k, A k = B k) -> forall k, mp_fun f c ps A k = mp_fun f c ps B k.
Proof.
  induction ps as [|[a b] r IH]; intros A B H k; cbn [mp_fun]; auto.
  apply IH. intro k0. rewrite !H. auto.
Qed.
Lemma WrPost_step h m h2 m1 h' m' G G' :
  MInv m1 -> Wf h2 (mv m1) -> mdims m1 = mdims m -> (length h <= length h2)%nat ->
  (forall l', (l' < length h)%nat -> ~ In l' (cells_of (mv m)) -> hget h2 l' = hget h l') ->
  (forall l', In l' (cells_of (mv m1)) -> In l' (cells_of (mv m)) \/ (length h <= l')%nat) ->
  WrPost h2 m1 h' m' G -> (forall k, G k = G' k) -> WrPost h m h' m' G'.
Proof.
  intros I1 W1 D1 L1 F1 C1 (A & B & C & D & E & F & H) EG. unfold WrPost.
  split; auto. split; auto. split; [congruence|]. split; [lia|]. split; [intro k; rewrite E; auto|]. split.
  - intros l' Hl Hn. rewrite F; [apply F1; auto|lia|]. intro Hin. apply C1 in Hin. destruct Hin; [tauto|lia].
  - intros l' Hin. apply H in Hin. destruct Hin as [Hin|Hin]; [apply C1 in Hin; tauto|right; lia].
Qed.
Lemma WrPost_refl h m : MInv m -> Wf h (mv m) -> WrPost h m h m (peek h (mv m)).
Proof.
  intros I W. unfold WrPost.
  split; [exact I|split; [exact W|split; [reflexivity|split; [lia|split; [reflexivity|split; [auto|auto]]]]]].
Qed.
Lemma set_list_spec es : forall h m h' m' ok,
  MInv m -> Wf h (mv m) -> set_list es h m = (h', m', ok) ->
  (Forall (fun e => pos_ok m (fst (fst e)) (snd (fst e))) es -> ok = true) /\
  (ok = true -> WrPost h m h' m' (wr_fun (mcols m) es (peek h (mv m)))).
Proof.
  induction es as [|[[i j] x] es IH]; intros h m h' m' ok MI Wf0; cbn [set_list wr_fun].
  - intro E. inversion E. subst. split; auto. intros _. apply WrPost_refl; auto.
  - destruct (mat_at h m i j) as [[[h1 m1] l]|] eqn:A.
    + destruct (mat_at_write _ _ _ _ _ _ _ x MI Wf0 A) as (I1 & W1 & D1 & L1 & P & PK & FR & CL & _).
      intro E. destruct (IH _ _ _ _ _ I1 W1 E) as [T S].
      assert (Dc : mcols m1 = mcols m) by (inversion D1; auto).
      assert (Dr : mrows m1 = mrows m) by (inversion D1; auto). split.
      * intro F. inversion F as [|? ? _ Fr]; subst. apply T. eapply Forall_impl; [|exact Fr].
        intros e. unfold pos_ok. rewrite Dr, Dc. auto.
      * intro Ok. specialize (S Ok). eapply WrPost_step; eauto. rewrite Dc.
        apply wr_fun_ext. exact PK.
    + intro E. inversion E. subst h' m' ok. split; [|discriminate].
      intro F. inversion F as [|? ? Pe _]; subst. cbn [fst snd] in Pe.
      destruct (mat_at_in_range_ok h m i j (proj2 MI) Pe) as (? & ? & ? & A'). congruence.
Qed.
Lemma map_list_spec f ps : forall h m h' m' ok,
  MInv m -> Wf h (mv m) -> map_list f ps h m = (h', m', ok) ->
  (Forall (fun p => pos_ok m (fst p) (snd p)) ps -> ok = true) /\
  (ok = true -> WrPost h m h' m' (mp_fun f (mcols m) ps (peek h (mv m)))).
Proof.
  induction ps as [|[i j] ps IH]; intros h m h' m' ok MI Wf0; cbn [map_list mp_fun].
  - intro E. inversion E. subst. split; auto. intros _. apply WrPost_refl; auto.
  - destruct (mat_at h m i j) as [[[h1 m1] l]|] eqn:A.
    + destruct (mat_at_write _ _ _ _ _ _ _ (f (hget h1 l)) MI Wf0 A) as (I1 & W1 & D1 & L1 & P & PK & FR & CL & HV).
      intro E. destruct (IH _ _ _ _ _ I1 W1 E) as [T S].
      assert (Dc : mcols m1 = mcols m) by (inversion D1; auto).
      assert (Dr : mrows m1 = mrows m) by (inversion D1; auto). split.
      * intro F. inversion F as [|? ? _ Fr]; subst. apply T. eapply Forall_impl; [|exact Fr].
        intros e. unfold pos_ok. rewrite Dr, Dc. auto.
      * intro Ok. specialize (S Ok). eapply WrPost_step; eauto. rewrite Dc.
        apply mp_fun_ext. intro k. rewrite PK. destruct (k =? i * mcols m + j) eqn:Ek; auto.
        apply Z.eqb_eq in Ek. subst k. rewrite HV. reflexivity.
    + intro E. inversion E. subst h' m' ok. split; [|discriminate].
      intro F. inversion F as [|? ? Pe _]; subst. cbn [fst snd] in Pe.
      destruct (mat_at_in_range_ok h m i j (proj2 MI) Pe) as (? & ? & ? & A'). congruence.
Qed.
