(* C11, sparse matrices — the abstract specification used by ProofsMat*.v and
   PropsMat.v (definitions only, no proofs): the matrix invariant, the dense
   abstraction (list of rows), in-range operations and valid histories. *)
From Coq Require Import ZArith List Bool Lia Sorted.
From ADV Require Import C11.Model C11.Spec C11.ModelMat.
Import ListNotations.
Open Scope Z_scope.

(* header of a WHOLE matrix (what constructors, Clone, T, Tip produce) *)
Definition Whole (m : smat) : Prop :=
  0 <= mrows m /\ 0 <= mcols m /\ roff m = 0 /\ coff m = 0 /\
  rmax m = mrows m /\ cmax m = mcols m /\ dim (mv m) = mrows m * mcols m.
(* coherence of a sparse matrix: its `values` vector is coherent (C11.Spec.Inv) and
   has exactly the length the header promises *)
Definition MInv (m : smat) : Prop := Inv (mv m) /\ Whole m.
Definition MWInv (w : mworld) : Prop := Forall MInv (mats w).

(* the plain dense matrix a sparse matrix stands for: list of rows *)
Definition mabs (h : heap) (m : smat) : list (list Z) :=
  map (fun i => map (fun j => peek h (mv m) (i * mcols m + j)) (zseq 0 (Z.to_nat (mcols m))))
      (zseq 0 (Z.to_nat (mrows m))).
Definition mget (a : list (list Z)) (i j : Z) : Z := nth (Z.to_nat j) (nth (Z.to_nat i) a []) 0.

Definition pos_ok (m : smat) (i j : Z) : Prop := 0 <= i < mrows m /\ 0 <= j < mcols m.
Definition mhas (w : mworld) (t : nat) : Prop := (t < length (mats w))%nat.

Definition min_range (w : mworld) (o : mop) : Prop :=
  match o with
  | NewMat ris cis xs r c =>
      length ris = length cis /\ length cis = length xs /\ 0 <= r /\ 0 <= c /\
      Forall (fun p => 0 <= fst p < r /\ 0 <= snd p < c) (combine ris cis)
  | MAt t i j | MSetAt t i j _ | MConstAt t i j => mhas w t /\ pos_ok (getm w t) i j
  | MSet t (OM u) => mhas w t /\ mhas w u /\
                     mrows (getm w u) = mrows (getm w t) /\ mcols (getm w u) = mcols (getm w t)
  | MSet t (OMD r c xs) => mhas w t /\ r = mrows (getm w t) /\ c = mcols (getm w t)
  | MSwap t i1 j1 i2 j2 => mhas w t /\ pos_ok (getm w t) i1 j1 /\ pos_ok (getm w t) i2 j2
  | MSwapRows t i j | MSwapColumns t i j =>
      (* a non-square receiver is answered by an error and nothing happens *)
      mhas w t /\ (mrows (getm w t) = mcols (getm w t) -> 0 < mrows (getm w t) ->
                   0 <= i < mrows (getm w t) /\ 0 <= j < mrows (getm w t))
  | MRow t i => mhas w t /\ 0 <= i < mrows (getm w t)
  | MCol t j => mhas w t /\ 0 <= j < mcols (getm w t)
  | MDiag t => mhas w t /\ mrows (getm w t) = mcols (getm w t)
  | MReset t | MSetIdentity t | MT t | MTip t | MClone t | MIterate t | MIterPart t _
  | MMapMul t _ | MMapSetMul t _ | MReduceSum t | MDims t => mhas w t
  end.
Fixpoint mvalid (w : mworld) (ops : list mop) : Prop :=
  match ops with
  | [] => True
  | o :: r => min_range w o /\ mvalid (fst (mstep w o)) r
  end.

(* what an iteration reports: ((i, j), value) *)
Definition mvisits (h : heap) (m : smat) (s : list (Z * loc)) : list ((Z * Z) * Z) :=
  map (fun kl => (mij m (fst kl), hget h (snd kl))) s.
(* row-major order of positions *)
Definition lexlt (p q : Z * Z) : Prop := fst p < fst q \/ (fst p = fst q /\ snd p < snd q).

(* dense matrix operations (lists of rows) *)
Definition didentity (r c : Z) : list (list Z) :=
  map (fun i => map (fun j => if i =? j then 1 else 0) (zseq 0 (Z.to_nat c))) (zseq 0 (Z.to_nat r)).
Definition mdims (m : smat) : Z * Z := (mrows m, mcols m).
