(* C11, sparse matrices — dense refinement of EVERY operation, of every step of a
   world of matrices and of whole histories (statements only; proofs in
   ProofsMatDense4.v, ProofsMatTip.v, ProofsMatSet.v, ProofsMatWorld.v,
   ProofsMatOut.v).  This completes PropsMat.mat_refinement_single_step_partial.
   Model: ModelMat.v (matrix_sparse_template.in, whole matrices — views are C10's
   subject and its findings); dense side: DenseMat.v (dimensions + list of rows,
   copy semantics).  All statements quantify over all matrices / worlds /
   histories, no bounds.  Premises: MInv/MWInv (coherence, holds in every state
   reachable by an in-range history: PropsMat.mat_inv_all_histories), Wf/MWWf
   (cells allocated, no cell stored twice in one matrix: kept by every step, see
   1 below), min_range (arguments in range), msafe (in-place writes go to a
   matrix that shares no scalar with another one: T() shares, C10 F-SPT-REF). *)
From Coq Require Import ZArith List Bool Lia.
From ADV Require Import C11.Model C11.Spec C11.Dense C11.ModelMat C11.ProofsMatSpec C11.ProofsMat
                        C11.ProofsMatDense C11.ProofsMatDense2 C11.DenseMat
                        C11.ProofsMatDense4 C11.ProofsMatTip C11.ProofsMatSet C11.ProofsMatWorld
                        C11.ProofsMatOut C11.ProofsMatEx.
Import ListNotations.
Open Scope Z_scope.

(* ---- 0. the operations PropsMat.v left open, one matrix at a time ----------------- *)
(* Map / MapSet (x -> x*c): every entry is created; the result is the scaled matrix *)
Theorem mat_map_refines : forall h m c, MInv m -> Wf h (mv m) ->
  exists h' m', map_list (fun x => x * c) (positions (mrows m) (mcols m)) h m = (h', m', true) /\
    mabsd h' m' = dm_scale c (mabsd h m) /\ MPost h m h' m'.
Proof. exact mmap_refines. Qed.
(* the constructor AS CODED: triples written in order, a later duplicate overwrites an
   earlier one, a triple with value zero is skipped altogether (DenseMat.dm_new) *)
Theorem mat_constructor_refines : forall h ris cis xs r c,
  length ris = length cis -> length cis = length xs -> 0 <= r -> 0 <= c ->
  Forall (fun p => 0 <= fst p < r /\ 0 <= snd p < c) (combine ris cis) ->
  exists h' m', new_mat h ris cis xs r c = Some (h', m') /\ mabsd h' m' = dm_new ris cis xs r c /\
    MInv m' /\ Wf h' (mv m') /\ (exists e, h' = h ++ e) /\ (forall l, In l (mcells m') -> (length h <= l)%nat).
Proof. exact new_mat_refines. Qed.
(* SwapRows / SwapColumns: whole rows / columns are exchanged, stored or not; an error
   and no change for a non-square matrix; only the cells move *)
Theorem mat_swap_rows_refines : forall h m i j, MInv m -> Wf h (mv m) ->
  (mrows m = mcols m -> 0 < mrows m -> 0 <= i < mrows m /\ 0 <= j < mrows m) ->
  exists m', mswap_rows m i j = (m', if mrows m =? mcols m then K_OK else K_ERR) /\
    mabsd h m' = dm_swap_rows (mabsd h m) i j /\ MInv m' /\ Wf h (mv m') /\
    (forall l, In l (mcells m') <-> In l (mcells m)).
Proof. exact mswap_rows_refines. Qed.
Theorem mat_swap_cols_refines : forall h m i j, MInv m -> Wf h (mv m) ->
  (mrows m = mcols m -> 0 < mrows m -> 0 <= i < mrows m /\ 0 <= j < mrows m) ->
  exists m', mswap_cols m i j = (m', if mrows m =? mcols m then K_OK else K_ERR) /\
    mabsd h m' = dm_swap_cols (mabsd h m) i j /\ MInv m' /\ Wf h (mv m') /\
    (forall l, In l (mcells m') <-> In l (mcells m)).
Proof. exact mswap_cols_refines. Qed.
(* Tip(): the in-place cycle-following transposition terminates within the model's fuel
   (every orbit of k -> rows*k mod (rows*cols-1) closes) and IS the transposition *)
Theorem mat_tip_refines : forall h m, MInv m -> Wf h (mv m) ->
  exists m', mtip m = Some m' /\ mabsd h m' = dm_trans (mabsd h m) /\ MInv m' /\ Wf h (mv m') /\
    (forall l, In l (mcells m') <-> In l (mcells m)).
Proof. exact mtip_refines. Qed.
(* a.Set(b), b a sparse matrix of the world (another one or a itself) or a dense matrix:
   both loops succeed and a stands for b afterwards; stated on the world *)
Theorem mat_set_refines : forall w t o, MWInv w -> MWWf w -> min_range w (MSet t o) -> munshared w t ->
  exists w', mset w t o = Some (w', true) /\ mabsw w' = mdstep (mabsw w) (MSet t o) /\
    MWInv w' /\ MWWf w' /\ length (mats w') = length (mats w).
Proof. exact mset_sim. Qed.

(* ---- 1. (central) every step of a world of matrices refines the dense step ---------- *)
(* for EVERY one of the 22 operations: the abstraction of the new world is the dense
   operation applied to the abstraction of the old world, well-formedness is kept, and
   the operation neither panics nor runs out of fuel: its outcome is OK, except the
   error answered by SwapRows / SwapColumns on a non-square matrix (mcode) *)
Theorem mat_refinement_step : forall w o,
  MWInv w -> MWWf w -> min_range w o -> msafe w o ->
  mabsw (fst (mstep w o)) = mdstep (mabsw w) o /\ MWWf (fst (mstep w o)) /\
  fst (snd (mstep w o)) = mcode w o.
Proof.
  exact (mstep_sim_all mmap_refines mswap_rows_refines mswap_cols_refines new_mat_refines mtip_refines mset_sim).
Qed.

(* ---- 2. (central) whole histories ---------------------------------------------------- *)
Theorem mat_refinement_all_histories : forall ops,
  mvalid_safe minit ops -> mabsw (mrun minit ops) = mdense_run [] ops.
Proof.
  exact (mrun_sim mmap_refines mswap_rows_refines mswap_cols_refines new_mat_refines mtip_refines mset_sim).
Qed.
Theorem mat_wf_all_histories : forall ops, mvalid_safe minit ops -> MWWf (mrun minit ops).
Proof.
  exact (mrun_MWWf mmap_refines mswap_rows_refines mswap_cols_refines new_mat_refines mtip_refines mset_sim).
Qed.

(* ---- 3. what the reading operations return ------------------------------------------- *)
(* At / ConstAt / ReduceSum / Dims / the full ConstIterator loop (the (i, j, x), x <> 0,
   in row-major order) / the loop abandoned after n visits (the first n of them) return
   what the dense model computes from the dense matrix *)
Theorem mat_reads_agree_step : forall w o q,
  MWInv w -> MWWf w -> min_range w o -> mdout (mabsw w) o = Some q -> snd (snd (mstep w o)) = q.
Proof. exact mstep_out. Qed.
(* ... along whole histories: the last operation of an in-range, safe history answers the
   expected code and returns what the DENSE run of the history before it predicts *)
Theorem mat_history_step : forall pre o,
  mvalid_safe minit (pre ++ [o]) ->
  let w := mrun minit pre in
  fst (snd (mstep w o)) = mcode w o /\
  (forall q, mdout (mdense_run [] pre) o = Some q -> snd (snd (mstep w o)) = q).
Proof.
  exact (mhistory_step
           (mstep_sim_all mmap_refines mswap_rows_refines mswap_cols_refines new_mat_refines mtip_refines mset_sim)
           (mrun_sim_from mmap_refines mswap_rows_refines mswap_cols_refines new_mat_refines mtip_refines mset_sim)).
Qed.

(* ---- 4. the executable side conditions used by the correspondence run are sound ------ *)
Theorem mat_side_conditions_sound :
  (forall w o, min_rangeb w o = true -> min_range w o) /\
  (forall w o, msafeb w o = true -> msafe w o) /\
  (forall ops w, mvalid_safeb w ops = true -> mvalid_safe w ops).
Proof. exact (conj min_rangeb_sound (conj msafeb_sound mvalid_safeb_sound)). Qed.

(* ---- Examples: the hypotheses are satisfiable by a non-trivial history ---------------- *)
(* constructor with duplicates and a zero triple, T (shares cells), Tip, Set from a sparse
   and a dense source, Map, SwapRows, SetIdentity on a non-square matrix, Reset, reads *)
Definition ex_mops : list mop :=
  [NewMat [0; 0; 1; 1] [1; 1; 2; 2] [5; 7; 3; 0] 2 3; MT 0; MTip 1; MIterate 1;
   NewMat [0; 1] [1; 1] [2; 4] 2 2; MMapMul 2 3; MSwapRows 2 0 1; MSwapRows 0 0 1;
   NewMat [] [] [] 2 2; MSet 3 (OM 2); MSet 3 (OM 3); MSet 2 (OMD 2 2 [0; 1; 2; 0]);
   MClone 0; MSetIdentity 4; MReset 4; MSetAt 4 1 2 9; MIterPart 4 1; MConstAt 3 1 0; MReduceSum 3].
Example ex_mops_valid : mvalid_safe minit ex_mops.
Proof. apply mvalid_safeb_sound. vm_compute. reflexivity. Qed.
Example ex_mops_dense :
  mdense_run [] ex_mops =
  [ {| dr := 2; dc := 3; de := [[0; 7; 0]; [0; 0; 3]] |};
    {| dr := 2; dc := 3; de := [[0; 7; 0]; [0; 0; 3]] |};
    {| dr := 2; dc := 2; de := [[0; 1]; [2; 0]] |};
    {| dr := 2; dc := 2; de := [[0; 12]; [0; 6]] |};
    {| dr := 2; dc := 3; de := [[0; 0; 0]; [0; 0; 9]] |} ].
Proof. vm_compute. reflexivity. Qed.
Example ex_mops_refines : mabsw (mrun minit ex_mops) = mdense_run [] ex_mops.
Proof. exact (mat_refinement_all_histories ex_mops ex_mops_valid). Qed.
