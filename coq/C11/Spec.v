(* C11 — abstract specification: what "coherent" means, the plain dense model
   of the operations, and which operations are "in range".  Short enough to
   read in minutes; Props.v states that the model of vector_sparse_template.in
   (Model.v) keeps the invariant and refines the dense model. *)
From Coq Require Import ZArith List Bool Lia Sorted.
From ADV Require Import C11.Model.
Import ListNotations.
Open Scope Z_scope.

Definition sset (l : list Z) : Prop := StronglySorted Z.lt l.

(* ---- the coherence invariant of one sparse vector --------------------------
   the index is an ordered set; the map has one entry per key; every stored
   value has its index key (index keys WITHOUT a value are legal: they read as
   zero); all keys are inside [0,n), n >= 0.  "No nil placeholder" holds by
   construction of the model (see Model.v). *)
Definition Inv (v : svec) : Prop :=
  sset (idx v) /\
  NoDup (map fst (vals v)) /\
  (forall k l, lookup k (vals v) = Some l -> In k (idx v)) /\
  (forall k, In k (idx v) -> 0 <= k < dim v) /\
  0 <= dim v.
Definition WInv (w : world) : Prop := Forall Inv (vecs w).

(* cells: allocated, and no cell is stored twice in one vector *)
Definition Wf (h : heap) (v : svec) : Prop :=
  (forall k l, lookup k (vals v) = Some l -> (l < length h)%nat) /\
  (forall k1 k2 l, lookup k1 (vals v) = Some l -> lookup k2 (vals v) = Some l -> k1 = k2).
Definition WWf (w : world) : Prop := Forall (Wf (hp w)) (vecs w).

(* ---- abstraction: the dense list a sparse vector stands for ---------------- *)
Definition abs (h : heap) (v : svec) : list Z := abs_vec h v.

(* ---- in-range arguments ---------------------------------------------------- *)
Definition idx_ok (v : svec) (i : Z) : Prop := 0 <= i < dim v.
(* a permutation vector: right length, entries in range, every position named *)
Definition perm_ok (n : Z) (pi : list Z) : Prop :=
  Z.of_nat (length pi) = n /\ Forall (fun p => 0 <= p < n) pi /\ (forall k, 0 <= k < n -> In k pi).
Definition has (w : world) (t : nat) : Prop := (t < length (vecs w))%nat.
Definition operand_ok (w : world) (n : Z) (o : operand) : Prop :=
  match o with OS u => has w u /\ dim (getv w u) = n | OD d => Z.of_nat (length d) = n end.

Definition in_range (w : world) (o : op) : Prop :=
  match o with
  | New ks xs n => length ks = length xs /\ NoDup ks /\ Forall (fun k => 0 <= k < n) ks /\ 0 <= n
  | At t i | SetAt t i _ | ConstAt t i => has w t /\ idx_ok (getv w t) i
  | SetV t o => has w t /\ operand_ok w (dim (getv w t)) o
  | SETV t u => has w t /\ has w u /\ dim (getv w u) = dim (getv w t)
  | Swap t i j => has w t /\ idx_ok (getv w t) i /\ idx_ok (getv w t) j
  | Permute t pi => has w t /\ perm_ok (dim (getv w t)) pi
  | Slice t i j => has w t /\ 0 <= i <= j /\ j <= dim (getv w t)
  | AppendV t u => has w t /\ has w u
  | MapAdd t c => has w t /\ c = 0
  | Joint t o => has w t /\ operand_ok w (dim (getv w t)) o
  | Joint3 t o2 o3 => has w t /\ operand_ok w (dim (getv w t)) o2 /\ operand_ok w (dim (getv w t)) o3
  | Reset t | ReverseOrder t | Sort t _ | AppendS t _ | AppendD t _ | MapMul t _ | MapSetMul t _
  | ReduceSum t | Iterate t | IterPart t _ | IterFrom t _ | Clone t => has w t
  end.
(* a history all of whose operations are in range in the state they meet *)
Fixpoint valid (w : world) (ops : list op) : Prop :=
  match ops with
  | [] => True
  | o :: r => in_range w o /\ valid (fst (step w o)) r
  end.

(* ---- the plain dense model (value lists) ----------------------------------- *)
Fixpoint dswap_loop (pi : list Z) (i : Z) (l : list Z) : list Z :=
  match pi with
  | [] => l
  | p :: r => dswap_loop r (i + 1)
               (if i <? p then upd (Z.to_nat p) (nth (Z.to_nat i) l 0) (upd (Z.to_nat i) (nth (Z.to_nat p) l 0) l) else l)
  end.
Definition dswap (l : list Z) (i j : Z) : list Z :=
  upd (Z.to_nat j) (nth (Z.to_nat i) l 0) (upd (Z.to_nat i) (nth (Z.to_nat j) l 0) l).
(* non-zero positions, ascending: what an iteration must visit *)
Fixpoint nonzero_from (i : Z) (l : list Z) : list (Z * Z) :=
  match l with
  | [] => []
  | x :: r => if x =? 0 then nonzero_from (i + 1) r else (i, x) :: nonzero_from (i + 1) r
  end.
Definition nonzero (l : list Z) : list (Z * Z) := nonzero_from 0 l.
