(* C11 — dense refinement, part 5: the payloads of the abandoned ConstIterator
   loop (IterPart) and of the joint iterators (Joint, Joint3) are the dense
   readings of DensePay.v. *)
From Coq Require Import ZArith List Bool Lia Sorted.
From ADV Require Import C11.Model C11.Spec C11.Dense C11.DensePay C11.ProofsMap C11.ProofsIter C11.ProofsInv
  C11.ProofsRef C11.ProofsD1 C11.ProofsD2 C11.ProofsD3 C11.ProofsDSort C11.ProofsDSet C11.ProofsDense C11.ProofsDOut.
Import ListNotations.
Open Scope Z_scope.

(* ============================================================================ *)
(* ---- IterPart: the first m visits of the full loop ---------------------------------- *)
Lemma iter_loop_prefix f : forall h v cur acc v' s,
  iter_loop f h v cur acc = Some (v', s) -> exists s', s = rev acc ++ s'.
Proof.
  induction f as [|f IH]; intros h v cur acc v' s E; destruct cur as [k|]; cbn [iter_loop] in E.
  - discriminate.
  - inversion E. exists []. rewrite app_nil_r. auto.
  - destruct (lookup k (vals v)) as [l|]; [|discriminate].
    destruct (it_next h v (Some k)) as [[v1 c1]|]; [|discriminate].
    apply IH in E. destruct E as [s' ->]. simpl. rewrite <- app_assoc. eauto.
  - inversion E. exists []. rewrite app_nil_r. auto.
Qed.
Lemma iter_part_prefix m : forall f h v cur acc v' s',
  iter_loop f h v cur acc = Some (v', rev acc ++ s') ->
  exists v'', iter_part m h v cur acc = Some (v'', rev acc ++ firstn m s').
Proof.
  induction m as [|m IH]; intros f h v cur acc v' s' E.
  - exists v. simpl. rewrite app_nil_r. destruct cur; auto.
  - destruct cur as [k|].
    + destruct f as [|f]; cbn [iter_loop] in E; [discriminate|]. cbn [iter_part].
      destruct (lookup k (vals v)) as [l|]; [|discriminate].
      destruct (it_next h v (Some k)) as [[v1 c1]|]; [|discriminate].
      destruct (iter_loop_prefix _ _ _ _ _ _ _ E) as [s'' E2].
      simpl in E2. rewrite <- app_assoc in E2. apply app_inv_head in E2. subst s'.
      assert (E3 : iter_loop f h v1 c1 ((k, l) :: acc) = Some (v', rev ((k, l) :: acc) ++ s'')).
      { rewrite E. simpl. rewrite <- app_assoc. auto. }
      destruct (IH _ _ _ _ _ _ _ E3) as [v'' E4]. exists v''. rewrite E4. simpl. rewrite <- app_assoc. auto.
    + exists v. destruct f; cbn [iter_loop] in E; inversion E as [[E1 E2]];
        rewrite <- (app_nil_r (rev acc)) in E2 at 1; apply app_inv_head in E2; subst s';
        simpl; rewrite app_nil_r; auto.
Qed.
Lemma In_firstn {X} (x : X) n : forall l, In x (firstn n l) -> In x l.
Proof. induction n as [|n IH]; intros [|y l]; simpl; try tauto. intros [H|H]; auto. Qed.
Lemma iter_part_payload h v m : Inv v ->
  exists v' s, (match it_begin h v with
                | Some (v0, cur) => iter_part m h v0 cur []
                | None => None end) = Some (v', s) /\
               seq_vals h s = flat2 (firstn m (nonzero (abs h v))).
Proof.
  intro I. destruct (iterate_spec h v) as (v1 & A & _ & _); [apply I|].
  unfold iterate in A. destruct (it_begin h v) as [[v0 cur]|]; [|discriminate].
  destruct (iter_part_prefix m (sfuel v) h v0 cur [] v1 _ A) as [v'' E].
  exists v'', (firstn m (cells v (filter (nonnull h v) (idx v)))). split; [exact E|].
  rewrite nonzero_abs by auto. unfold cells. rewrite !firstn_map.
  apply (seq_vals_cells h v). intros k Hk. apply In_firstn in Hk. apply filter_In in Hk. tauto.
Qed.

(* ============================================================================ *)
(* ---- the joint iterators, read only ------------------------------------------------- *)
(* the iterator steps never fail on a coherent vector *)
Lemma it_next_some h v c : Inv v -> exists v' c', it_next h v c = Some (v', c').
Proof.
  intro HI. destruct c as [k|]; unfold it_next; [|eauto].
  destruct (skip_tot (sfuel v) h v (first_gt k (idx v)) k HI) as (v' & c' & A & _).
  - intros k' E. apply first_gt_In in E. tauto.
  - unfold sfuel. destruct (first_gt k (idx v)) as [k'|]; simpl; [|lia].
    pose proof (cnt_le_length k' (idx v)). lia.
  - eauto.
Qed.
Lemma ci_next_some w c : WInv w -> exists w2 c2, ci_next w c = Some (w2, c2).
Proof.
  intro HI. destruct c as [u cur|d p]; cbn [ci_next]; [|eauto].
  destruct (it_next_some (hp w) (getv w u) cur (WInv_getv w u HI)) as (v' & c' & E). rewrite E. eauto.
Qed.
Lemma ci_begin_some w o : WInv w -> exists w2 c2, ci_begin w o = Some (w2, c2).
Proof.
  intro HI. destruct o as [u|d]; cbn [ci_begin]; [|eauto].
  destruct (it_begin_tot (hp w) (getv w u) (WInv_getv w u HI)) as (v' & c' & E & _). rewrite E. eauto.
Qed.
Lemma ci_next_WInv w c w2 c2 : WInv w -> ci_next w c = Some (w2, c2) -> WInv w2.
Proof.
  intro HI. destruct c as [u cur|d p]; cbn [ci_next].
  - destruct (it_next (hp w) (getv w u) cur) as [[v' c']|] eqn:E; [|discriminate].
    intro X. inversion X. subst w2 c2. apply WInv_setv; auto.
    destruct cur as [k|]; unfold it_next in E.
    + eapply Inv_skip; [|exact E]. apply WInv_getv. auto.
    + inversion E. apply WInv_getv. auto.
  - intro X. inversion X. subst. auto.
Qed.
Lemma jn_some w t j : WInv w -> exists w2 j', joint_next w t j = Some (w2, j').
Proof.
  intro HI. unfold joint_next.
  destruct (match j1 j with Some k => (k, lookup k (vals (getv w t))) | None => (jidx j, None) end) as [i0 s1].
  match goal with |- context [match ?X with pair _ _ => _ end] => destruct X as [[i1 s1'] s2] end.
  assert (S1 : exists w1 c1, (match s1' with
         | Some _ => match it_next (hp w) (getv w t) (j1 j) with
                     | Some (v', c') => Some (setv w t v', c')
                     | None => None end
         | None => Some (w, j1 j) end) = Some (w1, c1) /\ WInv w1).
  { destruct s1' as [l|]; [|eauto].
    destruct (it_next (hp w) (getv w t) (j1 j)) as [[v' c']|] eqn:E.
    - eexists. eexists. split; [reflexivity|]. apply WInv_setv; auto.
      destruct (j1 j) as [k|]; unfold it_next in E.
      + eapply Inv_skip; [|exact E]. apply WInv_getv. auto.
      + inversion E. apply WInv_getv. auto.
    - destruct (it_next_some (hp w) (getv w t) (j1 j) (WInv_getv w t HI)) as (v' & c' & E'). congruence. }
  destruct S1 as (w1 & c1 & E1 & I1). rewrite E1.
  destruct s2 as [x|]; [|eauto].
  destruct (ci_next_some w1 (j2 j) I1) as (w2 & c2 & E2). rewrite E2. eauto.
Qed.

Lemma filter_zseq_first (p : Z -> bool) k n0 m : forall lo, m = Z.to_nat (k - lo) ->
  lo <= k < n0 -> (forall x, lo <= x < k -> p x = false) -> p k = true ->
  filter p (zseq lo (Z.to_nat (n0 - lo))) = k :: filter p (zseq (k + 1) (Z.to_nat (n0 - (k + 1)))).
Proof.
  induction m as [|m IH]; intros lo Em Hk Hz Hp.
  - assert (lo = k) by lia. subst lo.
    replace (Z.to_nat (n0 - k)) with (S (Z.to_nat (n0 - (k + 1)))) by lia. simpl. rewrite Hp. auto.
  - replace (Z.to_nat (n0 - lo)) with (S (Z.to_nat (n0 - (lo + 1)))) by lia. simpl.
    rewrite (Hz lo) by lia. apply IH; [lia|lia| |auto]. intros x Hx. apply Hz. lia.
Qed.
Lemma filter_or_length {X} (a b : X -> bool) l :
  (length (filter (fun x => a x || b x) l) <= length (filter a l) + length (filter b l))%nat.
Proof. induction l as [|x l IH]; simpl; auto. destruct (a x), (b x); simpl; lia. Qed.
Lemma filter_length_le {X} (a : X -> bool) l : (length (filter a l) <= length l)%nat.
Proof. induction l as [|x l IH]; simpl; auto. destruct (a x); simpl; lia. Qed.

(* ---- JOINT3_ITERATOR.Next() as a selection among three candidate indices, then three
        advances (the same decomposition as in C03/ProofsJoint.v, restated here so that
        this file depends on C11 only) ------------------------------------------------- *)
Definition pisS {X} (o : option X) : bool := match o with Some _ => true | None => false end.
Definition pcand (c : citer) : option Z := if ci_ok c then Some (ci_index c) else None.
Definition padvc (w : world) (s : option Z) (c : citer) : option (world * citer) :=
  match s with Some _ => ci_next w c | None => Some (w, c) end.
Definition padv1 (t : nat) (w : world) (s : option loc) (c : option Z) : option (world * option Z) :=
  match s with
  | Some _ => match it_next (hp w) (getv w t) c with
              | Some (v', c') => Some (setv w t v', c')
              | None => None end
  | None => Some (w, c)
  end.
Definition psel3 (c1 c2 c3 : option Z) (stale : Z) : Z * bool * bool * bool :=
  let ok1 := pisS c1 in
  let i0 := match c1 with Some k => k | None => stale end in
  let '(i1, d1a, d2a) :=
    match c2 with
    | Some i2 => if (i2 <? i0) || negb ok1 then (i2, false, true)
                 else if i0 =? i2 then (i0, ok1, true) else (i0, ok1, false)
    | None => (i0, ok1, false)
    end in
  match c3 with
  | Some i => if (i <? i1) || (negb ok1 && negb (pisS c2)) then (i, false, false, true)
              else if i1 =? i then (i1, d1a, d2a, true) else (i1, d1a, d2a, false)
  | None => (i1, d1a, d2a, false)
  end.
Lemma psel3_spec c1 c2 c3 stale i d1 d2 d3 :
  psel3 c1 c2 c3 stale = (i, d1, d2, d3) ->
  (d1 = true -> c1 = Some i) /\ (d1 = false -> forall k, c1 = Some k -> i < k) /\
  (d2 = true -> c2 = Some i) /\ (d2 = false -> forall k, c2 = Some k -> i < k) /\
  (d3 = true -> c3 = Some i) /\ (d3 = false -> forall k, c3 = Some k -> i < k) /\
  (pisS c1 || pisS c2 || pisS c3 = d1 || d2 || d3).
Proof.
  unfold psel3. destruct c1 as [a|], c2 as [b|], c3 as [c|]; cbn [pisS negb andb orb];
    rewrite ?orb_false_r, ?orb_true_r, ?andb_false_r;
    repeat match goal with
           | |- context [if ?x then _ else _] => destruct x eqn:?
           end;
    intro E; inversion E; subst; clear E;
    repeat match goal with
           | H : (_ <? _) = true |- _ => apply Z.ltb_lt in H
           | H : (_ <? _) = false |- _ => apply Z.ltb_ge in H
           | H : (_ =? _) = true |- _ => apply Z.eqb_eq in H
           | H : (_ =? _) = false |- _ => apply Z.eqb_neq in H
           end;
    repeat split; intros; try discriminate; try congruence;
    try match goal with H : Some _ = Some _ |- _ => inversion H; subst; clear H end; try lia;
    try (f_equal; lia).
Qed.
Lemma joint3_next_sel w t j :
  joint3_next w t j =
  let '(i, d1, d2, d3) := psel3 (k1 j) (pcand (k2 j)) (pcand (k3 j)) (kidx j) in
  let s1 := if d1 then match k1 j with Some k => lookup k (vals (getv w t)) | None => None end else None in
  let s2 := if d2 then ci_get w (k2 j) else None in
  let s3 := if d3 then ci_get w (k3 j) else None in
  let ok := match s1, s2, s3 with None, None, None => false | _, _, _ => true end in
  match padv1 t w s1 (k1 j) with
  | None => None
  | Some (w1, c1) =>
      match padvc w1 s2 (k2 j) with
      | None => None
      | Some (w2, c2) =>
          match padvc w2 s3 (k3 j) with
          | None => None
          | Some (w3, c3) =>
              Some (w3, {| k1 := c1; k2 := c2; k3 := c3; kidx := i; ks1 := s1; ks2 := s2; ks3 := s3; kok := ok |})
          end
      end
  end.
Proof.
  unfold joint3_next, psel3, pcand, padv1, padvc.
  destruct (k1 j) as [a|]; destruct (ci_ok (k2 j)); destruct (ci_ok (k3 j));
    cbn [pisS negb andb orb]; rewrite ?orb_false_r, ?orb_true_r, ?andb_false_r;
    repeat match goal with
           | |- context [if ?x then _ else _] => destruct x eqn:?
           end; reflexivity.
Qed.

Section JointRO.
Variable w0 : world.
Variable t : nat.
Hypothesis HI0 : WInv w0.
Hypothesis Ht : has w0 t.
Local Notation n := (dim (getv w0 t)).
Local Notation h0 := (hp w0).
(* value of vector u at position x in the world before the call *)
Definition pk (u : nat) (x : Z) : Z := peek h0 (getv w0 u) x.

(* a world reached while iterating: same heap, every vector = the original one minus
   some null entries *)
Record RelR (wk : world) : Prop := {
  RR_len : length (vecs wk) = length (vecs w0);
  RR_inv : WInv wk;
  RR_hp : hp wk = h0;
  RR_sub : forall u, Sub h0 (getv w0 u) (getv wk u) }.
Lemma RelR_init : RelR w0.
Proof. constructor; auto. intro u. apply Sub_refl. Qed.
Lemma RelR_peek wk u x : RelR wk -> peek (hp wk) (getv wk u) x = pk u x.
Proof. intro R. rewrite (RR_hp wk R). destruct (RR_sub wk R u) as (_ & _ & S3). apply S3. Qed.
Lemma RelR_setv wk u v' : RelR wk -> has w0 u -> Sub h0 (getv wk u) v' -> Inv v' -> RelR (setv wk u v').
Proof.
  intros R Hu S HI.
  assert (Hh : has wk u) by (unfold has in *; rewrite (RR_len wk R); auto).
  constructor.
  - simpl. rewrite upd_length. apply (RR_len wk R).
  - apply WInv_setv; auto. apply (RR_inv wk R).
  - simpl. apply (RR_hp wk R).
  - intro u'. destruct (Nat.eq_dec u' u) as [->|Ne].
    + rewrite getv_setv_eq by auto. eapply Sub_trans; [apply (RR_sub wk R u)|exact S].
    + rewrite getv_setv_neq by auto. apply (RR_sub wk R).
Qed.
Lemma pk_range u k : pk u k <> 0 -> 0 <= k < dim (getv w0 u).
Proof.
  intro H. pose proof (WInv_getv w0 u HI0) as HIu.
  destruct (in_dec Z.eq_dec k (idx (getv w0 u))) as [Hin|Hn].
  - apply HIu. auto.
  - exfalso. apply H. apply peek_notin; auto.
Qed.
Lemma cell_stable wk w2 u k l : RelR wk -> RelR w2 -> pk u k <> 0 ->
  lookup k (vals (getv wk u)) = Some l -> lookup k (vals (getv w2 u)) = Some l.
Proof.
  intros R R2 Nz L.
  destruct (peek_nz_lookup (hp w2) (getv w2 u) k) as (l2 & L2 & _); [rewrite RelR_peek by auto; auto|].
  destruct (RR_sub wk R u) as (_ & Sa & _). destruct (RR_sub w2 R2 u) as (_ & Sb & _).
  apply Sa in L. pose proof (Sb _ _ L2) as L2'. rewrite L in L2'. inversion L2'. subst l2. auto.
Qed.

(* one vector's plain iterator *)
Lemma vec_next wk u k v' c' :
  RelR wk -> has w0 u -> it_next (hp wk) (getv wk u) (Some k) = Some (v', c') ->
  RelR (setv wk u v') /\ ScanF (pk u) (k + 1) c'.
Proof.
  intros R Hu E. unfold it_next in E.
  assert (HIu : Inv (getv wk u)) by (apply WInv_getv; apply (RR_inv wk R)).
  assert (HSs : sset (idx (getv wk u))) by apply HIu.
  destruct (skip_scan _ _ _ _ (k + 1) _ _ HIu (first_gt_least k _ HSs) E) as [S1 S2].
  split.
  - apply RelR_setv; auto; [rewrite <- (RR_hp wk R); exact S1|eapply Inv_skip; eauto].
  - eapply ScanF_ext; [|exact S2]. intros x _. apply RelR_peek. auto.
Qed.
Lemma vec_begin wk u v' c' :
  RelR wk -> has w0 u -> it_begin (hp wk) (getv wk u) = Some (v', c') ->
  RelR (setv wk u v') /\ ScanF (pk u) 0 c'.
Proof.
  intros R Hu E. unfold it_begin in E.
  assert (HIu : Inv (getv wk u)) by (apply WInv_getv; apply (RR_inv wk R)).
  assert (HSs : sset (idx (getv wk u))) by apply HIu.
  assert (HL : Least 0 (idx (getv wk u)) (hd_error (idx (getv wk u)))).
  { apply hd_least; auto. intros x Hx. apply HIu in Hx. lia. }
  destruct (skip_scan _ _ _ _ 0 _ _ HIu HL E) as [S1 S2].
  split.
  - apply RelR_setv; auto; [rewrite <- (RR_hp wk R); exact S1|eapply Inv_skip; eauto].
  - eapply ScanF_ext; [|exact S2]. intros x _. apply RelR_peek. auto.
Qed.

(* ---- an operand's ConstIterator ---------------------------------------------------- *)
Definition opv (o : operand) (x : Z) : Z :=
  match o with OS u => pk u x | OD d => nth (Z.to_nat x) d 0 end.
Definition stops (o : operand) (x : Z) : bool :=
  match o with OS _ => nzb (opv o x) | OD _ => true end.
Definition OC (o : operand) (c2 : citer) (lo : Z) : Prop :=
  match c2 with
  | CS u cur => o = OS u /\ ScanF (pk u) lo cur
  | CD d p => o = OD d /\ p = lo
  end.
Lemma stops_false_opv o x : stops o x = false -> opv o x = 0.
Proof.
  unfold stops. destruct o as [u|d]; [|discriminate]. unfold nzb. intro H.
  apply negb_false_iff, Z.eqb_eq in H. auto.
Qed.
Lemma OC_view o wk c2 lo : RelR wk -> operand_ok w0 n o -> 0 <= lo -> OC o c2 lo ->
  (ci_ok c2 = true /\ lo <= ci_index c2 < n /\ (forall x, lo <= x < ci_index c2 -> stops o x = false) /\
   stops o (ci_index c2) = true /\ ci_get wk c2 = Some (opv o (ci_index c2)))
  \/ (ci_ok c2 = false /\ forall x, lo <= x < n -> stops o x = false).
Proof.
  intros R Hop Hlo HC. destruct c2 as [u cur|d p]; simpl in HC.
  - destruct HC as [Eo HS]. subst o. simpl in Hop. destruct Hop as [Hu Hd].
    destruct cur as [k|]; simpl in HS.
    + left. destruct HS as (A & B & C). pose proof (pk_range u k B) as Rg. rewrite Hd in Rg.
      cbn [ci_ok ci_index ci_get stops opv]. split; [auto|]. split; [lia|]. split.
      { intros x Hx. unfold nzb. rewrite C by auto. auto. }
      split.
      { unfold nzb. destruct (pk u k =? 0) eqn:Z0; auto. apply Z.eqb_eq in Z0. contradiction. }
      destruct (peek_nz_lookup (hp wk) (getv wk u) k) as (l & L1 & L2); [rewrite RelR_peek by auto; auto|].
      rewrite L1, L2, RelR_peek by auto. auto.
    + right. split; auto. intros x Hx. cbn [stops opv]. unfold nzb. rewrite HS by lia. auto.
  - destruct HC as (Eo & A). subst o p. simpl in Hop. cbn [ci_ok ci_index ci_get stops opv].
    destruct (lo <? Z.of_nat (length d)) eqn:E.
    + apply Z.ltb_lt in E. left. split; auto. split; [lia|]. split; [intros x Hx; lia|]. auto.
    + apply Z.ltb_ge in E. right. split; auto. intros x Hx. lia.
Qed.
Lemma OC_weaken o c2 lo lo' : operand_ok w0 n o ->
  OC o c2 lo -> lo <= lo' -> (ci_ok c2 = true -> lo' <= ci_index c2) -> (ci_ok c2 = false -> lo' <= n) ->
  OC o c2 lo'.
Proof.
  intros Hop HC L H1 H2. destruct c2 as [u cur|d p]; simpl in *.
  - destruct HC as [Eo HS]. split; auto. eapply ScanF_weaken; eauto. destruct cur; auto.
  - destruct HC as (Eo & A). subst o p. simpl in Hop. split; auto.
    destruct (lo <? Z.of_nat (length d)) eqn:E.
    + specialize (H1 eq_refl). lia.
    + apply Z.ltb_ge in E. specialize (H2 eq_refl). lia.
Qed.
Lemma op_next o wk c2 lo w2 c2' :
  RelR wk -> operand_ok w0 n o -> OC o c2 lo -> ci_ok c2 = true -> ci_next wk c2 = Some (w2, c2') ->
  RelR w2 /\ OC o c2' (ci_index c2 + 1).
Proof.
  intros R Hop HC Ok E. destruct c2 as [u cur|d p].
  - destruct HC as [Eo HS]. subst o. simpl in Hop. destruct Hop as [Hu _].
    destruct cur as [k|]; [|discriminate]. cbn [ci_index ci_next] in *.
    destruct (it_next (hp wk) (getv wk u) (Some k)) as [[v' cur']|] eqn:N; [|discriminate].
    inversion E. subst w2 c2'. destruct (vec_next wk u k v' cur' R Hu N) as [R2 S2].
    split; auto. simpl. auto.
  - cbn [ci_next ci_index] in *. inversion E. subst w2 c2'. destruct HC as (Eo & A). split; auto. simpl. auto.
Qed.
Lemma op_begin o wk w1 c2 :
  RelR wk -> operand_ok w0 n o -> ci_begin wk o = Some (w1, c2) -> RelR w1 /\ OC o c2 0.
Proof.
  intros R Hop E. destruct o as [u|d]; cbn [ci_begin] in E.
  - simpl in Hop. destruct Hop as [Hu _].
    destruct (it_begin (hp wk) (getv wk u)) as [[v' cur']|] eqn:N; [|discriminate].
    inversion E. subst w1 c2. destruct (vec_begin wk u v' cur' R Hu N) as [R2 S2]. split; auto. simpl. auto.
  - inversion E. subst w1 c2. split; auto. simpl. auto.
Qed.

(* ---- JOINT_ITERATOR ----------------------------------------------------------------- *)
Section J2.
Variable o : operand.
Hypothesis Hop : operand_ok w0 n o.
Definition visit (x : Z) : bool := nzb (pk t x) || stops o x.
Definition vis_at (x : Z) : Z * bool * Z * Z := (x, nzb (pk t x), pk t x, opv o x).
(* the iterator stands at its next visit >= lo (or is exhausted: nothing to visit from lo on) *)
Definition JState (wk : world) (lo : Z) (j : joint) : Prop :=
  if jok j then
    lo <= jidx j < n /\ (forall x, lo <= x < jidx j -> visit x = false) /\ visit (jidx j) = true /\
    ScanF (pk t) (jidx j + 1) (j1 j) /\ OC o (j2 j) (jidx j + 1) /\
    jval (js2 j) = opv o (jidx j) /\
    match js1 j with
    | Some l => lookup (jidx j) (vals (getv wk t)) = Some l /\ pk t (jidx j) <> 0
    | None => pk t (jidx j) = 0
    end
  else forall x, lo <= x < n -> visit x = false.

Lemma nzb_true x : x <> 0 -> nzb x = true.
Proof. intro H. unfold nzb. destruct (x =? 0) eqn:Z0; auto. apply Z.eqb_eq in Z0. contradiction. Qed.

Lemma joint_next_post wk j lo w2 j' :
  RelR wk -> 0 <= lo -> ScanF (pk t) lo (j1 j) -> OC o (j2 j) lo ->
  joint_next wk t j = Some (w2, j') -> RelR w2 /\ JState w2 lo j'.
Proof.
  intros R Hlo HR HC E. destruct j as [c1 c2 ji s1 s2 ok]. cbn [j1 j2] in HR, HC.
  assert (OpOnly : forall c1' w2' c2',
            ci_ok c2 = true -> lo <= ci_index c2 < n ->
            (forall x, lo <= x < ci_index c2 -> stops o x = false) -> stops o (ci_index c2) = true ->
            (forall x, lo <= x <= ci_index c2 -> pk t x = 0) ->
            ScanF (pk t) (ci_index c2 + 1) c1' ->
            ci_next wk c2 = Some (w2', c2') ->
            RelR w2' /\ JState w2' lo {| j1 := c1'; j2 := c2'; jidx := ci_index c2; js1 := None;
                                         js2 := Some (opv o (ci_index c2)); jok := true |}).
  { intros c1' w2' c2' Ok I Cz St Pz HR' N.
    destruct (op_next o wk c2 lo w2' c2' R Hop HC Ok N) as (R2 & HC2).
    split; auto. unfold JState. cbn [j1 j2 jidx js1 js2 jok jval].
    split; [auto|]. split; [intros x Hx; unfold visit; rewrite Pz by lia; rewrite Cz by lia; auto|].
    split; [unfold visit; rewrite St; apply orb_true_r|].
    split; [auto|]. split; [auto|]. split; [auto|]. apply Pz. lia. }
  assert (RecvOnly : forall k1 l1 v' c1',
            c1 = Some k1 -> lookup k1 (vals (getv wk t)) = Some l1 -> k1 < n ->
            (forall x, lo <= x <= k1 -> stops o x = false) -> OC o c2 (k1 + 1) ->
            it_next (hp wk) (getv wk t) (Some k1) = Some (v', c1') ->
            RelR (setv wk t v') /\
            JState (setv wk t v') lo {| j1 := c1'; j2 := c2; jidx := k1; js1 := Some l1;
                                        js2 := None; jok := true |}).
  { intros k1 l1 v' c1' Ec L1 Kn Oz HC' N. subst c1. destruct HR as (A1 & B1 & C1).
    destruct (vec_next wk t k1 v' c1' R Ht N) as (R2 & HS).
    split; auto. unfold JState. cbn [j1 j2 jidx js1 js2 jok jval].
    split; [lia|]. split; [intros x Hx; unfold visit; rewrite C1 by lia; rewrite Oz by lia; auto|].
    split; [unfold visit; rewrite nzb_true by auto; auto|].
    split; [auto|]. split; [auto|]. split; [symmetry; apply stops_false_opv; apply Oz; lia|].
    split; [eapply (cell_stable wk); eauto|auto]. }
  assert (Both : forall k1 l1 v' c1' w2' c2',
            c1 = Some k1 -> lookup k1 (vals (getv wk t)) = Some l1 -> k1 < n ->
            ci_ok c2 = true -> ci_index c2 = k1 ->
            (forall x, lo <= x < k1 -> stops o x = false) ->
            it_next (hp wk) (getv wk t) (Some k1) = Some (v', c1') ->
            ci_next (setv wk t v') c2 = Some (w2', c2') ->
            RelR w2' /\ JState w2' lo {| j1 := c1'; j2 := c2'; jidx := k1; js1 := Some l1;
                                         js2 := Some (opv o k1); jok := true |}).
  { intros k1 l1 v' c1' w2' c2' Ec L1 Kn Ok Ei Cz N1 N2. subst c1. destruct HR as (A1 & B1 & C1).
    destruct (vec_next wk t k1 v' c1' R Ht N1) as (R1 & HS).
    destruct (op_next o (setv wk t v') c2 lo w2' c2' R1 Hop HC Ok N2) as (R2 & HC2).
    rewrite Ei in HC2. split; auto. unfold JState. cbn [j1 j2 jidx js1 js2 jok jval].
    split; [lia|]. split; [intros x Hx; unfold visit; rewrite C1 by lia; rewrite Cz by lia; auto|].
    split; [unfold visit; rewrite nzb_true by auto; auto|].
    split; [auto|]. split; [auto|]. split; [auto|].
    split; [eapply (cell_stable wk); eauto|auto]. }
  destruct c1 as [k1|].
  - pose proof HR as (A1 & B1 & C1).
    destruct (peek_nz_lookup (hp wk) (getv wk t) k1) as (l1 & L1 & _); [rewrite RelR_peek by auto; auto|].
    assert (Kn : k1 < n) by (apply (pk_range t k1 B1)).
    unfold joint_next in E. cbn [j1 j2 jidx js1 js2 jok] in E. rewrite L1 in E.
    destruct (OC_view o wk c2 lo R Hop Hlo HC) as [(Ok & I & Cz & St & G)|(Ok & Cz)]; rewrite Ok in E.
    + cbn [negb] in E. rewrite orb_false_r in E.
      destruct (ci_index c2 <? k1) eqn:E1.
      * apply Z.ltb_lt in E1. rewrite G in E. cbv beta iota zeta in E.
        destruct (ci_next wk c2) as [[w2' c2']|] eqn:N; [|discriminate].
        inversion E. subst w2 j'. apply OpOnly; auto.
        -- intros x Hx. apply C1. lia.
        -- eapply ScanF_weaken; [exact HR|lia|simpl; lia].
      * apply Z.ltb_ge in E1. destruct (k1 =? ci_index c2) eqn:E2.
        -- apply Z.eqb_eq in E2. rewrite G in E. cbv beta iota zeta in E.
           destruct (it_next (hp wk) (getv wk t) (Some k1)) as [[v' c1']|] eqn:N1; [|discriminate].
           destruct (ci_next (setv wk t v') c2) as [[w2' c2']|] eqn:N2; [|discriminate].
           inversion E. subst w2 j'. rewrite <- E2. eapply Both; eauto.
           intros x Hx. apply Cz. lia.
        -- apply Z.eqb_neq in E2. cbv beta iota zeta in E.
           destruct (it_next (hp wk) (getv wk t) (Some k1)) as [[v' c1']|] eqn:N1; [|discriminate].
           inversion E. subst w2 j'. eapply RecvOnly; eauto.
           ++ intros x Hx. apply Cz. lia.
           ++ eapply OC_weaken; eauto; [lia|lia|congruence].
    + cbv beta iota zeta in E.
      destruct (it_next (hp wk) (getv wk t) (Some k1)) as [[v' c1']|] eqn:N1; [|discriminate].
      inversion E. subst w2 j'. eapply RecvOnly; eauto.
      * intros x Hx. apply Cz. lia.
      * eapply OC_weaken; eauto; [lia|congruence|lia].
  - unfold joint_next in E. cbn [j1 j2 jidx js1 js2 jok] in E.
    destruct (OC_view o wk c2 lo R Hop Hlo HC) as [(Ok & I & Cz & St & G)|(Ok & Cz)]; rewrite Ok in E.
    + cbn [negb] in E. rewrite orb_true_r in E. rewrite G in E. cbv beta iota zeta in E.
      destruct (ci_next wk c2) as [[w2' c2']|] eqn:N; [|discriminate].
      inversion E. subst w2 j'. apply OpOnly; auto.
      * intros x Hx. apply HR. lia.
      * eapply ScanF_weaken; [exact HR|lia|simpl; auto].
    + cbv beta iota zeta in E. inversion E. subst w2 j'.
      split; [auto|]. unfold JState. cbn [jok].
      intros x Hx. unfold visit. simpl in HR. rewrite (HR x) by lia. rewrite Cz by lia. auto.
Qed.
Lemma joint_loop_ok f : forall wk j lo acc,
  RelR wk -> 0 <= lo -> JState wk lo j ->
  (length (filter visit (zseq lo (Z.to_nat (n - lo)))) < f)%nat ->
  exists w', joint_loop f wk t j acc
             = Some (w', rev acc ++ map vis_at (filter visit (zseq lo (Z.to_nat (n - lo))))) /\ RelR w'.
Proof.
  induction f as [|f IH]; intros wk j lo acc R Hlo S F; [lia|].
  cbn [joint_loop]. unfold JState in S. destruct (jok j) eqn:Ok.
  - destruct S as (I & Vz & Vt & HR & HC & Jv & Js).
    assert (Ev : (jidx j, match js1 j with Some _ => true | None => false end,
                  match js1 j with Some l => hget (hp wk) l | None => 0 end, jval (js2 j)) = vis_at (jidx j)).
    { unfold vis_at. rewrite Jv. destruct (js1 j) as [l|].
      - destruct Js as [L Nz]. rewrite nzb_true by auto.
        pose proof (RelR_peek wk t (jidx j) R) as P. unfold peek in P. rewrite L in P. rewrite P. auto.
      - rewrite Js. auto. }
    rewrite Ev.
    destruct (jn_some wk t j (RR_inv wk R)) as (w2 & j' & N). rewrite N.
    destruct (joint_next_post wk j (jidx j + 1) w2 j' R) as [R2 S2]; auto; [lia|].
    rewrite (filter_zseq_first visit (jidx j) n (Z.to_nat (jidx j - lo)) lo) in * by auto.
    destruct (IH w2 j' (jidx j + 1) (vis_at (jidx j) :: acc) R2) as (w' & E & R'); [lia|auto|simpl in F; lia|].
    exists w'. split; auto. rewrite E. simpl. rewrite <- app_assoc. auto.
  - exists wk. split; auto. rewrite filter_none; [simpl; rewrite app_nil_r; auto|].
    intros y Hy. apply In_zseq in Hy. apply S. lia.
Qed.

Lemma nz_count u : (length (filter (fun x => nzb (pk u x)) (zseq 0 (Z.to_nat (dim (getv w0 u)))))
                    <= length (idx (getv w0 u)))%nat.
Proof.
  change (fun x => nzb (pk u x)) with (fun k => negb (peek h0 (getv w0 u) k =? 0)).
  rewrite (visited_keys h0 (getv w0 u)) by (apply WInv_getv; auto). apply filter_length_le.
Qed.
Lemma visit_count : (length (filter visit (zseq 0 (Z.to_nat n))) <= length (idx (getv w0 t)) + op_len w0 o)%nat.
Proof.
  unfold visit. eapply Nat.le_trans; [apply filter_or_length|]. apply Nat.add_le_mono; [apply nz_count|].
  destruct o as [u|d]; simpl in Hop.
  - destruct Hop as [_ Hd]. rewrite <- Hd. apply (nz_count u).
  - eapply Nat.le_trans; [apply filter_length_le|]. rewrite zseq_length. simpl. lia.
Qed.

Lemma joint_run_ok :
  exists w', joint_run w0 t o = Some (w', map vis_at (filter visit (zseq 0 (Z.to_nat n)))).
Proof.
  unfold joint_run, joint_begin.
  destruct (it_begin_tot h0 (getv w0 t) (WInv_getv w0 t HI0)) as (v' & c1 & B1 & _). rewrite B1.
  destruct (vec_begin w0 t v' c1 RelR_init Ht B1) as (R1 & HS).
  destruct (ci_begin_some (setv w0 t v') o (RR_inv _ R1)) as (w1 & c2 & B2). rewrite B2.
  destruct (op_begin o _ w1 c2 R1 Hop B2) as (R2 & HC).
  match goal with |- context [joint_next w1 t ?J] =>
    destruct (jn_some w1 t J (RR_inv _ R2)) as (w2 & j & N);
    destruct (joint_next_post w1 J 0 w2 j R2 (Z.le_refl 0) HS HC N) as (R3 & S3) end.
  rewrite N.
  destruct (joint_loop_ok (jfuel w0 t o) w2 j 0 [] R3 (Z.le_refl 0) S3) as (w' & E & _).
  - rewrite Z.sub_0_r. pose proof visit_count. unfold jfuel. lia.
  - exists w'. rewrite E. simpl. rewrite Z.sub_0_r. auto.
Qed.
End J2.

(* ---- JOINT3_ITERATOR ---------------------------------------------------------------- *)
Lemma nzb_true' x : x <> 0 -> nzb x = true.
Proof. intro H. unfold nzb. destruct (x =? 0) eqn:Z0; auto. apply Z.eqb_eq in Z0. contradiction. Qed.
(* the receiver's iterator: delivers at i (d = true) or stands beyond i (d = false) *)
Lemma adv1_ok wk lo i (d : bool) c1 :
  RelR wk -> ScanF (pk t) lo c1 -> lo <= i ->
  (d = true -> c1 = Some i) -> (d = false -> forall k, c1 = Some k -> i < k) ->
  exists w1 c1', padv1 t wk (if d then match c1 with Some k => lookup k (vals (getv wk t)) | None => None end
                              else None) c1 = Some (w1, c1') /\
    RelR w1 /\ ScanF (pk t) (i + 1) c1' /\ (forall x, lo <= x < i -> pk t x = 0) /\
    nzb (pk t i) = d /\
    (d = true -> exists l, lookup i (vals (getv wk t)) = Some l /\ c1 = Some i /\ pk t i <> 0).
Proof.
  intros R HS Hi H1 H2. destruct d.
  - rewrite (H1 eq_refl) in *. simpl in HS. destruct HS as (A & B & C).
    destruct (peek_nz_lookup (hp wk) (getv wk t) i) as (l & L & _); [rewrite RelR_peek by auto; auto|].
    rewrite L. cbn [padv1].
    destruct (it_next_some (hp wk) (getv wk t) (Some i) (WInv_getv wk t (RR_inv wk R))) as (v' & c' & N).
    rewrite N. destruct (vec_next wk t i v' c' R Ht N) as (R2 & S2).
    exists (setv wk t v'), c'. split; auto. split; auto. split; auto. split; auto.
    split; [apply nzb_true'; auto|]. intros _. exists l. auto.
  - cbn [padv1]. exists wk, c1. split; auto. split; auto.
    assert (ZZ : forall x, lo <= x <= i -> pk t x = 0).
    { destruct c1 as [k|]; simpl in HS.
      - pose proof (H2 eq_refl k eq_refl). destruct HS as (A & B & C). intros x Hx. apply C. lia.
      - intros x Hx. apply HS. lia. }
    split.
    { eapply ScanF_weaken; [exact HS|lia|]. destruct c1 as [k|]; auto. pose proof (H2 eq_refl k eq_refl). lia. }
    split; [intros x Hx; apply ZZ; lia|]. split; [unfold nzb; rewrite ZZ by lia; auto|discriminate].
Qed.
(* an operand's iterator: delivers at i (d = true) or stands beyond i (d = false) *)
Lemma advc_ok o wk w1 lo i (d : bool) c :
  RelR wk -> RelR w1 -> operand_ok w0 n o -> 0 <= lo -> OC o c lo -> lo <= i < n ->
  (d = true -> pcand c = Some i) -> (d = false -> forall k, pcand c = Some k -> i < k) ->
  exists w2 c', padvc w1 (if d then ci_get wk c else None) c = Some (w2, c') /\
    RelR w2 /\ OC o c' (i + 1) /\ (forall x, lo <= x < i -> stops o x = false) /\ stops o i = d /\
    jval (if d then ci_get wk c else None) = opv o i /\
    (d = true -> (if d then ci_get wk c else None) <> None).
Proof.
  intros R R1 Hop Hlo HC Hi H1 H2. unfold pcand in *.
  destruct (OC_view o wk c lo R Hop Hlo HC) as [(Ok & I & Cz & St & G)|(Ok & Cz)]; rewrite Ok in *.
  - destruct d.
    + specialize (H1 eq_refl). inversion H1 as [Ei]. rewrite G. cbn [padvc jval].
      destruct (ci_next_some w1 c (RR_inv w1 R1)) as (w2 & c' & N). rewrite N.
      destruct (op_next o w1 c lo w2 c' R1 Hop HC Ok N) as (R2 & HC2).
      exists w2, c'. rewrite <- Ei in *. split; auto. split; auto. split; auto. split; auto. split; auto.
      split; auto. intros _. discriminate.
    + pose proof (H2 eq_refl _ eq_refl) as Lt. cbn [padvc jval]. exists w1, c.
      split; auto. split; auto. split; [eapply OC_weaken; eauto; [lia|intros _; lia|congruence]|].
      split; [intros x Hx; apply Cz; lia|]. split; [apply Cz; lia|].
      split; [symmetry; apply stops_false_opv; apply Cz; lia|discriminate].
  - destruct d; [specialize (H1 eq_refl); discriminate|]. cbn [padvc jval]. exists w1, c.
    split; auto. split; auto. split; [eapply OC_weaken; eauto; [lia|congruence|intros _; lia]|].
    split; [intros x Hx; apply Cz; lia|]. split; [apply Cz; lia|].
    split; [symmetry; apply stops_false_opv; apply Cz; lia|discriminate].
Qed.
Lemma pcand_none_stops o wk c lo : RelR wk -> operand_ok w0 n o -> 0 <= lo -> OC o c lo ->
  pcand c = None -> forall x, lo <= x < n -> stops o x = false.
Proof.
  intros R Hop Hlo HC E. unfold pcand in E.
  destruct (OC_view o wk c lo R Hop Hlo HC) as [(Ok & _)|(Ok & Cz)]; rewrite Ok in E; [discriminate|auto].
Qed.
Lemma pcand_range o wk c lo i : RelR wk -> operand_ok w0 n o -> 0 <= lo -> OC o c lo ->
  pcand c = Some i -> lo <= i < n.
Proof.
  intros R Hop Hlo HC E. unfold pcand in E.
  destruct (OC_view o wk c lo R Hop Hlo HC) as [(Ok & I & _)|(Ok & Cz)]; rewrite Ok in E; [|discriminate].
  inversion E. subst i. auto.
Qed.

Section J3.
Variables o2 o3 : operand.
Hypothesis Hop2 : operand_ok w0 n o2.
Hypothesis Hop3 : operand_ok w0 n o3.
Definition visit3 (x : Z) : bool := nzb (pk t x) || stops o2 x || stops o3 x.
Definition vis3_at (x : Z) : Z * bool * Z * Z * Z := (x, nzb (pk t x), pk t x, opv o2 x, opv o3 x).
Definition KState (wk : world) (lo : Z) (j : joint3) : Prop :=
  if kok j then
    lo <= kidx j < n /\ (forall x, lo <= x < kidx j -> visit3 x = false) /\ visit3 (kidx j) = true /\
    ScanF (pk t) (kidx j + 1) (k1 j) /\ OC o2 (k2 j) (kidx j + 1) /\ OC o3 (k3 j) (kidx j + 1) /\
    jval (ks2 j) = opv o2 (kidx j) /\ jval (ks3 j) = opv o3 (kidx j) /\
    match ks1 j with
    | Some l => lookup (kidx j) (vals (getv wk t)) = Some l /\ pk t (kidx j) <> 0
    | None => pk t (kidx j) = 0
    end
  else forall x, lo <= x < n -> visit3 x = false.

Lemma joint3_next_post wk j lo :
  RelR wk -> 0 <= lo -> ScanF (pk t) lo (k1 j) -> OC o2 (k2 j) lo -> OC o3 (k3 j) lo ->
  exists w' j', joint3_next wk t j = Some (w', j') /\ RelR w' /\ KState w' lo j'.
Proof.
  intros R Hlo P1 C2 C3. rewrite joint3_next_sel.
  destruct (psel3 (k1 j) (pcand (k2 j)) (pcand (k3 j)) (kidx j)) as [[[i d1] d2] d3] eqn:S.
  apply psel3_spec in S. destruct S as (S1 & S1' & S2 & S2' & S3 & S3' & SO).
  cbv zeta.
  destruct (orb (orb d1 d2) d3) eqn:Any.
  - assert (Hi : lo <= i < n).
    { destruct d1.
      - rewrite (S1 eq_refl) in P1. simpl in P1. destruct P1 as (A & B & _). pose proof (pk_range t i B). lia.
      - destruct d2; [eapply (pcand_range o2 wk); eauto|].
        destruct d3; [eapply (pcand_range o3 wk); eauto|discriminate]. }
    destruct (adv1_ok wk lo i d1 (k1 j) R P1 (proj1 Hi) S1 S1') as (w1 & c1 & E1 & R1 & P1' & Z1 & N1 & L1).
    rewrite E1.
    destruct (advc_ok o2 wk w1 lo i d2 (k2 j) R R1 Hop2 Hlo C2 Hi S2 S2')
      as (w2 & c2 & E2 & R2 & C2' & Z2 & N2 & V2 & X2).
    rewrite E2.
    destruct (advc_ok o3 wk w2 lo i d3 (k3 j) R R2 Hop3 Hlo C3 Hi S3 S3')
      as (w3 & c3 & E3 & R3 & C3' & Z3 & N3 & V3 & X3).
    rewrite E3.
    eexists. eexists. split; [reflexivity|]. split; [exact R3|].
    unfold KState. cbn [kok kidx ks1 ks2 ks3 k1 k2 k3].
    set (s1 := if d1 then match k1 j with Some k => lookup k (vals (getv wk t)) | None => None end else None) in *.
    set (s2 := if d2 then ci_get wk (k2 j) else None) in *.
    set (s3 := if d3 then ci_get wk (k3 j) else None) in *.
    assert (Es1 : if d1 then exists l, s1 = Some l /\ lookup i (vals (getv w3 t)) = Some l /\ pk t i <> 0
                  else s1 = None /\ pk t i = 0).
    { unfold s1. destruct d1.
      - destruct (L1 eq_refl) as (l & La & Lb & Lc). rewrite Lb. exists l. split; auto.
        split; auto. eapply (cell_stable wk); eauto.
      - split; auto. unfold nzb in N1. apply negb_false_iff, Z.eqb_eq in N1. auto. }
    assert (Ok : match s1, s2, s3 with None, None, None => false | _, _, _ => true end = true).
    { destruct d1; [destruct Es1 as (l & -> & _); auto|].
      destruct d2; [specialize (X2 eq_refl); destruct s2; [destruct s1; auto|congruence]|].
      destruct d3; [|discriminate]. specialize (X3 eq_refl). destruct s3; [destruct s1, s2; auto|congruence]. }
    rewrite Ok. split; [exact Hi|].
    split; [intros x Hx; unfold visit3; rewrite Z1, Z2, Z3 by lia; auto|].
    split; [unfold visit3; rewrite N1, N2, N3; exact Any|].
    split; [exact P1'|]. split; [exact C2'|]. split; [exact C3'|]. split; [exact V2|]. split; [exact V3|].
    destruct d1.
    + destruct Es1 as (l & -> & La & Lb). auto.
    + destruct Es1 as (-> & Lb). auto.
  - apply orb_false_iff in Any. destruct Any as [Any D3]. apply orb_false_iff in Any. destruct Any as [D1 D2].
    subst d1 d2 d3. rewrite orb_false_iff in SO. destruct SO as [SO E3']. rewrite orb_false_iff in SO.
    destruct SO as [E1' E2'].
    assert (K1 : k1 j = None) by (destruct (k1 j); auto; discriminate).
    assert (K2 : pcand (k2 j) = None) by (destruct (pcand (k2 j)); auto; discriminate).
    assert (K3 : pcand (k3 j) = None) by (destruct (pcand (k3 j)); auto; discriminate).
    unfold padv1, padvc. eexists. eexists. split; [reflexivity|]. split; [exact R|].
    unfold KState. cbn [kok]. intros x Hx. unfold visit3. rewrite K1 in P1. simpl in P1.
    rewrite P1 by lia.
    rewrite (pcand_none_stops o2 wk (k2 j) lo R Hop2 Hlo C2 K2) by auto.
    rewrite (pcand_none_stops o3 wk (k3 j) lo R Hop3 Hlo C3 K3) by auto. auto.
Qed.
Lemma joint3_loop_ok f : forall wk j lo acc,
  RelR wk -> 0 <= lo -> KState wk lo j ->
  (length (filter visit3 (zseq lo (Z.to_nat (n - lo)))) < f)%nat ->
  exists w', joint3_loop f wk t j acc
             = Some (w', rev acc ++ map vis3_at (filter visit3 (zseq lo (Z.to_nat (n - lo))))) /\ RelR w'.
Proof.
  induction f as [|f IH]; intros wk j lo acc R Hlo S F; [lia|].
  cbn [joint3_loop]. unfold KState in S. destruct (kok j) eqn:Ok.
  - destruct S as (I & Vz & Vt & HR & HC2 & HC3 & Jv2 & Jv3 & Js).
    assert (Ev : (kidx j, match ks1 j with Some _ => true | None => false end,
                  match ks1 j with Some l => hget (hp wk) l | None => 0 end, jval (ks2 j), jval (ks3 j))
                 = vis3_at (kidx j)).
    { unfold vis3_at. rewrite Jv2, Jv3. destruct (ks1 j) as [l|].
      - destruct Js as [L Nz]. rewrite nzb_true' by auto.
        pose proof (RelR_peek wk t (kidx j) R) as P. unfold peek in P. rewrite L in P. rewrite P. auto.
      - rewrite Js. auto. }
    rewrite Ev.
    destruct (joint3_next_post wk j (kidx j + 1) R) as (w2 & j' & N & R2 & S2); auto; [lia|].
    rewrite N.
    rewrite (filter_zseq_first visit3 (kidx j) n (Z.to_nat (kidx j - lo)) lo) in * by auto.
    destruct (IH w2 j' (kidx j + 1) (vis3_at (kidx j) :: acc) R2) as (w' & E & R'); [lia|auto|simpl in F; lia|].
    exists w'. split; auto. rewrite E. simpl. rewrite <- app_assoc. auto.
  - exists wk. split; auto. rewrite filter_none; [simpl; rewrite app_nil_r; auto|].
    intros y Hy. apply In_zseq in Hy. apply S. lia.
Qed.
Lemma stops_count o : operand_ok w0 n o ->
  (length (filter (stops o) (zseq 0 (Z.to_nat n))) <= op_len w0 o)%nat.
Proof.
  intro Hop. destruct o as [u|d]; simpl in Hop.
  - destruct Hop as [_ Hd]. rewrite <- Hd. apply (nz_count u).
  - eapply Nat.le_trans; [apply filter_length_le|]. rewrite zseq_length. simpl. lia.
Qed.
Lemma visit3_count : (length (filter visit3 (zseq 0 (Z.to_nat n)))
                      <= length (idx (getv w0 t)) + op_len w0 o2 + op_len w0 o3)%nat.
Proof.
  unfold visit3. eapply Nat.le_trans; [apply filter_or_length|]. apply Nat.add_le_mono; [|apply stops_count; auto].
  eapply Nat.le_trans; [apply filter_or_length|]. apply Nat.add_le_mono; [apply (nz_count t)|apply stops_count; auto].
Qed.
Lemma joint3_run_ok :
  exists w', joint3_run w0 t o2 o3 = Some (w', map vis3_at (filter visit3 (zseq 0 (Z.to_nat n)))).
Proof.
  unfold joint3_run, joint3_begin.
  destruct (it_begin_tot h0 (getv w0 t) (WInv_getv w0 t HI0)) as (v' & c1 & B1 & _). rewrite B1.
  destruct (vec_begin w0 t v' c1 RelR_init Ht B1) as (R1 & HS).
  destruct (ci_begin_some (setv w0 t v') o2 (RR_inv _ R1)) as (w1 & c2 & B2). rewrite B2.
  destruct (op_begin o2 _ w1 c2 R1 Hop2 B2) as (R2 & HC2).
  destruct (ci_begin_some w1 o3 (RR_inv _ R2)) as (w2 & c3 & B3). rewrite B3.
  destruct (op_begin o3 _ w2 c3 R2 Hop3 B3) as (R3 & HC3).
  match goal with |- context [joint3_next w2 t ?J] =>
    destruct (joint3_next_post w2 J 0 R3 (Z.le_refl 0) HS HC2 HC3) as (w3 & j & N & R4 & S4) end.
  rewrite N.
  destruct (joint3_loop_ok (S (S (length (idx (getv w0 t)) + op_len w0 o2 + op_len w0 o3))) w3 j 0 [] R4
              (Z.le_refl 0) S4) as (w' & E & _).
  - rewrite Z.sub_0_r. pose proof visit3_count. lia.
  - exists w'. rewrite E. simpl. rewrite Z.sub_0_r. auto.
Qed.
End J3.
End JointRO.

(* ---- from the visit list to the dense reading ------------------------------------------ *)
Lemma flat_map_filter {X Y W} (g : Y -> list W) (f : X -> Y) (p : X -> bool) l :
  flat_map g (map f (filter p l)) = flat_map (fun i => if p i then g (f i) else []) l.
Proof. induction l as [|x l IH]; simpl; auto. destruct (p x); simpl; rewrite IH; auto. Qed.
Lemma flat_map_ext_zseq {W} (f g : Z -> list W) a m :
  (forall i, a <= i < a + Z.of_nat m -> f i = g i) -> flat_map f (zseq a m) = flat_map g (zseq a m).
Proof.
  intro H. rewrite !flat_map_concat_map. f_equal. apply map_ext_in. intros i Hi. apply In_zseq in Hi. auto.
Qed.
Lemma nth_dget_pk w u i : WInv w -> 0 <= i < dim (getv w u) -> nth (Z.to_nat i) (dget (absw w) u) 0 = pk w u i.
Proof. intros HI Hi. rewrite dget_absw. apply abs_nth. auto. Qed.
Lemma dval_opv w o i : WInv w -> 0 <= i < op_dim w o -> dval (absw w) o i = opv w o i.
Proof.
  intros HI Hi. destruct o as [u|d]; unfold dval; simpl in *; auto. apply nth_dget_pk; auto.
Qed.
Lemma dstops_stops w o i : WInv w -> 0 <= i < op_dim w o -> dstops (absw w) o i = stops w o i.
Proof. intros HI Hi. destruct o as [u|d]; simpl; auto. rewrite dval_opv; auto. Qed.
Lemma op_dim_ok w n0 o : operand_ok w n0 o -> op_dim w o = n0.
Proof. destruct o; simpl; tauto. Qed.
Lemma dget_length w u : WInv w -> length (dget (absw w) u) = Z.to_nat (dim (getv w u)).
Proof.
  intro HI. rewrite dget_absw. pose proof (abs_length (hp w) (getv w u)) as L.
  assert (0 <= dim (getv w u)) by (apply (WInv_getv w u HI)). lia.
Qed.

Lemma joint_payload w t o : WInv w -> has w t -> operand_ok w (dim (getv w t)) o ->
  exists w', joint_run w t o = Some (w', map (vis_at w t o) (filter (visit w t o) (zseq 0 (Z.to_nat (dim (getv w t)))))) /\
    flat_map (fun x => let '(i, p, a, b) := x in [i; b2z p; a; b])
             (map (vis_at w t o) (filter (visit w t o) (zseq 0 (Z.to_nat (dim (getv w t)))))) = djoint (absw w) t o.
Proof.
  intros HI Ht Hop. destruct (joint_run_ok w t HI Ht o Hop) as [w' E]. exists w'. split; [exact E|].
  rewrite flat_map_filter. unfold djoint. rewrite dget_length by auto.
  apply flat_map_ext_zseq. intros i Hi.
  assert (Hn : 0 <= dim (getv w t)) by (apply (WInv_getv w t HI)).
  assert (Hi' : 0 <= i < dim (getv w t)) by lia.
  pose proof (op_dim_ok _ _ _ Hop) as Od.
  cbv zeta. rewrite nth_dget_pk, dstops_stops, dval_opv by (auto; rewrite Od; auto).
  unfold visit, vis_at. destruct (nzb (pk w t i) || stops w o i); auto.
Qed.
Lemma joint3_payload w t o2 o3 : WInv w -> has w t ->
  operand_ok w (dim (getv w t)) o2 -> operand_ok w (dim (getv w t)) o3 ->
  exists w' vs, joint3_run w t o2 o3 = Some (w', vs) /\
    flat_map (fun x => let '(i, p, a, b, c) := x in [i; b2z p; a; b; c]) vs = djoint3 (absw w) t o2 o3.
Proof.
  intros HI Ht Hop2 Hop3. destruct (joint3_run_ok w t HI Ht o2 o3 Hop2 Hop3) as [w' E].
  exists w'. eexists. split; [exact E|].
  rewrite flat_map_filter. unfold djoint3. rewrite dget_length by auto.
  apply flat_map_ext_zseq. intros i Hi.
  assert (Hn : 0 <= dim (getv w t)) by (apply (WInv_getv w t HI)).
  assert (Hi' : 0 <= i < dim (getv w t)) by lia.
  pose proof (op_dim_ok _ _ _ Hop2) as Od2. pose proof (op_dim_ok _ _ _ Hop3) as Od3.
  cbv zeta. rewrite nth_dget_pk by auto.
  rewrite !dstops_stops, !dval_opv by (auto; rewrite ?Od2, ?Od3; auto).
  unfold visit3, vis3_at. destruct (nzb (pk w t i) || stops w o2 i || stops w o3 i); auto.
Qed.

(* ---- the payload of a step, all reading operations --------------------------------------- *)
Lemma step_out2 w o q :
  WInv w -> WWf w -> in_range w o -> dout2 (absw w) o = Some q -> snd (step w o) = (K_OK, q).
Proof.
  intros HI HW R D.
  assert (Old : dout (absw w) o = Some q -> snd (step w o) = (K_OK, q)) by (apply step_out; auto).
  destruct o; try (apply Old; exact D); simpl in D; inversion D; subst q; clear D Old; cbn [step].
  - (* IterPart *) rewrite dget_absw.
    destruct (iter_part_payload (hp w) (getv w t) m (WInv_getv w t HI)) as (v' & s & A & B).
    destruct (it_begin (hp w) (getv w t)) as [[v0 cur]|]; [|discriminate]. rewrite A. cbn [snd]. rewrite B. auto.
  - (* Joint *) destruct R as [R1 R2].
    destruct (joint_payload w t o HI R1 R2) as (w' & A & B). rewrite A. cbn [snd]. rewrite B. auto.
  - (* Joint3 *) destruct R as (R1 & R2 & R3).
    destruct (joint3_payload w t o2 o3 HI R1 R2 R3) as (w' & vs & A & B). rewrite A. cbn [snd]. rewrite B. auto.
Qed.
(* ... and none of them changes what any vector reads like *)
Lemma step_read_frame w o q :
  WInv w -> WWf w -> in_range w o -> dout2 (absw w) o = Some q -> absw (fst (step w o)) = absw w.
Proof.
  intros HI HW R D.
  assert (S : safe w o -> absw (fst (step w o)) = dstep (absw w) o).
  { intro Sf. apply (step_sim set_vec_refines set_vec_total w o HI HW R Sf). }
  destruct o; simpl in D; try discriminate; apply S; exact Logic.I.
Qed.

(* ---- the statements of PropsPay.v ------------------------------------------------------------ *)
Lemma step_reads2 w o q :
  WInv w -> WWf w -> in_range w o -> dout2 (absw w) o = Some q ->
  snd (step w o) = (K_OK, q) /\ absw (fst (step w o)) = absw w.
Proof. intros HI HW R D. split; [eapply step_out2; eauto|eapply step_read_frame; eauto]. Qed.
Lemma joint_visits w t o : WInv w -> has w t -> operand_ok w (dim (getv w t)) o ->
  exists w' vs, joint_run w t o = Some (w', vs) /\
    flat_map (fun x => let '(i, p, a, b) := x in [i; b2z p; a; b]) vs = djoint (absw w) t o.
Proof. intros HI Ht Hop. destruct (joint_payload w t o HI Ht Hop) as (w' & A & B). eauto. Qed.
(* every history: the value read by the LAST operation of a valid, safe history *)
Lemma run_reads2 ops o q :
  valid_safe init ops -> let w := run init ops in
  in_range w o -> dout2 (dense_run [] ops) o = Some q ->
  snd (step w o) = (K_OK, q) /\ absw (fst (step w o)) = dense_run [] ops.
Proof.
  intros V w R D.
  destruct (run_sim set_vec_refines set_vec_total ops init WInv_init WWf_init V) as [A W].
  change (absw init) with (@nil (list Z)) in A. fold w in A, W. rewrite <- A in *. apply step_reads2; auto.
  apply run_WInv; [exact WInv_init|]. clear - V. revert V. generalize init.
  induction ops as [|x r IH]; intros w0 V; simpl in *; auto. destruct V as (V1 & _ & V3). split; auto.
Qed.
