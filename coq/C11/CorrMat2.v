(* C11 correspondence, sparse matrices, second check: in addition to CorrMat.mcheck
   (model vs implementation, per step) every replayed matrix history is run next to
   the PLAIN DENSE MODEL DenseMat.v: mdense_diverge must be None, i.e. after every
   in-range, safe operation the abstraction of the (implementation-matched) sparse
   world equals the dense world and the values read / iterated equal mdout. *)
From Coq Require Import ZArith List Bool.
From ADV Require Import Base.Corr C11.Model C11.ModelMat C11.CorrMat C11.DenseMat.
Import ListNotations.
Open Scope Z_scope.

Definition mcheck2 (c : mcase) : bool :=
  mcheck c && match mdense_diverge 0 minit [] (fst c) with None => true | Some _ => false end.
Definition mism_mat2 (cs : list mcase) : list nat := mismatches mcheck2 cs.
Definition mdense_div (c : mcase) : option nat := mdense_diverge 0 minit [] (fst c).
