(* C11 correspondence, second check for vector histories: Corr.check (model vs
   implementation per step + Dense.dense_diverge) and, in addition, the dense model
   with the payload readings of DensePay.v (IterPart, Joint, Joint3 included):
   dense_diverge2 must be None on every replayed history. *)
From Coq Require Import ZArith List Bool.
From ADV Require Import Base.Corr C11.Model C11.Spec C11.Dense C11.Corr C11.DensePay.
Import ListNotations.
Open Scope Z_scope.

Definition dense_ok2 (c : case) : bool :=
  match dense_diverge2 0 init [] (fst c) with None => true | Some _ => false end.
(* dense_diverge2 subsumes Corr.dense_ok: dout2 extends dout, everything else is identical *)
Definition check2 (c : case) : bool := list_eqb out_eqb (run_obs init (fst c)) (snd c) && dense_ok2 c.
Definition mism2 (cs : list case) : list nat := mismatches check2 cs.
Definition dense_div2 (c : case) : option nat := dense_diverge2 0 init [] (fst c).
