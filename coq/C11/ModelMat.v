(* C11, part 3 — executable model of /repo/matrix_sparse_template.in (the nine
   matrix_sparse_<type>.go are instantiations of the same text), hand-written,
   mirroring the Go control flow at HEAD (after fix bd36f8c: Set and
   SetIdentity have two loops).  Built on C11.Model: a sparse matrix is a
   header plus ONE sparse vector [mv] (Go: `values`) of length rowMax*colMax;
   element (i,j) lives at key index(i,j) = (rowOffset+i)*colMax + (colOffset+j).

   No proofs in this file.

   Scope: WHOLE matrices only (rowOffset = colOffset = 0, rows = rowMax,
   cols = colMax), i.e. what the constructors, Clone, T() and Tip() of whole
   matrices produce.  The header fields are kept general (index / ij are the Go
   formulas), but no operation of [mstep] creates a proper window: Slice is
   C10's subject (known findings F-SPITER, F-SPT, F-SPT-REF, F-ASVEC).
   Left out: tmp1 / tmp2 (scratch vectors used by the arithmetic only, never
   read or written by the operations below).
   Integer division: Go's / and % truncate; [Z.quot] / [Z.rem] are the same
   functions.  Division by colMax = 0 cannot be reached: ij(k) is evaluated
   only for a stored key k, and a vector of length rowMax*0 stores none.
   Map order: T() walks the Go map; the result is order independent for whole
   matrices (k1 |-> k2 is injective), the model walks the association list. *)
From Coq Require Import ZArith List Bool Lia.
From ADV Require Import C11.Model.
Import ListNotations.
Open Scope Z_scope.

Record smat := { mv : svec; mrows : Z; mcols : Z; roff : Z; rmax : Z; coff : Z; cmax : Z }.
Definition set_mv (m : smat) (v : svec) : smat :=
  {| mv := v; mrows := mrows m; mcols := mcols m; roff := roff m; rmax := rmax m; coff := coff m; cmax := cmax m |}.
(* NULL_MATRIX(rows, cols) *)
Definition null_mat (r c : Z) : smat :=
  {| mv := nil_vec (r * c); mrows := r; mcols := c; roff := 0; rmax := r; coff := 0; cmax := c |}.

(* index(i,j): panics (None) outside [0,rows) x [0,cols) *)
Definition mindex (m : smat) (i j : Z) : option Z :=
  if (i <? 0) || (j <? 0) || (mrows m <=? i) || (mcols m <=? j) then None
  else Some ((roff m + i) * cmax m + (coff m + j)).
(* ij(k) *)
Definition mij (m : smat) (k : Z) : Z * Z :=
  (Z.quot k (cmax m) - roff m, Z.rem k (cmax m) - coff m).

(* AT(i,j) = values.AT(index(i,j)): creates *)
Definition mat_at (h : heap) (m : smat) (i j : Z) : option (heap * smat * loc) :=
  match mindex m i j with
  | None => None
  | Some k => match at_ h (mv m) k with
              | None => None
              | Some (h', v', l) => Some (h', set_mv m v', l)
              end
  end.
(* ConstAt(i,j) = values.ConstAt(index(i,j)) *)
Definition mconst_at (h : heap) (m : smat) (i j : Z) : option Z :=
  match mindex m i j with None => None | Some k => const_at h (mv m) k end.

(* all positions, row-major: for i := 0; i < r; i++ { for j := 0; j < c; j++ *)
Definition positions (r c : Z) : list (Z * Z) :=
  flat_map (fun i => map (fun j => (i, j)) (zseq 0 (Z.to_nat c))) (zseq 0 (Z.to_nat r)).

(* for (i,j,x) in es { m.AT(i,j).Set(x) }: stops at the first panic (false), what was
   written so far stays *)
Fixpoint set_list (es : list (Z * Z * Z)) (h : heap) (m : smat) : heap * smat * bool :=
  match es with
  | [] => (h, m, true)
  | (i, j, x) :: r =>
      match mat_at h m i j with
      | None => (h, m, false)
      | Some (h1, m1, l) => set_list r (hset h1 l x) m1
      end
  end.
(* for all (i,j) { f(m.At(i,j)) }: Map / MapSet create every entry *)
Fixpoint map_list (f : Z -> Z) (ps : list (Z * Z)) (h : heap) (m : smat) : heap * smat * bool :=
  match ps with
  | [] => (h, m, true)
  | (i, j) :: r =>
      match mat_at h m i j with
      | None => (h, m, false)
      | Some (h1, m1, l) => map_list f r (hset h1 l (f (hget h1 l))) m1
      end
  end.

(* NEW_MATRIX(rowIndices, colIndices, values, rows, cols): At(j1,j2).Set(v) for the
   non-zero values, in order (duplicates overwrite; an out-of-range position
   panics only when its value is non-zero) *)
Definition new_mat (h : heap) (ris cis xs : list Z) (r c : Z) : option (heap * smat) :=
  if negb (Nat.eqb (length ris) (length cis)) || negb (Nat.eqb (length cis) (length xs)) then None
  else
    let es := filter (fun e => negb (snd e =? 0)) (combine (combine ris cis) xs) in
    let '(h', m', ok) := set_list es h (null_mat r c) in
    if ok then Some (h', m') else None.

(* for it := m.Iterator(); it.Ok(); it.Next() { i,j := it.Index(); it.Get().Set(rd(i,j)) }
   the matrix iterator is the vector ITERATOR over `values` (skip() removes null
   entries), Index() = ij(k).  [rd] sees the current heap and the current
   `values` of the receiver (needed when the source is the receiver itself).
   None = out of fuel; (.., false) = rd panicked *)
Fixpoint wr_loop (fuel : nat) (rd : heap -> svec -> Z -> Z -> option Z) (m : smat)
                 (h : heap) (v : svec) (cur : option Z) : option (heap * svec * bool) :=
  match cur with
  | None => Some (h, v, true)
  | Some k =>
      match fuel with
      | O => None
      | S f =>
          match lookup k (vals v) with
          | None => None                         (* impossible after skip *)
          | Some l =>
              let '(i, j) := mij m k in
              match rd h v i j with
              | None => Some (h, v, false)
              | Some x =>
                  let h' := hset h l x in
                  match it_next h' v cur with
                  | None => None
                  | Some (v', cur') => wr_loop f rd m h' v' cur'
                  end
              end
          end
      end
  end.
Definition wr_all (rd : heap -> svec -> Z -> Z -> option Z) (h : heap) (m : smat) : option (heap * smat * bool) :=
  match it_begin h (mv m) with
  | None => None
  | Some (v0, cur) =>
      match wr_loop (sfuel (mv m)) rd m h v0 cur with
      | None => None
      | Some (h', v', ok) => Some (h', set_mv m v', ok)
      end
  end.

(* second loop of Set(b), b a sparse matrix:
   for it := b.ConstIterator(); it.Ok(); it.Next() { i,j := it.Index(); a.AT(i,j).Set(it.GetConst()) }
   [same] = the receiver IS b (one `values` vector: va and vb are kept equal) *)
Fixpoint set2_loop (fuel : nat) (same : bool) (a b : smat) (h : heap) (va vb : svec) (cur : option Z)
  : option (heap * svec * svec * bool) :=
  match cur with
  | None => Some (h, va, vb, true)
  | Some k =>
      match fuel with
      | O => None
      | S f =>
          match lookup k (vals vb) with
          | None => None
          | Some l =>
              let '(i, j) := mij b k in
              match mat_at h (set_mv a va) i j with
              | None => Some (h, va, vb, false)
              | Some (h1, a1, l') =>
                  let h2 := hset h1 l' (hget h1 l) in
                  let vb1 := if same then mv a1 else vb in
                  match it_next h2 vb1 cur with
                  | None => None
                  | Some (vb2, cur') => set2_loop f same a b h2 (if same then vb2 else mv a1) vb2 cur'
                  end
              end
          end
      end
  end.

(* ----------------------------------------------------------------- world *)
Record mworld := { mhp : heap; mats : list smat }.
Definition minit : mworld := {| mhp := []; mats := [] |}.
Definition getm (w : mworld) (t : nat) : smat := nth t (mats w) (null_mat 0 0).
Definition setm (w : mworld) (t : nat) (m : smat) : mworld := {| mhp := mhp w; mats := upd t m (mats w) |}.
Definition msetH (w : mworld) (h : heap) : mworld := {| mhp := h; mats := mats w |}.
Definition addm (w : mworld) (m : smat) : mworld := {| mhp := mhp w; mats := mats w ++ [m] |}.

(* source of Set: a sparse matrix of the world or a dense matrix r x c given
   row-major (ad.NewDenseFloat64Matrix) *)
Inductive moperand := OM (u : nat) | OMD (r c : Z) (xs : list Z).
Definition dense_at (r c : Z) (xs : list Z) (i j : Z) : option Z :=
  if (i <? 0) || (j <? 0) || (r <=? i) || (c <=? j) then None
  else Some (nth (Z.to_nat (i * c + j)) xs 0).
(* the dense matrix ConstIterator visits the NON-ZERO positions, row-major
   (matrix_dense_template.in Next(): for Ok() && GET().nullScalar() { next() }) *)
Definition dense_entries (r c : Z) (xs : list Z) : list (Z * Z * Z) :=
  filter (fun e => negb (snd e =? 0))
         (map (fun p => (p, nth (Z.to_nat (fst p * c + snd p)) xs 0)) (positions r c)).

(* a.Set(b): result None = out of fuel; (w', false) = panicked in state w' *)
Definition mset (w : mworld) (t : nat) (o : moperand) : option (mworld * bool) :=
  let a := getm w t in
  let h := mhp w in
  let '(r2, c2) := match o with OM u => (mrows (getm w u), mcols (getm w u)) | OMD r c _ => (r, c) end in
  if negb (mrows a =? r2) || negb (mcols a =? c2) then Some (w, false)
  else
    let rd := fun h' v' i j =>
      match o with
      | OM u => if Nat.eqb u t then mconst_at h' (set_mv a v') i j else mconst_at h' (getm w u) i j
      | OMD r c xs => dense_at r c xs i j
      end in
    match wr_all rd h a with
    | None => None
    | Some (h1, a1, false) => Some (setm (msetH w h1) t a1, false)
    | Some (h1, a1, true) =>
        match o with
        | OMD r c xs =>
            let '(h2, a2, ok) := set_list (dense_entries r c xs) h1 a1 in
            Some (setm (msetH w h2) t a2, ok)
        | OM u =>
            let same := Nat.eqb u t in
            let b := if same then a1 else getm w u in
            match it_begin h1 (mv b) with
            | None => None
            | Some (vb0, cur) =>
                let va0 := if same then vb0 else mv a1 in
                match set2_loop (sfuel (mv b)) same a1 b h1 va0 vb0 cur with
                | None => None
                | Some (h2, va, vb, ok) =>
                    Some (setm (setm (msetH w h2) u (set_mv b vb)) t (set_mv a1 va), ok)
                end
            end
        end
    end.

(* SetIdentity(): loop 1 over the existing entries, loop 2 creates the diagonal *)
Definition diag_entries (r c : Z) : list (Z * Z * Z) :=
  map (fun i => (i, i, 1)) (zseq 0 (Z.to_nat (Z.min r c))).
Definition mset_identity (h : heap) (m : smat) : option (heap * smat * bool) :=
  match wr_all (fun _ _ i j => Some (if i =? j then 1 else 0)) h m with
  | None => None
  | Some (h1, m1, false) => Some (h1, m1, false)
  | Some (h1, m1, true) => Some (set_list (diag_entries (mrows m) (mcols m)) h1 m1)
  end.
(* Reset(): it.Get().Reset() for every (non-null) entry *)
Definition mreset (h : heap) (m : smat) : option (heap * smat * bool) :=
  wr_all (fun _ _ _ _ => Some 0) h m.

(* Swap(i1,j1,i2,j2) *)
Definition mswap (m : smat) (i1 j1 i2 j2 : Z) : option smat :=
  match mindex m i1 j1, mindex m i2 j2 with
  | Some k1, Some k2 => Some (set_mv m (swap (mv m) k1 k2))
  | _, _ => None
  end.
(* SwapRows / SwapColumns: (m', K) with K = K_OK / K_ERR (not square, nothing done) /
   K_PANIC (an index() panicked; the swaps done so far stay) *)
Fixpoint swap_seq (qs : list (Z * Z * Z * Z)) (m : smat) : smat * bool :=
  match qs with
  | [] => (m, true)
  | (i1, j1, i2, j2) :: r =>
      match mswap m i1 j1 i2 j2 with
      | None => (m, false)
      | Some m' => swap_seq r m'
      end
  end.
Definition mswap_rows (m : smat) (i j : Z) : smat * Z :=
  if negb (mrows m =? mcols m) then (m, K_ERR)
  else let '(m', ok) := swap_seq (map (fun k => (i, k, j, k)) (zseq 0 (Z.to_nat (mcols m)))) m in
       (m', if ok then K_OK else K_PANIC).
Definition mswap_cols (m : smat) (i j : Z) : smat * Z :=
  if negb (mrows m =? mcols m) then (m, K_ERR)
  else let '(m', ok) := swap_seq (map (fun k => (k, i, k, j)) (zseq 0 (Z.to_nat (mrows m)))) m in
       (m', if ok then K_OK else K_PANIC).

(* T(): NEW matrix (swapped header, fresh map and index) holding the EXISTING
   cells of the receiver: for k1, value := range values { i1,j1 := ij(k1);
   k2 := m.index(j1,i1); m.values[k2] = value; m.indexInsert(k2) } *)
Fixpoint t_loop (src : smat) (es : vmap) (m : smat) : option smat :=
  match es with
  | [] => Some m
  | (k1, l) :: r =>
      let '(i1, j1) := mij src k1 in
      match mindex m j1 i1 with
      | None => None
      | Some k2 =>
          t_loop src r (set_mv m {| vals := insert k2 l (vals (mv m)); idx := kins k2 (idx (mv m)); dim := dim (mv m) |})
      end
  end.
Definition mtrans (m : smat) : option smat :=
  t_loop m (vals (mv m))
    {| mv := nil_vec (dim (mv m)); mrows := mcols m; mcols := mrows m;
       roff := coff m; rmax := cmax m; coff := roff m; cmax := rmax m |}.

(* Tip(): in-place transposition by cycle following on `values` *)
Fixpoint tip_inner (fuel : nat) (r mn1 cycle k : Z) (vis : list Z) (v : svec) : option (svec * list Z) :=
  match fuel with
  | O => None
  | S f =>
      let k' := if k =? mn1 then k else Z.rem (r * k) mn1 in
      let v' := swap v k' cycle in
      if k' =? cycle then Some (v', k' :: vis) else tip_inner f r mn1 cycle k' (k' :: vis) v'
  end.
Fixpoint tip_outer (cs : list Z) (r mn : Z) (vis : list Z) (v : svec) : option svec :=
  match cs with
  | [] => Some v
  | cycle :: cs' =>
      if kmem cycle vis then tip_outer cs' r mn vis v
      else match tip_inner (S (Z.to_nat mn)) r (mn - 1) cycle cycle vis v with
           | None => None
           | Some (v', vis') => tip_outer cs' r mn vis' v'
           end
  end.
Definition mtip (m : smat) : option smat :=
  let mn := dim (mv m) in
  match tip_outer (zseq 1 (Z.to_nat (mn - 1))) (mrows m) mn [] (mv m) with
  | None => None
  | Some v' => Some {| mv := v'; mrows := mcols m; mcols := mrows m;
                       roff := coff m; rmax := cmax m; coff := roff m; cmax := rmax m |}
  end.

(* ROW(i) / COL(j) / DIAG(): a FRESH vector holding copies of the non-null entries:
   for p := 0; p < n; p++ { if s := values.AT_(index(..)); !s.nullScalar() { v.AT(p).SET(s) } } *)
Fixpoint copy_loop (h : heap) (m : smat) (ps : list (Z * Z * Z)) (r : svec) : option (heap * svec) :=
  match ps with
  | [] => Some (h, r)
  | (p, i, j) :: ps' =>
      match mindex m i j with
      | None => None
      | Some k =>
          if in_bounds (mv m) k then
            if isnull h (mv m) k then copy_loop h m ps' r
            else match at_ h r p with
                 | None => None
                 | Some (h1, r1, l) => copy_loop (hset h1 l (peek h (mv m) k)) m ps' r1
                 end
          else None
      end
  end.
Definition mrow (h : heap) (m : smat) (i : Z) :=
  copy_loop h m (map (fun j => (j, i, j)) (zseq 0 (Z.to_nat (mcols m)))) (nil_vec (mcols m)).
Definition mcol (h : heap) (m : smat) (j : Z) :=
  copy_loop h m (map (fun i => (i, i, j)) (zseq 0 (Z.to_nat (mrows m)))) (nil_vec (mrows m)).
Definition mdiag (h : heap) (m : smat) :=
  if negb (mrows m =? mcols m) then None
  else copy_loop h m (map (fun i => (i, i, i)) (zseq 0 (Z.to_nat (mrows m)))) (nil_vec (mrows m)).

(* ------------------------------------------------------------ operations *)
Inductive mop :=
  | NewMat (ris cis xs : list Z) (r c : Z)      (* NewSparseXMatrix(rowIndices, colIndices, values, rows, cols) *)
  | MAt (t : nat) (i j : Z)                     (* m.At(i,j): creates, no write *)
  | MSetAt (t : nat) (i j x : Z)                (* m.At(i,j).SetFloat64(x) *)
  | MConstAt (t : nat) (i j : Z)
  | MSet (t : nat) (o : moperand)               (* a.Set(b) *)
  | MReset (t : nat)
  | MSetIdentity (t : nat)
  | MSwap (t : nat) (i1 j1 i2 j2 : Z)
  | MSwapRows (t : nat) (i j : Z)
  | MSwapColumns (t : nat) (i j : Z)
  | MT (t : nat)                                (* m.T(): new handle *)
  | MTip (t : nat)
  | MClone (t : nat)                            (* new handle *)
  | MIterate (t : nat)                          (* full ConstIterator loop: (i, j, value)* *)
  | MIterPart (t : nat) (n : nat)               (* the loop abandoned after n visits *)
  | MMapMul (t : nat) (c : Z)                   (* m.Map(x := x*c) *)
  | MMapSetMul (t : nat) (c : Z)                (* m.MapSet(x -> x*c) *)
  | MReduceSum (t : nat)
  | MDims (t : nat)
  | MRow (t : nat) (i : Z)                      (* payload: observation of the fresh vector *)
  | MCol (t : nat) (j : Z)
  | MDiag (t : nat).

Definition mseq_vals (h : heap) (m : smat) (s : list (Z * loc)) : list Z :=
  flat_map (fun p => let '(i, j) := mij m (fst p) in [i; j; hget h (snd p)]) s.

Definition mstep (w : mworld) (o : mop) : mworld * (Z * list Z) :=
  let h := mhp w in
  match o with
  | NewMat ris cis xs r c =>
      match new_mat h ris cis xs r c with
      | Some (h', m) => (addm (msetH w h') m, (K_OK, []))
      | None => (w, (K_PANIC, []))
      end
  | MAt t i j =>
      match mat_at h (getm w t) i j with
      | Some (h', m', l) => (setm (msetH w h') t m', (K_OK, [hget h' l]))
      | None => (w, (K_PANIC, []))
      end
  | MSetAt t i j x =>
      match mat_at h (getm w t) i j with
      | Some (h', m', l) => (setm (msetH w (hset h' l x)) t m', (K_OK, []))
      | None => (w, (K_PANIC, []))
      end
  | MConstAt t i j =>
      match mconst_at h (getm w t) i j with
      | Some x => (w, (K_OK, [x]))
      | None => (w, (K_PANIC, []))
      end
  | MSet t o =>
      match mset w t o with
      | Some (w', ok) => (w', (if ok then K_OK else K_PANIC, []))
      | None => (w, (K_FUEL, []))
      end
  | MReset t =>
      match mreset h (getm w t) with
      | Some (h', m', ok) => (setm (msetH w h') t m', (if ok then K_OK else K_PANIC, []))
      | None => (w, (K_FUEL, []))
      end
  | MSetIdentity t =>
      match mset_identity h (getm w t) with
      | Some (h', m', ok) => (setm (msetH w h') t m', (if ok then K_OK else K_PANIC, []))
      | None => (w, (K_FUEL, []))
      end
  | MSwap t i1 j1 i2 j2 =>
      match mswap (getm w t) i1 j1 i2 j2 with
      | Some m' => (setm w t m', (K_OK, []))
      | None => (w, (K_PANIC, []))
      end
  | MSwapRows t i j => let '(m', k) := mswap_rows (getm w t) i j in (setm w t m', (k, []))
  | MSwapColumns t i j => let '(m', k) := mswap_cols (getm w t) i j in (setm w t m', (k, []))
  | MT t =>
      match mtrans (getm w t) with
      | Some m' => (addm w m', (K_OK, []))
      | None => (w, (K_PANIC, []))
      end
  | MTip t =>
      match mtip (getm w t) with
      | Some m' => (setm w t m', (K_OK, []))
      | None => (w, (K_FUEL, []))
      end
  | MClone t =>
      let m := getm w t in
      let '(h1, v) := clone h (mv m) in (addm (msetH w h1) (set_mv m v), (K_OK, []))
  | MIterate t =>
      let m := getm w t in
      match iterate h (mv m) with
      | Some (v', s) => (setm w t (set_mv m v'), (K_OK, mseq_vals h m s))
      | None => (w, (K_FUEL, []))
      end
  | MIterPart t n =>
      let m := getm w t in
      match it_begin h (mv m) with
      | Some (v0, cur) =>
          match iter_part n h v0 cur [] with
          | Some (v', s) => (setm w t (set_mv m v'), (K_OK, mseq_vals h m s))
          | None => (w, (K_FUEL, []))
          end
      | None => (w, (K_FUEL, []))
      end
  | MMapMul t c | MMapSetMul t c =>
      let m := getm w t in
      let '(h', m', ok) := map_list (fun x => x * c) (positions (mrows m) (mcols m)) h m in
      (setm (msetH w h') t m', (if ok then K_OK else K_PANIC, []))
  | MReduceSum t =>
      let m := getm w t in
      (w, (K_OK, [fold_left (fun r p => r + match mconst_at h m (fst p) (snd p) with Some x => x | None => 0 end)
                            (positions (mrows m) (mcols m)) 0]))
  | MDims t => (w, (K_OK, [mrows (getm w t); mcols (getm w t)]))
  | MRow t i =>
      match mrow h (getm w t) i with
      | Some (h', r) => (w, (K_OK, obs_vec h' r))
      | None => (w, (K_PANIC, []))
      end
  | MCol t j =>
      match mcol h (getm w t) j with
      | Some (h', r) => (w, (K_OK, obs_vec h' r))
      | None => (w, (K_PANIC, []))
      end
  | MDiag t =>
      match mdiag h (getm w t) with
      | Some (h', r) => (w, (K_OK, obs_vec h' r))
      | None => (w, (K_PANIC, []))
      end
  end.

Definition mrun (w : mworld) (ops : list mop) : mworld := fold_left (fun w o => fst (mstep w o)) ops w.

(* ------------------------------------------------------------ observation *)
(* per matrix, mirroring Model.obs_vec: the header (Dims + the window fields +
   the length of `values`); ConstAt of every (i,j) row-major; the private map
   of `values` (sorted, with values); its index keys; the (i, j, value)
   sequence of the ConstIterator of a Clone *)
Definition C_PANIC : Z := 99991.
Definition mreads (h : heap) (m : smat) : list Z :=
  map (fun p => match mconst_at h m (fst p) (snd p) with Some x => x | None => C_PANIC end)
      (positions (mrows m) (mcols m)).
Definition obs_mat (h : heap) (m : smat) : list Z :=
  [mrows m; mcols m; roff m; rmax m; coff m; cmax m; dim (mv m); SEP] ++ mreads h m ++ [SEP] ++
  flat2 (map_dump h (mv m)) ++ [SEP] ++ idx (mv m) ++ [SEP] ++
  (match iterate h (mv m) with Some (_, s) => mseq_vals h m s | None => [SEP; SEP] end) ++ [SEP].
Definition obs_mworld (w : mworld) : list Z := flat_map (obs_mat (mhp w)) (mats w).
