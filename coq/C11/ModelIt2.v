(* C11, part 2b — iterators held across mutations, the STALE iterator in general.
   Additive successor of ModelIt.v (which stays as it is: its theorems PropsIt.v
   are about it; CorrIt2.v checks that both models agree wherever ModelIt.v makes
   a prediction).  No proofs in this file.

   What ModelIt.v leaves open.  ReverseOrder / Sort / a successful Permute
   overwrite the AvlTree embedded in the vector struct IN PLACE with a new tree.
   An iterator object (AvlIterator{tree, node, value}) created before keeps
     node  -> a node of the OLD tree object, which nobody mutates any more
              (immutable garbage), and
     tree  -> the AvlTree struct embedded in the vector, i.e. from now on the
              root of the NEW tree.
   AvlIterator.Next() (avl-tree.go) then does one of two things:
     (valid)   node.Deleted = false and node.Value = value: it follows the links
               (right-child descent / parent climb) of the OLD tree: it moves to
               the first key of the OLD key set greater than its cursor, and the
               node it reaches is again a live, unswapped node of the old tree —
               so it keeps walking the old tree for ever (ProofsIt2.v:
               stale_walk_old_tree, on C19's tree model);
     (invalid) the node was tombstoned or its value was swapped by an in-place
               edit of the old tree BEFORE the tree was replaced: Next re-finds
               with tree.FindNodeLE(value+1), and `tree` is the NEW tree: the
               iterator moves to the first key of the CURRENT key set greater
               than its cursor and is from then on an ordinary attached iterator
               of the current index.
   Whether the node is valid is a fact about AVL internals (which node a
   deletion tombstones, which values a rotation / two-child deletion swaps) that
   the key-set abstraction of Model.v cannot see.  ModelIt.v decides it only for
   FRESH iterators (valid) and says Unknown otherwise.  Here the move operation
   carries the bit [vb] = "the node is valid", READ OFF THE IMPLEMENTATION by
   the harness immediately before the move (hook VerifC11ItValid: !node.Deleted
   && node.Value == value), and the model is exact for both values.  Where the
   model knows the bit itself (fresh iterators) a contradicting observation is
   the outcome K_BADORACLE, which never equals a Go outcome: the freshness
   bookkeeping is thereby checked against the implementation on every move. *)
From Coq Require Import ZArith List Bool Lia.
From ADV Require Import C11.Model C11.ModelIt.
Import ListNotations.
Open Scope Z_scope.

(* Stale snap valid: the index object was replaced under the iterator; [snap] =
   key list of the old tree at the moment it was dropped; [valid] = the model
   KNOWS that the node is valid (true) / does not know (false) *)
Inductive imode2 := Att | Stale (snap : list Z) (valid : bool).
Record iter2 := { iv2 : nat; icur2 : option Z; imd2 : imode2; ifresh2 : bool }.
Record worldi2 := { base2 : world; its2 : list iter2 }.
Definition initi2 : worldi2 := {| base2 := init; its2 := [] |}.
Definition dflt_iter2 : iter2 := {| iv2 := O; icur2 := None; imd2 := Att; ifresh2 := false |}.
Definition geti2 (wi : worldi2) (k : nat) : iter2 := nth k (its2 wi) dflt_iter2.

Inductive opi2 :=
  | Base2 (o : op)
  | ItBegin2 (t : nat)
  | ItFrom2 (t : nat) (i : Z)
  | ItNext2 (k : nat) (vb : bool)   (* it_k.Next(); vb = node validity observed just before *)
  | ItGet2 (k : nat).

Definition K_BADORACLE : Z := 6.  (* observed validity contradicts what the model knows *)

Definition set_fresh2 (b : bool) (it : iter2) : iter2 :=
  {| iv2 := iv2 it; icur2 := icur2 it; imd2 := imd2 it; ifresh2 := b |}.
Definition clear_fresh2 (ts : list nat) (l : list iter2) : list iter2 :=
  map (fun it => if existsb (Nat.eqb (iv2 it)) ts then set_fresh2 false it else it) l.
(* the index object of vector t is replaced; [snap] = key list of the old tree when
   dropped; [clean] = the replacing operation did not edit the old tree before *)
Definition detach2 (t : nat) (snap : list Z) (clean : bool) (l : list iter2) : list iter2 :=
  map (fun it =>
         if Nat.eqb (iv2 it) t then
           match imd2 it, icur2 it with
           | Att, Some _ =>
               {| iv2 := iv2 it; icur2 := icur2 it; imd2 := Stale snap (ifresh2 it && clean); ifresh2 := false |}
           | _, _ => it           (* exhausted: Next is a no-op for ever; a stale iterator stays with ITS old tree *)
           end
         else it) l.

Definition it_obs2 (w : world) (it : iter2) : list Z :=
  match icur2 it with
  | None => [0]
  | Some k => match lookup k (vals (getv w (iv2 it))) with
              | Some l => [1; k; 1; hget (hp w) l]
              | None => [1; k; 0; 0]
              end
  end.

Definition base_its2 (w : world) (o : op) (l : list iter2) : list iter2 :=
  match o with
  | ReverseOrder t => detach2 t (idx (getv w t)) true l
  | Sort t _ =>
      (* Sort first runs ITERATOR() over the old tree (skip() deletes the null entries
         from it), then drops it: the old tree holds the keys that survived *)
      match iterate (hp w) (getv w t) with
      | Some (v1, _) => detach2 t (idx v1) (Nat.eqb (length (idx v1)) (length (idx (getv w t)))) l
      | None => clear_fresh2 [t] l
      end
  | Permute t pi => if snd (permute (getv w t) pi) then detach2 t (idx (getv w t)) true l
                    else clear_fresh2 [t] l
  | _ => clear_fresh2 (touches o) l
  end.

Definition new_iter2 (wi : worldi2) (t : nat) (r : option (svec * option Z)) : worldi2 * (Z * list Z) :=
  if exists_vec (base2 wi) t then
    match r with
    | Some (v', cur) =>
        let w' := setv (base2 wi) t v' in
        let it := {| iv2 := t; icur2 := cur; imd2 := Att;
                     ifresh2 := Nat.eqb (length (idx v')) (length (idx (getv (base2 wi) t))) |} in
        ({| base2 := w'; its2 := clear_fresh2 (moved (getv (base2 wi) t) v' t) (its2 wi) ++ [it] |}, (K_OK, it_obs2 w' it))
    | None => (wi, (K_FUEL, []))
    end
  else (wi, (K_NOIT, [])).

(* how an iterator moves, given the observed validity bit:
   (result of the move, mode afterwards, is it an attached move?) ; None = the bit
   contradicts what the model knows *)
Definition move2 (h : heap) (v : svec) (it : iter2) (vb : bool)
  : option (option (svec * option Z) * imode2 * bool) :=
  match imd2 it with
  | Att => if ifresh2 it && negb vb then None
           else Some (it_next h v (icur2 it), Att, true)
  | Stale snap true => if vb then Some (it_next_snap snap h v (icur2 it), Stale snap true, false) else None
  | Stale snap false =>
      if vb then Some (it_next_snap snap h v (icur2 it), Stale snap true, false)
      else Some (it_next h v (icur2 it), Att, true)      (* re-find in the NEW tree: attached from now on *)
  end.

Definition step_it2 (wi : worldi2) (o : opi2) : worldi2 * (Z * list Z) :=
  let w := base2 wi in
  match o with
  | Base2 o =>
      let '(w', out) := step w o in
      ({| base2 := w'; its2 := base_its2 w o (its2 wi) |}, out)
  | ItBegin2 t => new_iter2 wi t (it_begin (hp w) (getv w t))
  | ItFrom2 t i => new_iter2 wi t (it_from (hp w) (getv w t) i)
  | ItGet2 k =>
      if Nat.ltb k (length (its2 wi)) then (wi, (K_OK, it_obs2 w (geti2 wi k))) else (wi, (K_NOIT, []))
  | ItNext2 k vb =>
      if Nat.ltb k (length (its2 wi)) then
        let it := geti2 wi k in
        match icur2 it with
        | None => (wi, (K_OK, [0]))             (* AvlIterator.Next on node == nil: no-op *)
        | Some _ =>
            match move2 (hp w) (getv w (iv2 it)) it vb with
            | None => (wi, (K_BADORACLE, []))
            | Some (None, _, _) => (wi, (K_FUEL, []))
            | Some (Some (v', cur'), md', att) =>
                let w' := setv w (iv2 it) v' in
                let it' := {| iv2 := iv2 it; icur2 := cur'; imd2 := md';
                              ifresh2 := att && Nat.eqb (length (idx v')) (length (idx (getv w (iv2 it)))) |} in
                ({| base2 := w'; its2 := upd k it' (clear_fresh2 (moved (getv w (iv2 it)) v' (iv2 it)) (its2 wi)) |},
                 (K_OK, it_obs2 w' it'))
            end
        end
      else (wi, (K_NOIT, []))
  end.

Definition run_it2 (wi : worldi2) (ops : list opi2) : worldi2 := fold_left (fun w o => fst (step_it2 w o)) ops wi.

(* forgetting the oracle bit: the same history as a history of ModelIt.v *)
Definition erase2 (o : opi2) : opi :=
  match o with
  | Base2 o => Base o | ItBegin2 t => ItBegin t | ItFrom2 t i => ItFrom t i
  | ItNext2 k _ => ItNext k | ItGet2 k => ItGet k
  end.
