(* C11, part 2 — property theorems about iterators HELD across mutations
   (statements only; proofs in ProofsIt.v; model in ModelIt.v).  All statements
   quantify over all vectors / all extended histories, no bounds. *)
From Coq Require Import ZArith List Bool Lia Sorted.
From ADV Require Import C11.Model C11.Spec C11.ProofsMap C11.ProofsIter C11.ProofsInv C11.ProofsRef
                        C11.ModelIt C11.ProofsIt.
Import ListNotations.
Open Scope Z_scope.

(* 1. (central) a partially consumed ATTACHED iterator visits exactly the remaining
      non-zero positions beyond its cursor OF THE CURRENT STATE.  For every
      coherent vector v (Inv holds in every state reachable by an in-range
      history, with or without held iterators: inv_all_extended_histories) and
      EVERY cursor key k — k may have been deleted from the index meanwhile
      (tombstone), may be outside [0,n) — draining the iterator (Next until
      exhausted) never runs out of fuel S(|index|), visits the keys in strictly
      ascending order (hence once each), visits (j, x) iff j > k and position j
      of the dense list holds x <> 0, changes no element and no dimension and
      leaves the vector coherent.  Because v is ANY coherent state, this covers
      every interleaving with in-place mutators (At creating entries before /
      after the cursor, zero writes + skip() deletions by this or any other
      iterator, Swap, Set, Append iterating the vector, ...). *)
Theorem held_iterator_remaining : forall h v k,
  Inv v ->
  exists v' s, drain (dfuel v) h v (Some k) [] = Some (v', s) /\
    s = vis h v (filter (nonnull h v) (gt_keys k (idx v))) /\
    StronglySorted Z.lt (map fst s) /\
    (forall j x, In (j, x) s <->
                 k < j /\ 0 <= j < dim v /\ x = nth (Z.to_nat j) (abs h v) 0 /\ x <> 0) /\
    abs h v' = abs h v /\ dim v' = dim v /\ Inv v'.
Proof. exact held_remaining. Qed.

(* the general closed form behind 1 (any split of the index around the cursor) *)
Theorem held_iterator_closed_form : forall h f rest pre v k acc,
  Inv v -> idx v = pre ++ rest ->
  (forall x, In x pre -> x <= k) -> (forall x, In x rest -> k < x) ->
  (length rest < f)%nat ->
  exists v', drain f h v (Some k) acc = Some (v', rev acc ++ vis h v (filter (nonnull h v) rest)) /\
             idx v' = pre ++ filter (nonnull h v) rest /\ Q h v v'.
Proof. exact drain_spec. Qed.

(* 2. the extended system (all operations of Model.op + ItBegin / ItFrom / ItNext /
      ItGet on any number of held iterators, attached, detached or unknown)
      keeps every vector coherent: per step and for all valid histories *)
Theorem inv_extended_step : forall wi o,
  WInv (base wi) -> in_range_it wi o -> WInv (base (fst (step_it wi o))).
Proof. exact step_it_WInv. Qed.
Theorem inv_all_extended_histories : forall ops,
  valid_it initi ops -> WInv (base (run_it initi ops)).
Proof. intros ops V. exact (run_it_WInv ops initi WInv_init V). Qed.

(* an attached iterator stays attached (to the same vector) as long as no
   index-replacing operation (ReverseOrder / Sort / Permute) runs on its vector *)
Theorem attached_until_replaced : forall ops wi k,
  (k < length (its wi))%nat -> Forall (fun o => ~ replaces (iv (geti wi k)) o) ops ->
  stable k (its wi) (its (run_it wi ops)).
Proof. exact run_it_stable. Qed.

(* combined: an iterator created (ItBegin t / ItFrom t i) after ANY history ops1
   and held across ANY history ops2 (valid, arbitrary interleaving of mutators on
   all vectors, moves of this and of other iterators) in which no index-replacing
   operation runs on t: it is still attached, and draining it visits exactly the
   non-zero positions beyond its cursor of the FINAL state, ascending, once each *)
Theorem held_iterator_after_any_history : forall ops1 mk t ops2,
  creates t mk ->
  valid_it initi (ops1 ++ mk :: ops2) ->
  Forall (fun o => ~ replaces t o) ops2 ->
  let k := length (its (run_it initi ops1)) in
  let wi := run_it initi (ops1 ++ mk :: ops2) in
  let it := geti wi k in
  let v := getv (base wi) t in
  let h := hp (base wi) in
  (k < length (its wi))%nat /\ iv it = t /\ imd it = Attached /\
  forall c, icur it = Some c ->
    exists v' s, drain (dfuel v) h v (Some c) [] = Some (v', s) /\
      StronglySorted Z.lt (map fst s) /\
      (forall j x, In (j, x) s <->
                   c < j /\ 0 <= j < dim v /\ x = nth (Z.to_nat j) (abs h v) 0 /\ x <> 0) /\
      abs h v' = abs h v /\ dim v' = dim v /\ Inv v'.
Proof. exact held_after_history. Qed.

(* 3. FINDING F-STALEIT (C11-STALEIT): the statement of 1 is FALSE for an iterator
      held across an index-REPLACING operation.  v = [5,0,0]; it := v.ConstIterator()
      sits at 0; v.ReverseOrder() gives [0,0,5]; one it.Next() exhausts the
      iterator although position 2 > 0 holds 5 (the iterator walks the nodes of
      the discarded AVL tree).  Confirmed on the implementation by
      `c11 --extra heldknown`. *)
Theorem stale_iterator_refuted :
  valid_it initi stale_ops /\
  let wi := run_it initi stale_ops in
  icur (geti (run_it initi (firstn 3 stale_ops)) 0) = Some 0 /\
  icur (geti wi 0) = None /\
  abs (hp (base wi)) (getv (base wi) 0) = [0; 0; 5].
Proof. exact ProofsIt.stale_iterator_refuted. Qed.
