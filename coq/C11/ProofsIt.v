(* C11, part 2 — iterators held across mutations: proofs about ModelIt.v.
   1. drain_spec / held_remaining: closed form of draining an attached iterator
      that sits at an arbitrary cursor of an arbitrary coherent vector.
   2. step_it keeps WInv; attached iterators stay attached while no
      index-replacing operation runs on their vector; combined corollary.
   3. stale_iterator_refuted: F-STALEIT on the model. *)
From Coq Require Import ZArith List Bool Lia Sorted.
From ADV Require Import C11.Model C11.Spec C11.ProofsMap C11.ProofsIter C11.ProofsInv C11.ProofsRef C11.ModelIt.
Import ListNotations.
Open Scope Z_scope.

(* ---- a sorted key list split at a cursor ---------------------------------- *)
Definition le_keys (k : Z) (l : list Z) : list Z := filter (fun x => x <=? k) l.
Definition gt_keys (k : Z) (l : list Z) : list Z := filter (fun x => k <? x) l.

Lemma all_gt_filters k r : Forall (fun y => k < y) r -> le_keys k r = [] /\ gt_keys k r = r.
Proof.
  induction r as [|y r IH]; simpl; auto. intro H. inversion H as [|? ? Hy Hr]; subst.
  destruct (IH Hr) as [E1 E2].
  destruct (y <=? k) eqn:A; [apply Z.leb_le in A; lia|].
  destruct (k <? y) eqn:B; [|apply Z.ltb_ge in B; lia].
  rewrite E1, E2. auto.
Qed.
Lemma split_at k l : sset l -> l = le_keys k l ++ gt_keys k l.
Proof.
  induction l as [|x r IH]; simpl; auto. intro H. apply sset_cons in H. destruct H as [Hs Hf].
  destruct (x <=? k) eqn:A.
  - apply Z.leb_le in A. destruct (k <? x) eqn:B; [apply Z.ltb_lt in B; lia|].
    simpl. f_equal. apply IH; auto.
  - apply Z.leb_gt in A. destruct (k <? x) eqn:B; [|apply Z.ltb_ge in B; lia].
    assert (F : Forall (fun y => k < y) r).
    { apply Forall_forall. intros y Hy. rewrite Forall_forall in Hf. specialize (Hf y Hy). lia. }
    destruct (all_gt_filters k r F) as [E1 E2]. unfold le_keys, gt_keys in *. rewrite E1, E2. auto.
Qed.
Lemma filter_len_le {X} (p : X -> bool) l : (length (filter p l) <= length l)%nat.
Proof. induction l as [|x r IH]; simpl; auto. destruct (p x); simpl; lia. Qed.
Lemma le_keys_le k l x : In x (le_keys k l) -> x <= k.
Proof. unfold le_keys. intro H. apply filter_In in H. destruct H as [_ H]. apply Z.leb_le in H. auto. Qed.
Lemma gt_keys_gt k l x : In x (gt_keys k l) <-> In x l /\ k < x.
Proof. unfold gt_keys. rewrite filter_In. rewrite Z.ltb_lt. tauto. Qed.

Lemma first_gt_split k pre : forall rest,
  (forall x, In x pre -> x <= k) -> (forall x, In x rest -> k < x) ->
  first_gt k (pre ++ rest) = hd_error rest.
Proof.
  unfold first_gt. induction pre as [|y p IH]; intros rest Hp Hr; simpl.
  - destruct rest as [|z r]; simpl; auto.
    assert (k < z) by (apply Hr; simpl; auto).
    destruct (k <? z) eqn:E; auto. apply Z.ltb_ge in E. lia.
  - assert (y <= k) by (apply Hp; simpl; auto).
    destruct (k <? y) eqn:E; [apply Z.ltb_lt in E; lia|].
    apply IH; auto. intros x Hx. apply Hp. simpl. auto.
Qed.

Lemma dropnull_head p l k r : dropnull p l = k :: r -> p k = false /\ In k l.
Proof.
  induction l as [|x l IH]; simpl; [discriminate|].
  destruct (p x) eqn:E.
  - intro H. destruct (IH H). auto.
  - intro H. inversion H; subst. auto.
Qed.

Lemma Q_abs h v v' : Q h v v' -> abs h v' = abs h v.
Proof.
  intro C. unfold abs, abs_vec. destruct C as (C1 & C2 & C3). rewrite C3. apply map_ext. intro k.
  apply Q_peek. unfold Q. auto.
Qed.

(* ---- 1. draining an attached iterator --------------------------------------- *)
Section Drain.
Variable h : heap.
Definition vis (v : svec) (ks : list Z) : list (Z * Z) := map (fun j => (j, peek h v j)) ks.

Lemma drain_none f v acc : drain f h v None acc = Some (v, rev acc).
Proof. destruct f; reflexivity. Qed.

Lemma drain_spec : forall f rest pre v k acc,
  Inv v -> idx v = pre ++ rest ->
  (forall x, In x pre -> x <= k) -> (forall x, In x rest -> k < x) ->
  (length rest < f)%nat ->
  exists v', drain f h v (Some k) acc = Some (v', rev acc ++ vis v (filter (nonnull h v) rest)) /\
             idx v' = pre ++ filter (nonnull h v) rest /\ Q h v v'.
Proof.
  induction f as [|f IH]; intros rest pre v k acc HI Hidx Hp Hr Hf; [lia|].
  cbn [drain]. unfold it_next.
  assert (E1 : first_gt k (idx v) = hd_error rest) by (rewrite Hidx; apply first_gt_split; auto).
  rewrite E1.
  destruct (skip_spec h rest pre v (sfuel v)) as (v1 & A & B & C); auto.
  { apply HI. }
  { unfold sfuel. rewrite Hidx, app_length. lia. }
  rewrite A.
  assert (I1 : Inv v1) by (eapply Inv_skip; eauto).
  assert (FD : filter (nonnull h v) (dropnull (isnull h v) rest) = filter (nonnull h v) rest)
    by (unfold nonnull; apply filter_dropnull).
  destruct (dropnull (isnull h v) rest) as [|k' r'] eqn:D.
  - cbn [hd_error]. rewrite drain_none. exists v1. rewrite <- FD. simpl. rewrite !app_nil_r in *. auto.
  - cbn [hd_error].
    destruct (dropnull_head _ _ _ _ D) as [N Hin].
    assert (Hk' : k < k') by (apply Hr; auto).
    assert (NN : nonnull h v k' = true) by (unfold nonnull; rewrite N; auto).
    assert (Hext : forall x, nonnull h v1 x = nonnull h v x).
    { intro x. unfold nonnull. destruct C as (C1 & _). rewrite C1. auto. }
    assert (S1 : sset (pre ++ k' :: r')) by (rewrite <- B; apply I1).
    destruct (IH r' (pre ++ [k']) v1 k' ((k', peek h v1 k') :: acc)) as (v2 & A2 & B2 & C2); auto.
    + rewrite B, <- app_assoc. auto.
    + intros x Hx. apply in_app_or in Hx. destruct Hx as [Hx|[->|[]]]; [|lia].
      specialize (Hp x Hx). lia.
    + intros x Hx. apply sset_app_r in S1. apply sset_cons in S1. destruct S1 as [_ F].
      rewrite Forall_forall in F. auto.
    + pose proof (dropnull_length (isnull h v) rest) as L. rewrite D in L. simpl in L. lia.
    + exists v2. rewrite A2. split; [|split].
      * f_equal. f_equal. rewrite <- FD. cbn [filter]. rewrite NN.
        rewrite (filter_ext _ _ Hext). cbn [rev]. rewrite <- app_assoc. cbn [app vis map].
        f_equal. f_equal; [f_equal; apply Q_peek; auto|].
        unfold vis. apply map_ext. intro a. f_equal. apply Q_peek; auto.
      * rewrite B2, <- app_assoc, <- FD. cbn [filter app]. rewrite NN.
        rewrite (filter_ext _ _ Hext). auto.
      * eapply Q_trans; eauto.
Qed.

Lemma Inv_drain : forall f v cur acc v' s, Inv v -> drain f h v cur acc = Some (v', s) -> Inv v'.
Proof.
  induction f as [|f IH]; intros v cur acc v' s HI; destruct cur as [k|]; cbn [drain];
    try (intro E; inversion E; subst; auto; fail); try discriminate.
  destruct (it_next h v (Some k)) as [[v1 c1]|] eqn:N; [|discriminate].
  intro E. eapply IH; [|exact E]. eapply Inv_it_next; eauto.
Qed.

(* the central statement: closed form + the set-level reading *)
Lemma held_remaining v k :
  Inv v ->
  exists v' s, drain (dfuel v) h v (Some k) [] = Some (v', s) /\
    s = vis v (filter (nonnull h v) (gt_keys k (idx v))) /\
    StronglySorted Z.lt (map fst s) /\
    (forall j x, In (j, x) s <->
                 k < j /\ 0 <= j < dim v /\ x = nth (Z.to_nat j) (abs h v) 0 /\ x <> 0) /\
    abs h v' = abs h v /\ dim v' = dim v /\ Inv v'.
Proof.
  intro HI. pose proof HI as HI'. inv_split HI'.
  destruct (drain_spec (dfuel v) (gt_keys k (idx v)) (le_keys k (idx v)) v k []) as (v' & A & B & C); auto.
  - apply split_at; auto.
  - intros x Hx. eapply le_keys_le; eauto.
  - intros x Hx. apply gt_keys_gt in Hx. tauto.
  - unfold dfuel. pose proof (filter_len_le (fun x => k <? x) (idx v)). unfold gt_keys. lia.
  - exists v', (vis v (filter (nonnull h v) (gt_keys k (idx v)))). cbn [rev app] in A.
    split; [auto|]. split; [auto|]. split; [|split; [|split; [|split]]].
    + unfold vis. rewrite map_map. simpl. rewrite map_id.
      apply sset_filter. unfold gt_keys. apply sset_filter. auto.
    + intros j x. unfold vis. rewrite in_map_iff. split.
      * intros (j0 & E & Hin). inversion E. subst j0 x. clear E.
        apply filter_In in Hin. destruct Hin as [Hin Hnn]. apply gt_keys_gt in Hin. destruct Hin as [Hin Hgt].
        assert (R := Hr j Hin). split; auto. split; auto. rewrite abs_nth; auto. split; auto.
        apply nonnull_peek; auto.
      * intros (Hgt & Hj & Hx & Hnz). rewrite abs_nth in Hx; auto. subst x.
        exists j. split; auto. apply filter_In. split.
        -- apply gt_keys_gt. split; auto. unfold peek in Hnz.
           destruct (lookup j (vals v)) as [l|] eqn:L; [eauto|lia].
        -- apply nonnull_peek; auto.
    + apply Q_abs; auto.
    + apply C.
    + eapply Inv_drain; eauto.
Qed.
End Drain.

(* ---- 2. the extended system keeps the coherence invariant -------------------- *)
Lemma Inv_skip_snap f snap : forall h v cur v' c', Inv v -> skip_snap f snap h v cur = Some (v', c') -> Inv v'.
Proof.
  induction f as [|f IH]; intros h v cur v' c' H; simpl; destruct cur as [k|];
    try (intro E; inversion E; subst; auto; fail).
  - destruct (isnull h v k); intro E; inversion E; subst; auto.
  - destruct (isnull h v k).
    + intro E. eapply IH; [|exact E]. apply Inv_del; auto.
    + intro E; inversion E; subst; auto.
Qed.

Definition in_range_it (wi : worldi) (o : opi) : Prop :=
  match o with
  | Base o => in_range (base wi) o
  | ItBegin t | ItFrom t _ => has (base wi) t
  | ItNext k | ItGet k => (k < length (its wi))%nat
  end.
Fixpoint valid_it (wi : worldi) (ops : list opi) : Prop :=
  match ops with
  | [] => True
  | o :: r => in_range_it wi o /\ valid_it (fst (step_it wi o)) r
  end.

Lemma new_iter_WInv wi t r :
  WInv (base wi) -> (forall v' c, r = Some (v', c) -> Inv v') -> WInv (base (fst (new_iter wi t r))).
Proof.
  intros H Hr. unfold new_iter. destruct (exists_vec (base wi) t); simpl; auto.
  destruct r as [[v' c]|]; simpl; auto. apply WInv_setv; auto. eapply Hr; eauto.
Qed.

Lemma step_it_WInv wi o : WInv (base wi) -> in_range_it wi o -> WInv (base (fst (step_it wi o))).
Proof.
  intros H R. assert (G : forall t, Inv (getv (base wi) t)) by (intro t0; apply WInv_getv; auto).
  destruct o as [o|t|t i|k|k]; simpl in R; cbn [step_it].
  - pose proof (step_WInv (base wi) o H R) as S. destruct (step (base wi) o) as [w' out]. simpl in *. auto.
  - apply new_iter_WInv; auto. intros v' c E. eapply Inv_it_begin; eauto.
  - apply new_iter_WInv; auto. intros v' c E. eapply Inv_it_from; eauto.
  - destruct (Nat.ltb k (length (its wi))); cbn [fst base]; auto.
    destruct (icur (geti wi k)) as [c|] eqn:EC; cbn [fst base]; auto.
    destruct (imd (geti wi k)) as [|snap|] eqn:EM; cbn [fst base]; auto.
    + destruct (it_next _ _ _) as [[v' c']|] eqn:N; cbn [fst base]; auto.
      apply WInv_setv; auto. eapply Inv_it_next; eauto.
    + destruct (it_next_snap _ _ _ _) as [[v' c']|] eqn:N; cbn [fst base]; auto.
      apply WInv_setv; auto. unfold it_next_snap in N. eapply Inv_skip_snap; eauto.
  - destruct (Nat.ltb k (length (its wi))); cbn [fst base]; auto.
Qed.

Lemma run_it_WInv ops : forall wi, WInv (base wi) -> valid_it wi ops -> WInv (base (run_it wi ops)).
Proof.
  induction ops as [|o r IH]; intros wi H V; simpl; auto.
  destruct V as [V1 V2]. apply IH; auto. apply step_it_WInv; auto.
Qed.

(* ---- attached iterators stay attached while no index-replacing operation runs
        on their vector ---------------------------------------------------------- *)
Definition replaces (t : nat) (o : opi) : Prop :=
  match o with
  | Base (ReverseOrder t') | Base (Sort t' _) | Base (Permute t' _) => t' = t
  | _ => False
  end.

Lemma nth_map_its f l k : (k < length l)%nat -> nth k (map f l) dflt_iter = f (nth k l dflt_iter).
Proof.
  intro H. rewrite (nth_indep _ dflt_iter (f dflt_iter)) by (rewrite map_length; auto). apply map_nth.
Qed.

(* "stable at k": the list keeps iterator k's vector and attached mode *)
Definition stable (k : nat) (l l' : list iter) : Prop :=
  (k < length l')%nat /\ iv (nth k l' dflt_iter) = iv (nth k l dflt_iter) /\
  (imd (nth k l dflt_iter) = Attached -> imd (nth k l' dflt_iter) = Attached).

Lemma stable_clear ts l k : (k < length l)%nat -> stable k l (clear_fresh ts l).
Proof.
  intro H. unfold stable, clear_fresh. rewrite map_length, nth_map_its; auto.
  destruct (existsb _ ts); simpl; auto.
Qed.
Lemma stable_detach t snap clean l k :
  (k < length l)%nat -> iv (nth k l dflt_iter) <> t -> stable k l (detach t snap clean l).
Proof.
  intros H Hn. unfold stable, detach. rewrite map_length, nth_map_its; auto.
  destruct (Nat.eqb (iv (nth k l dflt_iter)) t) eqn:E; [apply Nat.eqb_eq in E; tauto|]. auto.
Qed.
Lemma stable_trans k a b c : stable k a b -> stable k b c -> stable k a c.
Proof. unfold stable. intros (A1 & A2 & A3) (B1 & B2 & B3). repeat split; auto; congruence. Qed.
Lemma stable_app k l x : (k < length l)%nat -> stable k l (l ++ [x]).
Proof. intro H. unfold stable. rewrite app_length, app_nth1; auto. simpl. repeat split; auto; lia. Qed.
Lemma stable_refl k l : (k < length l)%nat -> stable k l l.
Proof. unfold stable. auto. Qed.

Lemma step_it_stable wi o k :
  (k < length (its wi))%nat -> ~ replaces (iv (geti wi k)) o ->
  stable k (its wi) (its (fst (step_it wi o))).
Proof.
  intros H NR. destruct o as [o|t|t i|j|j]; cbn [step_it].
  - destruct (step (base wi) o) as [w' out]. cbn [fst its]. unfold geti in NR.
    destruct o; cbn [base_its]; try (apply stable_clear; auto; fail).
    + (* ReverseOrder *) apply stable_detach; [auto|intro E; apply NR; simpl; auto].
    + (* Permute *) destruct (snd (permute _ _)); [|apply stable_clear; auto].
      apply stable_detach; [auto|intro E; apply NR; simpl; auto].
    + (* Sort *) destruct (iterate _ _) as [[v1 s]|]; [|apply stable_clear; auto].
      apply stable_detach; [auto|intro E; apply NR; simpl; auto].
  - unfold new_iter. destruct (exists_vec _ _); [|apply stable_refl; auto].
    destruct (it_begin _ _) as [[v' c]|]; [|apply stable_refl; auto]. cbn [fst its].
    eapply stable_trans; [apply stable_clear; auto|]. apply stable_app.
    unfold clear_fresh. rewrite map_length. auto.
  - unfold new_iter. destruct (exists_vec _ _); [|apply stable_refl; auto].
    destruct (it_from _ _ _) as [[v' c]|]; [|apply stable_refl; auto]. cbn [fst its].
    eapply stable_trans; [apply stable_clear; auto|]. apply stable_app.
    unfold clear_fresh. rewrite map_length. auto.
  - destruct (Nat.ltb j (length (its wi))) eqn:L; [|apply stable_refl; auto].
    apply Nat.ltb_lt in L.
    destruct (icur (geti wi j)) as [c|] eqn:EC; [|apply stable_refl; auto].
    destruct (imd (geti wi j)) as [|snap|] eqn:EM; cbn [fst its]; try (apply stable_refl; auto; fail).
    + destruct (it_next _ _ _) as [[v' c']|]; cbn [fst its]; [|apply stable_refl; auto].
      set (ts := moved _ _ _).
      eapply stable_trans; [apply (stable_clear ts); auto|].
      set (l1 := clear_fresh ts (its wi)).
      assert (L1 : length l1 = length (its wi)) by (unfold l1, clear_fresh; apply map_length).
      unfold stable. rewrite upd_length. split; [lia|].
      destruct (Nat.eq_dec j k) as [->|Hne].
      * rewrite nth_upd_eq by lia. cbn [iv imd].
        unfold l1, clear_fresh. rewrite nth_map_its by auto. unfold geti.
        destruct (existsb _ _); simpl; auto.
      * rewrite nth_upd_neq by auto. auto.
    + destruct (it_next_snap _ _ _ _) as [[v' c']|]; cbn [fst its]; [|apply stable_refl; auto].
      set (ts := moved _ _ _).
      eapply stable_trans; [apply (stable_clear ts); auto|].
      set (l1 := clear_fresh ts (its wi)).
      assert (L1 : length l1 = length (its wi)) by (unfold l1, clear_fresh; apply map_length).
      unfold stable. rewrite upd_length. split; [lia|].
      destruct (Nat.eq_dec j k) as [->|Hne].
      * rewrite nth_upd_eq by lia. cbn [iv imd].
        unfold l1, clear_fresh. rewrite nth_map_its by auto. unfold geti in *.
        destruct (existsb _ _); simpl; rewrite EM; split; auto; discriminate.
      * rewrite nth_upd_neq by auto. auto.
  - destruct (Nat.ltb j (length (its wi))); apply stable_refl; auto.
Qed.

Lemma run_it_stable ops : forall wi k,
  (k < length (its wi))%nat -> Forall (fun o => ~ replaces (iv (geti wi k)) o) ops ->
  stable k (its wi) (its (run_it wi ops)).
Proof.
  induction ops as [|o r IH]; intros wi k H F; simpl.
  - apply stable_refl; auto.
  - inversion F as [|? ? F1 F2]; subst.
    pose proof (step_it_stable wi o k H F1) as S.
    eapply stable_trans; [exact S|]. destruct S as (S1 & S2 & S3).
    apply IH; auto. unfold geti. rewrite S2. auto.
Qed.

Lemma run_it_app a b wi : run_it wi (a ++ b) = run_it (run_it wi a) b.
Proof. unfold run_it. apply fold_left_app. Qed.
Lemma valid_it_app a : forall b wi, valid_it wi (a ++ b) -> valid_it wi a /\ valid_it (run_it wi a) b.
Proof.
  induction a as [|o a IH]; intros b wi V; simpl in *; auto.
  destruct V as [V1 V2]. destruct (IH b _ V2). auto.
Qed.

(* the iterator created by [mk] (ItBegin t / ItFrom t i) after the history ops1,
   then any history ops2 without an index-replacing operation on t: in the
   final state it is attached to t, and draining it from its cursor visits
   exactly the non-zero positions beyond the cursor of the FINAL state *)
Definition creates (t : nat) (o : opi) : Prop :=
  match o with ItBegin t' => t' = t | ItFrom t' _ => t' = t | _ => False end.

Lemma held_after_history ops1 mk t ops2 :
  creates t mk ->
  valid_it initi (ops1 ++ mk :: ops2) ->
  Forall (fun o => ~ replaces t o) ops2 ->
  let k := length (its (run_it initi ops1)) in
  let wi := run_it initi (ops1 ++ mk :: ops2) in
  let it := geti wi k in
  let v := getv (base wi) t in
  let h := hp (base wi) in
  (k < length (its wi))%nat /\ iv it = t /\ imd it = Attached /\
  forall c, icur it = Some c ->
    exists v' s, drain (dfuel v) h v (Some c) [] = Some (v', s) /\
      StronglySorted Z.lt (map fst s) /\
      (forall j x, In (j, x) s <->
                   c < j /\ 0 <= j < dim v /\ x = nth (Z.to_nat j) (abs h v) 0 /\ x <> 0) /\
      abs h v' = abs h v /\ dim v' = dim v /\ Inv v'.
Proof.
  intros Cr V NR k wi it v h.
  assert (WI : WInv (base wi)) by (apply run_it_WInv; auto; exact WInv_init).
  destruct (valid_it_app _ _ _ V) as [V1 V2]. simpl in V2. destruct V2 as [R V2].
  set (w1 := run_it initi ops1) in *.
  set (w2 := fst (step_it w1 mk)).
  assert (E : wi = run_it w2 ops2).
  { unfold wi. rewrite run_it_app. simpl. auto. }
  assert (N : (k < length (its w2))%nat /\ iv (geti w2 k) = t /\ imd (geti w2 k) = Attached).
  { unfold w2, k. destruct mk as [o|t'|t' i|j|j]; simpl in Cr; try tauto; subst t'; simpl in R;
      cbn [step_it]; unfold new_iter, exists_vec; (destruct (Nat.ltb t (length (vecs (base w1)))) eqn:L;
        [|apply Nat.ltb_ge in L; unfold has in R; lia]).
    - destruct (skip_spec (hp (base w1)) (idx (getv (base w1) t)) [] (getv (base w1) t) (sfuel (getv (base w1) t)))
        as (v1 & A & _); auto.
      { apply WInv_getv. apply run_it_WInv; auto. exact WInv_init. }
      { unfold sfuel. lia. }
      unfold it_begin. rewrite A. cbn [fst its]. unfold geti, clear_fresh.
      rewrite app_length, map_length. simpl. rewrite app_nth2; rewrite map_length; [|lia].
      rewrite Nat.sub_diag. simpl. repeat split; auto. lia.
    - set (vv := getv (base w1) t).
      assert (IV : Inv vv) by (apply WInv_getv; apply run_it_WInv; auto; exact WInv_init).
      destruct (skip_spec (hp (base w1)) (filter (fun x => i <=? x) (idx vv)) (filter (fun x => negb (i <=? x)) (idx vv)) vv (sfuel vv))
        as (v1 & A & _).
      { clear - IV. destruct IV as (Hs & _). induction (idx vv) as [|x r IHr]; simpl; auto.
        apply sset_cons in Hs. destruct Hs as [Hs Hf].
        destruct (i <=? x) eqn:E; simpl.
        - assert (F : forall y, In y r -> (i <=? y) = true).
          { intros y Hy. rewrite Forall_forall in Hf. specialize (Hf y Hy). apply Z.leb_le in E. apply Z.leb_le. lia. }
          assert (E1 : filter (fun x0 => negb (i <=? x0)) r = []).
          { clear - F. induction r as [|y r IH]; simpl; auto. rewrite F by (simpl; auto). simpl. apply IH.
            intros z Hz. apply F. simpl. auto. }
          assert (E2 : filter (fun x0 => i <=? x0) r = r).
          { clear - F. induction r as [|y r IH]; simpl; auto. rewrite F by (simpl; auto). f_equal. apply IH.
            intros z Hz. apply F. simpl. auto. }
          rewrite E1, E2. auto.
        - f_equal. auto. }
      { apply IV. }
      { unfold sfuel. pose proof (filter_len_le (fun x => i <=? x) (idx vv)). lia. }
      assert (FG : first_ge i (idx vv) = hd_error (filter (fun x => i <=? x) (idx vv))).
      { unfold first_ge. clear. induction (idx vv) as [|x r IHr]; simpl; auto. destruct (i <=? x); simpl; auto. }
      unfold it_from. fold vv. rewrite FG, A. cbn [fst its]. unfold geti, clear_fresh.
      rewrite app_length, map_length. simpl. rewrite app_nth2; rewrite map_length; [|lia].
      rewrite Nat.sub_diag. simpl. repeat split; auto. lia. }
  destruct N as (N1 & N2 & N3).
  assert (S : stable k (its w2) (its wi)).
  { rewrite E. apply run_it_stable; auto. rewrite N2. auto. }
  destruct S as (S1 & S2 & S3). unfold it, geti in *. rewrite S2, N2.
  split; [auto|]. split; [auto|]. split; [auto|].
  intros c Hc.
  destruct (held_remaining h v c) as (v' & s & A & _ & B & C & D & F & G).
  - apply WInv_getv; auto.
  - exists v', s. exact (conj A (conj B (conj C (conj D (conj F G))))).
Qed.

(* ---- 3. F-STALEIT: an iterator held across an index-REPLACING operation ------ *)
(* v = [5,0,0]; it := v.ConstIterator() (at position 0); v.ReverseOrder() gives
   [0,0,5]; it.Next() ends the iterator although position 2 > 0 holds 5 *)
Definition stale_ops : list opi := [Base (New [0] [5] 3); ItBegin 0; Base (ReverseOrder 0); ItNext 0].
Lemma stale_iterator_refuted :
  valid_it initi stale_ops /\
  let wi := run_it initi stale_ops in
  icur (geti (run_it initi (firstn 3 stale_ops)) 0) = Some 0 /\   (* sits at position 0 *)
  icur (geti wi 0) = None /\                                      (* exhausted by one Next *)
  abs (hp (base wi)) (getv (base wi) 0) = [0; 0; 5].              (* position 2 holds 5 *)
Proof.
  split.
  - unfold stale_ops. simpl. unfold has. simpl. repeat split; try lia; repeat constructor; simpl; intuition lia.
  - vm_compute. auto.
Qed.
(* a detached iterator also reports positions whose element it has not been
   positioned on by the current order, and removes index keys of the NEW index:
   v = [5,6,0,7,0]; it at 0; ReverseOrder gives [0,7,0,6,5]; draining visits
   (1,7), (3,6) and misses position 4 *)
Definition stale_ops2 : list opi :=
  [Base (New [0; 1; 3] [5; 6; 7] 5); ItBegin 0; Base (ReverseOrder 0); ItNext 0; ItNext 0; ItNext 0].
Lemma stale_iterator_misses_refuted :
  let wi := run_it initi stale_ops2 in
  map (fun n => snd (snd (step_it (run_it initi (firstn n stale_ops2)) (ItGet 0)))) [4; 5; 6]%nat
    = [[1; 1; 1; 7]; [1; 3; 1; 6]; [0]] /\
  abs (hp (base wi)) (getv (base wi) 0) = [0; 7; 0; 6; 5].
Proof. vm_compute. auto. Qed.
