(* C11, round 6 — proofs for the matrix permutations (ModelMatPerm.v / DenseMatPerm.v). *)
From Coq Require Import ZArith List Bool Lia.
From ADV Require Import C11.Model C11.Spec C11.Dense C11.ProofsD1 C11.ModelMat C11.ProofsMatSpec C11.ProofsMat
                        C11.ProofsMatDense C11.DenseMat C11.ProofsMatDense4 C11.ProofsMatWorld C11.ProofsMatOut
                        C11.ModelMatFrom C11.DenseMatFrom C11.ProofsMatFrom
                        C11.ModelMatPerm C11.DenseMatPerm.
Import ListNotations.
Open Scope Z_scope.

(* ---- 0. coherence is kept by ANY call (malformed pi, error or panic in mid-loop included) ---- *)
Lemma perm_loop_MInv body n pi :
  (forall m i p, MInv m -> MInv (fst (body m i p)) /\ mdims (fst (body m i p)) = mdims m) ->
  forall is m, MInv m ->
  MInv (fst (perm_loop body n pi is m)) /\ mdims (fst (perm_loop body n pi is m)) = mdims m.
Proof.
  intros HB. induction is as [|i r IH]; intros m I; cbn [perm_loop]; [auto|].
  destruct (nth_error pi (Z.to_nat i)) as [p|]; [|auto].
  destruct ((p <? 0) || (n <? p)); [auto|].
  destruct (i <? p); [|apply IH; exact I].
  destruct (HB m i p I) as [A B]. destruct (body m i p) as [m' k]. cbn [fst] in A, B.
  destruct (k =? K_PANIC); [cbn [fst]; auto|].
  destruct (IH m' A) as [C D]. split; [exact C|]. rewrite D. exact B.
Qed.
Lemma sym_body_MInv m i p : MInv m -> MInv (fst (sym_body m i p)) /\ mdims (fst (sym_body m i p)) = mdims m.
Proof.
  intro I. unfold sym_body. destruct (mswap_rows_MInv m i p I) as [A B].
  destruct (mswap_rows m i p) as [m1 k1]. cbn [fst] in A, B.
  destruct (k1 =? K_PANIC); [cbn [fst]; auto|].
  destruct (mswap_cols_MInv m1 i p A) as [C D]. split; [exact C|]. rewrite D. exact B.
Qed.
Lemma mperm_rows_MInv m pi : MInv m -> MInv (fst (mperm_rows m pi)) /\ mdims (fst (mperm_rows m pi)) = mdims m.
Proof.
  intro I. unfold mperm_rows. destruct (negb (mrows m =? mcols m)); [auto|].
  apply perm_loop_MInv; [|exact I]. intros. apply mswap_rows_MInv. assumption.
Qed.
Lemma mperm_cols_MInv m pi : MInv m -> MInv (fst (mperm_cols m pi)) /\ mdims (fst (mperm_cols m pi)) = mdims m.
Proof.
  intro I. unfold mperm_cols. destruct (negb (mrows m =? mcols m)); [auto|].
  apply perm_loop_MInv; [|exact I]. intros. apply mswap_cols_MInv. assumption.
Qed.
Lemma msym_perm_MInv m pi : MInv m -> MInv (fst (msym_perm m pi)) /\ mdims (fst (msym_perm m pi)) = mdims m.
Proof.
  intro I. unfold msym_perm. destruct (negb (mrows m =? mcols m)); [auto|].
  apply perm_loop_MInv; [|exact I]. intros. apply sym_body_MInv. assumption.
Qed.

(* ---- 1. the loop refines the dense loop ------------------------------------------------------ *)
Lemma Forall_firstn_nth {X} (P : X -> Prop) d : forall k (l : list X) i,
  Forall P (firstn k l) -> (i < k)%nat -> (i < length l)%nat -> P (nth i l d).
Proof.
  induction k as [|k IH]; intros l i F H1 H2; [lia|].
  destruct l as [|x l]; [cbn in H2; lia|]. cbn [firstn] in F. inversion F as [|? ? Px Fr]; subst.
  destruct i as [|i]; [exact Px|]. cbn [nth]. apply IH; [exact Fr|lia|cbn in H2; lia].
Qed.
Lemma perm_ok_nth n pi i : perm_ok n pi -> 0 <= i < n ->
  nth_error pi (Z.to_nat i) = Some (nth (Z.to_nat i) pi 0) /\ 0 <= nth (Z.to_nat i) pi 0 < n.
Proof.
  intros [L F] Hi. assert (Hl : (Z.to_nat i < length pi)%nat) by lia. split.
  - apply nth_error_nth'. exact Hl.
  - apply (Forall_firstn_nth (fun p => 0 <= p < n) 0 (Z.to_nat n)); [exact F|lia|exact Hl].
Qed.

Definition BodyOK (body : smat -> Z -> Z -> smat * Z) (dbody : dmat -> Z -> Z -> dmat) (n : Z) : Prop :=
  forall h m i p, MInv m -> Wf h (mv m) -> mrows m = n -> mcols m = n -> 0 <= i < n -> 0 <= p < n ->
  exists m', body m i p = (m', K_OK) /\ mabsd h m' = dbody (mabsd h m) i p /\ MInv m' /\ Wf h (mv m') /\
    (forall l, In l (mcells m') <-> In l (mcells m)) /\ mdims m' = mdims m.

Lemma perm_loop_refines body dbody n pi h : BodyOK body dbody n -> perm_ok n pi ->
  forall is m, (forall i, In i is -> 0 <= i < n) -> MInv m -> Wf h (mv m) -> mrows m = n -> mcols m = n ->
  exists m', perm_loop body n pi is m = (m', K_OK) /\ mabsd h m' = dperm_loop dbody pi is (mabsd h m) /\
    MInv m' /\ Wf h (mv m') /\ (forall l, In l (mcells m') <-> In l (mcells m)) /\ mdims m' = mdims m.
Proof.
  intros HB HP. induction is as [|i r IH]; intros m Hin I W R C; cbn [perm_loop dperm_loop].
  - exists m. split; [reflexivity|]. split; [reflexivity|]. split; [exact I|]. split; [exact W|].
    split; [intro l; reflexivity|reflexivity].
  - assert (Hi : 0 <= i < n) by (apply Hin; left; reflexivity).
    destruct (perm_ok_nth n pi i HP Hi) as [E Hp]. rewrite E. set (p := nth (Z.to_nat i) pi 0) in *.
    assert (G : (p <? 0) || (n <? p) = false).
    { apply orb_false_iff. split; [apply Z.ltb_ge|apply Z.ltb_ge]; lia. }
    rewrite G. destruct (i <? p) eqn:Lt.
    + destruct (HB h m i p I W R C Hi Hp) as (m1 & A1 & A2 & A3 & A4 & A5 & A6). rewrite A1.
      change (K_OK =? K_PANIC) with false. cbv iota.
      assert (R1 : mrows m1 = n) by (unfold mdims in A6; inversion A6; congruence).
      assert (C1 : mcols m1 = n) by (unfold mdims in A6; inversion A6; congruence).
      destruct (IH m1 (fun x Hx => Hin x (or_intror Hx)) A3 A4 R1 C1) as (m' & B1 & B2 & B3 & B4 & B5 & B6).
      exists m'. split; [exact B1|]. split; [rewrite B2, A2; reflexivity|]. split; [exact B3|]. split; [exact B4|].
      split; [intro l; rewrite B5; apply A5|]. rewrite B6. exact A6.
    + apply (IH m (fun x Hx => Hin x (or_intror Hx)) I W R C).
Qed.

Lemma BodyOK_rows n : BodyOK mswap_rows dm_swap_rows n.
Proof.
  intros h m i p I W R C Hi Hp.
  destruct (mswap_rows_refines h m i p I W) as (m' & A & B & C' & D & E); [intros _ _; lia|].
  assert (Sq : (mrows m =? mcols m) = true) by (apply Z.eqb_eq; lia). rewrite Sq in A.
  exists m'. split; [exact A|]. split; [exact B|]. split; [exact C'|]. split; [exact D|]. split; [exact E|].
  pose proof (proj2 (mswap_rows_MInv m i p I)) as X. rewrite A in X. exact X.
Qed.
Lemma BodyOK_cols n : BodyOK mswap_cols dm_swap_cols n.
Proof.
  intros h m i p I W R C Hi Hp.
  destruct (mswap_cols_refines h m i p I W) as (m' & A & B & C' & D & E); [intros _ _; lia|].
  assert (Sq : (mrows m =? mcols m) = true) by (apply Z.eqb_eq; lia). rewrite Sq in A.
  exists m'. split; [exact A|]. split; [exact B|]. split; [exact C'|]. split; [exact D|]. split; [exact E|].
  pose proof (proj2 (mswap_cols_MInv m i p I)) as X. rewrite A in X. exact X.
Qed.
Lemma BodyOK_sym n : BodyOK sym_body dm_sym_body n.
Proof.
  intros h m i p I W R C Hi Hp. unfold sym_body, dm_sym_body.
  destruct (BodyOK_rows n h m i p I W R C Hi Hp) as (m1 & A1 & A2 & A3 & A4 & A5 & A6). rewrite A1.
  change (K_OK =? K_PANIC) with false. cbv iota.
  assert (R1 : mrows m1 = n) by (unfold mdims in A6; inversion A6; congruence).
  assert (C1 : mcols m1 = n) by (unfold mdims in A6; inversion A6; congruence).
  destruct (BodyOK_cols n h m1 i p A3 A4 R1 C1 Hi Hp) as (m2 & B1 & B2 & B3 & B4 & B5 & B6).
  exists m2. split; [exact B1|]. split; [rewrite B2, A2; reflexivity|]. split; [exact B3|]. split; [exact B4|].
  split; [intro l; rewrite B5; apply A5|]. rewrite B6. exact A6.
Qed.

(* ---- 2. the three methods, one matrix --------------------------------------------------------- *)
Section OneMatrix.
Variables (h : heap) (m : smat) (pi : list Z).
Hypothesis I : MInv m.
Hypothesis W : Wf h (mv m).
Hypothesis P : mrows m = mcols m -> perm_ok (mrows m) pi.

Let zs_range : forall n i, In i (zseq 0 (Z.to_nat n)) -> 0 <= i < n.
Proof. intros n i Hi. apply zseq_In in Hi. lia. Qed.

Lemma mperm_rows_refines :
  exists m', mperm_rows m pi = (m', if mrows m =? mcols m then K_OK else K_ERR) /\
    mabsd h m' = dm_perm_rows (mabsd h m) pi /\ MInv m' /\ Wf h (mv m') /\
    (forall l, In l (mcells m') <-> In l (mcells m)) /\ mdims m' = mdims m.
Proof.
  unfold mperm_rows, dm_perm_rows. cbn [dr dc mabsd]. destruct (mrows m =? mcols m) eqn:Sq; cbn [negb].
  - apply Z.eqb_eq in Sq.
    apply (perm_loop_refines mswap_rows dm_swap_rows (mrows m) pi h (BodyOK_rows _) (P Sq)); auto.
  - exists m. split; [reflexivity|]. split; [reflexivity|]. split; [exact I|]. split; [exact W|].
    split; [intro l; reflexivity|reflexivity].
Qed.
Lemma mperm_cols_refines :
  exists m', mperm_cols m pi = (m', if mrows m =? mcols m then K_OK else K_ERR) /\
    mabsd h m' = dm_perm_cols (mabsd h m) pi /\ MInv m' /\ Wf h (mv m') /\
    (forall l, In l (mcells m') <-> In l (mcells m)) /\ mdims m' = mdims m.
Proof.
  unfold mperm_cols, dm_perm_cols. cbn [dr dc mabsd]. destruct (mrows m =? mcols m) eqn:Sq; cbn [negb].
  - apply Z.eqb_eq in Sq.
    apply (perm_loop_refines mswap_cols dm_swap_cols (mrows m) pi h (BodyOK_cols _) (P Sq)); auto.
    intros i Hi. rewrite Sq. apply zs_range. exact Hi.
  - exists m. split; [reflexivity|]. split; [reflexivity|]. split; [exact I|]. split; [exact W|].
    split; [intro l; reflexivity|reflexivity].
Qed.
Lemma msym_perm_refines :
  exists m', msym_perm m pi = (m', if mrows m =? mcols m then K_OK else K_ERR) /\
    mabsd h m' = dm_sym_perm (mabsd h m) pi /\ MInv m' /\ Wf h (mv m') /\
    (forall l, In l (mcells m') <-> In l (mcells m)) /\ mdims m' = mdims m.
Proof.
  unfold msym_perm, dm_sym_perm. cbn [dr dc mabsd]. destruct (mrows m =? mcols m) eqn:Sq; cbn [negb].
  - apply Z.eqb_eq in Sq.
    apply (perm_loop_refines sym_body dm_sym_body (mrows m) pi h (BodyOK_sym _) (P Sq)); auto.
  - exists m. split; [reflexivity|]. split; [reflexivity|]. split; [exact I|]. split; [exact W|].
    split; [intro l; reflexivity|reflexivity].
Qed.
End OneMatrix.

(* ---- 3. steps, payloads, histories over mop3 -------------------------------------------------- *)
Definition MSim3 (w : mworld) (o : mop3) : Prop :=
  mabsw (fst (mstep3 w o)) = mdstep3 (mabsw w) o /\ MWWf (fst (mstep3 w o)) /\
  fst (snd (mstep3 w o)) = mcode3 w o.

Lemma mstep3_MWInv w o : MWInv w -> min_range3 w o -> MWInv (fst (mstep3 w o)).
Proof.
  intros H R. assert (G : forall t, MInv (getm w t)) by (intro t0; apply MWInv_getm; auto).
  destruct o as [o|t pi|t pi|t pi]; cbn [mstep3 min_range3] in *.
  - apply mstep2_MWInv; auto.
  - pose proof (proj1 (mperm_rows_MInv (getm w t) pi (G t))) as X.
    destruct (mperm_rows (getm w t) pi) as [m' k]. cbn [fst] in *. apply MWInv_setm; auto.
  - pose proof (proj1 (mperm_cols_MInv (getm w t) pi (G t))) as X.
    destruct (mperm_cols (getm w t) pi) as [m' k]. cbn [fst] in *. apply MWInv_setm; auto.
  - pose proof (proj1 (msym_perm_MInv (getm w t) pi (G t))) as X.
    destruct (msym_perm (getm w t) pi) as [m' k]. cbn [fst] in *. apply MWInv_setm; auto.
Qed.

Section Lift3.
Hypothesis Hbase : forall w o, MWInv w -> MWWf w -> min_range w o -> msafe w o ->
  mabsw (fst (mstep w o)) = mdstep (mabsw w) o /\ MWWf (fst (mstep w o)) /\ fst (snd (mstep w o)) = mcode w o.

Lemma mstep3_sim w o : MWInv w -> MWWf w -> min_range3 w o -> msafe3 w o -> MSim3 w o.
Proof.
  intros I W R S. assert (G : forall t, MInv (getm w t)) by (intro t0; apply MWInv_getm; auto).
  assert (GW : forall t, Wf (mhp w) (mv (getm w t))) by (intro t0; apply MWWf_getm; exact W).
  destruct o as [o|t pi|t pi|t pi]; unfold MSim3; cbn [mstep3 mdstep3 min_range3 msafe3 mcode3] in *.
  - apply (mstep2_sim Hbase w o I W R S).
  - destruct R as [R1 R2].
    destruct (mperm_rows_refines (mhp w) (getm w t) pi (G t) (GW t) R2) as (m' & A & B & C & D & _). rewrite A.
    cbn [fst snd]. destruct (msim_same w W t m' (fun a => dm_perm_rows a pi) B D) as [X Y].
    split; [exact X|split; [exact Y|reflexivity]].
  - destruct R as [R1 R2].
    destruct (mperm_cols_refines (mhp w) (getm w t) pi (G t) (GW t) R2) as (m' & A & B & C & D & _). rewrite A.
    cbn [fst snd]. destruct (msim_same w W t m' (fun a => dm_perm_cols a pi) B D) as [X Y].
    split; [exact X|split; [exact Y|reflexivity]].
  - destruct R as [R1 R2].
    destruct (msym_perm_refines (mhp w) (getm w t) pi (G t) (GW t) R2) as (m' & A & B & C & D & _). rewrite A.
    cbn [fst snd]. destruct (msim_same w W t m' (fun a => dm_sym_perm a pi) B D) as [X Y].
    split; [exact X|split; [exact Y|reflexivity]].
Qed.

Lemma mrun3_sim_from ops : forall w, MWInv w -> MWWf w -> mvalid_safe3 w ops ->
  mabsw (mrun3 w ops) = mdense_run3 (mabsw w) ops /\ MWWf (mrun3 w ops) /\ MWInv (mrun3 w ops).
Proof.
  induction ops as [|o r IH]; intros w I W V.
  - cbn. split; [reflexivity|split; [exact W|exact I]].
  - destruct V as (V1 & V2 & V3). destruct (mstep3_sim w o I W V1 V2) as (A & B & _).
    unfold mrun3, mdense_run3 in *. cbn [fold_left]. rewrite <- A. apply IH; auto.
    apply mstep3_MWInv; auto.
Qed.
End Lift3.

(* the payload: the reading operations are those of mop2; a permutation returns nothing *)
Lemma mstep3_out w o q :
  MWInv w -> MWWf w -> min_range3 w o -> mdout3 (mabsw w) o = Some q -> snd (snd (mstep3 w o)) = q.
Proof.
  intros I W R E. destruct o as [o|t pi|t pi|t pi]; cbn [mstep3 mdout3 min_range3] in *.
  - apply mstep2_out; auto.
  - inversion E. destruct (mperm_rows (getm w t) pi). reflexivity.
  - inversion E. destruct (mperm_cols (getm w t) pi). reflexivity.
  - inversion E. destruct (msym_perm (getm w t) pi). reflexivity.
Qed.

Lemma mvalid_safe3_app a : forall w b,
  mvalid_safe3 w (a ++ b) -> mvalid_safe3 w a /\ mvalid_safe3 (mrun3 w a) b.
Proof.
  induction a as [|o a IH]; intros w b V.
  - split; [exact Logic.I|exact V].
  - cbn [app mvalid_safe3] in V. destruct V as (V1 & V2 & V3). destruct (IH _ _ V3) as [A B].
    split; [cbn [mvalid_safe3]; auto|exact B].
Qed.

Section History3.
Hypothesis Hbase : forall w o, MWInv w -> MWWf w -> min_range w o -> msafe w o ->
  mabsw (fst (mstep w o)) = mdstep (mabsw w) o /\ MWWf (fst (mstep w o)) /\ fst (snd (mstep w o)) = mcode w o.
Lemma mhistory3_step : forall pre o,
  mvalid_safe3 minit (pre ++ [o]) ->
  let w := mrun3 minit pre in
  fst (snd (mstep3 w o)) = mcode3 w o /\
  (forall q, mdout3 (mdense_run3 [] pre) o = Some q -> snd (snd (mstep3 w o)) = q).
Proof.
  intros pre o V w. destruct (mvalid_safe3_app pre minit [o] V) as [V1 V2].
  destruct (mrun3_sim_from Hbase pre minit MWInv_minit MWWf_minit V1) as (A & B & C). fold w in A, B, C, V2.
  destruct V2 as (R & S & _). split.
  - apply (mstep3_sim Hbase w o C B R S).
  - intros q E. change (mabsw minit) with (@nil dmat) in A. rewrite <- A in E.
    apply (mstep3_out w o q C B R E).
Qed.
Lemma miterate_after_history3 : forall pre t,
  mvalid_safe3 minit (pre ++ [M2 (MB (MIterate t))]) ->
  snd (mstep3 (mrun3 minit pre) (M2 (MB (MIterate t)))) =
  (K_OK, flat3 (dm_entries (dmget (mdense_run3 [] pre) t))).
Proof.
  intros pre t V. destruct (mhistory3_step pre _ V) as [A B].
  specialize (B _ eq_refl). cbv zeta in A, B.
  destruct (mstep3 (mrun3 minit pre) (M2 (MB (MIterate t)))) as [w' [c p]]. cbn [fst snd] in *.
  rewrite A, B. reflexivity.
Qed.
End History3.

Lemma mperm_any_call_MInv m pi : MInv m ->
  (MInv (fst (mperm_rows m pi)) /\ mdims (fst (mperm_rows m pi)) = mdims m) /\
  (MInv (fst (mperm_cols m pi)) /\ mdims (fst (mperm_cols m pi)) = mdims m) /\
  (MInv (fst (msym_perm m pi)) /\ mdims (fst (msym_perm m pi)) = mdims m).
Proof.
  intros I. exact (conj (mperm_rows_MInv m pi I) (conj (mperm_cols_MInv m pi I) (msym_perm_MInv m pi I))).
Qed.

(* ---- 4. the executable side conditions of CorrMat4 are sound --------------------------------- *)
Lemma perm_okb_sound n pi : perm_okb n pi = true -> perm_ok n pi.
Proof.
  unfold perm_okb, perm_ok. rewrite andb_true_iff. intros [A B]. split; [apply Nat.leb_le; exact A|].
  apply Forall_forall. intros p Hp. rewrite forallb_forall in B. specialize (B p Hp).
  apply andb_true_iff in B. destruct B as [B1 B2]. apply Z.leb_le in B1. apply Z.ltb_lt in B2. lia.
Qed.
Lemma min_rangeb3_sound w o : min_rangeb3 w o = true -> min_range3 w o.
Proof.
  assert (X : forall t pi, mhasb w t && (negb (mrows (getm w t) =? mcols (getm w t)) || perm_okb (mrows (getm w t)) pi) = true ->
              mhas w t /\ (mrows (getm w t) = mcols (getm w t) -> perm_ok (mrows (getm w t)) pi)).
  { intros t pi. rewrite andb_true_iff. intros [A B]. split; [apply mhasb_sound; exact A|]. intro Sq.
    apply Z.eqb_eq in Sq. rewrite Sq in B. cbn [negb orb] in B. apply perm_okb_sound. exact B. }
  destruct o as [o|t pi|t pi|t pi]; cbn [min_rangeb3 min_range3]; [apply min_rangeb2_sound|apply X..].
Qed.
Lemma msafeb3_sound w o : msafeb3 w o = true -> msafe3 w o.
Proof. destruct o; cbn [msafeb3 msafe3]; auto. apply msafeb2_sound. Qed.
Fixpoint mvalid_safeb3 (w : mworld) (ops : list mop3) : bool :=
  match ops with
  | [] => true
  | o :: r => min_rangeb3 w o && msafeb3 w o && mvalid_safeb3 (fst (mstep3 w o)) r
  end.
Lemma mvalid_safeb3_sound ops : forall w, mvalid_safeb3 w ops = true -> mvalid_safe3 w ops.
Proof.
  induction ops as [|o r IH]; intros w H; cbn [mvalid_safeb3 mvalid_safe3] in *; [exact Logic.I|].
  apply andb_prop in H. destruct H as [H H3]. apply andb_prop in H. destruct H as [H1 H2].
  split; [apply min_rangeb3_sound; exact H1|]. split; [apply msafeb3_sound; exact H2|]. apply IH. exact H3.
Qed.

(* ---- 5. the guard as coded: pi[i] = n is let through and panics (not part of the quantifier:
        the argument is out of range; recorded because the vector Permute has `>=`) ------------- *)
Lemma perm_guard_off_by_one :
  let m := null_mat 2 2 in
  mperm_rows m [2; 1] = (m, K_PANIC) /\ mperm_cols m [2; 1] = (m, K_PANIC) /\ msym_perm m [2; 1] = (m, K_PANIC) /\
  mperm_rows m [3; 1] = (m, K_ERR).
Proof. vm_compute. repeat split. Qed.

(* ---- 6. frame: a permutation of matrix t touches nothing but matrix t ------------------------- *)
Lemma getm_setm_other w t m u : u <> t -> getm (setm w t m) u = getm w u.
Proof.
  intro N. unfold getm, setm. cbn [mats]. generalize (mats w) as l. revert u N.
  induction t as [|t IH]; intros u N l; destruct l as [|x l]; cbn [upd]; auto.
  - destruct u as [|u]; [congruence|reflexivity].
  - destruct u as [|u]; [reflexivity|]. cbn [nth]. apply IH. congruence.
Qed.
Lemma mperm_frame w t pi :
  let w1 := fst (mstep3 w (MPermRows t pi)) in
  let w2 := fst (mstep3 w (MPermCols t pi)) in
  let w3 := fst (mstep3 w (MSymPerm t pi)) in
  (mhp w1 = mhp w /\ forall u, u <> t -> getm w1 u = getm w u) /\
  (mhp w2 = mhp w /\ forall u, u <> t -> getm w2 u = getm w u) /\
  (mhp w3 = mhp w /\ forall u, u <> t -> getm w3 u = getm w u).
Proof.
  cbn [mstep3]. destruct (mperm_rows (getm w t) pi) as [m1 k1]. destruct (mperm_cols (getm w t) pi) as [m2 k2].
  destruct (msym_perm (getm w t) pi) as [m3 k3]. cbn [fst].
  repeat split; try reflexivity; intros u N; apply getm_setm_other; exact N.
Qed.
