(* C11 — the plain iterator with skip(): closed form of a full iteration.
   iterate h v visits exactly the index keys whose entry is non-null, in
   ascending order, removes the null ones, and changes no value. *)
From Coq Require Import ZArith List Bool Lia Sorted.
From ADV Require Import C11.Model C11.Spec C11.ProofsMap.
Import ListNotations.
Open Scope Z_scope.

Fixpoint dropnull (p : Z -> bool) (l : list Z) : list Z :=
  match l with [] => [] | k :: r => if p k then dropnull p r else l end.
Definition cell_of (v : svec) (k : Z) : loc := match lookup k (vals v) with Some l => l | None => O end.
Definition cells (v : svec) (ks : list Z) : list (Z * loc) := map (fun k => (k, cell_of v k)) ks.
Definition nonnull (h : heap) (v : svec) (k : Z) : bool := negb (isnull h v k).
(* v' is v with some null entries removed *)
Definition Q (h : heap) (v v' : svec) : Prop :=
  (forall k, isnull h v' k = isnull h v k) /\
  (forall k, isnull h v k = false -> lookup k (vals v') = lookup k (vals v)) /\
  dim v' = dim v.

Lemma Q_refl h v : Q h v v.
Proof. unfold Q. auto. Qed.
Lemma Q_trans h a b c : Q h a b -> Q h b c -> Q h a c.
Proof.
  intros (A1 & A2 & A3) (B1 & B2 & B3). unfold Q. repeat split.
  - intro k. rewrite B1. auto.
  - intros k Hk. rewrite B2; [auto|]. rewrite A1. auto.
  - congruence.
Qed.
Lemma Q_del h v k : isnull h v k = true -> Q h v (del_entry k v).
Proof.
  intro H. unfold Q, del_entry, isnull in *. cbn [vals idx dim]. repeat split; auto.
  - intro k'. rewrite lookup_remove. destruct (k =? k') eqn:E; auto.
    apply Z.eqb_eq in E. subst. auto.
  - intros k' Hk'. rewrite lookup_remove. destruct (k =? k') eqn:E; auto.
    apply Z.eqb_eq in E. subst. rewrite H in Hk'. discriminate.
Qed.
Lemma Q_peek h v v' k : Q h v v' -> peek h v' k = peek h v k.
Proof.
  intros (A1 & A2 & _). unfold peek. specialize (A1 k). specialize (A2 k).
  unfold isnull in *. destruct (lookup k (vals v)) as [l|] eqn:L.
  - destruct (hget h l =? 0) eqn:Z0.
    + destruct (lookup k (vals v')) as [l'|]; [|apply Z.eqb_eq in Z0; auto].
      apply Z.eqb_eq in A1, Z0. lia.
    + rewrite A2; auto.
  - destruct (lookup k (vals v')) as [l'|]; auto. apply Z.eqb_eq in A1. auto.
Qed.

Lemma dropnull_ext p q l : (forall k, p k = q k) -> dropnull p l = dropnull q l.
Proof. intro H. induction l as [|k r IH]; simpl; auto. rewrite H, IH. auto. Qed.
Lemma dropnull_length p l : (length (dropnull p l) <= length l)%nat.
Proof. induction l as [|k r IH]; simpl; auto. destruct (p k); simpl; lia. Qed.
Lemma dropnull_idem p l : dropnull p (dropnull p l) = dropnull p l.
Proof. induction l as [|k r IH]; simpl; auto. destruct (p k) eqn:E; auto. simpl. rewrite E. auto. Qed.
Lemma filter_dropnull p l : filter (fun k => negb (p k)) (dropnull p l) = filter (fun k => negb (p k)) l.
Proof. induction l as [|k r IH]; simpl; auto. destruct (p k) eqn:E; simpl; auto. rewrite E. auto. Qed.

Lemma sset_app_lt a : forall b, sset (a ++ b) -> forall x y, In x a -> In y b -> x < y.
Proof.
  induction a as [|z a IH]; intros b H x y Hx Hy; [destruct Hx|].
  simpl in H. apply sset_cons in H. destruct H as [Hs Hf]. destruct Hx as [->|Hx].
  - rewrite Forall_forall in Hf. apply Hf. apply in_or_app. auto.
  - eapply IH; eauto.
Qed.
Lemma sset_app_r a b : sset (a ++ b) -> sset b.
Proof. induction a as [|z a IH]; simpl; auto. intro H. apply sset_cons in H. tauto. Qed.
Lemma kdel_mid pre : forall k r, sset (pre ++ k :: r) -> kdel k (pre ++ k :: r) = pre ++ r.
Proof.
  induction pre as [|y p IH]; intros k r H; simpl.
  - rewrite Z.eqb_refl. auto.
  - assert (y < k) by (apply (sset_app_lt (y :: p) (k :: r) H y k); simpl; auto).
    destruct (y =? k) eqn:E; [apply Z.eqb_eq in E; lia|].
    rewrite IH; auto. simpl in H. apply sset_cons in H. tauto.
Qed.
Lemma first_gt_mid pre : forall k r, sset (pre ++ k :: r) -> first_gt k (pre ++ k :: r) = hd_error r.
Proof.
  unfold first_gt. induction pre as [|y p IH]; intros k r H; simpl.
  - rewrite Z.ltb_irrefl. destruct r as [|z r]; simpl; auto.
    apply sset_cons in H. destruct H as [_ Hf]. inversion Hf; subst.
    destruct (k <? z) eqn:E; auto. apply Z.ltb_ge in E. lia.
  - assert (y < k) by (apply (sset_app_lt (y :: p) (k :: r) H y k); simpl; auto).
    destruct (k <? y) eqn:E; [apply Z.ltb_lt in E; lia|].
    apply IH. simpl in H. apply sset_cons in H. tauto.
Qed.

Section Iter.
Variable h : heap.

Lemma skip_spec : forall rest pre v f,
  idx v = pre ++ rest -> sset (idx v) -> (length rest <= f)%nat ->
  exists v', skip f h v (hd_error rest) = Some (v', hd_error (dropnull (isnull h v) rest)) /\
             idx v' = pre ++ dropnull (isnull h v) rest /\ Q h v v'.
Proof.
  induction rest as [|k r IH]; intros pre v f Hidx Hs Hf.
  - exists v. destruct f; simpl; (split; [|split]); auto; apply Q_refl.
  - simpl. destruct (isnull h v k) eqn:N.
    + destruct f as [|f]; [simpl in Hf; lia|].
      cbn [skip hd_error]. rewrite N.
      rewrite Hidx in Hs.
      assert (E1 : first_gt k (idx v) = hd_error r) by (rewrite Hidx; apply first_gt_mid; auto).
      destruct (IH pre (del_entry k v) f) as (v' & A & B & C).
      * unfold del_entry. cbn [idx]. rewrite Hidx. apply kdel_mid; auto.
      * unfold del_entry. cbn [idx]. apply kdel_sset. rewrite Hidx. auto.
      * simpl in Hf. lia.
      * pose proof (Q_del h v k N) as QD.
        assert (EE : dropnull (isnull h (del_entry k v)) r = dropnull (isnull h v) r)
          by (apply dropnull_ext; apply QD).
        rewrite EE in *. exists v'. rewrite E1. split; [auto|split; [auto|eapply Q_trans; eauto]].
    + exists v. destruct f; simpl; rewrite N; (split; [|split]); auto; apply Q_refl.
Qed.

Lemma iter_loop_spec : forall f rest pre v acc,
  idx v = pre ++ rest -> sset (idx v) -> (length rest <= f)%nat ->
  dropnull (isnull h v) rest = rest ->
  exists v', iter_loop f h v (hd_error rest) acc
               = Some (v', rev acc ++ cells v (filter (nonnull h v) rest)) /\
             idx v' = pre ++ filter (nonnull h v) rest /\ Q h v v'.
Proof.
  induction f as [|f IH]; intros rest pre v acc Hidx Hs Hf Hd.
  - destruct rest; [|simpl in Hf; lia]. exists v. simpl. rewrite ?app_nil_r in *. split; [|split]; auto. apply Q_refl.
  - destruct rest as [|k r].
    + exists v. simpl. rewrite ?app_nil_r in *. split; [|split]; auto. apply Q_refl.
    + simpl in Hd. destruct (isnull h v k) eqn:N.
      { exfalso. pose proof (dropnull_length (isnull h v) r) as L. rewrite Hd in L. simpl in L. lia. }
      cbn [hd_error iter_loop].
      assert (exists l, lookup k (vals v) = Some l) as [l Hl].
      { unfold isnull in N. destruct (lookup k (vals v)); [eauto|discriminate]. }
      rewrite Hl.
      assert (E1 : first_gt k (idx v) = hd_error r) by (rewrite Hidx; apply first_gt_mid; rewrite <- Hidx; auto).
      unfold it_next. rewrite E1.
      destruct (skip_spec r (pre ++ [k]) v (sfuel v)) as (v2 & A & B & C); auto.
      { rewrite Hidx, <- app_assoc. auto. }
      { unfold sfuel. rewrite Hidx, app_length. simpl. lia. }
      rewrite A.
      set (r' := dropnull (isnull h v) r) in *.
      assert (Hext : forall k0, isnull h v2 k0 = isnull h v k0) by apply C.
      destruct (IH r' (pre ++ [k]) v2 ((k, l) :: acc)) as (v3 & A3 & B3 & C3); auto.
      { assert (sset (kdel 0 [])) by (simpl; apply sset_nil).
        rewrite B. rewrite Hidx in Hs. clear - Hs.
        (* pre ++ [k] ++ r' is a sub-list of pre ++ k :: r *)
        revert Hs. unfold r'. generalize (isnull h v). intros p Hs.
        rewrite <- app_assoc. simpl.
        induction pre as [|y pr IHp]; simpl in *.
        - apply sset_cons in Hs. destruct Hs as [Hs Hf]. apply sset_cons. split.
          + clear Hf. induction r as [|z r IHr]; simpl; auto. destruct (p z); auto.
            apply IHr. apply sset_cons in Hs. tauto.
          + apply Forall_forall. intros x Hx. rewrite Forall_forall in Hf. apply Hf.
            clear - Hx. induction r as [|z r IHr]; simpl in *; auto. destruct (p z); auto.
        - apply sset_cons in Hs. destruct Hs as [Hs Hf]. apply sset_cons. split; auto.
          apply Forall_forall. intros x Hx. rewrite Forall_forall in Hf. apply Hf.
          apply in_app_or in Hx. apply in_or_app. destruct Hx as [Hx|Hx]; auto. right.
          simpl in *. destruct Hx as [Hx|Hx]; auto. right.
          clear - Hx. induction r as [|z r IHr]; simpl in *; auto. destruct (p z); auto. }
      { pose proof (dropnull_length (isnull h v) r). unfold r'. simpl in Hf. lia. }
      { rewrite (dropnull_ext _ (isnull h v)); auto. apply dropnull_idem. }
      assert (NN : nonnull h v k = true) by (unfold nonnull; rewrite N; auto).
      assert (CK : cell_of v k = l) by (unfold cell_of; rewrite Hl; auto).
      assert (F1 : filter (nonnull h v2) r' = filter (nonnull h v) r).
      { unfold nonnull. rewrite (filter_ext _ (fun k0 => negb (isnull h v k0))).
        - apply filter_dropnull.
        - intro a. rewrite Hext. auto. }
      exists v3. rewrite A3. split; [|split].
      * apply f_equal. apply f_equal. simpl rev. rewrite <- app_assoc. cbn [filter]. rewrite NN.
        unfold cells at 2. cbn [map app]. rewrite CK, F1. unfold cells.
        apply (f_equal (app (rev acc))). apply (f_equal (cons (k, l))). apply map_ext_in. intros a Ha. f_equal.
        apply filter_In in Ha. destruct Ha as [_ Ha]. unfold nonnull in Ha.
        unfold cell_of. destruct C as (_ & C2 & _). rewrite C2; auto.
        destruct (isnull h v a); auto; discriminate.
      * rewrite B3. rewrite <- app_assoc. cbn [filter app]. rewrite NN. rewrite F1. auto.
      * eapply Q_trans; eauto.
Qed.

(* closed form of a full iteration *)
Lemma iterate_spec v :
  sset (idx v) ->
  exists v', iterate h v = Some (v', cells v (filter (nonnull h v) (idx v))) /\
             idx v' = filter (nonnull h v) (idx v) /\ Q h v v'.
Proof.
  intro Hs. unfold iterate, it_begin.
  destruct (skip_spec (idx v) [] v (sfuel v)) as (v1 & A & B & C); auto.
  { unfold sfuel. lia. }
  rewrite A. simpl in B.
  assert (Hext : forall k0, isnull h v1 k0 = isnull h v k0) by apply C.
  destruct (iter_loop_spec (sfuel v) (dropnull (isnull h v) (idx v)) [] v1 []) as (v2 & A2 & B2 & C2); auto.
  - rewrite B. clear - Hs. revert Hs. generalize (isnull h v). intros p Hs.
    induction (idx v) as [|z r IHr]; simpl; auto. destruct (p z); auto.
    apply IHr. apply sset_cons in Hs. tauto.
  - pose proof (dropnull_length (isnull h v) (idx v)). unfold sfuel. lia.
  - rewrite (dropnull_ext _ (isnull h v)); auto. apply dropnull_idem.
  - exists v2. rewrite A2. simpl.
    assert (F1 : filter (nonnull h v1) (dropnull (isnull h v) (idx v)) = filter (nonnull h v) (idx v)).
    { unfold nonnull. rewrite (filter_ext _ (fun k0 => negb (isnull h v k0))).
      - apply filter_dropnull.
      - intro a. rewrite Hext. auto. }
    split; [|split].
    + f_equal. f_equal. rewrite F1. unfold cells. apply map_ext_in. intros a Ha. f_equal.
      apply filter_In in Ha. destruct Ha as [_ Ha]. unfold nonnull in Ha.
      unfold cell_of. destruct C as (_ & C2' & _). rewrite C2'; auto.
      destruct (isnull h v a); auto; discriminate.
    + rewrite B2. simpl. auto.
    + eapply Q_trans; eauto.
Qed.
End Iter.
