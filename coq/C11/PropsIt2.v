(* C11, part 2b — property theorems about STALE iterators (an iterator held across
   ReverseOrder / Sort / successful Permute: finding C11-STALEIT), statements only;
   proofs in ProofsIt2.v; models in ModelIt.v / ModelIt2.v and C19/Model.v.
   Every theorem is followed by an Example: a concrete, non-trivial instance. *)
From Coq Require Import ZArith List Bool Lia Sorted.
From ADV Require Import C11.Model C11.Spec C11.ProofsMap C11.ProofsIter C11.ProofsInv C11.ProofsRef
                        C11.ModelIt C11.ProofsIt C11.ModelIt2 C11.ProofsIt2.
Import ListNotations.
Open Scope Z_scope.

(* ---- 1. key-set level ----------------------------------------------------------
   (central) a stale iterator whose node is valid walks the links of the dropped
   tree: for EVERY coherent current vector v, EVERY strictly ascending snapshot
   [snap] (the key list of the old index; nothing relates it to idx v: its keys
   may be absent from the current map / index) and EVERY cursor k, draining it
   (Next until exhausted, ModelIt.it_next_snap) never runs out of fuel
   S(|snap|), visits the keys in strictly ascending order (once each), visits
   (j, x) iff j > k, j is a key of the SNAPSHOT and the CURRENT value x at j is
   non-zero (x = position j of the dense list when the snapshot keys lie in
   [0, dim v), which holds as the old index was coherent for the same dim);
   no element and no dimension changes, the vector stays coherent, and the
   current index loses exactly the snapshot keys beyond k that read as zero.
   Contrast held_iterator_remaining (PropsIt.v): an attached iterator visits
   the keys of the CURRENT index. *)
Theorem stale_iterator_remaining : forall h v snap k,
  Inv v -> sset snap ->
  exists v' s, drain_snap (dfuel_snap snap) snap h v (Some k) [] = Some (v', s) /\
    s = vis h v (filter (nonnull h v) (gt_keys k snap)) /\
    StronglySorted Z.lt (map fst s) /\
    (forall j x, In (j, x) s <-> k < j /\ In j snap /\ x = peek h v j /\ x <> 0) /\
    ((forall j, In j snap -> 0 <= j < dim v) ->
     forall j x, In (j, x) s <-> k < j /\ In j snap /\ x = nth (Z.to_nat j) (abs h v) 0 /\ x <> 0) /\
    abs h v' = abs h v /\ dim v' = dim v /\ Inv v' /\
    (forall x, In x (idx v') <-> In x (idx v) /\ ~ (k < x /\ In x snap /\ peek h v x = 0)).
Proof. exact stale_remaining. Qed.

(* current vector [_;5;_;0(stored);7;_], old keys {0,1,3,5}: from cursor 0 the stale
   iterator visits (1,5) only — 4 is not an old key —, and deletes key 3 *)
Definition ex_h : heap := [5; 0; 7].
Definition ex_v : svec := {| vals := [(1, 0%nat); (3, 1%nat); (4, 2%nat)]; idx := [1; 3; 4]; dim := 6 |}.
Example stale_iterator_remaining_ex :
  exists v', drain_snap (dfuel_snap [0; 1; 3; 5]) [0; 1; 3; 5] ex_h ex_v (Some 0) [] = Some (v', [(1, 5)]) /\
             idx v' = [1; 4] /\ abs ex_h v' = [0; 5; 0; 0; 7; 0].
Proof. eexists. vm_compute. auto. Qed.

(* the general closed form behind 1 (any split of the snapshot around the cursor) *)
Theorem stale_iterator_closed_form : forall h snap f rest pre v k acc,
  Inv v -> sset snap -> snap = pre ++ rest ->
  (forall x, In x pre -> x <= k) -> (forall x, In x rest -> k < x) ->
  (length rest < f)%nat ->
  exists v', drain_snap f snap h v (Some k) acc = Some (v', rev acc ++ vis h v (filter (nonnull h v) rest)) /\
             Q h v v' /\ Inv v' /\ removed (filter (isnull h v) rest) v v'.
Proof. exact drain_snap_spec. Qed.
Example stale_iterator_closed_form_ex :
  option_map snd (drain_snap 3 [0; 1; 3; 5] ex_h ex_v (Some 1) [(1, 5)]) = Some [(1, 5)] /\
  vis ex_h ex_v (filter (nonnull ex_h ex_v) [3; 5]) = [].
Proof. vm_compute. auto. Qed.

(* ---- 2. tree level (C19's model of avl-tree.go) -------------------------------
   stale_next old new = AvlIterator.Next for an iterator whose node pointer names
   a node of the dropped tree [old] and whose tree pointer names [new] *)
Theorem stale_next_is_live_next_on_one_tree : forall ts it, stale_next ts ts it = T.iter_next ts it.
Proof. exact stale_next_same. Qed.

(* (valid) node not tombstoned and still holding the iterator's value: Next moves
   to the first key of the OLD tree greater than the cursor, and the node it
   reaches is valid in [old] again — whatever [new] is *)
Theorem stale_walk_old_tree : forall old new it k,
  TS.bst (T.tr old) -> TI.tid old ->
  T.inode it = Some k -> node_valid old k (T.ival it) ->
  let it' := stale_next old new it in
  T.itree it' = T.itree it /\
  match first_gt (T.ival it) (T.elements (T.tr old)) with
  | Some x => T.ival it' = x /\ exists k', T.inode it' = Some k' /\ node_valid old k' x
  | None => T.inode it' = None /\ T.ival it' = T.ival it
  end.
Proof. exact stale_walk_old. Qed.

(* hence the whole remaining visit sequence = the keys of the OLD tree beyond
   the cursor, ascending *)
Theorem stale_walk_old_tree_all : forall old new,
  TS.bst (T.tr old) -> TI.tid old ->
  forall fuel it k,
  T.inode it = Some k -> node_valid old k (T.ival it) ->
  (length (gt_keys (T.ival it) (T.elements (T.tr old))) < fuel)%nat ->
  stale_visits fuel old new it = gt_keys (T.ival it) (T.elements (T.tr old)).
Proof. exact stale_walk_all. Qed.

(* (invalid) node tombstoned / value-swapped / gone: Next re-finds in the NEW tree:
   first key of [new] greater than the cursor, on a valid node of [new] *)
Theorem stale_refind_new_tree : forall old new it k,
  TS.bst (T.tr new) -> TI.tid new -> Forall TS.in_range (T.elements (T.tr new)) -> TS.in_range (T.ival it) ->
  T.inode it = Some k -> ~ node_valid old k (T.ival it) ->
  let it' := stale_next old new it in
  T.itree it' = T.itree it /\
  match first_gt (T.ival it) (T.elements (T.tr new)) with
  | Some x => T.ival it' = x /\ exists k', T.inode it' = Some k' /\ node_valid new k' x
  | None => T.inode it' = None /\ T.ival it' = T.ival it
  end.
Proof. exact stale_refind_new. Qed.

(* old tree {10,20,30} (nodes 1,0,2), new tree {5,25,40}; iterator on node 1 = 10 *)
Definition ex_old : T.tstate :=
  {| T.tr := T.N 0 (T.N 1 T.E 10 0 T.E) 20 0 (T.N 2 T.E 30 0 T.E); T.nx := 3%nat; T.dead := [] |}.
Definition ex_new : T.tstate :=
  {| T.tr := T.N 0 (T.N 1 T.E 5 0 T.E) 25 0 (T.N 2 T.E 40 0 T.E); T.nx := 3%nat; T.dead := [] |}.
(* the same old tree after Delete(10) tombstoned node 1 *)
Definition ex_old_dead : T.tstate :=
  {| T.tr := T.N 0 T.E 20 1 (T.N 2 T.E 30 0 T.E); T.nx := 3%nat; T.dead := [1%nat] |}.
Definition ex_it : T.iter := {| T.itree := 0%nat; T.inode := Some 1%nat; T.ival := 10 |}.
Example stale_walk_old_tree_ex :
  stale_next ex_old ex_new ex_it = {| T.itree := 0%nat; T.inode := Some 0%nat; T.ival := 20 |} /\
  stale_visits 4 ex_old ex_new ex_it = [20; 30].
Proof. vm_compute. auto. Qed.
Example stale_walk_old_tree_all_ex :
  stale_visits 4 ex_old ex_new {| T.itree := 0%nat; T.inode := Some 0%nat; T.ival := 20 |} = [30] /\
  stale_visits 4 ex_old ex_old_dead ex_it = [20; 30].
Proof. vm_compute. auto. Qed.
Example stale_refind_new_tree_ex :
  stale_next ex_old_dead ex_new ex_it = {| T.itree := 0%nat; T.inode := Some 0%nat; T.ival := 25 |} /\
  T.iter_next ex_new (stale_next ex_old_dead ex_new ex_it) = {| T.itree := 0%nat; T.inode := Some 2%nat; T.ival := 40 |}.
Proof. vm_compute. auto. Qed.
Example stale_next_is_live_next_on_one_tree_ex :
  stale_next ex_new ex_new {| T.itree := 0%nat; T.inode := Some 1%nat; T.ival := 5 |}
  = {| T.itree := 0%nat; T.inode := Some 0%nat; T.ival := 25 |}.
Proof. vm_compute. auto. Qed.

(* ---- 3. system level (ModelIt2.v) --------------------------------------------- *)
(* the extended system with oracle-driven moves of stale iterators keeps every
   vector coherent: per step and for all in-range histories *)
Theorem inv_extended2_step : forall wi o,
  WInv (base2 wi) -> in_range_it2 wi o -> WInv (base2 (fst (step_it2 wi o))).
Proof. exact step_it2_WInv. Qed.
Theorem inv_all_extended2_histories : forall ops,
  valid_it2 initi2 ops -> WInv (base2 (run_it2 initi2 ops)).
Proof. intros ops V. exact (run_it2_WInv ops initi2 WInv_init V). Qed.

(* ModelIt.v (Attached / Detached / Unknown) and ModelIt2.v (Att / Stale + oracle
   bit) agree on every step where ModelIt.v predicts (kind <> K_UNKNOWN) and the
   observed bit does not contradict ModelIt2.v (kind <> K_BADORACLE): same base
   world, same outcome and payload, and the iterator lists stay related
   (Attached ~ Att, Detached s ~ Stale s true, Unknown ~ Stale _ false) *)
Theorem models_agree_step : forall wi wi2 o,
  WInv (base wi) -> base wi = base2 wi2 -> lrel (its wi) (its2 wi2) ->
  fst (snd (step_it wi (erase2 o))) <> K_UNKNOWN ->
  fst (snd (step_it2 wi2 o)) <> K_BADORACLE ->
  base (fst (step_it wi (erase2 o))) = base2 (fst (step_it2 wi2 o)) /\
  snd (step_it wi (erase2 o)) = snd (step_it2 wi2 o) /\
  lrel (its (fst (step_it wi (erase2 o)))) (its2 (fst (step_it2 wi2 o))).
Proof. exact ProofsIt2.models_agree_step. Qed.
(* for whole in-range histories from the initial state: lock step up to the
   first K_UNKNOWN / K_BADORACLE outcome *)
Theorem models_agree_histories : forall ops,
  valid_it2 initi2 ops -> agree_run initi initi2 ops.
Proof. exact models_agree_from_init. Qed.

(* ---- 4. a NON-fresh iterator held across ReverseOrder: the two continuations ----
   v = [5,0(stored),6,_,_,8,_]; it := v.ConstIterator(); it.Next() skips (and
   deletes) key 1 and sits at 2: not fresh; v.ReverseOrder() gives
   [_,8,_,_,6,_,5] with index {1,4,6}; the old key list is {0,2,5}.
   vb = true  (node valid): Next walks the old keys: 5 reads as zero -> exhausted.
   vb = false (node invalid): Next re-finds in the new index: visits (4,6), (6,5). *)
Definition seen2 (ops : list opi2) (ns : list nat) : list (Z * list Z) :=
  map (fun n => snd (step_it2 (run_it2 initi2 (firstn n ops)) (ItGet2 0))) ns.

Example stale_pre_state :
  its2 (run_it2 initi2 stale_pre) = [{| iv2 := 0; icur2 := Some 2; imd2 := Stale [0; 2; 5] false; ifresh2 := false |}] /\
  (let wi := run_it2 initi2 stale_pre in
   abs (hp (base2 wi)) (getv (base2 wi) 0) = [0; 8; 0; 0; 6; 0; 5] /\ idx (getv (base2 wi) 0) = [1; 4; 6]).
Proof. vm_compute. auto. Qed.
Example stale_moved_valid_walks_snapshot :
  seen2 stale_valid_ops [5; 6; 7]%nat = [(K_OK, [1; 2; 0; 0]); (K_OK, [0]); (K_OK, [0])] /\
  imd2 (geti2 (run_it2 initi2 stale_valid_ops) 0) = Stale [0; 2; 5] true.
Proof. vm_compute. auto. Qed.
Example stale_moved_invalid_refinds_in_new_index :
  seen2 stale_invalid_ops [5; 6; 7; 8]%nat
    = [(K_OK, [1; 2; 0; 0]); (K_OK, [1; 4; 1; 6]); (K_OK, [1; 6; 1; 5]); (K_OK, [0])] /\
  imd2 (geti2 (run_it2 initi2 stale_invalid_ops) 0) = Att.
Proof. vm_compute. auto. Qed.

Example inv_extended2_step_ex :
  WInv (base2 (fst (step_it2 (run_it2 initi2 stale_pre) (ItNext2 0 false)))).
Proof.
  apply inv_extended2_step.
  - exact (inv_all_extended2_histories stale_pre stale_pre_valid).
  - vm_compute. lia.
Qed.
Example inv_all_extended2_histories_ex : WInv (base2 (run_it2 initi2 stale_valid_ops)).
Proof. exact (inv_all_extended2_histories _ stale_valid_ops_valid). Qed.

(* the old model on the same (erased) history: identical outcomes up to the
   replaced index, then no prediction for the move of the non-fresh iterator *)
Example models_agree_step_ex :
  map (fun n => snd (step_it (run_it initi (map erase2 (firstn n stale_valid_ops))) (erase2 (nth n stale_valid_ops (ItGet2 0)))))
      [0; 1; 2; 3; 4]%nat
  = map (fun n => snd (step_it2 (run_it2 initi2 (firstn n stale_valid_ops)) (nth n stale_valid_ops (ItGet2 0))))
      [0; 1; 2; 3; 4]%nat /\
  fst (snd (step_it (run_it initi (map erase2 stale_pre)) (ItNext 0))) = K_UNKNOWN.
Proof. vm_compute. auto. Qed.
Example models_agree_histories_ex : agree_run initi initi2 stale_valid_ops /\ agree_run initi initi2 stale_invalid_ops.
Proof. exact (conj (models_agree_histories _ stale_valid_ops_valid) (models_agree_histories _ stale_invalid_ops_valid)). Qed.
