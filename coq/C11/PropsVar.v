(* C11, round 7 — property theorems (statements only; proofs in ProofsVar.v):
   (1) the Real element types: which integer of Model.v stands for a Real scalar, and that iteration
       visits exactly the positions whose scalar is not null in the library's sense (value 0 with a
       non-zero derivative — a variable at the point 0 — is visited and kept);
   (2) frame of the entry-creating accesses: At / At().Set on one vector change no other vector. *)
From Coq Require Import ZArith List Bool Lia Sorted.
From ADV Require Import C11.Model C11.Spec C11.ModelVar C11.ProofsRef C11.ProofsVar.
Import ListNotations.
Open Scope Z_scope.

(* 1a. the reading value + VARW * derivative[0] is 0 exactly on the null scalars and injective *)
Theorem reading_zero_iff_null : forall s, r_bounded s -> (pv s = 0 <-> r_null s = true).
Proof. exact pv_zero_null. Qed.
Theorem reading_injective : forall s s', r_bounded s -> r_bounded s' -> pv s = pv s' -> s = s'.
Proof. exact pv_inj. Qed.
(* 1b. it commutes with the scalar operations the container methods apply: SetFloat64 (x, gradient
       cleared), Reset, SET / Set / Clone (gradient copied), and the SetVar step of the histories
       (SetFloat64(x) then SetVariable: the model writes x + VARW) *)
Theorem reading_commutes : forall s b x,
  pv (r_setfloat s x) = x /\ pv (r_reset s) = 0 /\ pv (r_set s b) = pv b /\
  pv (r_setvar (r_setfloat s x)) = x + VARW.
Proof. intros s b x. exact (conj (pv_setfloat s x) (conj (pv_reset s) (conj (pv_set s b) (pv_setvar s x)))). Qed.
Theorem variable_at_zero_not_null : forall s,
  r_null (r_setvar (r_setfloat s 0)) = false /\ pv (r_setvar (r_setfloat s 0)) = VARW.
Proof. exact var_at_zero. Qed.
Example ex_reading : r_bounded {| rval := 0; rder := 1 |} /\ pv {| rval := 0; rder := 1 |} = 1000 /\
                     r_null {| rval := 0; rder := 1 |} = false /\ r_null {| rval := 0; rder := 0 |} = true.
Proof. unfold r_bounded. cbn. repeat split; lia. Qed.

(* 1c. iteration of a coherent vector of Real scalars ([sc k] = the scalar at position k, the cells
       hold its reading): terminates, ascending, visits position k iff its scalar is NOT null,
       delivers that scalar's reading, and loses nothing (dense reading, dimension, coherence kept) *)
Theorem real_iteration_visits_exactly_the_non_null : forall h v (sc : Z -> rsc),
  Inv v ->
  (forall k, 0 <= k < dim v -> r_bounded (sc k) /\ nth (Z.to_nat k) (abs h v) 0 = pv (sc k)) ->
  exists v1 s, iterate h v = Some (v1, s) /\
    StronglySorted Z.lt (map fst s) /\
    (forall k, 0 <= k < dim v -> (In (k, pv (sc k)) (visits h s) <-> r_null (sc k) = false)) /\
    (forall k x, In (k, x) (visits h s) -> 0 <= k < dim v /\ x = pv (sc k)) /\
    abs h v1 = abs h v /\ dim v1 = dim v /\ Inv v1.
Proof. exact real_iteration. Qed.
(* non-vacuity: [5, 0, var(0), 0]: New, SetVar at 2 (the model writes 0 + VARW), a stored zero at 3;
   the iteration visits 0 and 2 — the variable at the point 0 — and drops the stored zero only *)
Definition ex_w := run init [New [0] [5] 4; SetAt 0 2 (0 + VARW); SetAt 0 3 0].
Example ex_real_iteration :
  match iterate (hp ex_w) (getv ex_w 0) with
  | Some (v1, s) => visits (hp ex_w) s = [(0, 5); (2, 1000)] /\ idx (getv ex_w 0) = [0; 2; 3] /\ idx v1 = [0; 2]
  | None => False end.
Proof. vm_compute. repeat split. Qed.

(* 2. frame: creating an entry in vector t (At(i) or At(i).Set(x), any arguments, any state) leaves
      the value map, the index and the dimension of every other vector as they were *)
Theorem at_changes_no_other_vector : forall w t i x u, u <> t ->
  getv (fst (step w (At t i))) u = getv w u /\ getv (fst (step w (SetAt t i x))) u = getv w u.
Proof. exact at_frame. Qed.
(* the scenario u.SET(t) (any receiver, in particular an empty one), then At() on one of the two *)
Theorem set_then_at_leaves_the_other : forall w t u i, u <> t ->
  let w1 := fst (step w (SETV u t)) in
  getv (fst (step w1 (At t i))) u = getv w1 u /\ getv (fst (step w1 (At u i))) t = getv w1 t.
Proof. exact set_then_at_frame. Qed.
Example ex_set_then_at :
  let w := run init [New [0] [-4] 4; New [] [] 4; SETV 1 0; At 1 1] in
  idx (getv w 0) = [0] /\ idx (getv w 1) = [0; 1] /\ map fst (vals (getv w 1)) = [1; 0].
Proof. vm_compute. repeat split. Qed.
