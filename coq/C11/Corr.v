(* C11 correspondence: replay a whole history in the model (model state threaded
   through) and compare, PER STEP, the outcome kind, the payload (values read,
   iteration / joint-iteration sequences, reduce result) and a checksum of the
   observation of the whole world (Dim, ConstAt of every index, private map,
   AVL index keys, ConstIterator sequence of a clone — for every vector). *)
From Coq Require Import ZArith List Bool.
From ADV Require Import Base.Corr C11.Model C11.Spec C11.Dense.
Import ListNotations.
Open Scope Z_scope.

Definition out := (Z * list Z * Z)%type.
Definition out_eqb (a b : out) : bool :=
  let '(k1, p1, h1) := a in
  let '(k2, p2, h2) := b in
  (k1 =? k2) && list_eqb Z.eqb p1 p2 && (h1 =? h2).

Fixpoint run_obs (w : world) (ops : list op) : list out :=
  match ops with
  | [] => []
  | o :: r => let '(w', (k, p)) := step w o in (k, p, hash (obs_world w')) :: run_obs w' r
  end.

Definition case := (list op * list out)%type.
(* ... and, on the same history, the plain dense model next to the sparse model
   (Dense.dense_diverge: world abstraction and values read after every in-range,
   safe operation) — proved in general in Props.v, evaluated here as well so that
   the executable [in_rangeb]/[safeb] side conditions are exercised on real histories *)
Definition dense_ok (c : case) : bool :=
  match dense_diverge 0 init [] (fst c) with None => true | Some _ => false end.
Definition check (c : case) : bool := list_eqb out_eqb (run_obs init (fst c)) (snd c) && dense_ok c.
Definition mism (cs : list case) : list nat := mismatches check cs.
Definition diverge (c : case) : option nat := first_diff out_eqb 0 (run_obs init (fst c)) (snd c).
(* full observation of the model after the first [n] operations (diagnosis) *)
Definition obs_after (n : nat) (c : case) : list Z := obs_world (run init (firstn n (fst c))).
