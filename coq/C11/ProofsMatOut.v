(* C11, sparse matrices — the PAYLOAD theorem: what an in-range reading operation returns
   is what the dense model says ([mdout]): At / ConstAt return element (i,j), Reduce(+)
   the sum of all elements, Dims the dimensions, a full ConstIterator loop the list of
   (i, j, x), x <> 0, in row-major order, and the loop abandoned after n visits the
   first n of them. *)
From Coq Require Import ZArith List Bool Lia Sorted.
From ADV Require Import C11.Model C11.Spec C11.Dense C11.ProofsMap C11.ProofsIter C11.ProofsInv C11.ProofsRef
                        C11.ProofsD1 C11.ProofsD2 C11.ProofsD3
                        C11.ModelMat C11.ProofsMatSpec C11.ProofsMat C11.ProofsMatRef
                        C11.ProofsMatDense C11.ProofsMatDense2 C11.ProofsMatDense3 C11.DenseMat
                        C11.ProofsMatWorld.
Import ListNotations.
Open Scope Z_scope.

(* ---- strictly sorted lists are determined by their elements ------------------------------- *)
Section SortedUnique.
Variable X : Type.
Variable lt : X -> X -> Prop.
Hypothesis lt_irrefl : forall x, ~ lt x x.
Hypothesis lt_trans : forall x y z, lt x y -> lt y z -> lt x z.
Lemma SS_unique : forall l1 l2 : list X,
  StronglySorted lt l1 -> StronglySorted lt l2 -> (forall x, In x l1 <-> In x l2) -> l1 = l2.
Proof.
  induction l1 as [|a l1 IH]; intros l2 S1 S2 H.
  - destruct l2 as [|b l2]; [reflexivity|]. exfalso. apply (H b). left. reflexivity.
  - destruct l2 as [|b l2]; [exfalso; apply (H a); left; reflexivity|].
    inversion S1 as [|? ? Sa Fa]; subst. inversion S2 as [|? ? Sb Fb]; subst.
    rewrite Forall_forall in Fa, Fb.
    assert (E : a = b).
    { destruct (proj1 (H a) (or_introl eq_refl)) as [E|Hab]; [auto|].
      destruct (proj2 (H b) (or_introl eq_refl)) as [E|Hba]; [auto|].
      exfalso. apply (lt_irrefl a). eapply lt_trans; [apply Fa; exact Hba|apply Fb; exact Hab]. }
    subst b. f_equal. apply IH; auto. intro x. split; intro Hx.
    + destruct (proj1 (H x) (or_intror Hx)) as [E|Hx2]; [|exact Hx2].
      exfalso. subst x. apply (lt_irrefl a). apply Fa. exact Hx.
    + destruct (proj2 (H x) (or_intror Hx)) as [E|Hx2]; [|exact Hx2].
      exfalso. subst x. apply (lt_irrefl a). apply Fb. exact Hx.
Qed.
Lemma SS_app_intro (l1 : list X) : forall l2,
  StronglySorted lt l1 -> StronglySorted lt l2 -> (forall x y, In x l1 -> In y l2 -> lt x y) ->
  StronglySorted lt (l1 ++ l2).
Proof.
  induction l1 as [|a l1 IH]; intros l2 S1 S2 H; simpl; [exact S2|].
  inversion S1 as [|? ? Sa Fa]; subst. constructor.
  - apply IH; auto. intros x y Hx Hy. apply H; [right; exact Hx|exact Hy].
  - rewrite Forall_forall in *. intros x Hx. apply in_app_or in Hx. destruct Hx as [Hx|Hx].
    + apply Fa. exact Hx.
    + apply H; [left; reflexivity|exact Hx].
Qed.
Lemma SS_filter_gen (p : X -> bool) (l : list X) : StronglySorted lt l -> StronglySorted lt (filter p l).
Proof.
  induction l as [|a l IH]; intro S; simpl; [constructor|].
  inversion S as [|? ? Sa Fa]; subst. destruct (p a); [|apply IH; exact Sa].
  constructor; [apply IH; exact Sa|]. rewrite Forall_forall in *. intros x Hx. apply filter_In in Hx. apply Fa. apply Hx.
Qed.
End SortedUnique.

(* ---- row-major order -------------------------------------------------------------------- *)
Definition plt (a b : (Z * Z) * Z) : Prop := lexlt (fst a) (fst b).
Lemma plt_irrefl a : ~ plt a a.
Proof. unfold plt, lexlt. lia. Qed.
Lemma plt_trans a b c : plt a b -> plt b c -> plt a c.
Proof. unfold plt, lexlt. lia. Qed.
Lemma SS_of_map_fst (L : list ((Z * Z) * Z)) : StronglySorted lexlt (map fst L) -> StronglySorted plt L.
Proof.
  induction L as [|a L IH]; intro S; [constructor|]. cbn [map] in S.
  inversion S as [|? ? Sa Fa]; subst. constructor; [apply IH; exact Sa|].
  rewrite Forall_forall in *. intros x Hx. unfold plt. apply Fa. apply in_map. exact Hx.
Qed.
Lemma SS_tag (f : Z * Z -> Z) (l : list (Z * Z)) :
  StronglySorted lexlt l -> StronglySorted plt (map (fun p => (p, f p)) l).
Proof.
  induction l as [|a l IH]; intro S; [constructor|]. cbn [map].
  inversion S as [|? ? Sa Fa]; subst. constructor; [apply IH; exact Sa|].
  rewrite Forall_forall in *. intros x Hx. apply in_map_iff in Hx. destruct Hx as (q & <- & Hq).
  unfold plt. cbn [fst]. apply Fa. exact Hq.
Qed.
Lemma row_sorted i : forall n a, StronglySorted lexlt (map (fun j => (i, j)) (zseq a n)).
Proof.
  induction n as [|n IH]; intro a; cbn [zseq map]; constructor; [apply IH|].
  apply Forall_forall. intros x Hx. apply in_map_iff in Hx. destruct Hx as (j & <- & Hj).
  apply In_zseq in Hj. unfold lexlt. cbn [fst snd]. lia.
Qed.
Lemma positions_sorted_from c : forall n a,
  StronglySorted lexlt (flat_map (fun i => map (fun j => (i, j)) (zseq 0 c)) (zseq a n)).
Proof.
  induction n as [|n IH]; intro a; cbn [zseq flat_map]; [constructor|].
  apply SS_app_intro; [apply row_sorted|apply IH|].
  intros x y Hx Hy. apply in_map_iff in Hx. destruct Hx as (j & <- & Hj).
  apply in_flat_map in Hy. destruct Hy as (i' & Hi' & Hy). apply in_map_iff in Hy. destruct Hy as (j' & <- & Hj').
  apply In_zseq in Hi'. unfold lexlt. cbn [fst snd]. lia.
Qed.
Lemma positions_sorted r c : StronglySorted lexlt (positions r c).
Proof. apply positions_sorted_from. Qed.

Lemma dm_entries_sorted a : StronglySorted plt (dm_entries a).
Proof. unfold dm_entries. apply SS_filter_gen. apply SS_tag. apply positions_sorted. Qed.
Lemma dm_entries_In a i j x :
  In ((i, j), x) (dm_entries a) <-> (0 <= i < dr a /\ 0 <= j < dc a) /\ x = del a i j /\ x <> 0.
Proof.
  unfold dm_entries. rewrite filter_In, in_map_iff. cbn [snd]. split.
  - intros [(p & E & Hp) Nz]. destruct p as [i0 j0]. cbn [fst snd] in *. inversion E. subst i0 j0 x.
    apply In_positions in Hp. split; [exact Hp|]. split; [reflexivity|].
    destruct (del a i j =? 0) eqn:Z0; [discriminate|]. apply Z.eqb_neq in Z0. exact Z0.
  - intros (P & -> & Nz). split.
    + exists (i, j). split; [reflexivity|]. apply In_positions. exact P.
    + apply Z.eqb_neq in Nz. rewrite Nz. reflexivity.
Qed.

(* ---- iteration: the visits of a full loop are the non-zero entries, row-major --------------- *)
Lemma mvisits_entries h m v1 s :
  MInv m -> iterate h (mv m) = Some (v1, s) -> mvisits h m s = dm_entries (mabsd h m).
Proof.
  intros MI E. destruct (miterate_visits h m MI) as (v1' & s' & A & B & C & _).
  rewrite E in A. inversion A. subst v1' s'. clear A.
  apply (SS_unique _ plt plt_irrefl plt_trans).
  - apply SS_of_map_fst. exact B.
  - apply dm_entries_sorted.
  - intros [[i j] x]. rewrite C, dm_entries_In. cbn [dr dc mabsd]. rewrite del_mabsd. unfold pos_ok. tauto.
Qed.
Lemma mseq_vals_flat3 h m s : mseq_vals h m s = flat3 (mvisits h m s).
Proof.
  unfold mseq_vals, flat3, mvisits. induction s as [|p s IH]; [reflexivity|].
  cbn [flat_map map]. rewrite IH. destruct (mij m (fst p)) as [i j]. reflexivity.
Qed.
Lemma mvisits_firstn h m n s : mvisits h m (firstn n s) = firstn n (mvisits h m s).
Proof. unfold mvisits. symmetry. apply firstn_map. Qed.

Lemma fold_left_ext_in {A B} (f g : A -> B -> A) (l : list B) :
  (forall a x, In x l -> f a x = g a x) -> forall a, fold_left f l a = fold_left g l a.
Proof.
  induction l as [|x l IH]; intros H a; [reflexivity|]. cbn [fold_left].
  rewrite (H a x (or_introl eq_refl)). apply IH. intros a0 x0 Hx. apply H. right. exact Hx.
Qed.

(* ---- the payload theorem ------------------------------------------------------------------ *)
Theorem mstep_out : forall w o q,
  MWInv w -> MWWf w -> min_range w o -> mdout (mabsw w) o = Some q -> snd (snd (mstep w o)) = q.
Proof.
  intros w o q I W R E.
  assert (G : forall t, MInv (getm w t)) by (intro t; apply MWInv_getm; exact I).
  assert (GW : forall t, Wf (mhp w) (mv (getm w t))) by (intro t; apply MWWf_getm; exact W).
  destruct o; cbn [mdout] in E; try discriminate; inversion E; subst q; clear E; cbn [mstep];
    rewrite ?dmget_mabsw.
  - (* At *) destruct R as [R1 R2].
    destruct (mat_at_in_range_ok (mhp w) (getm w t) i j (proj2 (G t)) R2) as (h' & m' & l & A). rewrite A. cbn [snd].
    destruct (mat_at_write _ _ _ _ _ _ _ 0 (G t) (GW t) A) as (_ & _ & _ & _ & _ & _ & _ & _ & HV).
    rewrite HV, del_mabsd, mget_mabs by exact R2. reflexivity.
  - (* ConstAt *) destruct R as [R1 R2].
    rewrite (mread_ok (mhp w) (getm w t) i j (proj2 (G t)) R2). cbn [snd]. rewrite del_mabsd. reflexivity.
  - (* Iterate *)
    destruct (miterate_visits (mhp w) (getm w t) (G t)) as (v1 & s & A & _). rewrite A. cbn [snd].
    rewrite mseq_vals_flat3, (mvisits_entries _ _ _ _ (G t) A). reflexivity.
  - (* IterPart *)
    destruct (iter_part_begin (mhp w) (mv (getm w t)) n) as (v0 & cur & v' & A & B & (v1 & C)); [apply (G t)|].
    rewrite A, B. cbn [snd].
    rewrite mseq_vals_flat3, mvisits_firstn, (mvisits_entries _ _ _ _ (G t) C). reflexivity.
  - (* ReduceSum *) cbn [snd dr dc mabsd]. f_equal. apply fold_left_ext_in.
    intros a [i j] Hin. apply In_positions in Hin. cbn [fst snd].
    rewrite (mread_ok (mhp w) (getm w t) i j (proj2 (G t)) Hin), del_mabsd. reflexivity.
  - (* Dims *) reflexivity.
Qed.

(* ---- along whole histories: every operation of an in-range, safe history answers the
        expected code (never a panic, never out of fuel) and, when it reads, returns what the
        dense model computes from the DENSE run of the history before it.  [Hsim] / [Hrun]
        are ProofsMatWorld.mstep_sim_all / mrun_sim_from (instantiated in PropsMat2.v). ------ *)
Lemma mvalid_safe_app a : forall w b,
  mvalid_safe w (a ++ b) -> mvalid_safe w a /\ mvalid_safe (mrun w a) b.
Proof.
  induction a as [|o a IH]; intros w b V.
  - split; [exact Logic.I|exact V].
  - cbn [app mvalid_safe] in V. destruct V as (V1 & V2 & V3). destruct (IH _ _ V3) as [A B].
    split; [cbn [mvalid_safe]; auto|exact B].
Qed.
Section History.
Hypothesis Hsim : forall w o, MWInv w -> MWWf w -> min_range w o -> msafe w o -> MSim w o.
Hypothesis Hrun : forall ops w, MWInv w -> MWWf w -> mvalid_safe w ops ->
  mabsw (mrun w ops) = mdense_run (mabsw w) ops /\ MWWf (mrun w ops) /\ MWInv (mrun w ops).
Theorem mhistory_step : forall pre o,
  mvalid_safe minit (pre ++ [o]) ->
  let w := mrun minit pre in
  fst (snd (mstep w o)) = mcode w o /\
  (forall q, mdout (mdense_run [] pre) o = Some q -> snd (snd (mstep w o)) = q).
Proof.
  intros pre o V w. destruct (mvalid_safe_app pre minit [o] V) as [V1 V2].
  destruct (Hrun pre minit MWInv_minit MWWf_minit V1) as (A & B & C). fold w in A, B, C, V2.
  destruct V2 as (R & S & _). split.
  - apply (Hsim w o C B R S).
  - intros q E. change (mabsw minit) with (@nil dmat) in A. rewrite <- A in E.
    apply (mstep_out w o q C B R E).
Qed.
End History.
