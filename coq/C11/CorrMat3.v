(* C11 correspondence, sparse matrices, round 5: histories over ModelMatFrom.mop2 (the 22
   operations of ModelMat.v + ConstIteratorFrom(i,j), full loop and abandoned loop).
   Per step: outcome kind, payload and the checksum of the observation of the whole world
   (header, every read, private map and index keys of `values`, iterator sequence of a
   clone) must be those of the implementation; and on the same history the plain dense
   model DenseMatFrom.v runs next to it: mdense_diverge2 must be None (world abstraction,
   answer code and payload of every in-range, safe operation). *)
From Coq Require Import ZArith List Bool.
From ADV Require Import Base.Corr C11.Model C11.ModelMat C11.CorrMat C11.DenseMat C11.ModelMatFrom C11.DenseMatFrom.
Import ListNotations.
Open Scope Z_scope.

Fixpoint mrun_obs2 (w : mworld) (ops : list mop2) : list mout :=
  match ops with
  | [] => []
  | o :: r => let '(w', (k, p)) := mstep2 w o in (k, p, hash (obs_mworld w')) :: mrun_obs2 w' r
  end.
Definition mcase3 := (list mop2 * list mout)%type.
Definition mcheck3 (c : mcase3) : bool :=
  list_eqb mout_eqb (mrun_obs2 minit (fst c)) (snd c) &&
  match mdense_diverge2 0 minit [] (fst c) with None => true | Some _ => false end.
Definition mism_mat3 (cs : list mcase3) : list nat := mismatches mcheck3 cs.
Definition mdiverge3 (c : mcase3) : option nat := first_diff mout_eqb 0 (mrun_obs2 minit (fst c)) (snd c).
Definition mdense_div3 (c : mcase3) : option nat := mdense_diverge2 0 minit [] (fst c).
Definition mouts_model3 (c : mcase3) : list mout := mrun_obs2 minit (fst c).
Definition pending_starts3 (c : mcase3) : nat := count_pending_starts minit (fst c).
