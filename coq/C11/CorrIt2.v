(* C11 correspondence, held iterators incl. STALE ones moved with the observed
   validity bit (ModelIt2.v).  Per step: outcome kind, payload (Ok / Index /
   entry present? / GetConst of the iterator) and the checksum of the whole
   world observation.  In addition the older model ModelIt.v is replayed on the
   erased history and must agree with the implementation up to (excluding) its
   first K_UNKNOWN outcome (it makes no prediction from there on). *)
From Coq Require Import ZArith List Bool.
From ADV Require Import Base.Corr C11.Model C11.ModelIt C11.CorrIt C11.ModelIt2.
Import ListNotations.
Open Scope Z_scope.

Fixpoint run_obs_it2 (wi : worldi2) (ops : list opi2) : list out_it :=
  match ops with
  | [] => []
  | o :: r => let '(w', (k, p)) := step_it2 wi o in (k, p, hash (obs_world (base2 w'))) :: run_obs_it2 w' r
  end.

(* prefix agreement of the old model: stop judging at its first K_UNKNOWN *)
Fixpoint old_agrees (m g : list out_it) : bool :=
  match m, g with
  | [], [] => true
  | (k, p, h) :: m', y :: g' => if k =? K_UNKNOWN then true else out_it_eqb (k, p, h) y && old_agrees m' g'
  | _, _ => false
  end.

Definition case_it2 := (list opi2 * list out_it)%type.
Definition check_it2 (c : case_it2) : bool :=
  list_eqb out_it_eqb (run_obs_it2 initi2 (fst c)) (snd c) &&
  old_agrees (run_obs_it initi (map erase2 (fst c))) (snd c).
Definition mism_it2 (cs : list case_it2) : list nat := mismatches check_it2 cs.
Definition diverge_it2 (c : case_it2) : option nat := first_diff out_it_eqb 0 (run_obs_it2 initi2 (fst c)) (snd c).
Definition obs_after_it2 (n : nat) (c : case_it2) : list Z := obs_world (base2 (run_it2 initi2 (firstn n (fst c)))).
Definition its_after_it2 (n : nat) (c : case_it2) : list iter2 := its2 (run_it2 initi2 (firstn n (fst c))).
