(* C11, round 5 — proofs for iteration STARTED IN THE MIDDLE (IteratorFrom /
   ConstIteratorFrom) with pending zeros, vectors and matrices.

   1. vector level: closed form of  it_from  (the constructor: AVL first key >= i, then
      skip())  followed by the loop / the abandoned loop, WITH the index afterwards;
   2. matrix level: the visits of ConstIteratorFrom(i,j) are exactly the non-zero
      elements at the positions >= (i,j), row-major (DenseMatFrom.dm_entries_from);
   3. the step / payload / whole-history theorems over ModelMatFrom.mop2 (the base
      operations are taken from ProofsMatWorld / ProofsMatOut through Section hypotheses,
      instantiated in PropsMatFrom.v). *)
From Coq Require Import ZArith List Bool Lia Sorted.
From ADV Require Import C11.Model C11.Spec C11.Dense C11.ProofsMap C11.ProofsIter C11.ProofsInv C11.ProofsRef
                        C11.ProofsD1 C11.ProofsD2 C11.ProofsD3 C11.ProofsDOut
                        C11.ModelMat C11.ProofsMatSpec C11.ProofsMat C11.ProofsMatRef
                        C11.ProofsMatDense C11.ProofsMatDense2 C11.ProofsMatDense3 C11.DenseMat
                        C11.ProofsMatWorld C11.ProofsMatOut C11.ModelMatFrom C11.DenseMatFrom.
Import ListNotations.
Open Scope Z_scope.

(* ---- 1. vector level ---------------------------------------------------------------------- *)
Lemma sset_dropnull_app p pre rest : sset (pre ++ rest) -> sset (pre ++ dropnull p rest).
Proof. apply dropnull_sset. Qed.
Lemma In_dropnull p x : forall l, In x (dropnull p l) -> In x l.
Proof. induction l as [|k r IH]; simpl; auto. destruct (p k); auto. Qed.
Lemma dropnull_hd_nonnull p l k : hd_error (dropnull p l) = Some k -> p k = false.
Proof.
  induction l as [|z r IH]; simpl; [discriminate|]. destruct (p z) eqn:E; auto.
  simpl. intro H. congruence.
Qed.
(* everything the constructor-time skip removes is null, and what it stops on is the first
   non-null key of [rest] *)
Lemma dropnull_split p l : exists z, l = z ++ dropnull p l /\ (forall x, In x z -> p x = true).
Proof.
  induction l as [|k r IH]; simpl.
  - exists []. split; [reflexivity|intros x []].
  - destruct (p k) eqn:E.
    + destruct IH as (z & A & B). exists (k :: z). split; [simpl; f_equal; exact A|].
      intros x [->|Hx]; auto.
    + exists []. split; [reflexivity|intros x []].
Qed.

Lemma cells_ext v v' ks : (forall k, In k ks -> lookup k (vals v') = lookup k (vals v)) -> cells v' ks = cells v ks.
Proof.
  intro H. unfold cells. apply map_ext_in. intros a Ha. f_equal. unfold cell_of. rewrite H; auto.
Qed.

(* the constructor alone *)
Lemma it_from_spec h v i : sset (idx v) ->
  exists pre rest v0,
    idx v = pre ++ rest /\ (forall x, In x pre -> x < i) /\ (forall x, In x rest -> i <= x) /\
    it_from h v i = Some (v0, hd_error (dropnull (isnull h v) rest)) /\
    idx v0 = pre ++ dropnull (isnull h v) rest /\ Q h v v0.
Proof.
  intro Hs. destruct (split_ge i (idx v) Hs) as (pre & rest & A & B & C & D).
  destruct (skip_spec h rest pre v (sfuel v)) as (v0 & E & F & G); auto.
  { unfold sfuel. rewrite A, app_length. lia. }
  exists pre, rest, v0. unfold it_from. rewrite B. auto 10.
Qed.

(* constructor + full loop *)
Lemma from_loop_spec h v i : sset (idx v) ->
  exists pre rest v0 v',
    idx v = pre ++ rest /\ (forall x, In x pre -> x < i) /\ (forall x, In x rest -> i <= x) /\
    it_from h v i = Some (v0, hd_error (dropnull (isnull h v) rest)) /\
    idx v0 = pre ++ dropnull (isnull h v) rest /\ Q h v v0 /\
    iter_loop (sfuel v) h v0 (hd_error (dropnull (isnull h v) rest)) []
      = Some (v', cells v (filter (nonnull h v) rest)) /\
    idx v' = pre ++ filter (nonnull h v) rest /\ Q h v v'.
Proof.
  intro Hs. destruct (it_from_spec h v i Hs) as (pre & rest & v0 & A & C & D & E & F & G).
  exists pre, rest, v0.
  assert (Hext : forall k0, isnull h v0 k0 = isnull h v k0) by apply G.
  destruct (iter_loop_spec h (sfuel v) (dropnull (isnull h v) rest) pre v0 []) as (v2 & A2 & B2 & C2); auto.
  - rewrite F. apply dropnull_sset. rewrite <- A. exact Hs.
  - pose proof (dropnull_length (isnull h v) rest). unfold sfuel. rewrite A, app_length. lia.
  - rewrite (dropnull_ext _ (isnull h v)); auto. apply dropnull_idem.
  - assert (F1 : filter (nonnull h v0) (dropnull (isnull h v) rest) = filter (nonnull h v) rest).
    { unfold nonnull. rewrite (filter_ext _ (fun k0 => negb (isnull h v k0))).
      - apply filter_dropnull.
      - intro a. rewrite Hext. auto. }
    exists v2. rewrite A2, B2, F1. cbn [rev app].
    split; [exact A|]. split; [exact C|]. split; [exact D|]. split; [exact E|]. split; [exact F|].
    split; [exact G|]. split; [|split; [reflexivity|eapply Q_trans; eauto]].
    f_equal. f_equal. apply cells_ext. intros a Ha.
    apply filter_In in Ha. destruct Ha as [_ Ha]. unfold nonnull in Ha.
    destruct G as (_ & G2 & _). apply G2. destruct (isnull h v a); auto; discriminate.
Qed.

(* constructor + loop abandoned after n visits *)
Lemma from_part_spec h v i n : sset (idx v) ->
  exists pre rest v0 v',
    idx v = pre ++ rest /\ (forall x, In x pre -> x < i) /\ (forall x, In x rest -> i <= x) /\
    it_from h v i = Some (v0, hd_error (dropnull (isnull h v) rest)) /\
    iter_part n h v0 (hd_error (dropnull (isnull h v) rest)) []
      = Some (v', cells v (firstn n (filter (nonnull h v) rest))).
Proof.
  intro Hs. destruct (it_from_spec h v i Hs) as (pre & rest & v0 & A & C & D & E & F & G).
  exists pre, rest, v0.
  assert (Hext : forall k0, isnull h v0 k0 = isnull h v k0) by apply G.
  destruct (iter_part_spec h n (dropnull (isnull h v) rest) pre v0 []) as (v2 & A2); auto.
  - rewrite F. apply dropnull_sset. rewrite <- A. exact Hs.
  - rewrite (dropnull_ext _ (isnull h v)); auto. apply dropnull_idem.
  - assert (F1 : filter (nonnull h v0) (dropnull (isnull h v) rest) = filter (nonnull h v) rest).
    { unfold nonnull. rewrite (filter_ext _ (fun k0 => negb (isnull h v k0))).
      - apply filter_dropnull.
      - intro a. rewrite Hext. auto. }
    exists v2. rewrite A2, F1. cbn [rev app].
    split; [exact A|]. split; [exact C|]. split; [exact D|]. split; [exact E|].
    f_equal. f_equal. apply cells_ext. intros a Ha. apply In_firstn in Ha.
    apply filter_In in Ha. destruct Ha as [_ Ha]. unfold nonnull in Ha.
    destruct G as (_ & G2 & _). apply G2. destruct (isnull h v a); auto; discriminate.
Qed.

(* the constructor-time skip: a PENDING ZERO that is the first index key at or after the start
   is gone from the index when the constructor returns, the cursor is on a non-null key (or the
   iterator is exhausted), nothing between the start and the cursor stays in the index, and no
   element changed *)
Lemma it_from_constructor h v i : sset (idx v) ->
  exists v0 cur, it_from h v i = Some (v0, cur) /\ Q h v v0 /\
    (forall q, In q (idx v0) -> In q (idx v)) /\
    (forall q, In q (idx v) -> q < i -> In q (idx v0)) /\
    match cur with
    | Some p => i <= p /\ In p (idx v0) /\ isnull h v0 p = false /\
                (forall q, In q (idx v0) -> i <= q -> p <= q) /\
                (forall q, In q (idx v) -> i <= q < p -> isnull h v q = true)
    | None => (forall q, In q (idx v0) -> q < i) /\ (forall q, In q (idx v) -> i <= q -> isnull h v q = true)
    end.
Proof.
  intro Hs. destruct (it_from_spec h v i Hs) as (pre & rest & v0 & A & C & D & E & F & G).
  exists v0, (hd_error (dropnull (isnull h v) rest)). split; [exact E|]. split; [exact G|].
  destruct (dropnull_split (isnull h v) rest) as (z & Z1 & Z2).
  assert (S0 : sset (idx v0)) by (rewrite F; apply dropnull_sset; rewrite <- A; exact Hs).
  split; [|split].
  - intros q Hq. rewrite F in Hq. rewrite A. apply in_app_or in Hq. apply in_or_app.
    destruct Hq as [Hq|Hq]; auto. right. eapply In_dropnull; eauto.
  - intros q Hq Lq. rewrite A in Hq. rewrite F. apply in_app_or in Hq. apply in_or_app.
    destruct Hq as [Hq|Hq]; auto. apply D in Hq. lia.
  - destruct (dropnull (isnull h v) rest) as [|p r'] eqn:DN; cbn [hd_error].
    + split.
      * intros q Hq. rewrite F, app_nil_r in Hq. apply C. exact Hq.
      * intros q Hq Lq. rewrite A in Hq. apply in_app_or in Hq. destruct Hq as [Hq|Hq]; [apply C in Hq; lia|].
        rewrite Z1, app_nil_r in Hq. apply Z2. exact Hq.
    + assert (Hp : In p rest) by (apply (In_dropnull (isnull h v)); rewrite DN; left; reflexivity).
      assert (Np : isnull h v p = false) by (apply (dropnull_hd_nonnull _ rest); rewrite DN; reflexivity).
      split; [apply D; exact Hp|]. split; [rewrite F; apply in_or_app; right; left; reflexivity|].
      split; [destruct G as (G1 & _); rewrite G1; exact Np|]. split.
      * intros q Hq Lq. rewrite F in Hq. apply in_app_or in Hq. destruct Hq as [Hq|Hq]; [apply C in Hq; lia|].
        destruct Hq as [->|Hq]; [lia|].
        rewrite F in S0. assert (p < q); [|lia].
        apply (sset_app_lt (pre ++ [p]) r'); [rewrite <- app_assoc; exact S0| |exact Hq].
        apply in_or_app. right. left. reflexivity.
      * intros q Hq Lq. rewrite A in Hq. apply in_app_or in Hq. destruct Hq as [Hq|Hq]; [apply C in Hq; lia|].
        rewrite Z1 in Hq. apply in_app_or in Hq. destruct Hq as [Hq|Hq]; [apply Z2; exact Hq|].
        exfalso. destruct Hq as [->|Hq]; [lia|].
        assert (S1 : sset (p :: r')).
        { rewrite A in Hs. clear - Hs Z1. rewrite Z1 in Hs.
          assert (X : sset ((pre ++ z) ++ p :: r')) by (rewrite <- app_assoc; exact Hs).
          clear Hs. induction (pre ++ z) as [|y l IH]; simpl in X; auto. apply sset_cons in X. apply IH. tauto. }
        apply sset_cons in S1. destruct S1 as [_ S1]. rewrite Forall_forall in S1. specialize (S1 q Hq). lia.
Qed.

(* ---- 2. matrix level: what ConstIteratorFrom(i,j) visits ----------------------------------- *)
Lemma mvisits_app h m a b : mvisits h m (a ++ b) = mvisits h m a ++ mvisits h m b.
Proof. unfold mvisits. apply map_app. Qed.
Lemma cells_app v a b : cells v (a ++ b) = cells v a ++ cells v b.
Proof. unfold cells. apply map_app. Qed.
Lemma pos_geb_lt i j e : lexlt (fst e) (i, j) -> pos_geb i j e = false.
Proof.
  unfold lexlt, pos_geb. cbn [fst snd]. intro H.
  destruct (i <? fst (fst e)) eqn:E1; [apply Z.ltb_lt in E1; lia|]. cbn [orb].
  destruct (i =? fst (fst e)) eqn:E2; [|reflexivity]. apply Z.eqb_eq in E2. cbn [andb].
  apply Z.leb_gt. lia.
Qed.
Lemma pos_geb_ge i j e : fst e = (i, j) \/ lexlt (i, j) (fst e) -> pos_geb i j e = true.
Proof.
  unfold lexlt, pos_geb. cbn [fst snd]. intros [H|H].
  - rewrite H. cbn [fst snd]. rewrite Z.ltb_irrefl, Z.eqb_refl. cbn. apply Z.leb_le. lia.
  - destruct (i <? fst (fst e)) eqn:E1; [reflexivity|]. apply Z.ltb_ge in E1. cbn [orb].
    assert (E2 : i = fst (fst e)) by lia. rewrite <- E2, Z.eqb_refl. cbn [andb]. apply Z.leb_le. lia.
Qed.
Lemma pos_geb_spec i j i' j' x : pos_geb i j ((i', j'), x) = true <-> (i < i' \/ (i = i' /\ j <= j')).
Proof.
  unfold pos_geb. cbn [fst snd]. rewrite orb_true_iff, andb_true_iff, Z.ltb_lt, Z.eqb_eq, Z.leb_le. tauto.
Qed.

Lemma mvisits_from h m i j pre rest :
  MInv m -> pos_ok m i j -> idx (mv m) = pre ++ rest ->
  (forall x, In x pre -> x < i * mcols m + j) -> (forall x, In x rest -> i * mcols m + j <= x) ->
  mvisits h m (cells (mv m) (filter (nonnull h (mv m)) rest)) = dm_entries_from (mabsd h m) i j.
Proof.
  intros MI P A C D. pose proof MI as [I W].
  destruct (iterate_spec h (mv m)) as (v1 & E & _); [apply I|].
  pose proof (mvisits_entries h m v1 _ MI E) as ME.
  unfold dm_entries_from. rewrite <- ME, A, filter_app, cells_app, mvisits_app.
  pose proof (key_range m i j W P) as KR.
  assert (IR : forall k, In k (idx (mv m)) -> 0 <= k < dim (mv m)) by apply I.
  symmetry. apply filter_app_split.
  - intros e He. unfold mvisits in He. apply in_map_iff in He. destruct He as ([k l] & <- & Hin).
    unfold cells in Hin. apply in_map_iff in Hin. destruct Hin as (k0 & Ek & Hk). inversion Ek. subst k0.
    apply filter_In in Hk. destruct Hk as [Hk _]. apply pos_geb_lt. cbn [fst snd].
    rewrite <- (mij_index m i j W P). apply mij_lex; auto; [|lia].
    specialize (C k Hk). specialize (IR k). rewrite A in IR. specialize (IR (in_or_app _ _ _ (or_introl Hk))). lia.
  - intros e He. unfold mvisits in He. apply in_map_iff in He. destruct He as ([k l] & <- & Hin).
    unfold cells in Hin. apply in_map_iff in Hin. destruct Hin as (k0 & Ek & Hk). inversion Ek. subst k0.
    apply filter_In in Hk. destruct Hk as [Hk _]. apply pos_geb_ge. cbn [fst snd].
    specialize (D k Hk). specialize (IR k). rewrite A in IR. specialize (IR (in_or_app _ _ _ (or_intror Hk))).
    destruct (Z.eq_dec k (i * mcols m + j)) as [->|Ne].
    + left. apply mij_index; auto.
    + right. rewrite <- (mij_index m i j W P). apply mij_lex; auto; lia.
Qed.

(* THE VISITED-SET THEOREM, one coherent matrix, any content of the private map and index
   (pending zeros of any origin included): ConstIteratorFrom(i,j) never panics for an in-range
   start, terminates within the fuel, delivers exactly the non-zero elements at the positions
   >= (i,j) in row-major order — the first delivered position included — changes no element
   and no dimension and leaves the matrix coherent *)
Lemma miter_from_visits h m i j :
  MInv m -> pos_ok m i j ->
  exists v0 cur v' s,
    mit_from h m i j = Some (Some (v0, cur)) /\
    iter_loop (sfuel (mv m)) h v0 cur [] = Some (v', s) /\
    mvisits h m s = dm_entries_from (mabsd h m) i j /\
    Q h (mv m) v0 /\ Q h (mv m) v'.
Proof.
  intros MI P. pose proof MI as [I W].
  destruct (from_loop_spec h (mv m) (i * mcols m + j)) as (pre & rest & v0 & v' & A & C & D & E & F & G & L & X & Y);
    [apply I|].
  exists v0, (hd_error (dropnull (isnull h (mv m)) rest)), v', (cells (mv m) (filter (nonnull h (mv m)) rest)).
  unfold mit_from. rewrite (mindex_whole_ok m i j W P), E.
  split; [reflexivity|]. split; [exact L|]. split; [|split; [exact G|exact Y]].
  apply (mvisits_from h m i j pre rest MI P A C D).
Qed.
Lemma miter_from_part_visits h m i j n :
  MInv m -> pos_ok m i j ->
  exists v0 cur v' s,
    mit_from h m i j = Some (Some (v0, cur)) /\
    iter_part n h v0 cur [] = Some (v', s) /\
    mvisits h m s = firstn n (dm_entries_from (mabsd h m) i j).
Proof.
  intros MI P. pose proof MI as [I W].
  destruct (from_part_spec h (mv m) (i * mcols m + j) n) as (pre & rest & v0 & v' & A & C & D & E & L); [apply I|].
  exists v0, (hd_error (dropnull (isnull h (mv m)) rest)), v',
         (cells (mv m) (firstn n (filter (nonnull h (mv m)) rest))).
  unfold mit_from. rewrite (mindex_whole_ok m i j W P), E.
  split; [reflexivity|]. split; [exact L|].
  rewrite <- (mvisits_from h m i j pre rest MI P A C D). unfold cells. rewrite <- firstn_map.
  apply mvisits_firstn.
Qed.

(* Q (some null entries removed) is enough for the abstraction and the invariants *)
Lemma Q_mabsd h m v' : Q h (mv m) v' -> mabsd h (set_mv m v') = mabsd h m.
Proof.
  intro Q0. apply mabsd_dims; [reflexivity|]. apply mabs_ext; [reflexivity|]. intros a b _. cbn [mv set_mv].
  apply Q_peek. exact Q0.
Qed.

(* ---- 3. steps, payloads, histories over mop2 ------------------------------------------------ *)
Definition MSim2 (w : mworld) (o : mop2) : Prop :=
  mabsw (fst (mstep2 w o)) = mdstep2 (mabsw w) o /\ MWWf (fst (mstep2 w o)) /\
  fst (snd (mstep2 w o)) = mcode2 w o.

Lemma mstep2_MWInv w o : MWInv w -> min_range2 w o -> MWInv (fst (mstep2 w o)).
Proof.
  intros H R. assert (G : forall t, MInv (getm w t)) by (intro t0; apply MWInv_getm; auto).
  destruct o as [o|t i j|t i j n]; cbn [mstep2 min_range2] in *.
  - apply mstep_MWInv; auto.
  - destruct R as [R1 R2].
    destruct (miter_from_visits (mhp w) (getm w t) i j (G t) R2) as (v0 & cur & v' & s & A & B & _ & Q0 & Q1).
    rewrite A, B. cbn [fst]. apply MWInv_setm; auto. unfold mit_from in A.
    destruct (mindex (getm w t) i j) as [k|]; [|discriminate]. inversion A as [A'].
    apply MInv_set_mv; [apply G| |apply Q1].
    eapply Inv_iter_loop; [|exact B]. eapply Inv_it_from; [apply (G t)|exact A'].
  - destruct R as [R1 R2].
    destruct (miter_from_part_visits (mhp w) (getm w t) i j n (G t) R2) as (v0 & cur & v' & s & A & B & _).
    rewrite A, B. cbn [fst]. apply MWInv_setm; auto. unfold mit_from in A.
    destruct (mindex (getm w t) i j) as [k|]; [|discriminate]. inversion A as [A'].
    assert (Q2a : Q2 (mhp w) (mv (getm w t)) v').
    { eapply Q2_trans; [eapply it_from_Q2; exact A'|eapply iter_part_Q2; exact B]. }
    apply MInv_set_mv; [apply G| |apply (Q2_dim _ _ _ Q2a)].
    eapply Inv_iter_part; [|exact B]. eapply Inv_it_from; [apply (G t)|exact A'].
Qed.

Section Lift2.
Hypothesis Hbase : forall w o, MWInv w -> MWWf w -> min_range w o -> msafe w o ->
  mabsw (fst (mstep w o)) = mdstep (mabsw w) o /\ MWWf (fst (mstep w o)) /\ fst (snd (mstep w o)) = mcode w o.

Lemma mstep2_sim w o : MWInv w -> MWWf w -> min_range2 w o -> msafe2 w o -> MSim2 w o.
Proof.
  intros I W R S. assert (G : forall t, MInv (getm w t)) by (intro t0; apply MWInv_getm; auto).
  assert (GW : forall t, Wf (mhp w) (mv (getm w t))) by (intro t0; apply MWWf_getm; exact W).
  destruct o as [o|t i j|t i j n]; unfold MSim2; cbn [mstep2 mdstep2 min_range2 msafe2] in *.
  - destruct (Hbase w o I W R S) as (A & B & C). split; [exact A|split; [exact B|]].
    rewrite C. destruct o; reflexivity.
  - destruct R as [R1 R2].
    destruct (miter_from_visits (mhp w) (getm w t) i j (G t) R2) as (v0 & cur & v' & s & A & B & _ & Q0 & Q1).
    rewrite A, B. cbn [fst snd]. unfold mit_from in A.
    destruct (mindex (getm w t) i j) as [k|]; [|discriminate]. inversion A as [A'].
    assert (Q2a : Q2 (mhp w) (mv (getm w t)) v').
    { eapply Q2_trans; [eapply it_from_Q2; exact A'|eapply iter_loop_Q2; exact B]. }
    assert (Wv : Wf (mhp w) (mv (set_mv (getm w t) v'))) by (cbn [mv set_mv]; eapply Q2_Wf; [exact Q2a|apply GW]).
    destruct (msim_same w W t _ (fun a => a) (Q_mabsd _ _ _ Q1) Wv) as [X Y]. rewrite upd_dmget in X.
    split; [exact X|split; [exact Y|reflexivity]].
  - destruct R as [R1 R2].
    destruct (miter_from_part_visits (mhp w) (getm w t) i j n (G t) R2) as (v0 & cur & v' & s & A & B & _).
    rewrite A, B. cbn [fst snd]. unfold mit_from in A.
    destruct (mindex (getm w t) i j) as [k|]; [|discriminate]. inversion A as [A'].
    assert (Q2a : Q2 (mhp w) (mv (getm w t)) v').
    { eapply Q2_trans; [eapply it_from_Q2; exact A'|eapply iter_part_Q2; exact B]. }
    assert (Wv : Wf (mhp w) (mv (set_mv (getm w t) v'))) by (cbn [mv set_mv]; eapply Q2_Wf; [exact Q2a|apply GW]).
    assert (E : mabsd (mhp w) (set_mv (getm w t) v') = mabsd (mhp w) (getm w t)).
    { apply mabsd_dims; [reflexivity|]. apply mabs_ext; [reflexivity|]. intros a b _. cbn [mv set_mv].
      apply Q_peek. apply Q2a. }
    destruct (msim_same w W t _ (fun a => a) E Wv) as [X Y]. rewrite upd_dmget in X.
    split; [exact X|split; [exact Y|reflexivity]].
Qed.

Lemma mrun2_sim_from ops : forall w, MWInv w -> MWWf w -> mvalid_safe2 w ops ->
  mabsw (mrun2 w ops) = mdense_run2 (mabsw w) ops /\ MWWf (mrun2 w ops) /\ MWInv (mrun2 w ops).
Proof.
  induction ops as [|o r IH]; intros w I W V.
  - cbn. split; [reflexivity|split; [exact W|exact I]].
  - destruct V as (V1 & V2 & V3). destruct (mstep2_sim w o I W V1 V2) as (A & B & _).
    unfold mrun2, mdense_run2 in *. cbn [fold_left]. rewrite <- A. apply IH; auto.
    apply mstep2_MWInv; auto.
Qed.
Lemma mrun2_sim ops : mvalid_safe2 minit ops -> mabsw (mrun2 minit ops) = mdense_run2 [] ops.
Proof. intro V. apply (mrun2_sim_from ops minit MWInv_minit MWWf_minit V). Qed.
End Lift2.

(* the payload *)
Lemma mstep2_out w o q :
  MWInv w -> MWWf w -> min_range2 w o -> mdout2 (mabsw w) o = Some q -> snd (snd (mstep2 w o)) = q.
Proof.
  intros I W R E. assert (G : forall t, MInv (getm w t)) by (intro t0; apply MWInv_getm; auto).
  destruct o as [o|t i j|t i j n]; cbn [mstep2 mdout2 min_range2] in *.
  - apply mstep_out; auto.
  - inversion E. subst q. clear E. destruct R as [R1 R2]. rewrite dmget_mabsw.
    destruct (miter_from_visits (mhp w) (getm w t) i j (G t) R2) as (v0 & cur & v' & s & A & B & C & _).
    rewrite A, B. cbn [snd]. rewrite mseq_vals_flat3, C. reflexivity.
  - inversion E. subst q. clear E. destruct R as [R1 R2]. rewrite dmget_mabsw.
    destruct (miter_from_part_visits (mhp w) (getm w t) i j n (G t) R2) as (v0 & cur & v' & s & A & B & C).
    rewrite A, B. cbn [snd]. rewrite mseq_vals_flat3, C. reflexivity.
Qed.

Lemma mvalid_safe2_app a : forall w b,
  mvalid_safe2 w (a ++ b) -> mvalid_safe2 w a /\ mvalid_safe2 (mrun2 w a) b.
Proof.
  induction a as [|o a IH]; intros w b V.
  - split; [exact Logic.I|exact V].
  - cbn [app mvalid_safe2] in V. destruct V as (V1 & V2 & V3). destruct (IH _ _ V3) as [A B].
    split; [cbn [mvalid_safe2]; auto|exact B].
Qed.

Section History2.
Hypothesis Hbase : forall w o, MWInv w -> MWWf w -> min_range w o -> msafe w o ->
  mabsw (fst (mstep w o)) = mdstep (mabsw w) o /\ MWWf (fst (mstep w o)) /\ fst (snd (mstep w o)) = mcode w o.
(* the last operation of an in-range, safe history over mop2 answers the expected code and
   returns what the DENSE run of the history before it predicts *)
Lemma mhistory2_step : forall pre o,
  mvalid_safe2 minit (pre ++ [o]) ->
  let w := mrun2 minit pre in
  fst (snd (mstep2 w o)) = mcode2 w o /\
  (forall q, mdout2 (mdense_run2 [] pre) o = Some q -> snd (snd (mstep2 w o)) = q).
Proof.
  intros pre o V w. destruct (mvalid_safe2_app pre minit [o] V) as [V1 V2].
  destruct (mrun2_sim_from Hbase pre minit MWInv_minit MWWf_minit V1) as (A & B & C). fold w in A, B, C, V2.
  destruct V2 as (R & S & _). split.
  - apply (mstep2_sim Hbase w o C B R S).
  - intros q E. change (mabsw minit) with (@nil dmat) in A. rewrite <- A in E.
    apply (mstep2_out w o q C B R E).
Qed.
End History2.

(* ---- the executable side conditions of CorrMat3 are sound ---------------------------------- *)
Lemma min_rangeb2_sound w o : min_rangeb2 w o = true -> min_range2 w o.
Proof.
  destruct o as [o|t i j|t i j n]; cbn [min_rangeb2 min_range2].
  - apply min_rangeb_sound.
  - rewrite andb_true_iff. intros [A B]. split; [apply mhasb_sound; exact A|apply pos_okb_sound; exact B].
  - rewrite andb_true_iff. intros [A B]. split; [apply mhasb_sound; exact A|apply pos_okb_sound; exact B].
Qed.
Lemma msafeb2_sound w o : msafeb2 w o = true -> msafe2 w o.
Proof. destruct o; cbn [msafeb2 msafe2]; auto. apply msafeb_sound. Qed.
Fixpoint mvalid_safeb2 (w : mworld) (ops : list mop2) : bool :=
  match ops with
  | [] => true
  | o :: r => min_rangeb2 w o && msafeb2 w o && mvalid_safeb2 (fst (mstep2 w o)) r
  end.
Lemma mvalid_safeb2_sound ops : forall w, mvalid_safeb2 w ops = true -> mvalid_safe2 w ops.
Proof.
  induction ops as [|o r IH]; intros w H; cbn [mvalid_safeb2 mvalid_safe2] in *; [exact Logic.I|].
  apply andb_prop in H. destruct H as [H H3]. apply andb_prop in H. destruct H as [H1 H2].
  split; [apply min_rangeb2_sound; exact H1|]. split; [apply msafeb2_sound; exact H2|]. apply IH. exact H3.
Qed.

(* ---- 4. set-style statement of the visited-set theorem; pending zeros ----------------------- *)
Lemma SS_map_fst_plt (L : list ((Z * Z) * Z)) : StronglySorted plt L -> StronglySorted lexlt (map fst L).
Proof.
  induction L as [|a L IH]; intro S; cbn [map]; [constructor|].
  inversion S as [|? ? Sa Fa]; subst. constructor; [apply IH; exact Sa|].
  rewrite Forall_forall in *. intros x Hx. apply in_map_iff in Hx. destruct Hx as (e & <- & He).
  apply (Fa e He).
Qed.
Lemma miter_from_exact h m i j : MInv m -> pos_ok m i j ->
  exists v0 cur v' s,
    mit_from h m i j = Some (Some (v0, cur)) /\
    iter_loop (sfuel (mv m)) h v0 cur [] = Some (v', s) /\
    StronglySorted lexlt (map fst (mvisits h m s)) /\
    (forall i' j' x, In ((i', j'), x) (mvisits h m s) <->
       pos_ok m i' j' /\ (i < i' \/ (i = i' /\ j <= j')) /\ x = mget (mabs h m) i' j' /\ x <> 0) /\
    mabs h (set_mv m v') = mabs h m /\ mdims (set_mv m v') = mdims m /\ MInv (set_mv m v').
Proof.
  intros MI P.
  destruct (miter_from_visits h m i j MI P) as (v0 & cur & v' & s & A & B & C & Q0 & Q1).
  exists v0, cur, v', s. split; [exact A|]. split; [exact B|]. rewrite C.
  split; [|split; [|split; [|split]]].
  - apply SS_map_fst_plt. unfold dm_entries_from. apply SS_filter_gen. apply dm_entries_sorted.
  - intros i' j' x. unfold dm_entries_from. rewrite filter_In, dm_entries_In, pos_geb_spec.
    cbn [dr dc mabsd]. rewrite del_mabsd. unfold pos_ok. tauto.
  - apply mabs_ext; [reflexivity|]. intros a b _. cbn [mv set_mv]. apply Q_peek. exact Q1.
  - reflexivity.
  - unfold mit_from in A. destruct (mindex m i j) as [k|]; [|discriminate]. inversion A as [A'].
    apply MInv_set_mv; [exact MI| |apply Q1].
    eapply Inv_iter_loop; [|exact B]. eapply Inv_it_from; [apply MI|exact A'].
Qed.

Lemma first_ge_spec i l p : sset l -> first_ge i l = Some p ->
  In p l /\ i <= p /\ (forall q, In q l -> i <= q -> p <= q).
Proof.
  intros Hs E. destruct (split_ge i l Hs) as (pre & rest & A & B & C & D).
  rewrite B in E. destruct rest as [|p0 r]; [discriminate|]. inversion E. subst p0.
  split; [rewrite A; apply in_or_app; right; left; reflexivity|].
  split; [apply D; left; reflexivity|].
  intros q Hq Lq. rewrite A in Hq. apply in_app_or in Hq. destruct Hq as [Hq|Hq]; [apply C in Hq; lia|].
  destruct Hq as [->|Hq]; [lia|].
  rewrite A in Hs. assert (p < q); [|lia].
  apply (sset_app_lt (pre ++ [p]) r); [rewrite <- app_assoc; exact Hs| |exact Hq].
  apply in_or_app. right. left. reflexivity.
Qed.
(* a PENDING ZERO p that is the first index key at or after the start i: the constructor deletes
   it — it is not in the index any more, the cursor is not on it, no element changed *)
Lemma pending_zero_dropped h v i p : sset (idx v) -> first_ge i (idx v) = Some p -> isnull h v p = true ->
  exists v0 cur, it_from h v i = Some (v0, cur) /\ ~ In p (idx v0) /\ cur <> Some p /\ Q h v v0.
Proof.
  intros Hs F N. destruct (first_ge_spec i (idx v) p Hs F) as (Hp & Lp & Mp).
  destruct (it_from_constructor h v i Hs) as (v0 & cur & A & Q0 & Inc & Keep & K).
  exists v0, cur. split; [exact A|].
  assert (NI : ~ In p (idx v0)).
  { intro Hin. destruct cur as [c|].
    - destruct K as (K1 & K2 & K3 & K4 & K5).
      assert (c <= p) by (apply K4; auto).
      assert (c <> p). { intro. subst c. destruct Q0 as (Q1 & _). rewrite Q1 in K3. congruence. }
      assert (p <= c) by (apply Mp; auto). lia.
    - destruct K as (K1 & _). specialize (K1 p Hin). lia. }
  split; [exact NI|]. split; [|exact Q0].
  intro Ec. subst cur. destruct K as (_ & K2 & _). contradiction.
Qed.
Lemma mpending_zero_dropped h m i j p : MInv m -> pos_ok m i j ->
  first_ge (i * mcols m + j) (idx (mv m)) = Some p -> isnull h (mv m) p = true ->
  exists v0 cur, mit_from h m i j = Some (Some (v0, cur)) /\ ~ In p (idx v0) /\ cur <> Some p /\
                 mabsd h (set_mv m v0) = mabsd h m.
Proof.
  intros MI P F N. pose proof MI as [I W].
  destruct (pending_zero_dropped h (mv m) (i * mcols m + j) p) as (v0 & cur & A & B & C & D); auto; [apply I|].
  exists v0, cur. unfold mit_from. rewrite (mindex_whole_ok m i j W P), A.
  split; [reflexivity|]. split; [exact B|]. split; [exact C|]. apply Q_mabsd. exact D.
Qed.

(* the same constructor WITHOUT skip() (the class of regression this round is about) is refuted
   by a two-operation state: values = {2 -> 0} (a stored zero), start key 1 *)
Definition it_from_noskip (v : svec) (i : Z) : svec * option Z := (v, first_ge i (idx v)).
Lemma it_from_noskip_refuted :
  let h := [0] in
  let v := {| vals := [(2, O)]; idx := [2]; dim := 4 |} in
  Inv v /\
  iter_loop (sfuel v) h (fst (it_from_noskip v 1)) (snd (it_from_noskip v 1)) [] = Some (v, [(2, O)]) /\
  peek h v 2 = 0 /\
  (exists v0, it_from h v 1 = Some (v0, None) /\ idx v0 = []).
Proof.
  cbv zeta. split; [|split; [|split]].
  - apply Inv_intro; cbn [vals idx dim map fst In].
    + repeat constructor.
    + repeat constructor. intros [].
    + intros k l H. change (lookup k [(2, O)] = Some l) in H. cbn [lookup] in H.
      destruct (2 =? k) eqn:E; [apply Z.eqb_eq in E; left; exact E|discriminate].
    + intros k [<-|[]]. lia.
    + lia.
  - vm_compute. reflexivity.
  - vm_compute. reflexivity.
  - eexists. vm_compute. split; reflexivity.
Qed.
