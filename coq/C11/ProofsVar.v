(* C11, round 7 — the reading of Real scalars (ModelVar.v): lemmas. *)
From Coq Require Import ZArith List Bool Lia Sorted.
From ADV Require Import C11.Model C11.Spec C11.ModelVar C11.ProofsRef C11.ProofsIter C11.ProofsInv C11.ProofsDSet.
Import ListNotations.
Open Scope Z_scope.

Lemma pv_zero_null : forall s, r_bounded s -> (pv s = 0 <-> r_null s = true).
Proof.
  intros [v d] B. cbv beta iota delta [r_bounded rval] in B. split.
  - intros E. cbv beta iota delta [pv VARW rval rder] in E. assert (d = 0) by lia. subst d. assert (v = 0) by lia. subst v. reflexivity.
  - intros E. unfold r_null in E. cbn in E. apply andb_prop in E. destruct E as [E1 E2].
    apply Z.eqb_eq in E1. apply Z.eqb_eq in E2. subst. reflexivity.
Qed.

Lemma pv_inj : forall s s', r_bounded s -> r_bounded s' -> pv s = pv s' -> s = s'.
Proof.
  intros [v d] [v' d'] B B' E. cbv beta iota delta [r_bounded pv VARW rval rder] in B, B', E.
  assert (d = d') by lia. subst d'. assert (v = v') by lia. subst v'. reflexivity.
Qed.

Lemma pv_setfloat : forall s x, pv (r_setfloat s x) = x.
Proof. intros s x. unfold pv, r_setfloat, VARW. cbn. lia. Qed.
Lemma pv_reset : forall s, pv (r_reset s) = 0.
Proof. intros s. reflexivity. Qed.
Lemma pv_setvar : forall s x, pv (r_setvar (r_setfloat s x)) = x + VARW.
Proof. intros s x. unfold pv, r_setvar, r_setfloat, VARW. cbn. lia. Qed.
Lemma pv_set : forall s b, pv (r_set s b) = pv b.
Proof. reflexivity. Qed.

(* a variable at the point 0 is not null, and its reading is not 0 *)
Lemma var_at_zero : forall s, r_null (r_setvar (r_setfloat s 0)) = false /\ pv (r_setvar (r_setfloat s 0)) = VARW.
Proof. intros s. split; reflexivity. Qed.

(* iteration of a vector of Real scalars: [sc k] is the scalar position k stands for (the cells
   of the model hold its reading).  Visited iff not null — in particular a variable at the point
   0 — and nothing is lost (the dense reading is unchanged). *)
Lemma real_iteration : forall h v (sc : Z -> rsc),
  Inv v ->
  (forall k, 0 <= k < dim v -> r_bounded (sc k) /\ nth (Z.to_nat k) (abs h v) 0 = pv (sc k)) ->
  exists v1 s, iterate h v = Some (v1, s) /\
    StronglySorted Z.lt (map fst s) /\
    (forall k, 0 <= k < dim v -> (In (k, pv (sc k)) (visits h s) <-> r_null (sc k) = false)) /\
    (forall k x, In (k, x) (visits h s) -> 0 <= k < dim v /\ x = pv (sc k)) /\
    abs h v1 = abs h v /\ dim v1 = dim v /\ Inv v1.
Proof.
  intros h v sc I R.
  destruct (iterate_visits h v I) as (v1 & s & A & B & C & D & E & F).
  exists v1, s. split; [exact A|]. split; [exact B|]. split; [|split; [|auto]].
  - intros k Hk. destruct (R k Hk) as [Bd Rd]. split.
    + intros Hin. apply C in Hin. destruct Hin as (_ & _ & NZ).
      destruct (r_null (sc k)) eqn:N; [|reflexivity].
      exfalso. apply NZ. apply pv_zero_null; assumption.
    + intros N. apply C. split; [exact Hk|]. split; [symmetry; exact Rd|].
      intros Z0. apply pv_zero_null in Z0; [|exact Bd]. rewrite Z0 in N. discriminate.
  - intros k x Hin. apply C in Hin. destruct Hin as (Hk & Ex & _). split; [exact Hk|].
    rewrite Ex. apply R. exact Hk.
Qed.

(* ---- frame of the entry-creating accesses: At(i) / At(i).Set(x) on vector t change the map, the
   index and the dimension of NO other vector (each vector owns its index: no index node is shared,
   whatever operation — SET on an empty receiver included — produced the vectors) *)
Lemma getv_seth w h u : getv (seth w h) u = getv w u.
Proof. reflexivity. Qed.
Lemma at_frame : forall w t i x u, u <> t ->
  getv (fst (step w (At t i))) u = getv w u /\ getv (fst (step w (SetAt t i x))) u = getv w u.
Proof.
  intros w t i x u Hne. unfold step.
  destruct (at_ (hp w) (getv w t) i) as [[[h' v'] l]|] eqn:E; cbn [fst]; split; try reflexivity;
    rewrite getv_seth; apply ProofsDSet.getv_setv_neq; exact Hne.
Qed.
(* the scenario: u.SET(t), then an entry is created in one of the two: the other is untouched *)
Lemma set_then_at_frame : forall w t u i, u <> t ->
  let w1 := fst (step w (SETV u t)) in
  getv (fst (step w1 (At t i))) u = getv w1 u /\ getv (fst (step w1 (At u i))) t = getv w1 t.
Proof.
  intros w t u i Hne w1. split.
  - apply (at_frame w1 t i 0 u Hne).
  - apply (at_frame w1 u i 0 t). intros E. apply Hne. symmetry. exact E.
Qed.
