(* C11 — Set(x) / SET(x) through the joint iterator refines the plain dense
   model: after v.Set(x) the receiver reads exactly like x and every other
   vector (the operand included) reads as before.

   Structure: general lemmas (skip as a scan for the next non-null position),
   then a Section fixing the world w0 before the call; [Rel wk] relates a world
   reached during the loop to w0; [joint_next_post] is the one-step lemma of the
   JOINT_ITERATOR state machine; [set_loop_ok] the loop; [set_vec_refines] the
   statement. *)
From Coq Require Import ZArith List Bool Lia Sorted.
From ADV Require Import C11.Model C11.Spec C11.Dense C11.ProofsMap C11.ProofsIter C11.ProofsInv C11.ProofsRef.
Import ListNotations.
Open Scope Z_scope.

(* ---- null / peek ------------------------------------------------------------ *)
Lemma isnull_peek h v k : isnull h v k = true <-> peek h v k = 0.
Proof. unfold isnull, peek. destruct (lookup k (vals v)); [apply Z.eqb_eq | tauto]. Qed.
Lemma peek_nz_lookup h v k : peek h v k <> 0 -> exists l, lookup k (vals v) = Some l /\ hget h l = peek h v k.
Proof. unfold peek. destruct (lookup k (vals v)) as [l|]; [eauto | intro H; exfalso; apply H; auto]. Qed.
Lemma peek_notin h v k : Inv v -> ~ In k (idx v) -> peek h v k = 0.
Proof.
  intros H N. inv_split H. unfold peek. destruct (lookup k (vals v)) as [l|] eqn:L; auto.
  exfalso. apply N. eauto.
Qed.
Lemma lookup_In_cells k m l : lookup k m = Some l -> In l (map snd m).
Proof. intro H. apply lookup_In_pair in H. change l with (snd (k, l)). apply in_map. auto. Qed.

(* ---- v' is v with some null entries removed (cells kept) ---------------------- *)
Definition Sub (h : heap) (v v' : svec) : Prop :=
  dim v' = dim v /\
  (forall k l, lookup k (vals v') = Some l -> lookup k (vals v) = Some l) /\
  (forall k, peek h v' k = peek h v k).
Lemma Sub_refl h v : Sub h v v.
Proof. unfold Sub. auto. Qed.
Lemma Sub_trans h a b c : Sub h a b -> Sub h b c -> Sub h a c.
Proof.
  intros (A1 & A2 & A3) (B1 & B2 & B3). unfold Sub. repeat split.
  - congruence.
  - intros k l H. auto.
  - intro k. rewrite B3. auto.
Qed.
Lemma Sub_del h v k : isnull h v k = true -> Sub h v (del_entry k v).
Proof.
  intro H. unfold Sub, del_entry. cbn [vals idx dim]. repeat split; auto.
  - intros k' l. rewrite lookup_remove. destruct (k =? k'); [discriminate | auto].
  - intro k'. unfold peek. cbn [vals]. rewrite lookup_remove. destruct (k =? k') eqn:E; auto.
    apply Z.eqb_eq in E. subst k'. apply isnull_peek in H. unfold peek in H. auto.
Qed.
Lemma Wf_mono h h' v : Wf h v -> (length h <= length h')%nat -> Wf h' v.
Proof. intros (W1 & W2) L. split; auto. intros k l H. apply W1 in H. lia. Qed.
Lemma Sub_Wf h h' v v' : Wf h' v -> Sub h v v' -> Wf h' v'.
Proof.
  intros (W1 & W2) (_ & S2 & _). split.
  - intros k l H. eauto.
  - intros k1 k2 l H1 H2. eauto.
Qed.
Lemma peek_heap_eq h h' v k :
  (forall k l, lookup k (vals v) = Some l -> hget h' l = hget h l) -> peek h' v k = peek h v k.
Proof. intro H. unfold peek. destruct (lookup k (vals v)) eqn:L; eauto. Qed.
Lemma Sub_heap h h' v v' :
  (forall k l, lookup k (vals v) = Some l -> hget h' l = hget h l) -> Sub h v v' -> Sub h' v v'.
Proof.
  intros Hh (S1 & S2 & S3). unfold Sub. repeat split; auto.
  intro k. rewrite (peek_heap_eq h h' v k Hh).
  rewrite (peek_heap_eq h h' v' k); [apply S3|]. intros k0 l H. eauto.
Qed.

(* ---- the cursor of an index iterator: least key >= lo ------------------------- *)
Definition Least (lo : Z) (l : list Z) (cur : option Z) : Prop :=
  match cur with
  | Some k => In k l /\ lo <= k /\ (forall x, In x l -> lo <= x -> k <= x)
  | None => forall x, In x l -> x < lo
  end.
(* [cur] is the first position >= lo where g is non-zero *)
Definition ScanF (g : Z -> Z) (lo : Z) (cur : option Z) : Prop :=
  match cur with
  | Some k => lo <= k /\ g k <> 0 /\ (forall x, lo <= x < k -> g x = 0)
  | None => forall x, lo <= x -> g x = 0
  end.
Lemma ScanF_ext g g' lo cur : (forall x, lo <= x -> g x = g' x) -> ScanF g lo cur -> ScanF g' lo cur.
Proof.
  intros E. destruct cur as [k|]; simpl.
  - intros (A & B & C). split; auto. split.
    + rewrite <- E; auto.
    + intros x Hx. rewrite <- E; [auto | lia].
  - intros A x Hx. rewrite <- E; auto.
Qed.
Lemma ScanF_weaken g lo lo' cur :
  ScanF g lo cur -> lo <= lo' -> match cur with Some k => lo' <= k | None => True end -> ScanF g lo' cur.
Proof.
  destruct cur as [k|]; simpl.
  - intros (A & B & C) L1 L2. split; auto. split; auto. intros x Hx. apply C. lia.
  - intros A L1 _ x Hx. apply A. lia.
Qed.

Lemma first_gt_least k l : sset l -> Least (k + 1) l (first_gt k l).
Proof.
  unfold first_gt. induction l as [|y r IH]; intro Hs; simpl.
  - intros x [].
  - apply sset_cons in Hs. destruct Hs as [Hs Hf]. rewrite Forall_forall in Hf.
    destruct (k <? y) eqn:E.
    + apply Z.ltb_lt in E. simpl. split; [auto|]. split; [lia|].
      intros x [<-|Hx] _; [lia|]. apply Hf in Hx. lia.
    + apply Z.ltb_ge in E. specialize (IH Hs).
      destruct (find (fun x => k <? x) r) as [k'|]; simpl in *.
      * destruct IH as (A & B & C). split; [auto|]. split; [auto|].
        intros x [<-|Hx] Hl; [lia|auto].
      * intros x [<-|Hx]; [lia|auto].
Qed.
Lemma hd_least lo l : sset l -> (forall x, In x l -> lo <= x) -> Least lo l (hd_error l).
Proof.
  intros Hs Hlo. destruct l as [|y r]; simpl.
  - intros x [].
  - apply sset_cons in Hs. destruct Hs as [Hs Hf]. rewrite Forall_forall in Hf.
    split; [auto|]. split; [apply Hlo; simpl; auto|].
    intros x [<-|Hx] _; [lia|]. apply Hf in Hx. lia.
Qed.

(* skip() from the least key >= lo stops at the first non-null position >= lo *)
Lemma skip_scan f : forall h v cur lo v' c',
  Inv v -> Least lo (idx v) cur -> skip f h v cur = Some (v', c') ->
  Sub h v v' /\ ScanF (peek h v) lo c'.
Proof.
  induction f as [|f IH]; intros h v cur lo v' c' HI HL E.
  - destruct cur as [k|]; simpl in E.
    + destruct (isnull h v k) eqn:N; [discriminate|]. inversion E. subst v' c'. clear E.
      split; [apply Sub_refl|]. simpl in *. destruct HL as (A & B & C). split; auto. split.
      * intro Z0. apply isnull_peek in Z0. congruence.
      * intros x Hx. apply peek_notin; auto. intro Hin. specialize (C x Hin). lia.
    + inversion E. subst v' c'. split; [apply Sub_refl|]. simpl in *.
      intros x Hx. apply peek_notin; auto. intro Hin. specialize (HL x Hin). lia.
  - destruct cur as [k|]; simpl in E.
    + destruct (isnull h v k) eqn:N.
      * assert (HI' : Inv (del_entry k v)) by (apply Inv_del; auto).
        assert (Hs : sset (idx v)) by apply HI.
        assert (HL' : Least (k + 1) (idx (del_entry k v)) (first_gt k (idx v))).
        { pose proof (first_gt_least k (idx v) Hs) as G. unfold del_entry. cbn [idx].
          destruct (first_gt k (idx v)) as [k'|]; simpl in *.
          - destruct G as (A & B & C). split; [|split; auto].
            + apply kdel_In; auto. split; auto. lia.
            + intros x Hx. apply C. eapply kdel_incl; eauto.
          - intros x Hx. apply G. eapply kdel_incl; eauto. }
        destruct (IH h (del_entry k v) _ (k + 1) v' c' HI' HL' E) as [S1 S2].
        pose proof (Sub_del h v k N) as SD.
        split; [eapply Sub_trans; eauto|].
        simpl in HL. destruct HL as (A & B & C).
        assert (Z0 : peek h v k = 0) by (apply isnull_peek; auto).
        assert (Lo : forall x, lo <= x < k -> peek h v x = 0).
        { intros x Hx. apply peek_notin; auto. intro Hin. specialize (C x Hin). lia. }
        assert (Ex : forall x, peek h (del_entry k v) x = peek h v x) by apply SD.
        destruct c' as [k'|]; simpl in *.
        -- destruct S2 as (A2 & B2 & C2). split; [lia|]. split; [rewrite <- Ex; auto|].
           intros x Hx. destruct (Z_lt_le_dec x k); [apply Lo; lia|].
           destruct (Z.eq_dec x k); [subst; auto|]. rewrite <- Ex. apply C2. lia.
        -- intros x Hx. destruct (Z_lt_le_dec x k); [apply Lo; lia|].
           destruct (Z.eq_dec x k); [subst; auto|]. rewrite <- Ex. apply S2. lia.
      * inversion E. subst v' c'. clear E.
        split; [apply Sub_refl|]. simpl in *. destruct HL as (A & B & C). split; auto. split.
        -- intro Z0. apply isnull_peek in Z0. congruence.
        -- intros x Hx. apply peek_notin; auto. intro Hin. specialize (C x Hin). lia.
    + inversion E. subst v' c'. split; [apply Sub_refl|]. simpl in *.
      intros x Hx. apply peek_notin; auto. intro Hin. specialize (HL x Hin). lia.
Qed.

(* ---- worlds ------------------------------------------------------------------ *)
Lemma getv_setv_eq w t v : has w t -> getv (setv w t v) t = v.
Proof. intro H. unfold getv, setv. simpl. apply nth_upd_eq. auto. Qed.
Lemma getv_setv_neq w t u v : u <> t -> getv (setv w t v) u = getv w u.
Proof. intro H. unfold getv, setv. simpl. apply nth_upd_neq. auto. Qed.
Lemma upd_nth_same {X} (l : list X) : forall n d, upd n (nth n l d) l = l.
Proof. induction l as [|y r IH]; intros [|m] d; simpl; auto. rewrite IH. auto. Qed.
Lemma setv_same w t : setv w t (getv w t) = w.
Proof. unfold setv, getv. rewrite upd_nth_same. destruct w; auto. Qed.
Lemma Wf_nil h n : Wf h (nil_vec n).
Proof. split; simpl; intros; discriminate. Qed.
Lemma WWf_getv w t : WWf w -> Wf (hp w) (getv w t).
Proof. intro H. unfold getv. apply Forall_nth_d; auto. apply Wf_nil. Qed.
Lemma dget_absw w u : dget (absw w) u = abs (hp w) (getv w u).
Proof.
  unfold dget, absw, getv. change (@nil Z) with (abs (hp w) (nil_vec 0)). apply map_nth.
Qed.
Lemma list_ext {X} (d : X) (a b : list X) :
  length a = length b -> (forall i, (i < length a)%nat -> nth i a d = nth i b d) -> a = b.
Proof.
  revert b. induction a as [|x a IH]; intros [|y b] L H; simpl in *; try discriminate; auto.
  f_equal.
  - apply (H O). lia.
  - apply IH; [lia|]. intros i Hi. apply (H (S i)). lia.
Qed.
Lemma In_zseq n : forall a x, In x (zseq a n) -> a <= x < a + Z.of_nat n.
Proof.
  induction n as [|n IH]; intros a x; simpl; [tauto|].
  intros [<-|H]; [lia|]. apply IH in H. lia.
Qed.

(* what at_ does to cells *)
Lemma at_cells h v i h' v' l :
  Wf h v -> at_ h v i = Some (h', v', l) ->
  Wf h' v' /\ (length h <= length h')%nat /\ lookup i (vals v') = Some l /\
  (forall k l', lookup k (vals v') = Some l' -> lookup k (vals v) = Some l' \/ (length h <= l')%nat) /\
  (forall l', (l' < length h)%nat -> hget h' l' = hget h l').
Proof.
  intros (W1 & W2). unfold at_. destruct (in_bounds v i); [|discriminate].
  destruct (lookup i (vals v)) as [l0|] eqn:L.
  - intro E. inversion E. subst h' v' l0. repeat split; auto.
  - unfold halloc. intro E. inversion E. subst h' v' l. clear E. unfold Wf. cbn [vals].
    split; [split|split; [|split; [|split]]].
    + intros k l'. rewrite lookup_insert. rewrite app_length. simpl.
      destruct (i =? k); intro H; [inversion H; lia|]. apply W1 in H. lia.
    + intros k1 k2 l'. rewrite !lookup_insert.
      destruct (i =? k1) eqn:E1; destruct (i =? k2) eqn:E2; intros H1 H2.
      * apply Z.eqb_eq in E1, E2. lia.
      * inversion H1. subst l'. apply W1 in H2. lia.
      * inversion H2. subst l'. apply W1 in H1. lia.
      * eauto.
    + rewrite app_length. lia.
    + apply lookup_insert_eq.
    + intros k l'. rewrite lookup_insert. destruct (i =? k); intro H; [inversion H; right; lia|auto].
    + intros l' Hl. unfold hget. apply app_nth1. auto.
Qed.

(* ============================================================================ *)
Section SetV.
Variable w0 : world.
Variable t : nat.
Variable o : operand.
Hypothesis HI0 : WInv w0.
Hypothesis HW0 : WWf w0.
Hypothesis Ht : has w0 t.
Hypothesis Hop : operand_ok w0 (dim (getv w0 t)) o.
Hypothesis Hun : unshared w0 t.
Hypothesis Hne : match o with OS u => u <> t | OD _ => True end.

Local Notation n := (dim (getv w0 t)).
Local Notation h0 := (hp w0).
(* the operand's value at position x, in the world before the call *)
Definition opval (x : Z) : Z := nth (Z.to_nat x) (doperand (absw w0) o) 0.

Lemma n_nonneg : 0 <= n.
Proof. apply (WInv_getv w0 t HI0). Qed.
Lemma D_length : Z.of_nat (length (doperand (absw w0) o)) = n.
Proof.
  destruct o as [u|d]; simpl in *.
  - rewrite dget_absw. destruct Hop as [_ Hd]. rewrite <- Hd. apply abs_length.
    apply (WInv_getv w0 u HI0).
  - auto.
Qed.
Lemma opval_beyond x : n <= x -> opval x = 0.
Proof.
  intro H. unfold opval. apply nth_overflow. pose proof D_length. pose proof n_nonneg. lia.
Qed.
Lemma opval_os u x : o = OS u -> 0 <= x -> peek h0 (getv w0 u) x = opval x.
Proof.
  intros Eo Hx. pose proof Hop as Hop'. rewrite Eo in Hop'. simpl in Hop'. destruct Hop' as [Hu Hd].
  destruct (Z_lt_le_dec x n) as [L|L].
  - unfold opval. rewrite Eo. simpl. rewrite dget_absw. symmetry. apply abs_nth. lia.
  - rewrite opval_beyond by auto. apply peek_notin; [apply WInv_getv; auto|].
    intro Hin. apply (WInv_getv w0 u HI0) in Hin. lia.
Qed.
Lemma opval_od d x : o = OD d -> opval x = nth (Z.to_nat x) d 0.
Proof. intro Eo. unfold opval. rewrite Eo. auto. Qed.

(* ---- a world reached during the loop, related to w0 ----------------------------- *)
Record Rel (wk : world) : Prop := {
  R_len : length (vecs wk) = length (vecs w0);
  R_inv : WInv wk;
  R_wf : WWf wk;
  R_sub : forall u, u <> t -> Sub h0 (getv w0 u) (getv wk u);
  R_heap : forall u k l, u <> t -> lookup k (vals (getv w0 u)) = Some l -> hget (hp wk) l = hget h0 l;
  R_disj : forall u k k' l, u <> t -> lookup k (vals (getv wk t)) = Some l ->
                            lookup k' (vals (getv w0 u)) = Some l -> False;
  R_dim : dim (getv wk t) = n;
  R_hlen : (length h0 <= length (hp wk))%nat }.

Lemma Rel_init : Rel w0.
Proof.
  constructor; auto.
  - intros u _. apply Sub_refl.
  - intros u k k' l Hu H1 H2. apply (Hun u l Hu); unfold cells_of; eapply lookup_In_cells; eauto.
Qed.
Lemma Rel_has wk : Rel wk -> has wk t.
Proof. intro R. unfold has in *. rewrite (R_len wk R). auto. Qed.
Lemma Rel_peek_other wk u x : Rel wk -> u <> t -> peek (hp wk) (getv wk u) x = peek h0 (getv w0 u) x.
Proof.
  intros R Hu. destruct (R_sub wk R u Hu) as (S1 & S2 & S3).
  rewrite <- S3. apply peek_heap_eq. intros k l H. apply (R_heap wk R u k l Hu). auto.
Qed.
Lemma orig_cell_lt u k l : lookup k (vals (getv w0 u)) = Some l -> (l < length h0)%nat.
Proof. intro H. destruct (WWf_getv w0 u HW0) as [W1 _]. eauto. Qed.

Lemma Rel_recv wk v' : Rel wk -> Sub (hp wk) (getv wk t) v' -> Inv v' -> Rel (setv wk t v').
Proof.
  intros R S HI. pose proof (Rel_has wk R) as Hh. destruct S as (S1 & S2 & S3).
  constructor.
  - simpl. rewrite upd_length. apply (R_len wk R).
  - apply WInv_setv; auto. apply (R_inv wk R).
  - unfold WWf, setv. simpl. apply Forall_upd; [apply (R_wf wk R)|].
    apply (Sub_Wf (hp wk) (hp wk) (getv wk t)); [apply WWf_getv; apply (R_wf wk R)|]. unfold Sub. auto.
  - intros u Hu. rewrite getv_setv_neq by auto. apply (R_sub wk R). auto.
  - intros u k l Hu H. simpl. eapply (R_heap wk R); eauto.
  - intros u k k' l Hu H1 H2. rewrite getv_setv_eq in H1 by auto. apply S2 in H1.
    apply (R_disj wk R u k k' l Hu H1 H2).
  - rewrite getv_setv_eq by auto. rewrite S1. apply (R_dim wk R).
  - simpl. apply (R_hlen wk R).
Qed.
Lemma Rel_other wk u v' :
  Rel wk -> u <> t -> has w0 u -> Sub (hp wk) (getv wk u) v' -> Inv v' -> Rel (setv wk u v').
Proof.
  intros R Hu Hhu S HI.
  assert (Hh : has wk u) by (unfold has in *; rewrite (R_len wk R); auto).
  constructor.
  - simpl. rewrite upd_length. apply (R_len wk R).
  - apply WInv_setv; auto. apply (R_inv wk R).
  - unfold WWf, setv. simpl. apply Forall_upd; [apply (R_wf wk R)|].
    apply (Sub_Wf (hp wk) (hp wk) (getv wk u)); [apply WWf_getv; apply (R_wf wk R)|]. auto.
  - intros u' Hu'. destruct (Nat.eq_dec u' u) as [->|Ne].
    + rewrite getv_setv_eq by auto. eapply Sub_trans; [apply (R_sub wk R u Hu)|].
      apply (Sub_heap (hp wk) h0); auto.
      intros k l H. symmetry. apply (R_heap wk R u k l Hu).
      destruct (R_sub wk R u Hu) as (_ & S2 & _). auto.
    + rewrite getv_setv_neq by auto. apply (R_sub wk R). auto.
  - intros u' k l Hu' H. simpl. eapply (R_heap wk R); eauto.
  - intros u' k k' l Hu' H1 H2. rewrite getv_setv_neq in H1 by auto.
    apply (R_disj wk R u' k k' l Hu' H1 H2).
  - rewrite getv_setv_neq by auto. apply (R_dim wk R).
  - simpl. apply (R_hlen wk R).
Qed.
Lemma Rel_write wk c h' v' l x :
  Rel wk -> at_ (hp wk) (getv wk t) c = Some (h', v', l) -> Rel (seth (setv wk t v') (hset h' l x)).
Proof.
  intros R A. pose proof (Rel_has wk R) as Hh.
  destruct (at_cells _ _ _ _ _ _ (WWf_getv wk t (R_wf wk R)) A) as (A1 & A2 & A5 & A3 & A4).
  assert (G : forall u, getv (seth (setv wk t v') (hset h' l x)) u = getv (setv wk t v') u) by (intro; auto).
  assert (NE : forall u k0 l0, u <> t -> lookup k0 (vals (getv w0 u)) = Some l0 -> l <> l0).
  { intros u k0 l0 Hu H Eq. subst l0. destruct (A3 c l A5) as [Old|Fresh].
    - apply (R_disj wk R u c k0 l Hu Old H).
    - apply orig_cell_lt in H. pose proof (R_hlen wk R). lia. }
  constructor.
  - simpl. rewrite upd_length. apply (R_len wk R).
  - apply WInv_seth, WInv_setv; [apply (R_inv wk R)|]. eapply Inv_at; [|exact A]. apply WInv_getv. apply (R_inv wk R).
  - unfold WWf, seth, setv. simpl. apply Forall_upd.
    + eapply Forall_impl; [|apply (R_wf wk R)]. intros v Hv. eapply Wf_mono; eauto.
      rewrite hset_length. auto.
    + eapply Wf_mono; eauto. rewrite hset_length. auto.
  - intros u Hu. rewrite G, getv_setv_neq by auto. apply (R_sub wk R). auto.
  - intros u k0 l0 Hu H. simpl. rewrite hget_hset_neq by (eapply NE; eauto).
    rewrite A4; [eapply (R_heap wk R); eauto|].
    apply orig_cell_lt in H. pose proof (R_hlen wk R). lia.
  - intros u k k' l1 Hu H1 H2. rewrite G, getv_setv_eq in H1 by auto.
    destruct (A3 k l1 H1) as [Old|Fresh].
    + apply (R_disj wk R u k k' l1 Hu Old H2).
    + apply orig_cell_lt in H2. pose proof (R_hlen wk R). lia.
  - rewrite G, getv_setv_eq by auto. rewrite (dim_at _ _ _ _ _ _ A). apply (R_dim wk R).
  - simpl. rewrite hset_length. pose proof (R_hlen wk R). lia.
Qed.

(* ---- cursors -------------------------------------------------------------------- *)
(* the receiver's iterator: next non-null receiver position >= lo *)
Definition RC (wk : world) (c1 : option Z) (lo : Z) : Prop := ScanF (peek (hp wk) (getv wk t)) lo c1.
(* the operand's ConstIterator: next visited operand position >= lo *)
Definition OC (c2 : citer) (lo : Z) : Prop :=
  match c2 with
  | CS u cur => o = OS u /\ ScanF opval lo cur
  | CD d p => o = OD d /\ lo <= p /\ (forall x, lo <= x < p -> opval x = 0)
  end.

Lemma OC_view wk c2 lo : Rel wk -> 0 <= lo -> OC c2 lo ->
  (ci_ok c2 = true /\ lo <= ci_index c2 < n /\ (forall x, lo <= x < ci_index c2 -> opval x = 0) /\
   ci_get wk c2 = Some (opval (ci_index c2)))
  \/ (ci_ok c2 = false /\ forall x, lo <= x -> opval x = 0).
Proof.
  intros R Hlo HC. destruct c2 as [u cur|d p]; simpl in HC.
  - destruct HC as [Eo HS]. pose proof Hne as Hne'. rewrite Eo in Hne'.
    destruct cur as [k|]; simpl in *.
    + left. destruct HS as (A & B & C). split; auto.
      assert (k < n). { destruct (Z_lt_le_dec k n); auto. exfalso. apply B. apply opval_beyond. auto. }
      split; [lia|]. split; auto.
      assert (P : peek (hp wk) (getv wk u) k = opval k).
      { rewrite Rel_peek_other by auto. apply opval_os; auto. lia. }
      destruct (peek_nz_lookup (hp wk) (getv wk u) k) as (l & L1 & L2); [rewrite P; auto|].
      rewrite L1. rewrite L2, P. auto.
    + right. auto.
  - destruct HC as (Eo & A & C). simpl.
    assert (Hn : Z.of_nat (length d) = n) by (pose proof Hop as Hop'; rewrite Eo in Hop'; auto).
    destruct (p <? Z.of_nat (length d)) eqn:E.
    + apply Z.ltb_lt in E. left. split; auto. split; [lia|]. split; auto.
      rewrite (opval_od d p Eo). auto.
    + apply Z.ltb_ge in E. right. split; auto. intros x Hx.
      destruct (Z_lt_le_dec x p); [apply C; lia|apply opval_beyond; lia].
Qed.
Lemma OC_weaken c2 lo lo' :
  OC c2 lo -> lo <= lo' -> (ci_ok c2 = true -> lo' <= ci_index c2) -> (ci_ok c2 = false -> lo' <= n) ->
  OC c2 lo'.
Proof.
  intros HC L H1 H2. destruct c2 as [u cur|d p]; simpl in *.
  - destruct HC as [Eo HS]. split; auto. eapply ScanF_weaken; eauto. destruct cur; auto.
  - destruct HC as (Eo & A & C). split; auto.
    assert (Hn : Z.of_nat (length d) = n) by (pose proof Hop as Hop'; rewrite Eo in Hop'; auto).
    split.
    + destruct (p <? Z.of_nat (length d)) eqn:E; [auto|]. apply Z.ltb_ge in E. specialize (H2 eq_refl). lia.
    + intros x Hx. apply C. lia.
Qed.

Lemma op_next wk c2 lo w2 c2' :
  Rel wk -> 0 <= lo -> OC c2 lo -> ci_ok c2 = true -> ci_next wk c2 = Some (w2, c2') ->
  Rel w2 /\ hp w2 = hp wk /\ getv w2 t = getv wk t /\ OC c2' (ci_index c2 + 1).
Proof.
  intros R Hlo HC Ok E. destruct (OC_view wk c2 lo R Hlo HC) as [(_ & I & _ & _)|(Ok' & _)]; [|congruence].
  destruct c2 as [u cur|d p].
  - destruct HC as [Eo HS]. pose proof Hne as Hne'. rewrite Eo in Hne'.
    pose proof Hop as Hop'. rewrite Eo in Hop'. destruct Hop' as [Hu _].
    destruct cur as [k|]; [|discriminate]. cbn [ci_index] in *.
    cbn [ci_next] in E. unfold it_next in E.
    destruct (skip (sfuel (getv wk u)) (hp wk) (getv wk u) (first_gt k (idx (getv wk u)))) as [[v' cur']|] eqn:SK;
      [|discriminate].
    inversion E. subst w2 c2'. clear E.
    assert (HIu : Inv (getv wk u)) by (apply WInv_getv; apply (R_inv wk R)).
    assert (HSs : sset (idx (getv wk u))) by apply HIu.
    destruct (skip_scan _ _ _ _ (k + 1) _ _ HIu (first_gt_least k _ HSs) SK) as [S1 S2].
    split; [|split; [|split; [|split]]].
    + apply Rel_other; auto. eapply Inv_skip; eauto.
    + auto.
    + apply getv_setv_neq. auto.
    + auto.
    + eapply ScanF_ext; [|exact S2]. intros x Hx. rewrite Rel_peek_other by auto. apply opval_os; auto. lia.
  - cbn [ci_next ci_index] in *. inversion E. subst w2 c2'. destruct HC as (Eo & A & C).
    split; auto. split; auto. split; auto. simpl. split; auto. split; [lia|]. intros x Hx. lia.
Qed.
Lemma op_begin wk w1 c2 :
  Rel wk -> ci_begin wk o = Some (w1, c2) ->
  Rel w1 /\ hp w1 = hp wk /\ getv w1 t = getv wk t /\ OC c2 0.
Proof.
  intros R E.
  assert (Co : (exists u, o = OS u) \/ (exists d, o = OD d)) by (destruct o; eauto).
  destruct Co as [[u Eo]|[d Eo]]; rewrite Eo in E.
  - pose proof Hne as Hne'. pose proof Hop as Hop'. rewrite Eo in Hne', Hop'. destruct Hop' as [Hu _].
    cbn [ci_begin] in E. unfold it_begin in E.
    destruct (skip (sfuel (getv wk u)) (hp wk) (getv wk u) (hd_error (idx (getv wk u)))) as [[v' cur']|] eqn:SK;
      [|discriminate].
    inversion E. subst w1 c2. clear E.
    assert (HIu : Inv (getv wk u)) by (apply WInv_getv; apply (R_inv wk R)).
    assert (HSs : sset (idx (getv wk u))) by apply HIu.
    assert (HL : Least 0 (idx (getv wk u)) (hd_error (idx (getv wk u)))).
    { apply hd_least; auto. intros x Hx. apply HIu in Hx. lia. }
    destruct (skip_scan _ _ _ _ 0 _ _ HIu HL SK) as [S1 S2].
    split; [|split; [|split; [|split]]].
    + apply Rel_other; auto. eapply Inv_skip; eauto.
    + auto.
    + apply getv_setv_neq. auto.
    + auto.
    + eapply ScanF_ext; [|exact S2]. intros x Hx. rewrite Rel_peek_other by auto. apply opval_os; auto.
  - cbn [ci_begin] in E. inversion E. subst w1 c2.
    split; auto. split; auto. split; auto. simpl. split; auto. split; [lia|]. intros x Hx. lia.
Qed.

Lemma recv_next wk k1 v' c1' :
  Rel wk -> it_next (hp wk) (getv wk t) (Some k1) = Some (v', c1') ->
  Rel (setv wk t v') /\ Sub (hp wk) (getv wk t) v' /\ ScanF (peek (hp wk) v') (k1 + 1) c1'.
Proof.
  intros R E. unfold it_next in E.
  assert (HIt : Inv (getv wk t)) by (apply WInv_getv; apply (R_inv wk R)).
  assert (HSs : sset (idx (getv wk t))) by apply HIt.
  destruct (skip_scan _ _ _ _ (k1 + 1) _ _ HIt (first_gt_least k1 _ HSs) E) as [S1 S2].
  split; [apply Rel_recv; auto; eapply Inv_skip; eauto|]. split; auto.
  eapply ScanF_ext; [|exact S2]. intros x _. symmetry. apply S1.
Qed.
Lemma recv_begin wk v' c1 :
  Rel wk -> it_begin (hp wk) (getv wk t) = Some (v', c1) ->
  Rel (setv wk t v') /\ Sub (hp wk) (getv wk t) v' /\ ScanF (peek (hp wk) v') 0 c1.
Proof.
  intros R E. unfold it_begin in E.
  assert (HIt : Inv (getv wk t)) by (apply WInv_getv; apply (R_inv wk R)).
  assert (HSs : sset (idx (getv wk t))) by apply HIt.
  assert (HL : Least 0 (idx (getv wk t)) (hd_error (idx (getv wk t)))).
  { apply hd_least; auto. intros x Hx. apply HIt in Hx. lia. }
  destruct (skip_scan _ _ _ _ 0 _ _ HIt HL E) as [S1 S2].
  split; [apply Rel_recv; auto; eapply Inv_skip; eauto|]. split; auto.
  eapply ScanF_ext; [|exact S2]. intros x _. symmetry. apply S1.
Qed.

(* ---- one step of the JOINT_ITERATOR ------------------------------------------------ *)
Definition Post (wk : world) (lo : Z) (w2 : world) (j' : joint) : Prop :=
  Rel w2 /\ (forall x, peek (hp w2) (getv w2 t) x = peek (hp wk) (getv wk t) x) /\
  if jok j' then
    lo <= jidx j' < n /\
    (forall x, lo <= x < jidx j' -> peek (hp wk) (getv wk t) x = 0 /\ opval x = 0) /\
    RC w2 (j1 j') (jidx j' + 1) /\ OC (j2 j') (jidx j' + 1) /\
    jval (js2 j') = opval (jidx j') /\
    (forall l, js1 j' = Some l -> lookup (jidx j') (vals (getv w2 t)) = Some l)
  else forall x, lo <= x -> peek (hp wk) (getv wk t) x = 0 /\ opval x = 0.

Lemma joint_next_post wk j lo w2 j' :
  Rel wk -> 0 <= lo -> RC wk (j1 j) lo -> OC (j2 j) lo ->
  joint_next wk t j = Some (w2, j') -> Post wk lo w2 j'.
Proof.
  intros R Hlo HR HC E. destruct j as [c1 c2 ji s1 s2 ok]. cbn [j1 j2] in HR, HC.
  pose proof (Rel_has wk R) as Hh.
  (* the operand alone is visited *)
  assert (OpOnly : forall c1' w2' c2',
            ci_ok c2 = true -> lo <= ci_index c2 < n ->
            (forall x, lo <= x < ci_index c2 -> opval x = 0) ->
            (forall x, lo <= x < ci_index c2 -> peek (hp wk) (getv wk t) x = 0) ->
            RC wk c1' (ci_index c2 + 1) ->
            ci_next wk c2 = Some (w2', c2') ->
            Post wk lo w2' {| j1 := c1'; j2 := c2'; jidx := ci_index c2; js1 := None;
                              js2 := Some (opval (ci_index c2)); jok := true |}).
  { intros c1' w2' c2' Ok I Cz Pz HR' N.
    destruct (op_next wk c2 lo w2' c2' R Hlo HC Ok N) as (R2 & Eh & Eg & HC2).
    unfold Post. cbn [j1 j2 jidx js1 js2 jok jval]. split; auto. split; [intro x; rewrite Eh, Eg; auto|].
    split; auto. split; [intros x Hx; split; auto|].
    split; [unfold RC in *; rewrite Eh, Eg; auto|]. split; auto. split; auto. intros l Hl. discriminate. }
  (* the receiver alone is visited *)
  assert (RecvOnly : forall k1 l1 v' c1',
            c1 = Some k1 -> lookup k1 (vals (getv wk t)) = Some l1 -> k1 < n ->
            (forall x, lo <= x <= k1 -> opval x = 0) -> OC c2 (k1 + 1) ->
            it_next (hp wk) (getv wk t) (Some k1) = Some (v', c1') ->
            Post wk lo (setv wk t v') {| j1 := c1'; j2 := c2; jidx := k1; js1 := Some l1;
                                         js2 := None; jok := true |}).
  { intros k1 l1 v' c1' Ec L1 Kn Oz HC' N. subst c1. destruct HR as (A1 & B1 & C1).
    destruct (recv_next wk k1 v' c1' R N) as (R2 & (S1 & S2 & S3) & HS).
    assert (Eh : hp (setv wk t v') = hp wk) by reflexivity.
    unfold Post, RC. cbn [j1 j2 jidx js1 js2 jok jval]. rewrite Eh, getv_setv_eq by auto.
    split; auto. split; auto. split; [lia|]. split.
    { intros x Hx. split; [apply C1; auto|apply Oz; lia]. }
    split; auto. split; auto. split; [symmetry; apply Oz; lia|].
    intros l Hl. inversion Hl. subst l.
    destruct (peek_nz_lookup (hp wk) v' k1) as (l2 & La & _); [rewrite S3; auto|].
    pose proof (S2 k1 l2 La) as Lb. rewrite L1 in Lb. inversion Lb. subst l2. auto. }
  (* both are visited *)
  assert (Both : forall k1 l1 v' c1' w2' c2',
            c1 = Some k1 -> lookup k1 (vals (getv wk t)) = Some l1 -> k1 < n ->
            ci_ok c2 = true -> ci_index c2 = k1 ->
            (forall x, lo <= x < k1 -> opval x = 0) ->
            it_next (hp wk) (getv wk t) (Some k1) = Some (v', c1') ->
            ci_next (setv wk t v') c2 = Some (w2', c2') ->
            Post wk lo w2' {| j1 := c1'; j2 := c2'; jidx := k1; js1 := Some l1;
                              js2 := Some (opval k1); jok := true |}).
  { intros k1 l1 v' c1' w2' c2' Ec L1 Kn Ok Ei Cz N1 N2. subst c1. destruct HR as (A1 & B1 & C1).
    destruct (recv_next wk k1 v' c1' R N1) as (R1 & (S1 & S2 & S3) & HS).
    destruct (op_next (setv wk t v') c2 lo w2' c2' R1 Hlo HC Ok N2) as (R2 & Eh & Eg & HC2).
    assert (Eh1 : hp (setv wk t v') = hp wk) by reflexivity.
    rewrite Eh1 in Eh. rewrite getv_setv_eq in Eg by auto. rewrite Ei in HC2.
    unfold Post, RC. cbn [j1 j2 jidx js1 js2 jok jval]. rewrite Eh, Eg.
    split; auto. split; auto. split; [lia|]. split.
    { intros x Hx. split; [apply C1; auto|apply Cz; lia]. }
    split; auto. split; auto. split; auto.
    intros l Hl. inversion Hl. subst l.
    destruct (peek_nz_lookup (hp wk) v' k1) as (l2 & La & _); [rewrite S3; auto|].
    pose proof (S2 k1 l2 La) as Lb. rewrite L1 in Lb. inversion Lb. subst l2. auto. }
  destruct c1 as [k1|].
  - pose proof HR as (A1 & B1 & C1).
    destruct (peek_nz_lookup _ _ _ B1) as (l1 & L1 & _).
    assert (Kn : k1 < n).
    { pose proof (WInv_getv wk t (R_inv wk R)) as HIt. inv_split HIt.
      rewrite <- (R_dim wk R). apply Hr. eauto. }
    unfold joint_next in E. cbn [j1 j2 jidx js1 js2 jok] in E. rewrite L1 in E.
    destruct (OC_view wk c2 lo R Hlo HC) as [(Ok & I & Cz & G)|(Ok & Cz)]; rewrite Ok in E.
    + cbn [negb] in E. rewrite orb_false_r in E.
      destruct (ci_index c2 <? k1) eqn:E1.
      * apply Z.ltb_lt in E1. rewrite G in E. cbv beta iota zeta in E.
        destruct (ci_next wk c2) as [[w2' c2']|] eqn:N; [|discriminate].
        inversion E. subst w2 j'. apply OpOnly; auto.
        -- intros x Hx. apply C1. lia.
        -- unfold RC. eapply ScanF_weaken; [exact HR|lia|simpl; lia].
      * apply Z.ltb_ge in E1. destruct (k1 =? ci_index c2) eqn:E2.
        -- apply Z.eqb_eq in E2. rewrite G in E. cbv beta iota zeta in E.
           destruct (it_next (hp wk) (getv wk t) (Some k1)) as [[v' c1']|] eqn:N1; [|discriminate].
           destruct (ci_next (setv wk t v') c2) as [[w2' c2']|] eqn:N2; [|discriminate].
           inversion E. subst w2 j'. rewrite <- E2. eapply Both; eauto.
           intros x Hx. apply Cz. lia.
        -- apply Z.eqb_neq in E2. cbv beta iota zeta in E.
           destruct (it_next (hp wk) (getv wk t) (Some k1)) as [[v' c1']|] eqn:N1; [|discriminate].
           inversion E. subst w2 j'. eapply RecvOnly; eauto.
           ++ intros x Hx. apply Cz. lia.
           ++ eapply OC_weaken; eauto; [lia|lia|congruence].
    + cbv beta iota zeta in E.
      destruct (it_next (hp wk) (getv wk t) (Some k1)) as [[v' c1']|] eqn:N1; [|discriminate].
      inversion E. subst w2 j'. eapply RecvOnly; eauto.
      * intros x Hx. apply Cz. lia.
      * eapply OC_weaken; eauto; [lia|congruence|lia].
  - unfold joint_next in E. cbn [j1 j2 jidx js1 js2 jok] in E.
    destruct (OC_view wk c2 lo R Hlo HC) as [(Ok & I & Cz & G)|(Ok & Cz)]; rewrite Ok in E.
    + cbn [negb] in E. rewrite orb_true_r in E. rewrite G in E. cbv beta iota zeta in E.
      destruct (ci_next wk c2) as [[w2' c2']|] eqn:N; [|discriminate].
      inversion E. subst w2 j'. apply OpOnly; auto.
      * intros x Hx. apply HR. lia.
      * unfold RC. eapply ScanF_weaken; [exact HR|lia|simpl; auto].
    + cbv beta iota zeta in E. inversion E. subst w2 j'.
      unfold Post. cbn [jok]. split; [auto|]. split; [auto|].
      intros x Hx. split; [apply HR; auto|apply Cz; auto].
Qed.

(* ---- the loop ------------------------------------------------------------------------ *)
(* at the head of the loop: positions below the one being visited already read like the
   operand; the cursors are beyond it; js1/js2 describe it *)
Definition Head (wk : world) (j : joint) : Prop :=
  if jok j then
    0 <= jidx j < n /\
    (forall x, 0 <= x < jidx j -> peek (hp wk) (getv wk t) x = opval x) /\
    RC wk (j1 j) (jidx j + 1) /\ OC (j2 j) (jidx j + 1) /\
    jval (js2 j) = opval (jidx j) /\
    (forall l, js1 j = Some l -> lookup (jidx j) (vals (getv wk t)) = Some l)
  else forall x, 0 <= x -> peek (hp wk) (getv wk t) x = opval x.

Lemma Post_Head wk lo w2 j' :
  0 <= lo -> (forall x, 0 <= x < lo -> peek (hp wk) (getv wk t) x = opval x) ->
  Post wk lo w2 j' -> Rel w2 /\ Head w2 j'.
Proof.
  intros Hlo Pz (R2 & Pe & P). split; auto. unfold Head. destruct (jok j').
  - destruct P as (I & Bz & HR & HC & Jv & Js). split; [lia|]. split; auto.
    intros x Hx. rewrite Pe. destruct (Z_lt_le_dec x lo); [apply Pz; lia|].
    destruct (Bz x) as [B1 B2]; [lia|]. congruence.
  - intros x Hx. rewrite Pe. destruct (Z_lt_le_dec x lo); [apply Pz; lia|].
    destruct (P x) as [B1 B2]; [lia|]. congruence.
Qed.

Lemma set_loop_ok f : forall wk j w' b,
  Rel wk -> Head wk j -> set_loop f wk t j = Some (w', b) ->
  b = true /\ Rel w' /\ forall x, 0 <= x -> peek (hp w') (getv w' t) x = opval x.
Proof.
  induction f as [|f IH]; intros wk j w' b R H E; simpl in E; unfold Head in H;
    destruct (jok j) eqn:Ok.
  - discriminate.
  - inversion E. subst w' b. auto.
  - destruct H as (I & Pz & HR & HC & Jv & Js).
    pose proof (Rel_has wk R) as Hh.
    assert (Cont : forall h' v' l,
              at_ (hp wk) (getv wk t) (jidx j) = Some (h', v', l) ->
              forall w2 j', joint_next (seth (setv wk t v') (hset h' l (jval (js2 j)))) t j = Some (w2, j') ->
              set_loop f w2 t j' = Some (w', b) ->
              b = true /\ Rel w' /\ forall x, 0 <= x -> peek (hp w') (getv w' t) x = opval x).
    { intros h' v' l A w2 j' N E2.
      set (w1 := seth (setv wk t v') (hset h' l (jval (js2 j)))) in *.
      assert (R1 : Rel w1) by (apply Rel_write with (c := jidx j); auto).
      assert (G1 : getv w1 t = v') by (unfold w1; change (getv (setv wk t v') t = v'); apply getv_setv_eq; auto).
      assert (H1 : hp w1 = hset h' l (jval (js2 j))) by reflexivity.
      assert (PK : forall x, peek (hp w1) (getv w1 t) x =
                             if x =? jidx j then jval (js2 j) else peek (hp wk) (getv wk t) x).
      { intro x. rewrite G1, H1. eapply peek_set_at; eauto.
        - apply WInv_getv. apply (R_inv wk R).
        - apply WWf_getv. apply (R_wf wk R). }
      assert (P1 : Post w1 (jidx j + 1) w2 j').
      { apply (joint_next_post w1 j (jidx j + 1) w2 j'); auto; [lia|].
        unfold RC in *. eapply ScanF_ext; [|exact HR]. intros x Hx. rewrite PK.
        destruct (x =? jidx j) eqn:E0; auto. apply Z.eqb_eq in E0. lia. }
      destruct (Post_Head w1 (jidx j + 1) w2 j') as [R2 H2]; auto; [lia| |].
      { intros x Hx. rewrite PK. destruct (x =? jidx j) eqn:E0.
        - apply Z.eqb_eq in E0. subst x. auto.
        - apply Z.eqb_neq in E0. apply Pz. lia. }
      eapply IH; eauto. }
    destruct (js1 j) as [l0|] eqn:J1.
    + pose proof (Js l0 eq_refl) as L0.
      assert (A : at_ (hp wk) (getv wk t) (jidx j) = Some (hp wk, getv wk t, l0)).
      { unfold at_, in_bounds. rewrite (R_dim wk R).
        replace ((0 <=? jidx j) && (jidx j <? n)) with true
          by (symmetry; apply andb_true_iff; split; [apply Z.leb_le|apply Z.ltb_lt]; lia).
        rewrite L0. auto. }
      destruct (joint_next (seth wk (hset (hp wk) l0 (jval (js2 j)))) t j) as [[w2 j']|] eqn:N; [|discriminate].
      apply (Cont _ _ _ A w2 j'); auto. rewrite setv_same. auto.
    + destruct (at_in_range_ok (hp wk) (getv wk t) (jidx j)) as (h' & v' & l & A).
      { unfold idx_ok. rewrite (R_dim wk R). auto. }
      rewrite A in E.
      destruct (joint_next (seth (setv wk t v') (hset h' l (jval (js2 j)))) t j) as [[w2 j']|] eqn:N; [|discriminate].
      apply (Cont _ _ _ A w2 j'); auto.
  - inversion E. subst w' b. auto.
Qed.

Lemma set_begin_loop w' b :
  match joint_begin w0 t o with
  | None => None
  | Some (w1, j) => set_loop (jfuel w0 t o) w1 t j end = Some (w', b) ->
  b = true /\ Rel w' /\ forall x, 0 <= x -> peek (hp w') (getv w' t) x = opval x.
Proof.
  unfold joint_begin.
  destruct (it_begin h0 (getv w0 t)) as [[v' c1]|] eqn:B1; [|discriminate].
  destruct (recv_begin w0 v' c1 Rel_init B1) as (R1 & S1 & HS).
  destruct (ci_begin (setv w0 t v') o) as [[w1 c2]|] eqn:B2; [|discriminate].
  destruct (op_begin (setv w0 t v') w1 c2 R1 B2) as (R2 & Eh & Eg & HC).
  assert (Eh1 : hp (setv w0 t v') = h0) by reflexivity. rewrite Eh1 in Eh.
  rewrite getv_setv_eq in Eg by auto.
  destruct (joint_next w1 t _) as [[w2 j]|] eqn:N; [|discriminate].
  intro E.
  assert (P : Post w1 0 w2 j).
  { refine (joint_next_post w1 _ 0 w2 j R2 (Z.le_refl 0) _ _ N).
    - cbn [j1]. unfold RC. rewrite Eh, Eg. auto.
    - cbn [j2]. exact HC. }
  destruct (Post_Head w1 0 w2 j) as [R3 H3]; auto; [lia| |].
  { intros x Hx. lia. }
  eapply set_loop_ok; eauto.
Qed.

Lemma Rel_final w' :
  Rel w' -> (forall x, 0 <= x -> peek (hp w') (getv w' t) x = opval x) ->
  absw w' = upd t (doperand (absw w0) o) (absw w0) /\ WWf w' /\ length (vecs w') = length (vecs w0).
Proof.
  intros R P. split; [|split; [apply (R_wf w' R)|apply (R_len w' R)]].
  apply (list_ext (@nil Z)).
  - rewrite upd_length. unfold absw. rewrite !map_length. apply (R_len w' R).
  - intros i Hi. unfold absw in Hi. rewrite map_length, (R_len w' R) in Hi.
    change (nth i (absw w') []) with (dget (absw w') i). rewrite dget_absw.
    destruct (Nat.eq_dec i t) as [->|Ne].
    + rewrite nth_upd_eq by (unfold absw; rewrite map_length; auto).
      apply (list_ext 0).
      * pose proof (abs_length (hp w') (getv w' t)) as L1. rewrite (R_dim w' R) in L1.
        specialize (L1 n_nonneg). pose proof D_length. lia.
      * intros k Hk.
        pose proof (abs_length (hp w') (getv w' t)) as L1. rewrite (R_dim w' R) in L1.
        specialize (L1 n_nonneg).
        rewrite <- (Nat2Z.id k). rewrite abs_nth by (rewrite (R_dim w' R); lia).
        rewrite P by lia. unfold opval. auto.
    + rewrite nth_upd_neq by auto.
      change (nth i (absw w0) []) with (dget (absw w0) i). rewrite dget_absw.
      destruct (R_sub w' R i Ne) as (S1 & _ & _).
      unfold abs, abs_vec. rewrite S1. apply map_ext. intro x. apply Rel_peek_other; auto.
Qed.
End SetV.

(* ---- the statement ---------------------------------------------------------------------- *)
Lemma set_vec_refines w t o w' b :
  WInv w -> WWf w -> has w t -> operand_ok w (dim (getv w t)) o -> unshared w t ->
  set_vec w t o = Some (w', b) ->
  b = true /\ absw w' = upd t (doperand (absw w) o) (absw w) /\ WWf w' /\ length (vecs w') = length (vecs w).
Proof.
  intros HI HW Ht Hop Hun E. unfold set_vec in E. destruct o as [u|d].
  - destruct (Nat.eqb t u) eqn:Etu.
    + apply Nat.eqb_eq in Etu. subst u. inversion E. subst w' b. split; auto. split; auto.
      simpl. unfold dget. symmetry. apply upd_nth_same.
    + apply Nat.eqb_neq in Etu. simpl in Hop. destruct Hop as [Hu Hd].
      rewrite Hd, Z.eqb_refl in E. simpl in E.
      assert (Hne : match OS u with OS u0 => u0 <> t | OD _ => True end) by auto.
      destruct (set_begin_loop w t (OS u) HI HW Ht (conj Hu Hd) Hun Hne w' b E) as (Eb & R & P).
      split; auto. eapply Rel_final; eauto. exact (conj Hu Hd).
  - simpl in Hop. rewrite Hop, Z.eqb_refl in E. simpl in E.
    destruct (set_begin_loop w t (OD d) HI HW Ht Hop Hun I w' b E) as (Eb & R & P).
    split; auto. eapply Rel_final; eauto.
Qed.

(* ============================================================================ *)
(* ---- totality: the fuel jfuel never runs out -------------------------------------------- *)
Definition cnt (k : Z) (l : list Z) : nat := length (filter (fun x => k <=? x) l).
(* keys still ahead of an index cursor (the cursor's own key included) *)
Definition rem (l : list Z) (cur : option Z) : nat := match cur with Some k => cnt k l | None => O end.

Lemma cnt_le_length k l : (cnt k l <= length l)%nat.
Proof. unfold cnt. induction l as [|x r IH]; simpl; auto. destruct (k <=? x); simpl; lia. Qed.
Lemma cnt_mono a b l : a <= b -> (cnt b l <= cnt a l)%nat.
Proof.
  intro H. unfold cnt. induction l as [|x r IH]; simpl; auto.
  destruct (b <=? x) eqn:E1; destruct (a <=? x) eqn:E2; simpl; try lia;
    apply Z.leb_le in E1; apply Z.leb_gt in E2; lia.
Qed.
Lemma cnt_kdel_le a k l : (cnt a (kdel k l) <= cnt a l)%nat.
Proof.
  unfold cnt. induction l as [|x r IH]; simpl; auto.
  destruct (x =? k); simpl; destruct (a <=? x); simpl; lia.
Qed.
Lemma cnt_strict k l : In k l -> (cnt (k + 1) l + 1 <= cnt k l)%nat.
Proof.
  unfold cnt. induction l as [|x r IH]; simpl; [tauto|]. intros [->|H].
  - replace (k + 1 <=? k) with false by (symmetry; apply Z.leb_gt; lia). rewrite Z.leb_refl. simpl.
    pose proof (cnt_mono k (k + 1) r). unfold cnt in *. lia.
  - specialize (IH H). destruct (k + 1 <=? x) eqn:E1; destruct (k <=? x) eqn:E2; simpl; try lia;
      apply Z.leb_le in E1; apply Z.leb_gt in E2; lia.
Qed.
Lemma cnt_kins c k l : c < k -> cnt k (kins c l) = cnt k l.
Proof.
  intro H. unfold cnt. induction l as [|x r IH]; simpl.
  - replace (k <=? c) with false by (symmetry; apply Z.leb_gt; lia). auto.
  - destruct (c <? x) eqn:E1.
    + simpl. replace (k <=? c) with false by (symmetry; apply Z.leb_gt; lia). auto.
    + destruct (x <? c) eqn:E2; simpl; auto. destruct (k <=? x); simpl; auto.
Qed.
Lemma kins_same c l : sset l -> In c l -> kins c l = l.
Proof.
  induction l as [|x r IH]; simpl; intros Hs Hin; [tauto|].
  apply sset_cons in Hs. destruct Hs as [Hs Hf]. rewrite Forall_forall in Hf.
  destruct (c <? x) eqn:E1.
  - apply Z.ltb_lt in E1. destruct Hin as [->|Hin]; [lia|]. apply Hf in Hin. lia.
  - destruct (x <? c) eqn:E2; auto. apply Z.ltb_lt in E2.
    destruct Hin as [->|Hin]; [lia|]. rewrite IH; auto.
Qed.
Lemma rem_first_gt k l : In k l -> (rem l (first_gt k l) + 1 <= cnt k l)%nat.
Proof.
  intro H. pose proof (cnt_strict k l H) as S. destruct (first_gt k l) as [k'|] eqn:E; simpl; [|lia].
  apply first_gt_In in E. pose proof (cnt_mono (k + 1) k' l). lia.
Qed.

Lemma skip_tot f : forall h v cur b,
  Inv v -> (forall k, cur = Some k -> In k (idx v) /\ b < k) -> (rem (idx v) cur <= f)%nat ->
  exists v' c', skip f h v cur = Some (v', c') /\ (rem (idx v') c' <= rem (idx v) cur)%nat /\
                (forall k, c' = Some k -> In k (idx v') /\ b < k).
Proof.
  induction f as [|f IH]; intros h v cur b HI HC HF.
  - destruct cur as [k|]; simpl.
    + destruct (HC k eq_refl) as [Hin Hb]. pose proof (cnt_strict k (idx v) Hin). simpl in HF. lia.
    + exists v, None. split; [auto|]. split; [auto|]. intros k H. discriminate.
  - destruct cur as [k|]; simpl.
    + destruct (HC k eq_refl) as [Hin Hb]. destruct (isnull h v k) eqn:N.
      * assert (Hs : sset (idx v)) by apply HI.
        pose proof (rem_first_gt k (idx v) Hin) as RG.
        destruct (IH h (del_entry k v) (first_gt k (idx v)) b) as (v' & c' & A & B & C).
        -- apply Inv_del; auto.
        -- intros k' E. apply first_gt_In in E. destruct E as [E1 E2]. split; [|lia].
           unfold del_entry. cbn [idx]. apply kdel_In; auto. split; auto. lia.
        -- unfold del_entry. cbn [idx]. simpl in HF.
           destruct (first_gt k (idx v)) as [k'|]; simpl in *; [|lia].
           pose proof (cnt_kdel_le k' k (idx v)). lia.
        -- exists v', c'. split; [auto|]. split; [|auto]. unfold del_entry in B. cbn [idx] in B. simpl.
           destruct (first_gt k (idx v)) as [k'|]; simpl in *; [|lia].
           pose proof (cnt_kdel_le k' k (idx v)). lia.
      * exists v, (Some k). split; [auto|]. split; [auto|]. intros k' E. inversion E. subst k'. auto.
    + exists v, None. split; [auto|]. split; [auto|]. intros k H. discriminate.
Qed.

Lemma it_next_tot h v k :
  Inv v -> In k (idx v) ->
  exists v' c', it_next h v (Some k) = Some (v', c') /\ Inv v' /\
                (rem (idx v') c' + 1 <= cnt k (idx v))%nat /\
                (forall k', c' = Some k' -> In k' (idx v') /\ k < k').
Proof.
  intros HI Hin. unfold it_next.
  pose proof (rem_first_gt k (idx v) Hin) as RG. pose proof (cnt_le_length k (idx v)) as CL.
  destruct (skip_tot (sfuel v) h v (first_gt k (idx v)) k HI) as (v' & c' & A & B & C).
  - intros k' E. apply first_gt_In in E. tauto.
  - unfold sfuel. lia.
  - exists v', c'. split; auto. split; [eapply Inv_skip; eauto|]. split; [lia|auto].
Qed.
Lemma it_begin_tot h v :
  Inv v ->
  exists v' c', it_begin h v = Some (v', c') /\ Inv v' /\
                (rem (idx v') c' <= length (idx v))%nat /\
                (forall k', c' = Some k' -> In k' (idx v')).
Proof.
  intros HI. unfold it_begin.
  assert (RL : (rem (idx v) (hd_error (idx v)) <= length (idx v))%nat).
  { destruct (idx v) as [|y r]; simpl; auto. apply (cnt_le_length y (y :: r)). }
  destruct (skip_tot (sfuel v) h v (hd_error (idx v)) (match idx v with [] => 0 | y :: _ => y - 1 end) HI)
    as (v' & c' & A & B & C).
  - intros k' E. destruct (idx v) as [|y r]; simpl in *; [discriminate|]. inversion E. subst. split; auto. lia.
  - unfold sfuel. lia.
  - exists v', c'. split; auto. split; [eapply Inv_skip; eauto|]. split; [lia|].
    intros k' E. apply C in E. tauto.
Qed.

(* visits still ahead of the operand's ConstIterator *)
Definition orem (w : world) (c2 : citer) : nat :=
  match c2 with
  | CS u cur => rem (idx (getv w u)) cur
  | CD d p => Z.to_nat (Z.of_nat (length d) - p)
  end.
Definition Vop (w : world) (t : nat) (c2 : citer) : Prop :=
  match c2 with
  | CS u cur => u <> t /\ has w u /\ (forall k, cur = Some k -> In k (idx (getv w u)))
  | CD _ _ => True
  end.
Definition Mj (w : world) (t : nat) (j : joint) : nat := (rem (idx (getv w t)) (j1 j) + orem w (j2 j))%nat.

Lemma has_setv w t u v : has w t -> has (setv w u v) t.
Proof. unfold has, setv. simpl. rewrite upd_length. auto. Qed.
Lemma Vop_setv_t w t c2 v : Vop w t c2 -> Vop (setv w t v) t c2 /\ orem (setv w t v) c2 = orem w c2.
Proof.
  destruct c2 as [u cur|d p]; simpl; auto. intros (A & B & C).
  rewrite getv_setv_neq by auto. split; auto. split; auto. split; auto. apply has_setv. auto.
Qed.
Lemma Vop_seth w t c2 h : Vop w t c2 -> Vop (seth w h) t c2 /\ orem (seth w h) c2 = orem w c2.
Proof. destruct c2 as [u cur|d p]; simpl; auto. Qed.

Lemma ci_next_tot w t c2 :
  WInv w -> Vop w t c2 -> ci_ok c2 = true ->
  exists w2 c2', ci_next w c2 = Some (w2, c2') /\ WInv w2 /\ Vop w2 t c2' /\
                 (orem w2 c2' + 1 <= orem w c2)%nat /\ getv w2 t = getv w t /\ hp w2 = hp w /\
                 (has w t -> has w2 t).
Proof.
  intros HI HV Ok. destruct c2 as [u cur|d p].
  - destruct HV as (A & B & C). destruct cur as [k|]; [|discriminate].
    cbn [ci_next].
    destruct (it_next_tot (hp w) (getv w u) k (WInv_getv w u HI) (C k eq_refl)) as (v' & c' & N & I' & Rm & Cu).
    rewrite N. exists (setv w u v'), (CS u c'). split; auto. split; [apply WInv_setv; auto|].
    cbn [Vop orem]. rewrite getv_setv_eq by auto. split.
    { split; auto. split; [apply has_setv; auto|]. intros k' E. apply Cu in E. tauto. }
    split; [simpl; lia|]. split; [apply getv_setv_neq; auto|]. split; auto. apply has_setv.
  - cbn [ci_next]. exists w, (CD d (p + 1)). simpl in *. apply Z.ltb_lt in Ok.
    split; auto. split; auto. split; auto. split; [lia|]. auto.
Qed.
Lemma ci_begin_tot w t o :
  WInv w -> match o with OS u => u <> t /\ has w u | OD _ => True end ->
  exists w1 c2, ci_begin w o = Some (w1, c2) /\ WInv w1 /\ Vop w1 t c2 /\
                (orem w1 c2 <= op_len w o)%nat /\ getv w1 t = getv w t /\ hp w1 = hp w /\
                (has w t -> has w1 t).
Proof.
  intros HI Ho. destruct o as [u|d].
  - destruct Ho as [A B]. cbn [ci_begin].
    destruct (it_begin_tot (hp w) (getv w u) (WInv_getv w u HI)) as (v' & c' & N & I' & Rm & Cu).
    rewrite N. exists (setv w u v'), (CS u c'). split; auto. split; [apply WInv_setv; auto|].
    cbn [Vop orem op_len]. rewrite getv_setv_eq by auto. split.
    { split; auto. split; [apply has_setv; auto|]. auto. }
    split; [lia|]. split; [apply getv_setv_neq; auto|]. split; auto. apply has_setv.
  - cbn [ci_begin]. exists w, (CD d 0). simpl. split; auto. split; auto. split; auto. split; [lia|]. auto.
Qed.

(* Next() never runs out of fuel, and every visit consumes a key of one of the two cursors *)
Lemma jn_rest w t c1 c2 i1 (s1' : option loc) (s2' : option Z) :
  WInv w -> has w t -> (forall k, c1 = Some k -> In k (idx (getv w t))) -> Vop w t c2 ->
  (s1' <> None -> c1 = Some i1) -> (s2' <> None -> ci_ok c2 = true) ->
  (forall k1, c1 = Some k1 -> i1 <= k1) ->
  exists w2 j',
    match (match s1' with
           | Some _ => match it_next (hp w) (getv w t) c1 with
                       | Some (v', c') => Some (setv w t v', c')
                       | None => None end
           | None => Some (w, c1) end) with
    | None => None
    | Some (w1, c1') =>
        match (match s2' with Some _ => ci_next w1 c2 | None => Some (w1, c2) end) with
        | None => None
        | Some (w2, c2') =>
            Some (w2, {| j1 := c1'; j2 := c2'; jidx := i1; js1 := s1'; js2 := s2';
                         jok := match s1', s2' with None, None => false | _, _ => true end |})
        end
    end = Some (w2, j') /\
    WInv w2 /\ has w2 t /\
    (forall k, j1 j' = Some k -> In k (idx (getv w2 t)) /\ jidx j' <= k) /\
    Vop w2 t (j2 j') /\
    (jok j' = true ->
     (rem (idx (getv w2 t)) (j1 j') + orem w2 (j2 j') + 1 <= rem (idx (getv w t)) c1 + orem w c2)%nat).
Proof.
  intros HI Hh HC HV F1 F2 F3.
  (* first the receiver's iterator ... *)
  assert (S1 : exists wa c1',
            (match s1' with
             | Some _ => match it_next (hp w) (getv w t) c1 with
                         | Some (v', c') => Some (setv w t v', c')
                         | None => None end
             | None => Some (w, c1) end) = Some (wa, c1') /\
            WInv wa /\ has wa t /\ hp wa = hp w /\
            (forall k, c1' = Some k -> In k (idx (getv wa t)) /\ i1 <= k) /\
            Vop wa t c2 /\ orem wa c2 = orem w c2 /\
            (rem (idx (getv wa t)) c1' + (match s1' with Some _ => 1 | None => 0 end)
             <= rem (idx (getv w t)) c1)%nat).
  { destruct s1' as [l|].
    - assert (E1 : c1 = Some i1) by (apply F1; congruence). subst c1.
      destruct (it_next_tot (hp w) (getv w t) i1 (WInv_getv w t HI) (HC i1 eq_refl))
        as (v' & c' & N & I' & Rm & Cu).
      rewrite N. exists (setv w t v'), c'. split; [auto|]. split; [apply WInv_setv; auto|].
      split; [apply has_setv; auto|]. split; [auto|]. rewrite getv_setv_eq by auto.
      split; [intros k E; apply Cu in E; split; [tauto|lia]|].
      destruct (Vop_setv_t w t c2 v' HV) as [V1 V2]. split; [exact V1|]. split; [exact V2|]. simpl. lia.
    - exists w, c1. split; [auto|]. split; [auto|]. split; [auto|]. split; [auto|].
      split; [intros k E; split; auto|]. split; [auto|]. split; [auto|]. lia. }
  destruct S1 as (wa & c1' & E1 & Ia & Ha & Hpa & Ca & Va & Oa & Ra). rewrite E1.
  (* ... then the operand's *)
  destruct s2' as [x|].
  - destruct (ci_next_tot wa t c2 Ia Va) as (w2 & c2' & N2 & I2 & V2 & O2 & G2 & H2 & Hh2);
      [apply F2; congruence|].
    rewrite N2. eexists. eexists. split; [reflexivity|]. cbn [j1 j2 jidx js1 js2 jok].
    split; [auto|]. split; [auto|]. rewrite G2. split; [auto|]. split; [auto|]. intros _. lia.
  - eexists. eexists. split; [reflexivity|]. cbn [j1 j2 jidx js1 js2 jok].
    split; [auto|]. split; [auto|]. split; [auto|]. split; [auto|].
    destruct s1' as [l|]; [intros _; lia|discriminate].
Qed.
Lemma jn_tot w t j :
  WInv w -> has w t -> (forall k, j1 j = Some k -> In k (idx (getv w t))) -> Vop w t (j2 j) ->
  exists w2 j', joint_next w t j = Some (w2, j') /\ WInv w2 /\ has w2 t /\
                (forall k, j1 j' = Some k -> In k (idx (getv w2 t)) /\ jidx j' <= k) /\
                Vop w2 t (j2 j') /\
                (jok j' = true -> (Mj w2 t j' + 1 <= Mj w t j)%nat).
Proof.
  intros HI Hh HC HV. destruct j as [c1 c2 ji s1 s2 ok]. cbn [j1 j2] in HC, HV.
  unfold joint_next, Mj. cbn [j1 j2 jidx js1 js2 jok].
  destruct c1 as [k1|].
  - destruct (ci_ok c2) eqn:Ok.
    + cbn [negb]. rewrite orb_false_r. destruct (ci_index c2 <? k1) eqn:E1.
      * apply Z.ltb_lt in E1.
        apply (jn_rest w t (Some k1) c2 (ci_index c2) None (ci_get w c2)); auto; try congruence;
          try (intros k E; inversion E; lia).
      * destruct (k1 =? ci_index c2).
        -- apply (jn_rest w t (Some k1) c2 k1 (lookup k1 (vals (getv w t))) (ci_get w c2));
             auto; try congruence; try (intros k E; inversion E; lia).
        -- apply (jn_rest w t (Some k1) c2 k1 (lookup k1 (vals (getv w t))) None);
             auto; try congruence; try (intros k E; inversion E; lia).
    + apply (jn_rest w t (Some k1) c2 k1 (lookup k1 (vals (getv w t))) None); auto; try congruence;
        try (intros k E; inversion E; lia).
  - destruct (ci_ok c2) eqn:Ok.
    + cbn [negb]. rewrite orb_true_r.
      apply (jn_rest w t None c2 (ci_index c2) None (ci_get w c2)); auto; congruence.
    + apply (jn_rest w t None c2 ji None None); auto; congruence.
Qed.

Lemma set_loop_tot t f : forall w j,
  WInv w -> has w t -> (forall k, j1 j = Some k -> In k (idx (getv w t)) /\ jidx j <= k) ->
  Vop w t (j2 j) -> (jok j = true -> (Mj w t j + 1 <= f)%nat) ->
  exists w' b, set_loop f w t j = Some (w', b).
Proof.
  induction f as [|f IH]; intros w j HI Hh HC HV HF; simpl; destruct (jok j) eqn:Ok; eauto.
  - specialize (HF eq_refl). lia.
  - specialize (HF eq_refl).
    (* the world after the write: same cursors' keys ahead *)
    assert (W : forall w1,
              WInv w1 -> has w1 t -> (forall k, j1 j = Some k -> In k (idx (getv w1 t))) ->
              Vop w1 t (j2 j) -> Mj w1 t j = Mj w t j ->
              exists w' b, match joint_next w1 t j with
                           | None => None
                           | Some (w2, j') => set_loop f w2 t j' end = Some (w', b)).
    { intros w1 I1 H1 C1 V1 M1.
      destruct (jn_tot w1 t j I1 H1 C1 V1) as (w2 & j' & N & I2 & H2 & C2 & V2 & M2).
      rewrite N. apply IH; auto. intro Ok'. specialize (M2 Ok'). lia. }
    destruct (js1 j) as [l|].
    + apply W; [exact HI | exact Hh | intros k E; apply HC in E; tauto | exact HV | reflexivity].
    + destruct (at_ (hp w) (getv w t) (jidx j)) as [[[h' v'] l]|] eqn:A; [|eauto].
      assert (HIt : Inv (getv w t)) by (apply WInv_getv; auto).
      assert (Ix : idx v' = idx (getv w t) \/ idx v' = kins (jidx j) (idx (getv w t))).
      { unfold at_ in A. destruct (in_bounds (getv w t) (jidx j)); [|discriminate].
        destruct (lookup (jidx j) (vals (getv w t))).
        - inversion A. subst. auto.
        - unfold halloc in A. inversion A. subst. auto. }
      assert (G1 : getv (seth (setv w t v') (hset h' l (jval (js2 j)))) t = v').
      { change (getv (setv w t v') t = v'). apply getv_setv_eq. auto. }
      destruct (Vop_setv_t w t (j2 j) v' HV) as [Va Oa].
      destruct (Vop_seth (setv w t v') t (j2 j) (hset h' l (jval (js2 j))) Va) as [Vb Ob].
      apply W.
      * apply WInv_seth, WInv_setv; auto. eapply Inv_at; eauto.
      * apply (has_setv w t t v'). auto.
      * intros k E. rewrite G1. apply HC in E. destruct E as [E _].
        destruct Ix as [->| ->]; auto. apply kins_In. auto.
      * auto.
      * unfold Mj. rewrite G1, Ob, Oa. f_equal.
        destruct (j1 j) as [k|] eqn:J1; simpl; auto.
        destruct (HC k eq_refl) as [Hin Hle].
        destruct Ix as [->| ->]; auto.
        destruct (Z.eq_dec (jidx j) k) as [Eq|Ne].
        -- rewrite kins_same; auto. apply HIt. rewrite Eq. auto.
        -- apply cnt_kins. lia.
Qed.

Lemma set_vec_total w t o :
  WInv w -> has w t -> operand_ok w (dim (getv w t)) o -> exists w' b, set_vec w t o = Some (w', b).
Proof.
  intros HI Ht Hop. unfold set_vec.
  assert (Core : match o with OS u => u <> t /\ has w u | OD _ => True end ->
                 exists w' b, match joint_begin w t o with
                              | None => None
                              | Some (w1, j) => set_loop (jfuel w t o) w1 t j end = Some (w', b)).
  { intro Ho. unfold joint_begin.
    destruct (it_begin_tot (hp w) (getv w t) (WInv_getv w t HI)) as (v' & c1 & N & I' & Rm & Cu).
    rewrite N.
    assert (Ho' : match o with OS u => u <> t /\ has (setv w t v') u | OD _ => True end).
    { destruct o; auto. destruct Ho. split; auto. apply has_setv. auto. }
    destruct (ci_begin_tot (setv w t v') t o (WInv_setv w t v' HI I') Ho')
      as (w1 & c2 & N2 & I1 & V1 & O1 & G1 & H1 & Hh1).
    rewrite N2. rewrite getv_setv_eq in G1 by auto.
    assert (OL : op_len (setv w t v') o = op_len w o).
    { destruct o as [u|d]; simpl; auto. destruct Ho. rewrite getv_setv_neq; auto. }
    destruct (jn_tot w1 t {| j1 := c1; j2 := c2; jidx := -1; js1 := None; js2 := None; jok := false |})
      as (w2 & j & N3 & I2 & H2 & C2 & V2 & M2); auto.
    { apply Hh1. apply has_setv. auto. }
    { cbn [j1]. rewrite G1. auto. }
    rewrite N3. apply set_loop_tot; auto.
    intro Ok. specialize (M2 Ok). unfold Mj in M2 at 2. cbn [j1 j2] in M2. rewrite G1 in M2.
    unfold jfuel. lia. }
  destruct o as [u|d].
  - destruct (Nat.eqb t u) eqn:E; [eauto|]. apply Nat.eqb_neq in E.
    destruct (negb (dim (getv w t) =? dim (getv w u))); [eauto|].
    apply Core. simpl in Hop. split; [auto|tauto].
  - destruct (negb (dim (getv w t) =? Z.of_nat (length d))); [eauto|]. apply Core. auto.
Qed.
