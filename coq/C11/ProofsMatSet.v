(* C11, sparse matrices — WORLD-LEVEL dense refinement of a.Set(b) (ModelMat.mset, the two
   loops of fix bd36f8c):  mabsw w' = mdstep (mabsw w) (MSet t o)  for the three kinds of
   source: a dense matrix, another sparse matrix of the world, the receiver itself. *)
From Coq Require Import ZArith List Bool Lia Sorted.
From ADV Require Import C11.Model C11.Spec C11.Dense C11.ProofsMap C11.ProofsIter C11.ProofsInv C11.ProofsRef
                        C11.ProofsD1 C11.ProofsD2 C11.ProofsD3
                        C11.ModelMat C11.ProofsMatSpec C11.ProofsMat C11.ProofsMatRef C11.ProofsMatDense
                        C11.ProofsMatDense2 C11.ProofsMatDense3 C11.DenseMat.
Import ListNotations.
Open Scope Z_scope.

(* ---- worlds ------------------------------------------------------------------------- *)
Lemma getm_setm_eq w t m x :
  getm (setm w t m) x = if Nat.eqb t x && Nat.ltb t (length (mats w)) then m else getm w x.
Proof.
  unfold getm, setm. cbn [mats]. destruct (Nat.eqb t x) eqn:E.
  - apply Nat.eqb_eq in E. subst x. rewrite nth_upd_same. simpl.
    destruct (Nat.ltb t (length (mats w))) eqn:L; auto.
    apply Nat.ltb_ge in L. rewrite nth_overflow; auto.
  - apply Nat.eqb_neq in E. simpl. apply nth_upd_neq. auto.
Qed.
Lemma dmget_mabsw w x : dmget (mabsw w) x = mabsd (mhp w) (getm w x).
Proof.
  unfold dmget, mabsw, getm. change dnull with (mabsd (mhp w) (null_mat 0 0)). apply map_nth.
Qed.
Lemma mabsw_length w : length (mabsw w) = length (mats w).
Proof. apply map_length. Qed.
Lemma dmw_ext (a b : dmworld) :
  length a = length b -> (forall u, (u < length a)%nat -> dmget a u = dmget b u) -> a = b.
Proof.
  revert b. induction a as [|x a IH]; intros [|y b] L H; simpl in *; try discriminate; auto.
  f_equal.
  - apply (H O). lia.
  - apply IH; [lia|]. intros u Hu. apply (H (S u)). lia.
Qed.
Lemma mabsd_frame h h' m : (forall l, In l (mcells m) -> hget h' l = hget h l) -> mabsd h' m = mabsd h m.
Proof.
  intro H. unfold mabsd. f_equal. apply mabs_ext; [reflexivity|]. intros i j _.
  apply peek_frame. intros k l L. apply H. unfold mcells. eapply lookup_In_cells; eauto.
Qed.
Lemma MWWf_intro w : (forall x, (x < length (mats w))%nat -> Wf (mhp w) (mv (getm w x))) -> MWWf w.
Proof.
  intro H. unfold MWWf. apply Forall_forall. intros m Hin. apply In_nth with (d := null_mat 0 0) in Hin.
  destruct Hin as (x & Hx & <-). apply (H x Hx).
Qed.
Lemma MWWf_getm w x : MWWf w -> Wf (mhp w) (mv (getm w x)).
Proof.
  intro H. unfold getm. apply (Forall_nth_d (fun m => Wf (mhp w) (mv m))); auto. apply Wf_nil.
Qed.

(* how the three cases are closed: the receiver stands for D, the others are unchanged *)
Lemma world_finish w w' t D :
  length (mats w') = length (mats w) -> (t < length (mats w))%nat ->
  (forall x, (x < length (mats w))%nat -> Wf (mhp w') (mv (getm w' x))) ->
  mabsd (mhp w') (getm w' t) = D ->
  (forall x, x <> t -> (x < length (mats w))%nat -> mabsd (mhp w') (getm w' x) = mabsd (mhp w) (getm w x)) ->
  mabsw w' = upd t D (mabsw w) /\ MWWf w'.
Proof.
  intros L Ht WF Dt Dx. split.
  - apply dmw_ext.
    + rewrite upd_length, !mabsw_length. exact L.
    + intros x Hx. rewrite mabsw_length, L in Hx. rewrite dmget_mabsw. unfold dmget.
      destruct (Nat.eq_dec x t) as [->|Ne].
      * rewrite nth_upd_eq by (rewrite mabsw_length; exact Ht). exact Dt.
      * rewrite nth_upd_neq by auto. fold (dmget (mabsw w) x). rewrite dmget_mabsw. apply Dx; auto.
  - apply MWWf_intro. intros x Hx. apply WF. rewrite <- L. exact Hx.
Qed.

(* a matrix other than the receiver, in a world whose heap was changed only on the
   receiver's cells (and grown) *)
Lemma other_frame w t h' x :
  MWInv w -> MWWf w -> munshared w t -> x <> t ->
  (forall l, (l < length (mhp w))%nat -> ~ In l (cells_of (mv (getm w t))) -> hget h' l = hget (mhp w) l) ->
  forall l, In l (mcells (getm w x)) -> hget h' l = hget (mhp w) l.
Proof.
  intros WI WF U Ne FR l Hin. apply FR.
  - pose proof (MWWf_getm w x WF) as [W1 _]. pose proof (MWInv_getm w x WI) as [I _].
    unfold mcells in Hin. apply In_cells_lookup in Hin; [|apply I]. destruct Hin as [k L]. eauto.
  - intro Hin'. exact (U x l Ne Hin' Hin).
Qed.

(* ---- case 1: dense source ------------------------------------------------------------- *)
Lemma mset_OMD_unfold w t r c xs h1 a1 h2 a2 ok :
  mrows (getm w t) = r -> mcols (getm w t) = c ->
  wr_all (fun _ _ i j => dense_at r c xs i j) (mhp w) (getm w t) = Some (h1, a1, true) ->
  set_list (dense_entries r c xs) h1 a1 = (h2, a2, ok) ->
  mset w t (OMD r c xs) = Some (setm (msetH w h2) t a2, ok).
Proof.
  intros Er Ec A S. unfold mset. rewrite Er, Ec, !Z.eqb_refl. cbn [negb orb].
  rewrite A. rewrite S. reflexivity.
Qed.

Lemma ddense_dm_dense r c xs : {| dr := r; dc := c; de := ddense r c xs |} = dm_dense r c xs.
Proof. reflexivity. Qed.

(* common end of the three cases: the new world is w with heap h2 and receiver a2 *)
Lemma set_world_finish w t h2 a2 D :
  MWInv w -> MWWf w -> munshared w t -> (t < length (mats w))%nat ->
  MPost (mhp w) (getm w t) h2 a2 -> mabsd h2 a2 = D ->
  let w' := setm (msetH w h2) t a2 in
  mabsw w' = upd t D (mabsw w) /\ MWInv w' /\ MWWf w' /\ length (mats w') = length (mats w).
Proof.
  intros WI WF U Ht (I2 & W2 & D2 & L2 & FR & CL) ED w'.
  assert (Len : length (mats w') = length (mats w)) by (unfold w', setm; cbn [mats msetH]; apply upd_length).
  assert (G : forall x, getm w' x = if Nat.eqb t x then a2 else getm w x).
  { intro x. unfold w'. rewrite getm_setm_eq. cbn [mats msetH].
    assert (Lt : Nat.ltb t (length (mats w)) = true) by (apply Nat.ltb_lt; exact Ht).
    rewrite Lt, andb_true_r. reflexivity. }
  destruct (world_finish w w' t D Len Ht) as [A B].
  - intros x Hx. rewrite G. unfold w'. cbn [mhp setm msetH]. destruct (Nat.eqb t x); [exact W2|].
    eapply Wf_mono; [exact L2|]. apply MWWf_getm. exact WF.
  - rewrite G, Nat.eqb_refl. exact ED.
  - intros x Ne Hx. rewrite G. destruct (Nat.eqb t x) eqn:E; [apply Nat.eqb_eq in E; congruence|].
    unfold w'. cbn [mhp setm msetH]. apply mabsd_frame. apply (other_frame w t h2 x WI WF U Ne FR).
  - split; [exact A|]. split; [|split; [exact B|exact Len]].
    unfold w'. apply MWInv_setm; auto.
Qed.

Lemma mset_sim_dense w t r c xs : MWInv w -> MWWf w -> min_range w (MSet t (OMD r c xs)) -> munshared w t ->
  exists w', mset w t (OMD r c xs) = Some (w', true) /\ mabsw w' = mdstep (mabsw w) (MSet t (OMD r c xs)) /\
    MWInv w' /\ MWWf w' /\ length (mats w') = length (mats w).
Proof.
  intros WI WF (Ht & Er & Ec) U. unfold mhas in Ht.
  pose proof (MWInv_getm w t WI) as Ia. pose proof (MWWf_getm w t WF) as Wa.
  destruct (mset_dense_refines (mhp w) (getm w t) xs Ia Wa) as (h1 & a1 & h2 & a2 & A & S & AB & MP).
  cbv zeta in A, S, AB. rewrite <- Er, <- Ec in A, S, AB.
  exists (setm (msetH w h2) t a2). split; [apply (mset_OMD_unfold w t r c xs h1 a1 h2 a2 true); auto|].
  assert (ED : mabsd h2 a2 = dm_dense r c xs).
  { rewrite <- ddense_dm_dense. unfold mabsd. destruct MP as (_ & _ & D2 & _). inversion D2 as [[Dr Dc]].
    rewrite Dr, Dc, <- Er, <- Ec, AB. reflexivity. }
  cbn [mdstep]. exact (set_world_finish w t h2 a2 (dm_dense r c xs) WI WF U Ht MP ED).
Qed.

(* ---- loop 1 with a reader that looks at the current heap -------------------------------- *)
Section WrCong.
Variable P : heap -> svec -> Prop.
Variables rd rd' : heap -> svec -> Z -> Z -> option Z.
Variable m : smat.
Hypothesis H1 : forall h v k l, P h v -> lookup k (vals v) = Some l ->
  rd h v (fst (mij m k)) (snd (mij m k)) = rd' h v (fst (mij m k)) (snd (mij m k)).
Hypothesis H2 : forall h v k l x v' c', P h v -> lookup k (vals v) = Some l ->
  rd' h v (fst (mij m k)) (snd (mij m k)) = Some x ->
  it_next (hset h l x) v (Some k) = Some (v', c') -> P (hset h l x) v'.
Lemma wr_loop_cong : forall f h v cur, P h v -> wr_loop f rd m h v cur = wr_loop f rd' m h v cur.
Proof.
  induction f as [|f IH]; intros h v cur Hp; destruct cur as [k|]; cbn [wr_loop]; auto.
  destruct (lookup k (vals v)) as [l|] eqn:L; auto.
  pose proof (H1 h v k l Hp L) as E1. pose proof (H2 h v k l) as E2.
  destruct (mij m k) as [i j]. cbn [fst snd] in *. rewrite E1. destruct (rd' h v i j) as [x|]; auto.
  destruct (it_next (hset h l x) v (Some k)) as [[v' c']|] eqn:N; auto. apply IH. eapply E2; eauto.
Qed.
Lemma wr_all_cong h :
  (forall v0 c, it_begin h (mv m) = Some (v0, c) -> P h v0) -> wr_all rd h m = wr_all rd' h m.
Proof.
  intro H. unfold wr_all. destruct (it_begin h (mv m)) as [[v0 c]|] eqn:B; auto.
  rewrite (wr_loop_cong _ _ _ _ (H v0 c eq_refl)). reflexivity.
Qed.
End WrCong.

Lemma hset_same h l : hset h l (hget h l) = h.
Proof. unfold hset, hget. apply upd_same. Qed.
Lemma mindex_set_mv m v i j : mindex (set_mv m v) i j = mindex m i j.
Proof. reflexivity. Qed.
Lemma mij_set_mv m v k : mij (set_mv m v) k = mij m k.
Proof. reflexivity. Qed.
Lemma lookup_range v k l : Inv v -> lookup k (vals v) = Some l -> 0 <= k < dim v.
Proof. intros (_ & _ & Hd & Hr & _) L. apply Hr. eapply Hd. exact L. Qed.
Lemma in_bounds_true v k : 0 <= k < dim v -> in_bounds v k = true.
Proof. intro H. unfold in_bounds. apply andb_true_intro. split; [apply Z.leb_le|apply Z.ltb_lt]; lia. Qed.

(* reading a whole matrix b at the position of key k of a matrix a of the same dimensions *)
Lemma mconst_at_key h a b k :
  Whole a -> Whole b -> mdims b = mdims a -> 0 <= k < dim (mv a) ->
  mconst_at h b (fst (mij a k)) (snd (mij a k)) = Some (peek h (mv b) k).
Proof.
  intros Wa Wb D Hk. destruct (mij a k) as [i j] eqn:E. cbn [fst snd].
  destruct (index_mij _ _ _ _ Wa Hk E) as [P K]. inversion D as [[Dr Dc]].
  assert (Pb : pos_ok b i j) by (unfold pos_ok in *; rewrite Dr, Dc; exact P).
  unfold mconst_at. rewrite (mindex_whole_ok _ _ _ Wb Pb). unfold const_at.
  rewrite in_bounds_true by (apply key_range; auto). rewrite Dc, <- K. reflexivity.
Qed.

(* loop 1, source = receiver: a(i,j) is written onto itself *)
Lemma loop1_same h a :
  MInv a -> Wf h (mv a) ->
  exists h1 a1, wr_all (fun h' v' i j => mconst_at h' (set_mv a v') i j) h a = Some (h1, a1, true) /\
    MInv a1 /\ Wf h1 (mv a1) /\ mdims a1 = mdims a /\ length h1 = length h /\
    (forall k, peek h1 (mv a1) k = peek h (mv a) k) /\
    (forall l, ~ In l (cells_of (mv a)) -> hget h1 l = hget h l) /\
    (forall l, In l (cells_of (mv a1)) -> In l (cells_of (mv a))).
Proof.
  intros MI Wf0. pose proof MI as [I W].
  set (rd := fun (h' : heap) (v' : svec) i j => mconst_at h' (set_mv a v') i j).
  set (rd' := fun (_ : heap) (_ : svec) (i j : Z) => Some (peek h (mv a) (i * mcols a + j))).
  set (P := fun (h' : heap) (v : svec) => h' = h /\ Q2 h (mv a) v).
  assert (E : wr_all rd h a = wr_all rd' h a).
  { apply (wr_all_cong P).
    - intros h' v k l [Eh Q] L. subst h'. destruct Q as [Qq Sub].
      assert (Hk : 0 <= k < dim (mv a)) by (eapply lookup_range; [exact I|apply Sub; exact L]).
      assert (Dv : dim v = dim (mv a)) by apply Qq.
      assert (Wv : Whole (set_mv a v)) by (apply Whole_set_mv; auto).
      unfold rd, rd'. rewrite (mconst_at_key h a (set_mv a v) k W Wv eq_refl Hk). cbn [mv set_mv].
      destruct (mij a k) as [i j] eqn:Eij. cbn [fst snd].
      destruct (index_mij _ _ _ _ W Hk Eij) as [_ K]. rewrite <- K. f_equal. apply Q_peek. exact Qq.
    - intros h' v k l x v' c' [Eh Q] L Ex N. subst h'. destruct Q as [Qq Sub].
      assert (Hk : 0 <= k < dim (mv a)) by (eapply lookup_range; [exact I|apply Sub; exact L]).
      unfold rd' in Ex. destruct (mij a k) as [i j] eqn:Eij. cbn [fst snd] in Ex.
      destruct (index_mij _ _ _ _ W Hk Eij) as [_ K]. rewrite <- K in Ex. inversion Ex. subst x.
      assert (Ex2 : peek h (mv a) k = hget h l) by (unfold peek; rewrite (Sub _ _ L); reflexivity).
      rewrite Ex2, hset_same in *. split; [reflexivity|].
      eapply Q2_trans; [split; [exact Qq|exact Sub]|]. eapply it_next_Q2. exact N.
    - intros v0 c B. split; [reflexivity|]. eapply it_begin_Q2. exact B. }
  fold rd. rewrite E.
  assert (HR : forall (h0 : heap) (v0 : svec) k, 0 <= k < dim (mv a) ->
             rd' h0 v0 (fst (mij a k)) (snd (mij a k)) = Some (peek h (mv a) k)).
  { intros h0 v0 k Hk. unfold rd'. destruct (mij a k) as [i j] eqn:Eij. cbn [fst snd].
    destruct (index_mij _ _ _ _ W Hk Eij) as [_ K]. rewrite <- K. reflexivity. }
  destruct (wr_all_spec a (fun k => peek h (mv a) k) rd' HR h MI Wf0)
    as (h1 & a1 & A & I1 & W1 & D1 & L1 & PK & FR & CL).
  exists h1, a1. split; [exact A|]. split; [exact I1|]. split; [exact W1|]. split; [exact D1|].
  split; [exact L1|]. split; [|split; [exact FR|exact CL]].
  intro k. rewrite PK. destruct (isnull h (mv a) k) eqn:N; auto. symmetry. apply isnull_peek. exact N.
Qed.

(* loop 2, source = receiver: AT finds every visited entry, the value is written onto itself:
   the loop is a plain iteration *)
Lemma set2_same_spec a : Whole a -> forall f rest pre h v,
  Inv v -> dim v = dim (mv a) -> idx v = pre ++ rest -> (length rest <= f)%nat ->
  dropnull (isnull h v) rest = rest ->
  exists v', set2_loop f true a a h v v (hd_error rest) = Some (h, v', v', true) /\ Q2 h v v'.
Proof.
  intro W. induction f as [|f IH]; intros rest pre h v I Dv Hidx Hf Hd.
  - destruct rest; [|simpl in Hf; lia]. exists v. simpl. split; [reflexivity|apply Q2_refl].
  - destruct rest as [|k r].
    + exists v. simpl. split; [reflexivity|apply Q2_refl].
    + pose proof (dropnull_head _ _ _ Hd) as N.
      assert (exists l, lookup k (vals v) = Some l) as [l Hl].
      { unfold isnull in N. destruct (lookup k (vals v)); [eauto|discriminate]. }
      assert (Hs : sset (idx v)) by apply I.
      assert (Hs' : sset (pre ++ k :: r)) by (rewrite <- Hidx; auto).
      assert (Hk : 0 <= k < dim (mv a)) by (rewrite <- Dv; eapply lookup_range; eauto).
      destruct (mij a k) as [i j] eqn:Eij.
      destruct (index_mij _ _ _ _ W Hk Eij) as [Pij K].
      assert (Wv : Whole (set_mv a v)) by (apply Whole_set_mv; auto).
      assert (MA : mat_at h (set_mv a v) i j = Some (h, set_mv a v, l)).
      { unfold mat_at. rewrite (mindex_whole_ok _ _ _ Wv Pij). cbn [mv set_mv mcols]. rewrite <- K.
        unfold at_. rewrite in_bounds_true by lia. rewrite Hl. reflexivity. }
      assert (E1 : first_gt k (idx v) = hd_error r) by (rewrite Hidx; apply first_gt_mid; auto).
      destruct (skip_spec h r (pre ++ [k]) v (sfuel v)) as (v2 & A & B & C); auto.
      { rewrite Hidx, <- app_assoc. auto. }
      { unfold sfuel. rewrite Hidx, app_length. simpl. lia. }
      assert (I2 : Inv v2) by (eapply Inv_skip; [exact I|exact A]).
      destruct (IH (dropnull (isnull h v) r) (pre ++ [k]) h v2 I2) as (v' & R0 & R1).
      { destruct C as (_ & _ & C3). congruence. }
      { exact B. }
      { pose proof (dropnull_length (isnull h v) r). simpl in Hf. lia. }
      { rewrite (dropnull_ext _ (isnull h v)); [apply dropnull_idem|apply C]. }
      exists v'. split.
      * cbn [hd_error set2_loop]. rewrite Hl, Eij, MA. cbv beta iota zeta. cbn [mv set_mv].
        rewrite hset_same. unfold it_next. rewrite E1, A. exact R0.
      * eapply Q2_trans; [eapply skip_Q2; exact A|exact R1].
Qed.

Lemma mabsd_peek_eq h h' m m' :
  mdims m' = mdims m -> (forall k, peek h' (mv m') k = peek h (mv m) k) -> mabsd h' m' = mabsd h m.
Proof.
  intros D H. unfold mabsd. inversion D as [[Dr Dc]]. f_equal. apply mabs_ext; [exact D|]. intros i j _. apply H.
Qed.

Lemma mset_OM_same_unfold w t h1 a1 vb0 cur h2 va vb ok :
  wr_all (fun h' v' i j => mconst_at h' (set_mv (getm w t) v') i j) (mhp w) (getm w t) = Some (h1, a1, true) ->
  it_begin h1 (mv a1) = Some (vb0, cur) ->
  set2_loop (sfuel (mv a1)) true a1 a1 h1 vb0 vb0 cur = Some (h2, va, vb, ok) ->
  mset w t (OM t) = Some (setm (setm (msetH w h2) t (set_mv a1 vb)) t (set_mv a1 va), ok).
Proof.
  intros A B S. unfold mset. rewrite !Z.eqb_refl. cbn [negb orb]. rewrite Nat.eqb_refl.
  rewrite A. rewrite B. rewrite S. reflexivity.
Qed.

Lemma setm_setm w t m1 m2 : setm (setm w t m1) t m2 = setm w t m2.
Proof.
  unfold setm. cbn [mhp mats]. f_equal. generalize (mats w). intro l. revert t.
  induction l as [|x l IH]; intros [|t]; simpl; auto. f_equal. apply IH.
Qed.

Lemma mset_sim_same w t : MWInv w -> MWWf w -> min_range w (MSet t (OM t)) -> munshared w t ->
  exists w', mset w t (OM t) = Some (w', true) /\ mabsw w' = mdstep (mabsw w) (MSet t (OM t)) /\
    MWInv w' /\ MWWf w' /\ length (mats w') = length (mats w).
Proof.
  intros WI WF (Ht & _) U. unfold mhas in Ht.
  pose proof (MWInv_getm w t WI) as Ia. pose proof (MWWf_getm w t WF) as Wa.
  destruct (loop1_same (mhp w) (getm w t) Ia Wa) as (h1 & a1 & A & I1 & W1 & D1 & L1 & PK & FR & CL).
  pose proof I1 as [Iv1 Wh1].
  assert (Hs : sset (idx (mv a1))) by apply Iv1.
  destruct (skip_spec h1 (idx (mv a1)) [] (mv a1) (sfuel (mv a1))) as (v0 & B & B2 & C); auto.
  { unfold sfuel. lia. }
  simpl in B2.
  assert (I0 : Inv v0) by (eapply Inv_skip; [exact Iv1|exact B]).
  destruct (set2_same_spec a1 Wh1 (sfuel (mv a1)) (idx v0) [] h1 v0 I0) as (v' & S & Q).
  { apply C. }
  { reflexivity. }
  { rewrite B2. pose proof (dropnull_length (isnull h1 (mv a1)) (idx (mv a1))). unfold sfuel. lia. }
  { rewrite B2. rewrite (dropnull_ext _ (isnull h1 (mv a1))); [apply dropnull_idem|apply C]. }
  rewrite <- B2 in B.
  exists (setm (setm (msetH w h1) t (set_mv a1 v')) t (set_mv a1 v')).
  split; [apply (mset_OM_same_unfold w t h1 a1 v0 (hd_error (idx v0)) h1 v' v' true A B S)|].
  rewrite setm_setm.
  assert (Q0 : Q2 h1 (mv a1) v') by (eapply Q2_trans; [eapply skip_Q2; exact B|exact Q]).
  destruct (set2_loop_Inv _ _ _ _ _ _ _ _ _ _ _ _ I0 I0 (fun _ => eq_refl) S) as (Iv' & _ & _ & _).
  assert (MP : MPost (mhp w) (getm w t) h1 (set_mv a1 v')).
  { unfold MPost. cbn [mv set_mv]. split; [|split; [|split; [|split; [|split]]]].
    - apply MInv_set_mv; [exact I1|exact Iv'|apply (Q2_dim _ _ _ Q0)].
    - eapply Q2_Wf; [exact Q0|exact W1].
    - exact D1.
    - lia.
    - intros l _ Hn. apply FR. exact Hn.
    - intros l Hin. left. apply CL. eapply Q2_cells; [exact Q0|exact Hin|apply Iv']. }
  assert (ED : mabsd h1 (set_mv a1 v') = dmget (mabsw w) t).
  { rewrite dmget_mabsw. apply mabsd_peek_eq; [exact D1|]. intro k. cbn [mv set_mv].
    rewrite (Q_peek h1 (mv a1) v' k (proj1 Q0)). apply PK. }
  cbn [mdstep]. exact (set_world_finish w t h1 (set_mv a1 v') _ WI WF U Ht MP ED).
Qed.

(* ---- case 2: another sparse matrix of the world ------------------------------------------- *)
(* loop 1: the source shares no cell with the receiver, so every read returns b(i,j) *)
Lemma loop1_other h a b :
  MInv a -> Wf h (mv a) -> MInv b -> mdims b = mdims a ->
  (forall l, In l (cells_of (mv a)) -> In l (cells_of (mv b)) -> False) ->
  exists h1 a1, wr_all (fun h' (_ : svec) i j => mconst_at h' b i j) h a = Some (h1, a1, true) /\
    MInv a1 /\ Wf h1 (mv a1) /\ mdims a1 = mdims a /\ length h1 = length h /\
    (forall k, peek h1 (mv a1) k = if isnull h (mv a) k then 0 else peek h (mv b) k) /\
    (forall l, ~ In l (cells_of (mv a)) -> hget h1 l = hget h l) /\
    (forall l, In l (cells_of (mv a1)) -> In l (cells_of (mv a))).
Proof.
  intros MI Wf0 MIb D Dis. pose proof MI as [I W]. pose proof MIb as [Ib Wb].
  set (rd := fun (h' : heap) (_ : svec) i j => mconst_at h' b i j).
  set (rd' := fun (_ : heap) (_ : svec) (i j : Z) => Some (peek h (mv b) (i * mcols a + j))).
  set (P := fun (h' : heap) (v : svec) =>
              (forall l, In l (cells_of (mv b)) -> hget h' l = hget h l) /\
              (forall k l, lookup k (vals v) = Some l -> lookup k (vals (mv a)) = Some l)).
  assert (E : wr_all rd h a = wr_all rd' h a).
  { apply (wr_all_cong P).
    - intros h' v k l [Fr Sub] L.
      assert (Hk : 0 <= k < dim (mv a)) by (eapply lookup_range; [exact I|apply Sub; exact L]).
      unfold rd, rd'. rewrite (mconst_at_key h' a b k W Wb D Hk).
      destruct (mij a k) as [i j] eqn:Eij. cbn [fst snd].
      destruct (index_mij _ _ _ _ W Hk Eij) as [_ K]. rewrite <- K. f_equal.
      apply peek_frame. intros k0 l0 L0. apply Fr. eapply lookup_In_cells; eauto.
    - intros h' v k l x v' c' [Fr Sub] L _ N. split.
      + intros l0 Hin. rewrite hget_hset_neq; [apply Fr; exact Hin|].
        intro. subst l0. apply (Dis l); [|exact Hin]. eapply lookup_In_cells. apply Sub. exact L.
      + intros k0 l0 L0. apply Sub. destruct (it_next_Q2 _ _ _ _ _ N) as [_ S]. apply S. exact L0.
    - intros v0 c B. split; [auto|]. destruct (it_begin_Q2 _ _ _ _ B) as [_ S]. exact S. }
  fold rd. rewrite E.
  assert (HR : forall (h0 : heap) (v0 : svec) k, 0 <= k < dim (mv a) ->
             rd' h0 v0 (fst (mij a k)) (snd (mij a k)) = Some (peek h (mv b) k)).
  { intros h0 v0 k Hk. unfold rd'. destruct (mij a k) as [i j] eqn:Eij. cbn [fst snd].
    destruct (index_mij _ _ _ _ W Hk Eij) as [_ K]. rewrite <- K. reflexivity. }
  destruct (wr_all_spec a (fun k => peek h (mv b) k) rd' HR h MI Wf0)
    as (h1 & a1 & A & I1 & W1 & D1 & L1 & PK & FR & CL).
  exists h1, a1. split; [exact A|]. split; [exact I1|]. split; [exact W1|]. split; [exact D1|].
  split; [exact L1|]. split; [exact PK|split; [exact FR|exact CL]].
Qed.

Lemma Q2_heap_ext h h' v v' :
  (forall k l, lookup k (vals v) = Some l -> hget h' l = hget h l) -> Q2 h v v' -> Q2 h' v v'.
Proof.
  intros F [(A1 & A2 & A3) S].
  assert (N1 : forall k, isnull h' v k = isnull h v k).
  { intro k. unfold isnull. destruct (lookup k (vals v)) as [l|] eqn:L; auto. rewrite (F _ _ L). reflexivity. }
  assert (N2 : forall k, isnull h' v' k = isnull h v' k).
  { intro k. unfold isnull. destruct (lookup k (vals v')) as [l|] eqn:L; auto. rewrite (F _ _ (S _ _ L)). reflexivity. }
  split; [split; [|split]|exact S].
  - intro k. rewrite N1, N2. apply A1.
  - intros k Hk. apply A2. rewrite <- N1. exact Hk.
  - exact A3.
Qed.
Lemma kmem_dropnull p r k' : p k' = false -> kmem k' (dropnull p r) = kmem k' r.
Proof.
  intro Hp. induction r as [|x r IH]; cbn [dropnull kmem]; auto.
  destruct (p x) eqn:Px; cbn [kmem]; auto. rewrite IH.
  destruct (x =? k') eqn:E; auto. apply Z.eqb_eq in E. subst x. congruence.
Qed.
Lemma mat_at_old h m i j h1 m1 l' l0 :
  mat_at h m i j = Some (h1, m1, l') -> (l0 < length h)%nat -> hget h1 l0 = hget h l0.
Proof.
  unfold mat_at. destruct (mindex m i j) as [k|]; [|discriminate].
  destruct (at_ h (mv m) k) as [[[h2 v2] l2]|] eqn:A; [|discriminate].
  intro E. inversion E. subst h2 m1 l2. intro Hl.
  destruct (at_shape _ _ _ _ _ _ A) as [(E1 & _)|(E1 & _)]; subst h1; auto. apply hget_app. exact Hl.
Qed.

(* loop 2: every non-null entry of b is written into a (AT creates missing entries with fresh
   cells); b only loses null entries *)
Lemma set2_other_spec a b :
  Whole a -> Whole b -> mdims a = mdims b -> forall f rest pre h va vb,
  Inv va -> Wf h va -> dim va = dim (mv a) ->
  Inv vb -> Wf h vb -> dim vb = dim (mv b) ->
  (forall l, In l (cells_of va) -> In l (cells_of vb) -> False) ->
  idx vb = pre ++ rest -> (length rest <= f)%nat -> dropnull (isnull h vb) rest = rest ->
  exists h' va' vb', set2_loop f false a b h va vb (hd_error rest) = Some (h', va', vb', true) /\
    Inv va' /\ Wf h' va' /\ dim va' = dim va /\ (length h <= length h')%nat /\
    Q2 h vb vb' /\
    (forall k, peek h' va' k = if kmem k rest && negb (isnull h vb k) then peek h vb k else peek h va k) /\
    (forall l, (l < length h)%nat -> ~ In l (cells_of va) -> hget h' l = hget h l) /\
    (forall l, In l (cells_of va') -> In l (cells_of va) \/ (length h <= l)%nat).
Proof.
  intros Wa Wb D. inversion D as [[Dr Dc]].
  induction f as [|f IH]; intros rest pre h va vb Ia Wfa Da Ib Wfb Db Dis Hidx Hf Hd.
  - destruct rest; [|simpl in Hf; lia]. exists h, va, vb. cbn [hd_error set2_loop kmem andb].
    split; [reflexivity|]. split; [exact Ia|]. split; [exact Wfa|]. split; [reflexivity|]. split; [lia|].
    split; [apply Q2_refl|]. split; [reflexivity|]. split; [reflexivity|]. intros l Hl. left. exact Hl.
  - destruct rest as [|k r].
    + exists h, va, vb. cbn [hd_error set2_loop kmem andb].
      split; [reflexivity|]. split; [exact Ia|]. split; [exact Wfa|]. split; [reflexivity|]. split; [lia|].
      split; [apply Q2_refl|]. split; [reflexivity|]. split; [reflexivity|]. intros l Hl. left. exact Hl.
    + pose proof (dropnull_head _ _ _ Hd) as N.
      assert (exists l, lookup k (vals vb) = Some l) as [l Hl].
      { unfold isnull in N. destruct (lookup k (vals vb)); [eauto|discriminate]. }
      assert (Hs : sset (idx vb)) by apply Ib.
      assert (Hs' : sset (pre ++ k :: r)) by (rewrite <- Hidx; auto).
      assert (Kr : forall x, In x r -> k < x).
      { intros x Hx. apply sset_app_r in Hs'. apply sset_cons in Hs'. destruct Hs' as [_ F].
        rewrite Forall_forall in F. auto. }
      assert (Hk : 0 <= k < dim (mv b)) by (rewrite <- Db; eapply lookup_range; eauto).
      destruct (mij b k) as [i j] eqn:Eij.
      destruct (index_mij _ _ _ _ Wb Hk Eij) as [Pij K].
      assert (Wv : Whole (set_mv a va)) by (apply Whole_set_mv; auto).
      assert (MIa : MInv (set_mv a va)) by (split; [exact Ia|exact Wv]).
      assert (Pa : pos_ok (set_mv a va) i j) by (unfold pos_ok in *; cbn [mrows mcols set_mv]; rewrite Dr, Dc; exact Pij).
      destruct (mat_at_in_range_ok h (set_mv a va) i j Wv Pa) as (h1 & m1 & l' & MA).
      assert (Ll : (l < length h)%nat) by (destruct Wfb as [W1 _]; eauto).
      pose proof (mat_at_old _ _ _ _ _ _ _ l MA Ll) as Hx.
      destruct (mat_at_write _ _ _ _ _ _ _ (hget h1 l) MIa Wfa MA) as (I1 & W1 & D1 & L1 & _ & PK & FR & CL & _).
      destruct (mat_at_vec _ _ _ _ _ _ _ _ Ia MA) as [Iv1 Dv1].
      set (h2 := hset h1 l' (hget h1 l)) in *.
      change (mcols (set_mv a va)) with (mcols a) in PK. cbn [mv set_mv] in W1, PK, FR, CL.
      rewrite Dc, <- K, Hx in PK.
      assert (Hpk : hget h l = peek h vb k) by (unfold peek; rewrite Hl; reflexivity).
      (* b's cells are untouched *)
      assert (FB : forall k0 l0, lookup k0 (vals vb) = Some l0 -> hget h2 l0 = hget h l0).
      { intros k0 l0 L0. apply FR.
        - destruct Wfb as [Wb1 _]. eauto.
        - intro Hin. apply (Dis l0 Hin). eapply lookup_In_cells; eauto. }
      assert (NK : forall k0, isnull h2 vb k0 = isnull h vb k0).
      { intro k0. unfold isnull. destruct (lookup k0 (vals vb)) as [l0|] eqn:L0; auto. rewrite (FB _ _ L0). reflexivity. }
      assert (E1 : first_gt k (idx vb) = hd_error r) by (rewrite Hidx; apply first_gt_mid; auto).
      destruct (skip_spec h2 r (pre ++ [k]) vb (sfuel vb)) as (vb2 & A & B & C); auto.
      { rewrite Hidx, <- app_assoc. auto. }
      { unfold sfuel. rewrite Hidx, app_length. simpl. lia. }
      pose proof (skip_Q2 _ _ _ _ _ _ A) as Q2s.
      assert (I2 : Inv vb2) by (eapply Inv_skip; [exact Ib|exact A]).
      assert (Wfb2 : Wf h2 vb2) by (eapply Q2_Wf; [exact Q2s|]; eapply Wf_mono; [exact L1|exact Wfb]).
      set (r' := dropnull (isnull h2 vb) r) in *.
      destruct (IH r' (pre ++ [k]) h2 (mv m1) vb2 Iv1 W1) as
        (h' & va' & vb' & R0 & Ra & Rw & Rd & Rl & Rq & Rp & Rf & Rc).
      { congruence. }
      { exact I2. }
      { exact Wfb2. }
      { rewrite <- Db. apply C. }
      { intros l0 H1 H2. apply (Q2_cells _ _ _ _ Q2s) in H2; [|apply I2].
        apply CL in H1. destruct H1 as [H1|H1]; [exact (Dis l0 H1 H2)|].
        apply In_cells_lookup in H2; [|apply Ib]. destruct H2 as [k0 L0].
        destruct Wfb as [Wb1 _]. specialize (Wb1 _ _ L0). lia. }
      { exact B. }
      { pose proof (dropnull_length (isnull h2 vb) r). unfold r'. simpl in Hf. lia. }
      { unfold r'. rewrite (dropnull_ext _ (isnull h2 vb)); [apply dropnull_idem|apply C]. }
      exists h', va', vb'. split.
      { cbn [hd_error set2_loop]. rewrite Hl, Eij, MA. cbv beta iota zeta. fold h2.
        unfold it_next. rewrite E1, A. exact R0. }
      split; [exact Ra|]. split; [exact Rw|]. split; [congruence|]. split; [lia|].
      split.
      { apply (Q2_heap_ext h2 h vb vb').
        - intros k0 l0 L0. symmetry. apply (FB _ _ L0).
        - eapply Q2_trans; [exact Q2s|exact Rq]. }
      split.
      { intro k'. rewrite Rp.
        assert (N2 : isnull h2 vb2 k' = isnull h vb k') by (destruct C as (C1 & _); rewrite C1; apply NK).
        assert (P2 : peek h2 vb2 k' = peek h vb k').
        { rewrite (Q_peek h2 vb vb2 k' C). apply peek_frame. exact FB. }
        rewrite N2, P2, PK. cbn [kmem]. destruct (k =? k') eqn:Ek.
        - apply Z.eqb_eq in Ek. subst k'. rewrite Z.eqb_refl, N. cbn [orb negb andb].
          assert (NI : kmem k r' = false).
          { destruct (kmem k r') eqn:M; auto. apply kmem_In in M. unfold r' in M.
            apply dropnull_incl in M. specialize (Kr k M). lia. }
          rewrite NI. cbn [andb]. exact Hpk.
        - rewrite (Z.eqb_sym k' k), Ek. cbn [orb].
          destruct (isnull h vb k') eqn:Nk'; [rewrite !andb_false_r; reflexivity|].
          unfold r'. rewrite kmem_dropnull by (rewrite NK; exact Nk'). reflexivity. }
      split.
      { intros l0 Hl0 Hn. rewrite Rf; [apply FR; auto|lia|].
        intro Hin. apply CL in Hin. destruct Hin; [tauto|lia]. }
      { intros l0 Hin. apply Rc in Hin. destruct Hin as [Hin|Hin]; [apply CL in Hin; tauto|right; lia]. }
Qed.

Lemma mset_OM_other_unfold w t u h1 a1 vb0 cur h2 va vb ok :
  Nat.eqb u t = false -> mrows (getm w u) = mrows (getm w t) -> mcols (getm w u) = mcols (getm w t) ->
  wr_all (fun h' (_ : svec) i j => mconst_at h' (getm w u) i j) (mhp w) (getm w t) = Some (h1, a1, true) ->
  it_begin h1 (mv (getm w u)) = Some (vb0, cur) ->
  set2_loop (sfuel (mv (getm w u))) false a1 (getm w u) h1 (mv a1) vb0 cur = Some (h2, va, vb, ok) ->
  mset w t (OM u) = Some (setm (setm (msetH w h2) u (set_mv (getm w u) vb)) t (set_mv a1 va), ok).
Proof.
  intros E Er Ec A B S. unfold mset. rewrite Er, Ec, !Z.eqb_refl. cbn [negb orb]. rewrite E.
  rewrite A. rewrite B. rewrite S. reflexivity.
Qed.

Lemma mset_sim_other w t u : u <> t -> MWInv w -> MWWf w -> min_range w (MSet t (OM u)) -> munshared w t ->
  exists w', mset w t (OM u) = Some (w', true) /\ mabsw w' = mdstep (mabsw w) (MSet t (OM u)) /\
    MWInv w' /\ MWWf w' /\ length (mats w') = length (mats w).
Proof.
  intros Ne WI WF (Ht & Hu & Er & Ec) U. unfold mhas in Ht, Hu.
  pose proof (MWInv_getm w t WI) as Ia. pose proof (MWWf_getm w t WF) as Wa.
  pose proof (MWInv_getm w u WI) as Ib. pose proof (MWWf_getm w u WF) as Wfb.
  set (a := getm w t) in *. set (b := getm w u) in *. set (h := mhp w) in *.
  assert (D : mdims b = mdims a) by (unfold mdims; rewrite Er, Ec; reflexivity).
  assert (Dis : forall l, In l (cells_of (mv a)) -> In l (cells_of (mv b)) -> False)
    by (intros l H1 H2; exact (U u l Ne H1 H2)).
  destruct (loop1_other h a b Ia Wa Ib D Dis) as (h1 & a1 & A & I1 & W1 & D1 & L1 & PK & FR & CL).
  pose proof I1 as [Iv1 Wh1]. pose proof Ib as [Ivb Whb].
  (* b after loop 1 *)
  assert (FB1 : forall l, In l (cells_of (mv b)) -> hget h1 l = hget h l).
  { intros l Hin. apply FR. intro Hin'. exact (Dis l Hin' Hin). }
  assert (Wfb1 : Wf h1 (mv b)) by (eapply Wf_mono; [|exact Wfb]; lia).
  assert (Hs : sset (idx (mv b))) by apply Ivb.
  destruct (skip_spec h1 (idx (mv b)) [] (mv b) (sfuel (mv b))) as (vb0 & B & B2 & C); auto.
  { unfold sfuel. lia. }
  simpl in B2. pose proof (skip_Q2 _ _ _ _ _ _ B) as Q0.
  assert (I0 : Inv vb0) by (eapply Inv_skip; [exact Ivb|exact B]).
  assert (Dab : mdims a1 = mdims b) by congruence.
  destruct (set2_other_spec a1 b Wh1 Whb Dab (sfuel (mv b)) (idx vb0) [] h1 (mv a1) vb0 Iv1 W1 eq_refl I0)
    as (h2 & va & vb & S & Ra & Rw & Rd & Rl & Rq & Rp & Rf & Rc).
  { eapply Q2_Wf; [exact Q0|exact Wfb1]. }
  { apply C. }
  { intros l H1 H2. apply CL in H1. apply (Q2_cells _ _ _ _ Q0) in H2; [|apply I0]. exact (Dis l H1 H2). }
  { reflexivity. }
  { rewrite B2. pose proof (dropnull_length (isnull h1 (mv b)) (idx (mv b))). unfold sfuel. lia. }
  { rewrite B2. rewrite (dropnull_ext _ (isnull h1 (mv b))); [apply dropnull_idem|apply C]. }
  rewrite <- B2 in B.
  set (w' := setm (setm (msetH w h2) u (set_mv b vb)) t (set_mv a1 va)).
  assert (Eut : Nat.eqb u t = false) by (apply Nat.eqb_neq; exact Ne).
  assert (EQ : mset w t (OM u) = Some (w', true))
    by (apply (mset_OM_other_unfold w t u h1 a1 vb0 (hd_error (idx vb0)) h2 va vb true Eut Er Ec A B S)).
  exists w'. split; [exact EQ|].
  assert (Len : length (mats w') = length (mats w)).
  { unfold w', setm. cbn [mats msetH]. rewrite !upd_length. reflexivity. }
  assert (G : forall x, getm w' x = if Nat.eqb t x then set_mv a1 va else if Nat.eqb u x then set_mv b vb else getm w x).
  { intro x. unfold w'. rewrite getm_setm_eq. cbn [mats setm msetH]. rewrite upd_length.
    assert (Lt : Nat.ltb t (length (mats w)) = true) by (apply Nat.ltb_lt; exact Ht).
    assert (Lu : Nat.ltb u (length (mats w)) = true) by (apply Nat.ltb_lt; exact Hu).
    rewrite Lt, andb_true_r. destruct (Nat.eqb t x); [reflexivity|].
    rewrite getm_setm_eq. cbn [mats msetH]. rewrite Lu, andb_true_r. reflexivity. }
  assert (Hw' : mhp w' = h2) by reflexivity.
  (* the heap outside the receiver's old cells *)
  assert (FRall : forall l, (l < length (mhp w))%nat -> ~ In l (cells_of (mv (getm w t))) -> hget h2 l = hget (mhp w) l).
  { fold h a. intros l Hl Hn. rewrite Rf; [apply FR; exact Hn|lia|]. intro Hin. apply Hn. apply CL. exact Hin. }
  assert (FB2 : forall l, In l (cells_of (mv b)) -> hget h2 l = hget h l)
    by (intros l Hin; apply (other_frame w t h2 u WI WF U Ne FRall l Hin)).
  assert (Qb : Q2 h1 (mv b) vb) by (eapply Q2_trans; [exact Q0|exact Rq]).
  assert (Ivb' : Inv vb).
  { assert (Hf : false = true -> mv a1 = vb0) by discriminate.
    destruct (set2_loop_Inv _ _ _ _ _ _ _ _ _ _ _ _ Iv1 I0 Hf S) as (_ & E2 & _). exact E2. }
  destruct (world_finish w w' t (dmget (mabsw w) u) Len Ht) as [AB WF'].
  - intros x Hx. rewrite G, Hw'. destruct (Nat.eqb t x); [exact Rw|]. destruct (Nat.eqb u x).
    + cbn [mv set_mv]. eapply Wf_mono; [exact Rl|]. eapply Q2_Wf; [exact Qb|exact Wfb1].
    + eapply Wf_mono; [|apply MWWf_getm; exact WF]. fold h. lia.
  - rewrite G, Nat.eqb_refl, Hw', dmget_mabsw. fold h b. apply mabsd_peek_eq.
    + unfold mdims. cbn [mrows mcols set_mv]. exact Dab.
    + intro k. cbn [mv set_mv]. rewrite Rp.
      assert (P0 : peek h1 vb0 k = peek h (mv b) k).
      { rewrite (Q_peek h1 (mv b) vb0 k C). apply peek_frame. intros k0 l0 L0. apply FB1. eapply lookup_In_cells; eauto. }
      destruct (isnull h1 vb0 k) eqn:N0.
      * rewrite andb_false_r. rewrite PK. rewrite <- P0. rewrite (isnull_peek _ _ _ N0).
        destruct (isnull h (mv a) k); reflexivity.
      * assert (M : kmem k (idx vb0) = true).
        { apply kmem_In. unfold isnull in N0. destruct (lookup k (vals vb0)) as [l0|] eqn:L0; [|discriminate].
          destruct I0 as (_ & _ & Hd & _). eapply Hd. exact L0. }
        rewrite M. cbn [andb negb]. exact P0.
  - intros x Nx Hx. rewrite G, Hw'. destruct (Nat.eqb t x) eqn:Etx; [apply Nat.eqb_eq in Etx; congruence|].
    destruct (Nat.eqb u x) eqn:Eux.
    + apply Nat.eqb_eq in Eux. subst x. fold h b. apply mabsd_peek_eq; [reflexivity|].
      intro k. cbn [mv set_mv]. destruct Qb as [Qq Sub].
      transitivity (peek h1 vb k).
      * apply peek_frame. intros k0 l0 L0. apply Sub in L0. apply lookup_In_cells in L0.
        rewrite (FB2 _ L0), (FB1 _ L0). reflexivity.
      * rewrite (Q_peek h1 (mv b) vb k Qq). apply peek_frame. intros k0 l0 L0. apply FB1. eapply lookup_In_cells; eauto.
    + apply mabsd_frame. apply (other_frame w t h2 x WI WF U Nx FRall).
  - cbn [mdstep]. split; [exact AB|]. split; [exact (mset_MWInv w t (OM u) w' true WI EQ)|]. split; [exact WF'|exact Len].
Qed.

(* ---- the three cases together ---------------------------------------------------------------- *)
Lemma mset_sim w t o : MWInv w -> MWWf w -> min_range w (MSet t o) -> munshared w t ->
  exists w', mset w t o = Some (w', true) /\ mabsw w' = mdstep (mabsw w) (MSet t o) /\
    MWInv w' /\ MWWf w' /\ length (mats w') = length (mats w).
Proof.
  destruct o as [u|r c xs].
  - destruct (Nat.eq_dec u t) as [->|Ne]; [apply mset_sim_same|apply mset_sim_other; exact Ne].
  - apply mset_sim_dense.
Qed.
