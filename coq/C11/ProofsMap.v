(* C11 — lemmas about the finite map, the ordered key set and lists. *)
From Coq Require Import ZArith List Bool Lia Sorted.
From ADV Require Import C11.Model C11.Spec.
Import ListNotations.
Open Scope Z_scope.

(* ---- lookup / insert / remove ------------------------------------------- *)
Lemma lookup_remove_eq k m : lookup k (remove k m) = None.
Proof.
  induction m as [|[k' v] r IH]; simpl; auto.
  destruct (k' =? k) eqn:E; auto. simpl. rewrite E. auto.
Qed.
Lemma lookup_remove_neq k k' m : k <> k' -> lookup k' (remove k m) = lookup k' m.
Proof.
  intro H. induction m as [|[k0 v] r IH]; simpl; auto.
  destruct (k0 =? k) eqn:E.
  - apply Z.eqb_eq in E. subst. destruct (k =? k') eqn:E2; auto. apply Z.eqb_eq in E2. lia.
  - simpl. rewrite IH. auto.
Qed.
Lemma lookup_insert_eq k l m : lookup k (insert k l m) = Some l.
Proof. unfold insert. simpl. rewrite Z.eqb_refl. auto. Qed.
Lemma lookup_insert_neq k k' l m : k <> k' -> lookup k' (insert k l m) = lookup k' m.
Proof.
  intro H. unfold insert. simpl. destruct (k =? k') eqn:E.
  - apply Z.eqb_eq in E. lia.
  - apply lookup_remove_neq; auto.
Qed.
Lemma lookup_insert k k' l m :
  lookup k' (insert k l m) = if k =? k' then Some l else lookup k' m.
Proof.
  destruct (k =? k') eqn:E.
  - apply Z.eqb_eq in E. subst. apply lookup_insert_eq.
  - apply lookup_insert_neq. apply Z.eqb_neq in E. auto.
Qed.
Lemma lookup_remove k k' m :
  lookup k' (remove k m) = if k =? k' then None else lookup k' m.
Proof.
  destruct (k =? k') eqn:E.
  - apply Z.eqb_eq in E. subst. apply lookup_remove_eq.
  - apply lookup_remove_neq. apply Z.eqb_neq in E. auto.
Qed.
Lemma lookup_In_keys k m l : lookup k m = Some l -> In k (map fst m).
Proof.
  induction m as [|[k' v] r IH]; simpl; try discriminate.
  destruct (k' =? k) eqn:E; intro H.
  - apply Z.eqb_eq in E. auto.
  - right. auto.
Qed.
Lemma keys_In_lookup k m : In k (map fst m) -> exists l, lookup k m = Some l.
Proof.
  induction m as [|[k' v] r IH]; simpl; intro H; [tauto|].
  destruct (k' =? k) eqn:E; eauto.
  destruct H as [H|H]; [apply Z.eqb_neq in E; lia|auto].
Qed.
Lemma lookup_In_pair k m l : lookup k m = Some l -> In (k, l) m.
Proof.
  induction m as [|[k' v] r IH]; simpl; try discriminate.
  destruct (k' =? k) eqn:E; intro H.
  - apply Z.eqb_eq in E. inversion H. subst. auto.
  - right. auto.
Qed.
Lemma In_pair_lookup k m l : NoDup (map fst m) -> In (k, l) m -> lookup k m = Some l.
Proof.
  induction m as [|[k' v] r IH]; simpl; intros ND H; [tauto|].
  inversion ND as [|? ? Hn ND']; subst.
  destruct H as [H|H].
  - inversion H. subst. rewrite Z.eqb_refl. auto.
  - destruct (k' =? k) eqn:E.
    + apply Z.eqb_eq in E. subst. exfalso. apply Hn. change k with (fst (k, l)). apply in_map. auto.
    + auto.
Qed.
Lemma keys_remove x k m : In x (map fst (remove k m)) <-> In x (map fst m) /\ x <> k.
Proof.
  induction m as [|[k' v] r IH]; simpl; [tauto|].
  destruct (k' =? k) eqn:E.
  - apply Z.eqb_eq in E. subst. rewrite IH. split; [tauto|]. intros [[H|H] N]; [congruence|tauto].
  - apply Z.eqb_neq in E. simpl. rewrite IH. split.
    + intros [H|H]; [subst; tauto|tauto].
    + tauto.
Qed.
Lemma NoDup_remove k m : NoDup (map fst m) -> NoDup (map fst (remove k m)).
Proof.
  induction m as [|[k' v] r IH]; simpl; intro ND; auto.
  inversion ND as [|? ? Hn ND']; subst.
  destruct (k' =? k) eqn:E; auto.
  simpl. constructor; auto. rewrite keys_remove. tauto.
Qed.
Lemma NoDup_insert k l m : NoDup (map fst m) -> NoDup (map fst (insert k l m)).
Proof.
  intro ND. unfold insert. simpl. constructor.
  - rewrite keys_remove. tauto.
  - apply NoDup_remove. auto.
Qed.
Lemma keys_insert x k l m : In x (map fst (insert k l m)) <-> x = k \/ In x (map fst m).
Proof.
  unfold insert. simpl. rewrite keys_remove. split.
  - intros [H|H]; [auto|tauto].
  - intros [H|H]; [auto|]. destruct (Z.eq_dec x k); [auto|tauto].
Qed.

(* ---- ordered key set ------------------------------------------------------ *)
Lemma sset_nil : sset [].
Proof. constructor. Qed.
Lemma sset_cons x l : sset (x :: l) <-> sset l /\ Forall (fun y => x < y) l.
Proof. split; [intro H; inversion H; auto|intros [H1 H2]; constructor; auto]. Qed.
Lemma kins_In i l x : In x (kins i l) <-> x = i \/ In x l.
Proof.
  induction l as [|y r IH]; simpl.
  - intuition.
  - destruct (i <? y) eqn:E1.
    + simpl. intuition.
    + destruct (y <? i) eqn:E2.
      * simpl. rewrite IH. intuition.
      * assert (y = i) by (apply Z.ltb_ge in E1, E2; lia). subst. simpl. intuition.
Qed.
Lemma kins_sset i l : sset l -> sset (kins i l).
Proof.
  induction l as [|y r IH]; simpl; intro H.
  - repeat constructor.
  - apply sset_cons in H. destruct H as [Hs Hf].
    destruct (i <? y) eqn:E1.
    + apply Z.ltb_lt in E1. constructor; [apply sset_cons; auto|].
      constructor; auto. eapply Forall_impl; [|exact Hf]. simpl. lia.
    + destruct (y <? i) eqn:E2; [|apply sset_cons; auto].
      apply Z.ltb_lt in E2. apply sset_cons. split; auto.
      apply Forall_forall. intros x Hx. apply kins_In in Hx. destruct Hx as [->|Hx]; auto.
      rewrite Forall_forall in Hf. auto.
Qed.
Lemma kdel_In i l x : sset l -> (In x (kdel i l) <-> In x l /\ x <> i).
Proof.
  induction l as [|y r IH]; simpl; intro H; [tauto|].
  apply sset_cons in H. destruct H as [Hs Hf].
  destruct (y =? i) eqn:E.
  - apply Z.eqb_eq in E. subst. rewrite Forall_forall in Hf. split.
    + intro Hx. split; auto. apply Hf in Hx. lia.
    + intros [[H|H] N]; [congruence|auto].
  - apply Z.eqb_neq in E. simpl. rewrite IH; auto. split.
    + intros [H|H]; [subst; auto|tauto].
    + tauto.
Qed.
Lemma kdel_incl i l x : In x (kdel i l) -> In x l.
Proof.
  induction l as [|y r IH]; simpl; auto.
  destruct (y =? i); simpl; intuition.
Qed.
Lemma kdel_sset i l : sset l -> sset (kdel i l).
Proof.
  induction l as [|y r IH]; simpl; intro H; auto.
  apply sset_cons in H. destruct H as [Hs Hf].
  destruct (y =? i); auto. apply sset_cons. split; auto.
  apply Forall_forall. intros x Hx. apply kdel_incl in Hx. rewrite Forall_forall in Hf. auto.
Qed.
Lemma fold_kins_In (pi : list Z) s x :
  In x (fold_left (fun s p => kins p s) pi s) <-> In x pi \/ In x s.
Proof.
  revert s. induction pi as [|p r IH]; simpl; intro s; [tauto|].
  rewrite IH, kins_In. intuition.
Qed.
Lemma fold_kins_sset (pi : list Z) s : sset s -> sset (fold_left (fun s p => kins p s) pi s).
Proof. revert s. induction pi as [|p r IH]; simpl; intros s H; auto. apply IH, kins_sset, H. Qed.

Lemma first_gt_In i l x : first_gt i l = Some x -> In x l /\ i < x.
Proof. unfold first_gt. intro H. apply find_some in H. destruct H as [H1 H2]. apply Z.ltb_lt in H2. auto. Qed.
Lemma first_ge_In i l x : first_ge i l = Some x -> In x l /\ i <= x.
Proof. unfold first_ge. intro H. apply find_some in H. destruct H as [H1 H2]. apply Z.leb_le in H2. auto. Qed.

(* a strictly ascending list inside [a, a+n) has at most n elements *)
Lemma sset_length_le l : sset l -> forall a n, Forall (fun x => a <= x < a + n) l -> Z.of_nat (length l) <= Z.max 0 n.
Proof.
  induction l as [|y r IH]; intros H a n F; simpl length; [lia|].
  apply sset_cons in H. destruct H as [Hs Hf].
  inversion F as [|? ? Hy Fr]; subst.
  assert (Z.of_nat (length r) <= Z.max 0 (a + n - (y + 1))).
  { apply (IH Hs (y + 1)). rewrite Forall_forall in *. intros x Hx.
    specialize (Hf x Hx). specialize (Fr x Hx). simpl in *. lia. }
  rewrite Nat2Z.inj_succ. lia.
Qed.

(* ---- lists ---------------------------------------------------------------- *)
Lemma upd_length {X} n (x : X) l : length (upd n x l) = length l.
Proof. revert n. induction l; intros [|n]; simpl; auto. Qed.
Lemma nth_upd_eq {X} n (x d : X) l : (n < length l)%nat -> nth n (upd n x l) d = x.
Proof. revert n. induction l; intros [|n]; simpl; intros; try lia; auto. apply IHl. lia. Qed.
Lemma nth_upd_neq {X} n m (x d : X) l : n <> m -> nth m (upd n x l) d = nth m l d.
Proof. revert n m. induction l; intros [|n] [|m]; simpl; intros; try lia; auto. Qed.
Lemma Forall_upd {X} (P : X -> Prop) l n x : Forall P l -> P x -> Forall P (upd n x l).
Proof.
  revert n. induction l; intros [|n] F Hx; simpl; auto; inversion F; subst; constructor; auto.
Qed.
Lemma Forall_nth_d {X} (P : X -> Prop) l n d : Forall P l -> P d -> P (nth n l d).
Proof. revert n. induction l; intros [|n] F Hd; simpl; auto; inversion F; subst; auto. Qed.
Lemma hget_hset_eq h l x : (l < length h)%nat -> hget (hset h l x) l = x.
Proof. apply nth_upd_eq. Qed.
Lemma hget_hset_neq h l l' x : l <> l' -> hget (hset h l x) l' = hget h l'.
Proof. apply nth_upd_neq. Qed.
Lemma hset_length h l x : length (hset h l x) = length h.
Proof. apply upd_length. Qed.
