(* C11, round 5 — the plain dense reading of sparse-matrix iteration started in the
   middle (ModelMatFrom.v).  Spec-level file (short, no proofs).

   On a plain dense r x c matrix, ConstIteratorFrom(i,j) delivers the elements
   (i', j', x) with x <> 0 at the positions (i', j') >= (i, j) in row-major order —
   the FIRST delivered position included: nothing that reads zero is ever delivered,
   whatever the history left in the private map (zeros written through
   At().Set(0), produced by arithmetic or Reset, entries merely created by At()).
   The operation changes no element and no dimension. *)
From Coq Require Import ZArith List Bool Lia.
From ADV Require Import C11.Model C11.Spec C11.Dense C11.ModelMat C11.ProofsMatSpec C11.ProofsMatDense C11.DenseMat
                        C11.ModelMatFrom.
Import ListNotations.
Open Scope Z_scope.

(* (i', j') >= (i, j), row-major *)
Definition pos_geb (i j : Z) (e : (Z * Z) * Z) : bool :=
  (i <? fst (fst e)) || ((i =? fst (fst e)) && (j <=? snd (fst e))).
Definition dm_entries_from (a : dmat) (i j : Z) : list ((Z * Z) * Z) := filter (pos_geb i j) (dm_entries a).

Definition mdstep2 (d : dmworld) (o : mop2) : dmworld :=
  match o with MB o => mdstep d o | MIterFrom _ _ _ | MIterFromPart _ _ _ _ => d end.
Definition mdense_run2 (d : dmworld) (ops : list mop2) : dmworld := fold_left mdstep2 ops d.
Definition mdout2 (d : dmworld) (o : mop2) : option (list Z) :=
  match o with
  | MB o => mdout d o
  | MIterFrom t i j => Some (flat3 (dm_entries_from (dmget d t) i j))
  | MIterFromPart t i j n => Some (flat3 (firstn n (dm_entries_from (dmget d t) i j)))
  end.

Definition min_range2 (w : mworld) (o : mop2) : Prop :=
  match o with
  | MB o => min_range w o
  | MIterFrom t i j | MIterFromPart t i j _ => mhas w t /\ pos_ok (getm w t) i j
  end.
Definition msafe2 (w : mworld) (o : mop2) : Prop :=
  match o with MB o => msafe w o | _ => True end.
Definition mcode2 (w : mworld) (o : mop2) : Z :=
  match o with
  | MB (MSwapRows t _ _) | MB (MSwapColumns t _ _) => if mrows (getm w t) =? mcols (getm w t) then K_OK else K_ERR
  | _ => K_OK
  end.
Fixpoint mvalid_safe2 (w : mworld) (ops : list mop2) : Prop :=
  match ops with
  | [] => True
  | o :: r => min_range2 w o /\ msafe2 w o /\ mvalid_safe2 (fst (mstep2 w o)) r
  end.

(* ---- pending zeros: what the class of histories is about ------------------------- *)
(* key k of `values` is in the index but reads zero: a stored zero or a value-less key *)
Definition pending_zero (h : heap) (m : smat) (k : Z) : Prop :=
  In k (idx (mv m)) /\ isnull h (mv m) k = true.

(* ---- executable versions (used by the correspondence run CorrMat3) ---------------- *)
Definition min_rangeb2 (w : mworld) (o : mop2) : bool :=
  match o with
  | MB o => min_rangeb w o
  | MIterFrom t i j | MIterFromPart t i j _ => mhasb w t && pos_okb (getm w t) i j
  end.
Definition msafeb2 (w : mworld) (o : mop2) : bool :=
  match o with MB o => msafeb w o | _ => true end.
Fixpoint mdense_diverge2 (k : nat) (w : mworld) (d : dmworld) (ops : list mop2) : option nat :=
  match ops with
  | [] => None
  | o :: r =>
      let '(w', (c, p)) := mstep2 w o in
      if negb (min_rangeb2 w o) then None else
      if msafeb2 w o then
        let d' := mdstep2 d o in
        if dmw_eqb (mabsw w') d' && (c =? mcode2 w o) &&
           match mdout2 d o with Some q => zl_eqb p q | None => true end
        then mdense_diverge2 (S k) w' d' r else Some k
      else mdense_diverge2 (S k) w' (mabsw w') r
  end.
(* number of operations of the history that START an iteration on a pending zero: the
   first index key at or after the start key reads zero (non-triviality measure) *)
Definition starts_on_pending (w : mworld) (o : mop2) : bool :=
  match o with
  | MIterFrom t i j | MIterFromPart t i j _ =>
      match mindex (getm w t) i j with
      | Some k => match first_ge k (idx (mv (getm w t))) with
                  | Some p => isnull (mhp w) (mv (getm w t)) p
                  | None => false end
      | None => false end
  | _ => false
  end.
Fixpoint count_pending_starts (w : mworld) (ops : list mop2) : nat :=
  match ops with
  | [] => O
  | o :: r => ((if starts_on_pending w o then 1 else 0) + count_pending_starts (fst (mstep2 w o)) r)%nat
  end.
