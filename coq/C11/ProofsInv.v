(* C11 — the coherence invariant is preserved by every operation. *)
From Coq Require Import ZArith List Bool Lia Sorted.
From ADV Require Import C11.Model C11.Spec C11.ProofsMap C11.ProofsIter.
Import ListNotations.
Open Scope Z_scope.

Ltac inv_split H := destruct H as (?Hs & ?Hn & ?Hd & ?Hr & ?Hdim).

Lemma Inv_intro v :
  sset (idx v) -> NoDup (map fst (vals v)) ->
  (forall k l, lookup k (vals v) = Some l -> In k (idx v)) ->
  (forall k, In k (idx v) -> 0 <= k < dim v) -> 0 <= dim v -> Inv v.
Proof. unfold Inv. auto. Qed.

Lemma Inv_nil n : 0 <= n -> Inv (nil_vec n).
Proof.
  intro H. apply Inv_intro; simpl; auto.
  - apply sset_nil.
  - constructor.
  - discriminate.
  - intros k F. destruct F.
Qed.

(* adding an entry (key in range) *)
Lemma Inv_add v k l :
  Inv v -> 0 <= k < dim v ->
  Inv {| vals := insert k l (vals v); idx := kins k (idx v); dim := dim v |}.
Proof.
  intros H Hk. inv_split H. apply Inv_intro; cbn [vals idx dim]; auto.
  - apply kins_sset; auto.
  - apply NoDup_insert; auto.
  - intros k' l'. rewrite lookup_insert, kins_In. destruct (k =? k') eqn:E.
    + apply Z.eqb_eq in E. auto.
    + intro HH. right. eauto.
  - intros k' H. apply kins_In in H. destruct H as [->|H]; [lia|apply Hr; auto].
Qed.

Lemma Inv_at h v i h' v' l : Inv v -> at_ h v i = Some (h', v', l) -> Inv v'.
Proof.
  intros H. unfold at_, in_bounds. destruct ((0 <=? i) && (i <? dim v)) eqn:B; [|discriminate].
  apply andb_prop in B. destruct B as [B1 B2]. apply Z.leb_le in B1. apply Z.ltb_lt in B2.
  destruct (lookup i (vals v)) eqn:L.
  - intro E. inversion E. subst. auto.
  - simpl. intro E. inversion E. subst. apply Inv_add; auto.
Qed.

Lemma Inv_del k v : Inv v -> Inv (del_entry k v).
Proof.
  intro H. inv_split H. apply Inv_intro; unfold del_entry; cbn [vals idx dim]; auto.
  - apply kdel_sset; auto.
  - apply NoDup_remove; auto.
  - intros k' l'. rewrite lookup_remove. destruct (k =? k') eqn:E; [discriminate|].
    intro HH. apply kdel_In; auto. apply Z.eqb_neq in E. split; eauto.
  - intros k' H. apply kdel_incl in H. apply Hr; auto.
Qed.

Lemma Inv_skip f : forall h v cur v' c', Inv v -> skip f h v cur = Some (v', c') -> Inv v'.
Proof.
  induction f as [|f IH]; intros h v cur v' c' H; simpl; destruct cur as [k|];
    try (intro E; inversion E; subst; auto; fail).
  - destruct (isnull h v k); intro E; inversion E; subst; auto.
  - destruct (isnull h v k).
    + intro E. eapply IH; [|exact E]. apply Inv_del; auto.
    + intro E; inversion E; subst; auto.
Qed.
Lemma Inv_it_next h v cur v' c' : Inv v -> it_next h v cur = Some (v', c') -> Inv v'.
Proof.
  unfold it_next. destruct cur; intros H E.
  - eapply Inv_skip; eauto.
  - inversion E; subst; auto.
Qed.
Lemma Inv_it_begin h v v' c' : Inv v -> it_begin h v = Some (v', c') -> Inv v'.
Proof. unfold it_begin. intros. eapply Inv_skip; eauto. Qed.
Lemma Inv_it_from h v i v' c' : Inv v -> it_from h v i = Some (v', c') -> Inv v'.
Proof. unfold it_from. intros. eapply Inv_skip; eauto. Qed.

Lemma Inv_iter_loop f : forall h v cur acc v' s, Inv v -> iter_loop f h v cur acc = Some (v', s) -> Inv v'.
Proof.
  induction f as [|f IH]; intros h v cur acc v' s H; simpl; destruct cur as [k|];
    try (intro E; inversion E; subst; auto; fail); try discriminate.
  destruct (lookup k (vals v)); [|discriminate].
  destruct (it_next h v (Some k)) as [[v1 c1]|] eqn:N; [|discriminate].
  intro E. eapply IH; [|exact E]. eapply Inv_it_next; eauto.
Qed.
Lemma Inv_iter_part m : forall h v cur acc v' s, Inv v -> iter_part m h v cur acc = Some (v', s) -> Inv v'.
Proof.
  induction m as [|m IH]; intros h v cur acc v' s H; simpl.
  - intro E; inversion E; subst; auto.
  - destruct cur as [k|]; [|intro E; inversion E; subst; auto].
    destruct (lookup k (vals v)); [|discriminate].
    destruct (it_next h v (Some k)) as [[v1 c1]|] eqn:N; [|discriminate].
    intro E. eapply IH; [|exact E]. eapply Inv_it_next; eauto.
Qed.
Lemma Inv_iterate h v v' s : Inv v -> iterate h v = Some (v', s) -> Inv v'.
Proof.
  unfold iterate. intro H. destruct (it_begin h v) as [[v1 c1]|] eqn:B; [|discriminate].
  intro E. eapply Inv_iter_loop; [|exact E]. eapply Inv_it_begin; eauto.
Qed.

(* ---- Swap ---------------------------------------------------------------- *)
Lemma Inv_swap v i j : Inv v -> idx_ok v i -> idx_ok v j -> Inv (swap v i j).
Proof.
  intros H Hi Hj. unfold swap, idx_ok in *.
  destruct (lookup i (vals v)) as [l1|] eqn:L1; destruct (lookup j (vals v)) as [l2|] eqn:L2; auto.
  - inv_split H. apply Inv_intro; cbn [vals idx dim]; auto.
    + apply NoDup_insert, NoDup_insert; auto.
    + intros k' l'. rewrite !lookup_insert.
      destruct (j =? k') eqn:E1; [apply Z.eqb_eq in E1; subst; eauto|].
      destruct (i =? k') eqn:E2; [apply Z.eqb_eq in E2; subst; eauto|]. eauto.
  - apply (Inv_del i {| vals := insert j l1 (vals v); idx := kins j (idx v); dim := dim v |}).
    apply Inv_add; auto.
  - apply (Inv_del j {| vals := insert i l2 (vals v); idx := kins i (idx v); dim := dim v |}).
    apply Inv_add; auto.
Qed.

(* ---- Permute ------------------------------------------------------------- *)
Lemma swap_vals_keys m i p x :
  In x (map fst (swap_vals m i p)) -> In x (map fst m) \/ x = i \/ x = p.
Proof.
  unfold swap_vals. destruct (lookup i m) eqn:L1; destruct (lookup p m) eqn:L2; auto.
  - rewrite !keys_insert. tauto.
  - rewrite keys_remove, keys_insert. tauto.
  - rewrite keys_remove, keys_insert. tauto.
Qed.
Lemma swap_vals_NoDup m i p : NoDup (map fst m) -> NoDup (map fst (swap_vals m i p)).
Proof.
  intro H. unfold swap_vals. destruct (lookup i m); destruct (lookup p m); auto.
  - apply NoDup_insert, NoDup_insert; auto.
  - apply NoDup_remove, NoDup_insert; auto.
  - apply NoDup_remove, NoDup_insert; auto.
Qed.
Lemma permute_loop_keys n pi : forall i m m' b,
  0 <= i -> i + Z.of_nat (length pi) <= n ->
  NoDup (map fst m) -> (forall x, In x (map fst m) -> 0 <= x < n) ->
  permute_loop n pi i m = (m', b) ->
  NoDup (map fst m') /\ (forall x, In x (map fst m') -> 0 <= x < n).
Proof.
  induction pi as [|p r IH]; intros i m m' b Hi Hlen ND HR; simpl.
  - intro E. inversion E. subst. auto.
  - destruct ((p <? 0) || (n <=? p)) eqn:C.
    + intro E. inversion E. subst. auto.
    + apply orb_false_iff in C. destruct C as [C1 C2]. apply Z.ltb_ge in C1. apply Z.leb_gt in C2.
      simpl length in Hlen. rewrite Nat2Z.inj_succ in Hlen.
      apply IH; try lia.
      * destruct (i <? p); auto. apply swap_vals_NoDup; auto.
      * intros x Hx. destruct (i <? p); auto. apply swap_vals_keys in Hx.
        destruct Hx as [Hx|[->| ->]]; auto; lia.
Qed.
Lemma permute_loop_ok n pi : forall i m,
  Forall (fun p => 0 <= p < n) pi -> snd (permute_loop n pi i m) = true.
Proof.
  induction pi as [|p r IH]; intros i m F; simpl; auto.
  inversion F as [|? ? Hp Fr]; subst.
  destruct ((p <? 0) || (n <=? p)) eqn:C.
  - apply orb_true_iff in C. destruct C as [C|C]; [apply Z.ltb_lt in C|apply Z.leb_le in C]; lia.
  - apply IH; auto.
Qed.
Lemma Inv_permute v pi : Inv v -> perm_ok (dim v) pi -> Inv (fst (permute v pi)) /\ snd (permute v pi) = true.
Proof.
  intros H (Hlen & HF & Hall). unfold permute.
  rewrite Hlen, Z.eqb_refl. simpl negb. cbv iota.
  destruct (permute_loop (dim v) pi 0 (vals v)) as [m b] eqn:E.
  assert (b = true) by (pose proof (permute_loop_ok (dim v) pi 0 (vals v) HF) as Q; rewrite E in Q; auto).
  subst b. inv_split H.
  destruct (permute_loop_keys (dim v) pi 0 (vals v) m true) as [ND HR]; auto; try lia.
  { intros x Hx. apply keys_In_lookup in Hx. destruct Hx as [l Hl]. eauto. }
  split; auto. apply Inv_intro; cbn [fst vals idx dim]; auto.
  - apply fold_kins_sset, sset_nil.
  - intros k l Hl. apply fold_kins_In. left. apply Hall, HR. eapply lookup_In_keys; eauto.
  - intros k Hk. apply fold_kins_In in Hk. destruct Hk as [Hk|[]]. rewrite Forall_forall in HF. auto.
Qed.

(* ---- building a vector entry by entry (ReverseOrder, Sort, Slice, Append, New) *)
Lemma Inv_fold_add (g : Z * loc -> Z) es : forall r,
  Inv r -> Forall (fun kv => 0 <= g kv < dim r) es ->
  Inv {| vals := fold_left (fun m kv => insert (g kv) (snd kv) m) es (vals r);
         idx := fold_left (fun s kv => kins (g kv) s) es (idx r); dim := dim r |}.
Proof.
  induction es as [|a es IH]; intros r H F; simpl.
  - destruct r; auto.
  - inversion F as [|? ? Ha Fr]; subst.
    apply (IH {| vals := insert (g a) (snd a) (vals r); idx := kins (g a) (idx r); dim := dim r |}); auto.
    apply Inv_add; auto.
Qed.
Lemma Inv_reverse_order v : Inv v -> Inv (reverse_order v).
Proof.
  intro H. unfold reverse_order.
  apply (Inv_fold_add (fun kv => dim v - fst kv - 1) (vals v) (nil_vec (dim v))).
  - apply Inv_nil. inv_split H. auto.
  - inv_split H. apply Forall_forall. intros [k l] Hin. simpl.
    assert (In k (idx v)) by (eapply Hd, In_pair_lookup; eauto). apply Hr in H. lia.
Qed.

Lemma Inv_append_entries off seq : forall r,
  Inv r -> Forall (fun kl => 0 <= off + fst kl < dim r) seq -> Inv (append_entries off seq r).
Proof.
  unfold append_entries. induction seq as [|a s IH]; intros r H F; simpl; auto.
  inversion F; subst. apply IH; auto. apply Inv_add; auto.
Qed.
Lemma Inv_append_fresh xs : forall h k r h' r',
  Inv r -> 0 <= k -> k + Z.of_nat (length xs) <= dim r ->
  append_fresh h k xs r = (h', r') -> Inv r'.
Proof.
  induction xs as [|x xs IH]; intros h k r h' r' H Hk Hlen; simpl.
  - intro E. inversion E. subst. auto.
  - simpl length in Hlen. rewrite Nat2Z.inj_succ in Hlen.
    intro E. eapply IH; [| | |exact E]; cbn [dim]; try lia. apply Inv_add; auto. lia.
Qed.
Lemma Inv_slice_loop i j m ks : forall r,
  Inv r -> dim r = j - i -> Inv (slice_loop i j m ks r).
Proof.
  induction ks as [|k ks IH]; intros r H Hdim; simpl; auto.
  destruct (k <? i) eqn:C1; auto.
  destruct (j <=? k) eqn:C2; auto.
  apply Z.ltb_ge in C1. apply Z.leb_gt in C2.
  destruct (lookup k m); auto. apply IH; auto. apply Inv_add; auto. lia.
Qed.
Lemma Inv_slice v i j : i <= j -> Inv (slice v i j).
Proof. intro H. unfold slice. apply Inv_slice_loop; auto. apply Inv_nil. lia. Qed.
Lemma Inv_new_loop n ks : forall h xs r h' r',
  Inv r -> dim r = n -> Forall (fun k => 0 <= k < n) ks ->
  new_loop h n ks xs r = Some (h', r') -> Inv r'.
Proof.
  induction ks as [|k ks IH]; intros h xs r h' r' H Hdim F; simpl.
  - intro E. inversion E. subst. auto.
  - destruct xs as [|x xs]; [intro E; inversion E; subst; auto|].
    inversion F as [|? ? Hk Fr]; subst.
    destruct (dim r <=? k); [discriminate|].
    destruct (lookup k (vals r)); [discriminate|].
    destruct (x =? 0).
    + apply IH; auto.
    + simpl. apply IH; auto. apply Inv_add; auto.
Qed.
Lemma Inv_new h ks xs n h' v :
  0 <= n -> Forall (fun k => 0 <= k < n) ks -> new_vec h ks xs n = Some (h', v) -> Inv v.
Proof.
  intros Hn F. unfold new_vec. destruct (negb (Nat.eqb (length ks) (length xs))); [discriminate|].
  apply Inv_new_loop; auto. apply Inv_nil; auto.
Qed.

(* ---- Clone ---------------------------------------------------------------- *)
Lemma clone_fold_keys es : forall h m0,
  map fst (snd (fold_left (fun hm kv =>
     let '(h0, m0) := hm in let '(h1, l) := halloc h0 (hget h0 (snd kv)) in (h1, m0 ++ [(fst kv, l)])) es (h, m0)))
  = map fst m0 ++ map (@fst Z loc) es.
Proof.
  induction es as [|a es IH]; intros h m0; simpl.
  - rewrite app_nil_r. auto.
  - rewrite IH. rewrite map_app. simpl. rewrite <- app_assoc. auto.
Qed.
Lemma clone_keys h v : map fst (vals (snd (clone h v))) = map fst (vals v).
Proof.
  unfold clone.
  pose proof (clone_fold_keys (vals v) h []) as Q.
  destruct (fold_left _ (vals v) (h, [])) as [h' m]. simpl in *. auto.
Qed.
Lemma clone_idx_dim h v : idx (snd (clone h v)) = idx v /\ dim (snd (clone h v)) = dim v.
Proof. unfold clone. destruct (fold_left _ (vals v) (h, [])) as [h' m]. simpl. auto. Qed.
Lemma Inv_clone h v : Inv v -> Inv (snd (clone h v)).
Proof.
  intro H. inv_split H. destruct (clone_idx_dim h v) as [Ei Ed].
  apply Inv_intro; rewrite ?Ei, ?Ed, ?clone_keys; auto.
  intros k l Hl. apply lookup_In_keys in Hl. rewrite clone_keys in Hl.
  apply keys_In_lookup in Hl. destruct Hl as [l' Hl']. eauto.
Qed.
Lemma Inv_set_dim n v : Inv v -> dim v <= n -> Inv (set_dim n v).
Proof.
  intros H Hn. inv_split H. apply Inv_intro; unfold set_dim; cbn [vals idx dim]; auto; try lia.
  intros k Hk. apply Hr in Hk. lia.
Qed.

(* ---- Sort ------------------------------------------------------------------ *)
Lemma sset_NoDup l : sset l -> NoDup l.
Proof.
  induction l as [|x r IH]; intro H; constructor.
  - apply sset_cons in H. destruct H as [_ Hf]. rewrite Forall_forall in Hf.
    intro Hin. apply Hf in Hin. lia.
  - apply IH. apply sset_cons in H. tauto.
Qed.
Lemma ins_sorted_length le h c l : length (ins_sorted le h c l) = S (length l).
Proof. induction l as [|d r IH]; simpl; auto. destruct (le (hget h d) (hget h c)); simpl; auto. Qed.
Lemma sort_cells_length r h cs : length (sort_cells r h cs) = length cs.
Proof.
  unfold sort_cells.
  assert (G : forall acc, length (fold_left (fun acc c => ins_sorted (if r then Z.geb else Z.leb) h c acc) cs acc)
                          = (length cs + length acc)%nat).
  { induction cs as [|c cs IH]; intro acc; simpl; auto. rewrite IH, ins_sorted_length. lia. }
  rewrite G. simpl. lia.
Qed.
Lemma Inv_place h ip in_ cs : forall i v,
  Inv v -> 0 <= i -> 0 <= ip -> 0 <= in_ ->
  i + Z.of_nat (length cs) + ip <= dim v -> i + Z.of_nat (length cs) + in_ <= dim v ->
  Inv (place h ip in_ i cs v).
Proof.
  induction cs as [|c cs IH]; intros i v H Hi Hp Hn H1 H2; simpl; auto.
  simpl length in *. rewrite Nat2Z.inj_succ in *.
  apply IH; cbn [dim]; try lia. apply Inv_add; auto. destruct (0 <? hget h c); lia.
Qed.
Lemma Inv_sort h v r v' : Inv v -> sort h v r = Some v' -> Inv v'.
Proof.
  intros H. unfold sort.
  destruct (iterate_spec h v) as (v1 & A & B & C); [apply H|].
  rewrite A. intro E. inversion E. subst v'. clear E.
  assert (H1 : Inv v1) by (eapply Inv_iterate; eauto).
  destruct C as (C1 & C2 & C3).
  set (m := Z.of_nat (length (vals v1))).
  assert (Hlen : Z.of_nat (length (cells v (filter (nonnull h v) (idx v)))) = m).
  { unfold cells. rewrite map_length, <- B. unfold m. f_equal.
    inv_split H1. apply Nat.le_antisymm.
    - rewrite <- (map_length fst (vals v1)). apply NoDup_incl_length; [apply sset_NoDup; auto|].
      intros k Hk. rewrite B in Hk. apply filter_In in Hk. destruct Hk as [_ Hk].
      unfold nonnull in Hk. assert (N : isnull h v k = false) by (destruct (isnull h v k); auto; discriminate).
      specialize (C2 k N). unfold isnull in N. destruct (lookup k (vals v)) eqn:L; [|discriminate].
      eapply lookup_In_keys; eauto.
    - rewrite <- (map_length fst (vals v1)). apply NoDup_incl_length; auto.
      intros k Hk. apply keys_In_lookup in Hk. destruct Hk as [l Hl]. eauto. }
  assert (Hmn : m <= dim v).
  { inv_split H1. unfold m. rewrite <- (map_length fst (vals v1)).
    assert (HL : (length (map fst (vals v1)) <= length (idx v1))%nat).
    { apply NoDup_incl_length; auto. intros k Hk. apply keys_In_lookup in Hk. destruct Hk as [l Hl]. eauto. }
    pose proof (sset_length_le (idx v1) Hs 0 (dim v1)) as Q1.
    assert (HF : Forall (fun x => 0 <= x < 0 + dim v1) (idx v1)) by (apply Forall_forall; intros x Hx; apply Hr in Hx; lia).
    specialize (Q1 HF). rewrite C3 in *. lia. }
  assert (0 <= m) by (unfold m; lia).
  apply Inv_place; cbn [dim nil_vec]; try lia.
  - apply Inv_nil. apply H.
  - destruct r; lia.
  - destruct r; lia.
  - rewrite sort_cells_length, map_length, Hlen. destruct r; lia.
  - rewrite sort_cells_length, map_length, Hlen. destruct r; lia.
Qed.

(* ---- worlds ---------------------------------------------------------------- *)
Lemma WInv_getv w t : WInv w -> Inv (getv w t).
Proof. intro H. unfold getv. apply Forall_nth_d; auto. apply Inv_nil. lia. Qed.
Lemma WInv_setv w t v : WInv w -> Inv v -> WInv (setv w t v).
Proof. intros H Hv. unfold WInv, setv. simpl. apply Forall_upd; auto. Qed.
Lemma WInv_seth w h : WInv w -> WInv (seth w h).
Proof. auto. Qed.
Lemma WInv_addv w v : WInv w -> Inv v -> WInv (addv w v).
Proof. intros H Hv. unfold WInv, addv. simpl. apply Forall_app. auto. Qed.

Lemma ci_next_WInv w c w' c' : WInv w -> ci_next w c = Some (w', c') -> WInv w'.
Proof.
  intro H. destruct c as [u cur|d p]; simpl.
  - destruct (it_next (hp w) (getv w u) cur) as [[v1 c1]|] eqn:N; [|discriminate].
    intro E. inversion E. subst. apply WInv_setv; auto. eapply Inv_it_next; [|exact N]. apply WInv_getv; auto.
  - intro E. inversion E. subst. auto.
Qed.
Lemma ci_begin_WInv w o w' c' : WInv w -> ci_begin w o = Some (w', c') -> WInv w'.
Proof.
  intro H. destruct o as [u|d]; simpl.
  - destruct (it_begin (hp w) (getv w u)) as [[v1 c1]|] eqn:N; [|discriminate].
    intro E. inversion E. subst. apply WInv_setv; auto. eapply Inv_it_begin; [|exact N]. apply WInv_getv; auto.
  - intro E. inversion E. subst. auto.
Qed.
Lemma it_next_WInv w t cur v' c' : WInv w -> it_next (hp w) (getv w t) cur = Some (v', c') -> WInv (setv w t v').
Proof. intros H N. apply WInv_setv; auto. eapply Inv_it_next; [|exact N]. apply WInv_getv; auto. Qed.

Lemma joint_next_WInv w t j w' j' : WInv w -> joint_next w t j = Some (w', j') -> WInv w'.
Proof.
  intro H. unfold joint_next.
  destruct (match j1 j with Some k => (k, lookup k (vals (getv w t))) | None => (jidx j, None) end) as [i0 s1].
  destruct (if ci_ok (j2 j) then _ else _) as [[i1 s1'] s2].
  destruct s1' as [l|].
  - destruct (it_next (hp w) (getv w t) (j1 j)) as [[v1 c1]|] eqn:N; [|discriminate].
    pose proof (it_next_WInv _ _ _ _ _ H N) as H1.
    destruct s2.
    + destruct (ci_next (setv w t v1) (j2 j)) as [[w2 c2]|] eqn:N2; [|discriminate].
      intro E. inversion E. subst. eapply ci_next_WInv; eauto.
    + intro E. inversion E. subst. auto.
  - destruct s2.
    + destruct (ci_next w (j2 j)) as [[w2 c2]|] eqn:N2; [|discriminate].
      intro E. inversion E. subst. eapply ci_next_WInv; eauto.
    + intro E. inversion E. subst. auto.
Qed.
Lemma joint_begin_WInv w t o w' j' : WInv w -> joint_begin w t o = Some (w', j') -> WInv w'.
Proof.
  intro H. unfold joint_begin.
  destruct (it_begin (hp w) (getv w t)) as [[v1 c1]|] eqn:N; [|discriminate].
  assert (H1 : WInv (setv w t v1)).
  { apply WInv_setv; auto. eapply Inv_it_begin; [|exact N]. apply WInv_getv; auto. }
  destruct (ci_begin (setv w t v1) o) as [[w1 c2]|] eqn:N2; [|discriminate].
  intro E. eapply joint_next_WInv; [|exact E]. eapply ci_begin_WInv; eauto.
Qed.
Lemma joint_loop_WInv f : forall w t j acc w' r, WInv w -> joint_loop f w t j acc = Some (w', r) -> WInv w'.
Proof.
  induction f as [|f IH]; intros w t j acc w' r H; simpl; destruct (jok j);
    try discriminate; try (intro E; inversion E; subst; auto; fail).
  destruct (joint_next w t j) as [[w1 j1']|] eqn:N; [|discriminate].
  intro E. eapply IH; [|exact E]. eapply joint_next_WInv; eauto.
Qed.
Lemma set_loop_WInv f : forall w t j w' b, WInv w -> set_loop f w t j = Some (w', b) -> WInv w'.
Proof.
  induction f as [|f IH]; intros w t j w' b H; simpl; destruct (jok j);
    try discriminate; try (intro E; inversion E; subst; auto; fail).
  destruct (js1 j) as [l|].
  - destruct (joint_next (seth w (hset (hp w) l (jval (js2 j)))) t j) as [[w2 j']|] eqn:N; [|discriminate].
    intro E. eapply IH; [|exact E]. eapply joint_next_WInv; [|exact N]. apply WInv_seth; auto.
  - destruct (at_ (hp w) (getv w t) (jidx j)) as [[[h' v'] l]|] eqn:A; [|intro E; inversion E; subst; auto].
    destruct (joint_next (seth (setv w t v') (hset h' l (jval (js2 j)))) t j) as [[w2 j']|] eqn:N; [|discriminate].
    intro E. eapply IH; [|exact E]. eapply joint_next_WInv; [|exact N].
    apply WInv_seth, WInv_setv; auto. eapply Inv_at; [|exact A]. apply WInv_getv; auto.
Qed.
Lemma set_vec_WInv w t o w' b : WInv w -> set_vec w t o = Some (w', b) -> WInv w'.
Proof.
  intro H. unfold set_vec. destruct o as [u|d].
  - destruct (Nat.eqb t u); [intro E; inversion E; subst; auto|].
    destruct (negb (dim (getv w t) =? dim (getv w u))); [intro E; inversion E; subst; auto|].
    destruct (joint_begin w t (OS u)) as [[w1 j]|] eqn:B; [|discriminate].
    intro E. eapply set_loop_WInv; [|exact E]. eapply joint_begin_WInv; eauto.
  - destruct (negb (dim (getv w t) =? Z.of_nat (length d))); [intro E; inversion E; subst; auto|].
    destruct (joint_begin w t (OD d)) as [[w1 j]|] eqn:B; [|discriminate].
    intro E. eapply set_loop_WInv; [|exact E]. eapply joint_begin_WInv; eauto.
Qed.

Lemma joint3_next_WInv w t j w' j' : WInv w -> joint3_next w t j = Some (w', j') -> WInv w'.
Proof.
  intro H. unfold joint3_next.
  destruct (match k1 j with Some k => (k, lookup k (vals (getv w t))) | None => (kidx j, None) end) as [i0 s1].
  destruct (if ci_ok (k2 j) then _ else _) as [[i1 s1a] s2a].
  destruct (if ci_ok (k3 j) then _ else _) as [[[i2 s1b] s2b] s3b].
  assert (G : forall wa, WInv wa -> forall c,
             match (match s2b with Some _ => ci_next wa (k2 j) | None => Some (wa, k2 j) end) with
             | None => None
             | Some (w2, c2) =>
                 match (match s3b with Some _ => ci_next w2 (k3 j) | None => Some (w2, k3 j) end) with
                 | None => None
                 | Some (w3, c3) =>
                     Some (w3, {| k1 := c; k2 := c2; k3 := c3; kidx := i2; ks1 := s1b; ks2 := s2b; ks3 := s3b;
                                  kok := match s1b, s2b, s3b with None, None, None => false | _, _, _ => true end |})
                 end
             end = Some (w', j') -> WInv w').
  { intros wa Ha c.
    assert (exists w2 c2, (match s2b with Some _ => ci_next wa (k2 j) | None => Some (wa, k2 j) end) = Some (w2, c2) /\ WInv w2
            \/ (match s2b with Some _ => ci_next wa (k2 j) | None => Some (wa, k2 j) end) = None) as (w2 & c2 & [[E2 H2]|E2]).
    { destruct s2b.
      - destruct (ci_next wa (k2 j)) as [[w2 c2]|] eqn:N.
        + exists w2, c2. left. split; auto. eapply ci_next_WInv; eauto.
        + exists wa, (k2 j). right. auto.
      - exists wa, (k2 j). left. auto. }
    - rewrite E2. destruct s3b.
      + destruct (ci_next w2 (k3 j)) as [[w3 c3]|] eqn:N3; [|discriminate].
        intro E. inversion E. subst. eapply ci_next_WInv; eauto.
      + intro E. inversion E. subst. auto.
    - rewrite E2. discriminate. }
  destruct s1b as [l|].
  - destruct (it_next (hp w) (getv w t) (k1 j)) as [[v1 c1]|] eqn:N; [|discriminate].
    apply G. eapply it_next_WInv; eauto.
  - apply G. auto.
Qed.
Lemma joint3_loop_WInv f : forall w t j acc w' r, WInv w -> joint3_loop f w t j acc = Some (w', r) -> WInv w'.
Proof.
  induction f as [|f IH]; intros w t j acc w' r H; simpl; destruct (kok j);
    try discriminate; try (intro E; inversion E; subst; auto; fail).
  destruct (joint3_next w t j) as [[w1 j1']|] eqn:N; [|discriminate].
  intro E. eapply IH; [|exact E]. eapply joint3_next_WInv; eauto.
Qed.
Lemma joint3_run_WInv w t o2 o3 w' r : WInv w -> joint3_run w t o2 o3 = Some (w', r) -> WInv w'.
Proof.
  intro H. unfold joint3_run, joint3_begin.
  destruct (it_begin (hp w) (getv w t)) as [[v1 c1]|] eqn:N; [|discriminate].
  assert (H1 : WInv (setv w t v1)).
  { apply WInv_setv; auto. eapply Inv_it_begin; [|exact N]. apply WInv_getv; auto. }
  destruct (ci_begin (setv w t v1) o2) as [[w1 c2]|] eqn:N2; [|discriminate].
  assert (H2 : WInv w1) by (eapply ci_begin_WInv; eauto).
  destruct (ci_begin w1 o3) as [[w2 c3]|] eqn:N3; [|discriminate].
  assert (H3 : WInv w2) by (eapply ci_begin_WInv; eauto).
  destruct (joint3_next w2 t _) as [[w3 j]|] eqn:N4; [|discriminate].
  intro E. eapply joint3_loop_WInv; [|exact E]. eapply joint3_next_WInv; eauto.
Qed.
Lemma joint_run_WInv w t o w' r : WInv w -> joint_run w t o = Some (w', r) -> WInv w'.
Proof.
  intro H. unfold joint_run. destruct (joint_begin w t o) as [[w1 j]|] eqn:B; [|discriminate].
  intro E. eapply joint_loop_WInv; [|exact E]. eapply joint_begin_WInv; eauto.
Qed.

(* ---- every in-range operation keeps every vector of the world coherent ------ *)
Lemma step_WInv w o : WInv w -> in_range w o -> WInv (fst (step w o)).
Proof.
  intros H R. assert (G : forall t, Inv (getv w t)) by (intro t0; apply WInv_getv; auto).
  destruct o; simpl in R; cbn [step].
  - (* New *) destruct R as (R1 & R2 & R3 & R4).
    destruct (new_vec (hp w) ks xs n) as [[h' v]|] eqn:E; simpl; auto.
    apply WInv_addv; auto. eapply Inv_new; eauto.
  - (* At *) destruct (at_ (hp w) (getv w t) i) as [[[h' v'] l]|] eqn:E; simpl; auto.
    apply WInv_setv; auto. eapply Inv_at; eauto.
  - (* SetAt *) destruct (at_ (hp w) (getv w t) i) as [[[h' v'] l]|] eqn:E; simpl; auto.
    apply WInv_setv; auto. eapply Inv_at; eauto.
  - (* ConstAt *) destruct (const_at (hp w) (getv w t) i); simpl; auto.
  - (* SetV *) destruct (set_vec w t o) as [[w' b]|] eqn:E; simpl; auto. eapply set_vec_WInv; eauto.
  - (* SETV *) destruct (set_vec w t (OS u)) as [[w' b]|] eqn:E; simpl; auto. eapply set_vec_WInv; eauto.
  - (* Reset *) simpl. auto.
  - (* ReverseOrder *) simpl. apply WInv_setv; auto. apply Inv_reverse_order; auto.
  - (* Swap *) simpl. destruct R as (R1 & R2 & R3). apply WInv_setv; auto. apply Inv_swap; auto.
  - (* Permute *) destruct R as (R1 & R2).
    destruct (Inv_permute (getv w t) pi (G t) R2) as [I1 I2].
    destruct (permute (getv w t) pi) as [v' ok]. simpl in *. apply WInv_setv; auto.
  - (* Sort *) destruct (sort (hp w) (getv w t) r) as [v'|] eqn:E; simpl; auto.
    apply WInv_setv; auto. eapply Inv_sort; eauto.
  - (* Slice *) simpl. apply WInv_addv; auto. apply Inv_slice. lia.
  - (* AppendV *)
    destruct (clone (hp w) (getv w t)) as [h1 r] eqn:C.
    assert (Ir : Inv r) by (pose proof (Inv_clone (hp w) (getv w t) (G t)) as Q0; rewrite C in Q0; auto).
    assert (Er : dim r = dim (getv w t)) by (pose proof (clone_idx_dim (hp w) (getv w t)) as Q0; rewrite C in Q0; apply Q0).
    destruct (iterate h1 (getv (seth w h1) u)) as [[u' sq]|] eqn:E; simpl; auto.
    assert (Iu : Inv (getv w u)) by auto.
    change (getv (seth w h1) u) with (getv w u) in E.
    destruct (iterate_spec h1 (getv w u)) as (u1 & A1 & B1 & C1); [apply Iu|].
    rewrite A1 in E. inversion E. subst u' sq. clear E.
    apply WInv_addv.
    + apply (WInv_setv (seth w h1)); auto. eapply Inv_iterate; eauto.
    + assert (Du : 0 <= dim (getv w u)) by apply Iu. assert (Dt : 0 <= dim (getv w t)) by apply (G t).
      apply Inv_append_entries.
      * apply Inv_set_dim; auto. lia.
      * unfold set_dim, cells. cbn [dim]. apply Forall_forall. intros [k l] Hin.
        apply in_map_iff in Hin. destruct Hin as (k0 & E0 & Hin). inversion E0. subst. simpl.
        apply filter_In in Hin. destruct Hin as [Hin _]. apply Iu in Hin. lia.
  - (* AppendS *)
    destruct (clone (hp w) (getv w t)) as [h1 r] eqn:C.
    assert (Ir : Inv r) by (pose proof (Inv_clone (hp w) (getv w t) (G t)) as Q0; rewrite C in Q0; auto).
    assert (Er : dim r = dim (getv w t)) by (pose proof (clone_idx_dim (hp w) (getv w t)) as Q0; rewrite C in Q0; apply Q0).
    destruct (append_fresh h1 (dim (getv w t)) xs _) as [h2 r'] eqn:E. simpl.
    apply WInv_addv; auto. assert (Dt : 0 <= dim (getv w t)) by apply (G t).
    eapply Inv_append_fresh; [| | |exact E]; auto.
    + apply Inv_set_dim; auto. lia.
    + unfold set_dim. cbn [dim]. lia.
  - (* AppendD *)
    destruct (clone (hp w) (getv w t)) as [h1 r] eqn:C.
    assert (Ir : Inv r) by (pose proof (Inv_clone (hp w) (getv w t) (G t)) as Q0; rewrite C in Q0; auto).
    assert (Er : dim r = dim (getv w t)) by (pose proof (clone_idx_dim (hp w) (getv w t)) as Q0; rewrite C in Q0; apply Q0).
    destruct (append_fresh h1 (dim (getv w t)) d _) as [h2 r'] eqn:E. simpl.
    apply WInv_addv; auto. assert (Dt : 0 <= dim (getv w t)) by apply (G t).
    eapply Inv_append_fresh; [| | |exact E]; auto.
    + apply Inv_set_dim; auto. lia.
    + unfold set_dim. cbn [dim]. lia.
  - simpl. auto.
  - simpl. auto.
  - simpl. auto.
  - simpl. auto.
  - (* Iterate *) destruct (iterate (hp w) (getv w t)) as [[v' s]|] eqn:E; simpl; auto.
    apply WInv_setv; auto. eapply Inv_iterate; eauto.
  - (* IterPart *) destruct (it_begin (hp w) (getv w t)) as [[v0 cur]|] eqn:B; simpl; auto.
    destruct (iter_part m (hp w) v0 cur []) as [[v' s]|] eqn:E; simpl; auto.
    apply WInv_setv; auto. eapply Inv_iter_part; [|exact E]. eapply Inv_it_begin; eauto.
  - (* IterFrom *) destruct (it_from (hp w) (getv w t) i) as [[v0 cur]|] eqn:B; cbn [fst]; auto.
    destruct (iter_loop (sfuel (getv w t)) (hp w) v0 cur []) as [[v' s]|] eqn:E; cbn [fst]; auto.
    apply WInv_setv; auto. eapply Inv_iter_loop; [|exact E]. eapply Inv_it_from; eauto.
  - (* Clone *) destruct (clone (hp w) (getv w t)) as [h1 r] eqn:C. simpl.
    apply WInv_addv; auto. pose proof (Inv_clone (hp w) (getv w t) (G t)) as Q0. rewrite C in Q0. auto.
  - (* Joint *) destruct (joint_run w t o) as [[w' vis]|] eqn:E; simpl; auto. eapply joint_run_WInv; eauto.
  - (* Joint3 *) destruct (joint3_run w t o2 o3) as [[w' vis]|] eqn:E; simpl; auto. eapply joint3_run_WInv; eauto.
Qed.

Lemma WInv_init : WInv init.
Proof. constructor. Qed.
Lemma run_WInv ops : forall w, WInv w -> valid w ops -> WInv (run w ops).
Proof.
  induction ops as [|o r IH]; intros w H V; simpl; auto.
  destruct V as [V1 V2]. apply IH; auto. apply step_WInv; auto.
Qed.
