(* C11, sparse matrices — Tip(): the in-place transposition by cycle following
   (ModelMat.tip_inner / tip_outer / mtip) is TOTAL (the fuel S(mn) per cycle is
   never exhausted) and REFINES dense transposition.

   Mathematics.  mn = rows*cols, N = mn-1.  The code moves along
       s(k) = k                 if k = N
            = (rows*k) rem N    otherwise,
   a permutation of [0,N] whose inverse is t(k) = (cols*k) rem N (k <> N), because
   rows*cols = N+1 is 1 modulo N.  For a position (i,j) of the transposed matrix,
   t(i*rows + j) = j*cols + i.  One cycle with leader c performs the swaps
   (s c, c), (s^2 c, c), ..., (c, c); afterwards every position x of the cycle
   holds the entry that was at t(x).  Everything is stated on the lookup function
   k |-> lookup k (vals v) (a swap only moves cells between keys), from which the
   element function peek, the set of cells and Wf follow.
   Termination: the positions pushed on `visited` during one cycle are pairwise
   distinct elements of [0,N] different from the leader, so at most N of them. *)
From Coq Require Import ZArith List Bool Lia.
From ADV Require Import C11.Model C11.Spec C11.Dense C11.ProofsInv C11.ProofsRef C11.ProofsD1 C11.ProofsD2
                        C11.ModelMat C11.ProofsMatSpec C11.ProofsMat C11.ProofsMatRef C11.ProofsMatDense
                        C11.DenseMat.
Import ListNotations.
Open Scope Z_scope.

(* ---- the position map of the code ---------------------------------------------------- *)
Definition pm (a N k : Z) : Z := if k =? N then k else Z.rem (a * k) N.

Lemma pm_range a N k : 0 <= a -> 1 <= N -> 0 <= k <= N -> 0 <= pm a N k <= N.
Proof.
  intros Ha HN Hk. unfold pm. destruct (k =? N); [lia|].
  assert (H0 : 0 <= a * k) by nia.
  pose proof (Z.rem_bound_pos (a * k) N H0 ltac:(lia)). lia.
Qed.
Lemma pm_inv a b N k :
  0 <= a -> 0 <= b -> a * b = N + 1 -> 1 <= N -> 0 <= k <= N -> pm b N (pm a N k) = k.
Proof.
  intros Ha Hb Hab HN Hk. unfold pm at 2. destruct (k =? N) eqn:E.
  - apply Z.eqb_eq in E. subst k. unfold pm. rewrite Z.eqb_refl. reflexivity.
  - apply Z.eqb_neq in E.
    assert (H0 : 0 <= a * k) by nia.
    rewrite Z.rem_mod_nonneg by lia.
    pose proof (Z.mod_pos_bound (a * k) N ltac:(lia)) as B.
    unfold pm. destruct ((a * k) mod N =? N) eqn:E2; [apply Z.eqb_eq in E2; lia|].
    assert (H1 : 0 <= b * ((a * k) mod N)) by nia.
    rewrite Z.rem_mod_nonneg by lia.
    rewrite Z.mul_mod_idemp_r by lia.
    replace (b * (a * k)) with (k + k * N) by nia.
    rewrite Z_mod_plus_full. apply Z.mod_small. lia.
Qed.
(* the key of (j,i) in an a-column matrix is sent to the key of (i,j) in a b-column one *)
Lemma pm_index a b N i j :
  a * b = N + 1 -> 1 <= N -> 0 <= i < a -> 0 <= j < b -> pm a N (i * b + j) = j * a + i.
Proof.
  intros Hab HN Hi Hj. unfold pm.
  assert (U : i * b + j <= N) by nia.
  destruct (i * b + j =? N) eqn:E.
  - apply Z.eqb_eq in E.
    assert (Ei : i = a - 1) by nia. subst i. assert (Ej : j = b - 1) by nia. subst j. nia.
  - apply Z.eqb_neq in E.
    assert (H0 : 0 <= a * (i * b + j)) by nia.
    rewrite Z.rem_mod_nonneg by lia.
    replace (a * (i * b + j)) with ((j * a + i) + i * N) by nia.
    rewrite Z_mod_plus_full. apply Z.mod_small.
    assert (V : j * a + i <= N) by nia.
    assert (j * a + i <> N).
    { intro Q. assert (Ej : j = b - 1) by nia. subst j. assert (Ei : i = a - 1) by nia. subst i. nia. }
    nia.
Qed.

(* ---- transpositions of keys, the lookup function -------------------------------------- *)
Lemma tr_same a x : tr a a x = x.
Proof. unfold tr. destruct (x =? a) eqn:E; auto. apply Z.eqb_eq in E. auto. Qed.
Lemma tr_l a b : tr a b a = b.
Proof. unfold tr. rewrite Z.eqb_refl. auto. Qed.
Lemma tr_r a b : tr a b b = a.
Proof. unfold tr. rewrite Z.eqb_refl. destruct (b =? a) eqn:E; auto. apply Z.eqb_eq in E. auto. Qed.
Lemma tr_other a b x : x <> a -> x <> b -> tr a b x = x.
Proof. intros H1 H2. unfold tr. apply Z.eqb_neq in H1, H2. rewrite H1, H2. auto. Qed.

Definition lk (v : svec) (k : Z) : option loc := lookup k (vals v).
Lemma lk_swap v a b k : lk (swap v a b) k = lk v (tr a b k).
Proof. unfold lk. rewrite vals_swap. apply lookup_swap_vals. Qed.

(* one unfolding of the inner loop, with the position map named *)
Lemma tip_inner_S f r N c k vis v :
  tip_inner (S f) r N c k vis v =
  if pm r N k =? c then Some (swap v (pm r N k) c, pm r N k :: vis)
  else tip_inner f r N c (pm r N k) (pm r N k :: vis) (swap v (pm r N k) c).
Proof. reflexivity. Qed.

(* any property kept by swap is kept by Tip's loops *)
Lemma tip_inner_keeps (P : svec -> Prop) :
  (forall v a b, P v -> P (swap v a b)) ->
  forall f r N c k vis v v' vis', P v -> tip_inner f r N c k vis v = Some (v', vis') -> P v'.
Proof.
  intros HP. induction f as [|f IH]; intros r N c k vis v v' vis' Pv; [discriminate|].
  rewrite tip_inner_S. destruct (pm r N k =? c).
  - intro E. inversion E. subst. apply HP. exact Pv.
  - intro E. eapply IH; [|exact E]. apply HP. exact Pv.
Qed.
Lemma tip_outer_keeps (P : svec -> Prop) :
  (forall v a b, P v -> P (swap v a b)) ->
  forall cs r mn vis v v', P v -> tip_outer cs r mn vis v = Some v' -> P v'.
Proof.
  intros HP. induction cs as [|cy cs IH]; intros r mn vis v v' Pv; cbn [tip_outer].
  - intro E. inversion E. subst. exact Pv.
  - destruct (kmem cy vis); [apply IH; exact Pv|].
    destruct (tip_inner (S (Z.to_nat mn)) r (mn - 1) cy cy vis v) as [[v1 vis1]|] eqn:T; [|discriminate].
    apply IH. eapply tip_inner_keeps; eauto.
Qed.

(* ---- the cycle-following argument ------------------------------------------------------ *)
Fixpoint itn (f : Z -> Z) (j : nat) (x : Z) : Z := match j with O => x | S j' => f (itn f j' x) end.
Section Cycles.
Variables r c mn : Z.
Hypothesis Hr : 0 <= r.
Hypothesis Hc : 0 <= c.
Hypothesis Hrc : r * c = mn.
Hypothesis Hmn : 2 <= mn.
Let N := mn - 1.
Let s := pm r N.
Let t := pm c N.

Lemma HN1 : 1 <= N.
Proof. unfold N. lia. Qed.
Lemma HrcN : r * c = N + 1.
Proof. unfold N. lia. Qed.
Lemma HcrN : c * r = N + 1.
Proof. unfold N. lia. Qed.
Lemma s_range k : 0 <= k <= N -> 0 <= s k <= N.
Proof. apply pm_range; [exact Hr|exact HN1]. Qed.
Lemma t_range k : 0 <= k <= N -> 0 <= t k <= N.
Proof. apply pm_range; [exact Hc|exact HN1]. Qed.
Lemma t_s k : 0 <= k <= N -> t (s k) = k.
Proof. apply pm_inv; [exact Hr|exact Hc|exact HrcN|exact HN1]. Qed.
Lemma s_t k : 0 <= k <= N -> s (t k) = k.
Proof. apply pm_inv; [exact Hc|exact Hr|exact HcrN|exact HN1]. Qed.

Lemma it_range j x : 0 <= x <= N -> 0 <= itn s j x <= N.
Proof. intro Hx. induction j as [|j IH]; cbn [itn]; [exact Hx|apply s_range; exact IH]. Qed.
(* the orbit cannot enter a t-closed set from outside *)
Lemma it_closed_back (V : list Z) j x :
  (forall y, In y V -> In (t y) V) -> 0 <= x <= N -> In (itn s j x) V -> In x V.
Proof.
  intros HV Hx. induction j as [|j IH]; cbn [itn]; [auto|].
  intro Hin. apply IH. apply HV in Hin. rewrite t_s in Hin; [exact Hin|apply it_range; exact Hx].
Qed.
(* a repetition along the orbit is a return to the start *)
Lemma it_cancel a b x :
  0 <= x <= N -> itn s (a + b) x = itn s a x -> itn s b x = x.
Proof.
  intro Hx. induction a as [|a IH]; cbn [itn plus]; [auto|].
  intro E. apply IH. apply (f_equal t) in E.
  rewrite !t_s in E by (apply it_range; exact Hx). exact E.
Qed.

(* the state between two cycles: [vis] is a t-closed set of FINAL positions (holding
   what was at t(x) originally), the positions outside [vis] are untouched *)
Definition OInv (v0 : svec) (vis : list Z) (v : svec) : Prop :=
  (forall x, In x vis -> 0 <= x <= N) /\ NoDup vis /\
  (forall x, In x vis -> In (t x) vis) /\
  (forall x, In x vis -> lk v x = lk v0 (t x)) /\
  (forall x, ~ In x vis -> lk v x = lk v0 x).

Lemma vis_bound (cy : Z) (vis : list Z) :
  (forall x, In x vis -> 0 <= x <= N) -> 0 <= cy <= N -> NoDup vis -> ~ In cy vis ->
  (length vis < Z.to_nat mn)%nat.
Proof.
  intros R Rc ND Hn.
  assert (L : (length (cy :: vis) <= length (zseq 0 (Z.to_nat mn)))%nat).
  { apply NoDup_incl_length; [constructor; auto|].
    intros x Hx. apply ProofsD1.In_zseq. rewrite Z2Nat.id by lia.
    destruct Hx as [<-|Hx]; [unfold N in Rc; lia|]. apply R in Hx. unfold N in Hx. lia. }
  rewrite zseq_length in L. cbn [length] in L. lia.
Qed.

(* the inner loop, after j steps of the cycle with leader cy *)
Lemma tip_inner_spec v0 V0 cy :
  0 <= cy <= N -> ~ In cy V0 -> (forall y, In y V0 -> In (t y) V0) ->
  forall f j k vis v,
  ~ In cy vis -> k = itn s j cy ->
  (forall i, (1 <= i <= j)%nat -> itn s i cy <> cy) ->
  (forall x, In x vis -> In x V0 \/ exists i, (1 <= i <= j)%nat /\ x = itn s i cy) ->
  (j = 0%nat \/ In k vis) ->
  (forall x, In x vis -> 0 <= x <= N) -> NoDup vis ->
  (forall x, In x vis -> In (t x) vis \/ t x = cy) ->
  (forall x, In x vis -> lk v x = lk v0 (t x)) ->
  (forall x, ~ In x vis -> x <> cy -> lk v x = lk v0 x) ->
  lk v cy = lk v0 k ->
  (length vis + f > Z.to_nat mn)%nat ->
  exists v' vis', tip_inner f r N cy k vis v = Some (v', vis') /\ OInv v0 vis' v' /\
                  (forall x, In x vis -> In x vis') /\ In cy vis'.
Proof.
  intros Rc NV0 CV0. induction f as [|f IH]; intros j k vis v Ncy Ek Nret Mem Kin R ND TC FA FB FC Fuel.
  { exfalso. pose proof (vis_bound cy vis R Rc ND Ncy). lia. }
  assert (Rk : 0 <= k <= N) by (rewrite Ek; apply it_range; exact Rc).
  rewrite tip_inner_S. fold s. set (k' := s k).
  assert (Ek' : k' = itn s (S j) cy) by (unfold k'; rewrite Ek; reflexivity).
  assert (Rk' : 0 <= k' <= N) by (apply s_range; exact Rk).
  assert (Tk' : t k' = k) by (apply t_s; exact Rk).
  assert (Nk' : ~ In k' vis).
  { intro Hin. destruct (Mem _ Hin) as [HV|(i & Hi & Ei)].
    - apply NV0. rewrite Ek' in HV. eapply it_closed_back; eauto.
    - rewrite Ek' in Ei. replace (S j) with (i + (S j - i))%nat in Ei by lia.
      apply it_cancel in Ei; [|exact Rc]. apply (Nret (S j - i)%nat); [lia|exact Ei]. }
  destruct (k' =? cy) eqn:E.
  - apply Z.eqb_eq in E. exists (swap v k' cy), (k' :: vis). split; [reflexivity|].
    rewrite E in *. split; [|split; [intros x Hx; right; exact Hx|left; reflexivity]].
    unfold OInv. split; [|split; [|split; [|split]]].
    + intros x [<-|Hx]; [exact Rc|apply R; exact Hx].
    + constructor; auto.
    + intros x [<-|Hx].
      * rewrite Tk'. destruct Kin as [J0|Kin]; [|right; exact Kin].
        left. rewrite Ek, J0. reflexivity.
      * destruct (TC x Hx) as [H|H]; [right; exact H|left; symmetry; exact H].
    + intros x Hx. rewrite lk_swap, tr_same. destruct Hx as [<-|Hx].
      * rewrite Tk'. exact FC.
      * apply FA. exact Hx.
    + intros x Hx. rewrite lk_swap, tr_same. apply FB.
      * intro H. apply Hx. right. exact H.
      * intro H. apply Hx. left. symmetry. exact H.
  - apply Z.eqb_neq in E.
    destruct (IH (S j) k' (k' :: vis) (swap v k' cy)) as (v' & vis' & T & O & Sub & Cin).
    + intros [H|H]; [apply E; exact H|apply Ncy; exact H].
    + exact Ek'.
    + intros i Hi. destruct (Nat.eq_dec i (S j)) as [->|Ne]; [rewrite <- Ek'; exact E|apply Nret; lia].
    + intros x [<-|Hx].
      * right. exists (S j). split; [lia|exact Ek'].
      * destruct (Mem x Hx) as [H|(i & Hi & Ei)]; [left; exact H|right; exists i; split; [lia|exact Ei]].
    + right. left. reflexivity.
    + intros x [<-|Hx]; [exact Rk'|apply R; exact Hx].
    + constructor; auto.
    + intros x [<-|Hx].
      * rewrite Tk'. destruct Kin as [J0|Kin]; [right; rewrite Ek, J0; reflexivity|left; right; exact Kin].
      * destruct (TC x Hx) as [H|H]; [left; right; exact H|right; exact H].
    + intros x [<-|Hx].
      * rewrite lk_swap, tr_l, Tk'. exact FC.
      * rewrite lk_swap, tr_other; [apply FA; exact Hx| |].
        -- intro H. apply Nk'. rewrite <- H. exact Hx.
        -- intro H. apply Ncy. rewrite <- H. exact Hx.
    + intros x Hx Hxc. rewrite lk_swap, tr_other; [apply FB| |exact Hxc].
      * intro H. apply Hx. right. exact H.
      * exact Hxc.
      * intro H. apply Hx. left. symmetry. exact H.
    + rewrite lk_swap, tr_r. apply FB; [exact Nk'|exact E].
    + cbn [length]. lia.
    + exists v', vis'. split; [exact T|]. split; [exact O|]. split; [|exact Cin].
      intros x Hx. apply Sub. right. exact Hx.
Qed.

(* the loop over the cycle leaders *)
Lemma tip_outer_spec v0 cs : forall vis v,
  Forall (fun cy => 1 <= cy <= N) cs -> OInv v0 vis v ->
  exists v' vis', tip_outer cs r mn vis v = Some v' /\ OInv v0 vis' v' /\
                  (forall x, In x vis -> In x vis') /\ (forall x, In x cs -> In x vis').
Proof.
  induction cs as [|cy cs IH]; intros vis v F O; cbn [tip_outer].
  - exists v, vis. split; [reflexivity|]. split; [exact O|]. split; [auto|]. intros x [].
  - inversion F as [|? ? Rc Fr]; subst.
    destruct (kmem cy vis) eqn:K.
    + apply kmem_In in K. destruct (IH vis v Fr O) as (v' & vis' & T & O' & Sub & All).
      exists v', vis'. split; [exact T|]. split; [exact O'|]. split; [exact Sub|].
      intros x [<-|Hx]; [apply Sub; exact K|apply All; exact Hx].
    + assert (Ncy : ~ In cy vis) by (intro H; apply kmem_In in H; congruence).
      destruct O as (R & ND & TC & FA & FB).
      destruct (tip_inner_spec v0 vis cy ltac:(lia) Ncy TC (S (Z.to_nat mn)) 0%nat cy vis v)
        as (v1 & vis1 & T1 & O1 & Sub1 & Cin1).
      * exact Ncy.
      * reflexivity.
      * intros i Hi. lia.
      * intros x Hx. left. exact Hx.
      * left. reflexivity.
      * exact R.
      * exact ND.
      * intros x Hx. left. apply TC. exact Hx.
      * exact FA.
      * intros x Hx _. apply FB. exact Hx.
      * apply FB. exact Ncy.
      * lia.
      * fold N. rewrite T1. destruct (IH vis1 v1 Fr O1) as (v' & vis' & T & O' & Sub & All).
        exists v', vis'. split; [exact T|]. split; [exact O'|]. split.
        -- intros x Hx. apply Sub, Sub1. exact Hx.
        -- intros x [<-|Hx]; [apply Sub; exact Cin1|apply All; exact Hx].
Qed.

(* all leaders 1..N: every key has moved along s *)
Lemma tip_all v0 :
  exists v', tip_outer (zseq 1 (Z.to_nat (mn - 1))) r mn [] v0 = Some v' /\
    (forall x, 0 <= x <= N -> lk v' x = lk v0 (t x)) /\
    (forall x, ~ 0 <= x <= N -> lk v' x = lk v0 x).
Proof.
  destruct (tip_outer_spec v0 (zseq 1 (Z.to_nat (mn - 1))) [] v0) as (v' & vis' & T & O & _ & All).
  - apply Forall_forall. intros x Hx. apply zseq_In in Hx. rewrite Z2Nat.id in Hx by lia. unfold N. lia.
  - unfold OInv. split; [intros x []|]. split; [constructor|]. split; [intros x []|].
    split; [intros x []|]. intros x _. reflexivity.
  - exists v'. split; [exact T|]. destruct O as (R & ND & TC & FA & FB). split.
    + intros x Hx. destruct (Z.eq_dec x 0) as [->|Nx].
      * assert (T0 : t 0 = 0).
        { unfold t, pm. pose proof HN1. destruct (0 =? N) eqn:E; [reflexivity|].
          rewrite Z.mul_0_r. apply Z.rem_0_l. lia. }
        destruct (in_dec Z.eq_dec 0 vis') as [Hin|Hin].
        -- apply FA. exact Hin.
        -- rewrite T0. apply FB. exact Hin.
      * apply FA. apply All. apply ProofsD1.In_zseq. rewrite Z2Nat.id by lia. unfold N in Hx. lia.
    + intros x Hx. apply FB. intro Hin. apply Hx. apply R. exact Hin.
Qed.
End Cycles.

(* ---- Tip() refines dense transposition -------------------------------------------------- *)
Lemma mtip_refines h m : MInv m -> Wf h (mv m) ->
  exists m', mtip m = Some m' /\ mabsd h m' = dm_trans (mabsd h m) /\ MInv m' /\ Wf h (mv m') /\
    (forall l, In l (mcells m') <-> In l (mcells m)).
Proof.
  intros MI W0. pose proof MI as [I (H1 & H2 & H3 & H4 & H5 & H6 & H7)].
  assert (TOT : exists v', tip_outer (zseq 1 (Z.to_nat (dim (mv m) - 1))) (mrows m) (dim (mv m)) [] (mv m) = Some v' /\
            (forall i j, 0 <= i < mcols m -> 0 <= j < mrows m ->
               lk v' (i * mrows m + j) = lk (mv m) (j * mcols m + i)) /\
            (forall l, In l (cells_of v') <-> In l (cells_of (mv m)))).
  { destruct (Z_lt_le_dec (dim (mv m)) 2) as [Small|Big].
    - (* at most one element: no leader *)
      assert (Z.to_nat (dim (mv m) - 1) = 0%nat) as -> by lia.
      exists (mv m). split; [reflexivity|]. split; [|tauto].
      intros i j Hi Hj. rewrite H7 in Small.
      assert (mrows m = 1) by nia. assert (mcols m = 1) by nia.
      f_equal. nia.
    - assert (Hrc : mrows m * mcols m = dim (mv m)) by lia.
      destruct (tip_all (mrows m) (mcols m) (dim (mv m)) H1 H2 Hrc Big (mv m)) as (v' & T & FA & FB).
      pose proof (HN1 (dim (mv m)) Big) as HN.
      pose proof (HrcN (mrows m) (mcols m) (dim (mv m)) Hrc) as HrcN'.
      pose proof (HcrN (mrows m) (mcols m) (dim (mv m)) Hrc) as HcrN'.
      set (N := dim (mv m) - 1) in *.
      exists v'. split; [exact T|]. split.
      + intros i j Hi Hj.
        assert (Rx : 0 <= i * mrows m + j <= N) by (unfold N; nia).
        rewrite (FA _ Rx). f_equal. apply pm_index; auto.
      + assert (NDv' : NoDup (map fst (vals v'))).
        { apply (tip_outer_keeps (fun v => NoDup (map fst (vals v)))) in T; [exact T| |apply I].
          intros v a b Hv. rewrite vals_swap. apply swap_vals_NoDup. exact Hv. }
        intro l. split; intro Hin.
        * apply In_cells_lookup in Hin; [|exact NDv']. destruct Hin as [k L]. fold (lk v' k) in L.
          destruct (Z_lt_le_dec k 0) as [A|A]; [rewrite FB in L by lia; eapply lookup_In_cells; exact L|].
          destruct (Z_lt_le_dec N k) as [B|B]; [rewrite FB in L by lia; eapply lookup_In_cells; exact L|].
          rewrite FA in L by lia. eapply lookup_In_cells; exact L.
        * apply In_cells_lookup in Hin; [|apply I]. destruct Hin as [k L]. fold (lk (mv m) k) in L.
          destruct (Z_lt_le_dec k 0) as [A|A]; [rewrite <- FB in L by lia; eapply lookup_In_cells; exact L|].
          destruct (Z_lt_le_dec N k) as [B|B]; [rewrite <- FB in L by lia; eapply lookup_In_cells; exact L|].
          assert (Rk : 0 <= k <= N) by lia.
          pose proof (pm_range (mrows m) N k H1 HN Rk) as Rs.
          pose proof (pm_inv (mrows m) (mcols m) N k H1 H2 HrcN' HN Rk) as Ts.
          rewrite <- Ts, <- (FA _ Rs) in L. eapply lookup_In_cells; exact L. }
  destruct TOT as (v' & T & PK & CL).
  unfold mtip. rewrite T. eexists. split; [reflexivity|].
  assert (MI' : MInv {| mv := v'; mrows := mcols m; mcols := mrows m; roff := coff m; rmax := cmax m;
                        coff := roff m; cmax := rmax m |}).
  { apply (mtip_MInv m); [exact MI|]. unfold mtip. rewrite T. reflexivity. }
  split; [|split; [exact MI'|split; [|exact CL]]].
  - unfold mabsd, dm_trans, dtab. cbn [mrows mcols dr dc de]. f_equal.
    rewrite mabs_mtab. cbn [mrows mcols mv]. apply mtab_ext. intros i j Hi Hj.
    unfold del. cbn [de]. rewrite mget_mabs by (split; assumption).
    unfold peek. fold (lk v' (i * mrows m + j)). fold (lk (mv m) (j * mcols m + i)).
    rewrite PK by assumption. reflexivity.
  - cbn [mv]. apply (tip_outer_keeps (Wf h)) in T; [exact T| |exact W0].
    intros v a b. apply Wf_swap.
Qed.
