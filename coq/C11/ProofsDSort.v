(* C11 — Sort(reverse) refines the insertion sort of the dense value list.
   Route: (1) the cells visited by the iterator hold exactly the non-zero
   values of the dense list, in order; (2) ins_sorted on cells simulates dins
   on values; (3) place is a sequence of dense updates (dplace); on a sorted
   zero-free list split into its two sign groups it writes
   group1 ++ zeros ++ group2; (4) the same list is obtained by dsort, because
   a sorted permutation is unique and inserting zeros into group1 ++ group2
   puts them in the middle. *)
From Coq Require Import ZArith List Bool Lia Sorted Permutation.
From ADV Require Import C11.Model C11.Spec C11.Dense C11.ProofsMap C11.ProofsIter C11.ProofsInv C11.ProofsRef.
Import ListNotations.
Open Scope Z_scope.

Definition nz (l : list Z) : list Z := filter (fun x => negb (x =? 0)) l.

(* ---- generic list facts ------------------------------------------------------ *)
Lemma filter_map_comm {A B} (f : A -> B) p l :
  filter p (map f l) = map f (filter (fun x => p (f x)) l).
Proof. induction l as [|a l IH]; simpl; auto. destruct (p (f a)); simpl; rewrite IH; auto. Qed.
Lemma filter_none {A} (p : A -> bool) l : (forall y, In y l -> p y = false) -> filter p l = [].
Proof.
  induction l as [|a l IH]; simpl; intro H; auto.
  rewrite (H a) by auto. apply IH. intros y Hy. apply H. auto.
Qed.
Lemma filter_all {A} (p : A -> bool) l : (forall y, In y l -> p y = true) -> filter p l = l.
Proof.
  induction l as [|a l IH]; simpl; intro H; auto.
  rewrite (H a) by auto. f_equal. apply IH. intros y Hy. apply H. auto.
Qed.
Lemma filter_len_le {A} (p : A -> bool) l : (length (filter p l) <= length l)%nat.
Proof. induction l as [|a l IH]; simpl; auto. destruct (p a); simpl; lia. Qed.
Lemma upd_app {X} (x b : X) A R : upd (length A) x (A ++ b :: R) = A ++ x :: R.
Proof. induction A as [|a A IH]; simpl; auto. rewrite IH. auto. Qed.
Lemma map_const_repeat {A B} (f : A -> B) c l : (forall a, f a = c) -> map f l = repeat c (length l).
Proof. intro H. induction l as [|a l IH]; simpl; auto. rewrite H, IH. auto. Qed.
Lemma NoDup_map_in {A B} (f : A -> B) l :
  NoDup l -> (forall a b, In a l -> In b l -> f a = f b -> a = b) -> NoDup (map f l).
Proof.
  induction l as [|a l IH]; simpl; intros ND Hinj; [constructor|].
  inversion ND as [|? ? Hn ND']; subst. constructor.
  - intro Hin. apply in_map_iff in Hin. destruct Hin as (b & E & Hb).
    assert (b = a) by (apply Hinj; auto). subst b. auto.
  - apply IH; auto.
Qed.

Lemma In_zseq x : forall n a, In x (zseq a n) <-> a <= x < a + Z.of_nat n.
Proof.
  induction n as [|n IH]; intro a; simpl zseq.
  - simpl. lia.
  - simpl In. rewrite IH. lia.
Qed.
Lemma sset_zseq : forall n a, sset (zseq a n).
Proof.
  induction n as [|n IH]; intro a; simpl; [apply sset_nil|].
  apply sset_cons. split; [apply IH|]. apply Forall_forall. intros y Hy. apply In_zseq in Hy. lia.
Qed.
(* a strictly ascending list is determined by its members *)
Lemma sset_ext : forall l1 l2, sset l1 -> sset l2 -> (forall x, In x l1 <-> In x l2) -> l1 = l2.
Proof.
  induction l1 as [|x t1 IH]; intros l2 H1 H2 E.
  - destruct l2 as [|y t2]; auto.
    assert (F : In y []) by (apply E; simpl; auto). destruct F.
  - destruct l2 as [|y t2].
    { assert (F : In x []) by (apply E; simpl; auto). destruct F. }
    apply sset_cons in H1. destruct H1 as [S1 F1]. apply sset_cons in H2. destruct H2 as [S2 F2].
    rewrite Forall_forall in F1, F2.
    assert (Exy : x = y).
    { assert (A : In x (y :: t2)) by (apply E; simpl; auto).
      assert (B : In y (x :: t1)) by (apply E; simpl; auto).
      destruct A as [A|A]; [auto|]. destruct B as [B|B]; [auto|].
      apply F2 in A. apply F1 in B. lia. }
    subst y. f_equal. apply IH; auto. intro z. split; intro Hz.
    + assert (A : In z (x :: t2)) by (apply E; simpl; auto).
      destruct A as [A|A]; auto. subst z. apply F1 in Hz. lia.
    + assert (A : In z (x :: t1)) by (apply E; simpl; auto).
      destruct A as [A|A]; auto. subst z. apply F2 in Hz. lia.
Qed.

(* ---- (1) the visited cells hold the non-zero values ---------------------------- *)
Lemma visited_keys h v : Inv v ->
  filter (fun k => negb (peek h v k =? 0)) (zseq 0 (Z.to_nat (dim v))) = filter (nonnull h v) (idx v).
Proof.
  intro H. inv_split H. apply sset_ext.
  - apply sset_filter, sset_zseq.
  - apply sset_filter; auto.
  - intro k. rewrite !filter_In, In_zseq. split.
    + intros [Hk Hp].
      assert (NN : nonnull h v k = true).
      { apply nonnull_peek. destruct (peek h v k =? 0) eqn:E; [discriminate|]. apply Z.eqb_neq in E. auto. }
      split; auto. unfold nonnull, isnull in NN.
      destruct (lookup k (vals v)) as [l|] eqn:L; [eauto|discriminate].
    + intros [Hk NN]. split.
      * apply Hr in Hk. lia.
      * apply nonnull_peek in NN. destruct (peek h v k =? 0) eqn:E; auto.
        apply Z.eqb_eq in E. contradiction.
Qed.
Lemma nonnull_cell h v k : nonnull h v k = true -> lookup k (vals v) = Some (cell_of v k).
Proof.
  unfold nonnull, isnull, cell_of. destruct (lookup k (vals v)); auto. discriminate.
Qed.
Lemma nz_abs h v : Inv v ->
  nz (abs h v) = map (hget h) (map (cell_of v) (filter (nonnull h v) (idx v))).
Proof.
  intro H. unfold nz, abs, abs_vec. rewrite filter_map_comm. cbv beta.
  rewrite visited_keys by auto. rewrite map_map. apply map_ext_in. intros k Hk.
  apply filter_In in Hk. destruct Hk as [_ Hk]. apply nonnull_cell in Hk.
  unfold peek. rewrite Hk. auto.
Qed.
(* after a full iteration the map holds exactly the visited entries *)
Lemma iterate_vals_length h v v1 :
  Inv v -> Inv v1 -> idx v1 = filter (nonnull h v) (idx v) -> Q h v v1 ->
  length (vals v1) = length (filter (nonnull h v) (idx v)).
Proof.
  intros H H1 B (C1 & C2 & C3). rewrite <- B. inv_split H1.
  rewrite <- (map_length fst (vals v1)). apply Nat.le_antisymm.
  - apply NoDup_incl_length; auto.
    intros k Hk. apply keys_In_lookup in Hk. destruct Hk as [l Hl]. eauto.
  - apply NoDup_incl_length; [apply sset_NoDup; auto|].
    intros k Hk. rewrite B in Hk. apply filter_In in Hk. destruct Hk as [_ Hk].
    assert (N : isnull h v k = false) by (unfold nonnull in Hk; destruct (isnull h v k); auto; discriminate).
    specialize (C2 k N). apply nonnull_cell in Hk. rewrite <- C2 in Hk.
    eapply lookup_In_keys; eauto.
Qed.

(* ---- (2) insertion sort: simulation, permutation, sortedness, uniqueness ------- *)
Definition lef (r : bool) : Z -> Z -> bool := if r then Z.geb else Z.leb.
Definition ord (le : Z -> Z -> bool) : Prop :=
  (forall a b, le a b = false -> le b a = true) /\
  (forall a b c, le a b = true -> le b c = true -> le a c = true) /\
  (forall a b, le a b = true -> le b a = true -> a = b).
Lemma ord_lef r : ord (lef r).
Proof.
  unfold ord, lef. destruct r; repeat split; intros a b; try intro c; rewrite ?Z.geb_leb; intros;
    repeat match goal with
           | H : (_ <=? _) = true |- _ => apply Z.leb_le in H
           | H : (_ <=? _) = false |- _ => apply Z.leb_gt in H
           end; try apply Z.leb_le; lia.
Qed.
Definition srt (le : Z -> Z -> bool) : list Z -> Prop := StronglySorted (fun a b => le a b = true).
Definition dfold (le : Z -> Z -> bool) : list Z -> list Z -> list Z :=
  fold_left (fun acc x => dins le x acc).
Lemma dsort_dfold r l : dsort r l = dfold (lef r) l [].
Proof. reflexivity. Qed.

Lemma ins_sorted_sim le h c l :
  map (hget h) (ins_sorted le h c l) = dins le (hget h c) (map (hget h) l).
Proof.
  induction l as [|d l IH]; simpl; auto.
  destruct (le (hget h d) (hget h c)); simpl; auto. rewrite IH. auto.
Qed.
Lemma sort_cells_sim r h cs : map (hget h) (sort_cells r h cs) = dsort r (map (hget h) cs).
Proof.
  unfold sort_cells, dsort.
  assert (G : forall acc,
    map (hget h) (fold_left (fun acc c => ins_sorted (if r then Z.geb else Z.leb) h c acc) cs acc) =
    fold_left (fun acc x => dins (if r then Z.geb else Z.leb) x acc) (map (hget h) cs) (map (hget h) acc)).
  { induction cs as [|c cs IH]; intro acc; simpl; auto. rewrite IH, ins_sorted_sim. auto. }
  apply (G []).
Qed.
Lemma ins_sorted_perm le h c l : Permutation (ins_sorted le h c l) (c :: l).
Proof.
  induction l as [|d l IH]; simpl; auto.
  destruct (le (hget h d) (hget h c)); auto.
  eapply perm_trans; [apply perm_skip; apply IH|]. apply perm_swap.
Qed.
Lemma sort_cells_perm r h cs : Permutation (sort_cells r h cs) cs.
Proof.
  unfold sort_cells.
  assert (G : forall acc,
    Permutation (fold_left (fun acc c => ins_sorted (if r then Z.geb else Z.leb) h c acc) cs acc) (cs ++ acc)).
  { induction cs as [|c cs IH]; intro acc; simpl; auto.
    eapply perm_trans; [apply IH|].
    eapply perm_trans; [apply Permutation_app_head; apply ins_sorted_perm|].
    apply Permutation_sym, Permutation_middle. }
  specialize (G []). rewrite app_nil_r in G. auto.
Qed.

Lemma dins_perm le x l : Permutation (dins le x l) (x :: l).
Proof.
  induction l as [|y l IH]; simpl; auto.
  destruct (le y x); auto.
  eapply perm_trans; [apply perm_skip; apply IH|]. apply perm_swap.
Qed.
Lemma dfold_perm le l : forall acc, Permutation (dfold le l acc) (l ++ acc).
Proof.
  unfold dfold. induction l as [|x l IH]; intro acc; simpl; auto.
  eapply perm_trans; [apply IH|].
  eapply perm_trans; [apply Permutation_app_head; apply dins_perm|].
  apply Permutation_sym, Permutation_middle.
Qed.
Lemma dsort_perm r l : Permutation (dsort r l) l.
Proof. rewrite dsort_dfold. pose proof (dfold_perm (lef r) l []) as G. rewrite app_nil_r in G. auto. Qed.

Lemma dins_srt le x l : ord le -> srt le l -> srt le (dins le x l).
Proof.
  intros (Tot & Tr & _). unfold srt. induction l as [|y l IH]; simpl; intro H.
  - constructor; constructor.
  - inversion H as [|? ? Hs Hf]; subst. destruct (le y x) eqn:E.
    + constructor; auto. apply Forall_forall. intros z Hz.
      apply (Permutation_in _ (dins_perm le x l)) in Hz. destruct Hz as [<-|Hz]; auto.
      rewrite Forall_forall in Hf. auto.
    + apply Tot in E. constructor; auto. constructor; auto.
      eapply Forall_impl; [|exact Hf]. simpl. intros z Hz. eapply Tr; eauto.
Qed.
Lemma dfold_srt le l : ord le -> forall acc, srt le acc -> srt le (dfold le l acc).
Proof.
  intro O. unfold dfold. induction l as [|x l IH]; intros acc H; simpl; auto.
  apply IH. apply dins_srt; auto.
Qed.
Lemma dsort_srt r l : srt (lef r) (dsort r l).
Proof. rewrite dsort_dfold. apply dfold_srt; [apply ord_lef|constructor]. Qed.

(* a sorted permutation is unique *)
Lemma srt_unique le : ord le -> forall l1 l2, srt le l1 -> srt le l2 -> Permutation l1 l2 -> l1 = l2.
Proof.
  intros (_ & _ & Anti). unfold srt. induction l1 as [|x t1 IH]; intros l2 H1 H2 P.
  - apply Permutation_nil in P. auto.
  - destruct l2 as [|y t2]; [apply Permutation_sym, Permutation_nil in P; discriminate|].
    inversion H1 as [|? ? S1 F1]; subst. inversion H2 as [|? ? S2 F2]; subst.
    rewrite Forall_forall in F1, F2.
    assert (Exy : x = y).
    { assert (A : In x (y :: t2)) by (apply (Permutation_in _ P); simpl; auto).
      assert (B : In y (x :: t1)) by (apply (Permutation_in _ (Permutation_sym P)); simpl; auto).
      destruct A as [A|A]; [auto|]. destruct B as [B|B]; [auto|].
      apply Anti; auto. }
    subst y. f_equal. apply IH; auto. eapply Permutation_cons_inv; eauto.
Qed.
Lemma dsort_perm_eq r l1 l2 : Permutation l1 l2 -> dsort r l1 = dsort r l2.
Proof.
  intro P. apply (srt_unique (lef r)); try apply dsort_srt; [apply ord_lef|].
  eapply perm_trans; [apply dsort_perm|]. eapply perm_trans; [exact P|]. apply Permutation_sym, dsort_perm.
Qed.

(* a list is its non-zero elements plus zeros *)
Lemma nz_perm l : Permutation l (nz l ++ repeat 0 (length l - length (nz l))).
Proof.
  induction l as [|x l IH]; [simpl; auto|].
  pose proof (filter_len_le (fun x => negb (x =? 0)) l) as L. fold (nz l) in L.
  unfold nz. cbn [filter]. fold (nz l). destruct (x =? 0) eqn:E; cbn [negb length].
  - apply Z.eqb_eq in E. subst x.
    replace (S (length l) - length (nz l))%nat with (S (length l - length (nz l))) by lia.
    cbn [repeat]. apply Permutation_cons_app. auto.
  - replace (S (length l) - S (length (nz l)))%nat with (length l - length (nz l))%nat by lia.
    cbn [app]. apply perm_skip. auto.
Qed.
(* a sorted list splits into the elements satisfying a downward closed predicate and the rest *)
Lemma srt_split le p l :
  srt le l -> (forall a b, le a b = true -> p b = true -> p a = true) ->
  l = filter p l ++ filter (fun x => negb (p x)) l.
Proof.
  unfold srt. intros H Hp. induction l as [|x t IH]; simpl; auto.
  inversion H as [|? ? Hs Hf]; subst. rewrite Forall_forall in Hf.
  destruct (p x) eqn:E; simpl.
  - f_equal. auto.
  - assert (N : forall y, In y t -> p y = false).
    { intros y Hy. destruct (p y) eqn:Ey; auto. rewrite (Hp x y) in E; auto. }
    rewrite (filter_none p t N). simpl. f_equal. symmetry. apply filter_all.
    intros y Hy. rewrite N; auto.
Qed.

(* ---- (3) place as dense updates ------------------------------------------------ *)
Fixpoint dplace (ip in_ i : Z) (xs l : list Z) : list Z :=
  match xs with
  | [] => l
  | x :: r => dplace ip in_ (i + 1) r (upd (Z.to_nat (if 0 <? x then i + ip else i + in_)) x l)
  end.
Lemma dplace_app ip in_ xs : forall i ys l,
  dplace ip in_ i (xs ++ ys) l = dplace ip in_ (i + Z.of_nat (length xs)) ys (dplace ip in_ i xs l).
Proof.
  induction xs as [|x xs IH]; intros i ys l.
  - simpl. replace (i + 0) with i by lia. auto.
  - cbn [app dplace length]. rewrite IH. f_equal. lia.
Qed.
(* a run of elements that all use the same offset fills a segment *)
Lemma dplace_seg ip in_ off xs : forall i A B C,
  Forall (fun x => (if 0 <? x then ip else in_) = off) xs -> 0 <= i + off ->
  length A = Z.to_nat (i + off) -> length B = length xs ->
  dplace ip in_ i xs (A ++ B ++ C) = A ++ xs ++ C.
Proof.
  induction xs as [|x xs IH]; intros i A B C F Hi HA HB.
  - destruct B; [auto|discriminate].
  - destruct B as [|b B]; [discriminate|]. inversion F as [|? ? Fx Fr]; subst.
    cbn [dplace].
    replace (if 0 <? x then i + ip else i + in_) with (i + (if 0 <? x then ip else in_))
      by (destruct (0 <? x); auto).
    rewrite <- HA. cbn [app]. rewrite upd_app.
    replace (A ++ x :: B ++ C) with ((A ++ [x]) ++ B ++ C) by (rewrite <- app_assoc; auto).
    rewrite IH; auto.
    + rewrite <- app_assoc. auto.
    + lia.
    + rewrite app_length. simpl. lia.
Qed.

Lemma dim_place h ip in_ cs : forall i v, dim (place h ip in_ i cs v) = dim v.
Proof. induction cs as [|c cs IH]; intros i v; simpl; auto. rewrite IH. auto. Qed.
Lemma abs_insert h v k c I : 0 <= k < dim v ->
  abs h {| vals := insert k c (vals v); idx := I; dim := dim v |} = upd (Z.to_nat k) (hget h c) (abs h v).
Proof.
  intro Hk. set (v2 := {| vals := insert k c (vals v); idx := I; dim := dim v |}).
  assert (L : length (abs h v) = Z.to_nat (dim v)) by (unfold abs, abs_vec; rewrite map_length, zseq_length; auto).
  assert (L2 : length (abs h v2) = Z.to_nat (dim v)) by (unfold abs, abs_vec; rewrite map_length, zseq_length; auto).
  apply (nth_ext _ _ 0 0).
  - rewrite upd_length. lia.
  - intros j Hj. rewrite L2 in Hj. rewrite <- (Nat2Z.id j).
    rewrite abs_nth by (cbn [dim v2]; lia).
    unfold peek at 1. cbn [vals v2]. rewrite lookup_insert. destruct (k =? Z.of_nat j) eqn:E.
    + apply Z.eqb_eq in E. rewrite <- E. rewrite nth_upd_eq; auto. lia.
    + apply Z.eqb_neq in E. rewrite nth_upd_neq by lia. rewrite abs_nth by lia. auto.
Qed.
Lemma abs_nil h n : abs h (nil_vec n) = repeat 0 (Z.to_nat n).
Proof.
  unfold abs, abs_vec. cbn [dim nil_vec].
  rewrite (map_const_repeat _ 0) by (intro a; reflexivity). rewrite zseq_length. auto.
Qed.
Lemma abs_place h ip in_ cs : forall i v,
  0 <= i -> 0 <= ip -> 0 <= in_ ->
  i + Z.of_nat (length cs) + ip <= dim v -> i + Z.of_nat (length cs) + in_ <= dim v ->
  abs h (place h ip in_ i cs v) = dplace ip in_ i (map (hget h) cs) (abs h v).
Proof.
  induction cs as [|c cs IH]; intros i v Hi Hp Hn H1 H2; [auto|].
  cbn [length] in H1, H2. rewrite Nat2Z.inj_succ in H1, H2.
  cbn [place map dplace]. rewrite IH; cbn [dim]; try lia.
  rewrite abs_insert; auto. destruct (0 <? hget h c); lia.
Qed.

(* ---- (4) inserting zeros into a two-group list ---------------------------------- *)
Lemma dins_app_pass le x A : forall B,
  (forall y, In y A -> le y x = true) -> dins le x (A ++ B) = A ++ dins le x B.
Proof.
  induction A as [|a A IH]; intros B H; simpl; auto.
  rewrite (H a) by (simpl; auto). f_equal. apply IH. intros y Hy. apply H. simpl. auto.
Qed.
Lemma dins_stop le x B : (forall y, In y B -> le y x = false) -> dins le x B = x :: B.
Proof. destruct B as [|b B]; simpl; auto. intro H. rewrite (H b); auto. Qed.
Lemma dins_zero_mid le G1 j G2 :
  (forall y, In y G1 -> le y 0 = true) -> le 0 0 = true -> (forall y, In y G2 -> le y 0 = false) ->
  dins le 0 (G1 ++ repeat 0 j ++ G2) = G1 ++ repeat 0 (S j) ++ G2.
Proof.
  intros H1 H0 H2. rewrite dins_app_pass by auto. f_equal.
  rewrite dins_app_pass.
  - rewrite dins_stop by auto. change (0 :: G2) with ([0] ++ G2). rewrite app_assoc. f_equal.
    change (repeat 0 (S j)) with ([0] ++ repeat 0 j).
    clear. induction j as [|j IH]; simpl; auto. f_equal. auto.
  - intros y Hy. apply repeat_spec in Hy. subst. auto.
Qed.
Lemma dfold_zeros le G1 G2 :
  (forall y, In y G1 -> le y 0 = true) -> le 0 0 = true -> (forall y, In y G2 -> le y 0 = false) ->
  forall k j : nat, dfold le (repeat 0 k) (G1 ++ repeat 0 j ++ G2) = G1 ++ repeat 0 (k + j)%nat ++ G2.
Proof.
  intros H1 H0 H2. unfold dfold. induction k as [|k IH]; intro j; [auto|].
  cbn [repeat fold_left]. rewrite dins_zero_mid by auto. rewrite IH.
  replace (k + S j)%nat with (S k + j)%nat by lia. auto.
Qed.

(* place on a two-group list = inserting the zeros by dins *)
Lemma place_core le ip in_ p (k : nat) S :
  S = filter p S ++ filter (fun x => negb (p x)) S ->
  (forall x, In x S -> p x = true -> (if 0 <? x then ip else in_) = 0 /\ le x 0 = true) ->
  (forall x, In x S -> p x = false -> (if 0 <? x then ip else in_) = Z.of_nat k /\ le x 0 = false) ->
  le 0 0 = true ->
  dplace ip in_ 0 S (repeat 0 (length S + k)) = dfold le (repeat 0 k) S.
Proof.
  intros HS P1 P2 H0.
  remember (filter p S) as G1 eqn:E1. remember (filter (fun x => negb (p x)) S) as G2 eqn:E2.
  assert (Q1 : forall x, In x G1 -> (if 0 <? x then ip else in_) = 0 /\ le x 0 = true).
  { intros x Hx. subst G1. apply filter_In in Hx. destruct Hx. auto. }
  assert (Q2 : forall x, In x G2 -> (if 0 <? x then ip else in_) = Z.of_nat k /\ le x 0 = false).
  { intros x Hx. subst G2. apply filter_In in Hx. destruct Hx as [Hx Hp]. apply P2; auto.
    destruct (p x); auto; discriminate. }
  clear E1 E2 P1 P2. subst S.
  change (G1 ++ G2) with (G1 ++ repeat 0 0 ++ G2) at 3.
  rewrite dfold_zeros; auto; try (intros y Hy; apply Q1; auto); try (intros y Hy; apply Q2; auto).
  rewrite Nat.add_0_r. rewrite dplace_app, app_length.
  replace (repeat 0 (length G1 + length G2 + k))
    with ([] ++ repeat 0 (length G1) ++ (repeat 0 k ++ repeat 0 (length G2)))
    by (cbn [app]; rewrite <- !repeat_app; f_equal; lia).
  rewrite (dplace_seg ip in_ 0); cbn [app].
  - replace (G1 ++ repeat 0 k ++ repeat 0 (length G2))
      with ((G1 ++ repeat 0 k) ++ repeat 0 (length G2) ++ []) by (rewrite app_nil_r, app_assoc; auto).
    rewrite (dplace_seg ip in_ (Z.of_nat k)).
    + rewrite app_nil_r, app_assoc. auto.
    + apply Forall_forall. intros x Hx. apply Q2; auto.
    + lia.
    + rewrite app_length, repeat_length. lia.
    + apply repeat_length.
  - apply Forall_forall. intros x Hx. apply Q1; auto.
  - lia.
  - auto.
  - apply repeat_length.
Qed.

(* the dense statement: placing the sorted non-zero values sorts the list *)
Lemma dplace_dsort (r : bool) (l : list Z) :
  let k := (length l - length (nz l))%nat in
  dplace (if r then 0 else Z.of_nat k) (if r then Z.of_nat k else 0) 0 (dsort r (nz l)) (repeat 0 (length l))
  = dsort r l.
Proof.
  intro k.
  pose proof (filter_len_le (fun x => negb (x =? 0)) l) as L. fold (nz l) in L.
  set (S := dsort r (nz l)).
  assert (PS : Permutation S (nz l)) by apply dsort_perm.
  assert (NZ : forall x, In x S -> x <> 0).
  { intros x Hx. apply (Permutation_in _ PS) in Hx. apply filter_In in Hx. destruct Hx as [_ Hx].
    destruct (x =? 0) eqn:E; [discriminate|]. apply Z.eqb_neq in E. auto. }
  assert (LS : length S = length (nz l)) by (apply Permutation_length; auto).
  assert (SS : srt (lef r) S) by apply dsort_srt.
  rewrite (dsort_perm_eq r l _ (nz_perm l)). fold k.
  rewrite dsort_dfold. unfold dfold at 1. rewrite fold_left_app.
  change (fold_left (fun acc x => dins (lef r) x acc) (nz l) []) with (dsort r (nz l)). fold S.
  change (fold_left (fun acc x => dins (lef r) x acc) (repeat 0 k) S) with (dfold (lef r) (repeat 0 k) S).
  replace (length l) with (length S + k)%nat by (unfold k; lia).
  destruct r.
  - apply (place_core _ _ _ (fun x => 0 <? x)).
    + apply (srt_split (lef true)); auto. unfold lef. intros a b Hab Hb.
      rewrite Z.geb_leb in Hab. apply Z.leb_le in Hab. apply Z.ltb_lt in Hb. apply Z.ltb_lt. lia.
    + intros x Hx Hp. rewrite Hp. split; auto. unfold lef. rewrite Z.geb_leb. apply Z.leb_le.
      apply Z.ltb_lt in Hp. lia.
    + intros x Hx Hp. rewrite Hp. split; auto. unfold lef. rewrite Z.geb_leb. apply Z.leb_gt.
      apply Z.ltb_ge in Hp. apply NZ in Hx. lia.
    + reflexivity.
  - apply (place_core _ _ _ (fun x => negb (0 <? x))).
    + apply (srt_split (lef false)); auto. unfold lef. intros a b Hab Hb.
      apply Z.leb_le in Hab. apply negb_true_iff in Hb. apply negb_true_iff.
      apply Z.ltb_ge in Hb. apply Z.ltb_ge. lia.
    + intros x Hx Hp. apply negb_true_iff in Hp. rewrite Hp. split; auto. unfold lef. apply Z.leb_le.
      apply Z.ltb_ge in Hp. lia.
    + intros x Hx Hp. apply negb_false_iff in Hp. rewrite Hp. split; auto. unfold lef. apply Z.leb_gt.
      apply Z.ltb_lt in Hp. lia.
    + reflexivity.
Qed.

(* ---- Sort: closed form, totality, refinement ------------------------------------ *)
Lemma sort_closed h v r : Inv v ->
  let ks := filter (nonnull h v) (idx v) in
  let m := Z.of_nat (length ks) in
  sort h v r = Some (place h (if r then 0 else dim v - m) (if r then dim v - m else 0) 0
                           (sort_cells r h (map (cell_of v) ks)) (nil_vec (dim v))).
Proof.
  intros H ks m. unfold sort.
  destruct (iterate_spec h v) as (v1 & A & B & C); [apply H|].
  rewrite A.
  assert (H1 : Inv v1) by (eapply Inv_iterate; eauto).
  rewrite (iterate_vals_length h v v1 H H1 B C).
  unfold cells. rewrite map_map. cbn [snd]. reflexivity.
Qed.

Lemma sort_total h v r : Inv v -> exists v', sort h v r = Some v'.
Proof. intro H. rewrite (sort_closed h v r H). eauto. Qed.

Lemma sort_refines h v r v' :
  Inv v -> sort h v r = Some v' -> abs h v' = dsort r (abs h v) /\ dim v' = dim v.
Proof.
  intros H E. rewrite (sort_closed h v r H) in E. inversion E as [E']. clear E E'.
  set (ks := filter (nonnull h v) (idx v)).
  assert (Hdim : 0 <= dim v) by apply H.
  assert (LA : length (abs h v) = Z.to_nat (dim v))
    by (unfold abs, abs_vec; rewrite map_length, zseq_length; auto).
  assert (NA : nz (abs h v) = map (hget h) (map (cell_of v) ks)) by (apply nz_abs; auto).
  assert (LN : length (nz (abs h v)) = length ks) by (rewrite NA, !map_length; auto).
  pose proof (filter_len_le (fun x => negb (x =? 0)) (abs h v)) as L. fold (nz (abs h v)) in L.
  split; [|rewrite dim_place; auto].
  rewrite abs_place; cbn [dim nil_vec]; rewrite ?sort_cells_length, ?map_length; try (destruct r; lia).
  rewrite abs_nil, sort_cells_sim, <- NA, <- LA.
  rewrite <- (dplace_dsort r (abs h v)). cbv zeta.
  replace (Z.of_nat (length (abs h v) - length (nz (abs h v)))) with (dim v - Z.of_nat (length ks)) by lia.
  auto.
Qed.

(* ---- Sort keeps the cells well-formed -------------------------------------------- *)
Lemma cells_remove k m l : In l (map snd (remove k m)) -> In l (map snd m).
Proof.
  induction m as [|[k' c] m IH]; simpl; auto.
  destruct (k' =? k); simpl; intuition.
Qed.
Lemma cells_place h ip in_ cs : forall i v l,
  In l (cells_of (place h ip in_ i cs v)) -> In l cs \/ In l (cells_of v).
Proof.
  induction cs as [|c cs IH]; intros i v l Hl; [auto|].
  cbn [place] in Hl. apply IH in Hl. destruct Hl as [Hl|Hl]; [left; simpl; auto|].
  unfold cells_of in Hl. cbn [vals] in Hl. unfold insert in Hl. cbn [map snd] in Hl.
  destruct Hl as [Hl|Hl]; [left; simpl; auto|]. right. eapply cells_remove; eauto.
Qed.
Lemma place_lookup h ip in_ cs : forall i v k l,
  lookup k (vals (place h ip in_ i cs v)) = Some l ->
  lookup k (vals v) = Some l \/
  exists j, (j < length cs)%nat /\ nth j cs O = l /\
            k = i + Z.of_nat j + (if 0 <? hget h l then ip else in_).
Proof.
  induction cs as [|c cs IH]; intros i v k l Hl; [auto|].
  cbn [place] in Hl. apply IH in Hl. destruct Hl as [Hl|(j & Hj & Hn & Hk)].
  - cbn [vals] in Hl. rewrite lookup_insert in Hl.
    destruct ((if 0 <? hget h c then i + ip else i + in_) =? k) eqn:E; [|auto].
    inversion Hl. subst l. right. exists O. split; [simpl; lia|]. split; [auto|].
    apply Z.eqb_eq in E. rewrite <- E. destruct (0 <? hget h c); lia.
  - right. exists (S j). split; [simpl; lia|]. split; [auto|]. lia.
Qed.

Lemma Wf_sort h v r v' :
  Inv v -> Wf h v -> sort h v r = Some v' ->
  Wf h v' /\ (forall l, In l (cells_of v') -> In l (cells_of v)).
Proof.
  intros H (W1 & W2) E.
  assert (H' : Inv v') by (eapply Inv_sort; eauto).
  rewrite (sort_closed h v r H) in E. inversion E as [E']. clear E.
  set (ks := filter (nonnull h v) (idx v)) in *.
  set (cs := sort_cells r h (map (cell_of v) ks)) in *.
  set (ip := if r then 0 else dim v - Z.of_nat (length ks)) in *.
  set (in_ := if r then dim v - Z.of_nat (length ks) else 0) in *.
  rewrite E'.
  assert (Hks : forall k, In k ks -> lookup k (vals v) = Some (cell_of v k)).
  { intros k Hk. apply filter_In in Hk. apply (nonnull_cell h). tauto. }
  assert (Sub : forall l, In l cs -> In l (cells_of v)).
  { intros l Hl. apply (Permutation_in _ (sort_cells_perm r h _)) in Hl.
    apply in_map_iff in Hl. destruct Hl as (k & Ek & Hk). apply Hks in Hk. rewrite Ek in Hk.
    apply lookup_In_pair in Hk. unfold cells_of. apply in_map_iff. exists (k, l). auto. }
  assert (ND : NoDup cs).
  { apply (Permutation_NoDup (Permutation_sym (sort_cells_perm r h _))).
    apply NoDup_map_in.
    - apply sset_NoDup. apply sset_filter. apply H.
    - intros a b Ha Hb Eab. apply Hks in Ha. apply Hks in Hb. rewrite <- Eab in Hb. eapply W2; eauto. }
  assert (Incl : forall l, In l (cells_of v') -> In l (cells_of v)).
  { intros l Hl. rewrite <- E' in Hl. apply cells_place in Hl. destruct Hl as [Hl|Hl]; auto.
    simpl in Hl. destruct Hl. }
  split; [|exact Incl]. split.
  - intros k l Hl. apply lookup_In_pair in Hl.
    assert (Hc : In l (cells_of v)).
    { apply Incl. unfold cells_of. apply in_map_iff. exists (k, l). auto. }
    unfold cells_of in Hc. apply in_map_iff in Hc. destruct Hc as ([k0 l0] & E0 & Hin). simpl in E0. subst l0.
    apply In_pair_lookup in Hin; [|apply H]. eauto.
  - intros k1 k2 l L1 L2. rewrite <- E' in L1, L2.
    apply place_lookup in L1. apply place_lookup in L2.
    destruct L1 as [L1|(j1 & J1 & N1 & K1)]; [simpl in L1; discriminate|].
    destruct L2 as [L2|(j2 & J2 & N2 & K2)]; [simpl in L2; discriminate|].
    assert (j1 = j2).
    { rewrite NoDup_nth in ND. apply ND; auto. rewrite N1, N2. auto. }
    subst j2. lia.
Qed.
