(* C11, round 5 — sparse MATRIX iteration STARTED IN THE MIDDLE:
   IteratorFrom(i,j) / ConstIteratorFrom(i,j) of /repo/matrix_sparse_template.in,
   added to the operation set of the matrix world of ModelMat.v.

     func (obj *SparseXMatrix) ITERATOR_FROM(i, j int) *SparseXMatrixIterator {
       k := obj.index(i, j)                                     // panics outside the matrix
       r := SparseXMatrixIterator{*obj.values.ITERATOR_FROM(k), obj}
       return &r }
     func (obj *SparseXVector) ITERATOR_FROM(i int) *SparseXVectorIterator {
       r := SparseXVectorIterator{obj.indexIteratorFrom(i), obj}   // AVL: first key >= i
       r.skip()                                                    // CONSTRUCTOR-TIME skip
       return &r }

   The vector part is Model.it_from (first_ge, then skip()): the entries found null
   (stored zeros, value-less keys) at and after the start key are deleted from map and
   index before the first position is delivered.  Purely additive: the operations of
   ModelMat.mop are embedded by [MB]; nothing of ModelMat.v changes.

   No proofs in this file. *)
From Coq Require Import ZArith List Bool Lia.
From ADV Require Import C11.Model C11.ModelMat.
Import ListNotations.
Open Scope Z_scope.

Inductive mop2 :=
  | MB (o : mop)                                  (* the 22 operations of ModelMat.v *)
  | MIterFrom (t : nat) (i j : Z)                 (* for it := m.ConstIteratorFrom(i,j); it.Ok(); it.Next() {..} *)
  | MIterFromPart (t : nat) (i j : Z) (n : nat).  (* the same loop abandoned after n visits
                                                     (n = 0: the constructor alone, no Next()) *)

(* the constructor: None = index(i,j) panicked; Some None = out of fuel (never) *)
Definition mit_from (h : heap) (m : smat) (i j : Z) : option (option (svec * option Z)) :=
  match mindex m i j with
  | None => None
  | Some k => Some (it_from h (mv m) k)
  end.

Definition mstep2 (w : mworld) (o : mop2) : mworld * (Z * list Z) :=
  match o with
  | MB o => mstep w o
  | MIterFrom t i j =>
      let m := getm w t in
      let h := mhp w in
      match mit_from h m i j with
      | None => (w, (K_PANIC, []))
      | Some None => (w, (K_FUEL, []))
      | Some (Some (v0, cur)) =>
          match iter_loop (sfuel (mv m)) h v0 cur [] with
          | Some (v', s) => (setm w t (set_mv m v'), (K_OK, mseq_vals h m s))
          | None => (w, (K_FUEL, []))
          end
      end
  | MIterFromPart t i j n =>
      let m := getm w t in
      let h := mhp w in
      match mit_from h m i j with
      | None => (w, (K_PANIC, []))
      | Some None => (w, (K_FUEL, []))
      | Some (Some (v0, cur)) =>
          match iter_part n h v0 cur [] with
          | Some (v', s) => (setm w t (set_mv m v'), (K_OK, mseq_vals h m s))
          | None => (w, (K_FUEL, []))
          end
      end
  end.

Definition mrun2 (w : mworld) (ops : list mop2) : mworld := fold_left (fun w o => fst (mstep2 w o)) ops w.
