(* C11 — where cell sharing comes from.  Only Slice and AppendVector(sparse) make two
   vectors hold the same scalar: every other operation keeps the scalars of a vector
   or gives ONE vector fresh ones.  Hence a valid history without those two
   operations is automatically [safe], and the dense refinement holds for it with no
   side condition. *)
From Coq Require Import ZArith List Bool Lia Sorted.
From ADV Require Import C11.Model C11.Spec C11.Dense C11.ProofsMap C11.ProofsIter C11.ProofsInv C11.ProofsRef
  C11.ProofsD1 C11.ProofsD2 C11.ProofsD3 C11.ProofsDSort C11.ProofsDSet C11.ProofsDense.
Import ListNotations.
Open Scope Z_scope.

Definition Sep (w : world) : Prop := forall t, unshared w t.
Definition no_share (o : op) : Prop := match o with Slice _ _ _ | AppendV _ _ => False | _ => True end.

(* the scalars of every vector stay or disappear, except that vector t may get fresh ones *)
Definition St (t : nat) (w w' : world) : Prop :=
  (length (hp w) <= length (hp w'))%nat /\
  forall u l, In l (cells_of (getv w' u)) ->
              In l (cells_of (getv w u)) \/ (u = t /\ (length (hp w) <= l)%nat).
Lemma St_refl t w : St t w w.
Proof. split; auto. Qed.
Lemma St_trans t a b c : St t a b -> St t b c -> St t a c.
Proof.
  intros [A1 A2] [B1 B2]. split; [lia|]. intros u l H. apply B2 in H. destruct H as [H|[H1 H2]].
  - apply A2 in H. auto.
  - right. split; auto. lia.
Qed.
Lemma St_Sep t w w' : WInv w -> WWf w -> Sep w -> St t w w' -> Sep w'.
Proof.
  intros I W S [L H] a b l Hab Ha Hb.
  assert (AL : forall u x, In x (cells_of (getv w u)) -> (x < length (hp w))%nat).
  { intros u x Hx. eapply cells_alloc; eauto. apply WInv_getv; auto. apply WWf_getv; auto. }
  apply H in Ha. apply H in Hb. destruct Ha as [Ha|[Ha1 Ha2]]; destruct Hb as [Hb|[Hb1 Hb2]].
  - eapply (S a); eauto.
  - apply AL in Ha. lia.
  - apply AL in Hb. lia.
  - subst. auto.
Qed.

Lemma cells_insert k l (m : vmap) x : In x (map snd (insert k l m)) -> x = l \/ In x (map snd m).
Proof.
  unfold insert. simpl. intros [H|H]; auto. right.
  induction m as [|[k' v] r IH]; simpl in *; auto. destruct (k' =? k); simpl in *; tauto.
Qed.
Lemma cells_remove k (m : vmap) x : In x (map snd (remove k m)) -> In x (map snd m).
Proof. induction m as [|[k' v] r IH]; simpl; auto. destruct (k' =? k); simpl; tauto. Qed.

Lemma St_seth t w h' : (length (hp w) <= length h')%nat -> St t w (seth w h').
Proof. intro L. split; auto. Qed.
Lemma St_setv t w v' :
  (forall l, In l (cells_of v') -> In l (cells_of (getv w t)) \/ (length (hp w) <= l)%nat) -> St t w (setv w t v').
Proof.
  intro H. split; auto. intros u l. rewrite getv_setv.
  destruct (Nat.eqb t u && Nat.ltb t (length (vecs w))) eqn:E; auto.
  apply andb_prop in E. destruct E as [E _]. apply Nat.eqb_eq in E. subst u. intro Hl.
  apply H in Hl. destruct Hl; auto.
Qed.
Lemma St_WQ t w w' : WQ w w' -> WInv w' -> St t w w'.
Proof.
  intros (A1 & A2 & A3) I. split; [rewrite A1; auto|]. intros u l Hl. left.
  eapply Q2_cells; [apply A3|exact Hl|]. apply (WInv_getv w' u I).
Qed.
Lemma at_cells h v i h' v' l x :
  at_ h v i = Some (h', v', l) -> In x (cells_of v') -> In x (cells_of v) \/ (length h <= x)%nat.
Proof.
  intro A. destruct (at_shape _ _ _ _ _ _ A) as [(-> & -> & L)|(-> & -> & L & ->)]; auto.
  unfold cells_of. cbn [vals]. intro H. apply cells_insert in H. destruct H; auto. right. lia.
Qed.
Lemma at_heap_len h v i h' v' l : at_ h v i = Some (h', v', l) -> (length h <= length h')%nat.
Proof.
  intro A. destruct (at_shape _ _ _ _ _ _ A) as [(-> & -> & L)|(-> & -> & L & ->)]; auto.
  rewrite app_length. lia.
Qed.

(* Set / SET *)
Lemma set_loop_St f : forall w t j w' b, WInv w -> set_loop f w t j = Some (w', b) -> St t w w'.
Proof.
  induction f as [|f IH]; intros w t j w' b I; simpl; destruct (jok j);
    try discriminate; try (intro E; inversion E; subst; apply St_refl).
  destruct (js1 j) as [l|].
  - destruct (joint_next (seth w (hset (hp w) l (jval (js2 j)))) t j) as [[w2 j']|] eqn:N; [|discriminate].
    intro E.
    assert (I2 : WInv w2) by (eapply joint_next_WInv; [|exact N]; apply WInv_seth; auto).
    eapply St_trans; [apply St_seth; rewrite hset_length; auto|].
    eapply St_trans; [apply St_WQ; [eapply joint_next_WQ; eauto|auto]|]. eapply IH; eauto.
  - destruct (at_ (hp w) (getv w t) (jidx j)) as [[[h' v'] l]|] eqn:A; [|intro E; inversion E; subst; apply St_refl].
    destruct (joint_next (seth (setv w t v') (hset h' l (jval (js2 j)))) t j) as [[w2 j']|] eqn:N; [|discriminate].
    intro E.
    assert (I1 : WInv (seth (setv w t v') (hset h' l (jval (js2 j))))).
    { apply WInv_seth, WInv_setv; auto. eapply Inv_at; [|exact A]. apply WInv_getv; auto. }
    assert (I2 : WInv w2) by (eapply joint_next_WInv; eauto).
    eapply St_trans; [apply (St_setv t w v'); intros c0 Hc0; eapply at_cells; eauto|].
    eapply St_trans; [apply St_seth; cbn [setv hp]; rewrite hset_length; eapply at_heap_len; eauto|].
    eapply St_trans; [apply St_WQ; [eapply joint_next_WQ; eauto|auto]|]. eapply IH; eauto.
Qed.
Lemma set_vec_St w t o w' b : WInv w -> set_vec w t o = Some (w', b) -> St t w w'.
Proof.
  intro I. unfold set_vec. destruct o as [u|d].
  - destruct (Nat.eqb t u); [intro E; inversion E; subst; apply St_refl|].
    destruct (negb (dim (getv w t) =? dim (getv w u))); [intro E; inversion E; subst; apply St_refl|].
    destruct (joint_begin w t (OS u)) as [[w1 j]|] eqn:B; [|discriminate].
    assert (I1 : WInv w1) by (eapply joint_begin_WInv; eauto).
    intro E. eapply St_trans; [apply St_WQ; [eapply joint_begin_WQ; eauto|auto]|eapply set_loop_St; eauto].
  - destruct (negb (dim (getv w t) =? Z.of_nat (length d))); [intro E; inversion E; subst; apply St_refl|].
    destruct (joint_begin w t (OD d)) as [[w1 j]|] eqn:B; [|discriminate].
    assert (I1 : WInv w1) by (eapply joint_begin_WInv; eauto).
    intro E. eapply St_trans; [apply St_WQ; [eapply joint_begin_WQ; eauto|auto]|eapply set_loop_St; eauto].
Qed.

(* a vector added whose scalars are all fresh *)
Lemma St_addv w w1 v : St (length (vecs w)) w w1 -> length (vecs w1) = length (vecs w) ->
  (forall l, In l (cells_of v) -> (length (hp w) <= l)%nat) -> St (length (vecs w)) w (addv w1 v).
Proof.
  intros [L H] Lv F. split; auto. intros u l.
  destruct (Nat.lt_ge_cases u (length (vecs w1))) as [C|C].
  - rewrite getv_addv_old by auto. apply H.
  - destruct (Nat.eq_dec u (length (vecs w1))) as [->|N].
    + rewrite getv_addv_new. intro Hl. right. split; auto.
    + unfold getv, addv. cbn [vecs]. rewrite nth_overflow; [intros []|]. rewrite app_length. simpl. lia.
Qed.
Lemma append_fresh_cells xs : forall h k0 r h' r' (b : nat),
  append_fresh h k0 xs r = (h', r') -> (b <= length h)%nat ->
  (forall l, In l (cells_of r) -> (b <= l)%nat) ->
  (b <= length h')%nat /\ forall l, In l (cells_of r') -> (b <= l)%nat.
Proof.
  induction xs as [|x xs IH]; intros h k0 r h' r' b E B F; simpl in E.
  - inversion E. subst. auto.
  - eapply IH; [exact E| |].
    + rewrite app_length. lia.
    + unfold cells_of. cbn [vals]. intros l Hl. apply cells_insert in Hl. destruct Hl as [->|Hl]; auto.
Qed.
Lemma new_loop_cells n ks : forall h xs r h' r' (b : nat),
  new_loop h n ks xs r = Some (h', r') -> (b <= length h)%nat ->
  (forall l, In l (cells_of r) -> (b <= l)%nat) -> forall l, In l (cells_of r') -> (b <= l)%nat.
Proof.
  induction ks as [|k ks IH]; intros h xs r h' r' b E B F; simpl in E.
  - inversion E. subst. auto.
  - destruct xs as [|x xs]; [inversion E; subst; auto|].
    destruct (n <=? k); [discriminate|]. destruct (lookup k (vals r)); [discriminate|].
    destruct (x =? 0); [eapply IH; eauto|].
    simpl in E. eapply IH; [exact E| |].
    + rewrite app_length. lia.
    + unfold cells_of. cbn [vals]. intros l Hl. apply cells_insert in Hl. destruct Hl as [->|Hl]; auto.
Qed.
Lemma permute_loop_cells n pi : forall i m k l,
  lookup k (fst (permute_loop n pi i m)) = Some l -> exists k', lookup k' m = Some l.
Proof.
  induction pi as [|p r IH]; intros i m k l; simpl; eauto.
  destruct ((p <? 0) || (n <=? p)); simpl; eauto.
  destruct (i <? p); [|apply IH].
  intro H. apply IH in H. destruct H as [k' H]. rewrite lookup_swap_vals in H. eauto.
Qed.

(* every operation except Slice / AppendVector(sparse) *)
Lemma step_St w o : WInv w -> WWf w -> in_range w o -> no_share o -> exists t, St t w (fst (step w o)).
Proof.
  intros I W R N.
  assert (I' : WInv (fst (step w o))) by (apply step_WInv; auto).
  assert (G : forall t, Inv (getv w t)) by (intro t0; apply WInv_getv; auto).
  assert (GW : forall t, Wf (hp w) (getv w t)) by (intro t0; apply WWf_getv; auto).
  assert (KQ : forall w', WQ w w' -> WInv w' -> exists t, St t w w') by (intros w' Q Iw; exists O; apply St_WQ; auto).
  destruct o; simpl in N; try tauto; cbn [step] in *.
  - (* New *) exists (length (vecs w)). destruct (new_vec (hp w) ks xs n) as [[h' v]|] eqn:E; cbn [fst]; [|apply St_refl].
    destruct R as (R1 & R2 & R3 & R4).
    destruct (new_vec_spec (hp w) ks xs n R1 R2 R3 R4) as (h2 & v2 & A & B & (e & C) & D).
    rewrite A in E. inversion E. subst h' v. clear E.
    apply St_addv; auto.
    + apply St_seth. subst h2. rewrite app_length. lia.
    + unfold new_vec in A. destruct (negb (Nat.eqb (length ks) (length xs))); [discriminate|].
      eapply new_loop_cells; [exact A|auto|]. simpl. intros l [].
  - (* At *) exists t. destruct (at_ (hp w) (getv w t) i) as [[[h' v'] l]|] eqn:A; cbn [fst]; [|apply St_refl].
    eapply St_trans; [apply (St_setv t w v'); intros c0 Hc0; eapply at_cells; eauto|].
    apply St_seth. cbn [setv hp]. eapply at_heap_len; eauto.
  - (* SetAt *) exists t. destruct (at_ (hp w) (getv w t) i) as [[[h' v'] l]|] eqn:A; cbn [fst]; [|apply St_refl].
    eapply St_trans; [apply (St_setv t w v'); intros c0 Hc0; eapply at_cells; eauto|].
    apply St_seth. cbn [setv hp]. rewrite hset_length. eapply at_heap_len; eauto.
  - (* ConstAt *) exists O. destruct (const_at (hp w) (getv w t) i); cbn [fst]; apply St_refl.
  - (* SetV *) exists t. destruct (set_vec w t o) as [[w' b]|] eqn:E; cbn [fst]; [|apply St_refl]. eapply set_vec_St; eauto.
  - (* SETV *) exists t. destruct (set_vec w t (OS u)) as [[w' b]|] eqn:E; cbn [fst]; [|apply St_refl]. eapply set_vec_St; eauto.
  - (* Reset *) exists t. cbn [fst]. apply St_seth. rewrite reset_is_map.
    destruct (map_cells_spec (fun _ => 0) (hp w) (getv w t) (G t) (GW t)) as [L _]. lia.
  - (* ReverseOrder *) exists t. cbn [fst]. apply St_setv. intros l Hl. left.
    apply In_cells_lookup in Hl; [|apply Inv_reverse_order; auto]. destruct Hl as [k L].
    rewrite lookup_reverse_order in L by auto. eapply lookup_In_cells; eauto.
  - (* Swap *) exists t. cbn [fst]. apply St_setv. intros l Hl. left. destruct R as (R1 & R2 & R3).
    apply In_cells_lookup in Hl; [|apply Inv_swap; auto]. destruct Hl as [k L].
    rewrite vals_swap, lookup_swap_vals in L. eapply lookup_In_cells; eauto.
  - (* Permute *) exists t. destruct R as (R1 & R2).
    destruct (Inv_permute (getv w t) pi (G t) R2) as [P1 P2].
    destruct (permute (getv w t) pi) as [v' ok] eqn:E. cbn [fst] in *. apply St_setv. intros l Hl. left.
    apply In_cells_lookup in Hl; [|apply P1]. destruct Hl as [k L].
    assert (v' = fst (permute (getv w t) pi)) by (rewrite E; auto). subst v'. rewrite vals_permute in L.
    destruct (negb (Z.of_nat (length pi) =? dim (getv w t))).
    + eapply lookup_In_cells; eauto.
    + apply permute_loop_cells in L. destruct L as [k' L]. eapply lookup_In_cells; eauto.
  - (* Sort *) exists t. destruct (sort (hp w) (getv w t) r) as [v'|] eqn:E; cbn [fst]; [|apply St_refl].
    apply St_setv. intros l Hl. left. eapply Wf_sort; eauto.
  - (* AppendS *) exists (length (vecs w)).
    pose proof (Wf_clone (hp w) (getv w t) (G t) (GW t)) as [B B2].
    destruct (clone_heap (hp w) (getv w t) (G t) (GW t)) as [e C].
    destruct (clone (hp w) (getv w t)) as [h1 r]. cbn [fst snd] in *. subst h1.
    destruct (append_fresh (hp w ++ e) _ xs _) as [h2 r'] eqn:E. cbn [fst].
    destruct (append_fresh_cells xs _ _ _ _ _ (length (hp w)) E) as [L2 F2]; [rewrite app_length; lia|exact B2|].
    apply St_addv; auto. apply St_seth. auto.
  - (* AppendD *) exists (length (vecs w)).
    pose proof (Wf_clone (hp w) (getv w t) (G t) (GW t)) as [B B2].
    destruct (clone_heap (hp w) (getv w t) (G t) (GW t)) as [e C].
    destruct (clone (hp w) (getv w t)) as [h1 r]. cbn [fst snd] in *. subst h1.
    destruct (append_fresh (hp w ++ e) _ d _) as [h2 r'] eqn:E. cbn [fst].
    destruct (append_fresh_cells d _ _ _ _ _ (length (hp w)) E) as [L2 F2]; [rewrite app_length; lia|exact B2|].
    apply St_addv; auto. apply St_seth. auto.
  - (* MapMul *) exists t. cbn [fst]. apply St_seth.
    destruct (map_cells_spec (fun x => x * c) (hp w) (getv w t) (G t) (GW t)) as [L _]. lia.
  - (* MapAdd *) exists t. cbn [fst]. apply St_seth.
    destruct (map_cells_spec (fun x => x + c) (hp w) (getv w t) (G t) (GW t)) as [L _]. lia.
  - (* MapSetMul *) exists t. cbn [fst]. apply St_seth.
    destruct (map_cells_spec (fun x => x * c) (hp w) (getv w t) (G t) (GW t)) as [L _]. lia.
  - (* ReduceSum *) exists O. cbn [fst]. apply St_refl.
  - (* Iterate *) destruct (iterate (hp w) (getv w t)) as [[v' s]|] eqn:X; cbn [fst] in *; [|exists O; apply St_refl].
    apply KQ; auto. apply WQ_setv. eapply iterate_Q2; eauto.
  - (* IterPart *) destruct (it_begin (hp w) (getv w t)) as [[v0 cur]|] eqn:B; cbn [fst] in *; [|exists O; apply St_refl].
    destruct (iter_part m (hp w) v0 cur []) as [[v' s]|] eqn:X; cbn [fst] in *; [|exists O; apply St_refl].
    apply KQ; auto. apply WQ_setv. eapply Q2_trans; [eapply it_begin_Q2; eauto|eapply iter_part_Q2; eauto].
  - (* IterFrom *) destruct (it_from (hp w) (getv w t) i) as [[v0 cur]|] eqn:B; cbn [fst] in *; [|exists O; apply St_refl].
    destruct (iter_loop (sfuel (getv w t)) (hp w) v0 cur []) as [[v' s]|] eqn:X; cbn [fst] in *; [|exists O; apply St_refl].
    apply KQ; auto. apply WQ_setv. eapply Q2_trans; [eapply it_from_Q2; eauto|eapply iter_loop_Q2; eauto].
  - (* Clone *) exists (length (vecs w)).
    pose proof (Wf_clone (hp w) (getv w t) (G t) (GW t)) as [B B2].
    destruct (clone_heap (hp w) (getv w t) (G t) (GW t)) as [e C].
    destruct (clone (hp w) (getv w t)) as [h1 r]. cbn [fst snd] in *. subst h1.
    apply St_addv; auto. apply St_seth. rewrite app_length. lia.
  - (* Joint *) destruct (joint_run w t o) as [[w' vis]|] eqn:X; cbn [fst] in *; [|exists O; apply St_refl].
    apply KQ; auto. eapply joint_run_WQ; eauto.
  - (* Joint3 *) destruct (joint3_run w t o2 o3) as [[w' vis]|] eqn:X; cbn [fst] in *; [|exists O; apply St_refl].
    apply KQ; auto. eapply joint3_run_WQ; eauto.
Qed.

Lemma step_Sep w o : WInv w -> WWf w -> in_range w o -> no_share o -> Sep w -> Sep (fst (step w o)).
Proof.
  intros I W R N S. destruct (step_St w o I W R N) as [t H]. eapply St_Sep; eauto.
Qed.
Lemma Sep_init : Sep init.
Proof. intros t u l _ H. destruct t; destruct H. Qed.
Lemma Sep_safe w o : Sep w -> safe w o.
Proof. intro S. unfold safe. destruct (writes_cells o); auto. Qed.
Lemma valid_noshare_safe ops : forall w, WInv w -> WWf w -> Sep w -> valid w ops -> Forall no_share ops -> valid_safe w ops.
Proof.
  induction ops as [|o r IH]; intros w I W S V N; simpl; auto.
  destruct V as [V1 V2]. inversion N as [|? ? N1 N2]; subst.
  split; auto. split; [apply Sep_safe; auto|].
  apply IH; auto.
  - apply step_WInv; auto.
  - apply (step_sim set_vec_refines set_vec_total w o I W V1 (Sep_safe w o S)).
  - apply step_Sep; auto.
Qed.
Lemma run_noshare ops : valid init ops -> Forall no_share ops ->
  absw (run init ops) = dense_run [] ops /\ WWf (run init ops) /\ Sep (run init ops).
Proof.
  intros V N.
  assert (G : forall ops w, WInv w -> WWf w -> Sep w -> valid w ops -> Forall no_share ops -> Sep (run w ops)).
  { clear. induction ops as [|o r IH]; intros w I W S V N; simpl; auto.
    destruct V as [V1 V2]. inversion N as [|? ? N1 N2]; subst. unfold run in *. simpl. apply IH; auto.
    - apply step_WInv; auto.
    - apply (step_sim set_vec_refines set_vec_total w o I W V1 (Sep_safe w o S)).
    - apply step_Sep; auto. }
  destruct (run_sim set_vec_refines set_vec_total ops init WInv_init WWf_init) as [A B].
  - apply valid_noshare_safe; auto. apply WInv_init. apply WWf_init. apply Sep_init.
  - split; auto. split; auto. apply G; auto. apply WInv_init. apply WWf_init. apply Sep_init.
Qed.
