(* C11 — the hypotheses of Props.v are satisfiable by non-trivial instances, and
   the model exhibits the recorded finding C11-SLICEWT. *)
From Coq Require Import ZArith List Bool Lia Sorted.
From ADV Require Import C11.Model C11.Spec.
Import ListNotations.
Open Scope Z_scope.

Definition ex_ops : list op :=
  [New [1; 3] [5; -2] 4; SetAt 0 0 0; Swap 0 1 2; Permute 0 [1; 0; 3; 2]; Slice 0 1 3;
   Sort 0 false; AppendV 0 1; SetV 0 (OD [0; 7; 0; 0]); Iterate 0].
(* validity of a concrete history, one step at a time (the state is evaluated by vm_compute) *)
Ltac fin := simpl; unfold has, idx_ok, perm_ok, operand_ok; simpl;
  repeat split; try lia; repeat constructor; simpl; try lia; try tauto;
  try (intros k Hk; assert (k = 0 \/ k = 1 \/ k = 2 \/ k = 3) by lia; tauto);
  try (let H := fresh in intro H; simpl in H; intuition lia).
Ltac step_valid :=
  match goal with
  | |- valid ?w (?o :: ?r) =>
      let w' := eval vm_compute in (fst (step w o)) in
      cut (in_range w o /\ valid w' r);
      [ let H := fresh in intro H; split; [exact (proj1 H)|];
        replace (fst (step w o)) with w' by (vm_compute; reflexivity); exact (proj2 H)
      | split; [fin|] ]
  | |- valid _ [] => exact I
  end.
Example ex_valid : valid init ex_ops.
Proof. unfold ex_ops, init. repeat step_valid. Qed.
Example ex_result :
  map (abs (hp (run init ex_ops))) (vecs (run init ex_ops)) = [[0; 7; 0; 0]; [0; 0]; [-2; 0; 0; 5; 0; 0]].
Proof. vm_compute. reflexivity. Qed.
(* a state with a stored zero and a value-less index key: both read as zero, iteration drops them *)
Example ex_quirks :
  let w := run init [New [1] [5] 3; Permute 0 [0; 1; 2]; SetAt 0 1 0] in
  idx (getv w 0) = [0; 1; 2] /\ map fst (vals (getv w 0)) = [1] /\ abs (hp w) (getv w 0) = [0; 0; 0] /\
  idx (getv (run w [Iterate 0]) 0) = [].
Proof. vm_compute. auto. Qed.

(* C11-SLICEWT: a write through a slice to a stored position is seen by the
   parent, a write to an empty position is not — the parent is neither what
   copying slices ([0;5;0;0]) nor what sharing slices ([0;7;9;0]) give *)
Lemma slice_write_through_refuted :
  exists ops, valid init ops /\
    abs (hp (run init ops)) (getv (run init ops) 0) = [0; 7; 0; 0].
Proof.
  exists [New [1] [5] 4; Slice 0 0 3; SetAt 1 1 7; SetAt 1 2 9]. split.
  - unfold init. repeat step_valid.
  - vm_compute. reflexivity.
Qed.

(* ---- the dense refinement: a valid AND safe history (Slice / AppendVector share cells, the
   later in-place writes go to vectors that hold no shared cell) and its dense run ------------- *)
From ADV Require Import C11.Dense C11.ProofsDense.
Definition ex_safe_ops : list op :=
  [New [1; 3] [5; -2] 4; SetAt 0 0 7; Swap 0 1 2; Permute 0 [1; 0; 3; 2]; Slice 0 1 3;
   Sort 0 false; AppendV 0 1; ReverseOrder 2; Clone 2; SetV 3 (OD [0; 7; 0; 0; 1; 0]); MapMul 3 2;
   SETV 3 2; Reset 3; AppendS 3 [4; 0]; Iterate 0].
Ltac step_valid_safe :=
  match goal with
  | |- valid_safe ?w (?o :: ?r) =>
      let w' := eval vm_compute in (fst (step w o)) in
      cut (in_range w o /\ safe w o /\ valid_safe w' r);
      [ let H := fresh in intro H; split; [exact (proj1 H)|]; split; [exact (proj1 (proj2 H))|];
        replace (fst (step w o)) with w' by (vm_compute; reflexivity); exact (proj2 (proj2 H))
      | split; [fin|split; [apply safeb_sound; vm_compute; reflexivity|]] ]
  | |- valid_safe _ [] => exact I
  end.
Example ex_valid_safe : valid_safe init ex_safe_ops.
Proof. unfold ex_safe_ops, init. repeat step_valid_safe. Qed.
Example ex_dense_run :
  dense_run [] ex_safe_ops =
  [[-2; 0; 5; 7]; [7; -2]; [-2; 7; 7; 5; 0; -2]; [0; 0; 0; 0; 0; 0]; [0; 0; 0; 0; 0; 0; 4; 0]] /\
  dense_run [] (firstn 11 ex_safe_ops) = [[-2; 0; 5; 7]; [7; -2]; [-2; 7; 7; 5; 0; -2]; [0; 14; 0; 0; 2; 0]] /\
  absw (run init ex_safe_ops) = dense_run [] ex_safe_ops.
Proof. vm_compute. auto. Qed.
(* an UNSAFE write (through a cell shared with a slice) is outside the refinement theorem: here the
   sparse world and the copying dense model disagree (cf. slice_write_through_refuted) *)
Example ex_unsafe_differs :
  let ops := [New [1] [5] 4; Slice 0 0 3; SetAt 1 1 7] in
  valid init ops /\ ~ valid_safe init ops /\ absw (run init ops) <> dense_run [] ops.
Proof.
  split; [unfold init; repeat step_valid|]. split.
  - intros (_ & _ & _ & _ & _ & S & _). unfold safe in S. cbn [writes_cells] in S.
    apply (S 0%nat 0%nat); [lia| |]; vm_compute; auto.
  - vm_compute. discriminate.
Qed.
