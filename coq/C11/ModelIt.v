(* C11, part 2 — iterators HELD across mutations: executable model.
   World = the world of Model.v + the list of plain iterator objects created so
   far (handles = positions; an exhausted iterator keeps its handle).

   An iterator object (Go: VECTOR_ITERATOR = AvlIterator{tree, node, value} + the
   vector pointer) is abstracted to
     iv     : the vector it belongs to
     icur   : its current key (it.value while it.node != nil); None = exhausted
     imode  : Attached       every move is evaluated against the vector's CURRENT
                             index (first key greater than the cursor in the
                             current key set, then skip()) — what AvlIterator.Next
                             does under insertions / deletions in the same tree
                             (C19, next_moves_to_first_greater_of_current_set)
              Detached snap  the index OBJECT was replaced (ReverseOrder, Sort,
                             successful Permute overwrite the embedded AvlTree in
                             place) while the iterator's node was a valid node of
                             the old tree: Next walks the links of the OLD tree,
                             which nobody mutates any more = first key greater
                             than the cursor in the SNAPSHOT [snap] of the old key
                             list; skip() reads the CURRENT map at those old keys
                             and deletes from the CURRENT map / NEW index
              Unknown        the index was replaced while the iterator's node may
                             have been tombstoned / value-swapped by an in-place
                             edit: whether Next walks the old links or re-finds
                             in the new tree depends on AVL internals the set
                             abstraction cannot see.  The model makes NO
                             prediction for a move (outcome kind K_UNKNOWN, which
                             never equals a Go outcome; the harness never moves
                             such an iterator).  Observing it (ItGet) is still
                             predictable: Index() = it.value, GetConst() = current
                             map at that key.
     ifresh : the iterator's node is known to be a valid node of the index tree
              holding it.value: its last own move (ItBegin/ItFrom/ItNext) deleted no
              key — skip() deletes key i AFTER the iterator stepped past it, and
              that deletion may rotate / value-swap the very node the iterator
              now sits on (seen on the implementation) — and no in-place edit of
              the index of vector iv happened since.  Conservative: cleared by
              every operation that may touch the index of iv ([touches]) and by
              every move / creation of ANOTHER iterator on iv whose skip() deleted
              a key ([moved]: the index got shorter).
   No proofs in this file. *)
From Coq Require Import ZArith List Bool Lia.
From ADV Require Import C11.Model.
Import ListNotations.
Open Scope Z_scope.

Inductive imode := Attached | Detached (snap : list Z) | Unknown.
Record iter := { iv : nat; icur : option Z; imd : imode; ifresh : bool }.
Record worldi := { base : world; its : list iter }.
Definition initi : worldi := {| base := init; its := [] |}.
Definition dflt_iter : iter := {| iv := O; icur := None; imd := Attached; ifresh := false |}.
Definition geti (wi : worldi) (k : nat) : iter := nth k (its wi) dflt_iter.

Inductive opi :=
  | Base (o : op)                 (* any operation of Model.op, iterators just sit *)
  | ItBegin (t : nat)             (* it := v.ConstIterator(), kept *)
  | ItFrom (t : nat) (i : Z)      (* it := v.ConstIteratorFrom(i), kept *)
  | ItNext (k : nat)              (* it_k.Next() *)
  | ItGet (k : nat).              (* it_k.Ok(), it_k.Index(), it_k.GetConst() *)

Definition K_NOIT : Z := 4.       (* no such iterator / vector: never generated *)
Definition K_UNKNOWN : Z := 5.    (* move of an Unknown iterator: no prediction *)

(* ---- a detached iterator: Next / skip over the snapshot of the old keys ---- *)
Fixpoint skip_snap (fuel : nat) (snap : list Z) (h : heap) (v : svec) (cur : option Z)
  : option (svec * option Z) :=
  match cur with
  | None => Some (v, None)
  | Some k =>
      if isnull h v k then
        match fuel with
        | O => None
        | S f => skip_snap f snap h (del_entry k v) (first_gt k snap)
        end
      else Some (v, cur)
  end.
Definition it_next_snap (snap : list Z) (h : heap) (v : svec) (cur : option Z) :=
  match cur with
  | None => Some (v, None)
  | Some k => skip_snap (S (length snap)) snap h v (first_gt k snap)
  end.

(* ---- draining an attached iterator that sits at [cur] ----------------------
   it.Next(); for it.Ok() { visit (it.Index(), it.GetConst()); it.Next() }
   None = out of fuel (never with fuel S (length idx), see ProofsIt.drain_spec) *)
Fixpoint drain (fuel : nat) (h : heap) (v : svec) (cur : option Z) (acc : list (Z * Z))
  : option (svec * list (Z * Z)) :=
  match cur with
  | None => Some (v, rev acc)
  | Some _ =>
      match fuel with
      | O => None
      | S f =>
          match it_next h v cur with
          | None => None
          | Some (v', cur') =>
              drain f h v' cur' (match cur' with Some k' => (k', peek h v' k') :: acc | None => acc end)
          end
      end
  end.
Definition dfuel (v : svec) : nat := S (length (idx v)).

(* ---- which vectors' INDEX an operation of Model.op may edit in place -------- *)
Definition operand_h (o : operand) : list nat := match o with OS u => [u] | OD _ => [] end.
Definition touches (o : op) : list nat :=
  match o with
  | New _ _ _ | ConstAt _ _ | ReduceSum _ | Reset _ | MapMul _ _ | MapAdd _ _ | MapSetMul _ _
  | Clone _ | Slice _ _ _ | AppendS _ _ | AppendD _ _ => []       (* reads / cell writes only *)
  | At t _ | SetAt t _ _ | Swap t _ _ | Iterate t | IterPart t _ | IterFrom t _
  | ReverseOrder t | Sort t _ | Permute t _ => [t]
  | SetV t o | Joint t o => t :: operand_h o
  | SETV t u => [t; u]
  | AppendV _ u => [u]                                            (* APPEND iterates its argument *)
  | Joint3 t o2 o3 => t :: operand_h o2 ++ operand_h o3
  end.

(* a move / creation of an iterator on vector t took v to v': it edited the index
   iff skip() deleted a key *)
Definition moved (v v' : svec) (t : nat) : list nat :=
  if Nat.eqb (length (idx v')) (length (idx v)) then [] else [t].

Definition set_fresh (b : bool) (it : iter) : iter :=
  {| iv := iv it; icur := icur it; imd := imd it; ifresh := b |}.
Definition clear_fresh (ts : list nat) (l : list iter) : list iter :=
  map (fun it => if existsb (Nat.eqb (iv it)) ts then set_fresh false it else it) l.
(* the index object of vector t is replaced; [snap] = the old key list; [clean] =
   the replacing operation itself did not edit the old tree before dropping it *)
Definition detach (t : nat) (snap : list Z) (clean : bool) (l : list iter) : list iter :=
  map (fun it =>
         if Nat.eqb (iv it) t then
           match imd it, icur it with
           | Attached, Some _ =>
               {| iv := iv it; icur := icur it;
                  imd := if ifresh it && clean then Detached snap else Unknown; ifresh := false |}
           | _, _ => it                      (* exhausted: Next is a no-op for ever; Detached / Unknown stay *)
           end
         else it) l.

(* Ok / Index / GetConst of an iterator: [0] or [1; key; entry present?; value] *)
Definition it_obs (w : world) (it : iter) : list Z :=
  match icur it with
  | None => [0]
  | Some k => match lookup k (vals (getv w (iv it))) with
              | Some l => [1; k; 1; hget (hp w) l]
              | None => [1; k; 0; 0]
              end
  end.

Definition base_its (w : world) (o : op) (l : list iter) : list iter :=
  match o with
  | ReverseOrder t => detach t (idx (getv w t)) true l
  | Sort t _ =>
      match iterate (hp w) (getv w t) with
      | Some (v1, _) => detach t (idx (getv w t)) (Nat.eqb (length (idx v1)) (length (idx (getv w t)))) l
      | None => clear_fresh [t] l
      end
  | Permute t pi => if snd (permute (getv w t) pi) then detach t (idx (getv w t)) true l
                    else clear_fresh [t] l
  | _ => clear_fresh (touches o) l
  end.

Definition new_iter (wi : worldi) (t : nat) (r : option (svec * option Z)) : worldi * (Z * list Z) :=
  if exists_vec (base wi) t then
    match r with
    | Some (v', cur) =>
        let w' := setv (base wi) t v' in
        let it := {| iv := t; icur := cur; imd := Attached;
                     ifresh := Nat.eqb (length (idx v')) (length (idx (getv (base wi) t))) |} in
        ({| base := w'; its := clear_fresh (moved (getv (base wi) t) v' t) (its wi) ++ [it] |}, (K_OK, it_obs w' it))
    | None => (wi, (K_FUEL, []))
    end
  else (wi, (K_NOIT, [])).

Definition step_it (wi : worldi) (o : opi) : worldi * (Z * list Z) :=
  let w := base wi in
  match o with
  | Base o =>
      let '(w', out) := step w o in
      ({| base := w'; its := base_its w o (its wi) |}, out)
  | ItBegin t => new_iter wi t (it_begin (hp w) (getv w t))
  | ItFrom t i => new_iter wi t (it_from (hp w) (getv w t) i)
  | ItGet k =>
      if Nat.ltb k (length (its wi)) then (wi, (K_OK, it_obs w (geti wi k))) else (wi, (K_NOIT, []))
  | ItNext k =>
      if Nat.ltb k (length (its wi)) then
        let it := geti wi k in
        match icur it with
        | None => (wi, (K_OK, [0]))             (* AvlIterator.Next on node == nil: no-op *)
        | Some _ =>
            match (match imd it with
                   | Attached => Some (it_next (hp w) (getv w (iv it)) (icur it))
                   | Detached snap => Some (it_next_snap snap (hp w) (getv w (iv it)) (icur it))
                   | Unknown => None
                   end) with
            | None => (wi, (K_UNKNOWN, []))
            | Some None => (wi, (K_FUEL, []))
            | Some (Some (v', cur')) =>
                let w' := setv w (iv it) v' in
                let it' := {| iv := iv it; icur := cur'; imd := imd it;
                              ifresh := match imd it with
                                        | Attached => Nat.eqb (length (idx v')) (length (idx (getv w (iv it))))
                                        | _ => false end |} in
                ({| base := w'; its := upd k it' (clear_fresh (moved (getv w (iv it)) v' (iv it)) (its wi)) |},
                 (K_OK, it_obs w' it'))
            end
        end
      else (wi, (K_NOIT, []))
  end.

Definition run_it (wi : worldi) (ops : list opi) : worldi := fold_left (fun w o => fst (step_it w o)) ops wi.
