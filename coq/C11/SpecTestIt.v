(* C11, part 2 — the hypotheses of PropsIt.v are satisfiable by non-trivial
   instances; vm_compute sanity tests of ModelIt.v (the Detached predictions
   below were checked against the implementation with a Go experiment before
   the model was built on them, and are exercised by `c11 --extra held`). *)
From Coq Require Import ZArith List Bool Lia Sorted.
From ADV Require Import C11.Model C11.Spec C11.ModelIt C11.ProofsIt.
Import ListNotations.
Open Scope Z_scope.

Fixpoint outs (wi : worldi) (ops : list opi) : list (Z * list Z) :=
  match ops with [] => [] | o :: r => let '(w', out) := step_it wi o in out :: outs w' r end.

Ltac fin_it := simpl; unfold has, idx_ok, perm_ok, operand_ok; simpl;
  repeat split; try lia; repeat constructor; simpl; try lia; try tauto;
  try (let H := fresh in intro H; simpl in H; intuition lia).
Ltac step_valid_it :=
  match goal with
  | |- valid_it ?w (?o :: ?r) =>
      let w' := eval vm_compute in (fst (step_it w o)) in
      cut (in_range_it w o /\ valid_it w' r);
      [ let H := fresh in intro H; split; [exact (proj1 H)|];
        replace (fst (step_it w o)) with w' by (vm_compute; reflexivity); exact (proj2 H)
      | split; [fin_it|] ]
  | |- valid_it _ [] => exact I
  end.

(* an iterator held across: a zero write under the cursor, an entry created
   before and one after the cursor, a full iteration (skip deletions) by somebody
   else, a Swap, a Set from a dense vector, a second iterator on the same vector *)
Definition ex_pre : list opi := [Base (New [1; 3; 5] [5; -2; 7] 8); Base (New [0] [1] 8)].
Definition ex_post : list opi :=
  [ItNext 0; Base (SetAt 0 3 0); Base (SetAt 0 0 4); Base (SetAt 0 6 9); Base (Iterate 0);
   ItFrom 0 2; Base (Swap 0 5 7); ItGet 0; Base (SetV 0 (OD [1; 0; 0; 0; 2; 0; 3; 0])); ItGet 1].
Example ex_valid_it : valid_it initi (ex_pre ++ ItBegin 0 :: ex_post).
Proof. unfold ex_pre, ex_post, initi. simpl app. repeat step_valid_it. Qed.
Example ex_no_replace : Forall (fun o => ~ replaces 0 o) ex_post.
Proof. unfold ex_post. repeat constructor; simpl; tauto. Qed.
(* the iterator sits at 3 (its entry was deleted by somebody else's skip() and stored
   again as an explicit zero by Set) and drains to 4, 6 *)
Example ex_held_state :
  let wi := run_it initi (ex_pre ++ ItBegin 0 :: ex_post) in
  icur (geti wi 0) = Some 3 /\ imd (geti wi 0) = Attached /\
  idx (getv (base wi) 0) = [0; 1; 2; 3; 4; 5; 6; 7] /\   (* Set from a dense vector stores explicit zeros *)
  abs (hp (base wi)) (getv (base wi) 0) = [1; 0; 0; 0; 2; 0; 3; 0] /\
  option_map snd (drain (dfuel (getv (base wi) 0)) (hp (base wi)) (getv (base wi) 0) (icur (geti wi 0)) [])
    = Some [(4, 2); (6, 3)].
Proof. vm_compute. auto. Qed.
(* per-step observations of that history *)
Example ex_outs :
  outs initi (ex_pre ++ ItBegin 0 :: ex_post) =
  [(0, []); (0, []); (0, [1; 1; 1; 5]); (0, [1; 3; 1; -2]); (0, []); (0, []); (0, []);
   (0, [0; 4; 1; 5; 5; 7; 6; 9]); (0, [1; 5; 1; 7]); (0, []); (0, [1; 3; 0; 0]); (0, []); (0, [1; 5; 1; 0])].
Proof. vm_compute. reflexivity. Qed.

(* drain from a tombstoned / arbitrary cursor *)
Example ex_drain :
  let w := run init [New [0; 2; 3; 5] [5; -7; 2; 1] 7; SetAt 0 3 0; SetAt 0 6 4] in
  option_map snd (drain (dfuel (getv w 0)) (hp w) (getv w 0) (Some 1) []) = Some [(2, -7); (5, 1); (6, 4)] /\
  option_map snd (drain (dfuel (getv w 0)) (hp w) (getv w 0) (Some (-3)) []) = Some [(0, 5); (2, -7); (5, 1); (6, 4)] /\
  option_map snd (drain (dfuel (getv w 0)) (hp w) (getv w 0) (Some 6) []) = Some [] /\
  option_map (fun r => idx (fst r)) (drain (dfuel (getv w 0)) (hp w) (getv w 0) (Some 1) []) = Some [0; 2; 5; 6].
Proof. vm_compute. auto. Qed.

(* ---- Detached: the iterator walks the SNAPSHOT of the old keys, tests / deletes
        in the current map and the NEW index (all four as observed on the Go code) *)
Example ex_detached_reverse :
  outs initi [Base (New [0; 1; 3] [5; 6; 7] 5); ItBegin 0; Base (ReverseOrder 0); ItGet 0; ItNext 0; ItNext 0; ItNext 0]
  = [(0, []); (0, [1; 0; 1; 5]); (0, []); (0, [1; 0; 0; 0]); (0, [1; 1; 1; 7]); (0, [1; 3; 1; 6]); (0, [0])].
Proof. vm_compute. reflexivity. Qed.
Example ex_detached_deletes_new_index :
  let ops := [Base (New [0; 1; 2] [5; 6; 7] 6); ItBegin 0; Base (ReverseOrder 0); Base (SetAt 0 1 0);
              Base (SetAt 0 2 9); ItNext 0] in
  snd (snd (step_it (run_it initi ops) (ItGet 0))) = [1; 2; 1; 9] /\
  idx (getv (base (run_it initi ops)) 0) = [2; 3; 4; 5].
Proof. vm_compute. auto. Qed.
Example ex_detached_permute :
  let ops := [Base (New [0; 2] [5; 7] 4); ItBegin 0; Base (Permute 0 [1; 0; 3; 2]); ItNext 0] in
  icur (geti (run_it initi ops) 0) = None /\ idx (getv (base (run_it initi ops)) 0) = [0; 1; 3].
Proof. vm_compute. auto. Qed.
Example ex_detached_sort :
  outs initi [Base (New [0; 2; 3] [5; -7; 2] 5); ItBegin 0; Base (Sort 0 false); ItGet 0; ItNext 0; ItNext 0]
  = [(0, []); (0, [1; 0; 1; 5]); (0, []); (0, [1; 0; 1; -7]); (0, [1; 3; 1; 2]); (0, [0])].
Proof. vm_compute. reflexivity. Qed.
(* Unknown: an in-place index edit (skip deletion under the cursor) before the
   replacement — no prediction for the move, ItGet still predicted *)
Example ex_unknown :
  outs initi [Base (New [0; 2; 3] [5; -7; 2] 5); ItBegin 0; Base (SetAt 0 0 0); Base (Iterate 0);
              Base (ReverseOrder 0); ItGet 0; ItNext 0]
  = [(0, []); (0, [1; 0; 1; 5]); (0, []); (0, [2; -7; 3; 2]); (0, []); (0, [1; 0; 0; 0]); (K_UNKNOWN, [])].
Proof. vm_compute. reflexivity. Qed.
(* an exhausted iterator stays exhausted, whatever is inserted behind it *)
Example ex_exhausted :
  outs initi [Base (New [1] [5] 4); ItBegin 0; ItNext 0; Base (SetAt 0 3 2); ItNext 0; Base (ReverseOrder 0); ItNext 0]
  = [(0, []); (0, [1; 1; 1; 5]); (0, [0]); (0, []); (0, [0]); (0, []); (0, [0])].
Proof. vm_compute. reflexivity. Qed.
