(* C11, sparse matrices — the WORLD-LEVEL step theorem and the WHOLE-HISTORY dense
   refinement: every one of the 22 operations of [mstep] refines [mdstep] on the
   abstraction [mabsw] of the whole world, keeps the world well-formed (MWWf) and
   answers K_OK (K_ERR exactly for SwapRows/SwapColumns of a non-square matrix);
   hence  mabsw (mrun w ops) = mdense_run (mabsw w) ops  for every in-range, safe
   history.  Imitates ProofsDense.v (vectors).

   The single-matrix results for Map/MapSet, SwapRows, SwapColumns, the constructor,
   Tip and the world-level result for Set are taken as hypotheses of [Section
   Assembly] (they are proved in other files and instantiated in PropsMat2.v). *)
From Coq Require Import ZArith List Bool Lia Sorted.
From ADV Require Import C11.Model C11.Spec C11.Dense C11.ProofsMap C11.ProofsIter C11.ProofsInv C11.ProofsRef
                        C11.ProofsD1 C11.ProofsD2 C11.ProofsD3 C11.ProofsDense
                        C11.ModelMat C11.ProofsMatSpec C11.ProofsMat C11.ProofsMatRef
                        C11.ProofsMatDense C11.ProofsMatDense2 C11.ProofsMatDense3 C11.DenseMat.
Import ListNotations.
Open Scope Z_scope.

(* ---- dense matrices: small facts -------------------------------------------------------- *)
Lemma dmget_mabsw w t : dmget (mabsw w) t = mabsd (mhp w) (getm w t).
Proof. unfold dmget, mabsw, getm. change dnull with (mabsd (mhp w) (null_mat 0 0)). apply map_nth. Qed.
Lemma dmget_map hh w u : dmget (map (mabsd hh) (mats w)) u = mabsd hh (getm w u).
Proof. unfold dmget, getm. change dnull with (mabsd hh (null_mat 0 0)). apply map_nth. Qed.
Lemma dmw_ext (a b : dmworld) : length a = length b -> (forall u, dmget a u = dmget b u) -> a = b.
Proof. intros L H. apply (nth_ext a b dnull dnull); [exact L|]. intros n _. apply (H n). Qed.
Lemma dmget_upd (d : dmworld) t x u :
  dmget (upd t x d) u = if Nat.eqb t u then (if Nat.ltb t (length d) then x else dnull) else dmget d u.
Proof. unfold dmget. apply nth_upd. Qed.
Lemma mabsw_length w : length (mabsw w) = length (mats w).
Proof. apply map_length. Qed.
Lemma del_mabsd h m i j : del (mabsd h m) i j = mget (mabs h m) i j.
Proof. reflexivity. Qed.
Lemma mabsd_dims h h' m m' : mdims m' = mdims m -> mabs h' m' = mabs h m -> mabsd h' m' = mabsd h m.
Proof. intros D E. inversion D as [[Dr Dc]]. unfold mabsd. rewrite Dr, Dc, E. reflexivity. Qed.
(* a matrix stands for the table F *)
Lemma mabsd_by_peek h m r c (F : Z -> Z -> Z) :
  mrows m = r -> mcols m = c ->
  (forall i j, 0 <= i < r -> 0 <= j < c -> peek h (mv m) (i * c + j) = F i j) ->
  mabsd h m = dtab r c F.
Proof.
  intros Dr Dc H. unfold mabsd, dtab. rewrite Dr, Dc. f_equal. rewrite mabs_mtab, Dr, Dc.
  apply mtab_ext. intros. apply H; auto.
Qed.
Lemma mabs_self h m : mabs h m = mtab (mrows m) (mcols m) (fun i j => mget (mabs h m) i j).
Proof. rewrite mabs_mtab at 1. apply mtab_ext. intros i j Hi Hj. symmetry. apply mget_mabs. split; auto. Qed.

(* ---- frames ---------------------------------------------------------------------------- *)
Lemma mabsd_frame h h' m : (forall l, In l (mcells m) -> hget h' l = hget h l) -> mabsd h' m = mabsd h m.
Proof.
  intro H. apply mabsd_dims; [reflexivity|]. apply mabs_ext; [reflexivity|]. intros i j _.
  apply peek_frame. intros k l L. apply H. unfold mcells. eapply lookup_In_cells; eauto.
Qed.
Lemma mabsd_app h e m : Wf h (mv m) -> mabsd (h ++ e) m = mabsd h m.
Proof.
  intro W. apply mabsd_dims; [reflexivity|]. apply mabs_ext; [reflexivity|]. intros i j _. apply peek_app. exact W.
Qed.
Lemma MWWf_getm w t : MWWf w -> Wf (mhp w) (mv (getm w t)).
Proof.
  intro H. unfold getm. apply (Forall_nth_d (fun m => Wf (mhp w) (mv m))); auto. apply Wf_nil.
Qed.
Lemma MWf_mono h h' ms :
  (length h <= length h')%nat -> Forall (fun m => Wf h (mv m)) ms -> Forall (fun m => Wf h' (mv m)) ms.
Proof. intros L F. eapply Forall_impl; [|exact F]. intros m. apply Wf_mono. exact L. Qed.
Lemma mabsw_app w e : MWWf w -> map (mabsd (mhp w ++ e)) (mats w) = mabsw w.
Proof.
  intro W. unfold mabsw. apply map_ext_in. intros m Hin. unfold MWWf in W. rewrite Forall_forall in W.
  apply mabsd_app. apply W. exact Hin.
Qed.
Lemma msetH_same w : msetH w (mhp w) = w.
Proof. destruct w. reflexivity. Qed.
Lemma upd_dmget (d : dmworld) t : upd t (dmget d t) d = d.
Proof. apply upd_same. Qed.
Lemma hset_same h l : hset h l (hget h l) = h.
Proof. unfold hset, hget. apply upd_same. Qed.

(* ---- (a) generic lifting lemmas ---------------------------------------------------------- *)
Section Lift.
Variable w : mworld.
Hypothesis I : MWInv w.
Hypothesis W : MWWf w.

(* matrix t replaced, heap unchanged (Swap, SwapRows/Columns, Tip, Iterate): no sharing premise *)
Lemma msim_same t m' (F : dmat -> dmat) :
  mabsd (mhp w) m' = F (mabsd (mhp w) (getm w t)) -> Wf (mhp w) (mv m') ->
  mabsw (setm w t m') = upd t (F (dmget (mabsw w) t)) (mabsw w) /\ MWWf (setm w t m').
Proof.
  intros E Wv. split.
  - unfold mabsw at 1. unfold setm. cbn [mhp mats]. rewrite map_upd, E, dmget_mabsw. reflexivity.
  - unfold MWWf, setm. cbn [mhp mats]. apply Forall_upd; auto.
Qed.
(* matrix t replaced, heap extended (At creating an entry) *)
Lemma msim_ext t e m' (F : dmat -> dmat) :
  mabsd (mhp w ++ e) m' = F (mabsd (mhp w) (getm w t)) -> Wf (mhp w ++ e) (mv m') ->
  mabsw (setm (msetH w (mhp w ++ e)) t m') = upd t (F (dmget (mabsw w) t)) (mabsw w) /\
  MWWf (setm (msetH w (mhp w ++ e)) t m').
Proof.
  intros E Wv. split.
  - unfold mabsw at 1. unfold setm, msetH. cbn [mhp mats]. rewrite map_upd, E, dmget_mabsw.
    f_equal. apply mabsw_app. exact W.
  - unfold MWWf, setm, msetH. cbn [mhp mats]. apply Forall_upd; auto.
    eapply MWf_mono; [|exact W]. rewrite app_length. lia.
Qed.
(* the other matrices do not see an in-place rewriting of the cells of an UNSHARED matrix t *)
Lemma upd_map_munshared t h' m' (x : dmat) :
  munshared w t -> MPost (mhp w) (getm w t) h' m' ->
  upd t x (map (mabsd h') (mats w)) = upd t x (mabsw w).
Proof.
  intros U (P1 & P2 & P3 & P4 & P5 & P6). apply dmw_ext.
  - rewrite !upd_length. unfold mabsw. rewrite !map_length. reflexivity.
  - intro u. rewrite !dmget_upd. unfold mabsw. rewrite !map_length.
    destruct (Nat.eqb t u) eqn:E; [reflexivity|]. apply Nat.eqb_neq in E.
    rewrite !dmget_map. apply mabsd_frame. intros l Hl. apply P5.
    + apply (cells_alloc (mhp w) (mv (getm w u))); [apply (MWInv_getm w u I)|apply MWWf_getm; exact W|exact Hl].
    + intro Hin. apply (U u l); auto.
Qed.
(* an operation with a single-matrix post-condition MPost on an unshared matrix *)
Lemma msim_post t h' m' (F : dmat -> dmat) :
  munshared w t -> MPost (mhp w) (getm w t) h' m' ->
  mabsd h' m' = F (mabsd (mhp w) (getm w t)) ->
  mabsw (setm (msetH w h') t m') = upd t (F (dmget (mabsw w) t)) (mabsw w) /\
  MWWf (setm (msetH w h') t m').
Proof.
  intros U P E. split.
  - unfold mabsw at 1. unfold setm, msetH. cbn [mhp mats]. rewrite map_upd, E, dmget_mabsw.
    eapply upd_map_munshared; eauto.
  - destruct P as (P1 & P2 & P3 & P4 & P5 & P6).
    unfold MWWf, setm, msetH. cbn [mhp mats]. apply Forall_upd; auto.
    eapply MWf_mono; [|exact W]. exact P4.
Qed.
(* a matrix added, heap extended (constructor, Clone; T() with e = []) *)
Lemma msim_addm e m (a : dmat) :
  mabsd (mhp w ++ e) m = a -> Wf (mhp w ++ e) (mv m) ->
  mabsw (addm (msetH w (mhp w ++ e)) m) = mabsw w ++ [a] /\ MWWf (addm (msetH w (mhp w ++ e)) m).
Proof.
  intros E Wv. split.
  - unfold mabsw at 1. unfold addm, msetH. cbn [mhp mats]. rewrite map_app. cbn [map]. rewrite E.
    f_equal. apply mabsw_app. exact W.
  - unfold MWWf, addm, msetH. cbn [mhp mats]. apply Forall_app. split; [|constructor; auto].
    eapply MWf_mono; [|exact W]. rewrite app_length. lia.
Qed.
End Lift.

(* ---- the abandoned loop: closed form of iter_part (first n visits of the full loop) ------ *)
Lemma In_firstn {X} n : forall (l : list X) x, In x (firstn n l) -> In x l.
Proof.
  induction n as [|n IH]; intros l x H; destruct l as [|y l]; simpl in H; try tauto.
  destruct H as [->|H]; simpl; auto.
Qed.
Lemma sset_dropnull_mid (p : Z -> bool) pre k r :
  sset (pre ++ k :: r) -> sset ((pre ++ [k]) ++ dropnull p r).
Proof.
  intro Hs. rewrite <- app_assoc. simpl.
  induction pre as [|y pr IHp]; simpl in *.
  - apply sset_cons in Hs. destruct Hs as [Hs Hf]. apply sset_cons. split.
    + clear Hf. induction r as [|z r IHr]; simpl; auto. destruct (p z); auto.
      apply IHr. apply sset_cons in Hs. tauto.
    + apply Forall_forall. intros x Hx. rewrite Forall_forall in Hf. apply Hf.
      clear - Hx. induction r as [|z r IHr]; simpl in *; auto. destruct (p z); auto.
  - apply sset_cons in Hs. destruct Hs as [Hs Hf]. apply sset_cons. split; auto.
    apply Forall_forall. intros x Hx. rewrite Forall_forall in Hf. apply Hf.
    apply in_app_or in Hx. apply in_or_app. destruct Hx as [Hx|Hx]; auto. right.
    simpl in *. destruct Hx as [Hx|Hx]; auto. right.
    clear - Hx. induction r as [|z r IHr]; simpl in *; auto. destruct (p z); auto.
Qed.
Lemma iter_part_spec h : forall n rest pre v acc,
  idx v = pre ++ rest -> sset (idx v) -> dropnull (isnull h v) rest = rest ->
  exists v', iter_part n h v (hd_error rest) acc
               = Some (v', rev acc ++ cells v (firstn n (filter (nonnull h v) rest))).
Proof.
  induction n as [|n IH]; intros rest pre v acc Hidx Hs Hd.
  - exists v. simpl. rewrite app_nil_r. reflexivity.
  - destruct rest as [|k r].
    + exists v. simpl. rewrite app_nil_r. reflexivity.
    + simpl in Hd. destruct (isnull h v k) eqn:N.
      { exfalso. pose proof (dropnull_length (isnull h v) r) as L. rewrite Hd in L. simpl in L. lia. }
      cbn [hd_error iter_part].
      assert (exists l, lookup k (vals v) = Some l) as [l Hl].
      { unfold isnull in N. destruct (lookup k (vals v)); [eauto|discriminate]. }
      rewrite Hl.
      assert (E1 : first_gt k (idx v) = hd_error r) by (rewrite Hidx; apply first_gt_mid; rewrite <- Hidx; auto).
      unfold it_next. rewrite E1.
      destruct (skip_spec h r (pre ++ [k]) v (sfuel v)) as (v2 & A & B & C); auto.
      { rewrite Hidx, <- app_assoc. auto. }
      { unfold sfuel. rewrite Hidx, app_length. simpl. lia. }
      rewrite A.
      set (r' := dropnull (isnull h v) r) in *.
      assert (Hext : forall k0, isnull h v2 k0 = isnull h v k0) by apply C.
      destruct (IH r' (pre ++ [k]) v2 ((k, l) :: acc)) as (v3 & A3); auto.
      { rewrite B. unfold r'. apply sset_dropnull_mid. rewrite <- Hidx. exact Hs. }
      { rewrite (dropnull_ext _ (isnull h v)); auto. apply dropnull_idem. }
      assert (NN : nonnull h v k = true) by (unfold nonnull; rewrite N; auto).
      assert (CK : cell_of v k = l) by (unfold cell_of; rewrite Hl; auto).
      assert (F1 : filter (nonnull h v2) r' = filter (nonnull h v) r).
      { unfold nonnull. rewrite (filter_ext _ (fun k0 => negb (isnull h v k0))).
        - apply filter_dropnull.
        - intro a. rewrite Hext. auto. }
      exists v3. rewrite A3. apply f_equal. apply f_equal. simpl rev. rewrite <- app_assoc. cbn [filter]. rewrite NN.
      rewrite firstn_cons. unfold cells at 2. cbn [map app]. rewrite CK, F1. unfold cells.
      apply (f_equal (app (rev acc))). apply (f_equal (cons (k, l))). apply map_ext_in. intros a Ha. f_equal.
      apply In_firstn in Ha. apply filter_In in Ha. destruct Ha as [_ Ha]. unfold nonnull in Ha.
      unfold cell_of. destruct C as (_ & C2 & _). rewrite C2; auto.
      destruct (isnull h v a); auto; discriminate.
Qed.
(* from the start: it_begin, then at most n visits = the first n visits of the full iteration *)
Lemma iter_part_begin h v n :
  sset (idx v) ->
  exists v0 cur v', it_begin h v = Some (v0, cur) /\
    iter_part n h v0 cur [] = Some (v', firstn n (cells v (filter (nonnull h v) (idx v)))) /\
    exists v1, iterate h v = Some (v1, cells v (filter (nonnull h v) (idx v))).
Proof.
  intro Hs. unfold it_begin.
  destruct (skip_spec h (idx v) [] v (sfuel v)) as (v1 & A & B & C); auto.
  { unfold sfuel. lia. }
  simpl in B.
  assert (Hext : forall k0, isnull h v1 k0 = isnull h v k0) by apply C.
  assert (S1 : sset (idx v1)).
  { rewrite B. clear - Hs. revert Hs. generalize (isnull h v). intros p Hs.
    induction (idx v) as [|z r IHr]; simpl; auto. destruct (p z); auto.
    apply IHr. apply sset_cons in Hs. tauto. }
  destruct (iter_part_spec h n (dropnull (isnull h v) (idx v)) [] v1 []) as (v2 & A2); auto.
  { rewrite (dropnull_ext _ (isnull h v)); auto. apply dropnull_idem. }
  exists v1, (hd_error (dropnull (isnull h v) (idx v))), v2. split; [exact A|]. split.
  - rewrite A2. simpl.
    assert (F1 : filter (nonnull h v1) (dropnull (isnull h v) (idx v)) = filter (nonnull h v) (idx v)).
    { unfold nonnull. rewrite (filter_ext _ (fun k0 => negb (isnull h v k0))).
      - apply filter_dropnull.
      - intro a. rewrite Hext. auto. }
    f_equal. f_equal. rewrite F1. unfold cells. rewrite firstn_map. apply map_ext_in. intros a Ha. f_equal.
    apply In_firstn in Ha. apply filter_In in Ha. destruct Ha as [_ Ha]. unfold nonnull in Ha.
    unfold cell_of. destruct C as (_ & C2' & _). rewrite C2'; auto.
    destruct (isnull h v a); auto; discriminate.
  - destruct (iterate_spec h v Hs) as (v' & E & _). exists v'. exact E.
Qed.

(* Row / Col / Diag never panic on in-range arguments *)
Lemma copy_loop_total m : Whole m -> forall ps h r,
  (forall p i j, In (p, i, j) ps -> pos_ok m i j /\ 0 <= p < dim r) ->
  exists h' r', copy_loop h m ps r = Some (h', r').
Proof.
  intros Wm. induction ps as [|[[p i] j] ps IH]; intros h r H; cbn [copy_loop]; [eauto|].
  destruct (H p i j (or_introl eq_refl)) as [P Hp].
  rewrite (mindex_whole_ok _ _ _ Wm P).
  assert (in_bounds (mv m) (i * mcols m + j) = true) as ->.
  { pose proof (key_range m i j Wm P). unfold in_bounds. apply andb_true_intro.
    split; [apply Z.leb_le|apply Z.ltb_lt]; lia. }
  destruct (isnull h (mv m) (i * mcols m + j)).
  - apply IH. intros p0 i0 j0 Hin. apply H. right. exact Hin.
  - destruct (at_in_range_ok h r p Hp) as (h1 & r1 & l & A). rewrite A. apply IH.
    intros p0 i0 j0 Hin. destruct (H p0 i0 j0 (or_intror Hin)) as [X Y]. split; auto.
    rewrite (dim_at _ _ _ _ _ _ A). exact Y.
Qed.

(* ---- (b) the simulation, operation by operation ------------------------------------------- *)
(* the answer of an in-range operation: K_OK, except SwapRows/SwapColumns of a non-square
   matrix (K_ERR, nothing happens) *)
Definition mcode (w : mworld) (o : mop) : Z :=
  match o with
  | MSwapRows t _ _ | MSwapColumns t _ _ => if mrows (getm w t) =? mcols (getm w t) then K_OK else K_ERR
  | _ => K_OK
  end.
Definition MSim (w : mworld) (o : mop) : Prop :=
  mabsw (fst (mstep w o)) = mdstep (mabsw w) o /\ MWWf (fst (mstep w o)) /\
  fst (snd (mstep w o)) = mcode w o.
Lemma MSim_intro w o : 
  (mabsw (fst (mstep w o)) = mdstep (mabsw w) o /\ MWWf (fst (mstep w o))) ->
  fst (snd (mstep w o)) = mcode w o -> MSim w o.
Proof. intros [A B] C. split; [exact A|split; [exact B|exact C]]. Qed.

Section Assembly.
Hypothesis H_map : forall h m c, MInv m -> Wf h (mv m) ->
  exists h' m', map_list (fun x => x * c) (positions (mrows m) (mcols m)) h m = (h', m', true) /\
    mabsd h' m' = dm_scale c (mabsd h m) /\ MPost h m h' m'.
Hypothesis H_swap_rows : forall h m i j, MInv m -> Wf h (mv m) ->
  (mrows m = mcols m -> 0 < mrows m -> 0 <= i < mrows m /\ 0 <= j < mrows m) ->
  exists m', mswap_rows m i j = (m', if mrows m =? mcols m then K_OK else K_ERR) /\
    mabsd h m' = dm_swap_rows (mabsd h m) i j /\ MInv m' /\ Wf h (mv m') /\
    (forall l, In l (mcells m') <-> In l (mcells m)).
Hypothesis H_swap_cols : forall h m i j, MInv m -> Wf h (mv m) ->
  (mrows m = mcols m -> 0 < mrows m -> 0 <= i < mrows m /\ 0 <= j < mrows m) ->
  exists m', mswap_cols m i j = (m', if mrows m =? mcols m then K_OK else K_ERR) /\
    mabsd h m' = dm_swap_cols (mabsd h m) i j /\ MInv m' /\ Wf h (mv m') /\
    (forall l, In l (mcells m') <-> In l (mcells m)).
Hypothesis H_new : forall h ris cis xs r c,
  length ris = length cis -> length cis = length xs -> 0 <= r -> 0 <= c ->
  Forall (fun p => 0 <= fst p < r /\ 0 <= snd p < c) (combine ris cis) ->
  exists h' m', new_mat h ris cis xs r c = Some (h', m') /\ mabsd h' m' = dm_new ris cis xs r c /\
    MInv m' /\ Wf h' (mv m') /\ (exists e, h' = h ++ e) /\ (forall l, In l (mcells m') -> (length h <= l)%nat).
Hypothesis H_tip : forall h m, MInv m -> Wf h (mv m) ->
  exists m', mtip m = Some m' /\ mabsd h m' = dm_trans (mabsd h m) /\ MInv m' /\ Wf h (mv m') /\
    (forall l, In l (mcells m') <-> In l (mcells m)).
Hypothesis H_set : forall w t o, MWInv w -> MWWf w -> min_range w (MSet t o) -> munshared w t ->
  exists w', mset w t o = Some (w', true) /\ mabsw w' = mdstep (mabsw w) (MSet t o) /\
    MWInv w' /\ MWWf w' /\ length (mats w') = length (mats w).

Section Step.
Variable w : mworld.
Hypothesis I : MWInv w.
Hypothesis W : MWWf w.
Let G : forall t, MInv (getm w t) := fun t => MWInv_getm w t I.
Let GW : forall t, Wf (mhp w) (mv (getm w t)) := fun t => MWWf_getm w t W.

Lemma mstep_sim_NewMat ris cis xs r c : min_range w (NewMat ris cis xs r c) -> MSim w (NewMat ris cis xs r c).
Proof.
  intros (R1 & R2 & R3 & R4 & R5). unfold MSim. cbn [mstep mdstep mcode].
  destruct (H_new (mhp w) ris cis xs r c R1 R2 R3 R4 R5) as (h' & m' & A & B & C & D & (e & E) & Fr).
  rewrite A. cbn [fst snd]. subst h'. destruct (msim_addm w W e m' _ B D) as [X Y].
  split; [exact X|split; [exact Y|reflexivity]].
Qed.
Lemma mat_at_heap h m i j h' m' l : mat_at h m i j = Some (h', m', l) -> exists e, h' = h ++ e.
Proof.
  unfold mat_at. destruct (mindex m i j) as [k|]; [|discriminate].
  destruct (at_ h (mv m) k) as [[[h2 v2] l2]|] eqn:A2; [|discriminate].
  intro E. inversion E. subst h2 m' l2.
  destruct (at_shape _ _ _ _ _ _ A2) as [(E1 & _)|(E1 & _)]; subst h'.
  - exists []. rewrite app_nil_r. reflexivity.
  - eexists. reflexivity.
Qed.
Lemma mstep_sim_MAt t i j : min_range w (MAt t i j) -> MSim w (MAt t i j).
Proof.
  intros (R1 & R2). unfold MSim. cbn [mstep mdstep mcode].
  destruct (mat_at_in_range_ok (mhp w) (getm w t) i j (proj2 (G t)) R2) as (h' & m' & l & A). rewrite A. cbn [fst snd].
  destruct (mat_at_write _ _ _ _ _ _ _ (hget h' l) (G t) (GW t) A) as (I1 & W1 & D1 & L1 & P & PK & FR & CL & HV).
  rewrite hset_same in W1, PK.
  assert (E : mabsd h' m' = mabsd (mhp w) (getm w t)).
  { apply mabsd_dims; [exact D1|]. apply mabs_ext; [exact D1|]. intros a b _. rewrite PK.
    destruct (a * mcols (getm w t) + b =? i * mcols (getm w t) + j) eqn:K; [|reflexivity].
    apply Z.eqb_eq in K. rewrite K. exact HV. }
  destruct (mat_at_heap _ _ _ _ _ _ _ A) as [e E2]. subst h'.
  destruct (msim_ext w W t e m' (fun a => a) E W1) as [X Y].
  rewrite upd_dmget in X. split; [exact X|split; [exact Y|reflexivity]].
Qed.
Lemma mstep_sim_MSetAt t i j x : min_range w (MSetAt t i j x) -> munshared w t -> MSim w (MSetAt t i j x).
Proof.
  intros (R1 & R2) U. unfold MSim. cbn [mstep mdstep mcode].
  destruct (mat_at_in_range_ok (mhp w) (getm w t) i j (proj2 (G t)) R2) as (h' & m' & l & A). rewrite A. cbn [fst snd].
  destruct (mat_at_write _ _ _ _ _ _ _ x (G t) (GW t) A) as (I1 & W1 & D1 & L1 & P & PK & FR & CL & HV).
  inversion D1 as [[Dr Dc]].
  assert (E : mabsd (hset h' l x) m' = dm_set (mabsd (mhp w) (getm w t)) i j x).
  { unfold dm_set, del. cbn [dr dc de mabsd]. apply mabsd_by_peek; [exact Dr|exact Dc|].
    intros a b Ha Hb. rewrite PK. rewrite (key_eqb (getm w t) i j a b (proj2 (G t)) R2) by (split; auto).
    rewrite mget_mabs by (split; auto). reflexivity. }
  assert (MP : MPost (mhp w) (getm w t) (hset h' l x) m').
  { split; [exact I1|split; [exact W1|split; [exact D1|split; [exact L1|split; [exact FR|exact CL]]]]]. }
  destruct (msim_post w I W t _ m' (fun a => dm_set a i j x) U MP E) as [X Y].
  split; [exact X|split; [exact Y|reflexivity]].
Qed.
Lemma mstep_sim_MReset t : munshared w t -> MSim w (MReset t).
Proof.
  intros U. unfold MSim. cbn [mstep mdstep mcode].
  destruct (mreset_refines (mhp w) (getm w t) (G t) (GW t)) as (h' & m' & A & B & P). rewrite A. cbn [fst snd].
  assert (E : mabsd h' m' = dm_zero (mabsd (mhp w) (getm w t))).
  { destruct P as (_ & _ & D & _). inversion D as [[Dr Dc]]. unfold mabsd at 1. unfold dm_zero, dtab. cbn [dr dc mabsd].
    rewrite Dr, Dc, B. f_equal. unfold dzero. rewrite mabs_mtab, map_map_mtab. reflexivity. }
  destruct (msim_post w I W t h' m' dm_zero U P E) as [X Y].
  split; [exact X|split; [exact Y|reflexivity]].
Qed.
Lemma mstep_sim_MSetIdentity t : munshared w t -> MSim w (MSetIdentity t).
Proof.
  intros U. unfold MSim. cbn [mstep mdstep mcode].
  destruct (mset_identity_refines (mhp w) (getm w t) (G t) (GW t)) as (h' & m' & A & B & P). rewrite A. cbn [fst snd].
  assert (E : mabsd h' m' = dm_identity (mabsd (mhp w) (getm w t))).
  { destruct P as (_ & _ & D & _). inversion D as [[Dr Dc]]. unfold mabsd at 1. unfold dm_identity, dtab. cbn [dr dc mabsd].
    rewrite Dr, Dc, B. reflexivity. }
  destruct (msim_post w I W t h' m' dm_identity U P E) as [X Y].
  split; [exact X|split; [exact Y|reflexivity]].
Qed.
Lemma mstep_sim_MSwap t i1 j1 i2 j2 : min_range w (MSwap t i1 j1 i2 j2) -> MSim w (MSwap t i1 j1 i2 j2).
Proof.
  intros (R1 & R2 & R3). unfold MSim. cbn [mstep mdstep mcode].
  destruct (mswap_in_range_ok (getm w t) i1 j1 i2 j2 R2 R3) as [m' A]. rewrite A. cbn [fst snd].
  destruct (mswap_MInv _ _ _ _ _ _ (G t) A) as [I' D]. inversion D as [[Dr Dc]].
  assert (Wv : Wf (mhp w) (mv m')).
  { unfold mswap in A. destruct (mindex (getm w t) i1 j1); [|discriminate].
    destruct (mindex (getm w t) i2 j2); [|discriminate]. inversion A. cbn [mv set_mv]. apply Wf_swap. apply GW. }
  assert (E : mabsd (mhp w) m' = dm_swap (mabsd (mhp w) (getm w t)) i1 j1 i2 j2).
  { unfold mabsd at 1. unfold dm_swap, dtab. cbn [dr dc mabsd]. rewrite Dr, Dc. f_equal.
    rewrite mabs_self, Dr, Dc. apply mtab_ext. intros a b Ha Hb.
    apply (mswap_refines (mhp w) (getm w t) i1 j1 i2 j2 m' a b (G t) A). split; auto. }
  destruct (msim_same w W t m' (fun a => dm_swap a i1 j1 i2 j2) E Wv) as [X Y].
  split; [exact X|split; [exact Y|reflexivity]].
Qed.
Lemma mstep_sim_MSwapRows t i j : min_range w (MSwapRows t i j) -> MSim w (MSwapRows t i j).
Proof.
  intros (R1 & R2). unfold MSim. cbn [mstep mdstep mcode].
  destruct (H_swap_rows (mhp w) (getm w t) i j (G t) (GW t) R2) as (m' & A & B & C & D & _). rewrite A. cbn [fst snd].
  destruct (msim_same w W t m' (fun a => dm_swap_rows a i j) B D) as [X Y].
  split; [exact X|split; [exact Y|reflexivity]].
Qed.
Lemma mstep_sim_MSwapColumns t i j : min_range w (MSwapColumns t i j) -> MSim w (MSwapColumns t i j).
Proof.
  intros (R1 & R2). unfold MSim. cbn [mstep mdstep mcode].
  destruct (H_swap_cols (mhp w) (getm w t) i j (G t) (GW t) R2) as (m' & A & B & C & D & _). rewrite A. cbn [fst snd].
  destruct (msim_same w W t m' (fun a => dm_swap_cols a i j) B D) as [X Y].
  split; [exact X|split; [exact Y|reflexivity]].
Qed.
Lemma mstep_sim_MT t : MSim w (MT t).
Proof.
  unfold MSim. cbn [mstep mdstep mcode].
  destruct (mtrans_refines (mhp w) (getm w t) (G t) (GW t)) as (m' & A & I' & D & B & Wv & _). rewrite A. cbn [fst snd].
  inversion D as [[Dr Dc]].
  assert (E : mabsd (mhp w) m' = dm_trans (dmget (mabsw w) t)).
  { rewrite dmget_mabsw. unfold mabsd at 1. unfold dm_trans, dtab. cbn [dr dc mabsd]. rewrite Dr, Dc, B. reflexivity. }
  pose proof (msim_addm w W [] m' (dm_trans (dmget (mabsw w) t))) as P. rewrite app_nil_r, msetH_same in P.
  destruct (P E Wv) as [X Y]. split; [exact X|split; [exact Y|reflexivity]].
Qed.
Lemma mstep_sim_MTip t : MSim w (MTip t).
Proof.
  unfold MSim. cbn [mstep mdstep mcode].
  destruct (H_tip (mhp w) (getm w t) (G t) (GW t)) as (m' & A & B & C & D & _). rewrite A. cbn [fst snd].
  destruct (msim_same w W t m' dm_trans B D) as [X Y].
  split; [exact X|split; [exact Y|reflexivity]].
Qed.
Lemma mstep_sim_MClone t : MSim w (MClone t).
Proof.
  unfold MSim. cbn [mstep mdstep mcode].
  pose proof (mclone_refines (mhp w) (getm w t) (G t) (GW t)) as P. cbv zeta in P.
  destruct (clone (mhp w) (mv (getm w t))) as [h1 v] eqn:C. cbn [fst snd] in P |- *.
  destruct P as (A & B & C' & (e & E) & _). subst h1.
  assert (E : mabsd (mhp w ++ e) (set_mv (getm w t) v) = dmget (mabsw w) t).
  { rewrite dmget_mabsw. apply mabsd_dims; [reflexivity|exact A]. }
  destruct (msim_addm w W e _ _ E B) as [X Y]. split; [exact X|split; [exact Y|reflexivity]].
Qed.
Lemma mstep_sim_MIterate t : MSim w (MIterate t).
Proof.
  unfold MSim. cbn [mstep mdstep mcode].
  destruct (miterate_visits (mhp w) (getm w t) (G t)) as (v1 & s & A & _ & _ & B & D & I'). rewrite A. cbn [fst snd].
  assert (Wv : Wf (mhp w) (mv (set_mv (getm w t) v1))).
  { cbn [mv set_mv]. eapply Q2_Wf; [eapply iterate_Q2; exact A|apply GW]. }
  assert (E : mabsd (mhp w) (set_mv (getm w t) v1) = mabsd (mhp w) (getm w t)) by (apply mabsd_dims; auto).
  destruct (msim_same w W t _ (fun a => a) E Wv) as [X Y]. rewrite upd_dmget in X.
  split; [exact X|split; [exact Y|reflexivity]].
Qed.
Lemma mstep_sim_MIterPart t n : MSim w (MIterPart t n).
Proof.
  unfold MSim. cbn [mstep mdstep mcode].
  destruct (iter_part_begin (mhp w) (mv (getm w t)) n) as (v0 & cur & v' & A & B & _); [apply (G t)|].
  rewrite A, B. cbn [fst snd].
  assert (Q : Q2 (mhp w) (mv (getm w t)) v').
  { eapply Q2_trans; [eapply it_begin_Q2; exact A|eapply iter_part_Q2; exact B]. }
  assert (Wv : Wf (mhp w) (mv (set_mv (getm w t) v'))).
  { cbn [mv set_mv]. eapply Q2_Wf; [exact Q|apply GW]. }
  assert (E : mabsd (mhp w) (set_mv (getm w t) v') = mabsd (mhp w) (getm w t)).
  { apply mabsd_dims; [reflexivity|]. apply mabs_ext; [reflexivity|]. intros a b _. cbn [mv set_mv].
    apply Q_peek. apply Q. }
  destruct (msim_same w W t _ (fun a => a) E Wv) as [X Y]. rewrite upd_dmget in X.
  split; [exact X|split; [exact Y|reflexivity]].
Qed.
Lemma mstep_sim_map t c : munshared w t ->
  MSim w (MMapMul t c) /\ MSim w (MMapSetMul t c).
Proof.
  intros U. unfold MSim. cbn [mstep mdstep mcode].
  destruct (H_map (mhp w) (getm w t) c (G t) (GW t)) as (h' & m' & A & B & P). rewrite A. cbn [fst snd].
  destruct (msim_post w I W t h' m' (dm_scale c) U P B) as [X Y].
  split; (split; [exact X|split; [exact Y|reflexivity]]).
Qed.
Lemma mstep_sim_MSet t o : min_range w (MSet t o) -> munshared w t -> MSim w (MSet t o).
Proof.
  intros R U. unfold MSim. cbn [mstep mcode].
  destruct (H_set w t o I W R U) as (w' & A & B & C & D & L). rewrite A. cbn [fst snd].
  split; [exact B|split; [exact D|reflexivity]].
Qed.
(* operations that return the world unchanged *)
Lemma mstep_sim_MConstAt t i j : min_range w (MConstAt t i j) -> MSim w (MConstAt t i j).
Proof.
  intros (R1 & R2). unfold MSim. cbn [mstep mdstep mcode].
  rewrite (mread_ok (mhp w) (getm w t) i j (proj2 (G t)) R2). cbn [fst snd].
  split; [reflexivity|split; [exact W|reflexivity]].
Qed.
Lemma mstep_sim_MReduceSum t : MSim w (MReduceSum t).
Proof. unfold MSim. cbn [mstep mdstep mcode fst snd]. split; [reflexivity|split; [exact W|reflexivity]]. Qed.
Lemma mstep_sim_MDims t : MSim w (MDims t).
Proof. unfold MSim. cbn [mstep mdstep mcode fst snd]. split; [reflexivity|split; [exact W|reflexivity]]. Qed.
Lemma mstep_sim_MRow t i : min_range w (MRow t i) -> MSim w (MRow t i).
Proof.
  intros (R1 & R2). unfold MSim. cbn [mstep mdstep mcode].
  destruct (copy_loop_total (getm w t) (proj2 (G t))
              (map (fun j => (j, i, j)) (zseq 0 (Z.to_nat (mcols (getm w t))))) (mhp w) (nil_vec (mcols (getm w t))))
    as (h' & r' & A).
  { intros p a b Hin. apply in_map_iff in Hin. destruct Hin as (j0 & E & Hj). inversion E. subst.
    apply In_zseq in Hj. cbn [dim nil_vec]. unfold pos_ok. lia. }
  unfold mrow. rewrite A. cbn [fst snd]. split; [reflexivity|split; [exact W|reflexivity]].
Qed.
Lemma mstep_sim_MCol t j : min_range w (MCol t j) -> MSim w (MCol t j).
Proof.
  intros (R1 & R2). unfold MSim. cbn [mstep mdstep mcode].
  destruct (copy_loop_total (getm w t) (proj2 (G t))
              (map (fun i => (i, i, j)) (zseq 0 (Z.to_nat (mrows (getm w t))))) (mhp w) (nil_vec (mrows (getm w t))))
    as (h' & r' & A).
  { intros p a b Hin. apply in_map_iff in Hin. destruct Hin as (i0 & E & Hi). inversion E. subst.
    apply In_zseq in Hi. cbn [dim nil_vec]. unfold pos_ok. lia. }
  unfold mcol. rewrite A. cbn [fst snd]. split; [reflexivity|split; [exact W|reflexivity]].
Qed.
Lemma mstep_sim_MDiag t : min_range w (MDiag t) -> MSim w (MDiag t).
Proof.
  intros (R1 & R2). unfold MSim. cbn [mstep mdstep mcode].
  destruct (copy_loop_total (getm w t) (proj2 (G t))
              (map (fun i => (i, i, i)) (zseq 0 (Z.to_nat (mrows (getm w t))))) (mhp w) (nil_vec (mrows (getm w t))))
    as (h' & r' & A).
  { intros p a b Hin. apply in_map_iff in Hin. destruct Hin as (i0 & E & Hi). inversion E. subst.
    apply In_zseq in Hi. cbn [dim nil_vec]. unfold pos_ok. lia. }
  unfold mdiag. rewrite R2, Z.eqb_refl. cbn [negb]. rewrite <- R2. rewrite A. cbn [fst snd].
  split; [reflexivity|split; [exact W|reflexivity]].
Qed.
End Step.

(* ---- (c) every operation; whole histories ------------------------------------------------ *)
Lemma mstep_sim_all w o : MWInv w -> MWWf w -> min_range w o -> msafe w o -> MSim w o.
Proof.
  intros I W R S. destruct o; unfold msafe in S; cbn [mwrites_cells] in S.
  - apply mstep_sim_NewMat; auto.
  - apply mstep_sim_MAt; auto.
  - apply mstep_sim_MSetAt; auto.
  - apply mstep_sim_MConstAt; auto.
  - apply mstep_sim_MSet; auto.
  - apply mstep_sim_MReset; auto.
  - apply mstep_sim_MSetIdentity; auto.
  - apply mstep_sim_MSwap; auto.
  - apply mstep_sim_MSwapRows; auto.
  - apply mstep_sim_MSwapColumns; auto.
  - apply mstep_sim_MT; auto.
  - apply mstep_sim_MTip; auto.
  - apply mstep_sim_MClone; auto.
  - apply mstep_sim_MIterate; auto.
  - apply mstep_sim_MIterPart; auto.
  - apply (mstep_sim_map w I W t c S).
  - apply (mstep_sim_map w I W t c S).
  - apply mstep_sim_MReduceSum; auto.
  - apply mstep_sim_MDims; auto.
  - apply mstep_sim_MRow; auto.
  - apply mstep_sim_MCol; auto.
  - apply mstep_sim_MDiag; auto.
Qed.
(* the step theorem: an in-range, safe operation refines the dense operation, keeps the world
   well-formed and never panics or runs out of fuel *)
Lemma mstep_sim w o : MWInv w -> MWWf w -> min_range w o -> msafe w o ->
  mabsw (fst (mstep w o)) = mdstep (mabsw w) o /\ MWWf (fst (mstep w o)) /\
  (fst (snd (mstep w o)) = K_OK \/ fst (snd (mstep w o)) = K_ERR).
Proof.
  intros I W R S. destruct (mstep_sim_all w o I W R S) as (A & B & C).
  split; [exact A|split; [exact B|]]. rewrite C. unfold mcode.
  destruct o; auto; destruct (mrows (getm w t) =? mcols (getm w t)); auto.
Qed.
(* ... precisely: K_ERR exactly for SwapRows / SwapColumns of a non-square matrix *)
Lemma mstep_code w o : MWInv w -> MWWf w -> min_range w o -> msafe w o ->
  fst (snd (mstep w o)) = mcode w o.
Proof. intros I W R S. apply (mstep_sim_all w o I W R S). Qed.

Lemma mrun_sim_from ops : forall w, MWInv w -> MWWf w -> mvalid_safe w ops ->
  mabsw (mrun w ops) = mdense_run (mabsw w) ops /\ MWWf (mrun w ops) /\ MWInv (mrun w ops).
Proof.
  induction ops as [|o r IH]; intros w I W V.
  - cbn. split; [reflexivity|split; [exact W|exact I]].
  - destruct V as (V1 & V2 & V3). destruct (mstep_sim_all w o I W V1 V2) as (A & B & _).
    unfold mrun, mdense_run in *. cbn [fold_left]. rewrite <- A. apply IH; auto.
    apply mstep_MWInv; auto.
Qed.
Lemma MWWf_minit : MWWf minit.
Proof. constructor. Qed.
Lemma mrun_sim ops : mvalid_safe minit ops -> mabsw (mrun minit ops) = mdense_run [] ops.
Proof. intro V. apply (mrun_sim_from ops minit MWInv_minit MWWf_minit V). Qed.
Lemma mrun_MWWf ops : mvalid_safe minit ops -> MWWf (mrun minit ops).
Proof. intro V. apply (mrun_sim_from ops minit MWInv_minit MWWf_minit V). Qed.
End Assembly.

(* ---- the executable side conditions are sound --------------------------------------------- *)
Lemma munsharedb_sound w t : munsharedb w t = true -> munshared w t.
Proof.
  unfold munsharedb, munshared. intros H u l Hu Ht Hin.
  destruct (Nat.lt_ge_cases u (length (mats w))) as [L|L].
  - rewrite forallb_forall in H. specialize (H u). rewrite in_seq in H.
    assert (X : (Nat.eqb u t || forallb (fun l0 => negb (memb l0 (mcells (getm w u)))) (mcells (getm w t))) = true)
      by (apply H; lia).
    apply orb_prop in X. destruct X as [X|X].
    + apply Nat.eqb_eq in X. auto.
    + rewrite forallb_forall in X. specialize (X l Ht). apply negb_true_iff in X.
      apply memb_In in Hin. congruence.
  - unfold getm in Hin. rewrite nth_overflow in Hin by lia. destruct Hin.
Qed.
Lemma msafeb_sound w o : msafeb w o = true -> msafe w o.
Proof. unfold msafeb, msafe. destruct (mwrites_cells o); auto. apply munsharedb_sound. Qed.
Lemma mhasb_sound w t : mhasb w t = true -> mhas w t.
Proof. unfold mhasb, mhas. apply Nat.ltb_lt. Qed.
Lemma pos_okb_sound m i j : pos_okb m i j = true -> pos_ok m i j.
Proof.
  unfold pos_okb, pos_ok. rewrite !andb_true_iff, !Z.leb_le, !Z.ltb_lt. lia.
Qed.
Lemma min_rangeb_sound w o : min_rangeb w o = true -> min_range w o.
Proof.
  destruct o; cbn [min_rangeb min_range]; try (apply mhasb_sound);
    try (rewrite !andb_true_iff; intros H; repeat match goal with H : _ /\ _ |- _ => destruct H end;
         repeat match goal with
                | H : mhasb _ _ = true |- _ => apply mhasb_sound in H
                | H : pos_okb _ _ _ = true |- _ => apply pos_okb_sound in H
                | H : (_ =? _) = true |- _ => apply Z.eqb_eq in H
                | H : (_ <=? _) = true |- _ => apply Z.leb_le in H
                | H : (_ <? _) = true |- _ => apply Z.ltb_lt in H
                | H : Nat.eqb _ _ = true |- _ => apply Nat.eqb_eq in H
                end; auto; fail).
  - (* NewMat *) rewrite !andb_true_iff. intros ((((A & B) & C) & D) & E).
    apply Nat.eqb_eq in A, B. apply Z.leb_le in C, D.
    split; [exact A|split; [exact B|split; [exact C|split; [exact D|]]]].
    apply Forall_forall. intros p Hp. rewrite forallb_forall in E. specialize (E p Hp).
    rewrite !andb_true_iff, !Z.leb_le, !Z.ltb_lt in E. lia.
  - (* Set *) destruct o as [u|r c xs]; rewrite !andb_true_iff.
    + intros (((A & B) & C) & D). apply mhasb_sound in A, B. apply Z.eqb_eq in C, D. auto.
    + intros ((A & B) & C). apply mhasb_sound in A. apply Z.eqb_eq in B, C. auto.
  - (* SwapRows *) rewrite andb_true_iff. intros [A B]. apply mhasb_sound in A. split; [exact A|].
    intros E L. rewrite !orb_true_iff in B. destruct B as [[B|B]|B].
    + apply negb_true_iff, Z.eqb_neq in B. contradiction.
    + apply negb_true_iff, Z.ltb_ge in B. lia.
    + rewrite !andb_true_iff, !Z.leb_le, !Z.ltb_lt in B. lia.
  - (* SwapColumns *) rewrite andb_true_iff. intros [A B]. apply mhasb_sound in A. split; [exact A|].
    intros E L. rewrite !orb_true_iff in B. destruct B as [[B|B]|B].
    + apply negb_true_iff, Z.eqb_neq in B. contradiction.
    + apply negb_true_iff, Z.ltb_ge in B. lia.
    + rewrite !andb_true_iff, !Z.leb_le, !Z.ltb_lt in B. lia.
Qed.
