(* C11, round 7 — the element carrier of Model.v for the Real element types.

   Model.v stores one integer per scalar and takes "null" to be "the integer is 0"
   ([isnull]).  For the Float / Int element types the integer is the value.  A Real32 / Real64
   scalar also carries derivatives, and the library's nullScalar() (scalar_real64.go:321, used by
   the iterator's skip(), vector_sparse_real64.go:786) is "value = 0 AND every derivative = 0": a
   variable at the point 0 (value 0, derivative 1) is NOT null — skip() must visit and keep it.

   This file says which integer stands for a Real scalar in the histories of the correspondence
   (harness/c11/main.go [pv]): value + VARW * derivative[0], for scalars with at most one
   variable and |value| < VARW / 2 (the histories keep |value| <= 100).  PropsVar.v proves that
   this reading is 0 exactly on the null scalars, injective, and commutes with the scalar
   operations the container methods apply (SetFloat64 / Reset clear the gradient, SET / Set /
   Clone copy it, SetVariable sets it).  No proofs here. *)
From Coq Require Import ZArith Bool.
Open Scope Z_scope.

(* Value and Derivative[0] (0 when Order = 0 or N = 0) *)
Record rsc := { rval : Z; rder : Z }.

(* nullScalar() of a non-nil Real scalar with at most one variable *)
Definition r_null (s : rsc) : bool := (rval s =? 0) && (rder s =? 0).
(* SetFloat64(x): setFloat64(x); ResetDerivatives() *)
Definition r_setfloat (s : rsc) (x : Z) : rsc := {| rval := x; rder := 0 |}.
(* Reset(): Value = 0; ResetDerivatives() *)
Definition r_reset (s : rsc) : rsc := {| rval := 0; rder := 0 |}.
(* SetVariable(0, 1, 1): Alloc(1, 1); ResetDerivatives(); Derivative[0] = 1 — the value stays *)
Definition r_setvar (s : rsc) : rsc := {| rval := rval s; rder := 1 |}.
(* SET(b) / Set(b) / Clone(): value and gradient of b *)
Definition r_set (s b : rsc) : rsc := b.

Definition VARW : Z := 1000.
(* the reading of the correspondence *)
Definition pv (s : rsc) : Z := rval s + VARW * rder s.
Definition r_bounded (s : rsc) : Prop := - 500 < rval s < 500.
