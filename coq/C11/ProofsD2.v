(* C11 — dense refinement, part 2: the operations that CREATE a vector — Slice
   (shares cells), Clone (fresh cells), AppendVector(sparse) (clone + shared
   cells of the argument), AppendScalar / AppendVector(dense), New. *)
From Coq Require Import ZArith List Bool Lia Sorted.
From ADV Require Import C11.Model C11.Spec C11.Dense C11.ProofsMap C11.ProofsIter C11.ProofsInv C11.ProofsRef C11.ProofsD1.
Import ListNotations.
Open Scope Z_scope.

Lemma kmem_In i l : kmem i l = true <-> In i l.
Proof.
  induction l as [|x r IH]; simpl; [split; [discriminate|tauto]|].
  rewrite orb_true_iff, IH, Z.eqb_eq. tauto.
Qed.

(* ---- Slice -------------------------------------------------------------------------- *)
Lemma slice_loop_lookup i j m : forall ks r k', sset ks ->
  lookup k' (vals (slice_loop i j m ks r)) =
  if kmem (k' + i) ks && (i <=? k' + i) && (k' + i <? j)
  then match lookup (k' + i) m with Some l => Some l | None => lookup k' (vals r) end
  else lookup k' (vals r).
Proof.
  induction ks as [|k ks IH]; intros r k' Hs; simpl; auto.
  apply sset_cons in Hs. destruct Hs as [Hs Hf].
  destruct (k <? i) eqn:C1.
  - apply Z.ltb_lt in C1. rewrite IH by auto.
    destruct (k =? k' + i) eqn:E; simpl; auto.
    apply Z.eqb_eq in E. assert ((i <=? k' + i) = false) as -> by (apply Z.leb_gt; lia).
    rewrite andb_false_r. auto.
  - apply Z.ltb_ge in C1. destruct (j <=? k) eqn:C2.
    + apply Z.leb_le in C2.
      destruct (((k =? k' + i) || kmem (k' + i) ks) && (i <=? k' + i) && (k' + i <? j)) eqn:X; auto.
      apply andb_prop in X. destruct X as [X X3]. apply andb_prop in X. destruct X as [X1 X2].
      apply Z.ltb_lt in X3. apply orb_prop in X1. destruct X1 as [X1|X1].
      * apply Z.eqb_eq in X1. lia.
      * apply kmem_In in X1. rewrite Forall_forall in Hf. apply Hf in X1. lia.
    + apply Z.leb_gt in C2. destruct (lookup k m) as [l|] eqn:L.
      * rewrite IH by auto. cbn [vals]. rewrite lookup_insert.
        destruct (k =? k' + i) eqn:E.
        -- apply Z.eqb_eq in E. simpl.
           assert ((i <=? k' + i) = true) as -> by (apply Z.leb_le; lia).
           assert ((k' + i <? j) = true) as -> by (apply Z.ltb_lt; lia).
           rewrite <- E, L. replace (k - i =? k') with true by (symmetry; apply Z.eqb_eq; lia).
           rewrite andb_true_r. destruct (kmem k ks); auto.
        -- apply Z.eqb_neq in E. replace (k - i =? k') with false by (symmetry; apply Z.eqb_neq; lia).
           simpl. auto.
      * rewrite IH by auto. destruct (k =? k' + i) eqn:E; simpl; auto.
        apply Z.eqb_eq in E.
        assert ((i <=? k' + i) = true) as -> by (apply Z.leb_le; lia).
        assert ((k' + i <? j) = true) as -> by (apply Z.ltb_lt; lia).
        rewrite <- E, L. rewrite !andb_true_r. destruct (kmem k ks); auto.
Qed.
Lemma lookup_slice v i j k' : Inv v -> 0 <= k' < j - i -> 0 <= i ->
  lookup k' (vals (slice v i j)) = lookup (k' + i) (vals v).
Proof.
  intros I Hk Hi. unfold slice. rewrite slice_loop_lookup by apply I. cbn [vals nil_vec lookup].
  assert ((i <=? k' + i) = true) as -> by (apply Z.leb_le; lia).
  assert ((k' + i <? j) = true) as -> by (apply Z.ltb_lt; lia).
  rewrite !andb_true_r. destruct (kmem (k' + i) (idx v)) eqn:M.
  - destruct (lookup (k' + i) (vals v)); auto.
  - destruct (lookup (k' + i) (vals v)) eqn:L; auto.
    assert (In (k' + i) (idx v)) by (destruct I as (_ & _ & Hd & _); eauto).
    apply kmem_In in H. congruence.
Qed.
Lemma lookup_slice_any v i j k' l : Inv v ->
  lookup k' (vals (slice v i j)) = Some l -> lookup (k' + i) (vals v) = Some l.
Proof.
  intros I. unfold slice. rewrite slice_loop_lookup by apply I. cbn [vals nil_vec lookup].
  destruct (kmem (k' + i) (idx v) && (i <=? k' + i) && (k' + i <? j)); [|discriminate].
  destruct (lookup (k' + i) (vals v)); auto.
Qed.
Lemma dim_slice v i j : dim (slice v i j) = j - i.
Proof.
  unfold slice.
  assert (G : forall ks r, dim (slice_loop i j (vals v) ks r) = dim r).
  { induction ks as [|k ks IH]; intro r; simpl; auto.
    destruct (k <? i); auto. destruct (j <=? k); auto. destruct (lookup k (vals v)); auto.
    rewrite IH. auto. }
  rewrite G. auto.
Qed.
Lemma slice_abs h v i j : Inv v -> 0 <= i <= j -> j <= dim v -> abs h (slice v i j) = dslice (abs h v) i j.
Proof.
  intros I Hij Hj. assert (D0 : 0 <= dim v) by apply I.
  assert (L : Z.of_nat (length (abs h v)) = dim v) by (apply abs_length; auto).
  apply abs_eq_by_nth; rewrite ?dim_slice; try lia.
  - unfold dslice. rewrite firstn_length, skipn_length. lia.
  - intros k Hk. unfold dslice. rewrite nth_firstn_lt by lia. rewrite nth_skipn_add.
    replace (Z.to_nat i + Z.to_nat k)%nat with (Z.to_nat (k + i)) by lia.
    rewrite abs_nth by lia. unfold peek. rewrite lookup_slice by (auto; lia). auto.
Qed.
Lemma Wf_slice h v i j : Inv v -> Wf h v -> Wf h (slice v i j).
Proof.
  intros I W. apply (Wf_by_lookup h v _ (fun k => k + i)); auto.
  - intros k l. apply lookup_slice_any; auto.
  - intros a b. lia.
Qed.

(* ---- Clone -------------------------------------------------------------------------- *)
Fixpoint number (n : nat) (es : vmap) : vmap :=
  match es with [] => [] | kv :: r => (fst kv, n) :: number (S n) r end.
Definition clone_step (hm : heap * vmap) (kv : Z * loc) : heap * vmap :=
  let '(h0, m0) := hm in let '(h1, l) := halloc h0 (hget h0 (snd kv)) in (h1, m0 ++ [(fst kv, l)]).
Lemma clone_fold_closed (h0 : heap) es : forall h m0 e,
  h = h0 ++ e -> (forall kv, In kv es -> (snd kv < length h0)%nat) ->
  fold_left clone_step es (h, m0) = (h ++ map (fun kv => hget h0 (snd kv)) es, m0 ++ number (length h) es).
Proof.
  induction es as [|[k c] r IH]; intros h m0 e Eh AL; simpl.
  - rewrite !app_nil_r. auto.
  - assert (Hc : hget h c = hget h0 c) by (subst h; apply hget_app; apply (AL (k, c)); left; auto).
    rewrite Hc. etransitivity.
    { apply (IH _ _ (e ++ [hget h0 c])).
      - subst h. rewrite app_assoc. auto.
      - intros kv Hin. apply AL. right. auto. }
    rewrite <- !app_assoc. simpl. rewrite app_length. simpl. rewrite Nat.add_1_r. auto.
Qed.
Lemma clone_closed h v : Inv v -> Wf h v ->
  clone h v = (h ++ map (fun kv => hget h (snd kv)) (vals v),
               {| vals := number (length h) (vals v); idx := idx v; dim := dim v |}).
Proof.
  intros I [W1 _].
  assert (E : clone h v = let '(h', m) := fold_left clone_step (vals v) (h, []) in
                          (h', {| vals := m; idx := idx v; dim := dim v |})) by reflexivity.
  rewrite E. clear E.
  assert (P : fold_left clone_step (vals v) (h, []) =
              (h ++ map (fun kv => hget h (snd kv)) (vals v), [] ++ number (length h) (vals v))).
  { apply (clone_fold_closed h (vals v) h [] []).
    - rewrite app_nil_r. auto.
    - intros [k c] Hin. simpl. apply (W1 k). apply In_pair_lookup; auto. apply I. }
  rewrite P. simpl. auto.
Qed.
Lemma number_ge es : forall n k l, lookup k (number n es) = Some l -> (n <= l < n + length es)%nat.
Proof.
  induction es as [|[k0 c0] r IH]; intros n k l; simpl; [discriminate|].
  destruct (k0 =? k).
  - intro E. inversion E. lia.
  - intro E. apply IH in E. lia.
Qed.
Lemma number_keys es : forall n, map fst (number n es) = map fst es.
Proof. induction es as [|[k0 c0] r IH]; intro n; simpl; auto. rewrite IH. auto. Qed.
Lemma number_inj es : forall n k1 k2 l,
  lookup k1 (number n es) = Some l -> lookup k2 (number n es) = Some l -> k1 = k2.
Proof.
  induction es as [|[k0 c0] r IH]; intros n k1 k2 l; simpl; [discriminate|].
  destruct (k0 =? k1) eqn:E1; destruct (k0 =? k2) eqn:E2; intros H1 H2.
  - apply Z.eqb_eq in E1, E2. lia.
  - inversion H1. subst l. apply number_ge in H2. lia.
  - inversion H2. subst l. apply number_ge in H1. lia.
  - eapply IH; eauto.
Qed.
Lemma number_vpeek (g : Z * loc -> Z) es : forall n hh tl k,
  length hh = n ->
  vpeek (hh ++ map g es ++ tl) (number n es) k =
  match find (fun kv => fst kv =? k) es with Some kv => g kv | None => 0 end.
Proof.
  induction es as [|[k0 c0] r IH]; intros n hh tl k Hn; simpl; auto.
  unfold vpeek. simpl. destruct (k0 =? k) eqn:E.
  - unfold hget. rewrite app_nth2 by lia. rewrite Hn, Nat.sub_diag. auto.
  - specialize (IH (S n) (hh ++ [g (k0, c0)]) tl k). unfold vpeek in IH.
    rewrite <- app_assoc in IH. simpl in IH. apply IH. rewrite app_length. simpl. lia.
Qed.
Lemma find_lookup (m : vmap) k :
  find (fun kv => fst kv =? k) m = match lookup k m with Some l => Some (k, l) | None => None end.
Proof.
  induction m as [|[k0 c0] r IH]; simpl; auto. destruct (k0 =? k) eqn:E; auto.
  apply Z.eqb_eq in E. subst. auto.
Qed.
Lemma clone_peek h v k : Inv v -> Wf h v -> peek (fst (clone h v)) (snd (clone h v)) k = peek h v k.
Proof.
  intros I W. rewrite clone_closed by auto. cbn [fst snd]. unfold peek at 1. cbn [vals].
  pose proof (number_vpeek (fun kv => hget h (snd kv)) (vals v) (length h) h [] k eq_refl) as P.
  rewrite app_nil_r in P. unfold vpeek in P. rewrite P. rewrite find_lookup. unfold peek.
  destruct (lookup k (vals v)); auto.
Qed.
Lemma clone_heap h v : Inv v -> Wf h v -> exists e, fst (clone h v) = h ++ e.
Proof. intros I W. rewrite clone_closed by auto. simpl. eauto. Qed.
Lemma Wf_clone h v : Inv v -> Wf h v -> Wf (fst (clone h v)) (snd (clone h v)) /\ (forall l, In l (cells_of (snd (clone h v))) -> (length h <= l)%nat).
Proof.
  intros I W. rewrite clone_closed by auto. cbn [fst snd]. split; [split|]; cbn [vals].
  - intros k l Hl. apply number_ge in Hl. rewrite app_length, map_length. lia.
  - apply number_inj.
  - intros l Hl. unfold cells_of in Hl. cbn [vals] in Hl. apply in_map_iff in Hl.
    destruct Hl as ([k l'] & E & Hin). simpl in E. subst l'.
    assert (ND : NoDup (map fst (number (length h) (vals v)))) by (rewrite number_keys; apply I).
    apply In_pair_lookup in Hin; auto. apply number_ge in Hin. lia.
Qed.
Lemma clone_abs h v : Inv v -> Wf h v -> abs (fst (clone h v)) (snd (clone h v)) = abs h v.
Proof.
  intros I W. apply abs_ext.
  - apply clone_idx_dim.
  - intros k _. apply clone_peek; auto.
Qed.

(* ---- APPEND(w): the shared entries ---------------------------------------------------- *)
Lemma append_entries_lookup off sq : forall r k, NoDup (map fst sq) ->
  lookup k (vals (append_entries off sq r)) =
  match lookup (k - off) sq with Some l => Some l | None => lookup k (vals r) end.
Proof.
  unfold append_entries. induction sq as [|[a l] s IH]; intros r k ND; simpl; auto.
  inversion ND as [|? ? Hn ND']; subst. rewrite IH by auto. cbn [vals].
  destruct (a =? k - off) eqn:E.
  - apply Z.eqb_eq in E.
    assert (lookup (k - off) s = None) as ->.
    { destruct (lookup (k - off) s) eqn:L; auto. apply lookup_In_keys in L. rewrite <- E in L. tauto. }
    replace (off + a) with k by lia. apply lookup_insert_eq.
  - apply Z.eqb_neq in E. destruct (lookup (k - off) s); auto. apply lookup_insert_neq. lia.
Qed.
Lemma append_entries_dim off sq : forall r, dim (append_entries off sq r) = dim r.
Proof. unfold append_entries. induction sq as [|a s IH]; intro r; simpl; auto. rewrite IH. auto. Qed.
Lemma lookup_cells v ks j : lookup j (cells v ks) = if kmem j ks then Some (cell_of v j) else None.
Proof.
  unfold cells. induction ks as [|k ks IH]; simpl; auto.
  destruct (k =? j) eqn:E; simpl; auto. apply Z.eqb_eq in E. subst. auto.
Qed.

(* r = the clone of the receiver (cells >= length h0), u = the argument (cells < length h0):
   the appended vector reads  receiver ++ argument *)
Lemma append_peek h r u n k :
  Inv r -> Inv u -> dim r = n ->
  let r' := append_entries n (cells u (filter (nonnull h u) (idx u))) (set_dim (n + dim u) r) in
  0 <= k < n + dim u ->
  peek h r' k = if k <? n then peek h r k else peek h u (k - n).
Proof.
  intros Ir Iu Dn r' Hk. unfold peek at 1. unfold r'.
  rewrite append_entries_lookup.
  2:{ rewrite cells_keys. apply sset_NoDup. apply sset_filter. apply Iu. }
  rewrite lookup_cells. cbn [set_dim vals].
  destruct (k <? n) eqn:C.
  - apply Z.ltb_lt in C. destruct (kmem (k - n) (filter (nonnull h u) (idx u))) eqn:M; auto.
    apply kmem_In in M. apply filter_In in M. destruct M as [M _]. apply Iu in M. lia.
  - apply Z.ltb_ge in C. destruct (kmem (k - n) (filter (nonnull h u) (idx u))) eqn:M.
    + apply kmem_In in M. apply filter_In in M. destruct M as [_ M]. unfold nonnull, isnull in M.
      unfold peek, cell_of. destruct (lookup (k - n) (vals u)); auto. discriminate.
    + assert (lookup k (vals r) = None) as ->.
      { destruct (lookup k (vals r)) eqn:L; auto. destruct Ir as (_ & _ & Hd & Hr & _).
        apply Hd in L. apply Hr in L. lia. }
      assert (N : nonnull h u (k - n) = false \/ ~ In (k - n) (idx u)).
      { destruct (nonnull h u (k - n)) eqn:X; auto. right. intro Hin. 
        assert (In (k - n) (filter (nonnull h u) (idx u))) by (apply filter_In; auto).
        apply kmem_In in H. congruence. }
      destruct N as [N|N].
      * unfold nonnull, isnull in N. unfold peek. destruct (lookup (k - n) (vals u)); auto.
        apply negb_false_iff in N. apply Z.eqb_eq in N. auto.
      * unfold peek. destruct (lookup (k - n) (vals u)) eqn:L; auto. destruct Iu as (_ & _ & Hd & _).
        apply Hd in L. tauto.
Qed.
Lemma Wf_append h r u n (b : nat) :
  Inv u -> Wf h r -> Wf h u ->
  (forall l, In l (cells_of r) -> (b <= l)%nat) -> (forall l, In l (cells_of u) -> (l < b)%nat) ->
  Wf h (append_entries n (cells u (filter (nonnull h u) (idx u))) (set_dim (n + dim u) r)).
Proof.
  intros Iu [R1 R2] [U1 U2] Hr Hu.
  assert (ND : NoDup (map fst (cells u (filter (nonnull h u) (idx u)))))
    by (rewrite cells_keys; apply sset_NoDup; apply sset_filter; apply Iu).
  assert (C : forall j l, lookup j (cells u (filter (nonnull h u) (idx u))) = Some l -> lookup j (vals u) = Some l).
  { intros j l. rewrite lookup_cells. destruct (kmem j (filter (nonnull h u) (idx u))) eqn:M; [|discriminate].
    apply kmem_In in M. apply filter_In in M. destruct M as [_ M]. unfold nonnull, isnull in M.
    unfold cell_of. destruct (lookup j (vals u)); [auto|discriminate]. }
  split.
  - intros k l. rewrite append_entries_lookup by auto. cbn [set_dim vals].
    destruct (lookup (k - n) (cells u _)) eqn:L.
    + intro E. inversion E. subst. apply C in L. eauto.
    + eauto.
  - intros k1 k2 l. rewrite !append_entries_lookup by auto. cbn [set_dim vals].
    destruct (lookup (k1 - n) (cells u _)) eqn:L1; destruct (lookup (k2 - n) (cells u _)) eqn:L2; intros H1 H2.
    + inversion H1. inversion H2. subst. apply C in L1, L2. assert (k1 - n = k2 - n) by (eapply U2; eauto). lia.
    + inversion H1. subst. apply C in L1. apply lookup_In_cells in L1, H2. apply Hu in L1. apply Hr in H2. lia.
    + inversion H2. subst. apply C in L2. apply lookup_In_cells in L2, H1. apply Hu in L2. apply Hr in H1. lia.
    + eapply R2; eauto.
Qed.

(* ---- AppendScalar / AppendVector(dense): fresh cells ----------------------------------- *)
Lemma append_fresh_spec xs : forall h k0 r h' r',
  append_fresh h k0 xs r = (h', r') -> Wf h r -> (forall k l, lookup k (vals r) = Some l -> k < k0) ->
  h' = h ++ xs /\ dim r' = dim r /\ Wf h' r' /\ (forall k, peek h' r' k = if (k0 <=? k) && (k <? k0 + Z.of_nat (length xs))
                            then nth (Z.to_nat (k - k0)) xs 0 else peek h r k).
Proof.
  induction xs as [|x xs IH]; intros h k0 r h' r' E W B; simpl in E.
  - inversion E. subst. rewrite app_nil_r. repeat split; auto; try apply W.
    intro k. simpl. replace (k <? k0 + 0) with (k <? k0) by (f_equal; lia).
    destruct (k0 <=? k) eqn:C1; destruct (k <? k0) eqn:C2; auto.
    apply Z.leb_le in C1. apply Z.ltb_lt in C2. lia.
  - set (r1 := {| vals := insert k0 (length h) (vals r); idx := kins k0 (idx r); dim := dim r |}) in E.
    assert (W1 : Wf (h ++ [x]) r1).
    { destruct W as [A1 A2]. split; unfold r1; cbn [vals].
      - intros k l. rewrite lookup_insert, app_length. simpl. destruct (k0 =? k).
        + intro E0. inversion E0. lia.
        + intro E0. apply A1 in E0. lia.
      - intros k1 k2 l. rewrite !lookup_insert.
        destruct (k0 =? k1) eqn:E1; destruct (k0 =? k2) eqn:E2; intros H1 H2.
        + apply Z.eqb_eq in E1, E2. lia.
        + inversion H1. subst l. apply A1 in H2. lia.
        + inversion H2. subst l. apply A1 in H1. lia.
        + eapply A2; eauto. }
    destruct (IH (h ++ [x]) (k0 + 1) r1 h' r' E W1) as (Eh & Ed & Wr & P).
    { intros k l. unfold r1. cbn [vals]. rewrite lookup_insert. destruct (k0 =? k) eqn:E0.
      - apply Z.eqb_eq in E0. lia.
      - intro L. apply B in L. lia. }
    split; [rewrite Eh, <- app_assoc; auto|]. split; [rewrite Ed; auto|]. split; auto.
    intro k. rewrite P. simpl length. rewrite Nat2Z.inj_succ.
    destruct (k0 <=? k) eqn:C1; destruct (k0 + 1 <=? k) eqn:C1'; simpl;
      try apply Z.leb_le in C1; try apply Z.leb_gt in C1; try apply Z.leb_le in C1'; try apply Z.leb_gt in C1'; try lia.
    + replace (k <? k0 + 1 + Z.of_nat (length xs)) with (k <? k0 + Z.succ (Z.of_nat (length xs))) by (f_equal; lia).
      destruct (k <? k0 + Z.succ (Z.of_nat (length xs))) eqn:C2.
      * replace (Z.to_nat (k - k0)) with (S (Z.to_nat (k - (k0 + 1)))) by lia. auto.
      * unfold peek, r1. cbn [vals]. rewrite lookup_insert.
        destruct (k0 =? k) eqn:E0; [apply Z.eqb_eq in E0; lia|].
        destruct (lookup k (vals r)) eqn:L; auto. apply hget_app. destruct W as [A1 _]. eauto.
    + assert (k = k0) by lia. subst k.
      assert ((k0 <? k0 + Z.succ (Z.of_nat (length xs))) = true) as -> by (apply Z.ltb_lt; lia).
      rewrite Z.sub_diag. simpl. unfold peek, r1. cbn [vals]. rewrite lookup_insert_eq.
      unfold hget. rewrite app_nth2 by lia. rewrite Nat.sub_diag. auto.
    + unfold peek, r1. cbn [vals]. rewrite lookup_insert.
      destruct (k0 =? k) eqn:E0; [apply Z.eqb_eq in E0; lia|].
      destruct (lookup k (vals r)) eqn:L; auto. apply hget_app. destruct W as [A1 _]. eauto.
Qed.

(* ---- New ------------------------------------------------------------------------------ *)
Lemma new_loop_spec n ks : forall h xs r (l0 : list Z),
  length ks = length xs -> NoDup ks -> Forall (fun k => 0 <= k < n) ks ->
  dim r = n -> Z.of_nat (length l0) = n -> Wf h r ->
  (forall k, In k ks -> lookup k (vals r) = None) ->
  (forall k, 0 <= k < n -> peek h r k = nth (Z.to_nat k) l0 0) ->
  exists h' r', new_loop h n ks xs r = Some (h', r') /\ dim r' = n /\ Wf h' r' /\ (exists e, h' = h ++ e) /\ (forall k, 0 <= k < n -> peek h' r' k =
       nth (Z.to_nat k) (fold_left (fun l kx => upd (Z.to_nat (fst kx)) (snd kx) l) (combine ks xs) l0) 0).
Proof.
  induction ks as [|k0 ks IH]; intros h xs r l0 Hl ND F Hd Hl0 W Hnone P.
  - destruct xs; [|discriminate]. exists h, r. simpl. repeat split; auto; try apply W. exists []. rewrite app_nil_r. auto.
  - destruct xs as [|x xs]; [discriminate|]. simpl in Hl. inversion ND as [|? ? Hn ND']; subst.
    inversion F as [|? ? Hk0 F']; subst. cbn [new_loop combine fold_left fst snd].
    assert ((dim r <=? k0) = false) as -> by (apply Z.leb_gt; lia).
    rewrite (Hnone k0) by (left; auto).
    destruct (x =? 0) eqn:X.
    + apply Z.eqb_eq in X. subst x.
      apply IH; auto.
      * rewrite upd_length. auto.
      * intros k Hk. apply Hnone. right. auto.
      * intros k Hk. destruct (Z.eq_dec k k0) as [->|N].
        -- rewrite nth_upd_eq by lia. unfold peek. rewrite (Hnone k0) by (left; auto). auto.
        -- rewrite nth_upd_neq by lia. auto.
    + cbn [halloc].
      set (r1 := {| vals := insert k0 (length h) (vals r); idx := kins k0 (idx r); dim := dim r |}).
      assert (W1 : Wf (h ++ [x]) r1).
      { destruct W as [A1 A2]. split; unfold r1; cbn [vals].
        - intros k l. rewrite lookup_insert, app_length. simpl. destruct (k0 =? k).
          + intro E0. inversion E0. lia.
          + intro E0. apply A1 in E0. lia.
        - intros k1 k2 l. rewrite !lookup_insert.
          destruct (k0 =? k1) eqn:E1; destruct (k0 =? k2) eqn:E2; intros H1 H2.
          + apply Z.eqb_eq in E1, E2. lia.
          + inversion H1. subst l. apply A1 in H2. lia.
          + inversion H2. subst l. apply A1 in H1. lia.
          + eapply A2; eauto. }
      destruct (IH (h ++ [x]) xs r1 (upd (Z.to_nat k0) x l0)) as (h' & r' & A & B & C & (e & D) & G); auto.
      * rewrite upd_length. auto.
      * intros k Hk. unfold r1. cbn [vals]. rewrite lookup_insert.
        destruct (k0 =? k) eqn:E0; [apply Z.eqb_eq in E0; subst; tauto|]. apply Hnone. right. auto.
      * intros k Hk. unfold peek, r1. cbn [vals]. rewrite lookup_insert. destruct (k0 =? k) eqn:E0.
        -- apply Z.eqb_eq in E0. subst k. rewrite nth_upd_eq by lia.
           unfold hget. rewrite app_nth2 by lia. rewrite Nat.sub_diag. auto.
        -- apply Z.eqb_neq in E0. rewrite nth_upd_neq by lia. rewrite <- P by auto. unfold peek.
           destruct (lookup k (vals r)) eqn:L; auto. apply hget_app. destruct W as [A1 _]. eauto.
      * exists h', r'. split; [exact A|]. split; [exact B|]. split; [exact C|].
        split; [exists ([x] ++ e); rewrite D, <- app_assoc; auto|]. exact G.
Qed.
Lemma new_vec_spec h ks xs n :
  length ks = length xs -> NoDup ks -> Forall (fun k => 0 <= k < n) ks -> 0 <= n ->
  exists h' v, new_vec h ks xs n = Some (h', v) /\ Wf h' v /\ (exists e, h' = h ++ e) /\ abs h' v = dnew ks xs n.
Proof.
  intros Hl ND F Hn. unfold new_vec. rewrite Hl, Nat.eqb_refl. simpl negb. cbv iota.
  destruct (new_loop_spec n ks h xs (nil_vec n) (repeat 0 (Z.to_nat n))) as (h' & r' & A & B & C & D & G); auto.
  - rewrite repeat_length. lia.
  - apply Wf_nil.
  - intros k Hk. unfold peek. simpl. rewrite nth_repeat. auto.
  - exists h', r'. split; [exact A|]. split; [exact C|]. split; [exact D|].
    apply abs_eq_by_nth; rewrite ?B; auto.
    unfold dnew.
    assert (GL : forall (kx : list (Z * Z)) l, length (fold_left (fun l kx => upd (Z.to_nat (fst kx)) (snd kx) l) kx l) = length l).
    { induction kx as [|a kx IHk]; intro l; simpl; auto. rewrite IHk, upd_length. auto. }
    rewrite GL, repeat_length. lia.
Qed.
