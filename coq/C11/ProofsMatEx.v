(* C11, sparse matrices — executable validity of a matrix history (in range + safe in
   every state it meets) and its soundness; used by the Examples of PropsMat2.v and by
   the reading of CorrMat2 (mdense_diverge judges exactly the operations for which
   min_rangeb / msafeb hold). *)
From Coq Require Import ZArith List Bool Lia.
From ADV Require Import C11.Model C11.Spec C11.Dense C11.ModelMat C11.ProofsMatSpec C11.DenseMat C11.ProofsMatWorld.
Import ListNotations.
Open Scope Z_scope.

Fixpoint mvalid_safeb (w : mworld) (ops : list mop) : bool :=
  match ops with
  | [] => true
  | o :: r => min_rangeb w o && msafeb w o && mvalid_safeb (fst (mstep w o)) r
  end.
Lemma mvalid_safeb_sound ops : forall w, mvalid_safeb w ops = true -> mvalid_safe w ops.
Proof.
  induction ops as [|o r IH]; intros w H; cbn [mvalid_safeb mvalid_safe] in *; [exact I|].
  apply andb_prop in H. destruct H as [H H3]. apply andb_prop in H. destruct H as [H1 H2].
  split; [apply min_rangeb_sound; exact H1|split; [apply msafeb_sound; exact H2|apply IH; exact H3]].
Qed.
