(* C11, sparse matrices — dense refinement, part 2: the iterator write loop
   (Reset, SetIdentity loop 1, Set loop 1):
     for it := m.Iterator(); it.Ok(); it.Next() { i,j := it.Index(); it.Get().Set(g(i,j)) }
   on a well-formed `values` vector writes g(ij(k)) to exactly the entries that
   are non-null when the loop starts; null entries are dropped by skip() or
   stay zero. *)
From Coq Require Import ZArith List Bool Lia Sorted.
From ADV Require Import C11.Model C11.Spec C11.Dense C11.ProofsMap C11.ProofsIter C11.ProofsInv C11.ProofsRef
                        C11.ProofsD1 C11.ProofsD2 C11.ProofsD3
                        C11.ModelMat C11.ProofsMatSpec C11.ProofsMat C11.ProofsMatRef C11.ProofsMatDense.
Import ListNotations.
Open Scope Z_scope.

Lemma dropnull_incl p l x : In x (dropnull p l) -> In x l.
Proof. induction l as [|k r IH]; simpl; auto. destruct (p k); simpl; auto. Qed.
Lemma dropnull_keeps p l x : In x l -> p x = false -> In x (dropnull p l).
Proof.
  induction l as [|k r IH]; simpl; auto. intros [->|H] N.
  - rewrite N. simpl. auto.
  - destruct (p k); simpl; auto.
Qed.
Lemma dropnull_head p k r : dropnull p (k :: r) = k :: r -> p k = false.
Proof.
  simpl. destruct (p k) eqn:E; auto. intro H. pose proof (dropnull_length p r) as L. rewrite H in L. simpl in L. lia.
Qed.
(* skip() never touches a key in front of the iterator *)
Lemma skip_keeps f : forall h v cur v' c' k0,
  skip f h v cur = Some (v', c') -> (forall c, cur = Some c -> k0 < c) ->
  lookup k0 (vals v') = lookup k0 (vals v).
Proof.
  induction f as [|f IH]; intros h v cur v' c' k0; simpl; destruct cur as [c|];
    try (intro E; inversion E; subst; auto; fail).
  - destruct (isnull h v c); intro E; inversion E; subst; auto.
  - destruct (isnull h v c).
    + intros E H. rewrite (IH _ _ _ _ _ k0 E).
      * unfold del_entry. cbn [vals]. apply lookup_remove_neq. specialize (H c eq_refl). lia.
      * intros c2 E2. apply first_gt_In in E2. specialize (H c eq_refl). lia.
    + intro E; inversion E; subst; auto.
Qed.
Lemma isnull_hset h v k l x k0 :
  Wf h v -> lookup k (vals v) = Some l -> k0 <> k -> isnull (hset h l x) v k0 = isnull h v k0.
Proof.
  intros [_ W2] L Ne. unfold isnull. destruct (lookup k0 (vals v)) as [l0|] eqn:L0; auto.
  rewrite hget_hset_neq; auto. intro. subst l0. apply Ne. eapply W2; eauto.
Qed.

Section WrLoop.
Variable m : smat.
Variable gk : Z -> Z.                 (* the value written at key k *)
Variable rd : heap -> svec -> Z -> Z -> option Z.
Variable R : Z -> Prop.               (* the keys on which rd is known *)
Variable HR : forall h v k, R k -> rd h v (fst (mij m k)) (snd (mij m k)) = Some (gk k).

Lemma wr_loop_spec : forall f rest pre h v,
  Inv v -> Wf h v -> idx v = pre ++ rest -> (length rest <= f)%nat ->
  dropnull (isnull h v) rest = rest -> (forall x, In x rest -> R x) ->
  exists h' v', wr_loop f rd m h v (hd_error rest) = Some (h', v', true) /\
    length h' = length h /\ Inv v' /\ dim v' = dim v /\
    (forall k l, lookup k (vals v') = Some l -> lookup k (vals v) = Some l) /\
    (forall k0, (forall x, In x rest -> k0 < x) -> lookup k0 (vals v') = lookup k0 (vals v)) /\
    (forall k, In k rest -> isnull h v k = false -> lookup k (vals v') = lookup k (vals v)) /\
    (forall k l, In k rest -> lookup k (vals v) = Some l -> isnull h v k = false -> hget h' l = gk k) /\
    (forall l, (forall k, In k rest -> isnull h v k = false -> lookup k (vals v) <> Some l) -> hget h' l = hget h l).
Proof.
  induction f as [|f IH]; intros rest pre h v I Wf0 Hidx Hf Hd HRr.
  - destruct rest; [|simpl in Hf; lia]. exists h, v. simpl.
    split; [auto|]. split; [auto|]. split; [auto|]. split; [auto|]. split; [auto|]. split; [auto|].
    split; [intros k F; destruct F|]. split; [intros k l F; destruct F|auto].
  - destruct rest as [|k r].
    + exists h, v. simpl.
      split; [auto|]. split; [auto|]. split; [auto|]. split; [auto|]. split; [auto|]. split; [auto|].
      split; [intros k F; destruct F|]. split; [intros k l F; destruct F|auto].
    + pose proof (dropnull_head _ _ _ Hd) as N.
      assert (exists l, lookup k (vals v) = Some l) as [l Hl].
      { unfold isnull in N. destruct (lookup k (vals v)); [eauto|discriminate]. }
      assert (Hs : sset (idx v)) by apply I.
      assert (Hs' : sset (pre ++ k :: r)) by (rewrite <- Hidx; auto).
      assert (Kr : forall x, In x r -> k < x).
      { intros x Hx. apply sset_app_r in Hs'. apply sset_cons in Hs'. destruct Hs' as [_ F].
        rewrite Forall_forall in F. auto. }
      cbn [hd_error wr_loop]. rewrite Hl.
      pose proof (HR h v k (HRr k (or_introl eq_refl))) as Hrd.
      destruct (mij m k) as [i j] eqn:Eij. cbn [fst snd] in Hrd. rewrite Hrd.
      set (h1 := hset h l (gk k)).
      assert (Ll : (l < length h)%nat) by (destruct Wf0 as [W1 _]; eauto).
      assert (W1 : Wf h1 v) by (eapply Wf_mono; [|exact Wf0]; unfold h1; rewrite hset_length; auto).
      assert (E1 : first_gt k (idx v) = hd_error r) by (rewrite Hidx; apply first_gt_mid; auto).
      unfold it_next. rewrite E1.
      destruct (skip_spec h1 r (pre ++ [k]) v (sfuel v)) as (v2 & A & B & C); auto.
      { rewrite Hidx, <- app_assoc. auto. }
      { unfold sfuel. rewrite Hidx, app_length. simpl. lia. }
      rewrite A. pose proof (skip_Q2 _ _ _ _ _ _ A) as [_ SUB].
      pose proof (skip_keeps _ _ _ _ _ _ k A) as KEEP.
      set (r' := dropnull (isnull h1 v) r) in *.
      assert (NK : forall k0, k0 <> k -> isnull h1 v k0 = isnull h v k0)
        by (intros k0 Ne; apply (isnull_hset h v k l (gk k) k0); auto).
      assert (I2 : Inv v2) by (eapply Inv_skip; [exact I|exact A]).
      assert (W2 : Wf h1 v2) by (eapply Q2_Wf; [eapply skip_Q2; exact A|exact W1]).
      assert (Hext : forall k0, isnull h1 v2 k0 = isnull h1 v k0) by apply C.
      destruct (IH r' (pre ++ [k]) h1 v2 I2 W2) as (h' & v' & R0 & R1 & R2 & R3 & S1 & S2 & S3 & H1 & H2).
      { exact B. }
      { pose proof (dropnull_length (isnull h1 v) r). unfold r'. simpl in Hf. lia. }
      { rewrite (dropnull_ext _ (isnull h1 v)); auto. apply dropnull_idem. }
      { intros x Hx. apply HRr. right. eapply dropnull_incl. exact Hx. }
      assert (Rin : forall x, In x r' -> In x r) by (intros x Hx; eapply dropnull_incl; exact Hx).
      assert (Kv2 : lookup k (vals v2) = lookup k (vals v)).
      { apply KEEP. intros c Ec. destruct r as [|c0 r0]; [discriminate|]. inversion Ec. subst. apply Kr. left. auto. }
      assert (Kv' : lookup k (vals v') = lookup k (vals v)).
      { rewrite <- Kv2. apply S2. intros x Hx. apply Kr. auto. }
      assert (IN' : forall k0, In k0 r -> isnull h v k0 = false ->
                 In k0 r' /\ isnull h1 v2 k0 = false /\ lookup k0 (vals v2) = lookup k0 (vals v)).
      { intros k0 Hin Nn. assert (Ne : k0 <> k) by (specialize (Kr k0 Hin); lia).
        assert (N1 : isnull h1 v k0 = false) by (rewrite NK; auto).
        split; [apply dropnull_keeps; auto|]. split; [rewrite Hext; auto|]. apply C. auto. }
      exists h', v'. split; [exact R0|].
      split; [rewrite R1; unfold h1; apply hset_length|].
      split; [exact R2|]. split; [rewrite R3; apply C|].
      split; [intros k0 l0 L0; apply SUB; apply S1; auto|].
      split.
      { intros k0 Hlt. rewrite S2.
        - apply (skip_keeps _ _ _ _ _ _ k0 A). intros c Ec. destruct r as [|c0 r0]; [discriminate|].
          inversion Ec. subst. apply Hlt. right. left. auto.
        - intros x Hx. apply Hlt. right. auto. }
      split.
      { intros k0 [<-|Hin] Nn; [exact Kv'|].
        destruct (IN' k0 Hin Nn) as (A1 & A2 & A3). rewrite (S3 k0 A1 A2). exact A3. }
      split.
      { intros k0 l0 [<-|Hin] L0 Nn.
        - rewrite Hl in L0. inversion L0. subst l0. rewrite H2.
          + unfold h1. rewrite hget_hset_eq; auto.
          + intros k2 Hk2 _ L2. apply SUB in L2. destruct Wf0 as [_ Wb]. pose proof (Wb _ _ _ L2 Hl). subst k2.
            specialize (Kr k (Rin k Hk2)). lia.
        - destruct (IN' k0 Hin Nn) as (A1 & A2 & A3). apply H1; auto. rewrite A3. auto. }
      { intros l0 Hno. assert (Nl : l0 <> l) by (intro; subst l0; apply (Hno k); [left; auto|auto|auto]).
        rewrite H2.
        - unfold h1. apply hget_hset_neq. auto.
        - intros k2 Hk2 N2 L2. pose proof (SUB _ _ L2) as L2v.
          assert (Ne : k2 <> k) by (specialize (Kr k2 (Rin k2 Hk2)); lia).
          apply (Hno k2); [right; apply Rin; auto| |exact L2v].
          rewrite <- NK by auto. rewrite <- Hext. exact N2. }
Qed.
End WrLoop.

Section WrAll.
Variable mm : smat.
Variable gk : Z -> Z.
Variable rd : heap -> svec -> Z -> Z -> option Z.
Variable HR : forall h v k, 0 <= k < dim (mv mm) -> rd h v (fst (mij mm k)) (snd (mij mm k)) = Some (gk k).

Lemma wr_all_spec h :
  MInv mm -> Wf h (mv mm) ->
  exists h' m', wr_all rd h mm = Some (h', m', true) /\
    MInv m' /\ Wf h' (mv m') /\ mdims m' = mdims mm /\ length h' = length h /\
    (forall k, peek h' (mv m') k = if isnull h (mv mm) k then 0 else gk k) /\
    (forall l, ~ In l (cells_of (mv mm)) -> hget h' l = hget h l) /\
    (forall l, In l (cells_of (mv m')) -> In l (cells_of (mv mm))).
Proof.
  intros [I W] Wf0. set (v := mv mm) in *. unfold wr_all, it_begin. fold v.
  assert (Hs : sset (idx v)) by apply I.
  destruct (skip_spec h (idx v) [] v (sfuel v)) as (v0 & A & B & C); auto.
  { unfold sfuel. lia. }
  rewrite A. simpl in B. pose proof (skip_Q2 _ _ _ _ _ _ A) as Q0. destruct Q0 as [_ SUB].
  assert (I0 : Inv v0) by (eapply Inv_skip; [exact I|exact A]).
  assert (W0 : Wf h v0) by (eapply Q2_Wf; [eapply skip_Q2; exact A|exact Wf0]).
  assert (Hext : forall k0, isnull h v0 k0 = isnull h v k0) by apply C.
  assert (D0 : dim v0 = dim v) by apply C.
  destruct (wr_loop_spec mm gk rd (fun k => 0 <= k < dim v) HR (sfuel v) (idx v0) [] h v0 I0 W0)
    as (h' & v' & R0 & R1 & R2 & R3 & S1 & S2 & S3 & H1 & H2).
  { reflexivity. }
  { rewrite B. pose proof (dropnull_length (isnull h v) (idx v)). unfold sfuel. lia. }
  { rewrite B. rewrite (dropnull_ext _ (isnull h v)); auto. apply dropnull_idem. }
  { intros x Hx. rewrite <- D0. apply I0. exact Hx. }
  rewrite <- B. rewrite R0. exists h', (set_mv mm v'). split; [reflexivity|].
  assert (Wv' : Wf h' v').
  { destruct W0 as [Wa Wb]. split.
    - intros k l L. rewrite R1. eauto.
    - intros k1 k2 l L1 L2. eauto. }
  split; [apply MInv_set_mv; [split; auto|auto|rewrite R3; exact D0]|].
  split; [exact Wv'|]. split; [reflexivity|]. split; [exact R1|]. cbn [mv set_mv].
  split; [|split].
  - intro k. unfold peek. destruct (isnull h v k) eqn:N.
    + destruct (lookup k (vals v')) as [l'|] eqn:L'; auto.
      pose proof (S1 _ _ L') as L0. pose proof (SUB _ _ L0) as Lv.
      rewrite H2.
      * unfold isnull in N. rewrite Lv in N. apply Z.eqb_eq in N. exact N.
      * intros k2 Hk2 N2 L2. destruct W0 as [_ Wb]. pose proof (Wb _ _ _ L2 L0). subst k2.
        rewrite Hext, N in N2. discriminate.
    + assert (exists l, lookup k (vals v) = Some l) as [l Hl].
      { unfold isnull in N. destruct (lookup k (vals v)); [eauto|discriminate]. }
      assert (L0 : lookup k (vals v0) = Some l) by (destruct C as (_ & C2 & _); rewrite C2; auto).
      assert (Hin : In k (idx v0)) by (destruct I0 as (_ & _ & Hd & _); eauto).
      assert (N0 : isnull h v0 k = false) by (rewrite Hext; auto).
      rewrite (S3 k Hin N0), L0. apply (H1 k l Hin L0 N0).
  - intros l Hn. apply H2. intros k2 _ _ L2. apply Hn. apply SUB in L2. eapply lookup_In_cells; eauto.
  - intros l Hin. apply In_cells_lookup in Hin; [|apply R2]. destruct Hin as [k L].
    apply S1 in L. apply SUB in L. eapply lookup_In_cells; eauto.
Qed.
End WrAll.

(* ---- (1) Reset ---------------------------------------------------------------------------- *)
Definition MPost (h : heap) (m : smat) (h' : heap) (m' : smat) : Prop :=
  MInv m' /\ Wf h' (mv m') /\ mdims m' = mdims m /\ (length h <= length h')%nat /\
  (forall l, (l < length h)%nat -> ~ In l (cells_of (mv m)) -> hget h' l = hget h l) /\
  (forall l, In l (cells_of (mv m')) -> In l (cells_of (mv m)) \/ (length h <= l)%nat).

Lemma isnull_peek h v k : isnull h v k = true -> peek h v k = 0.
Proof.
  unfold isnull, peek. destruct (lookup k (vals v)); auto. intro E. apply Z.eqb_eq in E. auto.
Qed.
Lemma mreset_refines h m :
  MInv m -> Wf h (mv m) ->
  exists h' m', mreset h m = Some (h', m', true) /\ mabs h' m' = dzero (mabs h m) /\ MPost h m h' m'.
Proof.
  intros MI Wf0. unfold mreset.
  destruct (wr_all_spec m (fun _ => 0) (fun _ _ _ _ => Some 0) (fun _ _ _ _ => eq_refl) h MI Wf0)
    as (h' & m' & A & I' & W' & D' & L' & PK & FR & CL).
  exists h', m'. split; [exact A|]. split.
  - rewrite (mabs_by_peek h' m' (fun _ _ => 0)).
    + inversion D' as [[Dr Dc]]. unfold dzero. rewrite mabs_mtab, map_map_mtab, Dr, Dc. reflexivity.
    + intros i j _. rewrite PK. destruct (isnull h (mv m) _); auto.
  - unfold MPost. split; auto. split; auto. split; auto. split; [lia|]. split; auto.
Qed.

(* ---- (2) SetIdentity ------------------------------------------------------------------------ *)
Lemma wr_fun_val c es (V : Z -> Z) :
  (forall i j x, In (i, j, x) es -> x = V (i * c + j)) ->
  forall F k, wr_fun c es F k = if existsb (fun e => fst (fst e) * c + snd (fst e) =? k) es then V k else F k.
Proof.
  induction es as [|[[i j] x] es IH]; intros HV F k; cbn [wr_fun existsb]; auto.
  rewrite IH by (intros; apply HV; right; auto). cbn [fst snd].
  destruct (existsb _ es); [rewrite orb_true_r; auto|]. rewrite orb_false_r, (Z.eqb_sym k).
  destruct (i * c + j =? k) eqn:E; auto. apply Z.eqb_eq in E. subst k. apply HV. left. auto.
Qed.
Lemma mset_identity_refines h m :
  MInv m -> Wf h (mv m) ->
  exists h' m', mset_identity h m = Some (h', m', true) /\
    mabs h' m' = didentity (mrows m) (mcols m) /\ MPost h m h' m'.
Proof.
  intros MI Wf0. unfold mset_identity. pose proof MI as [I W].
  set (gk := fun k => if fst (mij m k) =? snd (mij m k) then 1 else 0).
  destruct (wr_all_spec m gk (fun _ _ i j => Some (if i =? j then 1 else 0)) (fun _ _ _ _ => eq_refl) h MI Wf0)
    as (h1 & m1 & A & I1 & W1 & D1 & L1 & PK & FR & CL).
  rewrite A. destruct (set_list (diag_entries (mrows m) (mcols m)) h1 m1) as [[h2 m2] ok] eqn:S.
  destruct (set_list_spec _ _ _ _ _ _ I1 W1 S) as [T SP].
  inversion D1 as [[Dr Dc]].
  assert (DE : forall a, In a (zseq 0 (Z.to_nat (Z.min (mrows m) (mcols m)))) -> 0 <= a < mrows m /\ 0 <= a < mcols m)
    by (intros a Ha; apply In_zseq in Ha; lia).
  assert (Ok : ok = true).
  { apply T. apply Forall_forall. intros [[a b] x] Hin. unfold diag_entries in Hin. apply in_map_iff in Hin.
    destruct Hin as (a0 & E & Ha). inversion E. subst. cbn [fst snd]. unfold pos_ok. rewrite Dr, Dc. apply DE in Ha. lia. }
  subst ok. destruct (SP eq_refl) as (I2 & W2 & D2 & L2 & PK2 & FR2 & CL2).
  exists h2, m2. split; [reflexivity|]. inversion D2 as [[Dr2 Dc2]]. split.
  - rewrite (mabs_by_peek h2 m2 (fun i j => if i =? j then 1 else 0)).
    + rewrite Dr2, Dc2, Dr, Dc. reflexivity.
    + intros i j P. rewrite PK2, Dc2, Dc.
      assert (Pm : pos_ok m i j) by (unfold pos_ok in *; rewrite Dr2, Dc2, Dr, Dc in P; auto).
      rewrite (wr_fun_val (mcols m) _ (fun _ => 1)).
      2:{ intros a b x Hin. unfold diag_entries in Hin. apply in_map_iff in Hin. destruct Hin as (a0 & E & _). inversion E. auto. }
      destruct (i =? j) eqn:Eij.
      * apply Z.eqb_eq in Eij. subst j.
        assert (EX : existsb (fun e => fst (fst e) * mcols m + snd (fst e) =? i * mcols m + i)
                       (diag_entries (mrows m) (mcols m)) = true).
        { apply existsb_exists. exists (i, i, 1). split; [|cbn [fst snd]; apply Z.eqb_refl].
          unfold diag_entries. apply in_map_iff. exists i. split; auto. apply In_zseq. destruct Pm. lia. }
        rewrite EX. reflexivity.
      * destruct (existsb _ (diag_entries (mrows m) (mcols m))) eqn:EX.
        { exfalso. apply existsb_exists in EX. destruct EX as ([[a b] x] & Hin & Ek). cbn [fst snd] in Ek.
          unfold diag_entries in Hin. apply in_map_iff in Hin. destruct Hin as (a0 & E & Ha). inversion E. subst a0 b x.
          apply DE in Ha. assert (Pa : pos_ok m a a) by (unfold pos_ok; lia).
          rewrite (key_eqb m i j a a W Pm Pa) in Ek. apply andb_prop in Ek. destruct Ek as [E1 E2].
          apply Z.eqb_eq in E1, E2. apply Z.eqb_neq in Eij. lia. }
        rewrite PK. destruct (isnull h (mv m) (i * mcols m + j)); auto.
        unfold gk. rewrite (mij_index _ _ _ W Pm). cbn [fst snd]. rewrite Eij. reflexivity.
  - unfold MPost. split; auto. split; auto. split; [congruence|]. split; [lia|]. split.
    + intros l Hl Hn. rewrite FR2; [apply FR; auto|lia|]. intro Hin. apply Hn. apply CL. auto.
    + intros l Hin. apply CL2 in Hin. destruct Hin as [Hin|Hin]; [left; apply CL; auto|right; lia].
Qed.
