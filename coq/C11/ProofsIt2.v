(* C11, part 2b — STALE iterators characterised exactly: proofs about ModelIt2.v.
   1. key-set level: closed form of draining a stale iterator that walks the
      snapshot of the OLD key list (ModelIt.it_next_snap): stale_remaining.
   2. tree level, on C19's AVL model: the two branches of AvlIterator.Next for an
      iterator whose node belongs to a dropped tree [old] while its tree pointer
      names the tree [new]: stale_walk_old / stale_walk_all / stale_refind_new.
   3. system level: step_it2 keeps WInv; ModelIt.v and ModelIt2.v agree wherever
      ModelIt.v makes a prediction and the oracle bit is not contradicted. *)
From Coq Require Import ZArith List Bool Lia Sorted.
From ADV Require Import C11.Model C11.Spec C11.ProofsMap C11.ProofsIter C11.ProofsInv C11.ProofsRef
                        C11.ModelIt C11.ProofsIt C11.ModelIt2.
Import ListNotations.
Open Scope Z_scope.

(* ---- 1. draining a stale iterator over the snapshot --------------------------
   it.Next(); for it.Ok() { visit (it.Index(), it.GetConst()); it.Next() }
   every Next = ModelIt.it_next_snap: first key of [snap] beyond the cursor, then
   skip() over [snap], reading / deleting from the CURRENT vector *)
Fixpoint drain_snap (fuel : nat) (snap : list Z) (h : heap) (v : svec) (cur : option Z) (acc : list (Z * Z))
  : option (svec * list (Z * Z)) :=
  match cur with
  | None => Some (v, rev acc)
  | Some _ =>
      match fuel with
      | O => None
      | S f =>
          match it_next_snap snap h v cur with
          | None => None
          | Some (v', cur') =>
              drain_snap f snap h v' cur' (match cur' with Some k' => (k', peek h v' k') :: acc | None => acc end)
          end
      end
  end.
Definition dfuel_snap (snap : list Z) : nat := S (length snap).

Lemma dropnull_split p l : exists d, l = d ++ dropnull p l /\ Forall (fun x => p x = true) d.
Proof.
  induction l as [|x r IH]; simpl.
  - exists []. auto.
  - destruct (p x) eqn:E.
    + destruct IH as (d & A & B). exists (x :: d). simpl. split; [f_equal; auto|constructor; auto].
    + exists []. auto.
Qed.

(* the keys skip() removed: v' is v without the entries / index keys [d] *)
Definition removed (d : list Z) (v v' : svec) : Prop :=
  forall x, In x (idx v') <-> In x (idx v) /\ ~ In x d.

Lemma removed_refl v : removed [] v v.
Proof. intro x. simpl. tauto. Qed.

Section DrainSnap.
Variable h : heap.

Lemma skip_snap_spec snap : forall rest pre v f,
  snap = pre ++ rest -> sset snap -> Inv v -> (length rest <= f)%nat ->
  exists v', skip_snap f snap h v (hd_error rest) = Some (v', hd_error (dropnull (isnull h v) rest)) /\
             Q h v v' /\ Inv v' /\
             exists d, rest = d ++ dropnull (isnull h v) rest /\ Forall (fun x => isnull h v x = true) d /\
                       removed d v v'.
Proof.
  induction rest as [|k r IH]; intros pre v f Hsn Hs HI Hf.
  - exists v. destruct f; simpl; (split; [auto|split; [apply Q_refl|split; [auto|]]]);
      exists []; (split; [auto|split; [constructor|apply removed_refl]]).
  - simpl. destruct (isnull h v k) eqn:N.
    + destruct f as [|f]; [simpl in Hf; lia|].
      cbn [skip_snap hd_error]. rewrite N.
      assert (E1 : first_gt k snap = hd_error r) by (rewrite Hsn; apply first_gt_mid; rewrite <- Hsn; auto).
      destruct (IH (pre ++ [k]) (del_entry k v) f) as (v' & A & B & C & d & D1 & D2 & D3).
      * rewrite <- app_assoc. auto.
      * auto.
      * apply Inv_del; auto.
      * simpl in Hf. lia.
      * pose proof (Q_del h v k N) as QD.
        assert (EE : dropnull (isnull h (del_entry k v)) r = dropnull (isnull h v) r)
          by (apply dropnull_ext; apply QD).
        rewrite EE in *. exists v'. rewrite E1. split; [auto|]. split; [eapply Q_trans; eauto|].
        split; [auto|]. exists (k :: d). split; [simpl; f_equal; auto|]. split.
        -- constructor; auto. eapply Forall_impl; [|exact D2]. intros a Ha. simpl in Ha. simpl.
           destruct QD as (Q1 & _). rewrite <- (Q1 a). exact Ha.
        -- intro x. rewrite (D3 x). unfold del_entry. cbn [idx]. rewrite kdel_In by apply HI. simpl.
           split; [intros ((X1 & X2) & X3); split; auto; intros [X|X]; auto
                  |intros (X1 & X2); split; [split; auto|auto]].
    + exists v. destruct f; simpl; rewrite N; (split; [auto|split; [apply Q_refl|split; [auto|]]]);
        exists []; (split; [auto|split; [constructor|apply removed_refl]]).
Qed.

Lemma drain_snap_none f snap v acc : drain_snap f snap h v None acc = Some (v, rev acc).
Proof. destruct f; reflexivity. Qed.

Lemma removed_trans d1 d2 a b c : removed d1 a b -> removed d2 b c -> removed (d1 ++ d2) a c.
Proof.
  intros A B x. rewrite (B x), (A x), in_app_iff. tauto.
Qed.

(* closed form for any split of the snapshot around the cursor *)
Lemma drain_snap_spec snap : forall f rest pre v k acc,
  Inv v -> sset snap -> snap = pre ++ rest ->
  (forall x, In x pre -> x <= k) -> (forall x, In x rest -> k < x) ->
  (length rest < f)%nat ->
  exists v', drain_snap f snap h v (Some k) acc = Some (v', rev acc ++ vis h v (filter (nonnull h v) rest)) /\
             Q h v v' /\ Inv v' /\
             removed (filter (isnull h v) rest) v v'.
Proof.
  induction f as [|f IH]; intros rest pre v k acc HI Hs Hsn Hp Hr Hf; [lia|].
  cbn [drain_snap]. unfold it_next_snap.
  assert (E1 : first_gt k snap = hd_error rest) by (rewrite Hsn; apply first_gt_split; auto).
  rewrite E1.
  destruct (skip_snap_spec snap rest pre v (S (length snap))) as (v1 & A & C & I1 & d & D1 & D2 & D3); auto.
  { rewrite Hsn, app_length. lia. }
  rewrite A.
  assert (FD : filter (nonnull h v) (dropnull (isnull h v) rest) = filter (nonnull h v) rest)
    by (unfold nonnull; apply filter_dropnull).
  assert (Fd0 : filter (nonnull h v) d = []).
  { clear - D2. induction D2 as [|x l Hx _ IHl]; simpl; auto. unfold nonnull at 1. rewrite Hx. simpl. auto. }
  assert (Fd1 : filter (isnull h v) d = d).
  { clear - D2. induction D2 as [|x l Hx _ IHl]; simpl; auto. rewrite Hx. f_equal. auto. }
  destruct (dropnull (isnull h v) rest) as [|k' r'] eqn:D.
  - cbn [hd_error]. rewrite drain_snap_none. exists v1. rewrite <- FD. simpl. rewrite !app_nil_r in *.
    split; [auto|]. split; [auto|]. split; [auto|]. rewrite D1, Fd1. auto.
  - cbn [hd_error].
    destruct (dropnull_head _ _ _ _ D) as [N Hin].
    assert (Hk' : k < k') by (apply Hr; auto).
    assert (NN : nonnull h v k' = true) by (unfold nonnull; rewrite N; auto).
    assert (Hext : forall x, nonnull h v1 x = nonnull h v x).
    { intro x. unfold nonnull. destruct C as (C1 & _). rewrite C1. auto. }
    assert (Hext2 : forall x, isnull h v1 x = isnull h v x) by apply C.
    assert (S1 : sset (pre ++ d ++ k' :: r')) by (rewrite <- D1, <- Hsn; auto).
    destruct (IH r' (pre ++ d ++ [k']) v1 k' ((k', peek h v1 k') :: acc)) as (v2 & A2 & C2 & I2 & R2); auto.
    + rewrite Hsn, D1, <- !app_assoc. auto.
    + intros x Hx. apply in_app_or in Hx. destruct Hx as [Hx|Hx].
      * specialize (Hp x Hx). lia.
      * apply in_app_or in Hx. destruct Hx as [Hx|[->|[]]]; [|lia].
        apply sset_app_r in S1. pose proof (sset_app_lt d (k' :: r') S1 x k' Hx). simpl in H. lia.
    + intros x Hx. apply sset_app_r in S1. apply sset_app_r in S1. apply sset_cons in S1. destruct S1 as [_ F].
      rewrite Forall_forall in F. auto.
    + assert (L : (length rest = length d + S (length r'))%nat) by (rewrite D1, app_length; simpl; auto). lia.
    + exists v2. rewrite A2. split; [|split; [|split]].
      * f_equal. f_equal. rewrite <- FD. cbn [filter]. rewrite NN.
        rewrite (filter_ext _ _ Hext). cbn [rev]. rewrite <- app_assoc. cbn [app vis map].
        f_equal. f_equal; [f_equal; apply Q_peek; auto|].
        unfold vis. apply map_ext. intro a. f_equal. apply Q_peek; auto.
      * eapply Q_trans; eauto.
      * auto.
      * rewrite D1, filter_app, Fd1. cbn [filter]. rewrite N.
        rewrite <- (filter_ext _ _ Hext2). eapply removed_trans; eauto.
Qed.

Lemma Inv_drain_snap snap : forall f v cur acc v' s, Inv v -> drain_snap f snap h v cur acc = Some (v', s) -> Inv v'.
Proof.
  induction f as [|f IH]; intros v cur acc v' s HI; destruct cur as [k|]; cbn [drain_snap];
    try (intro E; inversion E; subst; auto; fail); try discriminate.
  destruct (it_next_snap snap h v (Some k)) as [[v1 c1]|] eqn:N; [|discriminate].
  intro E. eapply IH; [|exact E]. unfold it_next_snap in N. eapply Inv_skip_snap; eauto.
Qed.

(* the central statement *)
Lemma stale_remaining v snap k :
  Inv v -> sset snap ->
  exists v' s, drain_snap (dfuel_snap snap) snap h v (Some k) [] = Some (v', s) /\
    s = vis h v (filter (nonnull h v) (gt_keys k snap)) /\
    StronglySorted Z.lt (map fst s) /\
    (forall j x, In (j, x) s <-> k < j /\ In j snap /\ x = peek h v j /\ x <> 0) /\
    ((forall j, In j snap -> 0 <= j < dim v) ->
     forall j x, In (j, x) s <-> k < j /\ In j snap /\ x = nth (Z.to_nat j) (abs h v) 0 /\ x <> 0) /\
    abs h v' = abs h v /\ dim v' = dim v /\ Inv v' /\
    (forall x, In x (idx v') <-> In x (idx v) /\ ~ (k < x /\ In x snap /\ peek h v x = 0)).
Proof.
  intros HI Hs.
  destruct (drain_snap_spec snap (dfuel_snap snap) (gt_keys k snap) (le_keys k snap) v k []) as (v' & A & C & I' & R); auto.
  - apply split_at; auto.
  - intros x Hx. eapply le_keys_le; eauto.
  - intros x Hx. apply gt_keys_gt in Hx. tauto.
  - unfold dfuel_snap. pose proof (filter_len_le (fun x => k <? x) snap). unfold gt_keys. lia.
  - exists v', (vis h v (filter (nonnull h v) (gt_keys k snap))). cbn [rev app] in A.
    assert (M : forall j x, In (j, x) (vis h v (filter (nonnull h v) (gt_keys k snap))) <->
                            k < j /\ In j snap /\ x = peek h v j /\ x <> 0).
    { intros j x. unfold vis. rewrite in_map_iff. split.
      - intros (j0 & E & Hin). inversion E. subst j0 x. clear E.
        apply filter_In in Hin. destruct Hin as [Hin Hnn]. apply gt_keys_gt in Hin. destruct Hin as [Hin Hgt].
        split; auto. split; auto. split; auto. apply nonnull_peek; auto.
      - intros (Hgt & Hj & Hx & Hnz). subst x.
        exists j. split; auto. apply filter_In. split.
        + apply gt_keys_gt. auto.
        + apply nonnull_peek; auto. }
    split; [auto|]. split; [auto|]. split; [|split; [|split; [|split; [|split; [|split]]]]].
    + unfold vis. rewrite map_map. simpl. rewrite map_id.
      apply sset_filter. unfold gt_keys. apply sset_filter. auto.
    + exact M.
    + intros Hrg j x. rewrite M. split; intros (X1 & X2 & X3 & X4); (split; [auto|split; [auto|split; [|auto]]]).
      * rewrite abs_nth; auto.
      * rewrite abs_nth in X3; auto.
    + apply Q_abs; auto.
    + apply C.
    + auto.
    + intro x. rewrite (R x). rewrite filter_In, gt_keys_gt.
      assert (NP : isnull h v x = true <-> peek h v x = 0).
      { pose proof (nonnull_peek h v x) as NP. unfold nonnull in NP. destruct (isnull h v x); simpl in NP.
        - split; auto. intros _. destruct (Z.eq_dec (peek h v x) 0); auto. apply NP in n. discriminate.
        - split; [discriminate|]. intro E. destruct NP as [NP _]. specialize (NP eq_refl). tauto. }
      rewrite NP. tauto.
Qed.
End DrainSnap.

(* ---- 2. tree level: AvlIterator.Next with node in a DROPPED tree -------------
   C19's model of avl-tree.go (trees with node identities, tombstone list [dead]).
   After ReverseOrder / Sort / Permute the iterator's node pointer names a node
   of the tree state [old] (frozen), its tree pointer the tree state [new]. *)
From ADV Require C19.Model C19.Spec C19.ProofsList C19.ProofsLookup C19.ProofsIds.
Module T := ADV.C19.Model.
Module TS := ADV.C19.Spec.
Module TL := ADV.C19.ProofsList.
Module TK := ADV.C19.ProofsLookup.
Module TI := ADV.C19.ProofsIds.

(* = C19 iter_next, with the validity test and the link walk in [old], the
   re-find (tree.FindNodeLE(value+1)) in [new] *)
Definition stale_next (old new : T.tstate) (it : T.iter) : T.iter :=
  match T.inode it with
  | None => it
  | Some k =>
    let refind := existsb (Nat.eqb k) (T.dead old) ||
                  match T.value_at k (T.tr old) with Some w => negb (w =? T.ival it) | None => true end in
    let nxt := if refind
               then (if T.wrap64 (T.ival it + 1) <? T.ival it then None
                     else T.find_le (T.wrap64 (T.ival it + 1)) (T.tr new) None)
               else match T.succ_of k (T.tr old) None with Some x => x | None => None end in
    match nxt with
    | Some (k', v') => {| T.itree := T.itree it; T.inode := Some k'; T.ival := v' |}
    | None => {| T.itree := T.itree it; T.inode := None; T.ival := T.ival it |}
    end
  end.

(* sanity: with old = new it is C19's live iterator step *)
Lemma stale_next_same ts it : stale_next ts ts it = T.iter_next ts it.
Proof. reflexivity. Qed.

Definition tdistinct (t : T.tree) : Prop := forall j, (TI.cnt j t <= 1)%nat.
(* Go: !node.Deleted && node.Value == x for the node object k of tree state ts *)
Definition node_valid (ts : T.tstate) (k : nat) (x : Z) : Prop :=
  ~ In k (T.dead ts) /\ T.value_at k (T.tr ts) = Some x.

Lemma value_at_cnt k t v : T.value_at k t = Some v -> (1 <= TI.cnt k t)%nat.
Proof.
  intro H. destruct (TI.cnt k t) eqn:E; [|lia].
  apply TI.value_at_none_cnt in E. congruence.
Qed.
Lemma tdistinct_sub id l w b r : tdistinct (T.N id l w b r) -> tdistinct l /\ tdistinct r.
Proof. intro H. split; intro j; specialize (H j); simpl in H; lia. Qed.
Lemma value_at_l id l w b r k v :
  tdistinct (T.N id l w b r) -> T.value_at k l = Some v -> T.value_at k (T.N id l w b r) = Some v.
Proof.
  intros Hd H. pose proof (value_at_cnt _ _ _ H) as C. specialize (Hd k). simpl in Hd.
  simpl. destruct (Nat.eqb id k); [lia|]. rewrite H. reflexivity.
Qed.
Lemma value_at_r id l w b r k v :
  tdistinct (T.N id l w b r) -> T.value_at k r = Some v -> T.value_at k (T.N id l w b r) = Some v.
Proof.
  intros Hd H. pose proof (value_at_cnt _ _ _ H) as C. specialize (Hd k). simpl in Hd.
  simpl. destruct (Nat.eqb id k); [lia|].
  assert (L : TI.cnt k l = O) by lia. apply TI.value_at_none_cnt in L. rewrite L. exact H.
Qed.
Lemma value_at_root id l w b r : T.value_at id (T.N id l w b r) = Some w.
Proof. simpl. rewrite Nat.eqb_refl. reflexivity. Qed.

(* the (node, value) pairs returned by the lookups name real nodes with that value *)
Lemma leftmost_value t : forall k v, tdistinct t -> T.leftmost t = Some (k, v) -> T.value_at k t = Some v.
Proof.
  induction t as [|id l IHl w b r _]; intros k v Hd; [discriminate|].
  destruct l as [|i1 l1 v1 b1 r1].
  - simpl. intro H. injection H as ? ?; subst. rewrite Nat.eqb_refl. reflexivity.
  - change (T.leftmost (T.N id (T.N i1 l1 v1 b1 r1) w b r)) with (T.leftmost (T.N i1 l1 v1 b1 r1)).
    intro H. apply value_at_l; [exact Hd|]. apply IHl; [|exact H]. apply (tdistinct_sub _ _ _ _ _ Hd).
Qed.
Lemma find_le_value i t : forall best k v, tdistinct t ->
  T.find_le i t best = Some (k, v) -> best = Some (k, v) \/ T.value_at k t = Some v.
Proof.
  induction t as [|id l IHl w b r IHr]; intros best k v Hd; [simpl; auto|].
  destruct (tdistinct_sub _ _ _ _ _ Hd) as [Hl Hr].
  assert (Hb : (if i <=? w then Some (id, w) else best) = Some (k, v) ->
               best = Some (k, v) \/ T.value_at k (T.N id l w b r) = Some v).
  { destruct (i <=? w); [|auto]. intro H. injection H as ? ?; subst. right. apply value_at_root. }
  cbn [T.find_le]. destruct (i <? w).
  - intro H. destruct (IHl _ _ _ Hl H) as [H1|H1]; [auto|]. right. apply value_at_l; auto.
  - destruct (w <? i).
    + intro H. destruct (IHr _ _ _ Hr H) as [H1|H1]; [auto|]. right. apply value_at_r; auto.
    + intro H. injection H as ? ?; subst. right. apply value_at_root.
Qed.
Lemma succ_of_value n t : forall anc k v, tdistinct t ->
  T.succ_of n t anc = Some (Some (k, v)) -> anc = Some (k, v) \/ T.value_at k t = Some v.
Proof.
  induction t as [|id l IHl w b r IHr]; intros anc k v Hd; [discriminate|].
  destruct (tdistinct_sub _ _ _ _ _ Hd) as [Hl Hr].
  cbn [T.succ_of]. destruct (Nat.eqb id n).
  - destruct (T.leftmost r) as [[k' v']|] eqn:El.
    + intro H. injection H as ? ?; subst. right. apply value_at_r; [exact Hd|]. apply leftmost_value; auto.
    + intro H. injection H as ->. auto.
  - destruct (T.succ_of n l (Some (id, w))) as [res|] eqn:Es.
    + intro H. injection H as ->. destruct (IHl _ _ _ Hl Es) as [H1|H1].
      * injection H1 as ? ?; subst. right. apply value_at_root.
      * right. apply value_at_l; auto.
    + intro H. destruct (IHr _ _ _ Hr H) as [H1|H1]; [auto|]. right. apply value_at_r; auto.
Qed.

Lemma live_not_dead ts k v : TI.tid ts -> T.value_at k (T.tr ts) = Some v -> ~ In k (T.dead ts).
Proof.
  intros (_ & _ & T3) H Hin. apply value_at_cnt in H. destruct (T3 k Hin) as [_ C]. lia.
Qed.

Lemma existsb_eqb_false k l : ~ In k l -> existsb (Nat.eqb k) l = false.
Proof.
  intro H. destruct (existsb (Nat.eqb k) l) eqn:E; [|reflexivity].
  apply existsb_exists in E. destruct E as (x & Hx & Ex). apply Nat.eqb_eq in Ex. subst. tauto.
Qed.

(* (valid) branch: the iterator follows the links of the OLD tree, whatever [new] is *)
Lemma stale_walk_old old new it k :
  TS.bst (T.tr old) -> TI.tid old ->
  T.inode it = Some k -> node_valid old k (T.ival it) ->
  let it' := stale_next old new it in
  T.itree it' = T.itree it /\
  match first_gt (T.ival it) (T.elements (T.tr old)) with
  | Some x => T.ival it' = x /\ exists k', T.inode it' = Some k' /\ node_valid old k' x
  | None => T.inode it' = None /\ T.ival it' = T.ival it
  end.
Proof.
  intros Hb Ht Hn [Hd Hv]. cbv zeta. unfold stale_next. rewrite Hn, Hv.
  rewrite (existsb_eqb_false _ _ Hd), Z.eqb_refl. cbn [negb orb].
  destruct (TK.succ_of_spec k (T.tr old) None (T.ival it) Hb Hv) as (res & Hs & Hres).
  rewrite Hs. change TS.first_gt with first_gt in Hres.
  destruct res as [[k' v']|]; simpl in Hres.
  - destruct (first_gt (T.ival it) (T.elements (T.tr old))) as [x|]; [|discriminate].
    injection Hres as ->. cbn [T.itree T.ival T.inode]. split; [reflexivity|]. split; [reflexivity|].
    exists k'. split; [reflexivity|].
    destruct (succ_of_value _ _ _ _ _ (proj1 Ht) Hs) as [H1|H1]; [discriminate|].
    split; [eapply live_not_dead; eauto|exact H1].
  - destruct (first_gt (T.ival it) (T.elements (T.tr old))) as [x|]; [discriminate|].
    cbn [T.itree T.ival T.inode]. auto.
Qed.

(* (invalid) branch: re-find in the NEW tree; the node reached is a valid node of
   [new]: from then on the iterator is an ordinary live iterator of [new]
   (C19: next_moves_to_first_greater_of_current_set) *)
Lemma stale_refind_new old new it k :
  TS.bst (T.tr new) -> TI.tid new -> Forall TS.in_range (T.elements (T.tr new)) -> TS.in_range (T.ival it) ->
  T.inode it = Some k -> ~ node_valid old k (T.ival it) ->
  let it' := stale_next old new it in
  T.itree it' = T.itree it /\
  match first_gt (T.ival it) (T.elements (T.tr new)) with
  | Some x => T.ival it' = x /\ exists k', T.inode it' = Some k' /\ node_valid new k' x
  | None => T.inode it' = None /\ T.ival it' = T.ival it
  end.
Proof.
  intros Hb Ht Hr Hi Hn Hnv. cbv zeta. unfold stale_next. rewrite Hn.
  assert (Eref : existsb (Nat.eqb k) (T.dead old) ||
                 match T.value_at k (T.tr old) with Some w => negb (w =? T.ival it) | None => true end = true).
  { destruct (existsb (Nat.eqb k) (T.dead old)) eqn:E1; [reflexivity|]. cbn [orb].
    destruct (T.value_at k (T.tr old)) as [w|] eqn:E2; [|reflexivity].
    destruct (w =? T.ival it) eqn:E3; [|reflexivity]. apply Z.eqb_eq in E3. subst w.
    exfalso. apply Hnv. split; [|exact E2]. intro Hin.
    assert (X : existsb (Nat.eqb k) (T.dead old) = true)
      by (apply existsb_exists; exists k; split; [exact Hin|apply Nat.eqb_refl]).
    congruence. }
  rewrite Eref.
  assert (G : forall nxt : option (nat * Z),
    option_map snd nxt = first_gt (T.ival it) (T.elements (T.tr new)) ->
    (forall k' v', nxt = Some (k', v') -> T.value_at k' (T.tr new) = Some v') ->
    let it' := match nxt with
               | Some (k', v') => {| T.itree := T.itree it; T.inode := Some k'; T.ival := v' |}
               | None => {| T.itree := T.itree it; T.inode := None; T.ival := T.ival it |} end in
    T.itree it' = T.itree it /\
    match first_gt (T.ival it) (T.elements (T.tr new)) with
    | Some x => T.ival it' = x /\ exists k', T.inode it' = Some k' /\ node_valid new k' x
    | None => T.inode it' = None /\ T.ival it' = T.ival it end).
  { intros nxt Hnx Hval. destruct nxt as [[k' v']|]; simpl in Hnx; rewrite <- Hnx; cbn [T.itree T.ival T.inode].
    - split; [reflexivity|]. split; [reflexivity|]. exists k'. split; [reflexivity|].
      specialize (Hval k' v' eq_refl). split; [eapply live_not_dead; eauto|exact Hval].
    - auto. }
  apply G; clear G.
  - unfold TS.in_range in Hi.
    destruct (Z.eq_dec (T.ival it) T.MAXI) as [Hmax|Hmax].
    + rewrite Hmax, TK.wrap64_succ_max. change (TS.MINI <? T.MAXI) with true. simpl.
      symmetry. apply TL.first_gt_none.
      eapply Forall_impl; [|exact Hr]. unfold TS.in_range. simpl. intros; lia.
    + rewrite TK.wrap64_succ_small by lia.
      destruct (Z.ltb_spec (T.ival it + 1) (T.ival it)); [lia|].
      rewrite (TK.find_le_first_ge _ _ Hb). apply TL.first_gt_succ.
  - intros k' v'. destruct (T.wrap64 (T.ival it + 1) <? T.ival it); [discriminate|].
    intro H. destruct (find_le_value _ _ _ _ _ (proj1 Ht) H) as [H1|H1]; [discriminate|exact H1].
Qed.

(* the whole remaining walk of a stale iterator with a valid node: exactly the
   keys of the OLD tree beyond its cursor, ascending — [new] is never consulted *)
Fixpoint stale_visits (fuel : nat) (old new : T.tstate) (it : T.iter) : list Z :=
  match fuel with
  | O => []
  | S f => let it' := stale_next old new it in
           match T.inode it' with
           | None => []
           | Some _ => T.ival it' :: stale_visits f old new it'
           end
  end.

Lemma gt_keys_first k l : sset l ->
  gt_keys k l = match first_gt k l with Some x => x :: gt_keys x l | None => [] end.
Proof.
  induction l as [|a r IH]; intro H; [reflexivity|].
  apply sset_cons in H. destruct H as [Hs Hf].
  unfold gt_keys, first_gt in *. cbn [filter find]. destruct (k <? a) eqn:E.
  - rewrite Z.ltb_irrefl. apply Z.ltb_lt in E. f_equal.
    assert (F1 : Forall (fun y => k < y) r) by (eapply Forall_impl; [|exact Hf]; simpl; intros; lia).
    destruct (all_gt_filters k r F1) as [_ E1]. destruct (all_gt_filters a r Hf) as [_ E2].
    unfold gt_keys in E1, E2. rewrite E1, E2. reflexivity.
  - rewrite (IH Hs). destruct (find (fun x => k <? x) r) as [x|] eqn:F; [|reflexivity].
    apply find_some in F. destruct F as [_ F]. apply Z.ltb_lt in F. apply Z.ltb_ge in E.
    destruct (x <? a) eqn:G; [apply Z.ltb_lt in G; lia|]. reflexivity.
Qed.

Lemma stale_walk_all old new : TS.bst (T.tr old) -> TI.tid old ->
  forall fuel it k,
  T.inode it = Some k -> node_valid old k (T.ival it) ->
  (length (gt_keys (T.ival it) (T.elements (T.tr old))) < fuel)%nat ->
  stale_visits fuel old new it = gt_keys (T.ival it) (T.elements (T.tr old)).
Proof.
  intros Hb Ht. induction fuel as [|f IH]; intros it k Hn Hv Hf; [lia|].
  cbn [stale_visits]. destruct (stale_walk_old old new it k Hb Ht Hn Hv) as [_ H].
  rewrite (gt_keys_first (T.ival it) (T.elements (T.tr old)) Hb) in *.
  destruct (first_gt (T.ival it) (T.elements (T.tr old))) as [x|].
  - destruct H as (Hx & k' & Hk' & Hv'). rewrite Hk', Hx. f_equal.
    rewrite <- Hx. apply (IH _ k'); [exact Hk'|rewrite Hx; exact Hv'|rewrite Hx; simpl in Hf; lia].
  - destruct H as [H _]. rewrite H. reflexivity.
Qed.

(* ---- 3. system level ----------------------------------------------------------
   3a. the extended system of ModelIt2.v keeps every vector coherent *)
Definition in_range_it2 (wi : worldi2) (o : opi2) : Prop :=
  match o with
  | Base2 o => in_range (base2 wi) o
  | ItBegin2 t | ItFrom2 t _ => has (base2 wi) t
  | ItNext2 k _ | ItGet2 k => (k < length (its2 wi))%nat
  end.
Fixpoint valid_it2 (wi : worldi2) (ops : list opi2) : Prop :=
  match ops with
  | [] => True
  | o :: r => in_range_it2 wi o /\ valid_it2 (fst (step_it2 wi o)) r
  end.

Lemma new_iter2_WInv wi t r :
  WInv (base2 wi) -> (forall v' c, r = Some (v', c) -> Inv v') -> WInv (base2 (fst (new_iter2 wi t r))).
Proof.
  intros H Hr. unfold new_iter2. destruct (exists_vec (base2 wi) t); simpl; auto.
  destruct r as [[v' c]|]; simpl; auto. apply WInv_setv; auto. eapply Hr; eauto.
Qed.

Lemma move2_Inv h v it vb r md att v' c' :
  Inv v -> move2 h v it vb = Some (Some (v', c'), md, att) -> r = (v', c') -> Inv v'.
Proof.
  intros HI M _. unfold move2 in M.
  destruct (imd2 it) as [|snap [|]].
  - destruct (ifresh2 it && negb vb); [discriminate|]. inversion M as [[N E1 E2]].
    eapply Inv_it_next; eauto.
  - destruct vb; [|discriminate]. inversion M as [[N E1 E2]].
    unfold it_next_snap in N. destruct (icur2 it) as [k|]; [|inversion N; subst; auto].
    eapply Inv_skip_snap; eauto.
  - destruct vb; inversion M as [[N E1 E2]].
    + unfold it_next_snap in N. destruct (icur2 it) as [k|]; [|inversion N; subst; auto].
      eapply Inv_skip_snap; eauto.
    + eapply Inv_it_next; eauto.
Qed.

Lemma step_it2_WInv wi o : WInv (base2 wi) -> in_range_it2 wi o -> WInv (base2 (fst (step_it2 wi o))).
Proof.
  intros H R. assert (G : forall t, Inv (getv (base2 wi) t)) by (intro t0; apply WInv_getv; auto).
  destruct o as [o|t|t i|k vb|k]; simpl in R; cbn [step_it2].
  - pose proof (step_WInv (base2 wi) o H R) as S. destruct (step (base2 wi) o) as [w' out]. simpl in *. auto.
  - apply new_iter2_WInv; auto. intros v' c E. eapply Inv_it_begin; eauto.
  - apply new_iter2_WInv; auto. intros v' c E. eapply Inv_it_from; eauto.
  - destruct (Nat.ltb k (length (its2 wi))); cbn [fst base2]; auto.
    destruct (icur2 (geti2 wi k)) as [c|] eqn:EC; cbn [fst base2]; auto.
    destruct (move2 _ _ _ _) as [[[[[v' c']|] md] att]|] eqn:M; cbn [fst base2]; auto.
    apply WInv_setv; auto. eapply move2_Inv; [apply G|exact M|reflexivity].
  - destruct (Nat.ltb k (length (its2 wi))); cbn [fst base2]; auto.
Qed.

Lemma run_it2_WInv ops : forall wi, WInv (base2 wi) -> valid_it2 wi ops -> WInv (base2 (run_it2 wi ops)).
Proof.
  induction ops as [|o r IH]; intros wi H V; simpl; auto.
  destruct V as [V1 V2]. apply IH; auto. apply step_it2_WInv; auto.
Qed.

Lemma in_range_erase2 wi wi2 o : base wi = base2 wi2 -> length (its wi) = length (its2 wi2) ->
  (in_range_it2 wi2 o <-> in_range_it wi (erase2 o)).
Proof. intros E L. destruct o; simpl; rewrite ?E, ?L; tauto. Qed.

(* 3b. ModelIt.v and ModelIt2.v agree step by step wherever ModelIt.v predicts
       (kind <> K_UNKNOWN) and the oracle bit is not contradicted (<> K_BADORACLE) *)
Definition mrel (m : imode) (m2 : imode2) : Prop :=
  match m, m2 with
  | Attached, Att => True
  | Detached s, Stale s2 true => s = s2
  | Unknown, Stale _ false => True
  | _, _ => False
  end.
Definition irel (it : iter) (it2 : iter2) : Prop :=
  iv it = iv2 it2 /\ icur it = icur2 it2 /\ ifresh it = ifresh2 it2 /\ mrel (imd it) (imd2 it2).
Definition lrel : list iter -> list iter2 -> Prop := Forall2 irel.

Lemma irel_dflt : irel dflt_iter dflt_iter2.
Proof. unfold irel; simpl; auto. Qed.
Lemma irel_obs w it it2 : irel it it2 -> it_obs w it = it_obs2 w it2.
Proof. intros (A & B & _). unfold it_obs, it_obs2. rewrite A, B. reflexivity. Qed.
Lemma lrel_length l l2 : lrel l l2 -> length l = length l2.
Proof. induction 1; simpl; auto. Qed.
Lemma lrel_nth l l2 k : lrel l l2 -> irel (nth k l dflt_iter) (nth k l2 dflt_iter2).
Proof.
  intro H. revert k. induction H as [|x x2 l l2 Hx _ IH]; intros [|k]; simpl; auto; apply irel_dflt.
Qed.
Lemma lrel_upd l l2 k x x2 : lrel l l2 -> irel x x2 -> lrel (upd k x l) (upd k x2 l2).
Proof.
  intros H Hx. revert k. induction H as [|y y2 l l2 Hy Hl IH]; intros [|k]; simpl;
    try constructor; auto. apply IH.
Qed.
Lemma lrel_clear ts l l2 : lrel l l2 -> lrel (clear_fresh ts l) (clear_fresh2 ts l2).
Proof.
  induction 1 as [|y y2 l l2 Hy Hl IH]; simpl; constructor; auto.
  destruct Hy as (A & B & C & D). rewrite A.
  destruct (existsb (Nat.eqb (iv2 y2)) ts); unfold irel; simpl; auto.
Qed.
Lemma lrel_detach t s s2 clean l l2 :
  (clean = true -> s = s2) -> lrel l l2 -> lrel (detach t s clean l) (detach2 t s2 clean l2).
Proof.
  intro Hc. induction 1 as [|y y2 l l2 Hy Hl IH]; simpl; constructor; auto.
  destruct Hy as (A & B & C & D). rewrite A.
  destruct (Nat.eqb (iv2 y2) t); [|unfold irel; auto].
  destruct (imd y) as [|sn|] eqn:E1, (imd2 y2) as [|sn2 [|]] eqn:E2; simpl in D; try tauto;
    try (unfold irel; rewrite E1, E2; simpl; auto; fail).
  rewrite B. destruct (icur2 y2) as [c|] eqn:EC; [|unfold irel; rewrite E1, E2, EC; simpl; auto].
  rewrite C. unfold irel. cbn [iv iv2 icur icur2 ifresh ifresh2 imd imd2].
  split; [auto|]. split; [auto|]. split; [auto|].
  destruct (ifresh2 y2); destruct clean; simpl; auto.
Qed.

Lemma filter_length_eq {X} (p : X -> bool) l : length (filter p l) = length l -> filter p l = l.
Proof.
  induction l as [|x r IH]; simpl; auto. destruct (p x); simpl.
  - intro H. f_equal. apply IH. lia.
  - intro H. pose proof (filter_len_le p r). lia.
Qed.

Lemma lrel_base_its w o l l2 : WInv w -> lrel l l2 -> lrel (base_its w o l) (base_its2 w o l2).
Proof.
  intros HW H. destruct o; cbn [base_its base_its2]; try (apply lrel_clear; auto; fail).
  - apply lrel_detach; auto.
  - destruct (snd (permute _ _)); [apply lrel_detach; auto|apply lrel_clear; auto].
  - destruct (iterate_spec (hp w) (getv w t)) as (v1 & A & B & _).
    { apply (WInv_getv w t HW). }
    rewrite A. apply lrel_detach; auto. intro E. apply Nat.eqb_eq in E.
    rewrite B in *. symmetry. apply filter_length_eq. exact E.
Qed.

Lemma models_agree_step wi wi2 o :
  WInv (base wi) -> base wi = base2 wi2 -> lrel (its wi) (its2 wi2) ->
  fst (snd (step_it wi (erase2 o))) <> K_UNKNOWN ->
  fst (snd (step_it2 wi2 o)) <> K_BADORACLE ->
  base (fst (step_it wi (erase2 o))) = base2 (fst (step_it2 wi2 o)) /\
  snd (step_it wi (erase2 o)) = snd (step_it2 wi2 o) /\
  lrel (its (fst (step_it wi (erase2 o)))) (its2 (fst (step_it2 wi2 o))).
Proof.
  destruct wi as [w l], wi2 as [w2 l2]. cbn [base base2 its its2]. intros HW E HL. subst w2.
  pose proof (lrel_length _ _ HL) as LL.
  destruct o as [o|t|t i|k vb|k]; cbn [erase2 step_it step_it2 base base2 its its2].
  - intros _ _. destruct (step w o) as [w' out]. cbn [fst snd base base2 its its2].
    split; [reflexivity|]. split; [reflexivity|]. apply lrel_base_its; auto.
  - intros _ _. unfold new_iter, new_iter2. cbn [base base2 its its2].
    destruct (exists_vec w t); [|cbn [fst snd base base2 its its2]; auto].
    destruct (it_begin (hp w) (getv w t)) as [[v' c]|]; cbn [fst snd base base2 its its2]; auto.
    split; [reflexivity|]. split; [reflexivity|].
    apply Forall2_app; [apply lrel_clear; auto|]. constructor; [|constructor]. unfold irel; simpl; auto.
  - intros _ _. unfold new_iter, new_iter2. cbn [base base2 its its2].
    destruct (exists_vec w t); [|cbn [fst snd base base2 its its2]; auto].
    destruct (it_from (hp w) (getv w t) i) as [[v' c]|]; cbn [fst snd base base2 its its2]; auto.
    split; [reflexivity|]. split; [reflexivity|].
    apply Forall2_app; [apply lrel_clear; auto|]. constructor; [|constructor]. unfold irel; simpl; auto.
  - rewrite <- LL. destruct (Nat.ltb k (length l)); [|cbn [fst snd base base2 its its2]; auto].
    unfold geti, geti2. cbn [its its2].
    pose proof (lrel_nth l l2 k HL) as (A & B & C & D).
    set (it := nth k l dflt_iter) in *. set (it2 := nth k l2 dflt_iter2) in *.
    rewrite B. destruct (icur2 it2) as [c|] eqn:EC; [|cbn [fst snd base base2 its its2]; auto].
    unfold move2. rewrite A. rewrite ?B, ?EC.
    destruct (imd it) as [|sn|], (imd2 it2) as [|sn2 [|]]; simpl in D; try tauto.
    + (* attached *)
      destruct (ifresh2 it2 && negb vb); [cbn [fst snd]; intros _ X; exfalso; apply X; reflexivity|].
      destruct (it_next (hp w) (getv w (iv2 it2)) (Some c)) as [[v' c']|];
        cbn [fst snd base base2 its its2]; auto.
      intros _ _. split; [reflexivity|].
      split; [f_equal; apply irel_obs; unfold irel; simpl; auto|].
      apply lrel_upd; [apply lrel_clear; auto|]. unfold irel; simpl; auto.
    + (* detached with a valid node *)
      subst sn2. destruct vb; [|cbn [fst snd]; intros _ X; exfalso; apply X; reflexivity].
      destruct (it_next_snap sn (hp w) (getv w (iv2 it2)) (Some c)) as [[v' c']|];
        cbn [fst snd base base2 its its2]; auto.
      intros _ _. split; [reflexivity|].
      split; [f_equal; apply irel_obs; unfold irel; simpl; auto|].
      apply lrel_upd; [apply lrel_clear; auto|]. unfold irel; simpl; auto.
      (* unknown: the old model makes no prediction: closed by tauto above *)
  - intros _ _. rewrite <- LL. destruct (Nat.ltb k (length l)); cbn [fst snd base base2 its its2]; auto.
    split; [reflexivity|]. split; [|auto]. f_equal. apply irel_obs. unfold geti, geti2. apply lrel_nth. auto.
Qed.

(* whole histories: as long as the old model predicts and the oracle is not
   contradicted, both models run in lock step *)
Fixpoint agree_run (wi : worldi) (wi2 : worldi2) (ops : list opi2) : Prop :=
  match ops with
  | [] => True
  | o :: r =>
      (fst (snd (step_it wi (erase2 o))) <> K_UNKNOWN -> fst (snd (step_it2 wi2 o)) <> K_BADORACLE ->
       snd (step_it wi (erase2 o)) = snd (step_it2 wi2 o) /\
       base (fst (step_it wi (erase2 o))) = base2 (fst (step_it2 wi2 o)) /\
       agree_run (fst (step_it wi (erase2 o))) (fst (step_it2 wi2 o)) r)
  end.

Lemma models_agree_run ops : forall wi wi2,
  WInv (base wi) -> base wi = base2 wi2 -> lrel (its wi) (its2 wi2) ->
  valid_it2 wi2 ops -> agree_run wi wi2 ops.
Proof.
  induction ops as [|o r IH]; intros wi wi2 HW E HL V; simpl; auto.
  destruct V as [V1 V2]. intros N1 N2.
  destruct (models_agree_step wi wi2 o HW E HL N1 N2) as (A & B & C).
  split; [auto|]. split; [auto|]. apply IH; auto.
  apply step_it_WInv; auto. apply (in_range_erase2 wi wi2 o E (lrel_length _ _ HL)). auto.
Qed.

Lemma models_agree_from_init ops : valid_it2 initi2 ops -> agree_run initi initi2 ops.
Proof.
  intro V. apply models_agree_run; [exact WInv_init|reflexivity|constructor|exact V].
Qed.

(* ---- 4. a NON-fresh iterator held across ReverseOrder: the two continuations ----
   v = [5,0(stored),6,_,_,8,_]; it := v.ConstIterator(); it.Next() skips (and
   deletes) key 1 and sits at 2: not fresh; v.ReverseOrder() gives
   [_,8,_,_,6,_,5] with index {1,4,6}; the old key list is {0,2,5}.
   vb = true  (node valid): Next walks the old keys: 5 reads as zero -> exhausted.
   vb = false (node invalid): Next re-finds in the new index: visits (4,6), (6,5). *)
Definition stale_pre : list opi2 :=
  [Base2 (New [0; 1; 2; 5] [5; 9; 6; 8] 7); Base2 (SetAt 0 1 0); ItBegin2 0; ItNext2 0 true; Base2 (ReverseOrder 0)].
Definition stale_valid_ops : list opi2 := stale_pre ++ [ItNext2 0 true; ItNext2 0 true].
Definition stale_invalid_ops : list opi2 := stale_pre ++ [ItNext2 0 false; ItNext2 0 true; ItNext2 0 true].

Lemma valid_it2_cons wi o r : in_range_it2 wi o -> valid_it2 (fst (step_it2 wi o)) r -> valid_it2 wi (o :: r).
Proof. simpl. auto. Qed.
Ltac vnorm := match goal with |- valid_it2 ?w ?r =>
  let w' := eval vm_compute in w in replace w with w' by (vm_compute; reflexivity) end.
Ltac vrange := simpl; unfold has, idx_ok; simpl; repeat split; try lia; repeat constructor; simpl; intuition lia.
Ltac vsteps := repeat (apply valid_it2_cons; [vrange|vnorm]); exact I.

Lemma stale_pre_valid : valid_it2 initi2 stale_pre.
Proof. unfold stale_pre. vsteps. Qed.
Lemma stale_valid_ops_valid : valid_it2 initi2 stale_valid_ops.
Proof. unfold stale_valid_ops, stale_pre. cbn [app]. vsteps. Qed.
Lemma stale_invalid_ops_valid : valid_it2 initi2 stale_invalid_ops.
Proof. unfold stale_invalid_ops, stale_pre. cbn [app]. vsteps. Qed.
