(* C11, sparse matrices — dense refinement, part 4 (model DenseMat.dmat):
   Map / MapSet (every entry is created and multiplied exactly once), the
   constructor NewSparseXMatrix (non-zero triples written in order), SwapRows and
   SwapColumns (a sequence of element swaps). *)
From Coq Require Import ZArith List Bool Lia Sorted.
From ADV Require Import C11.Model C11.Spec C11.Dense C11.ProofsMap C11.ProofsIter C11.ProofsInv C11.ProofsRef
                        C11.ProofsD1 C11.ProofsD2 C11.ProofsD3
                        C11.ModelMat C11.ProofsMatSpec C11.ProofsMat C11.ProofsMatRef C11.ProofsMatDense
                        C11.ProofsMatDense2 C11.ProofsMatDense3 C11.DenseMat.
Import ListNotations.
Open Scope Z_scope.

(* ---- the row-major position list has no duplicates; (i,j) |-> i*c+j is injective on it ---- *)
Lemma key_inj c i j i' j' : 0 <= j < c -> 0 <= j' < c -> i * c + j = i' * c + j' -> i = i' /\ j = j'.
Proof.
  intros Hj Hj' E. assert (i = i') by (destruct (Z.lt_trichotomy i i') as [L|[L|L]]; [nia|auto|nia]).
  subst i'. split; [reflexivity|lia].
Qed.
Lemma NoDup_zseq n : forall a, NoDup (zseq a n).
Proof.
  induction n as [|n IH]; intro a; simpl; constructor; [|apply IH].
  intro H. apply ProofsD1.In_zseq in H. lia.
Qed.
Lemma NoDup_app_disj {X} (l1 l2 : list X) :
  NoDup l1 -> NoDup l2 -> (forall x, In x l1 -> In x l2 -> False) -> NoDup (l1 ++ l2).
Proof.
  induction l1 as [|a l1 IH]; intros N1 N2 D; simpl; auto.
  inversion N1 as [|? ? Ha N1']; subst. constructor.
  - intro H. apply in_app_or in H. destruct H as [H|H]; [auto|]. apply (D a); [left; auto|auto].
  - apply IH; auto. intros x H1 H2. apply (D x); [right; auto|auto].
Qed.
Lemma NoDup_map_inj_in {X Y} (f : X -> Y) (l : list X) :
  (forall a b, In a l -> In b l -> f a = f b -> a = b) -> NoDup l -> NoDup (map f l).
Proof.
  induction l as [|a l IH]; intros Inj N; simpl; constructor.
  - inversion N as [|? ? Ha _]; subst. intro H. apply in_map_iff in H. destruct H as (b & E & Hb).
    apply Ha. rewrite (Inj a b); [auto|left; auto|right; auto|auto].
  - inversion N; subst. apply IH; auto. intros x y Hx Hy. apply Inj; right; auto.
Qed.
Lemma NoDup_rows (cs : list Z) n : forall a,
  NoDup cs -> NoDup (flat_map (fun i => map (fun j => (i, j)) cs) (zseq a n)).
Proof.
  induction n as [|n IH]; intros a Nc; simpl; [constructor|].
  apply NoDup_app_disj.
  - apply NoDup_map_inj_in; auto. intros x y _ _ E. inversion E. reflexivity.
  - apply IH. exact Nc.
  - intros [i j] H1 H2. apply in_map_iff in H1. destruct H1 as (j0 & E & _). inversion E. subst i j0.
    apply in_flat_map in H2. destruct H2 as (i0 & Hi & Hj). apply in_map_iff in Hj.
    destruct Hj as (j1 & E1 & _). inversion E1. subst i0 j1. apply ProofsD1.In_zseq in Hi. lia.
Qed.
Lemma NoDup_positions r c : NoDup (positions r c).
Proof. unfold positions. apply NoDup_rows. apply NoDup_zseq. Qed.
Lemma NoDup_position_keys r c : NoDup (map (fun p => fst p * c + snd p) (positions r c)).
Proof.
  apply NoDup_map_inj_in; [|apply NoDup_positions].
  intros [i j] [i' j'] H1 H2 E. apply In_positions in H1. apply In_positions in H2. cbn [fst snd] in E.
  destruct (key_inj c i j i' j') as [A B]; [lia|lia|exact E|]. subst. reflexivity.
Qed.

(* mp_fun applies f exactly once at the key of a listed position, nowhere else *)
Lemma mp_fun_notin f c ps : forall F k,
  ~ In k (map (fun p => fst p * c + snd p) ps) -> mp_fun f c ps F k = F k.
Proof.
  induction ps as [|[i j] ps IH]; intros F k Hn; cbn [mp_fun]; auto.
  cbn [map fst snd In] in Hn. rewrite IH by tauto.
  destruct (k =? i * c + j) eqn:E; auto. apply Z.eqb_eq in E. exfalso. apply Hn. left. auto.
Qed.
Lemma mp_fun_in f c ps : forall F k,
  NoDup (map (fun p => fst p * c + snd p) ps) -> In k (map (fun p => fst p * c + snd p) ps) ->
  mp_fun f c ps F k = f (F k).
Proof.
  induction ps as [|[i j] ps IH]; intros F k N Hin; cbn [mp_fun].
  { destruct Hin. }
  cbn [map fst snd] in N, Hin. inversion N as [|? ? Hn N']; subst.
  destruct (Z.eq_dec k (i * c + j)) as [->|Ne].
  - rewrite mp_fun_notin by exact Hn. rewrite Z.eqb_refl. reflexivity.
  - destruct Hin as [E|Hin]; [congruence|]. rewrite IH by auto.
    destruct (k =? i * c + j) eqn:E; auto. apply Z.eqb_eq in E. congruence.
Qed.

Lemma WrPost_MPost h m h' m' G : WrPost h m h' m' G -> MPost h m h' m'.
Proof. intros (A & B & C & D & E & F & H). unfold MPost.
  split; [exact A|split; [exact B|split; [exact C|split; [exact D|split; [exact F|exact H]]]]].
Qed.

(* ---- Map / MapSet ------------------------------------------------------------------------- *)
Lemma mmap_refines h m c : MInv m -> Wf h (mv m) ->
  exists h' m', map_list (fun x => x * c) (positions (mrows m) (mcols m)) h m = (h', m', true) /\
    mabsd h' m' = dm_scale c (mabsd h m) /\ MPost h m h' m'.
Proof.
  intros MI Wf0. pose proof MI as [I W].
  destruct (map_list (fun x => x * c) (positions (mrows m) (mcols m)) h m) as [[h' m'] ok] eqn:S.
  destruct (map_list_spec _ _ _ _ _ _ _ MI Wf0 S) as [T SP].
  assert (Ok : ok = true).
  { apply T. apply Forall_forall. intros [a b] Hin. apply In_positions in Hin. exact Hin. }
  subst ok. pose proof (SP eq_refl) as WP. destruct WP as (I2 & W2 & D2 & L2 & PK2 & FR2 & CL2).
  exists h', m'. split; [reflexivity|]. inversion D2 as [[Dr2 Dc2]].
  split; [|eapply WrPost_MPost; apply SP; reflexivity].
  unfold mabsd, dm_scale, dtab. cbn [dr dc de]. rewrite Dr2, Dc2. f_equal.
  rewrite (mabs_by_peek h' m' (fun i j => mget (mabs h m) i j * c)).
  - rewrite Dr2, Dc2. reflexivity.
  - intros i j P. assert (Pm : pos_ok m i j) by (unfold pos_ok in *; rewrite Dr2, Dc2 in P; auto).
    rewrite PK2, Dc2. rewrite mp_fun_in.
    + rewrite mget_mabs by exact Pm. reflexivity.
    + apply NoDup_position_keys.
    + apply in_map_iff. exists (i, j). split; [reflexivity|]. apply In_positions. exact Pm.
Qed.

(* ---- the constructor ------------------------------------------------------------------------ *)
Lemma key_eqb_rc c i j i' j' : 0 <= j < c -> 0 <= j' < c ->
  (i' * c + j' =? i * c + j) = (i' =? i) && (j' =? j).
Proof.
  intros Hj Hj'. destruct (i' * c + j' =? i * c + j) eqn:E.
  - apply Z.eqb_eq in E. destruct (key_inj c i' j' i j Hj' Hj E) as [A B]. subst. rewrite !Z.eqb_refl. reflexivity.
  - apply Z.eqb_neq in E. destruct (i' =? i) eqn:E1; destruct (j' =? j) eqn:E2; auto.
    apply Z.eqb_eq in E1, E2. subst. lia.
Qed.
Lemma dm_new_fold r c l : forall G,
  Forall (fun e => 0 <= fst (fst e) < r /\ 0 <= snd (fst e) < c) l ->
  fold_left (fun a (e : Z * Z * Z) => if snd e =? 0 then a else dm_set a (fst (fst e)) (snd (fst e)) (snd e))
            l (dtab r c (fun i j => G (i * c + j))) =
  dtab r c (fun i j => wr_fun c (filter (fun e => negb (snd e =? 0)) l) G (i * c + j)).
Proof.
  induction l as [|[[i j] x] l IH]; intros G FA; [reflexivity|].
  inversion FA as [|? ? Pe FA']; subst. cbn [fst snd] in Pe.
  cbn [fold_left filter fst snd]. destruct (x =? 0) eqn:Ex; cbn [negb].
  - apply IH. exact FA'.
  - cbn [wr_fun]. rewrite <- (IH (fun k => if k =? i * c + j then x else G k) FA'). f_equal.
    unfold dm_set, dtab. cbn [dr dc de]. f_equal. apply mtab_ext. intros i' j' Hi Hj.
    unfold del. cbn [de]. rewrite mget_mtab by lia. rewrite key_eqb_rc by lia. reflexivity.
Qed.
Lemma heap_ext_app (h : heap) : forall h' : heap,
  (length h <= length h')%nat -> (forall l, (l < length h)%nat -> hget h' l = hget h l) -> exists e, h' = h ++ e.
Proof.
  induction h as [|a h IH]; intros h' L H.
  - exists h'. reflexivity.
  - destruct h' as [|b h']; [simpl in L; lia|].
    assert (E : b = a) by (apply (H 0%nat); simpl; lia). subst b.
    destruct (IH h') as [e He].
    + simpl in L. lia.
    + intros l Hl. apply (H (S l)). simpl. lia.
    + exists e. rewrite He. reflexivity.
Qed.

Lemma new_mat_refines h ris cis xs r c :
  length ris = length cis -> length cis = length xs -> 0 <= r -> 0 <= c ->
  Forall (fun p => 0 <= fst p < r /\ 0 <= snd p < c) (combine ris cis) ->
  exists h' m', new_mat h ris cis xs r c = Some (h', m') /\ mabsd h' m' = dm_new ris cis xs r c /\
    MInv m' /\ Wf h' (mv m') /\ (exists e, h' = h ++ e) /\ (forall l, In l (mcells m') -> (length h <= l)%nat).
Proof.
  intros L1 L2 Hr Hc FA. unfold new_mat. rewrite L1, L2, !Nat.eqb_refl. cbn [negb orb].
  assert (FA3 : Forall (fun e : Z * Z * Z => 0 <= fst (fst e) < r /\ 0 <= snd (fst e) < c) (combine (combine ris cis) xs)).
  { apply Forall_forall. intros [p x] Hin. apply in_combine_l in Hin. rewrite Forall_forall in FA. apply FA. exact Hin. }
  set (es := filter (fun e : Z * Z * Z => negb (snd e =? 0)) (combine (combine ris cis) xs)).
  assert (MI0 : MInv (null_mat r c)) by (apply MInv_null; auto).
  assert (W0 : Wf h (mv (null_mat r c))) by apply Wf_nil.
  destruct (set_list es h (null_mat r c)) as [[h' m'] ok] eqn:S.
  destruct (set_list_spec _ _ _ _ _ _ MI0 W0 S) as [T SP].
  assert (Ok : ok = true).
  { apply T. apply Forall_forall. intros e Hin. unfold es in Hin. apply filter_In in Hin. destruct Hin as [Hin _].
    rewrite Forall_forall in FA3. apply FA3 in Hin. unfold pos_ok. cbn [null_mat mrows mcols]. exact Hin. }
  subst ok. destruct (SP eq_refl) as (I2 & W2 & D2 & Lh & PK2 & FR2 & CL2).
  exists h', m'. split; [reflexivity|]. inversion D2 as [[Dr2 Dc2]]. cbn [null_mat mrows mcols] in Dr2, Dc2.
  split; [|split; [exact I2|split; [exact W2|split]]].
  - unfold dm_new. rewrite ?Dr2, ?Dc2. etransitivity; [|symmetry; apply (dm_new_fold r c _ (fun _ => 0) FA3)].
    fold es. unfold mabsd, dtab. rewrite Dr2, Dc2. f_equal.
    rewrite (mabs_by_peek h' m' (fun i j => wr_fun c es (fun _ => 0) (i * c + j))).
    + rewrite Dr2, Dc2. reflexivity.
    + intros i j _. rewrite PK2, Dc2. cbn [null_mat mcols]. apply wr_fun_ext. intro k. reflexivity.
  - apply heap_ext_app; [exact Lh|]. intros l Hl. apply FR2; [exact Hl|]. cbn. auto.
  - intros l Hin. apply CL2 in Hin. destruct Hin as [Hin|Hin]; [destruct Hin|exact Hin].
Qed.

(* ---- SwapRows / SwapColumns ------------------------------------------------------------------ *)
Lemma In_cells_swap v i j l :
  NoDup (map fst (vals v)) -> (In l (cells_of (swap v i j)) <-> In l (cells_of v)).
Proof.
  intro ND. split; intro H.
  - apply In_cells_lookup in H; [|rewrite vals_swap; apply swap_vals_NoDup; exact ND].
    destruct H as [k L]. rewrite vals_swap, lookup_swap_vals in L. eapply ProofsD1.lookup_In_cells. exact L.
  - apply In_cells_lookup in H; [|exact ND]. destruct H as [k L].
    apply (ProofsD1.lookup_In_cells (tr i j k)). rewrite vals_swap, lookup_swap_vals, tr_invol. exact L.
Qed.
Lemma kmem_notin k l : ~ In k l -> kmem k l = false.
Proof. intro H. destruct (kmem k l) eqn:E; auto. apply kmem_In in E. tauto. Qed.

(* one Swap: everything the sequence lemmas need *)
Lemma mswap_step h m i1 j1 i2 j2 :
  MInv m -> Wf h (mv m) -> pos_ok m i1 j1 -> pos_ok m i2 j2 ->
  exists m', mswap m i1 j1 i2 j2 = Some m' /\ MInv m' /\ mdims m' = mdims m /\ Wf h (mv m') /\
    (forall l, In l (mcells m') <-> In l (mcells m)) /\
    (forall i j, pos_ok m i j ->
       mget (mabs h m') i j =
       if (i =? i1) && (j =? j1) then mget (mabs h m) i2 j2
       else if (i =? i2) && (j =? j2) then mget (mabs h m) i1 j1 else mget (mabs h m) i j).
Proof.
  intros MI Wf0 P1 P2. destruct (mswap_in_range_ok m i1 j1 i2 j2 P1 P2) as [m' E].
  exists m'. split; [exact E|]. destruct (mswap_MInv _ _ _ _ _ _ MI E) as [I' D'].
  split; [exact I'|split; [exact D'|]].
  assert (EM : exists k1 k2, m' = set_mv m (swap (mv m) k1 k2)).
  { unfold mswap in E. destruct (mindex m i1 j1) as [k1|]; [|discriminate].
    destruct (mindex m i2 j2) as [k2|]; [|discriminate]. inversion E. eauto. }
  destruct EM as (k1 & k2 & EM).
  split; [|split].
  - rewrite EM. cbn [mv set_mv]. apply Wf_swap. exact Wf0.
  - intro l. rewrite EM. unfold mcells. cbn [mv set_mv]. apply In_cells_swap. apply MI.
  - intros i j P. apply (mswap_refines h m i1 j1 i2 j2 m' i j MI E P).
Qed.

Lemma swap_seq_rows h i j ks : forall m,
  MInv m -> Wf h (mv m) -> 0 <= i < mrows m -> 0 <= j < mrows m ->
  Forall (fun k => 0 <= k < mcols m) ks -> NoDup ks ->
  exists m', swap_seq (map (fun k => (i, k, j, k)) ks) m = (m', true) /\
    MInv m' /\ mdims m' = mdims m /\ Wf h (mv m') /\
    (forall l, In l (mcells m') <-> In l (mcells m)) /\
    (forall i' j', pos_ok m i' j' ->
       mget (mabs h m') i' j' =
       if kmem j' ks
       then (if i' =? i then mget (mabs h m) j j' else if i' =? j then mget (mabs h m) i j' else mget (mabs h m) i' j')
       else mget (mabs h m) i' j').
Proof.
  induction ks as [|k ks IH]; intros m MI Wf0 Hi Hj FA ND.
  - exists m. cbn [map swap_seq kmem].
    split; [reflexivity|split; [exact MI|split; [reflexivity|split; [exact Wf0|split]]]].
    + intro l. tauto.
    + intros. reflexivity.
  - inversion FA as [|? ? Hk FA']; subst. inversion ND as [|? ? Hn ND']; subst.
    cbn [map swap_seq].
    destruct (mswap_step h m i k j k MI Wf0) as (m1 & E1 & I1 & D1 & W1 & C1 & R1).
    { unfold pos_ok. lia. } { unfold pos_ok. lia. }
    rewrite E1. inversion D1 as [[Dr Dc]].
    destruct (IH m1 I1 W1) as (m' & E & I' & D' & W' & C' & R').
    { lia. } { lia. } { rewrite Dc. exact FA'. } { exact ND'. }
    exists m'. split; [exact E|split; [exact I'|split; [congruence|split; [exact W'|split]]]].
    + intro l. rewrite C'. apply C1.
    + intros i' j' P. assert (P1 : pos_ok m1 i' j') by (unfold pos_ok in *; rewrite Dr, Dc; exact P).
      destruct P as [Pi Pj]. rewrite (R' i' j' P1).
      rewrite (R1 i' j'), (R1 i j'), (R1 j j') by (unfold pos_ok; lia).
      cbn [kmem]. destruct (k =? j') eqn:Ek.
      * apply Z.eqb_eq in Ek. subst j'. rewrite (kmem_notin k ks Hn). rewrite !Z.eqb_refl, !andb_true_r.
        cbn [orb]. reflexivity.
      * rewrite (Z.eqb_sym j' k), Ek, !andb_false_r. cbn [orb]. reflexivity.
Qed.

Lemma mswap_rows_refines h m i j : MInv m -> Wf h (mv m) ->
  (mrows m = mcols m -> 0 < mrows m -> 0 <= i < mrows m /\ 0 <= j < mrows m) ->
  exists m', mswap_rows m i j = (m', if mrows m =? mcols m then K_OK else K_ERR) /\
    mabsd h m' = dm_swap_rows (mabsd h m) i j /\ MInv m' /\ Wf h (mv m') /\
    (forall l, In l (mcells m') <-> In l (mcells m)).
Proof.
  intros MI Wf0 Hr. pose proof MI as [I W]. pose proof W as (H1 & H2 & _).
  unfold mswap_rows, dm_swap_rows. cbn [mabsd dr dc]. destruct (mrows m =? mcols m) eqn:Sq; cbn [negb].
  - apply Z.eqb_eq in Sq. destruct (Z.eq_dec (mrows m) 0) as [Z0|NZ].
    + assert (Zc : Z.to_nat (mcols m) = O) by lia. rewrite Zc. cbn [zseq map swap_seq].
      exists m. split; [reflexivity|split; [|split; [exact MI|split; [exact Wf0|intro l; tauto]]]].
      unfold mabsd, dtab. f_equal. rewrite mabs_mtab. apply mtab_ext. intros; lia.
    + destruct Hr as [Hi Hj]; [exact Sq|lia|].
      destruct (swap_seq_rows h i j (zseq 0 (Z.to_nat (mcols m))) m MI Wf0 Hi Hj) as (m' & E & I' & D' & W' & C' & R').
      { apply Forall_forall. intros k Hk. apply ProofsD1.In_zseq in Hk. lia. }
      { apply NoDup_zseq. }
      rewrite E. exists m'. split; [reflexivity|split; [|split; [exact I'|split; [exact W'|exact C']]]].
      inversion D' as [[Dr Dc]]. unfold mabsd, dtab. rewrite Dr, Dc. f_equal.
      rewrite (mabs_by_peek h m' (fun i' j' => if i' =? i then mget (mabs h m) j j'
                                              else if i' =? j then mget (mabs h m) i j' else mget (mabs h m) i' j')).
      * rewrite Dr, Dc. reflexivity.
      * intros i' j' P'. rewrite <- mget_mabs by exact P'.
        assert (P : pos_ok m i' j') by (unfold pos_ok in *; rewrite Dr, Dc in P'; exact P').
        rewrite (R' i' j' P).
        assert (KM : kmem j' (zseq 0 (Z.to_nat (mcols m))) = true).
        { apply kmem_In. apply ProofsD1.In_zseq. destruct P. lia. }
        rewrite KM. reflexivity.
  - exists m. split; [reflexivity|split; [reflexivity|split; [exact MI|split; [exact Wf0|intro l; tauto]]]].
Qed.

Lemma swap_seq_cols h i j ks : forall m,
  MInv m -> Wf h (mv m) -> 0 <= i < mcols m -> 0 <= j < mcols m ->
  Forall (fun k => 0 <= k < mrows m) ks -> NoDup ks ->
  exists m', swap_seq (map (fun k => (k, i, k, j)) ks) m = (m', true) /\
    MInv m' /\ mdims m' = mdims m /\ Wf h (mv m') /\
    (forall l, In l (mcells m') <-> In l (mcells m)) /\
    (forall i' j', pos_ok m i' j' ->
       mget (mabs h m') i' j' =
       if kmem i' ks
       then (if j' =? i then mget (mabs h m) i' j else if j' =? j then mget (mabs h m) i' i else mget (mabs h m) i' j')
       else mget (mabs h m) i' j').
Proof.
  induction ks as [|k ks IH]; intros m MI Wf0 Hi Hj FA ND.
  - exists m. cbn [map swap_seq kmem].
    split; [reflexivity|split; [exact MI|split; [reflexivity|split; [exact Wf0|split]]]].
    + intro l. tauto.
    + intros. reflexivity.
  - inversion FA as [|? ? Hk FA']; subst. inversion ND as [|? ? Hn ND']; subst.
    cbn [map swap_seq].
    destruct (mswap_step h m k i k j MI Wf0) as (m1 & E1 & I1 & D1 & W1 & C1 & R1).
    { unfold pos_ok. lia. } { unfold pos_ok. lia. }
    rewrite E1. inversion D1 as [[Dr Dc]].
    destruct (IH m1 I1 W1) as (m' & E & I' & D' & W' & C' & R').
    { lia. } { lia. } { rewrite Dr. exact FA'. } { exact ND'. }
    exists m'. split; [exact E|split; [exact I'|split; [congruence|split; [exact W'|split]]]].
    + intro l. rewrite C'. apply C1.
    + intros i' j' P. assert (P1 : pos_ok m1 i' j') by (unfold pos_ok in *; rewrite Dr, Dc; exact P).
      destruct P as [Pi Pj]. rewrite (R' i' j' P1).
      rewrite (R1 i' j'), (R1 i' i), (R1 i' j) by (unfold pos_ok; lia).
      cbn [kmem]. destruct (k =? i') eqn:Ek.
      * apply Z.eqb_eq in Ek. subst i'. rewrite (kmem_notin k ks Hn). rewrite !Z.eqb_refl.
        cbn [orb andb]. reflexivity.
      * rewrite (Z.eqb_sym i' k), Ek. cbn [orb andb]. reflexivity.
Qed.

Lemma mswap_cols_refines h m i j : MInv m -> Wf h (mv m) ->
  (mrows m = mcols m -> 0 < mrows m -> 0 <= i < mrows m /\ 0 <= j < mrows m) ->
  exists m', mswap_cols m i j = (m', if mrows m =? mcols m then K_OK else K_ERR) /\
    mabsd h m' = dm_swap_cols (mabsd h m) i j /\ MInv m' /\ Wf h (mv m') /\
    (forall l, In l (mcells m') <-> In l (mcells m)).
Proof.
  intros MI Wf0 Hr. pose proof MI as [I W]. pose proof W as (H1 & H2 & _).
  unfold mswap_cols, dm_swap_cols. cbn [mabsd dr dc]. destruct (mrows m =? mcols m) eqn:Sq; cbn [negb].
  - apply Z.eqb_eq in Sq. destruct (Z.eq_dec (mrows m) 0) as [Z0|NZ].
    + assert (Zc : Z.to_nat (mrows m) = O) by lia. rewrite Zc. cbn [zseq map swap_seq].
      exists m. split; [reflexivity|split; [|split; [exact MI|split; [exact Wf0|intro l; tauto]]]].
      unfold mabsd, dtab. f_equal. rewrite mabs_mtab. apply mtab_ext. intros; lia.
    + destruct Hr as [Hi Hj]; [exact Sq|lia|].
      destruct (swap_seq_cols h i j (zseq 0 (Z.to_nat (mrows m))) m MI Wf0) as (m' & E & I' & D' & W' & C' & R').
      { lia. } { lia. }
      { apply Forall_forall. intros k Hk. apply ProofsD1.In_zseq in Hk. lia. }
      { apply NoDup_zseq. }
      rewrite E. exists m'. split; [reflexivity|split; [|split; [exact I'|split; [exact W'|exact C']]]].
      inversion D' as [[Dr Dc]]. unfold mabsd, dtab. rewrite Dr, Dc. f_equal.
      rewrite (mabs_by_peek h m' (fun i' j' => if j' =? i then mget (mabs h m) i' j
                                              else if j' =? j then mget (mabs h m) i' i else mget (mabs h m) i' j')).
      * rewrite Dr, Dc. reflexivity.
      * intros i' j' P'. rewrite <- mget_mabs by exact P'.
        assert (P : pos_ok m i' j') by (unfold pos_ok in *; rewrite Dr, Dc in P'; exact P').
        rewrite (R' i' j' P).
        assert (KM : kmem i' (zseq 0 (Z.to_nat (mrows m))) = true).
        { apply kmem_In. apply ProofsD1.In_zseq. destruct P. lia. }
        rewrite KM. reflexivity.
  - exists m. split; [reflexivity|split; [reflexivity|split; [exact MI|split; [exact Wf0|intro l; tauto]]]].
Qed.
