(* C11 — dense refinement, part 1: list / heap infrastructure, well-formedness
   basics, and the vector-level equations of At, Set-at, Reset, Map, ReverseOrder,
   Swap, Permute (including its error exits). *)
From Coq Require Import ZArith List Bool Lia Sorted.
From ADV Require Import C11.Model C11.Spec C11.Dense C11.ProofsMap C11.ProofsIter C11.ProofsInv C11.ProofsRef.
Import ListNotations.
Open Scope Z_scope.

(* ---- lists ------------------------------------------------------------------ *)
Lemma list_ext (a b : list Z) :
  length a = length b -> (forall i, (i < length a)%nat -> nth i a 0 = nth i b 0) -> a = b.
Proof.
  revert b. induction a as [|x a IH]; intros [|y b] L H; simpl in *; try discriminate; auto.
  f_equal.
  - apply (H O). lia.
  - apply IH; [lia|]. intros i Hi. apply (H (S i)). lia.
Qed.
Lemma In_zseq n : forall a k, In k (zseq a n) <-> a <= k < a + Z.of_nat n.
Proof.
  induction n as [|n IH]; intros a k; simpl zseq.
  - simpl. lia.
  - simpl In. rewrite IH. lia.
Qed.
(* the workhorse: a vector stands for the list l *)
Lemma abs_eq_by_nth h v (l : list Z) :
  0 <= dim v -> Z.of_nat (length l) = dim v ->
  (forall k, 0 <= k < dim v -> peek h v k = nth (Z.to_nat k) l 0) -> abs h v = l.
Proof.
  intros Hd Hl H. apply list_ext.
  - apply Nat2Z.inj. rewrite abs_length; auto.
  - intros i Hi. assert (Z.of_nat i < dim v) by (rewrite <- (abs_length h v Hd); lia).
    replace i with (Z.to_nat (Z.of_nat i)) by lia. rewrite abs_nth by lia. apply H. lia.
Qed.
Lemma abs_ext h v h' v' :
  dim v' = dim v -> (forall k, 0 <= k < dim v -> peek h' v' k = peek h v k) -> abs h' v' = abs h v.
Proof.
  intros Hd H. unfold abs, abs_vec. rewrite Hd. apply map_ext_in. intros k Hk.
  apply In_zseq in Hk. apply H. lia.
Qed.
Lemma nth_firstn_lt {X} (l : list X) : forall n i d, (i < n)%nat -> nth i (firstn n l) d = nth i l d.
Proof. induction l as [|x l IH]; intros [|n] [|i] d H; simpl; auto; try lia. apply IH. lia. Qed.
Lemma nth_skipn_add {X} (l : list X) : forall n i d, nth i (skipn n l) d = nth (n + i) l d.
Proof. induction l as [|x l IH]; intros [|n] i d; simpl; auto. destruct i; auto. Qed.
Lemma map_upd_ext {A B} (f g : A -> B) (l : list A) d : forall t,
  (t < length l)%nat ->
  (forall u, (u < length l)%nat -> u <> t -> f (nth u l d) = g (nth u l d)) ->
  map f l = upd t (f (nth t l d)) (map g l).
Proof.
  induction l as [|a l IH]; intros t Ht H; simpl in *; [lia|].
  destruct t as [|t]; simpl.
  - f_equal. apply map_ext_in. intros x Hx. apply In_nth with (d := d) in Hx.
    destruct Hx as (u & Hu & <-). apply (H (S u)); lia.
  - f_equal.
    + apply (H O); lia.
    + apply IH; [lia|]. intros u Hu Hn. apply (H (S u)); lia.
Qed.
Lemma map_upd {A B} (f : A -> B) (l : list A) : forall t x, map f (upd t x l) = upd t (f x) (map f l).
Proof. induction l as [|a l IH]; intros [|t] x; simpl; auto. f_equal. apply IH. Qed.
Lemma upd_same {X} (l : list X) d : forall t, upd t (nth t l d) l = l.
Proof. induction l as [|a l IH]; intros [|t]; simpl; auto. f_equal. apply IH. Qed.
Lemma nth_upd {X} n m (x d : X) l :
  nth m (upd n x l) d = if Nat.eqb n m then (if Nat.ltb n (length l) then x else d) else nth m l d.
Proof.
  revert n m. induction l as [|a l IH]; intros [|n] [|m]; simpl; auto.
  - destruct (Nat.eqb n m); auto.
  - rewrite IH. destruct (Nat.eqb n m); auto.
Qed.

(* ---- dense swap ------------------------------------------------------------------ *)
Lemma dswap_length l i j : length (dswap l i j) = length l.
Proof. unfold dswap. rewrite !upd_length. auto. Qed.
Lemma nth_dswap l i j k :
  0 <= i < Z.of_nat (length l) -> 0 <= j < Z.of_nat (length l) -> 0 <= k ->
  nth (Z.to_nat k) (dswap l i j) 0 =
  if k =? i then nth (Z.to_nat j) l 0 else if k =? j then nth (Z.to_nat i) l 0 else nth (Z.to_nat k) l 0.
Proof.
  intros Hi Hj Hk. unfold dswap.
  destruct (k =? j) eqn:E2.
  - apply Z.eqb_eq in E2. subst k. rewrite nth_upd_eq by (rewrite upd_length; lia).
    destruct (j =? i) eqn:E1; auto. apply Z.eqb_eq in E1. subst. auto.
  - apply Z.eqb_neq in E2. rewrite nth_upd_neq by lia.
    destruct (k =? i) eqn:E1.
    + apply Z.eqb_eq in E1. subst k. rewrite nth_upd_eq by lia. auto.
    + apply Z.eqb_neq in E1. rewrite nth_upd_neq by lia. auto.
Qed.

(* ---- heap frames ------------------------------------------------------------------ *)
Definition vpeek (h : heap) (m : vmap) (k : Z) : Z :=
  match lookup k m with Some l => hget h l | None => 0 end.
Lemma peek_vpeek h v k : peek h v k = vpeek h (vals v) k.
Proof. auto. Qed.
Lemma peek_frame h h' v :
  (forall k l, lookup k (vals v) = Some l -> hget h' l = hget h l) -> forall k, peek h' v k = peek h v k.
Proof. intros H k. unfold peek. destruct (lookup k (vals v)) eqn:L; auto. eapply H; eauto. Qed.
Lemma hget_app h e l : (l < length h)%nat -> hget (h ++ e) l = hget h l.
Proof. intro H. unfold hget. apply app_nth1. auto. Qed.
Lemma peek_app h e v : Wf h v -> forall k, peek (h ++ e) v k = peek h v k.
Proof. intros [W _]. apply peek_frame. intros k l L. apply hget_app. eauto. Qed.
Lemma Wf_mono h h' v : (length h <= length h')%nat -> Wf h v -> Wf h' v.
Proof.
  intros L [W1 W2]. split; auto. intros k l Hl. specialize (W1 k l Hl). lia.
Qed.
Lemma Wf_nil h n : Wf h (nil_vec n).
Proof. split; simpl; intros; discriminate. Qed.

Lemma lookup_In_cells k l v : lookup k (vals v) = Some l -> In l (cells_of v).
Proof. intro H. apply lookup_In_pair in H. unfold cells_of. change l with (snd (k, l)). apply in_map. auto. Qed.
Lemma In_cells_lookup l v : In l (cells_of v) -> NoDup (map fst (vals v)) -> exists k, lookup k (vals v) = Some l.
Proof.
  unfold cells_of. intros H ND. apply in_map_iff in H. destruct H as ([k l'] & E & Hin). simpl in E. subst l'.
  exists k. apply In_pair_lookup; auto.
Qed.
Lemma Wf_NoDup_cells h v : NoDup (map fst (vals v)) -> Wf h v -> NoDup (cells_of v).
Proof.
  intros ND [_ W2]. unfold cells_of. revert ND W2. generalize (vals v). intro m.
  induction m as [|[k l] r IH]; simpl; intros ND W2; [constructor|].
  inversion ND as [|? ? Hn ND']; subst. constructor.
  - intro Hin. apply in_map_iff in Hin. destruct Hin as ([k' l'] & E & Hin). simpl in E. subst l'.
    assert (k = k').
    { apply (W2 k k' l).
      - rewrite Z.eqb_refl. auto.
      - destruct (k =? k') eqn:E; auto. apply In_pair_lookup; auto. }
    subst k'. apply Hn. change k with (fst (k, l)). apply in_map. auto.
  - apply IH; auto. intros k1 k2 l0 H1 H2.
    assert (N1 : k <> k1) by (intro; subst; apply Hn; eapply lookup_In_keys; eauto).
    assert (N2 : k <> k2) by (intro; subst; apply Hn; eapply lookup_In_keys; eauto).
    apply (W2 k1 k2 l0).
    + destruct (k =? k1) eqn:E; [apply Z.eqb_eq in E; lia|auto].
    + destruct (k =? k2) eqn:E; [apply Z.eqb_eq in E; lia|auto].
Qed.

(* a vector whose lookups come from another one through an injective key map *)
Lemma Wf_by_lookup h v v' (g : Z -> Z) :
  Wf h v ->
  (forall k l, lookup k (vals v') = Some l -> lookup (g k) (vals v) = Some l) ->
  (forall a b, g a = g b -> a = b) -> Wf h v'.
Proof.
  intros [W1 W2] H G. split.
  - intros k l Hl. eapply W1. eauto.
  - intros k1 k2 l H1 H2. apply G. eapply W2; eauto.
Qed.

(* ---- At / Set-at ------------------------------------------------------------------ *)
Lemma at_peek h v i h' v' l :
  Wf h v -> at_ h v i = Some (h', v', l) -> forall k, peek h' v' k = peek h v k.
Proof.
  intros W. unfold at_. destruct (in_bounds v i); [|discriminate].
  destruct (lookup i (vals v)) as [l0|] eqn:L.
  - intro E. inversion E. subst. auto.
  - simpl. intros E k. inversion E. subst h' v' l. clear E. unfold peek. cbn [vals].
    rewrite lookup_insert. destruct (i =? k) eqn:E1.
    + apply Z.eqb_eq in E1. subst k. rewrite L. unfold hget. rewrite app_nth2 by lia.
      rewrite Nat.sub_diag. auto.
    + destruct (lookup k (vals v)) as [lk|] eqn:Lk; auto. apply hget_app. destruct W as [W1 _]. eauto.
Qed.
Lemma at_shape h v i h' v' l :
  at_ h v i = Some (h', v', l) ->
  (h' = h /\ v' = v /\ lookup i (vals v) = Some l) \/
  (h' = h ++ [0] /\ l = length h /\ lookup i (vals v) = None /\
   v' = {| vals := insert i l (vals v); idx := kins i (idx v); dim := dim v |}).
Proof.
  unfold at_. destruct (in_bounds v i); [|discriminate].
  destruct (lookup i (vals v)) as [l0|] eqn:L.
  - intro E. inversion E. subst. auto.
  - simpl. intro E. inversion E. subst. right. auto.
Qed.
Lemma Wf_at h v i h' v' l : Wf h v -> at_ h v i = Some (h', v', l) -> Wf h' v' /\ (length h <= length h')%nat /\ (l < length h')%nat /\ lookup i (vals v') = Some l.
Proof.
  intros W A. destruct (at_shape _ _ _ _ _ _ A) as [(-> & -> & L)|(-> & -> & L & ->)].
  - repeat split; auto; try apply W. destruct W as [W1 _]. eauto.
  - rewrite app_length. simpl. destruct W as [W1 W2]. repeat split; try lia.
    + cbn [vals]. intros k l. rewrite lookup_insert. destruct (i =? k).
      * intro E. inversion E. rewrite app_length. simpl. lia.
      * intro E. apply W1 in E. rewrite app_length. lia.
    + cbn [vals]. intros k1 k2 l. rewrite !lookup_insert.
      destruct (i =? k1) eqn:E1; destruct (i =? k2) eqn:E2; intros H1 H2.
      * apply Z.eqb_eq in E1, E2. lia.
      * inversion H1. subst l. apply W1 in H2. lia.
      * inversion H2. subst l. apply W1 in H1. lia.
      * eapply W2; eauto.
    + cbn [vals]. apply lookup_insert_eq.
Qed.
Lemma set_at_abs h v i x h' v' l :
  Inv v -> Wf h v -> at_ h v i = Some (h', v', l) -> 0 <= i ->
  abs (hset h' l x) v' = upd (Z.to_nat i) x (abs h v).
Proof.
  intros I W A Hi. assert (Dv : dim v' = dim v) by (eapply dim_at; eauto).
  assert (D0 : 0 <= dim v) by apply I.
  apply abs_eq_by_nth; rewrite ?Dv; auto.
  - rewrite upd_length. apply abs_length; auto.
  - intros k Hk. rewrite (peek_set_at h v i x h' v' l k I W A).
    destruct (k =? i) eqn:E.
    + apply Z.eqb_eq in E. subst. rewrite nth_upd_eq; auto.
      assert (B : in_bounds v i = true).
      { unfold at_ in A. destruct (in_bounds v i); [auto|discriminate]. }
      pose proof (abs_length h v D0). lia.
    + apply Z.eqb_neq in E. rewrite nth_upd_neq by lia. rewrite abs_nth; auto.
Qed.

(* ---- Reset / Map: every stored cell is rewritten once ------------------------------ *)
Lemma hget_fold_cells (f : Z -> Z) (m : vmap) : forall h,
  NoDup (map snd m) -> (forall kv, In kv m -> (snd kv < length h)%nat) ->
  let h' := fold_left (fun h' kv => hset h' (snd kv) (f (hget h' (snd kv)))) m h in
  length h' = length h /\
  forall l, hget h' l = if memb l (map snd m) then f (hget h l) else hget h l.
Proof.
  induction m as [|[k c] r IH]; intros h ND AL; simpl.
  - split; auto.
  - inversion ND as [|? ? Hn ND']; subst.
    set (h1 := hset h c (f (hget h c))).
    assert (L1 : length h1 = length h) by apply hset_length.
    destruct (IH h1 ND') as [LL HH].
    { intros kv Hin. rewrite L1. apply AL. right. auto. }
    split; [rewrite LL; auto|]. intro l. rewrite HH.
    unfold memb. simpl. destruct (Nat.eqb l c) eqn:E.
    + apply Nat.eqb_eq in E. subst l. simpl.
      assert (M : existsb (Nat.eqb c) (map snd r) = false).
      { destruct (existsb (Nat.eqb c) (map snd r)) eqn:X; auto.
        apply existsb_exists in X. destruct X as (y & Hy & Ey). apply Nat.eqb_eq in Ey. subst y. tauto. }
      rewrite M. unfold h1. apply hget_hset_eq. apply (AL (k, c)). left. auto.
    + simpl. apply Nat.eqb_neq in E. unfold h1.
      destruct (existsb (Nat.eqb l) (map snd r)); rewrite hget_hset_neq; auto.
Qed.
Lemma memb_In l ls : memb l ls = true <-> In l ls.
Proof.
  unfold memb. rewrite existsb_exists. split.
  - intros (y & Hy & E). apply Nat.eqb_eq in E. subst. auto.
  - intro H. exists l. split; auto. apply Nat.eqb_refl.
Qed.
Lemma map_cells_spec f h v :
  Inv v -> Wf h v ->
  length (map_cells f h v) = length h /\
  (forall l, hget (map_cells f h v) l = if memb l (cells_of v) then f (hget h l) else hget h l).
Proof.
  intros I W. unfold map_cells. apply hget_fold_cells.
  - apply (Wf_NoDup_cells h); auto. apply I.
  - intros [k c] Hin. simpl. destruct W as [W1 _]. apply (W1 k). apply In_pair_lookup; auto. apply I.
Qed.
Lemma reset_is_map h v : reset h v = map_cells (fun _ => 0) h v.
Proof. reflexivity. Qed.
Lemma map_cells_abs f h v :
  Inv v -> Wf h v -> f 0 = 0 -> abs (map_cells f h v) v = map f (abs h v).
Proof.
  intros I W F0. destruct (map_cells_spec f h v I W) as [_ HH].
  assert (D0 : 0 <= dim v) by apply I.
  apply abs_eq_by_nth; auto.
  - rewrite map_length. apply abs_length; auto.
  - intros k Hk.
    replace (nth (Z.to_nat k) (map f (abs h v)) 0) with (nth (Z.to_nat k) (map f (abs h v)) (f 0))
      by (rewrite F0; auto).
    rewrite map_nth. rewrite abs_nth; auto. unfold peek.
    destruct (lookup k (vals v)) as [l|] eqn:L; [|auto].
    rewrite HH. assert (M : memb l (cells_of v) = true) by (apply memb_In; eapply lookup_In_cells; eauto).
    rewrite M. auto.
Qed.
(* the cells of the OTHER vectors are untouched *)
Lemma map_cells_frame f h v l : Inv v -> Wf h v -> ~ In l (cells_of v) -> hget (map_cells f h v) l = hget h l.
Proof.
  intros I W N. destruct (map_cells_spec f h v I W) as [_ HH]. rewrite HH.
  destruct (memb l (cells_of v)) eqn:M; auto. apply memb_In in M. tauto.
Qed.

(* ---- ReverseOrder ------------------------------------------------------------------ *)
Lemma lookup_fold_rev n es : forall m0 k', NoDup (map fst es) ->
  lookup k' (fold_left (fun m kv => insert (n - fst kv - 1) (snd kv) m) es m0) =
  match lookup (n - 1 - k') es with Some l => Some l | None => lookup k' m0 end.
Proof.
  induction es as [|[k l] r IH]; intros m0 k' ND; simpl; auto.
  inversion ND as [|? ? Hn ND']; subst. rewrite IH by auto.
  destruct (k =? n - 1 - k') eqn:E.
  - apply Z.eqb_eq in E.
    assert (lookup (n - 1 - k') r = None) as ->.
    { destruct (lookup (n - 1 - k') r) eqn:L; auto. apply lookup_In_keys in L. rewrite <- E in L. tauto. }
    replace (n - k - 1) with k' by lia. apply lookup_insert_eq.
  - apply Z.eqb_neq in E. destruct (lookup (n - 1 - k') r); auto. apply lookup_insert_neq. lia.
Qed.
Lemma lookup_reverse_order v k : Inv v -> lookup k (vals (reverse_order v)) = lookup (dim v - 1 - k) (vals v).
Proof.
  intro I. unfold reverse_order. cbn [vals]. rewrite lookup_fold_rev by apply I.
  destruct (lookup (dim v - 1 - k) (vals v)); auto.
Qed.
Lemma reverse_order_abs h v : Inv v -> abs h (reverse_order v) = rev (abs h v).
Proof.
  intro I. assert (D0 : 0 <= dim v) by apply I.
  assert (L : Z.of_nat (length (abs h v)) = dim v) by (apply abs_length; auto).
  apply abs_eq_by_nth; cbn [reverse_order dim]; auto.
  - rewrite rev_length. auto.
  - intros k Hk. rewrite rev_nth by lia. unfold peek. rewrite lookup_reverse_order by auto.
    replace (length (abs h v) - S (Z.to_nat k))%nat with (Z.to_nat (dim v - 1 - k)) by lia.
    rewrite abs_nth by lia. auto.
Qed.
Lemma Wf_reverse_order h v : Inv v -> Wf h v -> Wf h (reverse_order v).
Proof.
  intros I W. apply (Wf_by_lookup h v _ (fun k => dim v - 1 - k)); auto.
  - intros k l. rewrite lookup_reverse_order; auto.
  - intros a b. lia.
Qed.

(* ---- Swap / Permute: the value map is composed with a transposition ----------------- *)
Definition tr (i p k : Z) : Z := if k =? i then p else if k =? p then i else k.
Lemma tr_invol i p k : tr i p (tr i p k) = k.
Proof.
  unfold tr. destruct (k =? i) eqn:E1.
  - apply Z.eqb_eq in E1. subst. destruct (p =? i) eqn:E2.
    + apply Z.eqb_eq in E2. auto.
    + rewrite Z.eqb_refl. auto.
  - destruct (k =? p) eqn:E2.
    + apply Z.eqb_eq in E2. subst. rewrite Z.eqb_refl. auto.
    + rewrite E1, E2. auto.
Qed.
Lemma tr_inj i p a b : tr i p a = tr i p b -> a = b.
Proof. intro H. rewrite <- (tr_invol i p a), <- (tr_invol i p b). congruence. Qed.
Lemma lookup_swap_vals m i p k : lookup k (swap_vals m i p) = lookup (tr i p k) m.
Proof.
  unfold swap_vals, tr.
  destruct (lookup i m) as [l1|] eqn:L1; destruct (lookup p m) as [l2|] eqn:L2.
  - rewrite !lookup_insert. rewrite (Z.eqb_sym p k), (Z.eqb_sym i k).
    destruct (k =? p) eqn:E2; destruct (k =? i) eqn:E1; auto;
      try (apply Z.eqb_eq in E1); try (apply Z.eqb_eq in E2); subst; congruence.
  - rewrite lookup_remove, lookup_insert. rewrite (Z.eqb_sym p k), (Z.eqb_sym i k).
    destruct (k =? i) eqn:E1; destruct (k =? p) eqn:E2; auto;
      try (apply Z.eqb_eq in E1); try (apply Z.eqb_eq in E2); subst; congruence.
  - rewrite lookup_remove, lookup_insert. rewrite (Z.eqb_sym p k), (Z.eqb_sym i k).
    destruct (k =? p) eqn:E2; destruct (k =? i) eqn:E1; auto;
      try (apply Z.eqb_eq in E1); try (apply Z.eqb_eq in E2); subst; congruence.
  - destruct (k =? i) eqn:E1; [apply Z.eqb_eq in E1; subst; congruence|].
    destruct (k =? p) eqn:E2; [apply Z.eqb_eq in E2; subst; congruence|]. auto.
Qed.
Lemma vals_swap v i j : vals (swap v i j) = swap_vals (vals v) i j.
Proof.
  unfold swap, swap_vals. destruct (lookup i (vals v)); destruct (lookup j (vals v)); auto.
Qed.
Lemma Wf_swap h v i j : Wf h v -> Wf h (swap v i j).
Proof.
  intro W. apply (Wf_by_lookup h v _ (tr i j)); auto.
  - intros k l. rewrite vals_swap, lookup_swap_vals. auto.
  - apply tr_inj.
Qed.
Lemma swap_abs h v i j : Inv v -> idx_ok v i -> idx_ok v j -> abs h (swap v i j) = dswap (abs h v) i j.
Proof.
  intros I Hi Hj. assert (D0 : 0 <= dim v) by apply I.
  assert (L : Z.of_nat (length (abs h v)) = dim v) by (apply abs_length; auto).
  unfold idx_ok in *.
  apply abs_eq_by_nth; rewrite ?dim_swap; auto.
  - rewrite dswap_length. auto.
  - intros k Hk. rewrite peek_swap by auto. rewrite nth_dswap by lia. rewrite !abs_nth by lia. auto.
Qed.

Lemma vpeek_swap_vals h m i p k : vpeek h (swap_vals m i p) k = vpeek h m (tr i p k).
Proof. unfold vpeek. rewrite lookup_swap_vals. auto. Qed.
Lemma permute_loop_dense h n pi : forall i m l,
  0 <= i -> Z.of_nat (length l) = n ->
  (forall k, 0 <= k < n -> vpeek h m k = nth (Z.to_nat k) l 0) ->
  forall k, 0 <= k < n -> vpeek h (fst (permute_loop n pi i m)) k = nth (Z.to_nat k) (dperm_loop n pi i l) 0.
Proof.
  induction pi as [|p r IH]; intros i m l Hi Hl H k Hk; simpl; auto.
  destruct ((p <? 0) || (n <=? p)) eqn:C; simpl; auto.
  apply orb_false_iff in C. destruct C as [C1 C2]. apply Z.ltb_ge in C1. apply Z.leb_gt in C2.
  destruct (i <? p) eqn:E.
  - apply Z.ltb_lt in E. apply IH; auto; try lia.
    + rewrite dswap_length. auto.
    + intros k0 Hk0. rewrite vpeek_swap_vals. rewrite nth_dswap by lia. unfold tr.
      destruct (k0 =? i); [apply H; lia|]. destruct (k0 =? p); apply H; lia.
  - apply IH; auto. lia.
Qed.
Lemma permute_loop_Wf (h : heap) n pi : forall i m,
  (forall k l, lookup k m = Some l -> (l < length h)%nat) ->
  (forall k1 k2 l, lookup k1 m = Some l -> lookup k2 m = Some l -> k1 = k2) ->
  let m' := fst (permute_loop n pi i m) in
  (forall k l, lookup k m' = Some l -> (l < length h)%nat) /\
  (forall k1 k2 l, lookup k1 m' = Some l -> lookup k2 m' = Some l -> k1 = k2).
Proof.
  induction pi as [|p r IH]; intros i m W1 W2; simpl; auto.
  destruct ((p <? 0) || (n <=? p)); simpl; auto.
  destruct (i <? p); [|apply IH; auto].
  apply IH.
  - intros k l. rewrite lookup_swap_vals. apply W1.
  - intros k1 k2 l. rewrite !lookup_swap_vals. intros H1 H2. apply (tr_inj i p). eapply W2; eauto.
Qed.
Lemma vals_permute v pi :
  vals (fst (permute v pi)) =
  if negb (Z.of_nat (length pi) =? dim v) then vals v else fst (permute_loop (dim v) pi 0 (vals v)).
Proof.
  unfold permute. destruct (negb (Z.of_nat (length pi) =? dim v)); auto.
  destruct (permute_loop (dim v) pi 0 (vals v)) as [m ok]. destruct ok; auto.
Qed.
Lemma dim_permute v pi : dim (fst (permute v pi)) = dim v.
Proof.
  unfold permute. destruct (negb (Z.of_nat (length pi) =? dim v)); auto.
  destruct (permute_loop (dim v) pi 0 (vals v)) as [m ok]. destruct ok; auto.
Qed.
(* Permute, EVERY argument (also wrong length / out-of-range entries / not a permutation) *)
Lemma permute_abs h v pi : Inv v -> abs h (fst (permute v pi)) = dpermute (abs h v) pi.
Proof.
  intro I. assert (D0 : 0 <= dim v) by apply I.
  assert (L : Z.of_nat (length (abs h v)) = dim v) by (apply abs_length; auto).
  unfold dpermute. rewrite L.
  apply abs_eq_by_nth; rewrite ?dim_permute; auto.
  - destruct (negb (Z.of_nat (length pi) =? dim v)); auto.
    assert (G : forall pi i l, length (dperm_loop (dim v) pi i l) = length l).
    { clear. induction pi as [|p r IH]; intros i l; simpl; auto.
      destruct ((p <? 0) || (dim v <=? p)); auto. rewrite IH. destruct (i <? p); auto. apply dswap_length. }
    rewrite G. auto.
  - intros k Hk. rewrite peek_vpeek, vals_permute.
    destruct (negb (Z.of_nat (length pi) =? dim v)).
    + rewrite <- peek_vpeek. rewrite abs_nth; auto.
    + apply permute_loop_dense; auto; try lia. intros k0 Hk0. rewrite <- peek_vpeek, abs_nth; auto.
Qed.
Lemma Wf_permute h v pi : Wf h v -> Wf h (fst (permute v pi)).
Proof.
  intros [W1 W2]. unfold Wf. rewrite vals_permute.
  destruct (negb (Z.of_nat (length pi) =? dim v)); auto.
  apply permute_loop_Wf; auto.
Qed.
