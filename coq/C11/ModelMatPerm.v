(* C11, round 6 — the PERMUTATIONS of sparse matrices: PermuteRows(pi),
   PermuteColumns(pi), SymmetricPermutation(pi) of /repo/matrix_sparse_template.in
   (the statement's "Permute" for matrices), added to the operation set of the matrix
   world of ModelMat.v / ModelMatFrom.v.

     func (matrix *SparseXMatrix) PermuteRows(pi []int) error {
       n, m := matrix.Dims()
       if n != m { return error }                         // nothing happens
       for i := 0; i < n; i++ {
         if pi[i] < 0 || pi[i] > n { return error }       // pi[i]: Go panics when i >= len(pi);
                                                          // NOTE the guard is `> n`, not `>= n`
         if i != pi[i] && pi[i] > i { matrix.SwapRows(i, pi[i]) }   // result ignored
       }
       return nil }
     PermuteColumns: the same with `for i := 0; i < m` and SwapColumns.
     SymmetricPermutation: `if pi[i] > i { SwapRows(i, pi[i]); SwapColumns(i, pi[i]) }`.

   An error or a panic in the middle of the loop leaves the swaps done so far.
   pi[i] = n passes the guard and makes SwapRows/SwapColumns panic in index().
   pi need not be a permutation: any list with the first n entries in [0, n) is
   accepted and the swaps are performed.  Purely additive: the operations of
   ModelMatFrom.mop2 are embedded by [M2]; nothing of the earlier files changes.

   No proofs in this file. *)
From Coq Require Import ZArith List Bool Lia.
From ADV Require Import C11.Model C11.ModelMat C11.ModelMatFrom.
Import ListNotations.
Open Scope Z_scope.

Inductive mop3 :=
  | M2 (o : mop2)                                 (* the 24 operations of ModelMatFrom.v *)
  | MPermRows (t : nat) (pi : list Z)
  | MPermCols (t : nat) (pi : list Z)
  | MSymPerm (t : nat) (pi : list Z).

(* the loop shared by the three methods; [body m i p] = the swap(s) of one iteration with
   their answer (K_PANIC: index() panicked, the loop dies; any other answer is ignored) *)
Fixpoint perm_loop (body : smat -> Z -> Z -> smat * Z) (n : Z) (pi : list Z) (is : list Z) (m : smat)
  : smat * Z :=
  match is with
  | [] => (m, K_OK)
  | i :: r =>
      match nth_error pi (Z.to_nat i) with
      | None => (m, K_PANIC)                                   (* pi[i], i >= len(pi) *)
      | Some p =>
          if (p <? 0) || (n <? p) then (m, K_ERR)               (* "invalid permutation" *)
          else if i <? p then                                   (* i != pi[i] && pi[i] > i *)
            let '(m', k) := body m i p in
            if k =? K_PANIC then (m', K_PANIC) else perm_loop body n pi r m'
          else perm_loop body n pi r m
      end
  end.
Definition sym_body (m : smat) (i p : Z) : smat * Z :=
  let '(m1, k1) := mswap_rows m i p in
  if k1 =? K_PANIC then (m1, K_PANIC) else mswap_cols m1 i p.

Definition mperm_rows (m : smat) (pi : list Z) : smat * Z :=
  if negb (mrows m =? mcols m) then (m, K_ERR)
  else perm_loop mswap_rows (mrows m) pi (zseq 0 (Z.to_nat (mrows m))) m.
Definition mperm_cols (m : smat) (pi : list Z) : smat * Z :=
  if negb (mrows m =? mcols m) then (m, K_ERR)
  else perm_loop mswap_cols (mrows m) pi (zseq 0 (Z.to_nat (mcols m))) m.
Definition msym_perm (m : smat) (pi : list Z) : smat * Z :=
  if negb (mrows m =? mcols m) then (m, K_ERR)
  else perm_loop sym_body (mrows m) pi (zseq 0 (Z.to_nat (mrows m))) m.

Definition mstep3 (w : mworld) (o : mop3) : mworld * (Z * list Z) :=
  match o with
  | M2 o => mstep2 w o
  | MPermRows t pi => let '(m', k) := mperm_rows (getm w t) pi in (setm w t m', (k, []))
  | MPermCols t pi => let '(m', k) := mperm_cols (getm w t) pi in (setm w t m', (k, []))
  | MSymPerm t pi => let '(m', k) := msym_perm (getm w t) pi in (setm w t m', (k, []))
  end.

Definition mrun3 (w : mworld) (ops : list mop3) : mworld := fold_left (fun w o => fst (mstep3 w o)) ops w.
