(* C11 correspondence, sparse matrices, round 6: histories over ModelMatPerm.mop3 (the 24
   operations of ModelMatFrom.v + PermuteRows / PermuteColumns / SymmetricPermutation).
   Per step: outcome kind (OK / error / panic), payload and the checksum of the observation
   of the whole world (header, every read, private map and index keys of `values`, iterator
   sequence of a clone) must be those of the implementation; and on the same history the
   plain dense model DenseMatPerm.v runs next to it: mdense_diverge3 must be None (world
   abstraction, answer code and payload of every in-range, safe operation). *)
From Coq Require Import ZArith List Bool.
From ADV Require Import Base.Corr C11.Model C11.ModelMat C11.CorrMat C11.DenseMat C11.ModelMatFrom C11.DenseMatFrom
                        C11.ModelMatPerm C11.DenseMatPerm.
Import ListNotations.
Open Scope Z_scope.

Fixpoint mrun_obs3 (w : mworld) (ops : list mop3) : list mout :=
  match ops with
  | [] => []
  | o :: r => let '(w', (k, p)) := mstep3 w o in (k, p, hash (obs_mworld w')) :: mrun_obs3 w' r
  end.
Definition mcase4 := (list mop3 * list mout)%type.
Definition mcheck4 (c : mcase4) : bool :=
  list_eqb mout_eqb (mrun_obs3 minit (fst c)) (snd c) &&
  match mdense_diverge3 0 minit [] (fst c) with None => true | Some _ => false end.
Definition mism_mat4 (cs : list mcase4) : list nat := mismatches mcheck4 cs.
Definition mdiverge4 (c : mcase4) : option nat := first_diff mout_eqb 0 (mrun_obs3 minit (fst c)) (snd c).
Definition mdense_div4 (c : mcase4) : option nat := mdense_diverge3 0 minit [] (fst c).
Definition mouts_model4 (c : mcase4) : list mout := mrun_obs3 minit (fst c).
Definition perm_swaps4 (c : mcase4) : nat := count_perm_swaps minit (fst c).
