(* C11, round 6 — property theorems for the PERMUTATIONS of sparse matrices:
   PermuteRows(pi), PermuteColumns(pi), SymmetricPermutation(pi).  Statements only; proofs
   in ProofsMatPerm.v.  Model: ModelMatPerm.v (the loops of matrix_sparse_template.in as
   coded: guard `pi[i] < 0 || pi[i] > n`, exchange when pi[i] > i, answers of SwapRows /
   SwapColumns ignored, error / panic in mid-loop keep the exchanges done so far; operation
   set mop3 = the 24 operations of ModelMatFrom.v + the three permutations); dense side:
   DenseMatPerm.v.  All statements quantify over all matrices / worlds / histories / lists
   pi, no bounds.  In range (perm_ok): on a square n x n matrix pi has at least n entries
   and the first n lie in [0, n) — pi need NOT be a permutation, the code does not ask for
   it; a non-square matrix is answered by an error whatever pi is. *)
From Coq Require Import ZArith List Bool Lia.
From ADV Require Import C11.Model C11.Spec C11.Dense C11.ModelMat C11.ProofsMatSpec C11.ProofsMat
                        C11.DenseMat C11.ProofsMatWorld C11.PropsMat2
                        C11.ModelMatFrom C11.DenseMatFrom C11.ProofsMatFrom
                        C11.ModelMatPerm C11.DenseMatPerm C11.ProofsMatPerm C11.GenLib.
Import ListNotations.
Open Scope Z_scope.

(* ---- 1. one matrix: each method refines the dense loop and only MOVES scalars ---------------- *)
(* never panics, never runs into the error exit, answers OK (error and no change for a
   non-square matrix); the matrix then stands for the dense matrix after the same sequence of
   row / column exchanges; coherence and well-formedness are kept; the SET of scalars held is
   unchanged (frame: no scalar is created, dropped or copied) and so are the dimensions *)
Theorem mat_permute_rows_refines : forall h m pi, MInv m -> Wf h (mv m) ->
  (mrows m = mcols m -> perm_ok (mrows m) pi) ->
  exists m', mperm_rows m pi = (m', if mrows m =? mcols m then K_OK else K_ERR) /\
    mabsd h m' = dm_perm_rows (mabsd h m) pi /\ MInv m' /\ Wf h (mv m') /\
    (forall l, In l (mcells m') <-> In l (mcells m)) /\ mdims m' = mdims m.
Proof. exact mperm_rows_refines. Qed.
Theorem mat_permute_columns_refines : forall h m pi, MInv m -> Wf h (mv m) ->
  (mrows m = mcols m -> perm_ok (mrows m) pi) ->
  exists m', mperm_cols m pi = (m', if mrows m =? mcols m then K_OK else K_ERR) /\
    mabsd h m' = dm_perm_cols (mabsd h m) pi /\ MInv m' /\ Wf h (mv m') /\
    (forall l, In l (mcells m') <-> In l (mcells m)) /\ mdims m' = mdims m.
Proof. exact mperm_cols_refines. Qed.
Theorem mat_symmetric_permutation_refines : forall h m pi, MInv m -> Wf h (mv m) ->
  (mrows m = mcols m -> perm_ok (mrows m) pi) ->
  exists m', msym_perm m pi = (m', if mrows m =? mcols m then K_OK else K_ERR) /\
    mabsd h m' = dm_sym_perm (mabsd h m) pi /\ MInv m' /\ Wf h (mv m') /\
    (forall l, In l (mcells m') <-> In l (mcells m)) /\ mdims m' = mdims m.
Proof. exact msym_perm_refines. Qed.

(* ---- 2. coherence survives ANY call ------------------------------------------------------------ *)
(* whatever pi is (too short, out of range, pi[i] = n): the matrix left behind by the call —
   also when it returns the error or panics in the middle of the loop — is coherent and has the
   dimensions it had *)
Theorem mat_permute_any_call_keeps_coherence : forall m pi, MInv m ->
  (MInv (fst (mperm_rows m pi)) /\ mdims (fst (mperm_rows m pi)) = mdims m) /\
  (MInv (fst (mperm_cols m pi)) /\ mdims (fst (mperm_cols m pi)) = mdims m) /\
  (MInv (fst (msym_perm m pi)) /\ mdims (fst (msym_perm m pi)) = mdims m).
Proof. exact mperm_any_call_MInv. Qed.

(* ---- 3. (central) worlds of matrices: steps and WHOLE HISTORIES over mop3 ---------------------- *)
(* every in-range, safe operation of the extended operation set (24 operations + the three
   permutations) refines the dense operation, keeps the world well-formed and coherent, and
   never panics or runs out of fuel *)
Theorem mat_perm_refinement_step : forall w o,
  MWInv w -> MWWf w -> min_range3 w o -> msafe3 w o ->
  mabsw (fst (mstep3 w o)) = mdstep3 (mabsw w) o /\ MWWf (fst (mstep3 w o)) /\
  fst (snd (mstep3 w o)) = mcode3 w o.
Proof. exact (mstep3_sim mat_refinement_step). Qed.
Theorem mat_perm_inv_step : forall w o, MWInv w -> min_range3 w o -> MWInv (fst (mstep3 w o)).
Proof. exact mstep3_MWInv. Qed.
Theorem mat_perm_refinement_all_histories : forall ops,
  mvalid_safe3 minit ops ->
  mabsw (mrun3 minit ops) = mdense_run3 [] ops /\ MWWf (mrun3 minit ops) /\ MWInv (mrun3 minit ops).
Proof. intros ops V. exact (mrun3_sim_from mat_refinement_step ops minit MWInv_minit MWWf_minit V). Qed.
(* frame: a permutation of matrix t touches nothing but matrix t — the heap (every scalar's
   value) and every other matrix of the world are what they were *)
Theorem mat_perm_frame : forall w t pi,
  let w1 := fst (mstep3 w (MPermRows t pi)) in
  let w2 := fst (mstep3 w (MPermCols t pi)) in
  let w3 := fst (mstep3 w (MSymPerm t pi)) in
  (mhp w1 = mhp w /\ forall u, u <> t -> getm w1 u = getm w u) /\
  (mhp w2 = mhp w /\ forall u, u <> t -> getm w2 u = getm w u) /\
  (mhp w3 = mhp w /\ forall u, u <> t -> getm w3 u = getm w u).
Proof. exact mperm_frame. Qed.
(* what the operations return (the reading operations are those of mop2; a permutation
   returns nothing), along whole histories *)
Theorem mat_perm_reads_agree_step : forall w o q,
  MWInv w -> MWWf w -> min_range3 w o -> mdout3 (mabsw w) o = Some q -> snd (snd (mstep3 w o)) = q.
Proof. exact mstep3_out. Qed.
Theorem mat_perm_history_step : forall pre o,
  mvalid_safe3 minit (pre ++ [o]) ->
  let w := mrun3 minit pre in
  fst (snd (mstep3 w o)) = mcode3 w o /\
  (forall q, mdout3 (mdense_run3 [] pre) o = Some q -> snd (snd (mstep3 w o)) = q).
Proof. exact (mhistory3_step mat_refinement_step). Qed.
(* as one statement: after ANY in-range, safe history [pre] (permutations included), the full
   ConstIterator loop on matrix t delivers exactly the non-zero elements of the DENSE run of
   [pre], in row-major order *)
Theorem mat_iterate_after_any_perm_history : forall pre t,
  mvalid_safe3 minit (pre ++ [M2 (MB (MIterate t))]) ->
  snd (mstep3 (mrun3 minit pre) (M2 (MB (MIterate t)))) =
  (K_OK, flat3 (dm_entries (dmget (mdense_run3 [] pre) t))).
Proof. exact (miterate_after_history3 mat_refinement_step). Qed.

(* ---- 4. the executable side conditions of the correspondence run are sound ------------------- *)
Theorem mat_perm_side_conditions_sound :
  (forall n pi, perm_okb n pi = true -> perm_ok n pi) /\
  (forall w o, min_rangeb3 w o = true -> min_range3 w o) /\
  (forall w o, msafeb3 w o = true -> msafe3 w o) /\
  (forall ops w, mvalid_safeb3 w ops = true -> mvalid_safe3 w ops).
Proof. exact (conj perm_okb_sound (conj min_rangeb3_sound (conj msafeb3_sound mvalid_safeb3_sound))). Qed.

(* ---- 5. the guard as coded ------------------------------------------------------------------- *)
(* `pi[i] > n` instead of `pi[i] >= n` (the vector Permute has `>=`): pi[i] = n is let through
   and SwapRows / SwapColumns panic in index(); pi[i] = n+1 is answered by the error.  The
   argument is out of range, so this is outside the property's quantifier; recorded as a fact
   about the code (the correspondence run replays both outcomes on the implementation) *)
Theorem mat_permute_guard_as_coded :
  let m := null_mat 2 2 in
  mperm_rows m [2; 1] = (m, K_PANIC) /\ mperm_cols m [2; 1] = (m, K_PANIC) /\ msym_perm m [2; 1] = (m, K_PANIC) /\
  mperm_rows m [3; 1] = (m, K_ERR).
Proof. exact perm_guard_off_by_one. Qed.

(* ---- 6. the tie by translation -------------------------------------------------------------- *)
(* the six methods as the translator go2coq_c11 prints them for the library at HEAD (GenLib.exp_*:
   statements over smat with the outcomes continue / error / panic) ARE the model functions the
   theorems above (and PropsMat2's Swap / SwapRows / SwapColumns theorems) are about, for all
   arguments and matrices; on every run the translator regenerates gen_* from the nine
   matrix_sparse_<t>.go and Coq checks gen_* = exp_* by reflexivity (runs/C11/GenPerm.v) *)
Theorem mat_translated_methods_are_the_model :
  (forall i1 j1 i2 j2 m, fin (exp_Swap i1 j1 i2 j2 m) = fin_opt m (mswap m i1 j1 i2 j2)) /\
  (forall i j m, fin (exp_SwapRows i j m) = mswap_rows m i j) /\
  (forall i j m, fin (exp_SwapColumns i j m) = mswap_cols m i j) /\
  (forall pi m, fin (exp_PermuteRows pi m) = mperm_rows m pi) /\
  (forall pi m, fin (exp_PermuteColumns pi m) = mperm_cols m pi) /\
  (forall pi m, fin (exp_SymmetricPermutation pi m) = msym_perm m pi).
Proof. exact exp_methods_are_the_model. Qed.
Example ex_translated_nontrivial :
  fin (exp_SymmetricPermutation [2; 3; 1] (null_mat 3 3)) = (null_mat 3 3, K_PANIC) /\
  fst (fin (exp_PermuteRows [1; 0] {| mv := {| vals := [(1, O)]; idx := [1]; dim := 4 |}; mrows := 2; mcols := 2;
                                      roff := 0; rmax := 2; coff := 0; cmax := 2 |}))
  = {| mv := {| vals := [(3, O)]; idx := [3]; dim := 4 |}; mrows := 2; mcols := 2; roff := 0; rmax := 2; coff := 0; cmax := 2 |}.
Proof. vm_compute. split; reflexivity. Qed.

(* ---- Examples: the hypotheses are satisfiable by a non-trivial history ------------------------ *)
(* a 3 x 3 matrix with a stored zero and a value-less key; a genuine permutation, an in-range
   list that is no permutation, a list longer than n; a matrix sharing its scalars with its
   T(); a non-square matrix (error); an iteration started in the middle afterwards *)
Definition ex_perm_ops : list mop3 :=
  [M2 (MB (NewMat [0; 1; 1; 2] [1; 0; 2; 2] [5; 6; 7; 8] 3 3));
   M2 (MB (MSetAt 0 1 0 0)); M2 (MB (MAt 0 2 0));
   MPermRows 0 [2; 0; 1]; M2 (MB (MIterate 0));
   MPermCols 0 [1; 1; 1]; MSymPerm 0 [2; 1; 0; 9; -5];
   M2 (MB (MT 0)); MPermRows 1 [1; 2; 0]; MSymPerm 0 [1; 0; 2];
   M2 (MB (NewMat [0] [2] [4] 2 3)); MPermCols 2 [];
   M2 (MIterFrom 0 1 0); M2 (MB (MIterate 1))].
Example ex_perm_valid : mvalid_safe3 minit ex_perm_ops.
Proof. apply mvalid_safeb3_sound. vm_compute. reflexivity. Qed.
Example ex_perm_exchanges : count_perm_swaps minit ex_perm_ops = 6%nat.
Proof. vm_compute. reflexivity. Qed.
Example ex_perm_dense :
  mdense_run3 [] ex_perm_ops =
  [ {| dr := 3; dc := 3; de := [[0; 7; 0]; [0; 0; 5]; [0; 8; 0]] |};
    {| dr := 3; dc := 3; de := [[0; 0; 0]; [5; 0; 0]; [0; 7; 8]] |};
    {| dr := 2; dc := 3; de := [[0; 0; 4]; [0; 0; 0]] |} ].
Proof. vm_compute. reflexivity. Qed.
Example ex_perm_refines : mabsw (mrun3 minit ex_perm_ops) = mdense_run3 [] ex_perm_ops.
Proof. exact (proj1 (mat_perm_refinement_all_histories ex_perm_ops ex_perm_valid)). Qed.
Example ex_perm_codes :
  map (fun k => fst (snd (mstep3 (mrun3 minit (firstn k ex_perm_ops)) (nth k ex_perm_ops (M2 (MB (MDims 0)))))))
      [3; 5; 6; 8; 11]%nat = [K_OK; K_OK; K_OK; K_OK; K_ERR].
Proof. vm_compute. reflexivity. Qed.
