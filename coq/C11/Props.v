(* C11 — property theorems (statements only; proofs live in Proofs*.v).
   All statements quantify over ALL operation histories / all vectors, no bounds. *)
From Coq Require Import ZArith List Bool Lia Sorted.
From ADV Require Import C11.Model C11.Spec C11.ProofsMap C11.ProofsIter C11.ProofsInv C11.ProofsRef.
Import ListNotations.
Open Scope Z_scope.

(* 1. the coherence invariant holds initially, is kept by every in-range
      operation (all 25 of the model, including Set/SET through the joint
      iterator state machines, Sort, Permute, Slice and Append with shared
      cells, and iteration with skip()), hence after every in-range history *)
Theorem inv_initial : WInv init.
Proof. exact WInv_init. Qed.
Theorem inv_step : forall w o, WInv w -> in_range w o -> WInv (fst (step w o)).
Proof. exact step_WInv. Qed.
Theorem inv_all_histories : forall ops, valid init ops -> WInv (run init ops).
Proof. intros ops V. exact (run_WInv ops init WInv_init V). Qed.

(* 2a. every in-range read succeeds and returns the element of the dense list
       the vector stands for — in any state whatsoever *)
Theorem reads_succeed : forall h v i,
  idx_ok v i -> const_at h v i = Some (nth (Z.to_nat i) (abs h v) 0).
Proof. exact read_ok. Qed.

(* 3. iteration from any coherent state (in particular any state reachable by an
      in-range history): it terminates without running out of fuel, visits
      keys in strictly ascending order (hence once each), visits (k, x) iff
      position k of the dense list holds x <> 0, changes no element and no
      dimension, and leaves the vector coherent *)
Theorem iteration_exact : forall h v,
  Inv v ->
  exists v1 s, iterate h v = Some (v1, s) /\
    StronglySorted Z.lt (map fst s) /\
    (forall k x, In (k, x) (visits h s) <->
                 0 <= k < dim v /\ x = nth (Z.to_nat k) (abs h v) 0 /\ x <> 0) /\
    abs h v1 = abs h v /\ dim v1 = dim v /\ Inv v1.
Proof. exact iterate_visits. Qed.
Theorem iteration_exact_reachable : forall ops t,
  valid init ops ->
  let w := run init ops in
  exists v1 s, iterate (hp w) (getv w t) = Some (v1, s) /\
    StronglySorted Z.lt (map fst s) /\
    (forall k x, In (k, x) (visits (hp w) s) <->
                 0 <= k < dim (getv w t) /\ x = nth (Z.to_nat k) (abs (hp w) (getv w t)) 0 /\ x <> 0) /\
    abs (hp w) v1 = abs (hp w) (getv w t) /\ dim v1 = dim (getv w t).
Proof.
  intros ops t V w.
  destruct (iterate_visits (hp w) (getv w t)) as (v1 & s & A & B & C & D & E & _).
  - apply WInv_getv. apply run_WInv; auto. exact WInv_init.
  - exists v1, s. auto.
Qed.

(* the closed form behind 3: the visited keys are the index keys whose entry is
   non-null; the null ones (stored zeros, value-less keys) are dropped from
   the index, nothing else changes *)
Theorem iteration_closed_form : forall h v,
  StronglySorted Z.lt (idx v) ->
  exists v', iterate h v = Some (v', cells v (filter (nonnull h v) (idx v))) /\
             idx v' = filter (nonnull h v) (idx v) /\ Q h v v'.
Proof. exact iterate_spec. Qed.

(* 2b. refinement to the plain dense list semantics, single step, for the
       elementary mutators.  PARTIAL: proved for Swap and At(i).Set(x) (and reads
       and iteration above, which change no element); not proved: the
       corresponding equations for Reset, ReverseOrder, Permute, Sort, Slice,
       Append*, Set/SET, Map*, Reduce, the preservation of [Wf] (cells
       allocated, no cell twice in a vector) along histories, and therefore
       the whole-history statement abs (run ops) = dense_run ops.  Those
       operations are covered by the correspondence run + the dense-shadow
       oracle only. *)
Theorem refinement_single_step_partial :
  (forall h v i j k, Inv v -> idx_ok v i -> idx_ok v j -> 0 <= k < dim v ->
     nth (Z.to_nat k) (abs h (swap v i j)) 0 =
     if k =? i then nth (Z.to_nat j) (abs h v) 0 else if k =? j then nth (Z.to_nat i) (abs h v) 0
     else nth (Z.to_nat k) (abs h v) 0) /\
  (forall h v i x h' v' l k, Inv v -> Wf h v -> at_ h v i = Some (h', v', l) -> 0 <= k < dim v ->
     nth (Z.to_nat k) (abs (hset h' l x) v') 0 = if k =? i then x else nth (Z.to_nat k) (abs h v) 0) /\
  (forall h v i, idx_ok v i -> exists h' v' l, at_ h v i = Some (h', v', l)).
Proof. exact (conj swap_refines (conj set_at_refines at_in_range_ok)). Qed.

(* 4. "n changes only by Append".  PARTIAL: proved for the vector an iteration,
      a Swap or an At works on (dim_swap, dim_at, iteration_exact) and, through
      [Q], for skip(); the statement for every operation of [step] on every
      vector of the world is not proved (checked per step by the
      correspondence run and the oracle). *)
Theorem dims_partial :
  (forall v i j, dim (swap v i j) = dim v) /\
  (forall h v i h' v' l, at_ h v i = Some (h', v', l) -> dim v' = dim v).
Proof. exact (conj dim_swap dim_at). Qed.
