(* C11 — property theorems (statements only; proofs live in Proofs*.v).
   All statements quantify over ALL operation histories / all vectors, no bounds. *)
From Coq Require Import ZArith List Bool Lia Sorted.
From ADV Require Import C11.Model C11.Spec C11.Dense C11.ProofsMap C11.ProofsIter C11.ProofsInv C11.ProofsRef
  C11.ProofsD1 C11.ProofsD2 C11.ProofsD3 C11.ProofsDSort C11.ProofsDSet C11.ProofsDense C11.ProofsDOut C11.ProofsShare.
Import ListNotations.
Open Scope Z_scope.

(* 1. the coherence invariant holds initially, is kept by every in-range
      operation (all 25 of the model, including Set/SET through the joint
      iterator state machines, Sort, Permute, Slice and Append with shared
      cells, and iteration with skip()), hence after every in-range history *)
Theorem inv_initial : WInv init.
Proof. exact WInv_init. Qed.
Theorem inv_step : forall w o, WInv w -> in_range w o -> WInv (fst (step w o)).
Proof. exact step_WInv. Qed.
Theorem inv_all_histories : forall ops, valid init ops -> WInv (run init ops).
Proof. intros ops V. exact (run_WInv ops init WInv_init V). Qed.

(* 2a. every in-range read succeeds and returns the element of the dense list
       the vector stands for — in any state whatsoever *)
Theorem reads_succeed : forall h v i,
  idx_ok v i -> const_at h v i = Some (nth (Z.to_nat i) (abs h v) 0).
Proof. exact read_ok. Qed.

(* 3. iteration from any coherent state (in particular any state reachable by an
      in-range history): it terminates without running out of fuel, visits
      keys in strictly ascending order (hence once each), visits (k, x) iff
      position k of the dense list holds x <> 0, changes no element and no
      dimension, and leaves the vector coherent *)
Theorem iteration_exact : forall h v,
  Inv v ->
  exists v1 s, iterate h v = Some (v1, s) /\
    StronglySorted Z.lt (map fst s) /\
    (forall k x, In (k, x) (visits h s) <->
                 0 <= k < dim v /\ x = nth (Z.to_nat k) (abs h v) 0 /\ x <> 0) /\
    abs h v1 = abs h v /\ dim v1 = dim v /\ Inv v1.
Proof. exact iterate_visits. Qed.
Theorem iteration_exact_reachable : forall ops t,
  valid init ops ->
  let w := run init ops in
  exists v1 s, iterate (hp w) (getv w t) = Some (v1, s) /\
    StronglySorted Z.lt (map fst s) /\
    (forall k x, In (k, x) (visits (hp w) s) <->
                 0 <= k < dim (getv w t) /\ x = nth (Z.to_nat k) (abs (hp w) (getv w t)) 0 /\ x <> 0) /\
    abs (hp w) v1 = abs (hp w) (getv w t) /\ dim v1 = dim (getv w t).
Proof.
  intros ops t V w.
  destruct (iterate_visits (hp w) (getv w t)) as (v1 & s & A & B & C & D & E & _).
  - apply WInv_getv. apply run_WInv; auto. exact WInv_init.
  - exists v1, s. auto.
Qed.

(* the closed form behind 3: the visited keys are the index keys whose entry is
   non-null; the null ones (stored zeros, value-less keys) are dropped from
   the index, nothing else changes *)
Theorem iteration_closed_form : forall h v,
  StronglySorted Z.lt (idx v) ->
  exists v', iterate h v = Some (v', cells v (filter (nonnull h v) (idx v))) /\
             idx v' = filter (nonnull h v) (idx v) /\ Q h v v'.
Proof. exact iterate_spec. Qed.

(* 2b. REFINEMENT to the plain dense model (Dense.v: value lists, copy semantics), every one of
       the 25 operations of the model: New, At (creates), At(i).Set(x), ConstAt, Set (sparse or
       dense operand, through the joint iterator state machine), SET, Reset, ReverseOrder, Swap,
       Permute, Sort, Slice, AppendVector (sparse: shares the argument's scalars / dense),
       AppendScalar, Map, MapSet, Reduce, ConstIterator (full / abandoned / from i) with skip(),
       Clone, JointIterator, JOINT3_ITERATOR.
       [WWf]: every stored scalar is allocated and no scalar is stored twice in one vector —
       holds initially and is kept by every operation (second conjunct).
       [safe]: an operation that WRITES scalars in place (At(i).Set, Set, SET, Reset, Map, MapSet)
       works on a vector none of whose scalars is held by another vector.  Without it no plain
       dense semantics applies (known finding C11-SLICEWT; SpecTest.ex_unsafe_differs,
       slice_write_through_refuted); operations that move, share or read scalars are unrestricted. *)
Theorem wf_initial : WWf init.
Proof. exact WWf_init. Qed.
Theorem refinement_step : forall w o,
  WInv w -> WWf w -> in_range w o -> safe w o ->
  absw (fst (step w o)) = dstep (absw w) o /\ WWf (fst (step w o)).
Proof. exact (step_sim set_vec_refines set_vec_total). Qed.
(* ... hence for EVERY valid, safe history: the world reads exactly like the dense run *)
Theorem refinement_all_histories : forall ops,
  valid_safe init ops -> absw (run init ops) = dense_run [] ops /\ WWf (run init ops).
Proof. intros ops V. exact (run_sim set_vec_refines set_vec_total ops init WInv_init WWf_init V). Qed.
(* the values the reading operations return are the dense ones: At / ConstAt = the element, Reduce(+) =
   the sum over ALL positions, ConstIterator = exactly the (position, value) pairs with value <> 0,
   ascending; ConstIteratorFrom(i) = those at positions >= i — and the outcome is never a panic.
   Not given a dense reading here ([dout] = None): the visit sequence of the abandoned loop IterPart (see
   PropsIt.held_iterator_remaining for partially consumed iterators) and of JointIterator / JOINT3_ITERATOR
   (their effect on the world IS covered by refinement_step: none) *)
Theorem reads_agree_step : forall w o q,
  WInv w -> WWf w -> in_range w o -> dout (absw w) o = Some q -> snd (step w o) = (K_OK, q).
Proof. exact step_out. Qed.
(* Permute with ANY argument, including its error exits (wrong length: nothing happens; an entry
   outside [0,n): the interchanges done before it stay — Dense.dpermute), and Sort in closed form *)
Theorem permute_any_argument : forall h v pi, Inv v -> abs h (fst (permute v pi)) = dpermute (abs h v) pi.
Proof. exact permute_abs. Qed.
Theorem sort_is_dense_sort : forall h v r, Inv v ->
  exists v', sort h v r = Some v' /\ abs h v' = dsort r (abs h v) /\ dim v' = dim v.
Proof.
  intros h v r I. destruct (sort_total h v r I) as [v' E]. exists v'. split; auto. eapply sort_refines; eauto.
Qed.
(* Set / SET on their own: the receiver reads like the operand, nothing else changes, the loop
   neither panics nor runs out of fuel *)
Theorem set_copies_operand : forall w t o,
  WInv w -> WWf w -> has w t -> operand_ok w (dim (getv w t)) o -> unshared w t ->
  exists w', set_vec w t o = Some (w', true) /\ absw w' = upd t (doperand (absw w) o) (absw w).
Proof.
  intros w t o I W Ht Ho U. destruct (set_vec_total w t o I Ht Ho) as (w' & b & E).
  destruct (set_vec_refines w t o w' b I W Ht Ho U E) as (-> & A & _). eauto.
Qed.
(* what still holds for an UNSAFE write At(i).Set(x) (scalar shared with another vector): the
   receiver itself reads as the dense update.  PARTIAL: nothing is claimed about the vectors that
   share scalars with the receiver — C11-SLICEWT is exactly that no dense semantics fits them. *)
Theorem set_at_receiver_partial : forall h v i x h' v' l,
  Inv v -> Wf h v -> at_ h v i = Some (h', v', l) -> 0 <= i ->
  abs (hset h' l x) v' = upd (Z.to_nat i) x (abs h v).
Proof. exact set_at_abs. Qed.

(* 4. "the length changes only through Append": NO operation — in range or not — changes the
      dimension of an existing vector or removes a vector; Append*, like New / Slice / Clone, returns
      a NEW vector (whose dimension is the dense one by 2b: dim = length of its dense list) *)
Theorem dims_every_operation : forall w o,
  let w' := fst (step w o) in
  (forall u, (u < length (vecs w))%nat -> dim (getv w' u) = dim (getv w u)) /\
  (length (vecs w') = length (vecs w) \/ (creates o = true /\ length (vecs w') = S (length (vecs w)))).
Proof. exact step_dims. Qed.
Theorem dims_every_history : forall ops w u, (u < length (vecs w))%nat ->
  dim (getv (run w ops) u) = dim (getv w u) /\ (length (vecs w) <= length (vecs (run w ops)))%nat.
Proof. intros ops w u. exact (run_dims ops w u). Qed.

(* 2c. where sharing comes from: ONLY Slice and AppendVector(sparse) make two vectors hold the same
       scalar (every other operation keeps the scalars of a vector or gives exactly one vector fresh
       ones).  So for every valid history that does not use these two operations the side condition
       [safe] holds by itself: the world reads exactly like the dense run — no hypothesis besides
       in-range arguments — stays well-formed, and no two vectors ever share a scalar. *)
Theorem refinement_histories_without_sharing : forall ops,
  valid init ops -> Forall no_share ops ->
  absw (run init ops) = dense_run [] ops /\ WWf (run init ops) /\ Sep (run init ops).
Proof. exact run_noshare. Qed.
Theorem sharing_only_by_slice_and_append : forall w o,
  WInv w -> WWf w -> in_range w o -> no_share o -> Sep w -> Sep (fst (step w o)).
Proof. exact step_Sep. Qed.
