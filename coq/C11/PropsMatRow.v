(* C11, round 6 — the DENSE READING of Row(i) / Col(j) / Diag() of a sparse matrix (the payloads
   DenseMat.mdout left without a reading).  Statements only; proofs in ProofsMatRow.v /
   ProofsMatRow2.v.  Model: ModelMat.mrow / mcol / mdiag (ROW / COL / DIAG of
   matrix_sparse_template.in: a fresh vector, `if s := values.AT_(index(..)); !s.nullScalar()
   { v.AT(p).SET(s) }` for p = 0 .. n-1).  All statements quantify over all heaps / matrices /
   worlds / histories, no bounds.

   VecReads h m h' r n f says about the returned vector r (in the heap h' after the call):
     - h' extends h (no existing scalar is written), r is coherent (Inv) and well-formed,
     - Dim() = n and r reads as the dense list  f 0, f 1, .., f (n-1),
     - its index holds EXACTLY the positions that read non-zero (no stored zero, no value-less
       key: an iteration visits exactly the non-zero positions),
     - every scalar it holds was allocated by the call (it shares nothing with the matrix or with
       anything else) and is non-zero,
     - the matrix reads what it read before. *)
From Coq Require Import ZArith List Bool Lia.
From ADV Require Import C11.Model C11.Spec C11.Dense C11.ModelMat C11.ProofsMatSpec C11.ProofsMat
                        C11.DenseMat C11.ProofsMatWorld C11.PropsMat2 C11.ModelMatFrom C11.DenseMatFrom
                        C11.ModelMatPerm C11.DenseMatPerm C11.ProofsMatPerm C11.ProofsMatRow C11.ProofsMatRow2.
Import ListNotations.
Open Scope Z_scope.

(* ---- 1. one matrix in ANY coherent state ------------------------------------------------------ *)
Theorem mat_row_reads_dense_row : forall h m i, MInv m -> Wf h (mv m) -> 0 <= i < mrows m ->
  exists h' r, mrow h m i = Some (h', r) /\
    ((exists e, h' = h ++ e) /\ Inv r /\ Wf h' r /\ dim r = mcols m /\
     abs h' r = map (fun j => del (mabsd h m) i j) (zseq 0 (Z.to_nat (mcols m))) /\
     (forall k, In k (idx r) <-> peek h' r k <> 0) /\
     (forall k l, lookup k (vals r) = Some l -> (length h <= l)%nat /\ hget h' l <> 0) /\
     mabsd h' m = mabsd h m).
Proof. exact mrow_spec. Qed.
Theorem mat_col_reads_dense_column : forall h m j, MInv m -> Wf h (mv m) -> 0 <= j < mcols m ->
  exists h' r, mcol h m j = Some (h', r) /\ VecReads h m h' r (mrows m) (fun i => del (mabsd h m) i j).
Proof. exact mcol_spec. Qed.
Theorem mat_diag_reads_dense_diagonal : forall h m, MInv m -> Wf h (mv m) -> mrows m = mcols m ->
  exists h' r, mdiag h m = Some (h', r) /\ VecReads h m h' r (mrows m) (fun i => del (mabsd h m) i i).
Proof. exact mdiag_spec. Qed.

(* ---- 2. as operations of a world: the payload is the observation of that vector and the world
        (heap, every matrix) is left exactly as it was ------------------------------------------ *)
Theorem mat_row_step : forall w t i, MWInv w -> MWWf w -> min_range w (MRow t i) ->
  exists h' r, mstep w (MRow t i) = (w, (K_OK, obs_vec h' r)) /\
    VecReads (mhp w) (getm w t) h' r (mcols (getm w t)) (fun j => del (dmget (mabsw w) t) i j).
Proof. exact mrow_step. Qed.
Theorem mat_col_step : forall w t j, MWInv w -> MWWf w -> min_range w (MCol t j) ->
  exists h' r, mstep w (MCol t j) = (w, (K_OK, obs_vec h' r)) /\
    VecReads (mhp w) (getm w t) h' r (mrows (getm w t)) (fun i => del (dmget (mabsw w) t) i j).
Proof. exact mcol_step. Qed.
Theorem mat_diag_step : forall w t, MWInv w -> MWWf w -> min_range w (MDiag t) ->
  exists h' r, mstep w (MDiag t) = (w, (K_OK, obs_vec h' r)) /\
    VecReads (mhp w) (getm w t) h' r (mrows (getm w t)) (fun i => del (dmget (mabsw w) t) i i).
Proof. exact mdiag_step. Qed.

(* ---- 3. after ANY in-range, safe history (all 27 matrix operations, permutations included):
        Row / Col / Diag succeed, change nothing, and the vector they return is coherent, reads as
        the row / column / diagonal of the DENSE run of the history and indexes exactly its
        non-zero positions ------------------------------------------------------------------------ *)
Theorem mat_row_after_any_history : forall pre t i, mvalid_safe3 minit (pre ++ [M2 (MB (MRow t i))]) ->
  let w := mrun3 minit pre in let a := dmget (mdense_run3 [] pre) t in
  exists h' r, mstep3 w (M2 (MB (MRow t i))) = (w, (K_OK, obs_vec h' r)) /\
    (Inv r /\ Wf h' r /\ dim r = dc a /\ abs h' r = map (fun j => del a i j) (zseq 0 (Z.to_nat (dc a))) /\
     (forall k, In k (idx r) <-> peek h' r k <> 0)).
Proof. exact (mrow_history mat_refinement_step). Qed.
Theorem mat_col_after_any_history : forall pre t j, mvalid_safe3 minit (pre ++ [M2 (MB (MCol t j))]) ->
  let w := mrun3 minit pre in let a := dmget (mdense_run3 [] pre) t in
  exists h' r, mstep3 w (M2 (MB (MCol t j))) = (w, (K_OK, obs_vec h' r)) /\
    VecIs h' r (dr a) (fun i => del a i j).
Proof. exact (mcol_history mat_refinement_step). Qed.
Theorem mat_diag_after_any_history : forall pre t, mvalid_safe3 minit (pre ++ [M2 (MB (MDiag t))]) ->
  let w := mrun3 minit pre in let a := dmget (mdense_run3 [] pre) t in
  exists h' r, mstep3 w (M2 (MB (MDiag t))) = (w, (K_OK, obs_vec h' r)) /\
    VecIs h' r (dr a) (fun i => del a i i).
Proof. exact (mdiag_history mat_refinement_step). Qed.

(* ---- Examples ---------------------------------------------------------------------------------- *)
(* a 3 x 3 matrix holding a stored zero (key 3) and a value-less key (4): row 1 = [0; 0; 7] — the
   returned vector stores position 2 only; column 2 and the diagonal after a permutation *)
Definition ex_row_pre : list mop3 :=
  [M2 (MB (NewMat [0; 1; 1; 2] [1; 0; 2; 2] [5; 6; 7; 8] 3 3)); M2 (MB (MSetAt 0 1 0 0)); M2 (MB (MAt 0 1 1));
   MSymPerm 0 [2; 1; 0]].
Example ex_row_valid : mvalid_safe3 minit (ex_row_pre ++ [M2 (MB (MRow 0 1))]) /\
                       mvalid_safe3 minit (ex_row_pre ++ [M2 (MB (MCol 0 0))]) /\
                       mvalid_safe3 minit (ex_row_pre ++ [M2 (MB (MDiag 0))]).
Proof. split; [|split]; apply mvalid_safeb3_sound; vm_compute; reflexivity. Qed.
Example ex_row_dense : dmget (mdense_run3 [] ex_row_pre) 0 = {| dr := 3; dc := 3; de := [[8; 0; 0]; [7; 0; 0]; [0; 5; 0]] |}.
Proof. vm_compute. reflexivity. Qed.
Example ex_row_payloads :
  let w := mrun3 minit ex_row_pre in
  snd (snd (mstep3 w (M2 (MB (MRow 0 1))))) = [3; SEP; 7; 0; 0; SEP; 0; 7; SEP; 0; SEP; 0; 7; SEP] /\
  snd (snd (mstep3 w (M2 (MB (MCol 0 0))))) = [3; SEP; 8; 7; 0; SEP; 0; 8; 1; 7; SEP; 0; 1; SEP; 0; 8; 1; 7; SEP] /\
  snd (snd (mstep3 w (M2 (MB (MDiag 0))))) = [3; SEP; 8; 0; 0; SEP; 0; 8; SEP; 0; SEP; 0; 8; SEP].
Proof. vm_compute. repeat split. Qed.
