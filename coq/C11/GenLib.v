(* C11, round 6 — the statement language the translator go2coq_c11 prints the sparse-matrix
   methods Swap / SwapRows / SwapColumns / PermuteRows / PermuteColumns / SymmetricPermutation
   in, the EXPECTED definitions exp_* (what the translator prints for the library at HEAD) and
   the proofs that they are the model functions of ModelMat.v / ModelMatPerm.v for all
   arguments and matrices.  On every run the translator regenerates gen_* from the nine
   matrix_sparse_<t>.go and Coq checks gen_* = exp_* by reflexivity (runs/C11/GenPerm.v).

   A statement is a function smat -> smat * res: the matrix it leaves and whether control
   continues (ROk), the method returned an error (RErr) or panicked (RPanic). *)
From Coq Require Import ZArith List Bool Lia.
From ADV Require Import C11.Model C11.ModelMat C11.ModelMatFrom C11.ModelMatPerm.
Import ListNotations.
Open Scope Z_scope.

Inductive res := ROk | RErr | RPanic.
Definition code (r : res) : Z := match r with ROk => K_OK | RErr => K_ERR | RPanic => K_PANIC end.
Definition stm := smat -> smat * res.
Definition fin (x : smat * res) : smat * Z := (fst x, code (snd x)).
Definition fin_opt (m : smat) (o : option smat) : smat * Z :=
  match o with Some m' => (m', K_OK) | None => (m, K_PANIC) end.

Definition g_skip : stm := fun m => (m, ROk).
Definition g_return_err : stm := fun m => (m, RErr).               (* return fmt.Errorf(..) *)
Definition g_seq (a b : stm) : stm :=
  fun m => let '(m1, r) := a m in match r with ROk => b m1 | _ => (m1, r) end.
Definition g_if (c : bool) (a b : stm) : stm := if c then a else b.
Definition g_dims (k : Z -> Z -> stm) : stm := fun m => k (mrows m) (mcols m) m.     (* n, m := matrix.Dims() *)
Definition g_index_of (i j : Z) (k : Z -> stm) : stm :=                               (* x := matrix.index(i, j) *)
  fun m => match mindex m i j with Some x => k x m | None => (m, RPanic) end.
Definition g_values_swap (k1 k2 : Z) : stm := fun m => (set_mv m (swap (mv m) k1 k2), ROk).
Definition g_call (f : stm) : stm := f.
Definition g_call_drop_err (f : stm) : stm :=                                        (* error result ignored *)
  fun m => let '(m1, r) := f m in (m1, match r with RPanic => RPanic | _ => ROk end).
Fixpoint g_for_list (is : list Z) (body : Z -> stm) : stm :=
  fun m => match is with [] => (m, ROk) | i :: r => g_seq (body i) (g_for_list r body) m end.
Definition g_for (hi : Z) (body : Z -> stm) : stm := g_for_list (zseq 0 (Z.to_nat hi)) body.   (* for v := 0; v < hi; v++ *)
Definition g_nth (pi : list Z) (i : Z) (k : Z -> stm) : stm :=                         (* p := pi[i] *)
  fun m => match nth_error pi (Z.to_nat i) with Some p => k p m | None => (m, RPanic) end.

(* ---- the expected translation of the library at HEAD (text of runs/C11/GenPerm.v, gen_ -> exp_) ---- *)
Definition exp_Swap (i1 : Z) (j1 : Z) (i2 : Z) (j2 : Z) : stm :=
    (g_index_of i1 j1 (fun k1 =>
    (g_index_of i2 j2 (fun k2 =>
    (g_values_swap k1 k2))))).
Definition exp_SwapRows (i : Z) (j : Z) : stm :=
    (g_dims (fun n m =>
    (g_seq (g_if (negb (n =? m)) g_return_err g_skip)
    (g_seq (g_for m (fun k =>
      (g_call (exp_Swap i k j k))))
    g_skip)))).
Definition exp_SwapColumns (i : Z) (j : Z) : stm :=
    (g_dims (fun n m =>
    (g_seq (g_if (negb (n =? m)) g_return_err g_skip)
    (g_seq (g_for n (fun k =>
      (g_call (exp_Swap k i k j))))
    g_skip)))).
Definition exp_PermuteRows (pi : list Z) : stm :=
    (g_dims (fun n m =>
    (g_seq (g_if (negb (n =? m)) g_return_err g_skip)
    (g_seq (g_for n (fun i => g_nth pi i (fun p =>
      (g_seq (g_if ((p <? 0) || (n <? p)) g_return_err g_skip)
      (g_if ((negb (i =? p)) && (i <? p)) (g_call_drop_err (exp_SwapRows i p)) g_skip)))))
    g_skip)))).
Definition exp_PermuteColumns (pi : list Z) : stm :=
    (g_dims (fun n m =>
    (g_seq (g_if (negb (n =? m)) g_return_err g_skip)
    (g_seq (g_for m (fun i => g_nth pi i (fun p =>
      (g_seq (g_if ((p <? 0) || (n <? p)) g_return_err g_skip)
      (g_if ((negb (i =? p)) && (i <? p)) (g_call_drop_err (exp_SwapColumns i p)) g_skip)))))
    g_skip)))).
Definition exp_SymmetricPermutation (pi : list Z) : stm :=
    (g_dims (fun n m =>
    (g_seq (g_if (negb (n =? m)) g_return_err g_skip)
    (g_seq (g_for n (fun i => g_nth pi i (fun p =>
      (g_seq (g_if ((p <? 0) || (n <? p)) g_return_err g_skip)
      (g_if (i <? p) (g_seq (g_call_drop_err (exp_SwapRows i p))
        (g_call_drop_err (exp_SwapColumns i p))) g_skip)))))
    g_skip)))).

(* ---- exp_* are the model functions ---------------------------------------------------------- *)
Lemma g_seq_skip_r a m : g_seq a g_skip m = a m.
Proof. unfold g_seq, g_skip. destruct (a m) as [m1 r]. destruct r; reflexivity. Qed.

Lemma exp_Swap_raw i1 j1 i2 j2 m :
  exp_Swap i1 j1 i2 j2 m = match mswap m i1 j1 i2 j2 with Some m' => (m', ROk) | None => (m, RPanic) end.
Proof.
  unfold exp_Swap, g_index_of, g_values_swap, mswap.
  destruct (mindex m i1 j1); [|reflexivity]. destruct (mindex m i2 j2); reflexivity.
Qed.
Lemma for_swaps (a b c d : Z -> Z) : forall is m,
  g_for_list is (fun k => g_call (exp_Swap (a k) (b k) (c k) (d k))) m =
  (let '(m', ok) := swap_seq (map (fun k => (a k, b k, c k, d k)) is) m in (m', if ok then ROk else RPanic)).
Proof.
  induction is as [|k r IH]; intro m; cbn [g_for_list map swap_seq]; [reflexivity|].
  unfold g_seq, g_call. rewrite exp_Swap_raw. destruct (mswap m (a k) (b k) (c k) (d k)) as [m'|]; [|reflexivity].
  apply IH.
Qed.
Lemma exp_SwapRows_fin i j m : fin (exp_SwapRows i j m) = mswap_rows m i j.
Proof.
  unfold exp_SwapRows, g_dims, mswap_rows. unfold g_seq at 1. unfold g_if.
  destruct (negb (mrows m =? mcols m)); [reflexivity|]. cbn [g_skip]. rewrite g_seq_skip_r. unfold g_for.
  rewrite (for_swaps (fun _ => i) (fun k => k) (fun _ => j) (fun k => k)).
  destruct (swap_seq _ m) as [m' ok]. destruct ok; reflexivity.
Qed.
Lemma exp_SwapColumns_fin i j m : fin (exp_SwapColumns i j m) = mswap_cols m i j.
Proof.
  unfold exp_SwapColumns, g_dims, mswap_cols. unfold g_seq at 1. unfold g_if.
  destruct (negb (mrows m =? mcols m)); [reflexivity|]. cbn [g_skip]. rewrite g_seq_skip_r. unfold g_for.
  rewrite (for_swaps (fun k => k) (fun _ => i) (fun k => k) (fun _ => j)).
  destruct (swap_seq _ m) as [m' ok]. destruct ok; reflexivity.
Qed.

(* a dropped-error call of a method whose [fin] is the model function [bm] *)
Lemma drop_err_of_fin (f : stm) (bm : smat -> smat * Z) m :
  fin (f m) = bm m ->
  g_call_drop_err f m = (let '(m', k) := bm m in (m', if k =? K_PANIC then RPanic else ROk)).
Proof.
  unfold g_call_drop_err, fin. destruct (f m) as [m1 r]. cbn [fst snd]. intros <-. destruct r; reflexivity.
Qed.

Lemma perm_for (call : Z -> Z -> stm) (bm : smat -> Z -> Z -> smat * Z) (cond : Z -> Z -> bool) n pi :
  (forall m i p, call i p m = (let '(m', k) := bm m i p in (m', if k =? K_PANIC then RPanic else ROk))) ->
  (forall i p, cond i p = (i <? p)) ->
  forall is m,
  fin (g_for_list is (fun i => g_nth pi i (fun p =>
         g_seq (g_if ((p <? 0) || (n <? p)) g_return_err g_skip) (g_if (cond i p) (call i p) g_skip))) m)
  = perm_loop bm n pi is m.
Proof.
  intros HC HK. induction is as [|i r IH]; intro m; cbn [g_for_list perm_loop]; [reflexivity|].
  unfold g_seq at 1. unfold g_nth. destruct (nth_error pi (Z.to_nat i)) as [p|]; [|reflexivity].
  unfold g_seq at 1. unfold g_if at 1. destruct ((p <? 0) || (n <? p)); [reflexivity|]. cbn [g_skip].
  unfold g_if. rewrite HK. destruct (i <? p).
  - rewrite HC. destruct (bm m i p) as [m' k]. destruct (k =? K_PANIC); [reflexivity|]. apply IH.
  - cbn [g_skip]. apply IH.
Qed.

Lemma cond_rows i p : (negb (i =? p)) && (i <? p) = (i <? p).
Proof. destruct (i <? p) eqn:L; [|apply andb_false_r]. apply Z.ltb_lt in L. assert (i =? p = false) as -> by (apply Z.eqb_neq; lia). reflexivity. Qed.

Lemma exp_PermuteRows_fin pi m : fin (exp_PermuteRows pi m) = mperm_rows m pi.
Proof.
  unfold exp_PermuteRows, g_dims, mperm_rows. unfold g_seq at 1. unfold g_if at 1.
  destruct (negb (mrows m =? mcols m)); [reflexivity|]. cbn [g_skip]. rewrite g_seq_skip_r. unfold g_for.
  apply (perm_for (fun i p => g_call_drop_err (exp_SwapRows i p)) mswap_rows (fun i p => (negb (i =? p)) && (i <? p))).
  - intros m0 i p. apply (drop_err_of_fin (exp_SwapRows i p) (fun m1 => mswap_rows m1 i p) m0). apply exp_SwapRows_fin.
  - apply cond_rows.
Qed.
Lemma exp_PermuteColumns_fin pi m : fin (exp_PermuteColumns pi m) = mperm_cols m pi.
Proof.
  unfold exp_PermuteColumns, g_dims, mperm_cols. unfold g_seq at 1. unfold g_if at 1.
  destruct (negb (mrows m =? mcols m)); [reflexivity|]. cbn [g_skip]. rewrite g_seq_skip_r. unfold g_for.
  apply (perm_for (fun i p => g_call_drop_err (exp_SwapColumns i p)) mswap_cols (fun i p => (negb (i =? p)) && (i <? p))).
  - intros m0 i p. apply (drop_err_of_fin (exp_SwapColumns i p) (fun m1 => mswap_cols m1 i p) m0). apply exp_SwapColumns_fin.
  - apply cond_rows.
Qed.
Lemma sym_call m i p :
  g_seq (g_call_drop_err (exp_SwapRows i p)) (g_call_drop_err (exp_SwapColumns i p)) m =
  (let '(m', k) := sym_body m i p in (m', if k =? K_PANIC then RPanic else ROk)).
Proof.
  unfold g_seq, sym_body. rewrite (drop_err_of_fin _ (fun m => mswap_rows m i p) m (exp_SwapRows_fin i p m)).
  destruct (mswap_rows m i p) as [m1 k1]. destruct (k1 =? K_PANIC); [reflexivity|].
  rewrite (drop_err_of_fin _ (fun m => mswap_cols m i p) m1 (exp_SwapColumns_fin i p m1)). reflexivity.
Qed.
Lemma exp_SymmetricPermutation_fin pi m : fin (exp_SymmetricPermutation pi m) = msym_perm m pi.
Proof.
  unfold exp_SymmetricPermutation, g_dims, msym_perm. unfold g_seq at 1. unfold g_if at 1.
  destruct (negb (mrows m =? mcols m)); [reflexivity|]. cbn [g_skip]. rewrite g_seq_skip_r. unfold g_for.
  apply (perm_for (fun i p => g_seq (g_call_drop_err (exp_SwapRows i p)) (g_call_drop_err (exp_SwapColumns i p)))
                  sym_body (fun i p => i <? p)).
  - intros m0 i p. apply sym_call.
  - reflexivity.
Qed.

Theorem exp_methods_are_the_model :
  (forall i1 j1 i2 j2 m, fin (exp_Swap i1 j1 i2 j2 m) = fin_opt m (mswap m i1 j1 i2 j2)) /\
  (forall i j m, fin (exp_SwapRows i j m) = mswap_rows m i j) /\
  (forall i j m, fin (exp_SwapColumns i j m) = mswap_cols m i j) /\
  (forall pi m, fin (exp_PermuteRows pi m) = mperm_rows m pi) /\
  (forall pi m, fin (exp_PermuteColumns pi m) = mperm_cols m pi) /\
  (forall pi m, fin (exp_SymmetricPermutation pi m) = msym_perm m pi).
Proof.
  split; [|exact (conj exp_SwapRows_fin (conj exp_SwapColumns_fin (conj exp_PermuteRows_fin
             (conj exp_PermuteColumns_fin exp_SymmetricPermutation_fin))))].
  intros. rewrite exp_Swap_raw. destruct (mswap m i1 j1 i2 j2); reflexivity.
Qed.
