(* C11 — executable model of /repo/vector_sparse_template.in (all nine sparse
   vector instantiations are the same text), hand-written, mirroring the Go
   control flow at HEAD.  SHARED MODEL: C03 (dense vs sparse), C09
   (generic vs concrete), C12 (copies / frames) import this file.

   No proofs in this file: it must keep running when a proof breaks.

   Representation
   --------------
   * [heap]   : the scalars.  In Go a stored element is a pointer-like object
                (Float64{ptr}, *Real64): two vectors can hold the SAME object
                (Slice, APPEND share them).  A scalar is a cell [loc] of the
                heap; [halloc] appends (fresh cell = length of the heap).
                Element carrier: Z (the harness uses small integers, exact in
                all nine element types).
   * [svec]   : one sparse vector
        vals : the private  map[int]T      (association list, keys unique by
               construction: [insert] removes the key first)
        idx  : the private AVL index (vectorSparseIndex), abstracted to the
               strictly ascending list of its keys.  Justified by C19: the
               AVL tree refines exactly this set semantics (Insert = [kins],
               Delete = [kdel], IteratorFrom = [first_ge], iterator Next =
               [first_gt] of the CURRENT key in the CURRENT set, also under
               insertions / deletions while the iterator is live).
        dim  : n
     Index keys without a value are legal (Permute creates them); they read
     as zero and are dropped by the iterator's skip().  Stored zeros (explicit
     entries whose cell holds 0) exist until skip() removes them.
     Nil placeholders (a map entry holding a nil scalar) are NOT representable:
     after the fix commits 3b2ec4d (Swap) and a5803e3 (SLICE) no operation of
     HEAD creates one; the correspondence compares the hook's nil flags with
     "none".
   * [world]  : heap + the list of vectors created so far (handles = positions).
   * iterators: the plain iterator is its current key ([option Z], None =
     exhausted) — every step is evaluated against the vector's current index,
     which is what the AVL iterator does (C19).  Joint iterators are explicit
     records with the fields of the Go structs.
   Abstracted: the order in which Go walks a map (Reset, Map, Clone, Reduce,
   ReverseOrder — all order independent here), and the placement of cells with
   EQUAL values by sort.Sort (unstable in Go; a stable insertion sort here —
   observable only through later writes to cells shared with another vector). *)
From Coq Require Import ZArith List Bool Lia.
Import ListNotations.
Open Scope Z_scope.

(* ------------------------------------------------------------------ heap *)
Definition loc := nat.
Definition heap := list Z.
Definition hget (h : heap) (l : loc) : Z := nth l h 0.
Fixpoint upd {X} (n : nat) (x : X) (l : list X) : list X :=
  match l, n with
  | [], _ => []
  | _ :: r, O => x :: r
  | y :: r, S m => y :: upd m x r
  end.
Definition hset (h : heap) (l : loc) (x : Z) : heap := upd l x h.
Definition halloc (h : heap) (x : Z) : heap * loc := (h ++ [x], length h).

(* ------------------------------------------------------------ finite map *)
Definition vmap := list (Z * loc).
Fixpoint lookup (k : Z) (m : vmap) : option loc :=
  match m with
  | [] => None
  | (k', v) :: r => if k' =? k then Some v else lookup k r
  end.
Fixpoint remove (k : Z) (m : vmap) : vmap :=
  match m with
  | [] => []
  | (k', v) :: r => if k' =? k then remove k r else (k', v) :: remove k r
  end.
Definition insert (k : Z) (v : loc) (m : vmap) : vmap := (k, v) :: remove k m.

(* --------------------------------------- ordered key set (the AVL index) *)
Fixpoint kmem (i : Z) (l : list Z) : bool :=
  match l with [] => false | x :: r => (x =? i) || kmem i r end.
Fixpoint kins (i : Z) (l : list Z) : list Z :=
  match l with
  | [] => [i]
  | x :: r => if i <? x then i :: x :: r else if x <? i then x :: kins i r else x :: r
  end.
Fixpoint kdel (i : Z) (l : list Z) : list Z :=
  match l with [] => [] | x :: r => if x =? i then r else x :: kdel i r end.
Definition first_ge (i : Z) (l : list Z) : option Z := List.find (fun x => i <=? x) l.
Definition first_gt (i : Z) (l : list Z) : option Z := List.find (fun x => i <? x) l.

(* ---------------------------------------------------------------- vector *)
Record svec := { vals : vmap; idx : list Z; dim : Z }.
Definition nil_vec (n : Z) : svec := {| vals := []; idx := []; dim := n |}.

(* value stored at i, zero if absent (no bounds check) *)
Definition peek (h : heap) (v : svec) (i : Z) : Z :=
  match lookup i (vals v) with Some l => hget h l | None => 0 end.
Definition in_bounds (v : svec) (i : Z) : bool := (0 <=? i) && (i <? dim v).

(* ConstAt / Float64At ... : panics (None) out of bounds, never creates *)
Definition const_at (h : heap) (v : svec) (i : Z) : option Z :=
  if in_bounds v i then Some (peek h v i) else None.

(* AT(i): creates the value AND the index key together *)
Definition at_ (h : heap) (v : svec) (i : Z) : option (heap * svec * loc) :=
  if in_bounds v i then
    match lookup i (vals v) with
    | Some l => Some (h, v, l)
    | None =>
        let '(h', l) := halloc h 0 in
        Some (h', {| vals := insert i l (vals v); idx := kins i (idx v); dim := dim v |}, l)
    end
  else None.

(* ------------------------------------------------- plain iterator + skip *)
(* GET().nullScalar(): absent entry or cell holding zero *)
Definition isnull (h : heap) (v : svec) (k : Z) : bool :=
  match lookup k (vals v) with Some l => hget h l =? 0 | None => true end.
Definition del_entry (k : Z) (v : svec) : svec :=
  {| vals := remove k (vals v); idx := kdel k (idx v); dim := dim v |}.

(* skip(): while Ok && null { i := Index(); index.Next(); delete(values,i); indexDelete(i) }
   fuel exhaustion = None (never happens with fuel > length idx) *)
Fixpoint skip (fuel : nat) (h : heap) (v : svec) (cur : option Z) : option (svec * option Z) :=
  match cur with
  | None => Some (v, None)
  | Some k =>
      if isnull h v k then
        match fuel with
        | O => None
        | S f => skip f h (del_entry k v) (first_gt k (idx v))
        end
      else Some (v, cur)
  end.
Definition sfuel (v : svec) : nat := S (length (idx v)).
(* ITERATOR(), ITERATOR_FROM(i), Next() *)
Definition it_begin (h : heap) (v : svec) := skip (sfuel v) h v (hd_error (idx v)).
Definition it_from (h : heap) (v : svec) (i : Z) := skip (sfuel v) h v (first_ge i (idx v)).
Definition it_next (h : heap) (v : svec) (cur : option Z) :=
  match cur with
  | None => Some (v, None)                      (* AvlIterator.Next on an exhausted iterator: no-op *)
  | Some k => skip (sfuel v) h v (first_gt k (idx v))
  end.

(* for it := v.ITERATOR(); it.Ok(); it.Next() { visit (it.Index(), it.GET()) }
   result: vector after the loop (null entries removed) and the visited (key, cell) *)
Fixpoint iter_loop (fuel : nat) (h : heap) (v : svec) (cur : option Z) (acc : list (Z * loc))
  : option (svec * list (Z * loc)) :=
  match cur with
  | None => Some (v, rev acc)
  | Some k =>
      match fuel with
      | O => None
      | S f =>
          match lookup k (vals v) with
          | None => None                        (* impossible after skip *)
          | Some l =>
              match it_next h v cur with
              | None => None
              | Some (v', cur') => iter_loop f h v' cur' ((k, l) :: acc)
              end
          end
      end
  end.
Definition iterate (h : heap) (v : svec) : option (svec * list (Z * loc)) :=
  match it_begin h v with
  | None => None
  | Some (v', cur) => iter_loop (sfuel v) h v' cur []
  end.
(* the same loop abandoned after at most [m] visits (a partially consumed iterator) *)
Fixpoint iter_part (m : nat) (h : heap) (v : svec) (cur : option Z) (acc : list (Z * loc))
  : option (svec * list (Z * loc)) :=
  match m, cur with
  | O, _ | _, None => Some (v, rev acc)
  | S f, Some k =>
      match lookup k (vals v) with
      | None => None
      | Some l =>
          match it_next h v cur with
          | None => None
          | Some (v', cur') => iter_part f h v' cur' ((k, l) :: acc)
          end
      end
  end.

(* ------------------------------------------------------- simple mutators *)
(* Reset(): for _, v := range values { v.Reset() } *)
Definition reset (h : heap) (v : svec) : heap :=
  fold_left (fun h' kv => hset h' (snd kv) 0) (vals v) h.
(* Map(f) with f = (x := x*c) resp. (x := x+c): stored entries only *)
Definition map_cells (f : Z -> Z) (h : heap) (v : svec) : heap :=
  fold_left (fun h' kv => hset h' (snd kv) (f (hget h' (snd kv)))) (vals v) h.
(* Reduce(+, 0) *)
Definition reduce_sum (h : heap) (v : svec) : Z :=
  fold_left (fun r kv => r + hget h (snd kv)) (vals v) 0.

(* ReverseOrder(): new map and new index from the MAP entries *)
Definition reverse_order (v : svec) : svec :=
  let n := dim v in
  {| vals := fold_left (fun m kv => insert (n - fst kv - 1) (snd kv) m) (vals v) [];
     idx := fold_left (fun s kv => kins (n - fst kv - 1) s) (vals v) [];
     dim := n |}.

(* Swap(i,j) — no bounds check in Go *)
Definition swap (v : svec) (i j : Z) : svec :=
  match lookup i (vals v), lookup j (vals v) with
  | Some l1, Some l2 =>
      {| vals := insert j l1 (insert i l2 (vals v)); idx := idx v; dim := dim v |}
  | Some l1, None =>
      {| vals := remove i (insert j l1 (vals v)); idx := kdel i (kins j (idx v)); dim := dim v |}
  | None, Some l2 =>
      {| vals := remove j (insert i l2 (vals v)); idx := kdel j (kins i (idx v)); dim := dim v |}
  | None, None => v
  end.

(* Permute(pi): the value loop (with the mid-loop error exit), then the index is
   rebuilt from ALL of pi *)
Definition swap_vals (m : vmap) (i p : Z) : vmap :=
  match lookup i m, lookup p m with
  | Some l1, Some l2 => insert p l1 (insert i l2 m)
  | Some l1, None => remove i (insert p l1 m)
  | None, Some l2 => remove p (insert i l2 m)
  | None, None => m
  end.
Fixpoint permute_loop (n : Z) (pi : list Z) (i : Z) (m : vmap) : vmap * bool :=
  match pi with
  | [] => (m, true)
  | p :: r =>
      if (p <? 0) || (n <=? p) then (m, false)
      else permute_loop n r (i + 1) (if i <? p then swap_vals m i p else m)
  end.
(* result: (vector, true) or (vector after the partial loop, false = error returned) *)
Definition permute (v : svec) (pi : list Z) : svec * bool :=
  if negb (Z.of_nat (length pi) =? dim v) then (v, false)
  else
    let '(m, ok) := permute_loop (dim v) pi 0 (vals v) in
    if ok then ({| vals := m; idx := fold_left (fun s p => kins p s) pi []; dim := dim v |}, true)
    else ({| vals := m; idx := idx v; dim := dim v |}, false).

(* Sort(reverse) *)
Fixpoint ins_sorted (le : Z -> Z -> bool) (h : heap) (c : loc) (l : list loc) : list loc :=
  match l with
  | [] => [c]
  | d :: r => if le (hget h d) (hget h c) then d :: ins_sorted le h c r else c :: d :: r
  end.
Definition sort_cells (rev_ : bool) (h : heap) (cs : list loc) : list loc :=
  fold_left (fun acc c => ins_sorted (if rev_ then Z.geb else Z.leb) h c acc) cs [].
Fixpoint place (h : heap) (ip in_ : Z) (i : Z) (cs : list loc) (v : svec) : svec :=
  match cs with
  | [] => v
  | c :: r =>
      let k := if 0 <? hget h c then i + ip else i + in_ in
      place h ip in_ (i + 1) r {| vals := insert k c (vals v); idx := kins k (idx v); dim := dim v |}
  end.
Definition sort (h : heap) (v : svec) (rev_ : bool) : option svec :=
  match iterate h v with
  | None => None
  | Some (v1, seq) =>
      let m := Z.of_nat (length (vals v1)) in
      let ip := if rev_ then 0 else dim v - m in
      let in_ := if rev_ then dim v - m else 0 in
      Some (place h ip in_ 0 (sort_cells rev_ h (map snd seq)) (nil_vec (dim v)))
  end.

(* SLICE(i,j): shares the cells of existing entries; no bounds check *)
Fixpoint slice_loop (i j : Z) (m : vmap) (ks : list Z) (r : svec) : svec :=
  match ks with
  | [] => r
  | k :: ks' =>
      if k <? i then slice_loop i j m ks' r
      else if j <=? k then r
      else match lookup k m with
           | Some l => slice_loop i j m ks'
                         {| vals := insert (k - i) l (vals r); idx := kins (k - i) (idx r); dim := dim r |}
           | None => slice_loop i j m ks' r
           end
  end.
Definition slice (v : svec) (i j : Z) : svec := slice_loop i j (vals v) (idx v) (nil_vec (j - i)).

(* Clone(): fresh cells for every map entry, index cloned *)
Definition clone (h : heap) (v : svec) : heap * svec :=
  let '(h', m) := fold_left (fun hm kv =>
                    let '(h0, m0) := hm in
                    let '(h1, l) := halloc h0 (hget h0 (snd kv)) in (h1, m0 ++ [(fst kv, l)]))
                  (vals v) (h, []) in
  (h', {| vals := m; idx := idx v; dim := dim v |}).

(* APPEND(w): clone, then the non-null entries of w are SHARED; w is iterated
   (its null entries are removed).  [seq] = iterate w *)
Definition append_entries (off : Z) (seq : list (Z * loc)) (r : svec) : svec :=
  fold_left (fun r' kl => {| vals := insert (off + fst kl) (snd kl) (vals r');
                             idx := kins (off + fst kl) (idx r'); dim := dim r' |}) seq r.
(* AppendScalar(xs...) / AppendVector(dense): fresh cells, zeros stored explicitly *)
Fixpoint append_fresh (h : heap) (k : Z) (xs : list Z) (r : svec) : heap * svec :=
  match xs with
  | [] => (h, r)
  | x :: xs' =>
      let '(h', l) := halloc h x in
      append_fresh h' (k + 1) xs' {| vals := insert k l (vals r); idx := kins k (idx r); dim := dim r |}
  end.
Definition set_dim (n : Z) (v : svec) : svec := {| vals := vals v; idx := idx v; dim := n |}.

(* NewSparseXVector(indices, values, n) : None = panic *)
Fixpoint new_loop (h : heap) (n : Z) (ks xs : list Z) (r : svec) : option (heap * svec) :=
  match ks, xs with
  | k :: ks', x :: xs' =>
      if n <=? k then None
      else match lookup k (vals r) with
           | Some _ => None
           | None =>
               if x =? 0 then new_loop h n ks' xs' r
               else let '(h', l) := halloc h x in
                    new_loop h' n ks' xs' {| vals := insert k l (vals r); idx := kins k (idx r); dim := dim r |}
           end
  | _, _ => Some (h, r)
  end.
Definition new_vec (h : heap) (ks xs : list Z) (n : Z) : option (heap * svec) :=
  if negb (Nat.eqb (length ks) (length xs)) then None else new_loop h n ks xs (nil_vec n).

(* ----------------------------------------------------------------- world *)
Record world := { hp : heap; vecs : list svec }.
Definition init : world := {| hp := []; vecs := [] |}.
Definition getv (w : world) (t : nat) : svec := nth t (vecs w) (nil_vec 0).
Definition setv (w : world) (t : nat) (v : svec) : world := {| hp := hp w; vecs := upd t v (vecs w) |}.
Definition seth (w : world) (h : heap) : world := {| hp := h; vecs := vecs w |}.
Definition addv (w : world) (v : svec) : world := {| hp := hp w; vecs := vecs w ++ [v] |}.

(* second / third operand of a joint iterator: the ConstIterator of a sparse
   vector of the world (a plain iterator, it mutates that vector through skip)
   or of a dense vector (visits every position, zeros included) *)
Inductive citer := CS (u : nat) (cur : option Z) | CD (d : list Z) (pos : Z).
Definition ci_ok (c : citer) : bool :=
  match c with CS _ cur => match cur with Some _ => true | None => false end
             | CD d p => p <? Z.of_nat (length d) end.
Definition ci_index (c : citer) : Z :=
  match c with CS _ cur => match cur with Some k => k | None => 0 end | CD _ p => p end.
(* GetConst(): nil (None) when the sparse entry is absent *)
Definition ci_get (w : world) (c : citer) : option Z :=
  match c with
  | CS u cur => match cur with
                | Some k => match lookup k (vals (getv w u)) with Some l => Some (hget (hp w) l) | None => None end
                | None => None end
  | CD d p => Some (nth (Z.to_nat p) d 0)
  end.
Definition ci_next (w : world) (c : citer) : option (world * citer) :=
  match c with
  | CS u cur => match it_next (hp w) (getv w u) cur with
                | Some (v', cur') => Some (setv w u v', CS u cur')
                | None => None end
  | CD d p => Some (w, CD d (p + 1))
  end.
Inductive operand := OS (u : nat) | OD (d : list Z).
Definition ci_begin (w : world) (o : operand) : option (world * citer) :=
  match o with
  | OS u => match it_begin (hp w) (getv w u) with
            | Some (v', cur) => Some (setv w u v', CS u cur)
            | None => None end
  | OD d => Some (w, CD d 0)
  end.
Definition op_dim (w : world) (o : operand) : Z :=
  match o with OS u => dim (getv w u) | OD d => Z.of_nat (length d) end.
Definition op_len (w : world) (o : operand) : nat :=
  match o with OS u => length (idx (getv w u)) | OD d => length d end.

(* JOINT_ITERATOR (and, observationally identical, JOINT_ITERATOR_) *)
Record joint := { j1 : option Z; j2 : citer; jidx : Z; js1 : option loc; js2 : option Z; jok : bool }.
(* Next(): js2 = None stands for "s2 == nil" before it is replaced by the constant 0 *)
Definition joint_next (w : world) (t : nat) (j : joint) : option (world * joint) :=
  let ok1 := match j1 j with Some _ => true | None => false end in
  let ok2 := ci_ok (j2 j) in
  let '(i0, s1) := match j1 j with
                   | Some k => (k, lookup k (vals (getv w t)))
                   | None => (jidx j, None) end in
  let '(i1, s1', s2) :=
    if ok2 then
      let i2 := ci_index (j2 j) in
      if (i2 <? i0) || negb ok1 then (i2, None, ci_get w (j2 j))
      else if i0 =? i2 then (i0, s1, ci_get w (j2 j))
      else (i0, s1, None)
    else (i0, s1, None) in
  let ok := match s1', s2 with None, None => false | _, _ => true end in
  match (match s1' with
         | Some _ => match it_next (hp w) (getv w t) (j1 j) with
                     | Some (v', c') => Some (setv w t v', c')
                     | None => None end
         | None => Some (w, j1 j) end) with
  | None => None
  | Some (w1, c1) =>
      match (match s2 with Some _ => ci_next w1 (j2 j) | None => Some (w1, j2 j) end) with
      | None => None
      | Some (w2, c2) =>
          Some (w2, {| j1 := c1; j2 := c2; jidx := i1; js1 := s1'; js2 := s2; jok := ok |})
      end
  end.
Definition joint_begin (w : world) (t : nat) (o : operand) : option (world * joint) :=
  match it_begin (hp w) (getv w t) with
  | None => None
  | Some (v', c1) =>
      match ci_begin (setv w t v') o with
      | None => None
      | Some (w1, c2) =>
          joint_next w1 t {| j1 := c1; j2 := c2; jidx := -1; js1 := None; js2 := None; jok := false |}
      end
  end.
Definition jval (s : option Z) : Z := match s with Some x => x | None => 0 end.

(* a visit: (index, receiver cell present?, receiver value, operand value) *)
Fixpoint joint_loop (fuel : nat) (w : world) (t : nat) (j : joint) (acc : list (Z * bool * Z * Z))
  : option (world * list (Z * bool * Z * Z)) :=
  if jok j then
    match fuel with
    | O => None
    | S f =>
        let vis := (jidx j, match js1 j with Some _ => true | None => false end,
                    match js1 j with Some l => hget (hp w) l | None => 0 end, jval (js2 j)) in
        match joint_next w t j with
        | None => None
        | Some (w', j') => joint_loop f w' t j' (vis :: acc)
        end
    end
  else Some (w, rev acc).
Definition jfuel (w : world) (t : nat) (o : operand) : nat :=
  S (S (length (idx (getv w t)) + op_len w o)).
Definition joint_run (w : world) (t : nat) (o : operand) :=
  match joint_begin w t o with
  | None => None
  | Some (w1, j) => joint_loop (jfuel w t o) w1 t j []
  end.

(* Set(x) / SET(x): receiver == x -> nothing; dims differ -> panic;
   loop: s1 present -> s1.Set(s2) (the constant 0 when s2 is absent); else AT(idx).Set(s2) *)
Fixpoint set_loop (fuel : nat) (w : world) (t : nat) (j : joint) : option (world * bool) :=
  if jok j then
    match fuel with
    | O => None
    | S f =>
        match (match js1 j with
               | Some l => Some (seth w (hset (hp w) l (jval (js2 j))))
               | None => match at_ (hp w) (getv w t) (jidx j) with
                         | Some (h', v', l) => Some (seth (setv w t v') (hset h' l (jval (js2 j))))
                         | None => None end
               end) with
        | None => Some (w, false)       (* AT panicked (key outside [0,n)): the loop stops HERE,
                                           what was written so far stays *)
        | Some w1 => match joint_next w1 t j with
                     | None => None
                     | Some (w2, j') => set_loop f w2 t j'
                     end
        end
    end
  else Some (w, true).
(* result: None = out of fuel; Some (w', true) = done; Some (w', false) = panicked in state w' *)
Definition set_vec (w : world) (t : nat) (o : operand) : option (world * bool) :=
  match o with
  | OS u => if Nat.eqb t u then Some (w, true) else
            if negb (dim (getv w t) =? dim (getv w u)) then Some (w, false) else
            match joint_begin w t o with
            | None => None
            | Some (w1, j) => set_loop (jfuel w t o) w1 t j end
  | OD d => if negb (dim (getv w t) =? Z.of_nat (length d)) then Some (w, false) else
            match joint_begin w t o with
            | None => None
            | Some (w1, j) => set_loop (jfuel w t o) w1 t j end
  end.

(* JOINT3_ITERATOR (and JOINT3_ITERATOR_) *)
Record joint3 := { k1 : option Z; k2 : citer; k3 : citer; kidx : Z;
                   ks1 : option loc; ks2 : option Z; ks3 : option Z; kok : bool }.
Definition joint3_next (w : world) (t : nat) (j : joint3) : option (world * joint3) :=
  let ok1 := match k1 j with Some _ => true | None => false end in
  let ok2 := ci_ok (k2 j) in
  let ok3 := ci_ok (k3 j) in
  let '(i0, s1) := match k1 j with
                   | Some k => (k, lookup k (vals (getv w t)))
                   | None => (kidx j, None) end in
  let '(i1, s1a, s2a) :=
    if ok2 then
      let i := ci_index (k2 j) in
      if (i <? i0) || negb ok1 then (i, None, ci_get w (k2 j))
      else if i0 =? i then (i0, s1, ci_get w (k2 j))
      else (i0, s1, None)
    else (i0, s1, None) in
  let '(i2, s1b, s2b, s3b) :=
    if ok3 then
      let i := ci_index (k3 j) in
      if (i <? i1) || (negb ok1 && negb ok2) then (i, None, None, ci_get w (k3 j))
      else if i1 =? i then (i1, s1a, s2a, ci_get w (k3 j))
      else (i1, s1a, s2a, None)
    else (i1, s1a, s2a, None) in
  let ok := match s1b, s2b, s3b with None, None, None => false | _, _, _ => true end in
  match (match s1b with
         | Some _ => match it_next (hp w) (getv w t) (k1 j) with
                     | Some (v', c') => Some (setv w t v', c')
                     | None => None end
         | None => Some (w, k1 j) end) with
  | None => None
  | Some (w1, c1) =>
      match (match s2b with Some _ => ci_next w1 (k2 j) | None => Some (w1, k2 j) end) with
      | None => None
      | Some (w2, c2) =>
          match (match s3b with Some _ => ci_next w2 (k3 j) | None => Some (w2, k3 j) end) with
          | None => None
          | Some (w3, c3) =>
              Some (w3, {| k1 := c1; k2 := c2; k3 := c3; kidx := i2;
                           ks1 := s1b; ks2 := s2b; ks3 := s3b; kok := ok |})
          end
      end
  end.
Definition joint3_begin (w : world) (t : nat) (o2 o3 : operand) : option (world * joint3) :=
  match it_begin (hp w) (getv w t) with
  | None => None
  | Some (v', c1) =>
      match ci_begin (setv w t v') o2 with
      | None => None
      | Some (w1, c2) =>
          match ci_begin w1 o3 with
          | None => None
          | Some (w2, c3) =>
              joint3_next w2 t {| k1 := c1; k2 := c2; k3 := c3; kidx := -1;
                                  ks1 := None; ks2 := None; ks3 := None; kok := false |}
          end
      end
  end.
Fixpoint joint3_loop (fuel : nat) (w : world) (t : nat) (j : joint3) (acc : list (Z * bool * Z * Z * Z))
  : option (world * list (Z * bool * Z * Z * Z)) :=
  if kok j then
    match fuel with
    | O => None
    | S f =>
        let vis := (kidx j, match ks1 j with Some _ => true | None => false end,
                    match ks1 j with Some l => hget (hp w) l | None => 0 end, jval (ks2 j), jval (ks3 j)) in
        match joint3_next w t j with
        | None => None
        | Some (w', j') => joint3_loop f w' t j' (vis :: acc)
        end
    end
  else Some (w, rev acc).
Definition joint3_run (w : world) (t : nat) (o2 o3 : operand) :=
  match joint3_begin w t o2 o3 with
  | None => None
  | Some (w1, j) => joint3_loop (S (S (length (idx (getv w t)) + op_len w o2 + op_len w o3))) w1 t j []
  end.

(* ------------------------------------------------------------ operations *)
Inductive op :=
  | New (ks xs : list Z) (n : Z)         (* NewSparseXVector(indices, values, n) *)
  | At (t : nat) (i : Z)                 (* v.At(i): creates, no write *)
  | SetAt (t : nat) (i x : Z)            (* v.At(i).SetFloat64(x) *)
  | ConstAt (t : nat) (i : Z)            (* v.ConstAt(i).GetFloat64() *)
  | SetV (t : nat) (o : operand)         (* v.Set(x) generic, x sparse or dense *)
  | SETV (t u : nat)                     (* v.SET(x) concrete *)
  | Reset (t : nat)
  | ReverseOrder (t : nat)
  | Swap (t : nat) (i j : Z)
  | Permute (t : nat) (pi : list Z)
  | Sort (t : nat) (r : bool)
  | Slice (t : nat) (i j : Z)
  | AppendV (t u : nat)                  (* v.AppendVector(sparse of the same type) = APPEND *)
  | AppendS (t : nat) (xs : list Z)      (* v.AppendScalar(xs...) *)
  | AppendD (t : nat) (d : list Z)       (* v.AppendVector(dense) *)
  | MapMul (t : nat) (c : Z)             (* v.Map(x := x*c) *)
  | MapAdd (t : nat) (c : Z)             (* v.Map(x := x+c): stored entries only *)
  | MapSetMul (t : nat) (c : Z)          (* v.MapSet(x -> x*c) *)
  | ReduceSum (t : nat)
  | Iterate (t : nat)                    (* full ConstIterator loop *)
  | IterPart (t : nat) (m : nat)         (* the loop abandoned after m visits *)
  | IterFrom (t : nat) (i : Z)           (* full ConstIteratorFrom(i) loop *)
  | Clone (t : nat)
  | Joint (t : nat) (o : operand)        (* full JointIterator loop, no mutation by the caller *)
  | Joint3 (t : nat) (o2 o3 : operand).  (* full JOINT3_ITERATOR loop *)

(* outcome kinds *)
Definition K_OK : Z := 0.
Definition K_PANIC : Z := 1.
Definition K_ERR : Z := 2.
Definition K_FUEL : Z := 3.    (* model ran out of fuel: never equals a Go outcome *)

Definition flat2 (l : list (Z * Z)) : list Z := flat_map (fun p => [fst p; snd p]) l.
Definition seq_vals (h : heap) (s : list (Z * loc)) : list Z := flat_map (fun p => [fst p; hget h (snd p)]) s.
Definition b2z (b : bool) : Z := if b then 1 else 0.

Definition exists_vec (w : world) (t : nat) : bool := Nat.ltb t (length (vecs w)).

(* step: new world, outcome kind, payload *)
Definition step (w : world) (o : op) : world * (Z * list Z) :=
  let h := hp w in
  match o with
  | New ks xs n =>
      match new_vec h ks xs n with
      | Some (h', v) => (addv (seth w h') v, (K_OK, []))
      | None => (w, (K_PANIC, []))
      end
  | At t i =>
      match at_ h (getv w t) i with
      | Some (h', v', l) => (seth (setv w t v') h', (K_OK, [hget h' l]))
      | None => (w, (K_PANIC, []))
      end
  | SetAt t i x =>
      match at_ h (getv w t) i with
      | Some (h', v', l) => (seth (setv w t v') (hset h' l x), (K_OK, []))
      | None => (w, (K_PANIC, []))
      end
  | ConstAt t i =>
      match const_at h (getv w t) i with
      | Some x => (w, (K_OK, [x]))
      | None => (w, (K_PANIC, []))
      end
  | SetV t o =>
      match set_vec w t o with
      | Some (w', ok) => (w', (if ok then K_OK else K_PANIC, []))
      | None => (w, (K_FUEL, []))
      end
  | SETV t u =>
      match set_vec w t (OS u) with
      | Some (w', ok) => (w', (if ok then K_OK else K_PANIC, []))
      | None => (w, (K_FUEL, []))
      end
  | Reset t => (seth w (reset h (getv w t)), (K_OK, []))
  | ReverseOrder t => (setv w t (reverse_order (getv w t)), (K_OK, []))
  | Swap t i j => (setv w t (swap (getv w t) i j), (K_OK, []))
  | Permute t pi =>
      let '(v', ok) := permute (getv w t) pi in
      (setv w t v', (if ok then K_OK else K_ERR, []))
  | Sort t r =>
      match sort h (getv w t) r with
      | Some v' => (setv w t v', (K_OK, []))
      | None => (w, (K_FUEL, []))
      end
  | Slice t i j => (addv w (slice (getv w t) i j), (K_OK, []))
  | AppendV t u =>
      let v := getv w t in
      let '(h1, r) := clone h v in
      let w1 := seth w h1 in
      match iterate h1 (getv w1 u) with
      | None => (w, (K_FUEL, []))
      | Some (u', seq) =>
          let r' := append_entries (dim v) seq (set_dim (dim v + dim (getv w u)) r) in
          (addv (setv w1 u u') r', (K_OK, []))
      end
  | AppendS t xs =>
      let v := getv w t in
      let '(h1, r) := clone h v in
      let '(h2, r') := append_fresh h1 (dim v) xs (set_dim (dim v + Z.of_nat (length xs)) r) in
      (addv (seth w h2) r', (K_OK, []))
  | AppendD t d =>
      let v := getv w t in
      let '(h1, r) := clone h v in
      let '(h2, r') := append_fresh h1 (dim v) d (set_dim (dim v + Z.of_nat (length d)) r) in
      (addv (seth w h2) r', (K_OK, []))
  | MapMul t c => (seth w (map_cells (fun x => x * c) h (getv w t)), (K_OK, []))
  | MapAdd t c => (seth w (map_cells (fun x => x + c) h (getv w t)), (K_OK, []))
  | MapSetMul t c => (seth w (map_cells (fun x => x * c) h (getv w t)), (K_OK, []))
  | ReduceSum t => (w, (K_OK, [reduce_sum h (getv w t)]))
  | Iterate t =>
      match iterate h (getv w t) with
      | Some (v', s) => (setv w t v', (K_OK, seq_vals h s))
      | None => (w, (K_FUEL, []))
      end
  | IterPart t m =>
      match it_begin h (getv w t) with
      | Some (v0, cur) =>
          match iter_part m h v0 cur [] with
          | Some (v', s) => (setv w t v', (K_OK, seq_vals h s))
          | None => (w, (K_FUEL, []))
          end
      | None => (w, (K_FUEL, []))
      end
  | IterFrom t i =>
      match it_from h (getv w t) i with
      | Some (v0, cur) =>
          match iter_loop (sfuel (getv w t)) h v0 cur [] with
          | Some (v', s) => (setv w t v', (K_OK, seq_vals h s))
          | None => (w, (K_FUEL, []))
          end
      | None => (w, (K_FUEL, []))
      end
  | Clone t =>
      let '(h1, r) := clone h (getv w t) in (addv (seth w h1) r, (K_OK, []))
  | Joint t o =>
      match joint_run w t o with
      | Some (w', vis) =>
          (w', (K_OK, flat_map (fun x => let '(i, p, a, b) := x in [i; b2z p; a; b]) vis))
      | None => (w, (K_FUEL, []))
      end
  | Joint3 t o2 o3 =>
      match joint3_run w t o2 o3 with
      | Some (w', vis) =>
          (w', (K_OK, flat_map (fun x => let '(i, p, a, b, c) := x in [i; b2z p; a; b; c]) vis))
      | None => (w, (K_FUEL, []))
      end
  end.

Definition run (w : world) (ops : list op) : world := fold_left (fun w o => fst (step w o)) ops w.

(* ------------------------------------------------------------ observation *)
(* what the harness records for one vector after every operation:
   Dim; ConstAt for every index; the private map (sorted by key, with the
   stored value); the AVL index keys; the ConstIterator sequence of a Clone
   (so that observing does not run skip() on the observed vector) *)
Fixpoint zseq (a : Z) (n : nat) : list Z := match n with O => [] | S m => a :: zseq (a + 1) m end.
Definition abs_vec (h : heap) (v : svec) : list Z := map (peek h v) (zseq 0 (Z.to_nat (dim v))).
Fixpoint ins_key (kv : Z * Z) (l : list (Z * Z)) : list (Z * Z) :=
  match l with
  | [] => [kv]
  | x :: r => if fst kv <=? fst x then kv :: x :: r else x :: ins_key kv r
  end.
Definition map_dump (h : heap) (v : svec) : list (Z * Z) :=
  fold_left (fun acc kv => ins_key (fst kv, hget h (snd kv)) acc) (vals v) [].
Definition SEP : Z := -7771.
Definition obs_vec (h : heap) (v : svec) : list Z :=
  [dim v; SEP] ++ abs_vec h v ++ [SEP] ++ flat2 (map_dump h v) ++ [SEP] ++ idx v ++ [SEP] ++
  (match iterate h v with Some (_, s) => seq_vals h s | None => [SEP; SEP] end) ++ [SEP].
Definition obs_world (w : world) : list Z := flat_map (obs_vec (hp w)) (vecs w).
Definition HP : Z := 2147483647.
Definition hash (l : list Z) : Z := fold_left (fun a x => (a * 1000003 + x + 12345) mod HP) l 17.
