(* C11, sparse matrices — property theorems (statements only; proofs live in
   ProofsMat.v / ProofsMatRef.v).  They are about the model ModelMat.v of
   matrix_sparse_template.in, WHOLE matrices only (views are C10's subject).
   All statements quantify over ALL histories / all matrices, no bounds. *)
From Coq Require Import ZArith List Bool Lia Sorted.
From ADV Require Import C11.Model C11.Spec C11.ProofsMap C11.ProofsIter C11.ProofsInv C11.ProofsRef
                        C11.ModelMat C11.ProofsMatSpec C11.ProofsMat C11.ProofsMatRef.
Import ListNotations.
Open Scope Z_scope.

(* 1. the matrix invariant (the `values` vector is coherent in the sense of
      C11.Spec.Inv and has the length rows*cols the whole-matrix header promises)
      holds initially, is kept by every in-range operation of the model (all 22,
      including both loops of Set / SetIdentity, the iterator-driven Reset, T(),
      Tip(), SwapRows/SwapColumns, Map creating every entry), hence after every
      in-range history *)
Theorem mat_inv_initial : MWInv minit.
Proof. exact MWInv_minit. Qed.
Theorem mat_inv_step : forall w o, MWInv w -> min_range w o -> MWInv (fst (mstep w o)).
Proof. exact mstep_MWInv. Qed.
Theorem mat_inv_all_histories : forall ops, mvalid minit ops -> MWInv (mrun minit ops).
Proof. intros ops V. exact (mrun_MWInv ops minit MWInv_minit V). Qed.

(* 2. every in-range read of a whole matrix succeeds and returns element (i,j)
      of the dense matrix (list of rows) it stands for — in any state *)
Theorem mat_reads_succeed : forall h m i j,
  Whole m -> pos_ok m i j -> mconst_at h m i j = Some (mget (mabs h m) i j).
Proof. exact mread_ok. Qed.
Theorem mat_reads_succeed_reachable : forall ops t i j,
  mvalid minit ops -> let w := mrun minit ops in
  pos_ok (getm w t) i j -> mconst_at (mhp w) (getm w t) i j = Some (mget (mabs (mhp w) (getm w t)) i j).
Proof.
  intros ops t i j V w P. apply mread_ok; auto.
  apply (MWInv_getm w t (mrun_MWInv ops minit MWInv_minit V)).
Qed.

(* 4. iteration from any state satisfying MInv (in particular any reachable one):
      it terminates without running out of fuel, reports positions in strictly
      increasing ROW-MAJOR order (hence once each), reports ((i,j),x) iff element
      (i,j) of the dense matrix is x <> 0, changes no element and no dimension
      and leaves the matrix coherent.  New with respect to the vector theorem:
      k |-> (k / cols, k mod cols) is the inverse of index on [0, rows*cols) *)
Theorem mat_iteration_exact : forall h m,
  MInv m ->
  exists v1 s, iterate h (mv m) = Some (v1, s) /\
    StronglySorted lexlt (map fst (mvisits h m s)) /\
    (forall i j x, In ((i, j), x) (mvisits h m s) <->
                   pos_ok m i j /\ x = mget (mabs h m) i j /\ x <> 0) /\
    mabs h (set_mv m v1) = mabs h m /\ mdims (set_mv m v1) = mdims m /\ MInv (set_mv m v1).
Proof. exact miterate_visits. Qed.
Theorem mat_index_ij_inverse : forall m,
  Whole m ->
  (forall i j, pos_ok m i j -> mij m (i * mcols m + j) = (i, j)) /\
  (forall k i j, 0 <= k < dim (mv m) -> mij m k = (i, j) -> pos_ok m i j /\ k = i * mcols m + j).
Proof. intros m W. split; [intros; apply mij_index; auto|intros; eapply index_mij; eauto]. Qed.

(* 5. no operation changes the dimensions of an existing matrix, except Tip which
      swaps them (there is no matrix Append); the matrix made by T() has the
      swapped dimensions *)
Theorem mat_dims_step : forall w o u,
  MWInv w -> (u < length (mats w))%nat ->
  mdims (getm (fst (mstep w o)) u) =
  match o with
  | MTip t => if Nat.eqb t u
              then match mtip (getm w u) with
                   | Some _ => (mcols (getm w u), mrows (getm w u))
                   | None => mdims (getm w u)
                   end
              else mdims (getm w u)
  | _ => mdims (getm w u)
  end.
Proof. exact mstep_dims. Qed.
Theorem mat_dims_T : forall m m', MInv m -> mtrans m = Some m' -> MInv m' /\ mdims m' = (mcols m, mrows m).
Proof. exact mtrans_MInv. Qed.

(* 3. refinement to the plain dense matrix (list of rows), single step.
      PARTIAL: proved for At(i,j).Set(x) (needs Wf: cells allocated, no cell twice
      in `values`) and Swap(i1,j1,i2,j2), plus totality of both on in-range
      arguments.  NOT proved (covered by the correspondence run and the
      dense-shadow oracle `mathunt` only): the corresponding equations for Reset
      (all zero), SetIdentity (didentity rows cols, incl. non-square), T()
      (mget (mabs h (T m)) j i = mget (mabs h m) i j), Set (mabs a = mabs b resp.
      the dense operand), Clone (mabs equal, cells fresh), Map (element-wise),
      SwapRows/SwapColumns/Tip; the preservation of Wf along histories
      (C11/ProofsWf.v of the vector part was not available) and therefore the
      whole-history statement mabs (mrun ops) = dense_run ops.  Termination of
      Tip's cycle following within the model's fuel is not proved either (the
      correspondence would show K_FUEL). *)
Theorem mat_refinement_single_step_partial :
  (forall h m i j x h' m' l i' j',
     MInv m -> Wf h (mv m) -> mat_at h m i j = Some (h', m', l) -> pos_ok m i' j' ->
     mget (mabs (hset h' l x) m') i' j' = if (i' =? i) && (j' =? j) then x else mget (mabs h m) i' j') /\
  (forall h m i j, Whole m -> pos_ok m i j -> exists h' m' l, mat_at h m i j = Some (h', m', l)) /\
  (forall h m i1 j1 i2 j2 m' i j,
     MInv m -> mswap m i1 j1 i2 j2 = Some m' -> pos_ok m i j ->
     mget (mabs h m') i j =
     if (i =? i1) && (j =? j1) then mget (mabs h m) i2 j2
     else if (i =? i2) && (j =? j2) then mget (mabs h m) i1 j1 else mget (mabs h m) i j) /\
  (forall m i1 j1 i2 j2, pos_ok m i1 j1 -> pos_ok m i2 j2 -> exists m', mswap m i1 j1 i2 j2 = Some m').
Proof. exact (conj mset_at_refines (conj mat_at_in_range_ok (conj mswap_refines mswap_in_range_ok))). Qed.
