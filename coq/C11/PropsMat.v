(* C11, sparse matrices — property theorems (statements only; proofs live in
   ProofsMat.v / ProofsMatRef.v).  They are about the model ModelMat.v of
   matrix_sparse_template.in, WHOLE matrices only (views are C10's subject).
   All statements quantify over ALL histories / all matrices, no bounds. *)
From Coq Require Import ZArith List Bool Lia Sorted.
From ADV Require Import C11.Model C11.Spec C11.Dense C11.ProofsMap C11.ProofsIter C11.ProofsInv C11.ProofsRef
                        C11.ModelMat C11.ProofsMatSpec C11.ProofsMat C11.ProofsMatRef
                        C11.ProofsMatDense C11.ProofsMatDense2 C11.ProofsMatDense3.
Import ListNotations.
Open Scope Z_scope.

(* 1. the matrix invariant (the `values` vector is coherent in the sense of
      C11.Spec.Inv and has the length rows*cols the whole-matrix header promises)
      holds initially, is kept by every in-range operation of the model (all 22,
      including both loops of Set / SetIdentity, the iterator-driven Reset, T(),
      Tip(), SwapRows/SwapColumns, Map creating every entry), hence after every
      in-range history *)
Theorem mat_inv_initial : MWInv minit.
Proof. exact MWInv_minit. Qed.
Theorem mat_inv_step : forall w o, MWInv w -> min_range w o -> MWInv (fst (mstep w o)).
Proof. exact mstep_MWInv. Qed.
Theorem mat_inv_all_histories : forall ops, mvalid minit ops -> MWInv (mrun minit ops).
Proof. intros ops V. exact (mrun_MWInv ops minit MWInv_minit V). Qed.

(* 2. every in-range read of a whole matrix succeeds and returns element (i,j)
      of the dense matrix (list of rows) it stands for — in any state *)
Theorem mat_reads_succeed : forall h m i j,
  Whole m -> pos_ok m i j -> mconst_at h m i j = Some (mget (mabs h m) i j).
Proof. exact mread_ok. Qed.
Theorem mat_reads_succeed_reachable : forall ops t i j,
  mvalid minit ops -> let w := mrun minit ops in
  pos_ok (getm w t) i j -> mconst_at (mhp w) (getm w t) i j = Some (mget (mabs (mhp w) (getm w t)) i j).
Proof.
  intros ops t i j V w P. apply mread_ok; auto.
  apply (MWInv_getm w t (mrun_MWInv ops minit MWInv_minit V)).
Qed.

(* 4. iteration from any state satisfying MInv (in particular any reachable one):
      it terminates without running out of fuel, reports positions in strictly
      increasing ROW-MAJOR order (hence once each), reports ((i,j),x) iff element
      (i,j) of the dense matrix is x <> 0, changes no element and no dimension
      and leaves the matrix coherent.  New with respect to the vector theorem:
      k |-> (k / cols, k mod cols) is the inverse of index on [0, rows*cols) *)
Theorem mat_iteration_exact : forall h m,
  MInv m ->
  exists v1 s, iterate h (mv m) = Some (v1, s) /\
    StronglySorted lexlt (map fst (mvisits h m s)) /\
    (forall i j x, In ((i, j), x) (mvisits h m s) <->
                   pos_ok m i j /\ x = mget (mabs h m) i j /\ x <> 0) /\
    mabs h (set_mv m v1) = mabs h m /\ mdims (set_mv m v1) = mdims m /\ MInv (set_mv m v1).
Proof. exact miterate_visits. Qed.
Theorem mat_index_ij_inverse : forall m,
  Whole m ->
  (forall i j, pos_ok m i j -> mij m (i * mcols m + j) = (i, j)) /\
  (forall k i j, 0 <= k < dim (mv m) -> mij m k = (i, j) -> pos_ok m i j /\ k = i * mcols m + j).
Proof. intros m W. split; [intros; apply mij_index; auto|intros; eapply index_mij; eauto]. Qed.

(* 5. no operation changes the dimensions of an existing matrix, except Tip which
      swaps them (there is no matrix Append); the matrix made by T() has the
      swapped dimensions *)
Theorem mat_dims_step : forall w o u,
  MWInv w -> (u < length (mats w))%nat ->
  mdims (getm (fst (mstep w o)) u) =
  match o with
  | MTip t => if Nat.eqb t u
              then match mtip (getm w u) with
                   | Some _ => (mcols (getm w u), mrows (getm w u))
                   | None => mdims (getm w u)
                   end
              else mdims (getm w u)
  | _ => mdims (getm w u)
  end.
Proof. exact mstep_dims. Qed.
Theorem mat_dims_T : forall m m', MInv m -> mtrans m = Some m' -> MInv m' /\ mdims m' = (mcols m, mrows m).
Proof. exact mtrans_MInv. Qed.

(* 3. refinement to the plain dense matrix (list of rows), single step.
      PARTIAL (this theorem: At(i,j).Set(x) and Swap, with totality on in-range
      arguments).  Proved in full below (3a-3e): Reset, SetIdentity (incl.
      non-square), Clone, T(), Set from a dense source.  NOT proved (covered by the correspondence run and
      the dense-shadow oracle `mathunt` only): the closed forms for Map/MapSet
      (only the fold characterisation map_list_spec: peek = mp_fun ...; missing:
      NoDup of the row-major position list), Set with a SPARSE source (its reads
      depend on the heap during loop 1; the dense source is 3e below; lifting 3e
      through the world-level wrapper `mset` is
      missing), SwapRows/SwapColumns/Tip, the constructor; the step-level theorem
      over worlds (frame of the other matrices under a `safe`-style premise: the
      per-operation MPost below provides the heap frame and the cell inclusion it
      needs) and therefore the whole-history statement.  Termination of Tip's
      cycle following within the model's fuel is not proved either. *)
Theorem mat_refinement_single_step_partial :
  (forall h m i j x h' m' l i' j',
     MInv m -> Wf h (mv m) -> mat_at h m i j = Some (h', m', l) -> pos_ok m i' j' ->
     mget (mabs (hset h' l x) m') i' j' = if (i' =? i) && (j' =? j) then x else mget (mabs h m) i' j') /\
  (forall h m i j, Whole m -> pos_ok m i j -> exists h' m' l, mat_at h m i j = Some (h', m', l)) /\
  (forall h m i1 j1 i2 j2 m' i j,
     MInv m -> mswap m i1 j1 i2 j2 = Some m' -> pos_ok m i j ->
     mget (mabs h m') i j =
     if (i =? i1) && (j =? j1) then mget (mabs h m) i2 j2
     else if (i =? i2) && (j =? j2) then mget (mabs h m) i1 j1 else mget (mabs h m) i j) /\
  (forall m i1 j1 i2 j2, pos_ok m i1 j1 -> pos_ok m i2 j2 -> exists m', mswap m i1 j1 i2 j2 = Some m').
Proof. exact (conj mset_at_refines (conj mat_at_in_range_ok (conj mswap_refines mswap_in_range_ok))). Qed.

(* 3a-3d. dense refinement of whole operations on one well-formed matrix
      (MInv m, Wf h (mv m)): the operation succeeds (never K_FUEL / K_PANIC), the
      result stands for D (mabs h m), and MPost holds: MInv and Wf are kept,
      dimensions unchanged, the heap only grows, cells outside the matrix keep
      their value (frame) and the matrix holds only its old cells or fresh ones. *)
(* Reset(): all zeros.  The matrix Reset runs through the matrix ITERATOR with
   skip(): entries that are null when met are dropped, the others become stored zeros *)
Theorem mat_reset_refines : forall h m,
  MInv m -> Wf h (mv m) ->
  exists h' m', mreset h m = Some (h', m', true) /\ mabs h' m' = dzero (mabs h m) /\ MPost h m h' m'.
Proof. exact mreset_refines. Qed.
(* SetIdentity(): the identity matrix, also for non-square matrices (both loops of fix bd36f8c) *)
Theorem mat_set_identity_refines : forall h m,
  MInv m -> Wf h (mv m) ->
  exists h' m', mset_identity h m = Some (h', m', true) /\
    mabs h' m' = didentity (mrows m) (mcols m) /\ MPost h m h' m'.
Proof. exact mset_identity_refines. Qed.
(* Clone(): same dense matrix, all cells fresh *)
Theorem mat_clone_refines : forall h m,
  MInv m -> Wf h (mv m) ->
  let h' := fst (clone h (mv m)) in let m' := set_mv m (snd (clone h (mv m))) in
  mabs h' m' = mabs h m /\ Wf h' (mv m') /\ MInv m' /\ (exists e, h' = h ++ e) /\
  (forall l, In l (cells_of (mv m')) -> (length h <= l)%nat).
Proof. exact mclone_refines. Qed.
(* T(): total on coherent whole matrices, the result is the transposed dense matrix,
   well-formed, and holds only cells of the receiver (it SHARES them: F-SPT-REF) *)
Theorem mat_T_refines : forall h m,
  MInv m -> Wf h (mv m) ->
  exists m', mtrans m = Some m' /\ MInv m' /\ mdims m' = (mcols m, mrows m) /\
    mabs h m' = dtrans (mrows m) (mcols m) (mabs h m) /\ Wf h (mv m') /\
    (forall l, In l (cells_of (mv m')) -> In l (cells_of (mv m))).
Proof. exact mtrans_refines. Qed.
(* building blocks for the remaining operations: a list of AT(i,j).Set(x) writes (SetIdentity
   loop 2, Set loop 2 with a dense source, the constructor) and Map's AT(i,j) sweep, as folds
   over the element function; the iterator write loop (Set loop 1) *)
Theorem mat_write_lists_partial :
  (forall es h m h' m' ok, MInv m -> Wf h (mv m) -> set_list es h m = (h', m', ok) ->
     (Forall (fun e => pos_ok m (fst (fst e)) (snd (fst e))) es -> ok = true) /\
     (ok = true -> WrPost h m h' m' (wr_fun (mcols m) es (peek h (mv m))))) /\
  (forall f ps h m h' m' ok, MInv m -> Wf h (mv m) -> map_list f ps h m = (h', m', ok) ->
     (Forall (fun p => pos_ok m (fst p) (snd p)) ps -> ok = true) /\
     (ok = true -> WrPost h m h' m' (mp_fun f (mcols m) ps (peek h (mv m))))).
Proof. exact (conj set_list_spec map_list_spec). Qed.
(* 3e. Set(b) with a dense source b of the receiver's dimensions: both loops of fix
   bd36f8c succeed (loop 1 through the iterator writing b(i,j) to the existing entries,
   loop 2 over the non-zero entries of b creating the missing ones) and the receiver
   then stands for b *)
Theorem mat_set_dense_refines : forall h m xs,
  MInv m -> Wf h (mv m) ->
  let r := mrows m in let c := mcols m in
  exists h1 m1 h2 m2,
    wr_all (fun _ _ i j => dense_at r c xs i j) h m = Some (h1, m1, true) /\
    set_list (dense_entries r c xs) h1 m1 = (h2, m2, true) /\
    mabs h2 m2 = ddense r c xs /\ MPost h m h2 m2.
Proof. exact mset_dense_refines. Qed.
