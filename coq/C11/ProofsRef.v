(* C11 — reads, iteration and single-step refinement to the dense model. *)
From Coq Require Import ZArith List Bool Lia Sorted.
From ADV Require Import C11.Model C11.Spec C11.ProofsMap C11.ProofsIter C11.ProofsInv.
Import ListNotations.
Open Scope Z_scope.

Lemma zseq_length a n : length (zseq a n) = n.
Proof. revert a. induction n; intro a; simpl; auto. Qed.
Lemma nth_zseq n : forall a i d, (i < n)%nat -> nth i (zseq a n) d = a + Z.of_nat i.
Proof.
  induction n as [|n IH]; intros a i d H; [lia|]. destruct i as [|i]; simpl.
  - lia.
  - rewrite IH; lia.
Qed.
Lemma abs_length h v : 0 <= dim v -> Z.of_nat (length (abs h v)) = dim v.
Proof. intro H. unfold abs, abs_vec. rewrite map_length, zseq_length. lia. Qed.
Lemma abs_nth h v i : 0 <= i < dim v -> nth (Z.to_nat i) (abs h v) 0 = peek h v i.
Proof.
  intro H. unfold abs, abs_vec.
  rewrite (nth_indep _ 0 (peek h v 0)) by (rewrite map_length, zseq_length; lia).
  rewrite map_nth. f_equal. rewrite nth_zseq; lia.
Qed.

(* every in-range read succeeds and returns the element of the dense list *)
Lemma read_ok h v i : idx_ok v i -> const_at h v i = Some (nth (Z.to_nat i) (abs h v) 0).
Proof.
  intro H. unfold idx_ok in H. unfold const_at, in_bounds.
  assert (E : (0 <=? i) && (i <? dim v) = true)
    by (apply andb_true_iff; split; [apply Z.leb_le|apply Z.ltb_lt]; lia).
  rewrite E, abs_nth; auto.
Qed.

(* ---- iteration ------------------------------------------------------------- *)
Lemma sset_filter p l : sset l -> sset (filter p l).
Proof.
  induction l as [|x r IH]; simpl; intro H; auto.
  apply sset_cons in H. destruct H as [Hs Hf]. destruct (p x); auto.
  apply sset_cons. split; auto. apply Forall_forall. intros y Hy.
  apply filter_In in Hy. rewrite Forall_forall in Hf. apply Hf. tauto.
Qed.
Lemma cells_keys v ks : map fst (cells v ks) = ks.
Proof. unfold cells. rewrite map_map. simpl. apply map_id. Qed.
Definition visits (h : heap) (s : list (Z * loc)) : list (Z * Z) := map (fun kl => (fst kl, hget h (snd kl))) s.

Lemma nonnull_peek h v k : nonnull h v k = true <-> peek h v k <> 0.
Proof.
  unfold nonnull, isnull, peek. destruct (lookup k (vals v)) as [l|].
  - destruct (hget h l =? 0) eqn:E; simpl.
    + apply Z.eqb_eq in E. split; [discriminate|lia].
    + apply Z.eqb_neq in E. tauto.
  - simpl. split; [discriminate|lia].
Qed.

Lemma iterate_visits h v :
  Inv v ->
  exists v1 s, iterate h v = Some (v1, s) /\
    sset (map fst s) /\
    (forall k x, In (k, x) (visits h s) <->
                 0 <= k < dim v /\ x = nth (Z.to_nat k) (abs h v) 0 /\ x <> 0) /\
    abs h v1 = abs h v /\ dim v1 = dim v /\ Inv v1.
Proof.
  intro H. destruct (iterate_spec h v) as (v1 & A & B & C); [apply H|].
  exists v1, (cells v (filter (nonnull h v) (idx v))). split; auto.
  inv_split H. split; [|split; [|split; [|split]]].
  - rewrite cells_keys. apply sset_filter; auto.
  - intros k x. unfold visits, cells. rewrite map_map. simpl. rewrite in_map_iff. split.
    + intros (k0 & E & Hin). inversion E. subst k0 x. clear E.
      apply filter_In in Hin. destruct Hin as [Hin Hnn].
      assert (R := Hr k Hin). split; auto. rewrite abs_nth; auto.
      apply nonnull_peek in Hnn. unfold peek, cell_of in *.
      destruct (lookup k (vals v)); [auto|lia].
    + intros (Hk & Hx & Hnz). rewrite abs_nth in Hx; auto. subst x.
      assert (Hnn : nonnull h v k = true) by (apply nonnull_peek; auto).
      exists k. split.
      * f_equal. unfold peek, cell_of in *. destruct (lookup k (vals v)); [auto|lia].
      * apply filter_In. split; auto. unfold peek in Hnz.
        destruct (lookup k (vals v)) as [l|] eqn:L; [eauto|lia].
  - unfold abs, abs_vec. destruct C as (_ & _ & C3). rewrite C3. apply map_ext. intro k.
    apply Q_peek. auto. unfold Q. destruct (iterate_spec h v) as (v1' & A' & B' & C'); [auto|].
    rewrite A in A'. inversion A'. subst. auto.
  - apply C.
  - eapply Inv_iterate; eauto. unfold Inv. auto.
Qed.

(* ---- single-step refinement of the elementary mutators --------------------- *)
Lemma peek_swap h v i j k : Inv v ->
  peek h (swap v i j) k = if k =? i then peek h v j else if k =? j then peek h v i else peek h v k.
Proof.
  intro H. unfold swap, peek.
  destruct (lookup i (vals v)) as [l1|] eqn:L1; destruct (lookup j (vals v)) as [l2|] eqn:L2; cbn [vals].
  - rewrite !lookup_insert. rewrite (Z.eqb_sym j k), (Z.eqb_sym i k).
    destruct (k =? i) eqn:E1; destruct (k =? j) eqn:E2; auto;
      try (apply Z.eqb_eq in E1); try (apply Z.eqb_eq in E2); subst; try congruence; rewrite ?L1, ?L2; auto.
  - rewrite lookup_remove, lookup_insert. rewrite (Z.eqb_sym j k), (Z.eqb_sym i k).
    destruct (k =? i) eqn:E1; destruct (k =? j) eqn:E2; auto;
      try (apply Z.eqb_eq in E1); try (apply Z.eqb_eq in E2); subst; try congruence; rewrite ?L1, ?L2; auto.
  - rewrite lookup_remove, lookup_insert. rewrite (Z.eqb_sym j k), (Z.eqb_sym i k).
    destruct (k =? i) eqn:E1; destruct (k =? j) eqn:E2; auto;
      try (apply Z.eqb_eq in E1); try (apply Z.eqb_eq in E2); subst; try congruence; rewrite ?L1, ?L2; auto.
  - destruct (k =? i) eqn:E1; [apply Z.eqb_eq in E1; subst; rewrite ?L1, ?L2; auto|].
    destruct (k =? j) eqn:E2; [apply Z.eqb_eq in E2; subst; rewrite ?L1, ?L2; auto|]. auto.
Qed.

(* At(i).Set(x) on a well-formed vector changes exactly position i *)
Lemma peek_set_at h v i x h' v' l k :
  Inv v -> Wf h v -> at_ h v i = Some (h', v', l) ->
  peek (hset h' l x) v' k = if k =? i then x else peek h v k.
Proof.
  intros H (W1 & W2). unfold at_. destruct (in_bounds v i); [|discriminate].
  destruct (lookup i (vals v)) as [l0|] eqn:L.
  - intro E. inversion E. subst h' v' l0. unfold peek.
    destruct (k =? i) eqn:E1.
    + apply Z.eqb_eq in E1. subst. rewrite L. apply hget_hset_eq. eauto.
    + destruct (lookup k (vals v)) as [lk|] eqn:Lk; auto.
      apply hget_hset_neq. intro. subst lk. apply Z.eqb_neq in E1. apply E1. eapply W2; eauto.
  - simpl. intro E. inversion E. subst h' v' l. unfold peek. cbn [vals].
    rewrite lookup_insert, (Z.eqb_sym i k). destruct (k =? i) eqn:E1.
    + unfold hset, hget. rewrite nth_upd_eq; auto. rewrite app_length. simpl. lia.
    + destruct (lookup k (vals v)) as [lk|] eqn:Lk; auto.
      assert (lk < length h)%nat by eauto.
      unfold hset, hget. rewrite nth_upd_neq by lia. rewrite app_nth1; auto.
Qed.

Lemma dim_swap v i j : dim (swap v i j) = dim v.
Proof. unfold swap. destruct (lookup i (vals v)); destruct (lookup j (vals v)); auto. Qed.
Lemma swap_refines h v i j k :
  Inv v -> idx_ok v i -> idx_ok v j -> 0 <= k < dim v ->
  nth (Z.to_nat k) (abs h (swap v i j)) 0 =
  if k =? i then nth (Z.to_nat j) (abs h v) 0 else if k =? j then nth (Z.to_nat i) (abs h v) 0
  else nth (Z.to_nat k) (abs h v) 0.
Proof.
  intros H Hi Hj Hk. unfold idx_ok in *.
  rewrite !abs_nth; rewrite ?dim_swap; auto. apply peek_swap; auto.
Qed.
Lemma dim_at h v i h' v' l : at_ h v i = Some (h', v', l) -> dim v' = dim v.
Proof.
  unfold at_. destruct (in_bounds v i); [|discriminate]. destruct (lookup i (vals v)).
  - intro E. inversion E. auto.
  - simpl. intro E. inversion E. auto.
Qed.
Lemma set_at_refines h v i x h' v' l k :
  Inv v -> Wf h v -> at_ h v i = Some (h', v', l) -> 0 <= k < dim v ->
  nth (Z.to_nat k) (abs (hset h' l x) v') 0 = if k =? i then x else nth (Z.to_nat k) (abs h v) 0.
Proof.
  intros H W A Hk. rewrite !abs_nth; auto.
  - eapply peek_set_at; eauto.
  - rewrite (dim_at _ _ _ _ _ _ A). auto.
Qed.
Lemma at_in_range_ok h v i : idx_ok v i -> exists h' v' l, at_ h v i = Some (h', v', l).
Proof.
  intro H. unfold idx_ok in H. unfold at_, in_bounds.
  assert (E : (0 <=? i) && (i <? dim v) = true)
    by (apply andb_true_iff; split; [apply Z.leb_le|apply Z.ltb_lt]; lia).
  rewrite E. destruct (lookup i (vals v)); simpl; eauto.
Qed.
