(* C11, sparse matrices — the matrix invariant MInv is preserved by every
   in-range operation of ModelMat.mstep (lifting the vector lemmas of
   ProofsInv.v), hence holds after every valid history. *)
From Coq Require Import ZArith List Bool Lia Sorted.
From ADV Require Import C11.Model C11.Spec C11.ProofsMap C11.ProofsIter C11.ProofsInv C11.ProofsRef
                        C11.ModelMat C11.ProofsMatSpec.
Import ListNotations.
Open Scope Z_scope.

(* ---- header bookkeeping ----------------------------------------------------- *)
Lemma Whole_set_mv m v : Whole m -> dim v = dim (mv m) -> Whole (set_mv m v).
Proof.
  unfold Whole, set_mv. cbn [mv mrows mcols roff rmax coff cmax].
  intros (H1 & H2 & H3 & H4 & H5 & H6 & H7) E. repeat split; auto. congruence.
Qed.
Lemma MInv_set_mv m v : MInv m -> Inv v -> dim v = dim (mv m) -> MInv (set_mv m v).
Proof. intros [_ W] I E. split; [exact I|apply Whole_set_mv; auto]. Qed.
Lemma set_mv_id m : set_mv m (mv m) = m.
Proof. destruct m; reflexivity. Qed.

Lemma mindex_Some m i j k :
  mindex m i j = Some k -> pos_ok m i j /\ k = (roff m + i) * cmax m + (coff m + j).
Proof.
  unfold mindex, pos_ok.
  destruct (i <? 0) eqn:A; [discriminate|]. destruct (j <? 0) eqn:B; [discriminate|].
  destruct (mrows m <=? i) eqn:C; [discriminate|]. destruct (mcols m <=? j) eqn:D; [discriminate|].
  simpl. intro E. inversion E. apply Z.ltb_ge in A, B. apply Z.leb_gt in C, D. lia.
Qed.
Lemma mindex_ok m i j : pos_ok m i j -> mindex m i j = Some ((roff m + i) * cmax m + (coff m + j)).
Proof.
  unfold mindex, pos_ok. intros [[A C] [B D]].
  destruct (i <? 0) eqn:A'; [apply Z.ltb_lt in A'; lia|]. destruct (j <? 0) eqn:B'; [apply Z.ltb_lt in B'; lia|].
  destruct (mrows m <=? i) eqn:C'; [apply Z.leb_le in C'; lia|].
  destruct (mcols m <=? j) eqn:D'; [apply Z.leb_le in D'; lia|]. reflexivity.
Qed.
Lemma pos_bound r c i j : 0 <= i < r -> 0 <= j < c -> 0 <= i * c + j < r * c.
Proof. intros. nia. Qed.
Lemma mindex_whole m i j k :
  Whole m -> mindex m i j = Some k -> pos_ok m i j /\ k = i * mcols m + j /\ 0 <= k < dim (mv m).
Proof.
  intros (H1 & H2 & H3 & H4 & H5 & H6 & H7) E. apply mindex_Some in E. destruct E as [P E].
  rewrite H3, H4, H6 in E. split; auto. assert (k = i * mcols m + j) by lia. split; auto.
  subst k. rewrite H7. destruct P. rewrite H. apply pos_bound; auto.
Qed.
Lemma mindex_whole_ok m i j : Whole m -> pos_ok m i j -> mindex m i j = Some (i * mcols m + j).
Proof.
  intros (H1 & H2 & H3 & H4 & H5 & H6 & H7) P. rewrite (mindex_ok _ _ _ P), H3, H4, H6. simpl. reflexivity.
Qed.

(* ---- no operation on a vector used here changes its length ------------------ *)
Lemma skip_dim f : forall h v cur v' c', skip f h v cur = Some (v', c') -> dim v' = dim v.
Proof.
  induction f as [|f IH]; intros h v cur v' c'; simpl; destruct cur as [k|];
    try (intro E; inversion E; subst; auto; fail).
  - destruct (isnull h v k); intro E; inversion E; subst; auto.
  - destruct (isnull h v k).
    + intro E. apply IH in E. exact E.
    + intro E; inversion E; subst; auto.
Qed.
Lemma it_next_dim h v cur v' c' : it_next h v cur = Some (v', c') -> dim v' = dim v.
Proof. unfold it_next. destruct cur; intro E; [eapply skip_dim; eauto|inversion E; auto]. Qed.
Lemma it_begin_dim h v v' c' : it_begin h v = Some (v', c') -> dim v' = dim v.
Proof. unfold it_begin. apply skip_dim. Qed.
Lemma iter_loop_dim f : forall h v cur acc v' s, iter_loop f h v cur acc = Some (v', s) -> dim v' = dim v.
Proof.
  induction f as [|f IH]; intros h v cur acc v' s; simpl; destruct cur as [k|];
    try (intro E; inversion E; subst; auto; fail); try discriminate.
  destruct (lookup k (vals v)); [|discriminate].
  destruct (it_next h v (Some k)) as [[v1 c1]|] eqn:N; [|discriminate].
  intro E. apply IH in E. rewrite E. eapply it_next_dim; eauto.
Qed.
Lemma iter_part_dim n : forall h v cur acc v' s, iter_part n h v cur acc = Some (v', s) -> dim v' = dim v.
Proof.
  induction n as [|n IH]; intros h v cur acc v' s; simpl.
  - intro E; inversion E; auto.
  - destruct cur as [k|]; [|intro E; inversion E; auto].
    destruct (lookup k (vals v)); [|discriminate].
    destruct (it_next h v (Some k)) as [[v1 c1]|] eqn:N; [|discriminate].
    intro E. apply IH in E. rewrite E. eapply it_next_dim; eauto.
Qed.
Lemma iterate_dim h v v' s : iterate h v = Some (v', s) -> dim v' = dim v.
Proof.
  unfold iterate. destruct (it_begin h v) as [[v1 c1]|] eqn:B; [|discriminate].
  intro E. apply iter_loop_dim in E. rewrite E. eapply it_begin_dim; eauto.
Qed.

(* ---- AT(i,j), and the loops built from it ----------------------------------- *)
Lemma MInv_mat_at h m i j h' m' l : MInv m -> mat_at h m i j = Some (h', m', l) -> MInv m'.
Proof.
  intros [I W]. unfold mat_at. destruct (mindex m i j) as [k|]; [|discriminate].
  destruct (at_ h (mv m) k) as [[[h1 v1] l1]|] eqn:A; [|discriminate].
  intro E. inversion E. subst. apply MInv_set_mv; [split; auto| |].
  - eapply Inv_at; eauto.
  - eapply dim_at; eauto.
Qed.
Lemma mat_at_dims h m i j h' m' l : mat_at h m i j = Some (h', m', l) -> mdims m' = mdims m.
Proof.
  unfold mat_at. destruct (mindex m i j) as [k|]; [|discriminate].
  destruct (at_ h (mv m) k) as [[[h1 v1] l1]|]; [|discriminate].
  intro E. inversion E. subst. reflexivity.
Qed.
Lemma set_list_MInv es : forall h m h' m' ok, MInv m -> set_list es h m = (h', m', ok) -> MInv m'.
Proof.
  induction es as [|[[i j] x] es IH]; intros h m h' m' ok I; simpl.
  - intro E. inversion E. subst. auto.
  - destruct (mat_at h m i j) as [[[h1 m1] l]|] eqn:A.
    + intro E. eapply IH; [|exact E]. eapply MInv_mat_at; eauto.
    + intro E. inversion E. subst. auto.
Qed.
Lemma set_list_dims es : forall h m h' m' ok, set_list es h m = (h', m', ok) -> mdims m' = mdims m.
Proof.
  induction es as [|[[i j] x] es IH]; intros h m h' m' ok; simpl.
  - intro E. inversion E. subst. auto.
  - destruct (mat_at h m i j) as [[[h1 m1] l]|] eqn:A.
    + intro E. apply IH in E. rewrite E. eapply mat_at_dims; eauto.
    + intro E. inversion E. subst. auto.
Qed.
Lemma map_list_MInv f ps : forall h m h' m' ok, MInv m -> map_list f ps h m = (h', m', ok) -> MInv m'.
Proof.
  induction ps as [|[i j] ps IH]; intros h m h' m' ok I; simpl.
  - intro E. inversion E. subst. auto.
  - destruct (mat_at h m i j) as [[[h1 m1] l]|] eqn:A.
    + intro E. eapply IH; [|exact E]. eapply MInv_mat_at; eauto.
    + intro E. inversion E. subst. auto.
Qed.
Lemma map_list_dims f ps : forall h m h' m' ok, map_list f ps h m = (h', m', ok) -> mdims m' = mdims m.
Proof.
  induction ps as [|[i j] ps IH]; intros h m h' m' ok; simpl.
  - intro E. inversion E. subst. auto.
  - destruct (mat_at h m i j) as [[[h1 m1] l]|] eqn:A.
    + intro E. apply IH in E. rewrite E. eapply mat_at_dims; eauto.
    + intro E. inversion E. subst. auto.
Qed.

(* ---- the iterator write loop (Set loop 1, SetIdentity loop 1, Reset) -------- *)
Lemma wr_loop_Inv f : forall rd m h v cur h' v' ok,
  Inv v -> wr_loop f rd m h v cur = Some (h', v', ok) -> Inv v' /\ dim v' = dim v.
Proof.
  induction f as [|f IH]; intros rd m h v cur h' v' ok I; simpl; destruct cur as [k|];
    try (intro E; inversion E; subst; auto; fail); try discriminate.
  destruct (lookup k (vals v)) as [l|]; [|discriminate].
  destruct (rd h v _ _) as [x|]; [|intro E; inversion E; subst; auto].
 destruct (it_next (hset h l x) v (Some k)) as [[v1 c1]|] eqn:N; [|discriminate].
  intro E. apply IH in E; [|eapply Inv_it_next; eauto]. destruct E as [E1 E2]. split; auto.
  rewrite E2. eapply it_next_dim; eauto.
Qed.
Lemma wr_all_MInv rd h m h' m' ok : MInv m -> wr_all rd h m = Some (h', m', ok) -> MInv m'.
Proof.
  intros [I W]. unfold wr_all. destruct (it_begin h (mv m)) as [[v0 cur]|] eqn:B; [|discriminate].
  destruct (wr_loop (sfuel (mv m)) rd m h v0 cur) as [[[h1 v1] ok1]|] eqn:L; [|discriminate].
  intro E. inversion E. subst. apply wr_loop_Inv in L; [|eapply Inv_it_begin; eauto].
  destruct L as [L1 L2]. apply MInv_set_mv; [split; auto|auto|].
  rewrite L2. eapply it_begin_dim; eauto.
Qed.
Lemma wr_all_dims rd h m h' m' ok : wr_all rd h m = Some (h', m', ok) -> mdims m' = mdims m.
Proof.
  unfold wr_all. destruct (it_begin h (mv m)) as [[v0 cur]|]; [|discriminate].
  destruct (wr_loop (sfuel (mv m)) rd m h v0 cur) as [[[h1 v1] ok1]|]; [|discriminate].
  intro E. inversion E. reflexivity.
Qed.

(* ---- second loop of Set(b), b sparse ---------------------------------------- *)
Lemma mat_at_vec h a va i j h1 a1 l :
  Inv va -> mat_at h (set_mv a va) i j = Some (h1, a1, l) -> Inv (mv a1) /\ dim (mv a1) = dim va.
Proof.
  intro I. unfold mat_at. destruct (mindex (set_mv a va) i j) as [k|]; [|discriminate].
  cbn [mv set_mv]. destruct (at_ h va k) as [[[h2 v2] l2]|] eqn:A2; [|discriminate].
  intro E. inversion E. subst. cbn [mv set_mv]. split; [eapply Inv_at; eauto|eapply dim_at; eauto].
Qed.
Lemma set2_loop_Inv f : forall same a b h va vb cur h' va' vb' ok,
  Inv va -> Inv vb -> (same = true -> va = vb) ->
  set2_loop f same a b h va vb cur = Some (h', va', vb', ok) ->
  Inv va' /\ Inv vb' /\ dim va' = dim va /\ dim vb' = dim vb.
Proof.
  induction f as [|f IH]; intros same a b h va vb cur h' va' vb' ok Ia Ib Hs; cbn [set2_loop];
    destruct cur as [k|];
    try (intro E; inversion E; subst; split; [assumption|split; [assumption|split; reflexivity]]); try discriminate.
  destruct (lookup k (vals vb)) as [l|]; [|discriminate].
  destruct (mij b k) as [i j].
  destruct (mat_at h (set_mv a va) i j) as [[[h1 a1] l']|] eqn:A;
    [|intro E; inversion E; subst; split; [assumption|split; [assumption|split; reflexivity]]].
  destruct (mat_at_vec _ _ _ _ _ _ _ _ Ia A) as [I1 D1]. cbv zeta.
  destruct same.
  - specialize (Hs eq_refl). subst vb. cbv iota.
    destruct (it_next (hset h1 l' (hget h1 l)) (mv a1) (Some k)) as [[vb2 c2]|] eqn:N; [|discriminate].
    assert (I2 : Inv vb2) by (eapply Inv_it_next; [exact I1|exact N]).
    intro E. apply (IH _ _ _ _ _ _ _ _ _ _ _ I2 I2 (fun _ => eq_refl)) in E.
    destruct E as (E1 & E2 & E3 & E4). pose proof (it_next_dim _ _ _ _ _ N) as D2.
    split; [auto|split; [auto|split; congruence]].
  - cbv iota. destruct (it_next (hset h1 l' (hget h1 l)) vb (Some k)) as [[vb2 c2]|] eqn:N; [|discriminate].
    assert (I2 : Inv vb2) by (eapply Inv_it_next; [exact Ib|exact N]).
    assert (Hf : false = true -> mv a1 = vb2) by discriminate.
    intro E. apply (IH _ _ _ _ _ _ _ _ _ _ _ I1 I2 Hf) in E.
    destruct E as (E1 & E2 & E3 & E4). pose proof (it_next_dim _ _ _ _ _ N) as D2.
    split; [auto|split; [auto|split; congruence]].
Qed.

(* ---- worlds ------------------------------------------------------------------ *)
Lemma MInv_null r c : 0 <= r -> 0 <= c -> MInv (null_mat r c).
Proof.
  intros Hr Hc. split.
  - apply Inv_nil. nia.
  - unfold Whole, null_mat. cbn. repeat split; auto.
Qed.
Lemma MWInv_getm w t : MWInv w -> MInv (getm w t).
Proof. intro H. unfold getm. apply Forall_nth_d; auto. apply MInv_null; lia. Qed.
Lemma MWInv_setm w t m : MWInv w -> MInv m -> MWInv (setm w t m).
Proof. intros H Hm. unfold MWInv, setm. simpl. apply Forall_upd; auto. Qed.
Lemma MWInv_msetH w h : MWInv w -> MWInv (msetH w h).
Proof. auto. Qed.
Lemma MWInv_addm w m : MWInv w -> MInv m -> MWInv (addm w m).
Proof. intros H Hm. unfold MWInv, addm. simpl. apply Forall_app. auto. Qed.

Lemma mset_MWInv w t o w' ok : MWInv w -> mset w t o = Some (w', ok) -> MWInv w'.
Proof.
  intro H. pose proof (MWInv_getm w t H) as Ia. unfold mset.
  destruct o as [u|r c xs].
  - destruct (negb (mrows (getm w t) =? mrows (getm w u)) || negb (mcols (getm w t) =? mcols (getm w u)));
      [intro E; inversion E; subst; auto|].
    destruct (wr_all _ (mhp w) (getm w t)) as [[[h1 a1] ok1]|] eqn:W1; [|discriminate].
    pose proof (wr_all_MInv _ _ _ _ _ _ Ia W1) as I1.
    destruct ok1; [|intro E; inversion E; subst; apply MWInv_setm; auto].
    destruct (Nat.eqb u t) eqn:Eut.
    + destruct (it_begin h1 (mv a1)) as [[vb0 cur]|] eqn:B; [|discriminate].
      destruct (set2_loop (sfuel (mv a1)) true a1 a1 h1 vb0 vb0 cur) as [[[[h2 va] vb] ok2]|] eqn:L; [|discriminate].
      intro E. inversion E. subst w' ok. clear E.
      assert (I0 : Inv vb0) by (eapply Inv_it_begin; [apply I1|exact B]).
      destruct (set2_loop_Inv _ _ _ _ _ _ _ _ _ _ _ _ I0 I0 (fun _ => eq_refl) L) as (E1 & E2 & E3 & E4).
      pose proof (it_begin_dim _ _ _ _ B) as D0.
      apply MWInv_setm; [apply MWInv_setm; auto|]; apply MInv_set_mv; auto; congruence.
    + pose proof (MWInv_getm w u H) as Ib.
      destruct (it_begin h1 (mv (getm w u))) as [[vb0 cur]|] eqn:B; [|discriminate].
      destruct (set2_loop (sfuel (mv (getm w u))) false a1 (getm w u) h1 (mv a1) vb0 cur)
        as [[[[h2 va] vb] ok2]|] eqn:L; [|discriminate].
      intro E. inversion E. subst w' ok. clear E.
      assert (I0 : Inv vb0) by (eapply Inv_it_begin; [apply Ib|exact B]).
      assert (Iv : Inv (mv a1)) by apply I1.
      assert (Hf : false = true -> mv a1 = vb0) by discriminate.
      destruct (set2_loop_Inv _ _ _ _ _ _ _ _ _ _ _ _ Iv I0 Hf L) as (E1 & E2 & E3 & E4).
      pose proof (it_begin_dim _ _ _ _ B) as D0.
      apply MWInv_setm; [apply MWInv_setm; auto|]; apply MInv_set_mv; auto; congruence.
  - destruct (negb (mrows (getm w t) =? r) || negb (mcols (getm w t) =? c));
      [intro E; inversion E; subst; auto|].
    destruct (wr_all _ (mhp w) (getm w t)) as [[[h1 a1] ok1]|] eqn:W1; [|discriminate].
    pose proof (wr_all_MInv _ _ _ _ _ _ Ia W1) as I1.
    destruct ok1; [|intro E; inversion E; subst; apply MWInv_setm; auto].
    destruct (set_list (dense_entries r c xs) h1 a1) as [[h2 a2] ok2] eqn:S.
    intro E. inversion E. subst. apply MWInv_setm; auto. eapply set_list_MInv; eauto.
Qed.

(* ---- Swap, SwapRows, SwapColumns -------------------------------------------- *)
Lemma mswap_MInv m i1 j1 i2 j2 m' : MInv m -> mswap m i1 j1 i2 j2 = Some m' -> MInv m' /\ mdims m' = mdims m.
Proof.
  intros [I W]. unfold mswap.
  destruct (mindex m i1 j1) as [k1|] eqn:E1; [|discriminate].
  destruct (mindex m i2 j2) as [k2|] eqn:E2; [|discriminate].
  intro E. inversion E. subst. split; [|reflexivity].
  apply mindex_whole in E1; auto. apply mindex_whole in E2; auto.
  apply MInv_set_mv; [split; auto| |apply dim_swap].
  apply Inv_swap; auto; unfold idx_ok; tauto.
Qed.
Lemma swap_seq_MInv qs : forall m m' ok, MInv m -> swap_seq qs m = (m', ok) -> MInv m' /\ mdims m' = mdims m.
Proof.
  induction qs as [|[[[i1 j1] i2] j2] qs IH]; intros m m' ok I; simpl.
  - intro E. inversion E. subst. auto.
  - destruct (mswap m i1 j1 i2 j2) as [m1|] eqn:S.
    + destruct (mswap_MInv _ _ _ _ _ _ I S) as [I1 D1]. intro E. apply IH in E; auto.
      destruct E as [E1 E2]. split; auto. congruence.
    + intro E. inversion E. subst. auto.
Qed.
Lemma mswap_rows_MInv m i j : MInv m -> MInv (fst (mswap_rows m i j)) /\ mdims (fst (mswap_rows m i j)) = mdims m.
Proof.
  intro I. unfold mswap_rows. destruct (negb (mrows m =? mcols m)); [auto|].
  destruct (swap_seq _ m) as [m' ok] eqn:S. simpl. eapply swap_seq_MInv; eauto.
Qed.
Lemma mswap_cols_MInv m i j : MInv m -> MInv (fst (mswap_cols m i j)) /\ mdims (fst (mswap_cols m i j)) = mdims m.
Proof.
  intro I. unfold mswap_cols. destruct (negb (mrows m =? mcols m)); [auto|].
  destruct (swap_seq _ m) as [m' ok] eqn:S. simpl. eapply swap_seq_MInv; eauto.
Qed.

(* ---- T() ---------------------------------------------------------------------- *)
Lemma t_loop_MInv src es : forall m m', MInv m -> t_loop src es m = Some m' -> MInv m' /\ mdims m' = mdims m.
Proof.
  induction es as [|[k1 l] es IH]; intros m m' I; cbn [t_loop].
  - intro E. inversion E. subst. auto.
  - destruct (mij src k1) as [i1 j1]. destruct (mindex m j1 i1) as [k2|] eqn:E2; [|discriminate].
    intro E. apply IH in E.
    + destruct E as [E1 E3]. split; auto.
    + destruct I as [I W]. apply mindex_whole in E2; auto. apply MInv_set_mv; [split; auto| |reflexivity].
      apply Inv_add; auto. tauto.
Qed.
Lemma mtrans_MInv m m' : MInv m -> mtrans m = Some m' -> MInv m' /\ mdims m' = (mcols m, mrows m).
Proof.
  intros [I (H1 & H2 & H3 & H4 & H5 & H6 & H7)]. unfold mtrans. intro E. apply t_loop_MInv in E; [exact E|].
  split.
  - cbn [mv]. apply Inv_nil. apply I.
  - unfold Whole. cbn [mv mrows mcols roff rmax coff cmax nil_vec dim]. repeat split; auto. rewrite H7. ring.
Qed.

(* ---- Tip() -------------------------------------------------------------------- *)
Lemma zseq_In a n x : In x (zseq a n) -> a <= x < a + Z.of_nat n.
Proof.
  revert a. induction n as [|n IH]; intros a; simpl; [tauto|].
  intros [->|H]; [lia|]. apply IH in H. lia.
Qed.
Lemma tip_inner_Inv f : forall r mn1 cycle k vis v v' vis',
  Inv v -> 0 <= r -> 0 < mn1 -> mn1 < dim v -> 0 <= k <= mn1 -> 0 <= cycle <= mn1 ->
  tip_inner f r mn1 cycle k vis v = Some (v', vis') -> Inv v' /\ dim v' = dim v.
Proof.
  induction f as [|f IH]; intros r mn1 cycle k vis v v' vis' I Hr Hm Hd Hk Hc; cbn [tip_inner]; [discriminate|].
  cbv zeta.
  set (k' := if k =? mn1 then k else Z.rem (r * k) mn1).
  assert (Hk' : 0 <= k' <= mn1).
  { unfold k'. destruct (k =? mn1); [lia|].
    assert (0 <= r * k) by nia. pose proof (Z.rem_bound_pos (r * k) mn1 H Hm). lia. }
  assert (I1 : Inv (swap v k' cycle)) by (apply Inv_swap; auto; unfold idx_ok; lia).
  destruct (k' =? cycle).
  - intro E. inversion E. subst. split; auto. apply dim_swap.
  - intro E. apply IH in E; auto; rewrite ?dim_swap; auto. destruct E as [E1 E2]. split; auto.
    rewrite E2. apply dim_swap.
Qed.
Lemma tip_outer_Inv cs : forall r mn vis v v',
  Inv v -> 0 <= r -> mn = dim v -> Forall (fun c => 1 <= c <= mn - 1) cs ->
  tip_outer cs r mn vis v = Some v' -> Inv v' /\ dim v' = dim v.
Proof.
  induction cs as [|cy cs IH]; intros r mn vis v v' I Hr Hmn F; cbn [tip_outer].
  - intro E. inversion E. subst. auto.
  - inversion F as [|? ? Hc Fr]; subst.
    destruct (kmem cy vis).
    + apply IH; auto.
    + destruct (tip_inner (S (Z.to_nat (dim v))) r (dim v - 1) cy cy vis v) as [[v1 vis1]|] eqn:T; [|discriminate].
      apply tip_inner_Inv in T; auto; try lia. destruct T as [T1 T2].
      intro E. assert (Hmn : dim v = dim v1) by congruence.
      rewrite Hmn in Fr, E. apply (IH _ _ _ _ _ T1 Hr eq_refl Fr) in E.
      destruct E as [E1 E2]. split; [exact E1|congruence].
Qed.
Lemma mtip_MInv m m' : MInv m -> mtip m = Some m' -> MInv m' /\ mdims m' = (mcols m, mrows m).
Proof.
  intros [I (H1 & H2 & H3 & H4 & H5 & H6 & H7)]. unfold mtip.
  destruct (tip_outer _ (mrows m) (dim (mv m)) [] (mv m)) as [v'|] eqn:T; [|discriminate].
  intro E. inversion E. subst m'. clear E. apply tip_outer_Inv in T; auto.
  - destruct T as [T1 T2]. split; [|reflexivity]. split; [exact T1|].
    unfold Whole. cbn [mv mrows mcols roff rmax coff cmax]. repeat split; auto. rewrite T2, H7. ring.
  - apply Forall_forall. intros x Hx. apply zseq_In in Hx.
    assert (0 <= dim (mv m)) by apply I. lia.
Qed.

(* ---- every in-range operation keeps every matrix of the world coherent ------- *)
Lemma mstep_MWInv w o : MWInv w -> min_range w o -> MWInv (fst (mstep w o)).
Proof.
  intros H R. assert (G : forall t, MInv (getm w t)) by (intro t0; apply MWInv_getm; auto).
  destruct o; cbn [mstep].
  - (* NewMat *) destruct R as (R1 & R2 & R3 & R4 & R5).
    destruct (new_mat (mhp w) ris cis xs r c) as [[h' m]|] eqn:E; simpl; auto.
    apply MWInv_addm; auto. unfold new_mat in E.
    destruct (negb (Nat.eqb (length ris) (length cis)) || negb (Nat.eqb (length cis) (length xs))); [discriminate|].
    destruct (set_list _ (mhp w) (null_mat r c)) as [[h1 m1] ok] eqn:S.
    destruct ok; [|discriminate]. inversion E. subst. eapply set_list_MInv; [|exact S]. apply MInv_null; auto.
  - (* MAt *) destruct (mat_at (mhp w) (getm w t) i j) as [[[h' m'] l]|] eqn:E; simpl; auto.
    apply MWInv_setm; auto. eapply MInv_mat_at; eauto.
  - (* MSetAt *) destruct (mat_at (mhp w) (getm w t) i j) as [[[h' m'] l]|] eqn:E; simpl; auto.
    apply MWInv_setm; auto. eapply MInv_mat_at; eauto.
  - (* MConstAt *) destruct (mconst_at (mhp w) (getm w t) i j); simpl; auto.
  - (* MSet *) destruct (mset w t o) as [[w' ok]|] eqn:E; simpl; auto. eapply mset_MWInv; eauto.
  - (* MReset *) unfold mreset. destruct (wr_all _ (mhp w) (getm w t)) as [[[h' m'] ok]|] eqn:E; simpl; auto.
    apply MWInv_setm; auto. eapply wr_all_MInv; eauto.
  - (* MSetIdentity *) unfold mset_identity.
    destruct (wr_all _ (mhp w) (getm w t)) as [[[h1 m1] ok1]|] eqn:E; simpl; auto.
    pose proof (wr_all_MInv _ _ _ _ _ _ (G t) E) as I1.
    destruct ok1; [|simpl; apply MWInv_setm; auto].
    destruct (set_list _ h1 m1) as [[h2 m2] ok2] eqn:S. simpl.
    apply MWInv_setm; auto. eapply set_list_MInv; eauto.
  - (* MSwap *) destruct (mswap (getm w t) i1 j1 i2 j2) as [m'|] eqn:E; simpl; auto.
    apply MWInv_setm; auto. eapply mswap_MInv; eauto.
  - (* MSwapRows *) pose proof (mswap_rows_MInv (getm w t) i j (G t)) as [Q _].
    destruct (mswap_rows (getm w t) i j) as [m' k]. simpl in *. apply MWInv_setm; auto.
  - (* MSwapColumns *) pose proof (mswap_cols_MInv (getm w t) i j (G t)) as [Q _].
    destruct (mswap_cols (getm w t) i j) as [m' k]. simpl in *. apply MWInv_setm; auto.
  - (* MT *) destruct (mtrans (getm w t)) as [m'|] eqn:E; simpl; auto.
    apply MWInv_addm; auto. eapply mtrans_MInv; eauto.
  - (* MTip *) destruct (mtip (getm w t)) as [m'|] eqn:E; simpl; auto.
    apply MWInv_setm; auto. eapply mtip_MInv; eauto.
  - (* MClone *) destruct (clone (mhp w) (mv (getm w t))) as [h1 v] eqn:C. simpl.
    apply MWInv_addm; auto.
    pose proof (Inv_clone (mhp w) (mv (getm w t)) (proj1 (G t))) as Q0.
    pose proof (clone_idx_dim (mhp w) (mv (getm w t))) as [_ Q1]. rewrite C in Q0, Q1. simpl in Q0, Q1.
    apply MInv_set_mv; auto.
  - (* MIterate *) destruct (iterate (mhp w) (mv (getm w t))) as [[v' s]|] eqn:E; simpl; auto.
    apply MWInv_setm; auto. apply MInv_set_mv; auto.
    + eapply Inv_iterate; [apply (G t)|exact E].
    + eapply iterate_dim; eauto.
  - (* MIterPart *) destruct (it_begin (mhp w) (mv (getm w t))) as [[v0 cur]|] eqn:B; simpl; auto.
    destruct (iter_part n (mhp w) v0 cur []) as [[v' s]|] eqn:E; simpl; auto.
    apply MWInv_setm; auto. apply MInv_set_mv; auto.
    + eapply Inv_iter_part; [|exact E]. eapply Inv_it_begin; [apply (G t)|exact B].
    + rewrite (iter_part_dim _ _ _ _ _ _ _ E). eapply it_begin_dim; eauto.
  - (* MMapMul *) destruct (map_list _ _ (mhp w) (getm w t)) as [[h' m'] ok] eqn:E. simpl.
    apply MWInv_setm; auto. eapply map_list_MInv; eauto.
  - (* MMapSetMul *) destruct (map_list _ _ (mhp w) (getm w t)) as [[h' m'] ok] eqn:E. simpl.
    apply MWInv_setm; auto. eapply map_list_MInv; eauto.
  - simpl. auto.
  - simpl. auto.
  - destruct (mrow (mhp w) (getm w t) i) as [[h' r]|]; simpl; auto.
  - destruct (mcol (mhp w) (getm w t) j) as [[h' r]|]; simpl; auto.
  - destruct (mdiag (mhp w) (getm w t)) as [[h' r]|]; simpl; auto.
Qed.

Lemma MWInv_minit : MWInv minit.
Proof. constructor. Qed.
Lemma mrun_MWInv ops : forall w, MWInv w -> mvalid w ops -> MWInv (mrun w ops).
Proof.
  induction ops as [|o r IH]; intros w H V; simpl; auto.
  destruct V as [V1 V2]. apply IH; auto. apply mstep_MWInv; auto.
Qed.
