(* C11, round 6 — the plain dense reading of the matrix permutations (ModelMatPerm.v).
   Spec-level file (short, no proofs).

   On a plain dense n x n matrix PermuteRows(pi) performs, for i = 0 .. n-1 in this order,
   the exchange of the rows i and pi[i] whenever pi[i] > i (this is what the dense matrix
   types of the library do as well: matrix_dense_template.in has the same loop);
   PermuteColumns the same on columns; SymmetricPermutation exchanges rows i and pi[i] and
   then columns i and pi[i].  A non-square matrix is answered by an error and nothing
   happens.  No dimension changes. *)
From Coq Require Import ZArith List Bool Lia.
From ADV Require Import C11.Model C11.Spec C11.Dense C11.ModelMat C11.ProofsMatSpec C11.ProofsMatDense C11.DenseMat
                        C11.ModelMatFrom C11.DenseMatFrom C11.ModelMatPerm.
Import ListNotations.
Open Scope Z_scope.

Fixpoint dperm_loop (body : dmat -> Z -> Z -> dmat) (pi : list Z) (is : list Z) (a : dmat) : dmat :=
  match is with
  | [] => a
  | i :: r => let p := nth (Z.to_nat i) pi 0 in dperm_loop body pi r (if i <? p then body a i p else a)
  end.
Definition dm_perm_rows (a : dmat) (pi : list Z) : dmat :=
  if negb (dr a =? dc a) then a else dperm_loop dm_swap_rows pi (zseq 0 (Z.to_nat (dr a))) a.
Definition dm_perm_cols (a : dmat) (pi : list Z) : dmat :=
  if negb (dr a =? dc a) then a else dperm_loop dm_swap_cols pi (zseq 0 (Z.to_nat (dc a))) a.
Definition dm_sym_body (a : dmat) (i p : Z) : dmat := dm_swap_cols (dm_swap_rows a i p) i p.
Definition dm_sym_perm (a : dmat) (pi : list Z) : dmat :=
  if negb (dr a =? dc a) then a else dperm_loop dm_sym_body pi (zseq 0 (Z.to_nat (dr a))) a.

Definition mdstep3 (d : dmworld) (o : mop3) : dmworld :=
  match o with
  | M2 o => mdstep2 d o
  | MPermRows t pi => upd t (dm_perm_rows (dmget d t) pi) d
  | MPermCols t pi => upd t (dm_perm_cols (dmget d t) pi) d
  | MSymPerm t pi => upd t (dm_sym_perm (dmget d t) pi) d
  end.
Definition mdense_run3 (d : dmworld) (ops : list mop3) : dmworld := fold_left mdstep3 ops d.
Definition mdout3 (d : dmworld) (o : mop3) : option (list Z) :=
  match o with M2 o => mdout2 d o | _ => Some [] end.

(* in range: pi has (at least) n entries and the first n lie in [0, n) — on a square
   n x n matrix; a non-square matrix is answered by an error whatever pi is *)
Definition perm_ok (n : Z) (pi : list Z) : Prop :=
  (Z.to_nat n <= length pi)%nat /\ Forall (fun p => 0 <= p < n) (firstn (Z.to_nat n) pi).
Definition min_range3 (w : mworld) (o : mop3) : Prop :=
  match o with
  | M2 o => min_range2 w o
  | MPermRows t pi | MPermCols t pi | MSymPerm t pi =>
      mhas w t /\ (mrows (getm w t) = mcols (getm w t) -> perm_ok (mrows (getm w t)) pi)
  end.
(* the permutations only MOVE scalars: no sharing premise *)
Definition msafe3 (w : mworld) (o : mop3) : Prop :=
  match o with M2 o => msafe2 w o | _ => True end.
Definition mcode3 (w : mworld) (o : mop3) : Z :=
  match o with
  | M2 o => mcode2 w o
  | MPermRows t _ | MPermCols t _ | MSymPerm t _ => if mrows (getm w t) =? mcols (getm w t) then K_OK else K_ERR
  end.
Fixpoint mvalid_safe3 (w : mworld) (ops : list mop3) : Prop :=
  match ops with
  | [] => True
  | o :: r => min_range3 w o /\ msafe3 w o /\ mvalid_safe3 (fst (mstep3 w o)) r
  end.

(* ---- executable versions (used by the correspondence run CorrMat4) ---------------- *)
Definition perm_okb (n : Z) (pi : list Z) : bool :=
  Nat.leb (Z.to_nat n) (length pi) && forallb (fun p => (0 <=? p) && (p <? n)) (firstn (Z.to_nat n) pi).
Definition min_rangeb3 (w : mworld) (o : mop3) : bool :=
  match o with
  | M2 o => min_rangeb2 w o
  | MPermRows t pi | MPermCols t pi | MSymPerm t pi =>
      mhasb w t && (negb (mrows (getm w t) =? mcols (getm w t)) || perm_okb (mrows (getm w t)) pi)
  end.
Definition msafeb3 (w : mworld) (o : mop3) : bool :=
  match o with M2 o => msafeb2 w o | _ => true end.
Fixpoint mdense_diverge3 (k : nat) (w : mworld) (d : dmworld) (ops : list mop3) : option nat :=
  match ops with
  | [] => None
  | o :: r =>
      let '(w', (c, p)) := mstep3 w o in
      if negb (min_rangeb3 w o) then None else
      if msafeb3 w o then
        let d' := mdstep3 d o in
        if dmw_eqb (mabsw w') d' && (c =? mcode3 w o) &&
           match mdout3 d o with Some q => zl_eqb p q | None => true end
        then mdense_diverge3 (S k) w' d' r else Some k
      else mdense_diverge3 (S k) w' (mabsw w') r
  end.
(* number of row / column exchanges a permutation operation of the history actually performs
   (non-triviality measure: a permutation with no pi[i] > i is the identity loop) *)
Definition perm_swaps (w : mworld) (o : mop3) : nat :=
  match o with
  | MPermRows t pi | MPermCols t pi | MSymPerm t pi =>
      let m := getm w t in
      if mrows m =? mcols m then
        length (filter (fun i => i <? nth (Z.to_nat i) pi 0) (zseq 0 (Z.to_nat (mrows m))))
      else O
  | _ => O
  end.
Fixpoint count_perm_swaps (w : mworld) (ops : list mop3) : nat :=
  match ops with
  | [] => O
  | o :: r => (perm_swaps w o + count_perm_swaps (fst (mstep3 w o)) r)%nat
  end.
